(* Gallina meaning of the Python operations that tools/gen/gen_msgformat_src.py emits when it translates
   lib/check/msgformat/{c,python,pybrace,perlbrace}.py (check_args) and the tail of check_message.
   Definitions only.  Every function here is total; where Python would raise (KeyError, ValueError of a
   single-element unpack, IndexError) the translator demands a syntactic guard that makes the case dead and
   these functions return a default.  Sets of keys are lists of keys (cardinality = length presupposes
   distinct elements: the keys of a dict); sorted() is a real insertion sort by the code's sort_key. *)
From Coq Require Import List ZArith NArith Bool.
From I18n Require Import Model.MsgFormat.
Import ListNotations.

(* ---- sort_key(item) = (isinstance(item, str), item): ints before strings, ints by value, strings by code point *)
Fixpoint str_ltb (a b : str) : bool :=
  match a, b with
  | [], [] => false
  | [], _ :: _ => true
  | _ :: _, [] => false
  | x :: a', y :: b' => if N.ltb x y then true else if N.eqb x y then str_ltb a' b' else false
  end.

Definition key_leb (a b : key) : bool :=
  match a, b with
  | KInt x, KInt y => Z.leb x y
  | KInt _, KStr _ => true
  | KStr _, KInt _ => false
  | KStr x, KStr y => negb (str_ltb y x)
  end.

Fixpoint kinsert (k : key) (l : list key) : list key :=
  match l with
  | [] => [k]
  | h :: t => if key_leb k h then k :: l else h :: kinsert k t
  end.

(* sorted(S, key=sort_key); also plain sorted(S) where all keys are str (python-format, perl-brace-format) *)
Fixpoint ksort (l : list key) : list key :=
  match l with
  | [] => []
  | h :: t => kinsert h (ksort t)
  end.

(* ---- key sets *)
Definition kinter (a b : list key) : list key := filter (fun k => mem_key k b) a.          (* a & b *)
Definition kdiff (a b : list key) : list key := filter (fun k => negb (mem_key k b)) a.    (* a - b *)
Definition khd (l : list key) : key := match l with k :: _ => k | [] => KInt 0 end.       (* [k] = l, under len(l) == 1 *)

(* ---- argument maps: m[k] (key known to be present), m[k][0], all(<is-int> for arg in m[k]) *)
Definition mget (m : amap) (k : key) : list str * bool :=
  match lookup k m with Some r => r | None => ([], false) end.
(* .type of a python-format conversion taken from a map: the row holds the singleton list of its type *)
Definition type_of (t : list str) : str := match t with [a] => a | _ => [] end.

(* ---- type sets of python-brace-format: a & b, truthiness *)
Definition sinter (a b : list str) : list str := filter (fun x => existsb (str_eqb x) b) a.
Definition nonempty {A} (l : list A) : bool := match l with [] => false | _ :: _ => true end.

(* ---- check_message *)
Fixpoint zlist_eqb (a b : list Z) : bool :=
  match a, b with
  | [], [] => true
  | x :: a', y :: b' => Z.eqb x y && zlist_eqb a' b'
  | _, _ => false
  end.

Definition preimage_of (m : msg_in) : list (Z * list Z) :=
  match mi_preimage m with Some p => p | None => [] end.
Definition has_msgstr (m : msg_in) : bool := match mi_msgstr m with Some _ => true | None => false end.
Definition msgstr_fmt_ok (m : msg_in) : bool := match mi_msgstr m with Some b => b | None => false end.

(* the SimpleNamespace `d` appended to `strings`: locations, whether each format object is not None, the flag *)
Record pending := { pd_src_loc : loc; pd_src_fmt : bool; pd_dst_loc : loc; pd_dst_fmt : bool; pd_omit : bool }.

(* Executable model of lib/strformat/pybrace.py: FormatString.__init__ (finditer over _field_re),
   add_argument, Field.__init__ (with _format_spec_re and _simple_field_re), the final type intersection.

   Every regular expression is replaced by the deterministic scanner that returns what the backtracking
   engine returns (leftmost alternative, greedy, then backtrack): in these patterns a shorter choice never
   rescues a failed longer one, because what follows a name / conversion / digit run / non-brace run
   must be a character the run itself could not contain.  This reading needs  ! : . [ ] { } , % and the
   alignment characters not to be \w, and a \d character to be \w: facts of the generated tables
   (Props/C13.v, C13_ucd_facts).  The equivalence itself is tied by the correspondence check, not proved.

   Oracles: \w, \d of the re module; str.isdecimal; the decimal value of a \d character;
   the interpreter's int_max_str_digits (0 = unlimited). *)
From Coq Require Import List NArith ZArith Bool.
From I18n Require Import Lib.Outcome.
Import ListNotations.
Local Open Scope N_scope.

Record ucd := {
  u_w : N -> bool;            (* re \w *)
  u_d : N -> bool;            (* re \d *)
  u_isdecimal : N -> bool;    (* str.isdecimal, one character *)
  u_decval : N -> option N;   (* int(ch) for a decimal character *)
  u_maxd : N }.               (* sys.get_int_max_str_digits() *)

Inductive pb_err :=
| BError (printable_prefix : list N)      (* Error(_printable_prefix(s[last_pos:])) *)
| BFieldError (text : list N)             (* Error(s): unknown presentation type; s = the field's text *)
| BConversionError | BFormatError | BFormatTypeMismatch
| BNumberingMixture | BRangeError | BTypeMismatch.

Inductive akey := KNum (n : Z) | KName (s : list N).

(* the type set {'str', 'int', 'float'} as three flags *)
Record tset := { t_str : bool; t_int : bool; t_float : bool }.
Definition t_all : tset := {| t_str := true; t_int := true; t_float := true |}.
Definition t_and (a b : tset) : tset :=
  {| t_str := t_str a && t_str b; t_int := t_int a && t_int b; t_float := t_float a && t_float b |}.
Definition t_empty (a : tset) : bool := negb (t_str a || t_int a || t_float a).
Definition t_num : tset := {| t_str := false; t_int := true; t_float := true |}.

Definition pb_ssize_max_std : Z := 2147483647.

Section PyBrace.
Variable U : ucd.
Variable ssize_max : Z.

Fixpoint span (p : N -> bool) (s : list N) : list N * list N :=
  match s with
  | c :: r => if p c then let '(a, b) := span p r in (c :: a, b) else ([], s)
  | [] => ([], [])
  end.

Definition ident_start (c : N) : bool := u_w U c && negb (u_d U c).     (* [^\W\d] *)

(* [^\W\d]\w*  at the head of s *)
Definition m_ident (s : list N) : option (list N * list N) :=
  match s with
  | c :: r => if ident_start c then let '(w, r') := span (u_w U) r in Some (c :: w, r') else None
  | [] => None
  end.

(* (?: [.] [^\W\d]\w* | \[ [^]]+ \] )*  : the text consumed and the rest; fuel >= length s *)
Fixpoint m_name_tail (fuel : nat) (s : list N) : list N * list N :=
  match fuel with
  | O => ([], s)
  | S fuel' =>
    match s with
    | c :: r =>
      if c =? 46 then                                    (* . *)
        match m_ident r with
        | Some (id, r') => let '(t, r'') := m_name_tail fuel' r' in (c :: id ++ t, r'')
        | None => ([], s)
        end
      else if c =? 91 then                               (* [ *)
        let '(ix, r') := span (fun x => negb (x =? 93)) r in
        match ix, r' with
        | _ :: _, c' :: r'' =>                           (* c' is the ] *)
          let '(t, r3) := m_name_tail fuel' r'' in (c :: ix ++ c' :: t, r3)
        | _, _ => ([], s)
        end
      else ([], s)
    | [] => ([], [])
    end
  end.

(* _field_name_pattern at the head of s *)
Definition m_field_name (s : list N) : option (list N * list N) :=
  match s with
  | c :: _ =>
    if u_d U c then
      let '(ds, r) := span (u_d U) s in
      let '(t, r') := m_name_tail (length r) r in Some (ds ++ t, r')
    else
      match m_ident s with
      | Some (id, r) => let '(t, r') := m_name_tail (length r) r in Some (id ++ t, r')
      | None => None
      end
  | [] => None
  end.

(* _simple_field_pattern  [{] (?: name )? [}]  at the head of s: the name (None when empty) and the rest *)
Definition m_simple_field (s : list N) : option (option (list N) * list N) :=
  match s with
  | c :: r =>
    if c =? 123 then
      let '(nm, r1) := match m_field_name r with Some (n, r') => (Some n, r') | None => (None, r) end in
      match r1 with
      | c1 :: r2 => if c1 =? 125 then Some (nm, r2) else None
      | [] => None
      end
    else None
  | [] => None
  end.

Definition not_brace (c : N) : bool := negb ((c =? 123) || (c =? 125)).

(* the body of (?P<format> : (?: [^{}]* | simple_field )* ): text consumed, the names of the simple fields in
   order (what _simple_field_re.findall finds in it), the rest.  None: a "{" that opens no simple field *)
Fixpoint m_format_body (fuel : nat) (s : list N) : option (list N * list (option (list N)) * list N) :=
  match fuel with
  | O => None
  | S fuel' =>
    let '(run, r) := span not_brace s in
    match r with
    | c :: _ =>
      if c =? 123 then
        match m_simple_field r with
        | Some (nm, r') =>
          match m_format_body fuel' r' with
          | Some (t, ns, r'') =>
            Some (run ++ firstn (length r - length r') r ++ t, nm :: ns, r'')
          | None => None
          end
        | None => None
        end
      else Some (run, [], r)                             (* a "}" *)
    | [] => Some (run, [], [])
    end
  end.

Record field_match := {
  f_text : list N;                        (* match.group() *)
  f_name : option (list N);
  f_conv : option (list N);               (* with the "!" *)
  f_fmt : option (list N);                (* with the ":" *)
  f_nested : list (option (list N)) }.    (* names of the simple fields inside the format *)

Inductive pb_item := BLit (t : list N) | BField (f : field_match).

(* the literal alternative: (?: [^{}] | [{]{2} | [}]{2} )+ *)
Fixpoint m_literal (s : list N) : list N * list N :=
  match s with
  | c :: r =>
    if not_brace c then let '(a, b) := m_literal r in (c :: a, b)
    else match r with
         | c' :: r' => if c' =? c then let '(a, b) := m_literal r' in (c :: c' :: a, b) else ([], s)
         | [] => ([], s)
         end
  | [] => ([], [])
  end.

(* the field alternative:  [{] name? conversion? format? [}]  at the head of s *)
Definition m_field (s : list N) : option (field_match * list N) :=
  match s with
  | c :: r =>
    if c =? 123 then
      let '(nm, r1) := match m_field_name r with Some (n, r') => (Some n, r') | None => (None, r) end in
      (* (?P<conversion> ! \w+ )? *)
      let '(cv, r2) :=
        match r1 with
        | c1 :: r1' =>
          if c1 =? 33 then
            match span (u_w U) r1' with
            | ((_ :: _) as w, r') => (Some (c1 :: w), r')
            | _ => (None, r1)
            end
          else (None, r1)
        | [] => (None, r1)
        end in
      (* (?P<format> : body )? *)
      let '(fm, ns, r3) :=
        match r2 with
        | c2 :: r2' =>
          if c2 =? 58 then
            match m_format_body (S (length r2')) r2' with
            | Some (t, ns, r') => (Some (c2 :: t), ns, r')
            | None => (None, [], r2)
            end
          else (None, [], r2)
        | [] => (None, [], r2)
        end in
      match r3 with
      | c3 :: r4 =>
        if c3 =? 125 then
          Some ({| f_text := firstn (length s - length r4) s; f_name := nm; f_conv := cv; f_fmt := fm; f_nested := ns |}, r4)
        else None
      | [] => None
      end
    else None
  | [] => None
  end.

(* one match attempt of _field_re *)
Definition m_field_re (s : list N) : option (pb_item * list N) :=
  match m_literal s with
  | ((_ :: _) as t, r) => Some (BLit t, r)
  | _ => match m_field s with Some (f, r) => Some (BField f, r) | None => None end
  end.

(* ---------------------------------------------------------------- _format_spec_re *)
Record spec_match := {
  sp_fill : option N; sp_align : option N; sp_sign : option N; sp_alt : bool; sp_zero : bool;
  sp_width : option (list N); sp_comma : bool; sp_prec : option (list N); sp_type : option N }.

Definition is_align (c : N) : bool := (c =? 60) || (c =? 62) || (c =? 61) || (c =? 94).      (* < > = ^ *)
Definition is_sign (c : N) : bool := (c =? 32) || (c =? 43) || (c =? 45).
Definition is_ascii_digit (c : N) : bool := (48 <=? c) && (c <=? 57).

Definition opt_char (p : N -> bool) (s : list N) : option N * list N :=
  match s with c :: r => if p c then (Some c, r) else (None, s) | [] => (None, s) end.
Definition is_some {A} (o : option A) : bool := match o with Some _ => true | None => false end.

(* \A ((fill)? align)? sign? alt? zero? width? comma? ([.] precision)? type? \Z   on fmt[1:] *)
Definition m_format_spec (s : list N) : option spec_match :=
  let '(fill, align, s1) :=
    match s with
    | c0 :: c1 :: r => if is_align c1 && negb (c0 =? 125) then (Some c0, Some c1, r)
                       else if is_align c0 then (None, Some c0, c1 :: r) else (None, None, s)
    | [c0] => if is_align c0 then (None, Some c0, []) else (None, None, s)
    | [] => (None, None, s)
    end in
  let '(sign, s2) := opt_char is_sign s1 in
  let '(alt, s3) := opt_char (N.eqb 35) s2 in
  let '(zero, s4) := opt_char (N.eqb 48) s3 in
  let '(width, s5) := match span is_ascii_digit s4 with ((_ :: _) as w, r) => (Some w, r) | _ => (None, s4) end in
  let '(comma, s6) := opt_char (N.eqb 44) s5 in
  let '(prec, s7) :=
    match s6 with
    | c :: r => if c =? 46 then match span (u_d U) r with ((_ :: _) as p, r') => (Some p, r') | _ => (None, s6) end
                else (None, s6)
    | [] => (None, s6)
    end in
  let '(ty, s8) := opt_char (fun c => u_w U c || (c =? 37)) s7 in
  match s8 with
  | [] => Some {| sp_fill := fill; sp_align := align; sp_sign := sign; sp_alt := is_some alt; sp_zero := is_some zero;
                  sp_width := width; sp_comma := is_some comma; sp_prec := prec; sp_type := ty |}
  | _ => None
  end.

(* ---------------------------------------------------------------- int() *)
Definition max_digits_ok (d : nat) : bool := (u_maxd U =? 0) || (N.of_nat d <=? u_maxd U).

(* int(text) for a text of decimal characters; ValueError otherwise, or above the digit limit *)
Fixpoint dec_value (s : list N) (acc : Z) : option Z :=
  match s with
  | [] => Some acc
  | c :: r => match u_decval U c with Some v => dec_value r (acc * 10 + Z.of_N v) | None => None end
  end.
Definition py_int {E} (s : list N) : outcome Z E :=
  if negb (max_digits_ok (length s)) then Crash CValueError
  else match s with
       | [] => Crash CValueError
       | _ => if forallb (u_isdecimal U) s then match dec_value s 0 with Some v => Ok v | None => Crash CValueError end
              else Crash CValueError
       end.

(* ---------------------------------------------------------------- add_argument *)
Inductive fkind := FField (types : tset) | FNested.
Definition fk_types (k : fkind) : tset := match k with FField t => t | FNested => t_all end.

Record bstate := {
  b_next : option Z;                              (* _next_arg_index; None = numbered manually *)
  b_map : list (akey * list fkind) }.             (* _argument_map, insertion order *)

Definition b0 : bstate := {| b_next := Some 0%Z; b_map := [] |}.

Fixpoint list_eqb (a b : list N) : bool :=
  match a, b with
  | [], [] => true
  | x :: a', y :: b' => (x =? y) && list_eqb a' b'
  | _, _ => false
  end.
Definition akey_eqb (a b : akey) : bool :=
  match a, b with
  | KNum x, KNum y => (x =? y)%Z
  | KName x, KName y => list_eqb x y
  | _, _ => false
  end.

Fixpoint bmap_add (k : akey) (f : fkind) (m : list (akey * list fkind)) : list (akey * list fkind) :=
  match m with
  | [] => [(k, [f])]
  | (k0, fs) :: r => if akey_eqb k0 k then (k0, fs ++ [f]) :: r else (k0, fs) :: bmap_add k f r
  end.

Inductive add_exc := XIndex | XOverflow.       (* IndexError / OverflowError, both caught by the caller *)

(* add_argument(name, field): the key under which the field was filed and the new state *)
Definition add_argument (st : bstate) (name : option (list N)) : outcome (akey * bstate) add_exc :=
  match name with
  | None =>
    match b_next st with
    | None => Err XIndex
    | Some n => if (n >? ssize_max)%Z then Err XOverflow
                else Ok (KNum n, {| b_next := Some (n + 1)%Z; b_map := b_map st |})
    end
  | Some nm =>
    if (match nm with [] => false | _ => forallb (u_isdecimal U) nm end) then     (* name.isdecimal() *)
      do n <- py_int nm;
      if (n >? ssize_max)%Z then Err XOverflow else
      match b_next st with
      | None => Ok (KNum n, st)
      | Some i => if (i =? 0)%Z then Ok (KNum n, {| b_next := None; b_map := b_map st |}) else Err XIndex
      end
    else Ok (KName nm, st)
  end.

Definition file_field (st : bstate) (k : akey) (f : fkind) : bstate :=
  {| b_next := b_next st; b_map := bmap_add k f (b_map st) |}.

(* ---------------------------------------------------------------- Field.__init__ *)
Definition in_chars (c : N) (l : list N) : bool := existsb (N.eqb c) l.

(* the typing rules for a format spec without nested fields *)
Definition spec_types (ftext fmt_tail : list N) : outcome tset pb_err :=
  match m_format_spec fmt_tail with
  | None => Err BFormatError
  | Some m =>
    do tp <- (match sp_type m with
              | None => Ok t_all
              | Some ft =>
                if ft =? 115 then Ok {| t_str := true; t_int := false; t_float := false |}
                else if in_chars ft [98; 99; 100; 111; 120; 88] then Ok {| t_str := false; t_int := true; t_float := false |}
                else if in_chars ft [101; 69; 102; 70; 103; 71; 37] then Ok {| t_str := false; t_int := false; t_float := true |}
                else if ft =? 110 then (if sp_comma m then Err BFormatError else Ok t_num)
                else Err (BFieldError ftext)
              end);
    do tp <- (if sp_alt m || is_some (sp_sign m) || sp_comma m then
                let t := t_and tp t_num in if t_empty t then Err BFormatError else Ok t
              else Ok tp);
    let align := match sp_align m with None => if sp_zero m then Some 61 else None | a => a end in
    do tp <- (match align with
              | Some a => if a =? 61 then let t := t_and tp t_num in if t_empty t then Err BFormatError else Ok t else Ok tp
              | None => Ok tp
              end);
    do _ <- (match sp_width m with
             | Some w => do v <- py_int w; if (v >? ssize_max)%Z then Err BFormatError else Ok tt
             | None => Ok tt
             end);
    match sp_prec m with
    | Some p =>
      let t := t_and tp {| t_str := true; t_int := false; t_float := true |} in
      if t_empty t then Err BFormatError else
      do v <- py_int p; if (v >? ssize_max)%Z then Err BFormatError else Ok t
    | None => Ok tp
    end
  end.

Definition lift_add {A} (x : outcome A add_exc) : outcome A pb_err :=
  match x with
  | Ok a => Ok a
  | Err XIndex => Err BNumberingMixture
  | Err XOverflow => Err BRangeError
  | Crash c => Crash c
  end.

Fixpoint add_nested (st : bstate) (ns : list (option (list N))) : outcome bstate pb_err :=
  match ns with
  | [] => Ok st
  | n :: r => do x <- lift_add (add_argument st n); let '(k, st') := x in add_nested (file_field st' k FNested) r
  end.

Definition s_conv_s : list N := [33; 115].
Definition s_conv_r : list N := [33; 114].
Definition s_conv_a : list N := [33; 97].

Definition conv_check (cv : option (list N)) (tp : tset) : outcome unit pb_err :=
  match cv with
  | None => Ok tt
  | Some c =>
    if list_eqb c s_conv_s || list_eqb c s_conv_r || list_eqb c s_conv_a then
      if t_str tp then Ok tt else Err BFormatTypeMismatch
    else Err BConversionError
  end.

(* Field(parent, match).  The Field object is filed under its key before its nested fields; its type set is
   assigned at the end of __init__ but depends only on the match, so it is filed with it here. *)
Definition field_init (st : bstate) (f : field_match) : outcome bstate pb_err :=
  do x <- lift_add (add_argument st (f_name f));
  let '(key, st1) := x in
  match f_fmt f with
  | None => do _ <- conv_check (f_conv f) t_all; Ok (file_field st1 key (FField t_all))
  | Some fmt =>
    if existsb (N.eqb 123) fmt then                                  (* '{' in fmt *)
      do st2 <- add_nested (file_field st1 key (FField t_all)) (f_nested f);
      do _ <- conv_check (f_conv f) t_all; Ok st2
    else
      match fmt with
      | c :: tl =>
        if c =? 58 then                                              (* assert fmt[0] == ':' *)
          do tp <- spec_types (f_text f) tl; do _ <- conv_check (f_conv f) tp; Ok (file_field st1 key (FField tp))
        else Crash CAssertion
      | [] => Crash CIndexError
      end
  end.

(* ---------------------------------------------------------------- FormatString.__init__ *)
Definition is_printable_ascii (c : N) : bool := (32 <=? c) && (c <=? 126).
Definition printable_prefix {A} (s : list N) : outcome A pb_err :=
  match fst (span is_printable_ascii s) with
  | [] => Crash CAttributeError                      (* r.match(s) is None *)
  | p => Err (BError p)
  end.

(* the finditer loop; a failed attempt at last_pos ends in Error whatever the engine finds later *)
Fixpoint bloop (fuel : nat) (s : list N) (st : bstate) : outcome bstate pb_err :=
  match fuel with
  | O => Crash COutOfFuel
  | S fuel' =>
    match s with
    | [] => Ok st
    | _ :: _ =>
      match m_field_re s with
      | Some (BLit _, rest) => bloop fuel' rest st
      | Some (BField f, rest) => do st' <- field_init st f; bloop fuel' rest st'
      | None => printable_prefix s
      end
    end
  end.

(* functools.reduce(frozenset.__and__, (a.types for a in args)) *)
Definition common_types (fs : list fkind) : tset := fold_left (fun acc k => t_and acc (fk_types k)) fs t_all.

Record pb_sig := { argument_map : list (akey * (tset * nat)) }.      (* key -> (common types, number of fields) *)

Definition pybrace_parse (s : list N) : outcome pb_sig pb_err :=
  do st <- bloop (S (length s)) s b0;
  if existsb (fun kv => t_empty (common_types (snd kv))) (b_map st) then Err BTypeMismatch
  else Ok {| argument_map := map (fun kv => (fst kv, (common_types (snd kv), length (snd kv)))) (b_map st) |}.

End PyBrace.

(* Executable model of the orchestration Checker.check() of lib/check/__init__.py (the body of check() only):
   the os.stat guard, the choice of the loader from the extension or --file-type, the two loading attempts, the
   except / finally clauses around them, the construction of ctx and the fixed order of the nine sub-checks.

   What the model does NOT contain: the loaders (polib.pofile / polib.mofile) and the sub-checks.  The loaders are an
   oracle [load : loader -> option text -> load_result] that enumerates what `constructor(path[, encoding=...])` can do;
   os.stat is the input [stat_result]; str.upper is the oracle [upper] (the driver instantiates it for ASCII names).

   text = list of code points, bytes = list of byte values; arguments of tag() are Tags.arg:
   ASafe = tags.safestr (reaches the output verbatim), AStr = any other str, ABytes = bytes. *)
From Coq Require Import List NArith ZArith Bool.
From Coq Require String Ascii.
From I18n Require Import Model.Tags.
Import ListNotations.
Import String.StringSyntax.
Local Open Scope N_scope.

Definition text := list N.
Definition bytes := list N.

(* string literals of the Python source *)
Definition lit (s : String.string) : text := map Ascii.N_of_ascii (String.list_ascii_of_string s).
Arguments lit s%string_scope.
(* the literal as a concrete list of code points, computed when the definition is elaborated *)
Notation "'LIT' s" := (ltac:(let v := eval vm_compute in (lit s) in exact v)) (at level 10, s at level 9, only parsing).

(* ------------------------------------------------------------------ small string operations *)
Fixpoint text_eqb (a b : text) : bool :=
  match a, b with
  | [], [] => true
  | x :: a', y :: b' => N.eqb x y && text_eqb a' b'
  | _, _ => false
  end.

(* s.startswith(p) *)
Fixpoint starts_with (p s : text) : bool :=
  match p, s with
  | [], _ => true
  | x :: p', y :: s' => N.eqb x y && starts_with p' s'
  | _ :: _, [] => false
  end.

(* split at the LAST occurrence of c: Some (before, after); None when c does not occur (str.rfind = -1) *)
Fixpoint split_last (c : N) (s : text) : option (text * text) :=
  match s with
  | [] => None
  | x :: r =>
    match split_last c r with
    | Some (a, b) => Some (x :: a, b)
    | None => if N.eqb x c then Some ([], r) else None
    end
  end.

Definition slash : N := 47.
Definition dot : N := 46.

(* the base name: what follows the last '/' (the whole path when there is none) *)
Definition base_name (p : text) : text :=
  match split_last slash p with Some (_, b) => b | None => p end.

(* os.path.splitext(p)[-1] on POSIX, after genericpath._splitext(p, '/', None, '.'):
   sepIndex = p.rfind('/'); dotIndex = p.rfind('.'); when dotIndex > sepIndex (the last dot is in the base name) and some
   character of the base name before that dot is not a dot, the extension is p[dotIndex:]; otherwise it is empty. *)
Definition splitext_ext (p : text) : text :=
  match split_last dot (base_name p) with
  | None => []
  | Some (pre, r) => if forallb (N.eqb dot) pre then [] else dot :: r
  end.

(* ------------------------------------------------------------------ inputs *)
Inductive stat_result :=
| StatOk
| StatOSError (strerror : text)     (* os.stat raised OSError; exc.strerror *)
| StatOther (name : text).          (* os.stat raised something that is not an OSError (ValueError: embedded null byte) *)

Inductive loader := Pofile | Mofile.    (* polib.pofile / polib.mofile *)

Inductive load_result :=
| LFile                                                   (* returned a file object *)
| LDecodeError (obj : bytes) (start : Z) (enc : text)     (* UnicodeDecodeError: .object, .start, .encoding *)
| LMoSyntax (msg : text)                                  (* lib.moparser.SyntaxError; str(exc) *)
| LOSErrno (strerror : text)                              (* OSError with errno not None; exc.strerror *)
| LOSNoErrno (message : text)                             (* OSError with errno None; str(exc) *)
| LOther (name : text).                                   (* any other exception class *)

Definition latin1 : text := LIT "ISO-8859-1".

(* ------------------------------------------------------------------ outputs *)
Record event := Ev { ev_tag : text; ev_args : list arg }.

Inductive raised :=
| RUnicodeDecodeError          (* the retry raised UnicodeDecodeError again: no clause catches it *)
| ROSError (message : text)    (* re-raised by the bare `raise` of the OSError clause *)
| RExc (name : text).          (* not caught by any clause *)

Inductive ending :=
| Returned                                                       (* `return` before the sub-checks *)
| RunSubchecks (is_template is_binary encoding_reset : bool)     (* ctx built, the nine sub-checks run *)
| Raised (e : raised).                                           (* an exception propagates out of check() *)

Record result := Res {
  r_events : list event;                      (* self.tag(...) calls, in order *)
  r_calls : list (loader * option text);      (* constructor calls, in order: which one, encoding= keyword *)
  r_end : ending }.

(* ------------------------------------------------------------------ the dispatch on the extension *)
Definition extension (file_type : option text) (path : text) : text :=
  match file_type with
  | None => splitext_ext path
  | Some t => dot :: t                 (* '.' + self.options.file_type *)
  end.

(* Some (constructor, is_template, is_binary), None = the `else:` branch *)
Definition dispatch (ext : text) : option (loader * bool * bool) :=
  if text_eqb ext (LIT ".po") then Some (Pofile, false, false)
  else if text_eqb ext (LIT ".pot") then Some (Pofile, true, false)
  else if text_eqb ext (LIT ".mo") || text_eqb ext (LIT ".gmo") then Some (Mofile, false, true)
  else None.

(* ------------------------------------------------------------------ the message of polib's syntax error *)
Definition is_digit (c : N) : bool := (48 <=? c) && (c <=? 57).     (* [0-9] in a str pattern: the literal range *)
Definition is_lower (c : N) : bool := (97 <=? c) && (c <=? 122).    (* [a-z] *)

Fixpoint span (f : N -> bool) (s : text) : text * text :=
  match s with
  | [] => ([], [])
  | c :: r => if f c then let (a, b) := span f r in (c :: a, b) else ([], s)
  end.

(* re.fullmatch(r'\(line ([0-9]+)\)(?:: (.+))?', m): Some (group 1, group 2) *)
Definition parse_lineno (m : text) : option (text * option text) :=
  if starts_with (LIT "(line ") m then
    let (ds, rest) := span is_digit (skipn 6 m) in
    match ds, rest with
    | [], _ => None
    | _, [] => None
    | _, c :: tail =>
      if N.eqb c 41 then
        match tail with
        | [] => Some (ds, None)
        | _ =>
          if starts_with (LIT ": ") tail then
            let t := skipn 2 tail in
            match t with
            | [] => None                                       (* .+ needs one character *)
            | _ => if forallb (fun c => negb (N.eqb c 10)) t   (* . does not match a newline *)
                   then Some (ds, Some t) else None
            end
          else None
        end
      else None
    end
  else None.

(* re.fullmatch(r'[a-z]+( [a-z]+)*', s) *)
Fixpoint words_from (in_word : bool) (s : text) : bool :=
  match s with
  | [] => in_word
  | c :: r => if is_lower c then words_from true r
              else if N.eqb c 32 then in_word && words_from false r
              else false
  end.
Definition is_words (s : text) : bool := words_from false s.

Definition po_prefix : text := LIT "Syntax error in po file ".     (* 24 characters *)

(* the message after message[24:] and the optional strip of "<path> " *)
Definition po_strip (path message : text) : text :=
  let m := skipn 24 message in
  if starts_with (path ++ [32]) m then skipn (length path + 1) m else m.

(* message_parts of the tag syntax-error-in-po-file *)
Definition po_error_args (path message : text) : list arg :=
  let m := po_strip path message in
  match parse_lineno m with
  | Some (ds, None) => [ASafe (LIT "line " ++ ds)]
  | Some (ds, Some t) => [ASafe (LIT "line " ++ ds ++ [58]); if is_words t then ASafe t else AStr t]
  | None => [AStr m]
  end.

(* ------------------------------------------------------------------ the except clauses of the outer try *)
Inductive flow := FProceed | FReturn | FRaise (e : raised).

(* what the clauses of the OUTER try do with the outcome of the last attempt *)
Definition handlers (path : text) (r : load_result) : list event * flow :=
  match r with
  | LFile => ([], FProceed)
  | LDecodeError _ _ _ => ([], FRaise RUnicodeDecodeError)
  | LMoSyntax m => ([Ev (LIT "invalid-mo-file") [ASafe m]], FReturn)
  | LOSErrno se => ([Ev (LIT "os-error") [ASafe se]], FReturn)
  | LOSNoErrno message =>
    if starts_with po_prefix message
    then ([Ev (LIT "syntax-error-in-po-file") (po_error_args path message)], FReturn)
    else ([], FRaise (ROSError message))
  | LOther n => ([], FRaise (RExc n))
  end.

(* ------------------------------------------------------------------ the finally clause *)
(* s[b:e] of Python for 0 <= b (e may be negative: counted from the end) *)
Definition py_slice (b e : Z) (s : bytes) : bytes :=
  let len := Z.of_nat (length s) in
  let e' := if (e <? 0)%Z then Z.max (e + len) 0 else e in
  firstn (Z.to_nat (e' - b)) (skipn (Z.to_nat b) s).

(* s[max(start - 40, 0) : start + 40] *)
Definition window (obj : bytes) (start : Z) : bytes :=
  py_slice (Z.max (start - 40) 0) (start + 40) obj.

Definition broken_event (upper : text -> text) (obj : bytes) (start : Z) (enc : text) : event :=
  Ev (LIT "broken-encoding") [ABytes (window obj start); ASafe (LIT "cannot be decoded as"); AStr (upper enc)].

(* ------------------------------------------------------------------ check() *)
(* the two attempts: (outcome of the last attempt, the first attempt's decode error, the constructor calls) *)
Definition attempts (load : loader -> option text -> load_result) (c : loader)
  : load_result * option (bytes * Z * text) * list (loader * option text) :=
  match load c None with
  | LDecodeError o s e => (load c (Some latin1), Some (o, s, e), [(c, None); (c, Some latin1)])
  | r => (r, None, [(c, None)])
  end.

Definition check_top (upper : text -> text) (st : stat_result) (file_type : option text) (path : text)
    (load : loader -> option text -> load_result) : result :=
  match st with
  | StatOSError se => Res [Ev (LIT "os-error") [ASafe se]] [] Returned
  | StatOther n => Res [] [] (Raised (RExc n))
  | StatOk =>
    match dispatch (extension file_type path) with
    | None => Res [Ev (LIT "unknown-file-type") []] [] Returned
    | Some (c, is_template, is_binary) =>
      let '(last, broken, calls) := attempts load c in
      let (hev, fl) := handlers path last in
      let bev := match broken with Some (o, s, e) => [broken_event upper o s e] | None => [] end in
      Res (hev ++ bev) calls
          (match fl with
           | FProceed => RunSubchecks is_template is_binary (match broken with Some _ => true | None => false end)
           | FReturn => Returned
           | FRaise e => Raised e
           end)
    end
  end.

(* ------------------------------------------------------------------ the sub-checks, as data *)
Inductive step := SubCheck (name : text) | ResetEncodingIfBroken.      (* `if broken_encoding: ctx.encoding = None` *)

Definition subcheck_plan : list step :=
  [SubCheck (LIT "check_comments"); SubCheck (LIT "check_headers"); SubCheck (LIT "check_language"); SubCheck (LIT "check_plurals");
   SubCheck (LIT "check_mime"); ResetEncodingIfBroken; SubCheck (LIT "check_dates"); SubCheck (LIT "check_project");
   SubCheck (LIT "check_translator"); SubCheck (LIT "check_messages")].

(* the sub-checks in call order, each with: has ctx.encoding been reset to None when it is called *)
Fixpoint run_plan (reset seen : bool) (p : list step) : list (text * bool) :=
  match p with
  | [] => []
  | SubCheck n :: r => (n, seen) :: run_plan reset seen r
  | ResetEncodingIfBroken :: r => run_plan reset (seen || reset) r
  end.

Definition subchecks_of (e : ending) : list (text * bool) :=
  match e with
  | RunSubchecks _ _ reset => run_plan reset false subcheck_plan
  | _ => []
  end.

(* str.upper for ASCII names (the driver's instance of the oracle) *)
Definition upper_ascii_char (c : N) : N := if is_lower c then c - 32 else c.
Definition upper_ascii (s : text) : text := map upper_ascii_char s.
Definition check_top_ascii := check_top upper_ascii.

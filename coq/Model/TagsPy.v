(* Gallina meaning of the Python operations that tools/gen/gen_tags_src.py emits when it translates
   lib/tags.py (_is_safe, _escape, safe_format, OrderedEnum, Tag.get_priority / get_colors / format) and
   lib/terminal.py (attr_fg, attr_reset)  (notes/SRC5.md).  Definitions only, all total.
   Generated/TagsSrc.v uses, besides this file: Lib/PySrc.v (sres, sbind1) and, from Model/Tags.v, ONLY the
   type [arg] of values handed to _escape, [in_range] and [join] (= str.join); never escape, format_line, priority. *)
From Coq Require Import List NArith Bool.
From I18n Require Import Lib.Outcome Lib.PySrc Model.Tags.
Import ListNotations.
Local Open Scope N_scope.

(* ---- the values _escape receives (Model/Tags.v: ASafe s = a tags.safestr whose text is s, ABytes b = a bytes object,
        AStr s = any other object x, s = str(x)) *)
Definition is_safestr (a : arg) : bool := match a with ASafe _ => true | _ => false end.   (* isinstance(x, safestr) *)
Definition is_bytes (a : arg) : bool := match a with ABytes _ => true | _ => false end.    (* isinstance(x, bytes); a safestr is a str, not bytes *)
(* the text of a safestr used as the str it is (class safestr(str): pass) / the bytes of a bytes object *)
Definition content (a : arg) : list N := match a with ASafe s => s | AStr s => s | ABytes b => b end.
(* str(x); str(bytes) is repr(bytes) *)
Definition py_str (repr_bytes : list N -> list N) (a : arg) : list N :=
  match a with ASafe s => s | AStr s => s | ABytes b => repr_bytes b end.

(* == on str / bytes *)
Fixpoint text_eqb (a b : list N) : bool :=
  match a, b with
  | [], [] => true
  | x :: a', y :: b' => N.eqb x y && text_eqb a' b'
  | _, _ => false
  end.

(* truth value of a str / bytes / tuple *)
Definition nonempty {A} (l : list A) : bool := match l with [] => false | _ => true end.

(* `X or d` where X is None or a bytes object *)
Definition or_else (o : option (list N)) (d : list N) : list N :=
  match o with Some (c :: r) => c :: r | _ => d end.

(* D[k] for a dict display / dict(...) call D whose keys are statically distinct: KeyError when absent *)
Fixpoint assoc {K V} (eqb : K -> K -> bool) (l : list (K * V)) (k : K) : option V :=
  match l with
  | [] => None
  | (k', v) :: r => if eqb k' k then Some v else assoc eqb r k
  end.
Definition dict_get {K V} (eqb : K -> K -> bool) (l : list (K * V)) (k : K) : sres V :=
  match assoc eqb l k with Some v => SRet v | None => SRaise (XCrash CKeyError) end.

(* [f(x) for x in l] / map(f, l) consumed completely, f a translated function: left to right, the first exception ends it *)
Fixpoint smap {A B} (f : A -> sres B) (l : list A) : sres (list B) :=
  match l with
  | [] => SRet []
  | x :: r => sbind1 (f x) (fun y => sbind1 (smap f r) (fun ys => SRet (y :: ys)))
  end.

(* ---- the names of the model's enumeration constructors, in the order of the model's ranks *)
Definition all_severities : list severity := [Pedantic; Wishlist; Minor; Normal; Important; Serious].
Definition all_certainties : list certainty := [WildGuess; Possible; Certain].
Definition sev_name (s : severity) : list N :=
  match s with
  | Pedantic => [112;101;100;97;110;116;105;99]
  | Wishlist => [119;105;115;104;108;105;115;116]
  | Minor => [109;105;110;111;114]
  | Normal => [110;111;114;109;97;108]
  | Important => [105;109;112;111;114;116;97;110;116]
  | Serious => [115;101;114;105;111;117;115]
  end.
Definition cer_name (c : certainty) : list N :=
  match c with
  | WildGuess => [119;105;108;100;45;103;117;101;115;115]
  | Possible => [112;111;115;115;105;98;108;101]
  | Certain => [99;101;114;116;97;105;110]
  end.

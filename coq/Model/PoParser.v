(* Executable model of polib 1.2.0 _POFileParser (parse, the transition table, the handlers) as
   patched by lib/polib4us.py (unescape, flags property, IntDict, None defaults, POFile.find).

   A line is a list of code points, as yielded by Codecs.open (Model/PoLexer.v).
   [lex_line] is the line classification of parse(): what it does before calling process().
   [step] is process() with the handlers; [run_machine] the loop and the final append.
   Oracles: [dec] the codec of the file (for polib_unescape), [udigit] int() of one non-ASCII
   character, [uisdigit] str.isdigit of one non-ASCII character. *)
From Coq Require Import List NArith Bool.
From I18n Require Import Lib.Outcome Model.PoUnescape.
Import ListNotations.
Local Open Scope N_scope.

Definition str := list N.

Fixpoint list_eqb (a b : str) : bool :=
  match a, b with
  | [], [] => true
  | x :: a', y :: b' => N.eqb x y && list_eqb a' b'
  | _, _ => false
  end.

Fixpoint startswith (p s : str) : bool :=
  match p, s with
  | [], _ => true
  | x :: p', y :: s' => N.eqb x y && startswith p' s'
  | _ :: _, [] => false
  end.

(* Py_UNICODE_ISSPACE: what str.strip(), str.split(None) and str.isspace() use *)
Definition py_isspace (c : N) : bool :=
  between 9 13 c || between 28 32 c || N.eqb c 133 || N.eqb c 160 || N.eqb c 5760
  || between 8192 8202 c || N.eqb c 8232 || N.eqb c 8233 || N.eqb c 8239 || N.eqb c 8287 || N.eqb c 12288.

Fixpoint lstrip_by (p : N -> bool) (s : str) : str :=
  match s with
  | [] => []
  | c :: r => if p c then lstrip_by p r else s
  end.
Definition rstrip_by (p : N -> bool) (s : str) : str := rev (lstrip_by p (rev s)).
Definition strip_by (p : N -> bool) (s : str) : str := rstrip_by p (lstrip_by p s).
Definition strip := strip_by py_isspace.
Definition lstrip := lstrip_by py_isspace.

(* the first whitespace-delimited word of a string that starts with a non-space, and what follows it *)
Fixpoint word (s : str) : str * str :=
  match s with
  | [] => ([], [])
  | c :: r => if py_isspace c then ([], s) else let (w, t) := word r in (c :: w, t)
  end.

(* line.split(None, 2) *)
Definition split2 (s : str) : list str :=
  let s0 := lstrip s in
  match s0 with
  | [] => []
  | _ =>
    let (w1, t1) := word s0 in
    let s1 := lstrip t1 in
    match s1 with
    | [] => [w1]
    | _ =>
      let (w2, t2) := word s1 in
      let s2 := lstrip t2 in
      match s2 with
      | [] => [w1; w2]
      | _ => [w1; w2; s2]     (* the rest, leading whitespace removed, trailing kept *)
      end
    end
  end.

(* str.split() *)
Fixpoint split_ws_aux (s : str) (cur : str) : list str :=
  match s with
  | [] => match cur with [] => [] | _ => [rev cur] end
  | c :: r => if py_isspace c then match cur with [] => split_ws_aux r [] | _ => rev cur :: split_ws_aux r [] end
              else split_ws_aux r (c :: cur)
  end.
Definition split_ws (s : str) : list str := split_ws_aux s [].

(* str.split(sep) for a one-character separator: always at least one item *)
Fixpoint split_on_aux (sep : N) (s : str) (cur : str) : list str :=
  match s with
  | [] => [rev cur]
  | c :: r => if N.eqb c sep then rev cur :: split_on_aux sep r [] else split_on_aux sep r (c :: cur)
  end.
Definition split_on (sep : N) (s : str) : list str := split_on_aux sep s [].

(* occurrence.rsplit(':', 1) : None when there is no colon *)
Fixpoint rsplit_colon_rev (r : str) (acc : str) : option (str * str) :=   (* r = reversed string *)
  match r with
  | [] => None
  | c :: r' => if N.eqb c 58 then Some (rev r', acc) else rsplit_colon_rev r' (c :: acc)
  end.
Definition rsplit_colon (s : str) : option (str * str) := rsplit_colon_rev (rev s) [].

Definition drop (n : nat) (s : str) : str := skipn n s.        (* s[n:] *)
Definition inner (s : str) : str := removelast (tl s).          (* s[1:-1] *)

Fixpoint find_quote (s : str) : option nat :=                   (* s.find('DQUOTE') *)
  match s with
  | [] => None
  | c :: r => if N.eqb c 34 then Some 0%nat else option_map S (find_quote r)
  end.

(* re.search(r'([^\\]|^)DQUOTE', s) *)
Fixpoint unescaped_quote_aux (s : str) (prev_bsl : bool) : bool :=
  match s with
  | [] => false
  | c :: r => if N.eqb c 34 && negb prev_bsl then true else unescaped_quote_aux r (N.eqb c 92)
  end.
Definition unescaped_quote (s : str) : bool := unescaped_quote_aux s false.

(* ---------------------------------------------------------------- symbols, states, table *)
Inductive sym := Ytc | Ygc | Yoc | Yfl | Ypc | Ypm | Ypp | Yct | Ymi | Ymp | Yms | Ymx | Ymc.
Inductive st := Sst | She | Sgc | Soc | Sfl | Sct | Spc | Spm | Spp | Stc | Sms | Smp | Smx | Smi.

(* self.add(symbol, states, next_state): the state reached, None = KeyError *)
Definition next_state (y : sym) (s : st) : option st :=
  match y with
  | Ytc => match s with Sst | She => Some She | Sct => None | _ => Some Stc end
  | Ygc => Some Sgc
  | Yoc => Some Soc
  | Yfl => Some Sfl
  | Ypc => Some Spc
  | Ypm => Some Spm
  | Ypp => Some Spp
  | Yct => match s with Sct | Smp | Smi => None | _ => Some Sct end
  | Ymi => match s with Smp | Smi => None | _ => Some Smi end
  | Ymp => match s with Stc | Sgc | Spc | Spm | Spp | Smi => Some Smp | _ => None end
  | Yms => match s with Smi | Smp | Stc => Some Sms | _ => None end
  | Ymx => match s with Smi | Smx | Smp | Stc => Some Smx | _ => None end
  | Ymc => match s with Sct | Smi | Smp | Sms | Smx | Spm | Spp | Spc => Some Smi (* any: handle_mc keeps the state *) | _ => None end
  end.

(* ---------------------------------------------------------------- entries *)
Record po_entry := mkEntry {
  pe_msgctxt : option str;
  pe_msgid : str;
  pe_msgid_plural : option str;          (* None default: base_entry_init_patch *)
  pe_msgstr : option str;                (* None default: base_entry_init_patch *)
  pe_plural : list (N * str);            (* IntDict, insertion order *)
  pe_obsolete : bool;
  pe_comment : str;
  pe_tcomment : str;
  pe_occ : list (str * str);
  pe_flags : list str;
  pe_prev_ctxt : option str;
  pe_prev_id : option str;
  pe_prev_plural : option str
}.

Definition new_entry : po_entry :=
  mkEntry None [] None None [] false [] [] [] [] None None None.

(* the string attributes handle_mc appends to *)
Inductive field := FCtxt | FId | FPlural | FStr | FPrevCtxt | FPrevId | FPrevPlural.

Definition get_field (f : field) (e : po_entry) : option str :=
  match f with
  | FCtxt => pe_msgctxt e | FId => Some (pe_msgid e) | FPlural => pe_msgid_plural e | FStr => pe_msgstr e
  | FPrevCtxt => pe_prev_ctxt e | FPrevId => pe_prev_id e | FPrevPlural => pe_prev_plural e
  end.

Definition set_field (f : field) (v : str) (e : po_entry) : po_entry :=
  match e with mkEntry a b c d p o cm tc oc fl pc pm pp =>
    match f with
    | FCtxt => mkEntry (Some v) b c d p o cm tc oc fl pc pm pp
    | FId => mkEntry a v c d p o cm tc oc fl pc pm pp
    | FPlural => mkEntry a b (Some v) d p o cm tc oc fl pc pm pp
    | FStr => mkEntry a b c (Some v) p o cm tc oc fl pc pm pp
    | FPrevCtxt => mkEntry a b c d p o cm tc oc fl (Some v) pm pp
    | FPrevId => mkEntry a b c d p o cm tc oc fl pc (Some v) pp
    | FPrevPlural => mkEntry a b c d p o cm tc oc fl pc pm (Some v)
    end
  end.

Definition set_plural (p : list (N * str)) (e : po_entry) : po_entry :=
  match e with mkEntry a b c d _ o cm tc oc fl pc pm pp => mkEntry a b c d p o cm tc oc fl pc pm pp end.
Definition set_obsolete (o : bool) (e : po_entry) : po_entry :=
  match e with mkEntry a b c d p _ cm tc oc fl pc pm pp => mkEntry a b c d p o cm tc oc fl pc pm pp end.
Definition set_comment (cm : str) (e : po_entry) : po_entry :=
  match e with mkEntry a b c d p o _ tc oc fl pc pm pp => mkEntry a b c d p o cm tc oc fl pc pm pp end.
Definition set_tcomment (tc : str) (e : po_entry) : po_entry :=
  match e with mkEntry a b c d p o cm _ oc fl pc pm pp => mkEntry a b c d p o cm tc oc fl pc pm pp end.
Definition set_occ (oc : list (str * str)) (e : po_entry) : po_entry :=
  match e with mkEntry a b c d p o cm tc _ fl pc pm pp => mkEntry a b c d p o cm tc oc fl pc pm pp end.
Definition set_flags (fl : list str) (e : po_entry) : po_entry :=
  match e with mkEntry a b c d p o cm tc oc _ pc pm pp => mkEntry a b c d p o cm tc oc fl pc pm pp end.

(* dict.__setitem__ / __getitem__ on the IntDict *)
Fixpoint dict_set (k : N) (v : str) (d : list (N * str)) : list (N * str) :=
  match d with
  | [] => [(k, v)]
  | (k', v') :: r => if N.eqb k k' then (k, v) :: r else (k', v') :: dict_set k v r
  end.
Fixpoint dict_get (k : N) (d : list (N * str)) : option str :=
  match d with
  | [] => None
  | (k', v') :: r => if N.eqb k k' then Some v' else dict_get k r
  end.

(* ---------------------------------------------------------------- line classification *)
Inductive detail := DNone | DUnescapedQuote | DInvalidContinuation | DUnknownKeyword (k : str).

Inductive action :=
| ASkip                           (* continue *)
| AProc (y : sym) (cur : str)     (* self.current_token = cur; self.process(y) *)
| AFail (d : detail).             (* raise IOError('Syntax error in po file ... (line N)[: detail]') *)

Inductive lexed :=
| LBlank                          (* empty after strip: nothing changes but the line number *)
| LPrevObsolete                   (* first token is #~| : the line is dropped; [tokens] stays set to it *)
| LLine (obsolete : bool) (hash : bool) (a : action).
    (* entry_obsolete := obsolete;  hash = tokens[0].startswith('#') for the test after the loop *)

Definition k_msgctxt : str := [109;115;103;99;116;120;116].
Definition k_msgid : str := [109;115;103;105;100].
Definition k_msgstr : str := [109;115;103;115;116;114].
Definition k_msgid_plural : str := [109;115;103;105;100;95;112;108;117;114;97;108].
Definition k_msgstr_br : str := k_msgstr ++ [91].          (* msgstr[ *)

Definition keyword_sym (w : str) : option sym :=
  if list_eqb w k_msgctxt then Some Yct else if list_eqb w k_msgid then Some Ymi
  else if list_eqb w k_msgstr then Some Yms else if list_eqb w k_msgid_plural then Some Ymp else None.
Definition prev_keyword_sym (w : str) : option sym :=
  if list_eqb w k_msgid_plural then Some Ypp else if list_eqb w k_msgid then Some Ypm
  else if list_eqb w k_msgctxt then Some Ypc else None.

Definition HASH : N := 35.
Definition bom : N := 65279.

Definition lex_core (line : str) (tokens : list str) : action :=
  match tokens with
  | [] => ASkip     (* unreachable: line is not empty *)
  | t0 :: rest =>
    let nb := length tokens in
    match keyword_sym t0, rest with
    | Some y, _ :: _ =>
      let l := lstrip (drop (length t0) line) in
      if unescaped_quote (inner l) then AFail DUnescapedQuote else AProc y l
    | _, _ =>
      if list_eqb t0 [HASH; 58] then (match rest with [] => ASkip | _ => AProc Yoc line end)
      else if startswith [34] line then
        (if unescaped_quote (inner line) then AFail DUnescapedQuote else AProc Ymc line)
      else if startswith k_msgstr_br line then AProc Ymx line
      else if list_eqb t0 [HASH; 44] then (match rest with [] => ASkip | _ => AProc Yfl line end)
      else if list_eqb t0 [HASH] || startswith [HASH; HASH] t0 then AProc Ytc line
      else if list_eqb t0 [HASH; 46] then (match rest with [] => ASkip | _ => AProc Ygc line end)
      else if list_eqb t0 [HASH; 124] then
        match rest with
        | [] => AFail DNone
        | t1 :: rest2 =>
          let l := lstrip (drop 2 line) in
          if startswith [34] t1 then AProc Ymc l
          else match rest2 with
          | [] => AFail DInvalidContinuation
          | _ =>
            match prev_keyword_sym t1 with
            | None => AFail (DUnknownKeyword t1)
            | Some y => AProc y (lstrip (drop (length t1) l))
            end
          end
        end
      else AFail DNone
    end
  end.

Definition lex_line (first : bool) (raw : str) : lexed :=
  let raw1 := if first && startswith [bom] raw then drop 1 raw else raw in
  let line := strip raw1 in
  match line with
  | [] => LBlank
  | _ =>
    let tokens := split2 line in
    match tokens with
    | [] => LBlank   (* unreachable *)
    | t0 :: rest =>
      if list_eqb t0 [HASH; 126; 124] then LPrevObsolete
      else if list_eqb t0 [HASH; 126] && negb (match rest with [] => true | _ => false end) then
        let line' := strip (drop 3 line) in
        LLine true (match rest with t1 :: _ => startswith [HASH] t1 | [] => false end) (lex_core line' rest)
      else LLine false (startswith [HASH] t0) (lex_core line tokens)
    end
  end.

(* ---------------------------------------------------------------- the machine *)
Record oracles := mkOracles {
  o_dec : list N -> option (list N);    (* bytes.decode(encoding of the file) *)
  o_udigit : N -> option N;             (* int(ch) for a non-ASCII character *)
  o_uisdigit : N -> bool                (* ch.isdigit() for a non-ASCII character *)
}.

Record pstate := mkP {
  p_state : st;
  p_cur : po_entry;
  p_done : list po_entry;          (* self.instance, reversed *)
  p_header : str;
  p_index : N;                  (* self.msgstr_index *)
  p_warned : bool
}.

Definition init_pstate : pstate := mkP Sst new_entry [] [] 0 false.

(* if self.current_state in ['mc', 'ms', 'mx']: append the po_entry, start a new one *)
Definition flush_entry (p : pstate) : pstate :=
  match p_state p with
  | Sms | Smx => mkP (p_state p) new_entry (p_cur p :: p_done p) (p_header p) (p_index p) (p_warned p)
  | _ => p
  end.

Definition with_cur (p : pstate) (e : po_entry) : pstate :=
  mkP (p_state p) e (p_done p) (p_header p) (p_index p) (p_warned p).
Definition with_state (p : pstate) (s : st) : pstate :=
  mkP s (p_cur p) (p_done p) (p_header p) (p_index p) (p_warned p).
Definition with_warned (p : pstate) (w : bool) : pstate :=
  mkP (p_state p) (p_cur p) (p_done p) (p_header p) (p_index p) (p_warned p || w).
Definition with_index (p : pstate) (i : N) : pstate :=
  mkP (p_state p) (p_cur p) (p_done p) (p_header p) i (p_warned p).
Definition with_header (p : pstate) (h : str) : pstate :=
  mkP (p_state p) (p_cur p) (p_done p) h (p_index p) (p_warned p).

Definition join_nl (old add : str) : str :=     (* if old != '': old += '\n';  old += add *)
  match old with [] => add | _ => old ++ 10 :: add end.

Definition is_ascii_digit (c : N) : bool := between 48 57 c.
Definition py_isdigit (O : oracles) (s : str) : bool :=
  match s with [] => false | _ => forallb (fun c => if c <? 128 then is_ascii_digit c else o_uisdigit O c) s end.
Definition py_int_char (O : oracles) (c : N) : option N :=
  if c <? 128 then (if is_ascii_digit c then Some (c - 48) else None) else o_udigit O c.

Definition occurrence (O : oracles) (s : str) : str * str :=
  match rsplit_colon s with
  | Some (fil, line) => if py_isdigit O line then (fil, line) else (s, [])
  | None => (s, [])
  end.

Definition flag_strip (s : str) : str :=         (* flag.strip(' \t\r\f\v') *)
  strip_by (fun c => N.eqb c 32 || N.eqb c 9 || N.eqb c 13 || N.eqb c 12 || N.eqb c 11) s.

(* the setter of the patched POEntry.flags property *)
Definition flags_setter (flags : list str) : list str :=
  flat_map (fun sub => map flag_strip (split_on 44 sub)) flags.

Inductive perr := PSyntax (line : N) (d : detail).

(* the failures inside process() are caught by `except Exception` and become a plain syntax error *)
Definition caught {A B} (x : outcome A B) : option A :=
  match x with Ok a => Some a | _ => None end.

Definition state_field (s : st) : option field :=
  match s with
  | Sct => Some FCtxt | Smi => Some FId | Smp => Some FPlural | Sms => Some FStr
  | Spp => Some FPrevPlural | Spm => Some FPrevId | Spc => Some FPrevCtxt
  | _ => None
  end.

(* handle_<ns>; None = an exception inside the handler.  [obs] is self.entry_obsolete *)
Definition handle (O : oracles) (ns : st) (y : sym) (obs : bool) (cur : str) (p : pstate) : option pstate :=
  let set_string (f : field) (p : pstate) :=
    match caught (unescape (o_dec O) (inner cur)) with
    | Some (v, w) => Some (with_warned (with_cur p (set_field f v (p_cur p))) w)
    | None => None
    end in
  match y with
  | Ymc =>
    match caught (unescape (o_dec O) (inner cur)) with
    | None => None
    | Some (v, w) =>
      let p := with_warned p w in
      match p_state p with
      | Smx =>     (* self.current_entry.msgstr_plural[self.msgstr_index] += token *)
        match dict_get (p_index p) (pe_plural (p_cur p)) with
        | Some old => Some (with_cur p (set_plural (dict_set (p_index p) (old ++ v) (pe_plural (p_cur p))) (p_cur p)))
        | None => None      (* KeyError *)
        end
      | s =>
        match state_field s with
        | Some f =>
          match get_field f (p_cur p) with
          | Some old => Some (with_cur p (set_field f (old ++ v) (p_cur p)))
          | None => None    (* TypeError: None += str *)
          end
        | None => Some p
        end
      end       (* returns False: the state is kept *)
    end
  | _ =>
    match ns with
    | She =>
      Some (with_state (with_header p (join_nl (p_header p) (drop 2 cur))) She)
    | Stc =>
      let p := flush_entry p in
      let t := lstrip_by (N.eqb HASH) cur in
      let t := if startswith [32] t then drop 1 t else t in
      Some (with_state (with_cur p (set_tcomment (join_nl (pe_tcomment (p_cur p)) t) (p_cur p))) Stc)
    | Sgc =>
      let p := flush_entry p in
      Some (with_state (with_cur p (set_comment (join_nl (pe_comment (p_cur p)) (drop 3 cur)) (p_cur p))) Sgc)
    | Soc =>
      let p := flush_entry p in
      Some (with_state (with_cur p (set_occ (pe_occ (p_cur p) ++ map (occurrence O) (split_ws (drop 3 cur))) (p_cur p))) Soc)
    | Sfl =>
      let p := flush_entry p in
      let added := map strip (split_on 44 (drop 3 cur)) in
      Some (with_state (with_cur p (set_flags (flags_setter (pe_flags (p_cur p) ++ added)) (p_cur p))) Sfl)
    | Spp => option_map (fun p => with_state p Spp) (set_string FPrevPlural (flush_entry p))
    | Spm => option_map (fun p => with_state p Spm) (set_string FPrevId (flush_entry p))
    | Spc => option_map (fun p => with_state p Spc) (set_string FPrevCtxt (flush_entry p))
    | Sct => option_map (fun p => with_state p Sct) (set_string FCtxt (flush_entry p))
    | Smi =>
      let p := flush_entry p in
      let p := with_cur p (set_obsolete obs (p_cur p)) in
      option_map (fun p => with_state p Smi) (set_string FId p)
    | Smp => option_map (fun p => with_state p Smp) (set_string FPlural p)
    | Sms => option_map (fun p => with_state p Sms) (set_string FStr p)
    | Smx =>
      match nth_error cur 7 with
      | None => None                         (* IndexError *)
      | Some ch =>
        let value := removelast (match find_quote cur with Some i => drop (S i) cur | None => cur end) in
        match py_int_char O ch with
        | None => None                       (* ValueError *)
        | Some idx =>
          match caught (unescape (o_dec O) value) with
          | None => None
          | Some (v, w) =>
            let p := with_warned p w in
            Some (with_state (with_index (with_cur p (set_plural (dict_set idx v (pe_plural (p_cur p))) (p_cur p))) idx) Smx)
          end
        end
      end
    | Sst => None   (* no handler leads to st *)
    end
  end.

(* self.process(symbol) *)
Definition process (O : oracles) (y : sym) (obs : bool) (cur : str) (p : pstate) : option pstate :=
  match next_state y (p_state p) with
  | None => None                             (* KeyError *)
  | Some ns => handle O ns y obs cur p
  end.

(* the loop over the lines; [last] = tokens[0].startswith('#') of the last non-blank line *)
Fixpoint machine (O : oracles) (ls : list lexed) (lineno : N) (last : option bool) (p : pstate)
  : outcome (pstate * option bool) perr :=
  match ls with
  | [] => Ok (p, last)
  | l :: r =>
    let n := lineno + 1 in
    match l with
    | LBlank => machine O r n last p
    | LPrevObsolete => machine O r n (Some true) p
    | LLine obs hash a =>
      match a with
      | ASkip => machine O r n (Some hash) p
      | AFail d => Err (PSyntax n d)
      | AProc y cur =>
        match process O y obs cur p with
        | None => Err (PSyntax n DNone)
        | Some p' => machine O r n (Some hash) p'
        end
      end
    end
  end.

Record pofile := mkPo { po_header : str; po_entries : list po_entry; po_warned : bool }.

Definition run_machine (O : oracles) (ls : list lexed) : outcome pofile perr :=
  do x <- machine O ls 0 None init_pstate;
  let (p, last) := x in
  let entries :=
    match last with
    | Some false => rev (p_cur p :: p_done p)     (* the last po_entry is appended *)
    | _ => rev (p_done p)
    end in
  Ok (mkPo (p_header p) entries (p_warned p)).

Fixpoint lex_lines (first : bool) (lines : list str) : list lexed :=
  match lines with
  | [] => []
  | l :: r => lex_line first l :: lex_lines false r
  end.

(* _POFileParser.parse on the lines yielded by the file object *)
Definition parse_lines (O : oracles) (lines : list str) : outcome pofile perr :=
  run_machine O (lex_lines true lines).

(* Target vocabulary of the source translator tools/gen/gen_brace_src.py (notes/SRC12.md): the hand-written Gallina
   meaning of the Python operations that occur in FormatString.__init__ of lib/strformat/perlbrace.py and in
   FormatString.__init__, add_argument, Field.__init__ of lib/strformat/pybrace.py.  Definitions only.
   Generated/BraceSrc.v imports this file (and, through it, the TYPES of the models: pitem, perl_err, pb_item,
   field_match, spec_match, pb_err, akey, tset) but never a function of the models' parsers. *)
From Coq Require Import List NArith ZArith Bool.
From I18n Require Import Lib.Outcome Model.FmtPyBrace Model.FmtPerlBrace.
Import ListNotations.

Definition pystr := list N.

(* exceptions: the module's own Error classes (E = the model's error type), the three builtin classes the code raises
   itself, and every other exception *)
Inductive bexn (E : Type) := XOwn (e : E) | XIndexError | XOverflowError | XRuntimeError | XCrash (c : crash_kind).
Arguments XOwn {E} e.
Arguments XIndexError {E}.
Arguments XOverflowError {E}.
Arguments XRuntimeError {E}.
Arguments XCrash {E} c.

(* result of running a body: it returned / fell off the end with the value a, or an exception left it *)
Inductive bres (E A : Type) := BRet (a : A) | BRaise (x : bexn E).
Arguments BRet {E A} a.
Arguments BRaise {E A} x.
Definition bbind {E A B} (r : bres E A) (f : A -> bres E B) : bres E B :=
  match r with BRet a => f a | BRaise x => BRaise x end.

(* `except IndexError` / `except OverflowError`: which exceptions the clause catches *)
Definition exn_is_index {E} (x : bexn E) : bool :=
  match x with XIndexError => true | XCrash CIndexError => true | _ => false end.
Definition exn_is_overflow {E} (x : bexn E) : bool := match x with XOverflowError => true | _ => false end.

(* ---- strings *)
Definition str_first (s : pystr) : option N := match s with c :: _ => Some c | [] => None end.      (* s[0]; None: IndexError *)
Definition str_last (s : pystr) : option N := match s with [] => None | _ => Some (last s 0%N) end. (* s[-1] *)
Definition str_tail (s : pystr) : pystr := tl s.                                                    (* s[1:] *)
Definition str_inner (s : pystr) : pystr := removelast (tl s).                                      (* s[1:-1] *)
Definition str_from (n : nat) (s : pystr) : pystr := skipn n s.                                     (* s[n:], n >= 0 *)
Definition str_has (c : N) (s : pystr) : bool := existsb (N.eqb c) s.                               (* 'c' in s *)
Definition str_nonempty (s : pystr) : bool := match s with [] => false | _ => true end.             (* truth of s *)
Definition str_in (x : pystr) (l : list pystr) : bool := existsb (FmtPyBrace.list_eqb x) l.         (* x in {consts} *)
Definition char_in (c : N) (l : list N) : bool := FmtPyBrace.in_chars c l.      (* c in 'consts', c one character *)
Definition optchar_eqb (o : option N) (c : N) : bool := match o with Some a => N.eqb a c | None => false end.
Definition opt_some {A} (o : option A) : bool := match o with Some _ => true | None => false end.
(* set.add on a set of str kept in insertion order *)
Definition set_add (l : list pystr) (x : pystr) : list pystr := if str_in x l then l else l ++ [x].

(* ---- match objects.  pm_groups is the model's reading of what the pattern captured *)
Record pymatch (G : Type) := { pm_start : nat; pm_end : nat; pm_groups : G }.
Arguments pm_start {G} p.
Arguments pm_end {G} p.
Arguments pm_groups {G} p.

(* re.finditer for a pattern that cannot match the empty string, given one match attempt at the head of a string
   (the groups and the unconsumed rest): try at pos; on success continue after the match, else at pos + 1 *)
Fixpoint py_finditer {G} (attempt : pystr -> option (G * pystr)) (fuel pos : nat) (s : pystr) : list (pymatch G) :=
  match fuel with
  | O => []
  | S fuel' =>
    match s with
    | [] => []
    | _ :: r =>
      match attempt s with
      | Some (g, rest) =>
        let e := (pos + (length s - length rest))%nat in
        {| pm_start := pos; pm_end := e; pm_groups := g |} :: py_finditer attempt fuel' e rest
      | None => py_finditer attempt fuel' (S pos) r
      end
    end
  end.

(* re.compile('[ -\x7E]+').match(s): the matched text *)
Definition printable_match (s : pystr) : option pystr :=
  match fst (FmtPerlBrace.span FmtPerlBrace.is_printable_ascii s) with [] => None | p => Some p end.

(* perlbrace: match.group() and match.group('name') *)
Definition perl_group0 (g : pitem) : pystr :=
  match g with PLit t => t | PField n => c_lbrace :: n ++ [c_rbrace] end.
Definition perl_group_name (g : pitem) : option pystr := match g with PLit _ => None | PField n => Some n end.

(* pybrace: match.group('literal' / 'name' / 'conversion' / 'format'), match.string[slice( *match.span())],
   _simple_field_re.findall(match.group('format')) *)
Definition pbi_literal (g : pb_item) : option pystr := match g with BLit t => Some t | BField _ => None end.
Definition pbi_name (g : pb_item) : option pystr := match g with BLit _ => None | BField f => f_name f end.
Definition pbi_conversion (g : pb_item) : option pystr := match g with BLit _ => None | BField f => f_conv f end.
Definition pbi_format (g : pb_item) : option pystr := match g with BLit _ => None | BField f => f_fmt f end.
Definition pbi_text (g : pb_item) : pystr := match g with BLit t => t | BField f => f_text f end.
Definition nested_text (o : option pystr) : pystr := 123%N :: match o with Some n => n | None => [] end ++ [125%N].
Definition pbi_findall_simple (g : pb_item) : list pystr :=
  match g with BLit _ => [] | BField f => map nested_text (f_nested f) end.

(* ---- the objects of pybrace.  A Field / NestedField object is referenced from exactly one place, the list it was
   filed in by add_argument; it is represented by its `types` attribute stored there (None: not assigned yet, reading
   it is an AttributeError) and named by that place: (key, index in the key's list). *)
Definition cell := option tset.
Definition amap := list (akey * list cell).                       (* defaultdict(list), insertion order *)
Definition oref : Type := akey * nat.
Record pbstate := { s_amap : option amap; s_next : option Z }.    (* _argument_map, _next_arg_index *)

Fixpoint amap_count (k : akey) (m : amap) : nat :=                (* len(m[k]) without creating the entry *)
  match m with
  | [] => O
  | (k0, cs) :: r => if akey_eqb k0 k then length cs else amap_count k r
  end.
Fixpoint amap_append (k : akey) (c : cell) (m : amap) : amap :=   (* m[k] += [c] *)
  match m with
  | [] => [(k, [c])]
  | (k0, cs) :: r => if akey_eqb k0 k then (k0, cs ++ [c]) :: r else (k0, cs) :: amap_append k c r
  end.
Fixpoint list_set {A} (i : nat) (v : A) (l : list A) : list A :=
  match l, i with
  | [], _ => []
  | _ :: r, O => v :: r
  | x :: r, S i' => x :: list_set i' v r
  end.
Fixpoint amap_set (p : oref) (c : cell) (m : amap) : amap :=      (* <the object at p>.types = ... *)
  match m with
  | [] => []
  | (k0, cs) :: r => if akey_eqb k0 (fst p) then (k0, list_set (snd p) c cs) :: r else (k0, cs) :: amap_set p c r
  end.
Definition state_set_cell (w : pbstate) (p : oref) (c : cell) : pbstate :=
  {| s_amap := match s_amap w with Some m => Some (amap_set p c m) | None => None end; s_next := s_next w |}.

(* functools.reduce(frozenset.__and__, (a.types for a in args)): TypeError on an empty list, AttributeError at the
   first object without `types` *)
Fixpoint cells_and {E} (acc : tset) (l : list cell) : bres E tset :=
  match l with
  | [] => BRet acc
  | Some t :: r => cells_and (t_and acc t) r
  | None :: _ => BRaise (XCrash CAttributeError)
  end.
Definition py_reduce_tand {E} (l : list cell) : bres E tset :=
  match l with
  | [] => BRaise (XCrash CTypeError)
  | None :: _ => BRaise (XCrash CAttributeError)
  | Some t :: r => cells_and t r
  end.

(* oracles of pybrace: str.isdecimal, int(), _format_spec_re.match *)
Record pb_oracles := {
  o_isdecimal : pystr -> bool;
  o_int : pystr -> outcome Z pb_err;
  o_format_spec_match : pystr -> option spec_match }.
Definition of_outcome {A E} (x : outcome A E) : bres E A :=
  match x with Ok a => BRet a | Err e => BRaise (XOwn e) | Crash c => BRaise (XCrash c) end.

(* Target vocabulary of the source translator tools/gen/gen_encodings_src.py (notes/SRC8.md): the Gallina meaning of
   the Python operations it emits when it translates lib/iconv.py, lib/encodings.py, the charset branch of
   Checker.check_mime and Language.get_unrepresentable_characters.  Definitions only.
   Generated/EncodingsSrc.v imports this file and, from Model/Iconv.v and Model/Encodings.v, ONLY the oracle
   records (iconv_ops, conv_ret, flush_ret, iconv_rc, enc_data, codec_oracle, ascii_outcome) and the list
   primitives (buffer, slice_to, py_index, first_surrogate, size_t_max, assoc, mem, starts_with, list_eqb);
   it never mentions a modelled function.  Proofs/EncodingsSrc.v proves the generated functions equal to them. *)
From Coq Require Import ZArith NArith List Bool.
From I18n Require Import Lib.Outcome Generated.CodecOracle Model.Encodings Model.Iconv.
Import ListNotations.

(* exceptions a translated function can raise *)
Inductive pexn :=
| PUnicodeDecodeError (b e : Z)        (* .start, .end *)
| PUnicodeEncodeError (b e : Z)
| PEncodeError                          (* UnicodeEncodeError raised inside an oracle encoder (positions not modelled) *)
| POSError | PNotImplementedError | PTypeError | PIndexError | PRuntimeError
| PLookupError | PEncodingLookupError
| PForeign (c : crash_kind).            (* whatever else an oracle raises: caught by `except Exception` only *)

(* the result of running a function body
   PRet v  : `return v`
   PNone   : `return` / `return None` / falling off the end
   PAssert : an `assert` failed
   PRaise  : an exception left the function
   PFuel   : the translation's own: a `while True` loop was given too little fuel *)
Inductive pres (A : Type) :=
| PRet (a : A) | PNone | PAssert | PRaise (x : pexn) | PFuel.
Arguments PRet {A} a.
Arguments PNone {A}.
Arguments PAssert {A}.
Arguments PRaise {A} x.
Arguments PFuel {A}.

(* try: <r> finally: <f>  where f is the result of running the finally block on its own (PNone = it ran to its end):
   whatever the body did, an exception (or return) of the finally block replaces it *)
Definition pfinally {A} (r f : pres A) : pres A :=
  match f with PNone => r | _ => f end.

(* ---- libc return values (lib/iconv.py): the result of a call is kept as its errno class *)
Definition rc_ok (r : iconv_rc) : bool := match r with RcOk => true | _ => false end.
Definition rc_of_bool (b : bool) : iconv_rc := if b then RcOk else RcOther.
Definition rc_eqb (a b : iconv_rc) : bool :=
  match a, b with
  | RcOk, RcOk | RcE2BIG, RcE2BIG | RcEILSEQ, RcEILSEQ | RcEINVAL, RcEINVAL | RcOther, RcOther => true
  | _, _ => false
  end.

(* ---- dict / set tables of lib/encodings.py *)
(* a value of _portable_encodings (a codec object or None) or a default given to .get *)
Inductive pyv := PvNone | PvFalse | PvCodec.
Definition pv_is_none (v : pyv) : bool := match v with PvNone => true | _ => false end.
(* _portable_encodings.get(k, dflt): the table keeps `codec is not None` per key *)
Definition pget (l : list (list N * bool)) (k : list N) (dflt : pyv) : pyv :=
  match assoc k l with Some true => PvCodec | Some false => PvNone | None => dflt end.
(* k in _portable_encodings *)
Definition pmem (l : list (list N * bool)) (k : list N) : bool :=
  match assoc k l with Some _ => true | None => false end.
(* d.get(k, dflt) for a str -> str dict *)
Definition sget (l : list (list N * list N)) (k dflt : list N) : list N :=
  match assoc k l with Some v => v | None => dflt end.

(* `v = f(...) ; rest` for a translated f (or an oracle returning pres): [some] is rest with v bound to the returned
   value, [none] is rest with v = None, [exn] is what the enclosing `except` clauses make of an exception of f
   (@PRaise when there is none); a failing assert inside f and lack of fuel end the caller the same way *)
Definition pbind {A B} (r : pres A) (some : A -> pres B) (none : pres B) (exn : pexn -> pres B) : pres B :=
  match r with PRet a => some a | PNone => none | PAssert => PAssert | PRaise x => exn x | PFuel => PFuel end.

(* what lib/encodings.py hands to the codec registry:
   CharmapCodec name t = codecs.CodecInfo(name=name, decode = codecs.charmap_decode(., errors, t),
                                          encode = codecs.charmap_encode(., errors, codecs.charmap_build(t)))
                         where t is the content of data/charmaps/<NAME> decoded as UTF-8;
   IconvCodec name     = iconv_encoding(name): encode / decode through lib.iconv with that charset name *)
Inductive codecinfo := CharmapCodec (name table : list N) | IconvCodec (name : list N).

(* the model's crash kinds as results of a translated function (used by Proofs/IconvSrc.v, Proofs/EncodingsSrc.v to
   state the ties; the translator never emits it) *)
Definition of_crash {A} (c : crash_kind) : pres A :=
  match c with
  | CAssertion => PAssert
  | COutOfFuel => PFuel
  | COSError => PRaise POSError
  | CIndexError => PRaise PIndexError
  | CNotImplemented => PRaise PNotImplementedError
  | c => PRaise (PForeign c)
  end.

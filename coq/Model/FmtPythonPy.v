(* Target vocabulary of the source translator tools/gen/gen_fmtpython_src.py (notes/SRC11.md): the hand-written Gallina
   meaning of the Python operations that occur in FormatString.__init__ / add_argument and Conversion.__init__ of
   lib/strformat/python.py.  Definitions only.  Generated/FmtPythonSrc.v imports this file and, from Model/FmtPython.v,
   only the table record [pyinfo], [mem] (one character `in` a string) and [list_eqb] (== on strings);
   Proofs/FmtPythonSrc*.v prove the generated definitions equal to the hand-written model. *)
From Coq Require Import List NArith ZArith Bool.
From I18n Require Import Lib.Outcome Model.FmtPython.
Import ListNotations.

Definition pystr := list N.

(* exception / warning classes named in the translated code *)
Inductive fcls :=
| KError | KObsoleteConversion | KForbiddenArgumentKey | KArgumentIndexingMixture | KArgumentTypeMismatch
| KRedundantFlag | KWidthRangeError | KRedundantPrecision | KPrecisionRangeError | KRedundantLength
| KIndexError | KRuntimeError | KTypeError.

Definition fcls_tag (k : fcls) : N :=
  match k with
  | KError => 0 | KObsoleteConversion => 1 | KForbiddenArgumentKey => 2 | KArgumentIndexingMixture => 3
  | KArgumentTypeMismatch => 4 | KRedundantFlag => 5 | KWidthRangeError => 6 | KRedundantPrecision => 7
  | KPrecisionRangeError => 8 | KRedundantLength => 9 | KIndexError => 10 | KRuntimeError => 11 | KTypeError => 12
  end%N.
Definition fcls_eqb (a b : fcls) : bool := N.eqb (fcls_tag a) (fcls_tag b).

(* the result of running a body:
   FOk v        : ran to its end; v = the values of the variables / attributes it leaves behind
   FRaise k a   : raised an instance of class k; a = its argument for Error(...) (None for every other class)
   FAssert      : an `assert` failed
   FFuel        : the translation's own: a `while` loop was given too little fuel *)
Inductive fres (A : Type) :=
| FOk (a : A) | FRaise (k : fcls) (arg : option pystr) | FAssert | FFuel.
Arguments FOk {A} a.
Arguments FRaise {A} k arg.
Arguments FAssert {A}.
Arguments FFuel {A}.

Definition fbind {A B} (r : fres A) (f : A -> fres B) : fres B :=
  match r with FOk a => f a | FRaise k a => FRaise k a | FAssert => FAssert | FFuel => FFuel end.

(* try: r  except k: h     (only builtin classes without subclasses in the module are caught this way) *)
Definition ftry {A} (r : fres A) (k : fcls) (h : fres A) : fres A :=
  match r with FRaise k' _ => if fcls_eqb k' k then h else r | _ => r end.

(* arguments of a warning: one-character strings, other string constants, anything else (arity only) *)
Inductive warg := AChr (c : N) | AStr (s : pystr) | AOther.
(* parent.warn(cls, s, *args): the first argument (the text of the conversion) is not kept *)
Inductive pwarn := PWarn (k : fcls) (args : list warg).

(* the objects stored in _seq_arguments / _map_arguments: VariableWidth(..), VariablePrecision(..), a Conversion
   (observable through its .type only) *)
Inductive parg := AVarWidth | AVarPrec | AConv (tp : pystr).
Definition parg_is_conv (a : parg) : bool := match a with AConv _ => true | _ => false end.

(* a value that is None, Ellipsis or an int (width, prec) *)
Inductive pnum := PNone | PEllipsis | PInt (z : Z).
Definition pnum_is_none (x : pnum) : bool := match x with PNone => true | _ => false end.

Definition is_none {A} (x : option A) : bool := match x with None => true | Some _ => false end.
Definition is_nil {A} (l : list A) : bool := match l with [] => true | _ => false end.

(* si = enumerate(s): (next index, remaining characters); next(si): None = StopIteration *)
Definition enum_next (si : Z * pystr) : option (Z * N * (Z * pystr)) :=
  match snd si with
  | [] => None
  | c :: r => Some (fst si, c, ((fst si + 1)%Z, r))
  end.

(* slice bounds as CPython normalises them (PySlice_AdjustIndices, step 1) *)
Definition py_norm (len i : Z) : Z :=
  let i' := if (i <? 0)%Z then (i + len)%Z else i in Z.max 0 (Z.min len i').
Definition pyslice (s : pystr) (a b : Z) : pystr :=
  let n := Z.of_nat (length s) in
  let a' := py_norm n a in let b' := py_norm n b in
  firstn (Z.to_nat (b' - a')) (skipn (Z.to_nat a') s).
Definition pyslice_from (s : pystr) (a : Z) : pystr :=
  skipn (Z.to_nat (py_norm (Z.of_nat (length s)) a)) s.
(* s[i]: None = IndexError *)
Definition py_getitem (s : pystr) (i : Z) : option N :=
  let n := Z.of_nat (length s) in
  let i' := if (i <? 0)%Z then (i + n)%Z else i in
  if ((i' <? 0) || (n <=? i'))%Z then None else nth_error s (Z.to_nat i').

(* collections.Counter used only through  c[k] += 1,  k in c,  c.items(): insertion order, counts *)
Definition counter := list (N * nat).
Fixpoint counter_incr (c : N) (fl : counter) : counter :=
  match fl with
  | [] => [(c, 1%nat)]
  | (f, n) :: r => if N.eqb f c then (f, S n) :: r else (f, n) :: counter_incr c r
  end.
Definition counter_mem (c : N) (fl : counter) : bool := existsb (fun x => N.eqb (fst x) c) fl.

(* collections.defaultdict(list) used only through  d[k] += [a],  truth,  d.items() *)
Definition argmap := list (pystr * list parg).
Fixpoint dd_append (m : argmap) (k : pystr) (a : parg) : argmap :=
  match m with
  | [] => [(k, [a])]
  | (k0, l) :: r => if list_eqb k0 k then (k0, l ++ [a]) :: r else (k0, l) :: dd_append r k a
  end.

(* len(frozenset(l)) for a list of strings *)
Fixpoint str_in (x : pystr) (l : list pystr) : bool :=
  match l with [] => false | y :: r => list_eqb y x || str_in x r end.
Fixpoint str_dedup (l : list pystr) : list pystr :=
  match l with [] => [] | x :: r => if str_in x r then str_dedup r else x :: str_dedup r end.
Definition set_len (l : list pystr) : Z := Z.of_nat (length (str_dedup l)).

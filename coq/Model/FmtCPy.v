(* Target vocabulary of the source translator tools/gen/gen_fmtc_src.py (notes/SRC14.md): the hand-written
   Gallina meaning of the Python operations that occur in lib/strformat/c.py.  Definitions only.
   Generated/FmtCSrc.v applies only these, the data types of Model/FmtC.v (cerr, cwarn, arg, item, py_int)
   and the tables of Generated/CInfo.v; it never mentions the model's functions. *)
From Coq Require Import List NArith ZArith Bool.
From I18n Require Import Lib.Outcome Lib.CFmtSyntax Model.FmtC.
Import ListNotations.

(* exceptions of a translated body: the module's own classes (the model's cerr), the three builtin
   exceptions the code catches, anything else Python would raise *)
Inductive cexn :=
| XErr (e : cerr) | XIndex | XOverflow (n : Z) | XKey | XCrash (c : crash_kind).

(* CRet: the statements completed / `return v`; CAssert: an `assert` failed; CRaise: an exception *)
Inductive cres (A : Type) := CRet (a : A) | CAssert | CRaise (x : cexn).
Arguments CRet {A} a.
Arguments CAssert {A}.
Arguments CRaise {A} x.

Definition cbind {A B} (r : cres A) (f : A -> cres B) : cres B :=
  match r with CRet a => f a | CAssert => CAssert | CRaise x => CRaise x end.

(* try: r  except K1: h1  except K2 as v: h2 ... : [h x] = Some (handler body) for the first clause
   that matches the exception, None when no clause matches (AssertionError is never caught here) *)
Definition ccatch {A} (r : cres A) (h : cexn -> option (cres A)) : cres A :=
  match r with
  | CRaise x => match h x with Some r' => r' | None => r end
  | _ => r
  end.

(* an operation of the model's library (int()) used as a statement *)
Definition of_outcome {A} (o : outcome A cerr) : cres A :=
  match o with Ok a => CRet a | Err e => CRaise (XErr e) | Crash c => CRaise (XCrash c) end.

(* what a result means in the model's outcome vocabulary *)
Definition to_outcome {A} (r : cres A) : outcome A cerr :=
  match r with
  | CRet a => Ok a
  | CAssert => Crash CAssertion
  | CRaise (XErr e) => Err e
  | CRaise XIndex => Crash CIndexError
  | CRaise (XOverflow _) => Crash CValueError
  | CRaise XKey => Crash CKeyError
  | CRaise (XCrash c) => Crash c
  end.

(* ---- one match object of _directive_re: its groups (None = did not participate), span and text ---- *)
Record cmatch := mkmatch {
  m_start : Z; m_end : Z; m_text : list N;            (* match.start(), match.end(), the matched text *)
  m_literal : option (list N);
  m_index : option (list N);                         (* "12$" *)
  m_flags : option (list N);
  m_width : option (list N);
  m_varwidth : option (list N);                      (* "*" *)
  m_varwidth_index : option (list N);
  m_precision : option (list N);                     (* "" for a lone "." *)
  m_varprec : option (list N);
  m_varprec_index : option (list N);
  m_length : option (list N);
  m_conversion : option (list N);
  m_c99conv : option (list N);
  m_c99len : option (list N) }.

(* ---- str ---- *)
Fixpoint prefix_eqb (p s : list N) : bool :=
  match p, s with
  | [], _ => true
  | x :: p', y :: s' => N.eqb x y && prefix_eqb p' s'
  | _ :: _, [] => false
  end.
(* x in s, both str: substring *)
Fixpoint str_in (x s : list N) : bool :=
  prefix_eqb x s || match s with [] => false | _ :: r => str_in x r end.
(* x in {a, b, ..} *)
Definition str_in_set (x : list N) (l : list (list N)) : bool := existsb (list_eqb x) l.
(* s.startswith(p) *)
Definition str_startswith (s p : list N) : bool := prefix_eqb p s.
(* s.lower(): exact for ASCII text (the only text it is applied to is a group of ASCII letters and digits) *)
Definition str_lower (s : list N) : list N := map lower s.
(* s.rstrip(c) for a one-character c *)
Fixpoint drop_while_eq (c : N) (s : list N) : list N :=
  match s with [] => [] | x :: r => if N.eqb x c then drop_while_eq c r else s end.
Definition str_rstrip (c : N) (s : list N) : list N := rev (drop_while_eq c (rev s)).
(* x or d, x a str *)
Definition str_or (x d : list N) : list N := match x with [] => d | _ => x end.
(* x or d, x a str or None *)
Definition ostr_or (x : option (list N)) (d : list N) : list N := match x with Some (c :: r) => c :: r | _ => d end.
(* truth of a str-or-None *)
Definition ostr_truth (x : option (list N)) : bool := match x with Some (_ :: _) => true | _ => false end.
(* == on str-or-None *)
Definition ostr_eqb (a b : option (list N)) : bool :=
  match a, b with Some x, Some y => list_eqb x y | None, None => true | _, _ => false end.
Definition is_some {A} (x : option A) : bool := match x with Some _ => true | None => false end.
Definition nonempty {A} (l : list A) : bool := match l with [] => false | _ => true end.
(* s[n:] for n >= 0 *)
Definition str_from (s : list N) (n : Z) : list N := skipn (Z.to_nat n) s.
Definition zlen {A} (l : list A) : Z := Z.of_nat (List.length l).

(* d.get(k, default) for a dict with str keys; k may be None (hashable, never a key) *)
Definition odict_get (d : list (list N * list N)) (k dflt : option (list N)) : option (list N) :=
  match k with
  | Some k' => match assoc k' d with Some v => Some v | None => dflt end
  | None => dflt
  end.

(* collections.Counter(x): x a str or None (None = empty); represented by the text itself *)
Definition counter_of (x : option (list N)) : list N := match x with Some l => l | None => [] end.
(* .items(): distinct characters in first-occurrence order with their counts *)
Definition counter_items (l : list N) : list (N * Z) := map (fun c => (c, Z.of_nat (count c l))) (dedup l).

(* range(a, b), enumerate(l, start=a) *)
Fixpoint zrange (a : Z) (n : nat) : list Z := match n with O => [] | S k => a :: zrange (a + 1) k end.
Definition py_range (a b : Z) : list Z := zrange a (Z.to_nat (b - a)).
Fixpoint py_enumerate {A} (a : Z) (l : list A) : list (Z * A) :=
  match l with [] => [] | x :: r => (a, x) :: py_enumerate (a + 1) r end.

(* ---- the defaultdict(list) _argument_map as (n, value) pairs in insertion order ---- *)
(* m[n] += [v] *)
Definition amap_add (m : list (Z * arg)) (n : Z) (v : arg) : list (Z * arg) := m ++ [(n, v)].
(* m.pop(i): None = KeyError *)
Definition amap_pop (m : list (Z * arg)) (i : Z) : option (list arg * list (Z * arg)) :=
  let '(mine, others) := partition (fun e => Z.eqb (fst e) i) m in
  match mine with [] => None | _ => Some (map snd mine, others) end.
(* frozenset(a.type for a in args): distinct types in first-occurrence order *)
Definition arg_typeset (args : list arg) : list (list N) := dedup_types (map a_type args).

(* ---- the match object of a directive / a literal of the model's token stream: which groups take part and their text.
   Hand-written reading of _directive_re (tied by the regex-level stream of tools/harness/c11.py: groups and spans). ---- *)
Definition g_dollar (o : option (list N)) : option (list N) :=
  match o with Some ds => Some (ds ++ [36%N]) | None => None end.
Definition g_width (w : numspec) : option (list N) := match w with NNum ds => Some ds | _ => None end.
Definition g_star (w : numspec) : option (list N) := match w with NStar _ => Some [42%N] | _ => None end.
Definition g_star_index (w : numspec) : option (list N) := match w with NStar i => g_dollar i | _ => None end.
Definition g_length (b : cbody) : option (list N) := match b with BStd (c :: l) _ => Some (c :: l) | _ => None end.
Definition g_conv (b : cbody) : option (list N) := match b with BStd _ cv => Some [cv] | _ => None end.
Definition g_c99conv (b : cbody) : option (list N) := match b with BMacro cv _ => Some [cv] | _ => None end.
Definition g_c99len (b : cbody) : option (list N) := match b with BMacro _ l => Some l | _ => None end.
Definition match_of_dir (d : directive) (text : list N) (a b : Z) : cmatch :=
  mkmatch a b text None (g_dollar (d_index d)) (Some (d_flags d))
    (g_width (d_width d)) (g_star (d_width d)) (g_star_index (d_width d))
    (g_width (d_prec d)) (g_star (d_prec d)) (g_star_index (d_prec d))
    (g_length (d_body d)) (g_conv (d_body d)) (g_c99conv (d_body d)) (g_c99len (d_body d)).
Definition match_of_lit (t : list N) (a b : Z) : cmatch :=
  mkmatch a b t (Some t) None None None None None None None None None None None None.

(* isinstance(x, (VariableWidth, VariablePrecision)) / isinstance(x, Conversion) on a value stored in the argument map *)
Definition arg_is_star (a : arg) : bool := match a_kind a with KConv => false | _ => true end.
Definition arg_is_conv (a : arg) : bool := match a_kind a with KConv => true | _ => false end.
(* `x is y`, x a Conversion object or None, y a Conversion object: objects are identified by their index in _items *)
Definition oconv_is (x : option (nat * bool)) (y : nat * bool) : bool :=
  match x with Some c => Nat.eqb (fst c) (fst y) | None => false end.
(* l[i] (None = IndexError), negative indices count from the end *)
Definition py_index {A} (l : list A) (i : Z) : option A :=
  if (i <? 0)%Z then (if (- i <=? zlen l)%Z then nth_error l (Z.to_nat (zlen l + i)) else None)
  else nth_error l (Z.to_nat i).

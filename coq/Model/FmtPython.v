(* Executable model of lib/strformat/python.py: FormatString.__init__ (the hand-written scanner),
   add_argument, Conversion.__init__.  Text = list of code points.  The tables of class _info and
   SSIZE_MAX are a parameter (std_info is what the source says today; Generated/PyFmtInfo.v is what
   /repo says now, and the extracted entry point uses the latter).
   Not modelled: the _items list (literal chunks and Conversion objects; not an observable of C12). *)
From Coq Require Import List NArith ZArith Bool.
From I18n Require Import Lib.Outcome.
Import ListNotations.
Local Open Scope N_scope.

Record pyinfo := {
  i_flags : list N; i_lengths : list N;
  i_oct : list N; i_hex : list N; i_int : list N; i_float : list N; i_other : list N; i_all : list N;
  i_ssize_max : Z }.

Definition std_info : pyinfo := {|
  i_flags := [35; 48; 45; 32; 43];                 (* '#0- +' *)
  i_lengths := [104; 108; 76];                     (* 'hlL' *)
  i_oct := [111];                                  (* 'o' *)
  i_hex := [120; 88];                              (* 'xX' *)
  i_int := [111; 120; 88; 100; 105; 117];          (* oct + hex + 'diu' *)
  i_float := [101; 69; 102; 70; 103; 71];          (* 'eEfFgG' *)
  i_other := [99; 115; 114; 97];                   (* 'csra' *)
  i_all := [111; 120; 88; 100; 105; 117; 101; 69; 102; 70; 103; 71; 99; 115; 114; 97; 37];
  i_ssize_max := 2147483647 |}.

Definition mem (c : N) (l : list N) : bool := existsb (N.eqb c) l.      (* ch in 'string', ch one character *)

Inductive ptype := TyInt | TyFloat | TyChr | TyStr | TyObject | TyNone.

Inductive py_err :=
| EError (rest : list N)        (* Error(s[i:]): end of string inside a directive, or not a conversion character *)
| EForbiddenKey | EMixture | ETypeMismatch | EWidthRange | EPrecRange.

Inductive py_warn :=
| WFlag (args : list N)         (* RedundantFlag(s, *args) *)
| WPrec                         (* RedundantPrecision *)
| WLength (c : N)               (* RedundantLength *)
| WObsolete.                    (* ObsoleteConversion(s, '%u', '%d') *)

(* what the scanner hands to Conversion(...) *)
Record directive := {
  d_text : list N;                    (* s[i:j+1] *)
  d_key : option (list N);
  d_flags : list (N * nat);           (* collections.Counter: first-occurrence order, counts *)
  d_width : Z;                        (* 0 when there are no digits; unused when d_var_width *)
  d_var_width : bool;
  d_prec : option Z;
  d_var_prec : bool;
  d_length : option N;
  d_conv : N }.

(* ---------------------------------------------------------------- the scanner *)
(* Every j, ch = next_si() that hits the end of the string raises Error(s[i:]): the sub-scanners return
   None for that.  The head of the list is the current ch. *)

(* key: after the opening parenthesis, pcount = 1; result: text between the outer parentheses, and the
   text after the closing one *)
Fixpoint key_scan (s : list N) (pcount : nat) (acc : list N) : option (list N * list N) :=
  match s with
  | [] => None
  | c :: r =>
    if c =? 40 then key_scan r (S pcount) (c :: acc)
    else if c =? 41 then
      match pcount with
      | S (S p) => key_scan r (S p) (c :: acc)
      | _ => Some (rev acc, r)
      end
    else key_scan r pcount (c :: acc)
  end.

Fixpoint count_flag (c : N) (fl : list (N * nat)) : list (N * nat) :=
  match fl with
  | [] => [(c, 1%nat)]
  | (f, n) :: r => if f =? c then (f, S n) :: r else (f, n) :: count_flag c r
  end.

(* while ch in _info.flags: flags[ch] += 1; j, ch = next_si() *)
Fixpoint flags_scan (fl_chars : list N) (s : list N) (fl : list (N * nat)) : option (list (N * nat) * list N) :=
  match s with
  | [] => None
  | c :: r => if mem c fl_chars then flags_scan fl_chars r (count_flag c fl) else Some (fl, s)
  end.

Definition is_ascii_digit (c : N) : bool := (48 <=? c) && (c <=? 57).      (* '0' <= ch <= '9' *)

(* while '0' <= ch <= '9': n *= 10; n += int(ch); j, ch = next_si() *)
Fixpoint digits_scan (s : list N) (acc : Z) : option (Z * list N) :=
  match s with
  | [] => None
  | c :: r => if is_ascii_digit c then digits_scan r (acc * 10 + Z.of_N (c - 48)) else Some (acc, s)
  end.

Definition next_si (s : list N) : option (list N) :=      (* drop the current ch; None at the end *)
  match s with
  | _ :: (_ :: _) as r => Some r
  | _ => None
  end.

Definition obind_opt {A B} (x : option A) (f : A -> option B) : option B :=
  match x with Some a => f a | None => None end.
Notation "'dopt' x <- a ; b" := (obind_opt a (fun x => b))
  (at level 200, x pattern, a at level 100, b at level 200, right associativity).

(* the stages of one conversion specification; each takes the text whose head is the current ch and returns
   what it found and the text whose head is the new current ch *)
Definition p_key (s : list N) : option (option (list N) * list N) :=
  match s with
  | ch :: r =>
    if ch =? 40 then
      dopt kr <- key_scan r 1 [];
      let '(key, s1) := kr in
      match s1 with [] => None | _ => Some (Some key, s1) end      (* j, ch = next_si() after the ')' *)
    else Some (None, s)
  | [] => None
  end.

Definition p_width (s : list N) : option (Z * bool * list N) :=
  match s with
  | c :: _ => if c =? 42 then dopt s' <- next_si s; Some (0%Z, true, s')
              else dopt dx <- digits_scan s 0; let '(w, s') := dx in Some (w, false, s')
  | [] => None
  end.

Definition p_prec (s : list N) : option (option Z * bool * list N) :=
  match s with
  | c :: _ =>
    if c =? 46 then
      dopt s1 <- next_si s;
      match s1 with
      | c1 :: _ => if c1 =? 42 then dopt s2 <- next_si s1; Some (None, true, s2)
                   else dopt dx <- digits_scan s1 0; let '(p, s2) := dx in Some (Some p, false, s2)
      | [] => None
      end
    else Some (None, false, s)
  | [] => None
  end.

Definition p_length (inf : pyinfo) (s : list N) : option (option N * list N) :=
  match s with
  | c :: _ => if mem c (i_lengths inf) then dopt s' <- next_si s; Some (Some c, s') else Some (None, s)
  | [] => None
  end.

(* s = the text after the '%'.  None = Error(s[i:]).  Some (d, rest): rest follows the conversion character;
   s[i:j+1] is the '%' and what was read up to and including the conversion character. *)
Definition parse_directive (inf : pyinfo) (s : list N) : option (directive * list N) :=
  dopt kx <- p_key s;                                        (* j, ch = next_si(); key *)
  let '(key, s1) := kx in
  dopt fx <- flags_scan (i_flags inf) s1 [];
  let '(flags, s2) := fx in
  dopt wx <- p_width s2;
  let '(width, var_width, s3) := wx in
  dopt px <- p_prec s3;
  let '(prec, var_prec, s4) := px in
  dopt lx <- p_length inf s4;
  let '(len, s5) := lx in
  match s5 with
  | conv :: rest =>
    if mem conv (i_all inf) then
      Some ({| d_text := 37 :: firstn (length s - length rest) s;
               d_key := key; d_flags := flags; d_width := width; d_var_width := var_width;
               d_prec := prec; d_var_prec := var_prec; d_length := len; d_conv := conv |}, rest)
    else None
  | [] => None
  end.

(* ---------------------------------------------------------------- argument bookkeeping *)
Inductive seqarg := SVarWidth | SVarPrec | SConv (t : ptype).      (* VariableWidth / VariablePrecision have type 'int' *)

Record pstate := {
  st_seq : list seqarg;                          (* _seq_arguments *)
  st_map : list (list N * list ptype);           (* _map_arguments: insertion order, types of the conversions *)
  st_warn : list py_warn }.

Definition st0 : pstate := {| st_seq := []; st_map := []; st_warn := [] |}.

Fixpoint list_eqb (a b : list N) : bool :=
  match a, b with
  | [], [] => true
  | x :: a', y :: b' => (x =? y) && list_eqb a' b'
  | _, _ => false
  end.

Fixpoint map_add (k : list N) (t : ptype) (m : list (list N * list ptype)) : list (list N * list ptype) :=
  match m with
  | [] => [(k, [t])]
  | (k0, ts) :: r => if list_eqb k0 k then (k0, ts ++ [t]) :: r else (k0, ts) :: map_add k t r
  end.

(* add_argument(None, arg): None = IndexError *)
Definition add_seq (st : pstate) (a : seqarg) : option pstate :=
  match st_map st with
  | [] => Some {| st_seq := st_seq st ++ [a]; st_map := st_map st; st_warn := st_warn st |}
  | _ => None
  end.
(* add_argument(key, conversion) *)
Definition add_map (st : pstate) (k : list N) (t : ptype) : option pstate :=
  match st_seq st with
  | [] => Some {| st_seq := st_seq st; st_map := map_add k t (st_map st); st_warn := st_warn st |}
  | _ => None
  end.

(* ---------------------------------------------------------------- Conversion.__init__ *)
Definition has_flag (c : N) (fl : list (N * nat)) : bool := existsb (fun x => fst x =? c) fl.

(* the loop over flags.items(); None = the assert flag in '0 +' fails *)
Fixpoint flag_warns (inf : pyinfo) (conv : N) (fl : list (N * nat)) : option (list py_warn) :=
  match fl with
  | [] => Some []
  | (f, n) :: r =>
    let w1 := if Nat.eqb n 1 then [] else [WFlag [f; f]] in
    dopt w2 <- (if f =? 35 then
                  Some (if mem conv (i_oct inf ++ i_hex inf ++ i_float inf) then [] else [WFlag [f]])
                else if f =? 45 then Some []
                else if mem f [48; 32; 43] then
                  Some (if mem conv (i_int inf ++ i_float inf) then [] else [WFlag [f]])
                else None);
    dopt w3 <- flag_warns inf conv r;
    Some (w1 ++ w2 ++ w3)
  end.

Definition pair_warns (fl : list (N * nat)) : list py_warn :=
  (if has_flag 45 fl && has_flag 48 fl then [WFlag [45; 48]] else []) ++
  (if has_flag 43 fl && has_flag 32 fl then [WFlag [43; 32]] else []).

Definition has_prec (d : directive) : bool :=
  d_var_prec d || match d_prec d with Some _ => true | None => false end.

(* all the warnings of one Conversion, in the order they are appended; None = AssertionError *)
Definition conv_warns (inf : pyinfo) (d : directive) : option (list py_warn) :=
  dopt w1 <- flag_warns inf (d_conv d) (d_flags d);
  Some (w1 ++ pair_warns (d_flags d) ++
        (if has_prec d then
           (if mem (d_conv d) (i_int inf) && has_flag 48 (d_flags d) then [WFlag [48]] else []) ++
           (if mem (d_conv d) [99; 37] then [WPrec] else [])
         else []) ++
        (match d_length d with Some c => [WLength c] | None => [] end) ++
        (if mem (d_conv d) (i_int inf) && (d_conv d =? 117) then [WObsolete] else [])).

(* the type chosen for the conversion; None = the final assert False *)
Definition conv_type (inf : pyinfo) (c : N) : option ptype :=
  if mem c (i_int inf) then Some TyInt
  else if mem c (i_float inf) then Some TyFloat
  else if c =? 99 then Some TyChr
  else if c =? 115 then Some TyStr
  else if mem c [114; 97] then Some TyObject
  else if c =? 37 then Some TyNone
  else None.

Definition conv_init (inf : pyinfo) (st : pstate) (d : directive) : outcome pstate py_err :=
  if negb (last (d_text d) 0 =? d_conv d) then Crash CAssertion else      (* assert s[-1] == conv *)
  match conv_warns inf d with
  | None => Crash CAssertion
  | Some ws =>
    do st1 <- (if d_var_width d then
                 match add_seq st SVarWidth with Some x => Ok x | None => Err EMixture end
               else if (d_width d >? i_ssize_max inf)%Z then Err EWidthRange else Ok st);
    do st2 <- (if d_var_prec d then
                 match add_seq st1 SVarPrec with Some x => Ok x | None => Err EMixture end
               else match d_prec d with
                    | Some p => if (p >? i_ssize_max inf)%Z then Err EPrecRange else Ok st1
                    | None => Ok st1
                    end);
    match conv_type inf (d_conv d) with
    | None => Crash CAssertion
    | Some TyNone =>
      match d_key d with
      | Some _ => Err EForbiddenKey
      | None => Ok {| st_seq := st_seq st2; st_map := st_map st2; st_warn := st_warn st2 ++ ws |}
      end
    | Some t =>
      match (match d_key d with None => add_seq st2 (SConv t) | Some k => add_map st2 k t end) with
      | Some st3 => Ok {| st_seq := st_seq st3; st_map := st_map st3; st_warn := st_warn st3 ++ ws |}
      | None => Err EMixture
      end
    end
  end.

(* ---------------------------------------------------------------- FormatString.__init__ *)
Fixpoint ploop (inf : pyinfo) (fuel : nat) (s : list N) (st : pstate) : outcome pstate py_err :=
  match fuel with
  | O => Crash COutOfFuel
  | S fuel' =>
    match s with
    | [] => Ok st
    | ch :: r =>
      if ch =? 37 then
        match parse_directive inf r with
        | None => Err (EError s)
        | Some (d, rest) => do st' <- conv_init inf st d; ploop inf fuel' rest st'
        end
      else ploop inf fuel' r st
    end
  end.

Definition ptype_eqb (a b : ptype) : bool :=
  match a, b with
  | TyInt, TyInt | TyFloat, TyFloat | TyChr, TyChr | TyStr, TyStr | TyObject, TyObject | TyNone, TyNone => true
  | _, _ => false
  end.

(* len(frozenset(a.type for a in args)) > 1 *)
Definition mixed_types (ts : list ptype) : bool :=
  match ts with
  | [] => false
  | t :: r => negb (forallb (ptype_eqb t) r)
  end.

Record py_sig := {
  seq_arguments : list seqarg;
  map_arguments : list (list N * list ptype);
  warnings : list py_warn }.

Definition fmtpy_parse (inf : pyinfo) (s : list N) : outcome py_sig py_err :=
  do st <- ploop inf (S (length s)) s st0;
  if existsb (fun kv => mixed_types (snd kv)) (st_map st) then Err ETypeMismatch
  else Ok {| seq_arguments := st_seq st; map_arguments := st_map st; warnings := st_warn st |}.

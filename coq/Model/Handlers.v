(* Row types of the generated exception-flow table (Generated/RaiseSites.v, written by tools/gen/gen_raisesites.py
   from the python ast of /repo/lib on every run) and the boolean checks that Props/C01.v evaluates over it.
   Definitions only.  What the table does and does not establish: notes/C01.md. *)
From Coq Require Import NArith List Bool String.
Import ListNotations.

(* what the except clause that catches the class does *)
Inductive action :=
| HTag        (* its body calls .tag(...): the error becomes a diagnostic *)
| HIgnore     (* no tag, no raise: deliberately ignored (pass / fallback value / return / continue) *)
| HRaise      (* its body raises: conversion or re-raise; that raise is a row of its own *)
| HTagRaise.  (* tags on some paths, raises on others; the raise is a row of its own *)

Inductive disposition :=
| Caught (handler_line : N) (a : action)   (* an enclosing except clause of the same function names the class or a base of it *)
| CaughtByCaller (n_call_sites : N)        (* every call of the enclosing checker function (there are n >= 1) is enclosed by such a clause *)
| ImportTime                               (* raised while a lib module is being imported: before any input is read *)
| Reviewed (why : string)                  (* deliberately not caught: whitelist of the generator, with its justification *)
| KnownDefect (id why : string)            (* NOT caught and reachable: a recorded defect of /repo (finding id); pinned in Props/C01.v *)
| Uncaught (why : string).                 (* everything else, including whatever the translator cannot classify *)

(* one row per (call or raise in the checker, exception class that may come out of it) *)
Record site := {
  s_file : string; s_line : N; s_func : string;
  s_callee : string;      (* the lib function called, or "raise" *)
  s_class : string;       (* the exception class *)
  s_disp : disposition }.

Definition site_ok (s : site) : bool :=
  match s_disp s with Uncaught _ => false | _ => true end.

(* strictly: KnownDefect does not count *)
Definition site_caught (s : site) : bool :=
  match s_disp s with Uncaught _ | KnownDefect _ _ => false | _ => true end.

Definition is_known_defect (s : site) : bool :=
  match s_disp s with KnownDefect _ _ => true | _ => false end.

Definition handled (s : site) : Prop :=
  (exists l a, s_disp s = Caught l a) \/ (exists n, s_disp s = CaughtByCaller n) \/
  s_disp s = ImportTime \/ (exists w, s_disp s = Reviewed w) \/ (exists i w, s_disp s = KnownDefect i w).

(* one row per raise statement / implicit raiser in the summarised (non-checker) modules *)
Inductive raise_status :=
| Live                    (* enters the may-raise summary of its function *)
| Dead (why : string)     (* reviewed as unreachable (defensive raise); excluded from the summaries *)
| Unclassified.           (* the class could not be determined: never caught by anything *)

Record raise_site := { r_file : string; r_line : N; r_func : string; r_class : string; r_status : raise_status }.

Definition raise_ok (r : raise_site) : bool :=
  match r_status r with Unclassified => false | _ => true end.

(* methods that Python calls without a call expression (operators, attribute access, iteration): the translator does not
   follow those, so each must have an empty may-raise summary *)
Record implicit_method := { m_file : string; m_name : string; m_summary_empty : bool }.

Definition site_is (file func callee cls : string) (s : site) : bool :=
  String.eqb (s_file s) file && String.eqb (s_func s) func && String.eqb (s_callee s) callee && String.eqb (s_class s) cls.

Definition caught_with (a : action) (s : site) : bool :=
  match s_disp s with
  | Caught _ b => match a, b with HTag, HTag | HIgnore, HIgnore | HRaise, HRaise | HTagRaise, HTagRaise => true | _, _ => false end
  | _ => false
  end.

(* Executable model of lib/iconv.py: encode/decode and the grow-and-retry loops of _encode_dl / _decode_dl,
   over an abstract iconv(3) (record iconv_ops: what each libc call returns, as a function of the output
   capacity the loop offers in that iteration; the descriptor is reset at the top of every iteration and the
   whole input is converted again, so the capacity is the only thing that varies between iterations).

   Integers are Z (Python ints; ctypes c_size_t values are >= 0).  Bytes / code points are N.
   Results:  (number of times the buffer was doubled, outcome)
     Ok out        the converted text / bytes
     Err (b, e)    UnicodeDecodeError / UnicodeEncodeError with .start = b, .end = e
     Crash ...     OSError, a failing assert, IndexError, NotImplementedError; OutOfFuel is the model's own *)
From Coq Require Import ZArith NArith List Bool.
From I18n Require Import Lib.Outcome.
Import ListNotations.
Local Open Scope Z_scope.

Inductive iconv_rc := RcOk | RcE2BIG | RcEILSEQ | RcEINVAL | RcOther.

(* iconv(cd, &inbuf, &inbytesleft, &outbuf, &outbytesleft) *)
Record conv_ret := {
  cr_rc : iconv_rc;          (* RcOk: the call did not return (size_t)-1; otherwise errno *)
  cr_inleft : Z;             (* inbytesleft.value after the call *)
  cr_outleft : Z             (* outbytesleft.value after the call *)
}.

(* iconv(cd, NULL, NULL, &outbuf, &outbytesleft), made only when the conversion call succeeded *)
Record flush_ret := {
  fr_rc : iconv_rc;
  fr_outleft : Z
}.

Record iconv_ops := {
  io_open_ok : bool;                 (* iconv_open(...) != (iconv_t)-1 *)
  io_reset_ok : Z -> bool;           (* iconv(cd, NULL, NULL, NULL, NULL) != -1 *)
  io_conv : Z -> conv_ret;           (* capacity -> result of the conversion call *)
  io_flush : Z -> flush_ret;         (* capacity -> result of the flush call that follows it *)
  io_buf : Z -> list N;              (* capacity -> output units written into the buffer (wchar_t / bytes) *)
  io_close_ok : bool                 (* iconv_close(cd) == 0 *)
}.

Definition size_t_max : Z := 2 ^ 64.

(* ctypes buffer of cap units, zero-filled, then written from the start *)
Definition buffer (cap : Z) (written : list N) : list N :=
  firstn (Z.to_nat cap) (written ++ repeat 0%N (Z.to_nat cap)).

(* l[:k] *)
Definition slice_to (l : list N) (k : Z) : list N :=
  if k <? 0 then firstn (Z.to_nat (Z.of_nat (length l) + k)) l else firstn (Z.to_nat k) l.

(* l[i], None = IndexError *)
Definition py_index (l : list N) (i : Z) : option N :=
  let n := Z.of_nat (length l) in
  if i <? 0 then (if - n <=? i then nth_error l (Z.to_nat (n + i)) else None)
  else nth_error l (Z.to_nat i).

(* for end in range(e, n): if input[end] < 0x80: break
   else: end = n                       fuel = len(range(e, n)) *)
Fixpoint scan_end (input : list N) (n : Z) (fuel : nat) (e : Z) : outcome Z (Z * Z) :=
  match fuel with
  | O => Ok n
  | S f =>
    match py_index input e with
    | None => Crash CIndexError
    | Some b => if (b <? 128)%N then Ok e else scan_end input n f (e + 1)
    end
  end.

(* what the two libc calls of one iteration leave behind: errno class, inbytesleft, outbytesleft *)
Definition iteration (ops : iconv_ops) (cap : Z) : iconv_rc * Z * Z :=
  let c := io_conv ops cap in
  match cr_rc c with
  | RcOk => let f := io_flush ops cap in (fr_rc f, cr_inleft c, fr_outleft f)
  | rc => (rc, cr_inleft c, cr_outleft c)
  end.

(* ---------------------------------------------------------------- _decode_dl: while True *)
Fixpoint dec_loop (ops : iconv_ops) (input : list N) (fuel : nat) (cap : Z) (grows : nat)
  : nat * outcome (list N) (Z * Z) :=
  match fuel with
  | O => (grows, Crash COutOfFuel)
  | S f =>
    let n := Z.of_nat (length input) in
    if negb ((n <? size_t_max) && (cap <? size_t_max)) then (grows, Crash CAssertion)   (* "no overflow" asserts *)
    else if negb (io_reset_ok ops cap) then (grows, Crash COSError)
    else
      let '(rc, inl_, outl_) := iteration ops cap in
      match rc with
      | RcE2BIG => dec_loop ops input f (cap * 2) (S grows)
      | RcEILSEQ | RcEINVAL =>
        let b := n - inl_ in
        (grows, match scan_end input n (Z.to_nat (n - (b + 1))) (b + 1) with
                | Ok e => Err (b, e)
                | Err x => Err x
                | Crash c => Crash c
                end)
      | RcOther => (grows, Crash COSError)
      | RcOk =>
        if negb (inl_ =? 0) then (grows, Crash CAssertion)
        else
          let out_len := cap - outl_ in
          if negb (out_len mod 4 =? 0) then (grows, Crash CAssertion)      (* sizeof(wchar_t) = 4 *)
          else (grows, Ok (slice_to (buffer cap (io_buf ops cap)) (out_len / 4)))
      end
  end.

(* decode(input, encoding, errors): strict = (errors == 'strict'); the finally clause closes the descriptor,
   and a failing close replaces whatever the body produced *)
Definition iconv_decode (ops : iconv_ops) (strict : bool) (input : list N) (fuel : nat)
  : nat * outcome (list N) (Z * Z) :=
  match input with
  | [] => (O, Ok [])
  | _ =>
    if negb strict then (O, Crash CNotImplemented)
    else if negb (io_open_ok ops) then (O, Crash COSError)
    else
      let r := dec_loop ops input fuel (Z.of_nat (length input)) O in
      if io_close_ok ops then r else (fst r, Crash COSError)
  end.

(* ---------------------------------------------------------------- _encode_dl *)
Definition is_surrogate (c : N) : bool := ((55296 <=? c) && (c <=? 57343))%N.

(* bytes(input, encoding='UTF-32LE'): UnicodeEncodeError(start=i, end=i+1) at the first surrogate *)
Fixpoint first_surrogate (pos : Z) (s : list N) : option Z :=
  match s with
  | [] => None
  | c :: r => if is_surrogate c then Some pos else first_surrogate (pos + 1) r
  end.

Fixpoint enc_loop (ops : iconv_ops) (n : Z) (fuel : nat) (cap : Z) (grows : nat)
  : nat * outcome (list N) (Z * Z) :=
  match fuel with
  | O => (grows, Crash COutOfFuel)
  | S f =>
    if negb ((n * 4 <? size_t_max) && (cap <? size_t_max)) then (grows, Crash CAssertion)
    else if negb (io_reset_ok ops cap) then (grows, Crash COSError)
    else
      let '(rc, inl_, outl_) := iteration ops cap in
      match rc with
      | RcE2BIG => enc_loop ops n f (cap * 2) (S grows)
      | RcEILSEQ | RcEINVAL => let b := n - inl_ / 4 in (grows, Err (b, b + 1))
      | RcOther => (grows, Crash COSError)
      | RcOk =>
        if negb (inl_ =? 0) then (grows, Crash CAssertion)
        else (grows, Ok (slice_to (buffer cap (io_buf ops cap)) (cap - outl_)))
      end
  end.

Definition iconv_encode (ops : iconv_ops) (strict : bool) (input : list N) (fuel : nat)
  : nat * outcome (list N) (Z * Z) :=
  match input with
  | [] => (O, Ok [])
  | _ =>
    if negb strict then (O, Crash CNotImplemented)
    else
      match first_surrogate 0 input with
      | Some i => (O, Err (i, i + 1))
      | None =>
        if negb (io_open_ok ops) then (O, Crash COSError)
        else
          let n := Z.of_nat (length input) in
          let r := enc_loop ops n fuel n O in
          if io_close_ok ops then r else (fst r, Crash COSError)
      end
  end.

(* fuel that always suffices under the iconv(3) contract when the output needs at most `need` units
   and the first capacity is at least 1 (Proofs/Iconv.v) *)
Definition loop_fuel (need : Z) : nat := S (Z.to_nat (Z.log2_up need)).

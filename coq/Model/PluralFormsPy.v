(* Target vocabulary of the source translator tools/gen/gen_plurals_src.py (notes/SRC3.md): the hand-written Gallina
   meaning of the Python operations that occur in gettext.parse_plural_forms / parse_plural_expression (lib/gettext.py)
   and Checker.check_plurals (lib/check/__init__.py).  Definitions only.  Generated/PluralsSrc.v imports this file and
   Lib/PySrc.v, never the model; Proofs/PluralsSrc.v proves the generated functions equal to Model/PluralForms.v. *)
From Coq Require Import List ZArith NArith Bool.
From I18n Require Import Lib.Outcome Lib.PySrc.
Import ListNotations.
Local Open Scope Z_scope.

Definition str := list N.

(* ---------- everything external to the translated code: one record of oracles and inputs ----------
   E = intexpr.Expression objects, M = re match objects, L = ling.Language objects, G = polib message objects *)
Record pl_world (E M L G : Type) := {
  (* lib/gettext.py *)
  w_search : str -> option M;                 (* _parse_plural_forms = re.compile(src_plural_forms_regex).search *)
  w_group : M -> Z -> str;                    (* match.group(i) *)
  w_start : M -> Z;                           (* match.start() *)
  w_end : M -> Z;                             (* match.end() *)
  w_int10 : str -> sres Z;                    (* int(x, 10): ValueError beyond the interpreter's digit limit *)
  w_parse : str -> sres E;                    (* intexpr.Parser().parse(s): LexingError / ParsingError *)
  (* intexpr.Expression *)
  w_call : E -> Z -> sres Z;                  (* expr(n): OverflowError / ZeroDivisionError *)
  w_codomain : E -> sres (Z * Z);             (* expr.codomain(): None, (lo, hi), AssertionError *)
  w_period : E -> sres (Z * Z);               (* expr.period() *)
  (* the check context *)
  w_values : list str;                        (* ctx.metadata['Plural-Forms'] *)
  w_language : option L;                      (* ctx.language *)
  w_get_plural_forms : L -> option (list str);(* ctx.language.get_plural_forms() *)
  w_is_template : bool;                       (* ctx.is_template *)
  w_file : list G;                            (* ctx.file, in file order *)
  w_obsolete : G -> bool;                     (* message.obsolete *)
  w_msgid_plural : G -> option str;           (* message.msgid_plural *)
  w_translated : G -> bool;                   (* message.translated() *)
  w_msgstr_plural : G -> list (Z * str)       (* message.msgstr_plural (a dict) *)
}.
Arguments w_search {E M L G}. Arguments w_group {E M L G}. Arguments w_start {E M L G}. Arguments w_end {E M L G}.
Arguments w_int10 {E M L G}. Arguments w_parse {E M L G}. Arguments w_call {E M L G}. Arguments w_codomain {E M L G}.
Arguments w_period {E M L G}. Arguments w_values {E M L G}. Arguments w_language {E M L G}.
Arguments w_get_plural_forms {E M L G}. Arguments w_is_template {E M L G}. Arguments w_file {E M L G}.
Arguments w_obsolete {E M L G}. Arguments w_msgid_plural {E M L G}. Arguments w_translated {E M L G}.
Arguments w_msgstr_plural {E M L G}.

(* ---------- calls ---------- *)
(* `v = CALL ; rest` where CALL can raise: [some] is rest, [exc] dispatches a raised exception to the enclosing
   `except` clauses (SRaise when there is none).  A callee that returns None where a value is needed: TypeError
   (unpacking / calling None); callees that may return None are wrapped in [sopt] first. *)
Definition scall {A B} (r : sres A) (some : A -> sres B) (exc : pyexn -> sres B) : sres B :=
  match r with SRet a => some a | SNone => exc (XCrash CTypeError) | SAssert => SAssert | SRaise x => exc x end.
Definition sopt {A} (r : sres A) : sres (option A) :=
  match r with SRet a => SRet (Some a) | SNone => SRet None | SAssert => SAssert | SRaise x => SRaise x end.

(* [(a, b) for a, b in map(f, l) ...]: the calls happen in order, the first exception ends the comprehension *)
Fixpoint smap {A B} (f : A -> sres B) (l : list A) : sres (list B) :=
  match l with
  | [] => SRet []
  | a :: r => scall (f a) (fun b => scall (smap f r) (fun bs => SRet (b :: bs)) SRaise) SRaise
  end.

(* ---------- values ---------- *)
Definition nonempty {A} (l : list A) : bool := match l with [] => false | _ => true end.   (* truth value of str / list / dict *)
Definition zlen {A} (l : list A) : Z := Z.of_nat (length l).                                (* len() *)

(* slices s[:a] and s[a:] with Python's clamping and negative indices *)
Definition py_idx (len a : Z) : Z := if a <? 0 then Z.max 0 (len + a) else Z.min a len.
Definition str_to (s : str) (a : Z) : str := firstn (Z.to_nat (py_idx (zlen s) a)) s.
Definition str_from (s : str) (a : Z) : str := skipn (Z.to_nat (py_idx (zlen s) a)) s.

(* sorted(set(l)) on strings: distinct elements in code-point lexicographic order *)
Fixpoint s_eqb (a b : str) : bool :=
  match a, b with [], [] => true | x :: a', y :: b' => N.eqb x y && s_eqb a' b' | _, _ => false end.
Fixpoint s_ltb (a b : str) : bool :=
  match a, b with
  | _, [] => false
  | [], _ :: _ => true
  | x :: a', y :: b' => N.ltb x y || (N.eqb x y && s_ltb a' b')
  end.
Fixpoint s_insert (x : str) (l : list str) : list str :=
  match l with
  | [] => [x]
  | y :: r => if s_eqb x y then l else if s_ltb x y then x :: l else y :: s_insert x r
  end.
Definition str_sorted_set (l : list str) : list str := fold_right s_insert [] l.

(* range(lo, hi) as the pair (lo, hi); the list it iterates over *)
Definition zrange_list (r : Z * Z) : list Z :=
  map (fun k => fst r + Z.of_nat k) (seq 0 (Z.to_nat (snd r - fst r))).

(* float('inf') next to ints: period = (0, 1e999); sum(period) < codomain_limit *)
Inductive zinf := Fin (z : Z) | PInf.
Definition zinf_add (a b : zinf) : zinf := match a, b with Fin x, Fin y => Fin (x + y) | _, _ => PInf end.
Definition zinf_ltb (a b : zinf) : bool :=
  match a, b with Fin x, Fin y => x <? y | Fin _, PInf => true | PInf, _ => false end.

(* dict with int keys: a finite map, represented by its key-sorted association list.  No translated construct observes
   insertion order (iteration over a dict is accepted only through sorted(); d.keys() only in a one-element unpacking). *)
Fixpoint dict_set {V} (d : list (Z * V)) (k : Z) (v : V) : list (Z * V) :=
  match d with
  | [] => [(k, v)]
  | (k', v') :: r => if k =? k' then (k, v) :: r else if k <? k' then (k, v) :: d else (k', v') :: dict_set r k v
  end.
Definition dict_has {V} (d : list (Z * V)) (k : Z) : bool := existsb (fun x => fst x =? k) d.   (* k in d *)
Definition dict_keys {V} (d : list (Z * V)) : list Z := map fst d.                             (* sorted(d) *)
(* collections.defaultdict(list):  d[k] += [i]  (append i to the list at k, which is created empty if absent) *)
Fixpoint dd_append (d : list (Z * list Z)) (k i : Z) : list (Z * list Z) :=
  match d with
  | [] => [(k, [i])]
  | (k', l) :: r => if k =? k' then (k, l ++ [i]) :: r else if k <? k' then (k, [i]) :: d else (k', l) :: dd_append r k i
  end.

(* misc.format_range(rng, max=mx): the text stays abstract (the triple); its exceptions are modelled:
   `last = rng[-1]` raises IndexError on an empty range, then `if max < 4: raise ValueError` *)
Definition format_range (r : Z * Z) (mx : Z) : sres (Z * Z * Z) :=
  if snd r <=? fst r then SRaise (XCrash CIndexError)
  else if mx <? 4 then SRaise XValue
  else SRet (fst r, snd r, mx).

(* ---------- the tags of check_plurals ---------- *)
(* the message argument of the codomain / arithmetic tags, by template *)
Inductive smsg :=
| MAt (i fi n : Z)              (* f'f({i}) = {fi} >= {n}' *)
| MOverflow (i : Z)             (* 'f({}): integer overflow' *)
| MDivZero (i : Z)              (* 'f({}): division by zero' *)
| MNever (r : Z * Z * Z).       (* f'f(x) != {rng}' with rng = misc.format_range(range(lo, hi), max=mx) *)
(* the arguments of inconsistent-number-of-plural-forms: an int, a message_repr(...), the constant '!=' *)
Inductive targ := AInt (z : Z) | ADeco | AConst.
(* [used]: false for the -unused- variant of the tag name.  Arguments that are constants or only decorate the message
   (the hint, '=>', safestr constants) are dropped. *)
Inductive stag :=
| TDuplicate                          (* duplicate-header-field-plural-forms *)
| TInconsistent (a : list targ)       (* inconsistent-number-of-plural-forms *)
| TNoRequired                         (* no-required-plural-forms-header-field *)
| TNoField                            (* no-plural-forms-header-field *)
| TSyntax (used : bool) (v : str)     (* syntax-error-in-[unused-]plural-forms *)
| TLeadingJunk (j : str)
| TTrailingJunk (j : str)
| TIncorrectN (n k : Z)               (* incorrect-number-of-plural-forms *)
| TUnusual (used : bool) (v : str)    (* unusual-[unused-]plural-forms *)
| TCodomain (used : bool) (m : smsg)  (* codomain-error-in-[unused-]plural-forms *)
| TArith (used : bool) (m : smsg).    (* arithmetic-error-in-[unused-]plural-forms *)

(* Executable model of the message-level checks of /repo/lib/check/__init__.py:
   Checker.check_messages, _check_message_flags, _check_message_formats (the dispatch only; the format
   checkers are C14), _check_message_xml_format, find_unusual_characters, is_header_entry, and
   gettext.search_for_conflict_marker.

   The catalog is what the code sees after polib + lib/polib4us.py: a list of entries.
   Oracles (arguments, DESIGN 2.3): the Unicode predicate \w, expat (lib/xml.py check_fragment).
   Tables (Generated/): gettext.string_formats, encodings._control_character_names.
   Definitions only. *)
From Coq Require Import List NArith ZArith Bool.
From I18n Require Import Lib.Outcome Model.IntExpr Model.PluralForms.
Import ListNotations.
Local Open Scope N_scope.

(* ------------------------------------------------------------------ *)
(* strings: Python compares str by code point, lexicographically        *)

Fixpoint str_compare (a b : list N) : comparison :=
  match a, b with
  | [], [] => Eq
  | [], _ :: _ => Lt
  | _ :: _, [] => Gt
  | x :: a', y :: b' => match N.compare x y with Eq => str_compare a' b' | c => c end
  end.
Definition str_eqb (a b : list N) : bool := match str_compare a b with Eq => true | _ => false end.
Definition str_ltb (a b : list N) : bool := match str_compare a b with Lt => true | _ => false end.

Fixpoint starts_with (p s : list N) : bool :=
  match p with
  | [] => true
  | c :: p' => match s with d :: s' => N.eqb c d && starts_with p' s' | [] => false end
  end.
Definition ends_with (p s : list N) : bool := starts_with (rev p) (rev s).
Definition mem_str (x : list N) (l : list (list N)) : bool := existsb (str_eqb x) l.
Definition memN (c : N) (l : list N) : bool := existsb (N.eqb c) l.
Definition is_nil {A} (l : list A) : bool := match l with [] => true | _ => false end.
Definition btw (lo hi c : N) : bool := (lo <=? c) && (c <=? hi).

(* sorted(set(...)): insertion sort that drops elements comparing Eq *)
Section Sort.
  Context {A : Type} (cmp : A -> A -> comparison).
  Fixpoint sinsert (x : A) (l : list A) : list A :=
    match l with
    | [] => [x]
    | y :: r => match cmp x y with Lt => x :: l | Eq => l | Gt => y :: sinsert x r end
    end.
  Definition sort_dedup (l : list A) : list A := fold_right sinsert [] l.
End Sort.

Definition zz_compare (a b : Z * Z) : comparison :=      (* tuples of ints *)
  match Z.compare (fst a) (fst b) with Eq => Z.compare (snd a) (snd b) | c => c end.
Definition zz_eqb (a b : Z * Z) : bool := match zz_compare a b with Eq => true | _ => false end.

Definition s_fuzzy : list N := [102;117;122;122;121].   (* "fuzzy" *)
Definition s_wrap : list N := [119;114;97;112].   (* "wrap" *)
Definition s_no_wrap : list N := [110;111;45;119;114;97;112].   (* "no-wrap" *)
Definition s_range : list N := [114;97;110;103;101;58].   (* "range:" *)
Definition s_format : list N := [45;102;111;114;109;97;116].   (* "-format" *)
Definition s_markdown : list N := [109;97;114;107;100;111;119;110;45;116;101;120;116].   (* "markdown-text" *)
Definition s_no : list N := [110;111;45].   (* "no-" *)
Definition s_possible : list N := [112;111;115;115;105;98;108;101;45].   (* "possible-" *)
Definition s_impossible : list N := [105;109;112;111;115;115;105;98;108;101;45].   (* "impossible-" *)
Definition s_cm_pre : list N := [35;45;35;45;35;45;35;45;35;32;32].   (* "#-#-#-#-#  " *)
Definition s_cm_suf : list N := [32;32;35;45;35;45;35;45;35;45;35].   (* "  #-#-#-#-#" *)
Definition s_xml_trigger : list N := [116;121;112;101;58;32;67;111;110;116;101;110;116;32;111;102;58;32].   (* "type: Content of: " *)
Definition s_c : list N := [99].   (* "c" *)
Definition s_perl_brace : list N := [112;101;114;108;45;98;114;97;99;101].   (* "perl-brace" *)
Definition s_python : list N := [112;121;116;104;111;110].   (* "python" *)
Definition s_python_brace : list N := [112;121;116;104;111;110;45;98;114;97;99;101].   (* "python-brace" *)

(* ------------------------------------------------------------------ *)
(* the catalog as check_messages sees it                                *)

Record msg_entry := {
  me_ctxt : option (list N);            (* message.msgctxt *)
  me_msgid : list N;
  me_plural : option (list N);          (* message.msgid_plural (None vs '' is kept by polib4us) *)
  me_msgstr : list N;                   (* message.msgstr; None and '' behave alike in every use *)
  me_msgstr_plural : list (list N);     (* message.msgstr_plural values in key order (misc.sorted_vk) *)
  me_flags : list (list N);             (* message.flags: in file order, with duplicates and empty items *)
  me_obsolete : bool;
  me_previous : bool;                   (* previous_msgctxt / previous_msgid / previous_msgid_plural: any is not None *)
  me_comment : list N                   (* message.comment or '' (the extracted comments "#.") *)
}.

Record config := {
  c_template : bool;                   (* ctx.is_template *)
  c_binary : bool;                     (* ctx.is_binary *)
  c_hidden : bool;                     (* ctx.file.possible_hidden_strings (MO only) *)
  c_encoding : bool;                   (* ctx.encoding is not None *)
  c_maxd : N;                          (* sys.get_int_max_str_digits(); 0 = unlimited *)
  c_formats : list (list N * list (list N));   (* gettext.string_formats *)
  c_ctlnames : list N;                 (* keys of encodings._control_character_names *)
  c_isword : N -> bool;                (* oracle: re \w on one character *)
  c_xml : list N -> option (list N)    (* oracle: xml.check_fragment; None = well-formed, Some m = str(ExpatError) *)
}.

(* is_header_entry *)
Definition is_header (e : msg_entry) : bool :=
  is_nil (me_msgid e) && match me_ctxt e with None => true | Some _ => false end.
Definition live (e : msg_entry) : bool := negb (me_obsolete e) && negb (is_header e).

Definition opt_eqb (a b : option (list N)) : bool :=
  match a, b with
  | None, None => true
  | Some x, Some y => str_eqb x y
  | _, _ => false
  end.
Definition key := (list N * option (list N))%type.
Definition key_of (e : msg_entry) : key := (me_msgid e, me_ctxt e).
Definition key_eqb (a b : key) : bool := str_eqb (fst a) (fst b) && opt_eqb (snd a) (snd b).
Definition count_key (k : key) (seen : list key) : nat := length (filter (key_eqb k) seen).

(* ------------------------------------------------------------------ *)
(* diagnostics                                                          *)

Inductive mdiag :=
| MRangeNoPlural                                (* range-flag-without-plural-string (no extras) *)
| MInvalidRange (flag : list N)                 (* invalid-range-flag *)
| MUnknownFlag (flag : list N)                  (* unknown-message-flag *)
| MDupFlag (flag : list N)                      (* duplicate-message-flag *)
| MConflictFlags (a b : list N)                 (* conflicting-message-flags *)
| MRedundantFlag (possible positive : list N)   (* redundant-message-flag <possible> (implied by <positive>) *)
| MDispatch (fmt : list N)                      (* not a tag: a format checker (C14) is called *)
| MMalformedXml (msg : list N)                  (* malformed-xml *)
| MDuplicateDef                                 (* duplicate-message-definition *)
| MTranslationInTemplate
| MStrayPrevious
| MLeadingNL
| MTrailingNL
| MUnusual (chars : list N)                     (* unusual-character-in-translation, the sorted characters *)
| MConflictMarker (marker : list N)
| MPartial.

Inductive cdiag :=
| AtMsg (i : nat) (d : mdiag)                   (* i = position of the msg_entry in the file *)
| EmptyFile.

Definition is_tag (d : cdiag) : bool :=
  match d with AtMsg _ (MDispatch _) => false | _ => true end.

(* ------------------------------------------------------------------ *)
(* _check_message_flags                                                 *)

Inductive ftp := TpPos | TpNo | TpPossible | TpImpossible.    (* '', 'no', 'possible', 'impossible' *)
Definition ftp_eqb (a b : ftp) : bool :=
  match a, b with
  | TpPos, TpPos | TpNo, TpNo | TpPossible, TpPossible | TpImpossible, TpImpossible => true
  | _, _ => false
  end.

Inductive fclass :=
| FFuzzy
| FWrap (w : bool)                         (* wrap = true, no-wrap = false *)
| FRange (r : option (Z * Z))              (* Some (i, j): parsed and i < j *)
| FFormat (r : option (ftp * list N))      (* Some (tp, name): found in string_formats *)
| FMarkdown
| FOther.

(* str.strip(' \t\r\f\v') *)
Definition is_strip_char (c : N) : bool :=
  N.eqb c 32 || N.eqb c 9 || N.eqb c 13 || N.eqb c 12 || N.eqb c 11.
Fixpoint lstrip (s : list N) : list N :=
  match s with c :: r => if is_strip_char c then lstrip r else s | [] => [] end.
Definition strip (s : list N) : list N := rev (lstrip (rev (lstrip s))).

(* re.match(r'\A([0-9]+)[.][.]([0-9]+)\Z', t) followed by map(int, groups) and the test i < j.
   Ok None = no match or i >= j; Crash ValueError = int() refuses a bound of more than maxd digits *)
Definition parse_range (maxd : N) (s : list N) : outcome (option (Z * Z)) Empty_set :=
  let t := strip s in
  let '(d1, r1) := span is_digit t in
  if is_nil d1 then Ok None else
  match r1 with
  | a :: b :: r2 =>
    if N.eqb a 46 && N.eqb b 46 then
      let '(d2, r3) := span is_digit r2 in
      if is_nil d2 || negb (is_nil r3) then Ok None else
      if negb (max_digits_ok maxd (N.of_nat (length d1))) then Crash CValueError else
      if negb (max_digits_ok maxd (N.of_nat (length d2))) then Crash CValueError else
      let i := digits_value d1 in let j := digits_value d2 in
      if (i <? j)%Z then Ok (Some (i, j)) else Ok None
    else Ok None
  | _ => Ok None
  end.

Definition prefixes : list (ftp * list N) :=
  [(TpNo, s_no); (TpPossible, s_possible); (TpImpossible, s_impossible); (TpPos, [])].

(* flag[k:-7] *)
Definition slice_mid (k : nat) (flag : list N) : list N :=
  firstn (length flag - 7 - k) (skipn k flag).

Definition mem_key (k : list N) (tbl : list (list N * list (list N))) : bool :=
  existsb (fun p => str_eqb (fst p) k) tbl.

Fixpoint lookup_format (tbl : list (list N * list (list N))) (ps : list (ftp * list N)) (flag : list N)
  : option (ftp * list N) :=
  match ps with
  | [] => None
  | (tp, p) :: r =>
    if starts_with p flag then
      let sf := slice_mid (length p) flag in
      if mem_key sf tbl then Some (tp, sf) else lookup_format tbl r flag
    else lookup_format tbl r flag
  end.

(* the if / elif chain of the loop body *)
Definition classify (cfg : config) (flag : list N) : outcome fclass Empty_set :=
  if str_eqb flag s_fuzzy then Ok FFuzzy
  else if str_eqb flag s_wrap then Ok (FWrap true)
  else if str_eqb flag s_no_wrap then Ok (FWrap false)
  else if starts_with s_range flag then
    do r <- parse_range (c_maxd cfg) (skipn 6 flag); Ok (FRange r)
  else if ends_with s_format flag then Ok (FFormat (lookup_format (c_formats cfg) prefixes flag))
  else if str_eqb flag s_markdown then Ok FMarkdown
  else Ok FOther.

Definition item := (list N * nat * fclass)%type.

Definition count_str (f : list N) (l : list (list N)) : nat := length (filter (str_eqb f) l).

(* sorted(collections.Counter(message.flags).items()) *)
Definition counter_sorted (flags : list (list N)) : list (list N * nat) :=
  map (fun f => (f, count_str f flags)) (sort_dedup str_compare flags).

Fixpoint classify_all (cfg : config) (l : list (list N * nat)) : outcome (list item) Empty_set :=
  match l with
  | [] => Ok []
  | (f, n) :: r => do c <- classify cfg f; do cs <- classify_all cfg r; Ok ((f, n, c) :: cs)
  end.

(* tags emitted by one iteration, before the duplicate test *)
Definition item_pre (has_plural : bool) (wrap : option bool) (flag : list N) (cl : fclass) : list mdiag :=
  match cl with
  | FWrap w =>
    match wrap with
    | Some w0 => if Bool.eqb w0 (negb w) then [MConflictFlags s_wrap s_no_wrap] else []
    | None => []
    end
  | FRange r =>
    (if has_plural then [] else [MRangeNoPlural]) ++
    match r with None => [MInvalidRange flag] | Some _ => [] end
  | FFormat None | FOther => [MUnknownFlag flag]
  | _ => []
  end.
Definition item_wrap (wrap : option bool) (cl : fclass) : option bool :=
  match cl with
  | FWrap w =>
    match wrap with
    | Some w0 => if Bool.eqb w0 (negb w) then wrap else Some w
    | None => Some w
    end
  | _ => wrap
  end.
(* "if n > 1 and flag"; a valid range flag has set n = 0 *)
Definition item_dup (flag : list N) (n : nat) (cl : fclass) : list mdiag :=
  match cl with
  | FRange (Some _) => []
  | _ => if Nat.ltb 1 n && negb (is_nil flag) then [MDupFlag flag] else []
  end.

Fixpoint loop_diags (has_plural : bool) (wrap : option bool) (items : list item) : list mdiag :=
  match items with
  | [] => []
  | (flag, n, cl) :: r =>
    item_pre has_plural wrap flag cl ++ item_dup flag n cl ++ loop_diags has_plural (item_wrap wrap cl) r
  end.

(* range_flags: one row per Counter item whose range is valid: ((i, j), (flag, n)) *)
Definition range_rows (items : list item) : list ((Z * Z) * (list N * nat)) :=
  flat_map (fun it : item => match it with
                             | (flag, n, FRange (Some r)) => [(r, (flag, n))]
                             | _ => []
                             end) items.

Definition str_min (l : list (list N)) : list N :=
  match l with
  | [] => []
  | x :: r => fold_left (fun a b => if str_ltb b a then b else a) r x
  end.
Definition flags_of_key (rows : list ((Z * Z) * (list N * nat))) (k : Z * Z) : list (list N) :=
  map (fun r => fst (snd r)) (filter (fun r => zz_eqb (fst r) k) rows).
Definition sum_n (rows : list ((Z * Z) * (list N * nat))) : nat :=
  fold_right (fun r a => (snd (snd r) + a)%nat) 0%nat rows.

Definition range_post (rows : list ((Z * Z) * (list N * nat))) : list mdiag :=
  match sort_dedup zz_compare (map fst rows) with
  | [] => []
  | [k] => if Nat.ltb 1 (sum_n rows) then [MDupFlag (str_min (flags_of_key rows k))] else []
  | k1 :: k2 :: _ => [MConflictFlags (str_min (flags_of_key rows k1)) (str_min (flags_of_key rows k2))]
  end.

(* format_flags[tp]: a dict name -> flag; kept newest first, dget = the latest assignment *)
Definition fmt_dict (tp : ftp) (items : list item) : list (list N * list N) :=
  rev (flat_map (fun it : item => match it with
                                  | (flag, _, FFormat (Some (tp', name))) => if ftp_eqb tp tp' then [(name, flag)] else []
                                  | _ => []
                                  end) items).
Definition dget (k : list N) (d : list (list N * list N)) : option (list N) :=
  match find (fun p => str_eqb (fst p) k) d with Some p => Some (snd p) | None => None end.
(* sorted(d.items()) *)
Definition dict_items (d : list (list N * list N)) : list (list N * list N) :=
  flat_map (fun k => match dget k d with Some v => [(k, v)] | None => [] end)
           (sort_dedup str_compare (map fst d)).

Definition examples (tbl : list (list N * list (list N))) (name : list N) : list (list N) :=
  match find (fun p => str_eqb (fst p) name) tbl with Some p => snd p | None => [] end.
(* fmt_ex1 & fmt_ex2 is non-empty *)
Definition compatible (tbl : list (list N * list (list N))) (f1 f2 : list N) : bool :=
  existsb (fun x => mem_str x (examples tbl f2)) (examples tbl f1).

Definition pos_conflicts (tbl : list (list N * list (list N))) (pos : list (list N * list N)) : list mdiag :=
  flat_map (fun p1 => flat_map (fun p2 =>
    if str_ltb (fst p1) (fst p2) then
      if compatible tbl (fst p1) (fst p2) then [] else [MConflictFlags (snd p1) (snd p2)]
    else []) pos) pos.

Definition pair_conflicts (p n : list (list N * list N)) : list mdiag :=
  flat_map (fun kv => match dget (fst kv) n with Some f2 => [MConflictFlags (snd kv) f2] | None => [] end)
           (dict_items p).
Definition redundant (pos possible : list (list N * list N)) : list mdiag :=
  flat_map (fun kv => match dget (fst kv) possible with Some pf => [MRedundantFlag pf (snd kv)] | None => [] end)
           (dict_items pos).

Record finfo := {
  fi_fuzzy : bool;
  fi_range : option (Z * Z);            (* range_min, range_max; None = (0, +inf) *)
  fi_formats : list (list N)            (* sorted(info.formats) *)
}.

Definition is_fuzzy_item (it : item) : bool := match it with (_, _, FFuzzy) => true | _ => false end.
Definition last_range (items : list item) : option (Z * Z) :=
  fold_left (fun acc (it : item) => match it with (_, _, FRange (Some r)) => Some r | _ => acc end) items None.

Definition flags_diags (tbl : list (list N * list (list N))) (has_plural : bool) (items : list item) : list mdiag :=
  let pos := fmt_dict TpPos items in
  let no := fmt_dict TpNo items in
  let possible := fmt_dict TpPossible items in
  let impossible := fmt_dict TpImpossible items in
  loop_diags has_plural None items
  ++ range_post (range_rows items)
  ++ pos_conflicts tbl (dict_items pos)
  ++ pair_conflicts pos no ++ pair_conflicts pos impossible ++ pair_conflicts possible impossible
  ++ redundant pos possible.

Definition flags_info (items : list item) : finfo :=
  {| fi_fuzzy := existsb is_fuzzy_item items;
     fi_range := last_range items;
     fi_formats := map fst (dict_items (fmt_dict TpPos items)) |}.

Definition check_flags (cfg : config) (has_plural : bool) (flags : list (list N))
  : outcome (list mdiag * finfo) Empty_set :=
  do items <- classify_all cfg (counter_sorted flags);
  Ok (flags_diags (c_formats cfg) has_plural items, flags_info items).

(* ------------------------------------------------------------------ *)
(* _check_message_formats: the dispatch, and the XML trigger            *)

Definition has_checker (name : list N) : bool :=
  str_eqb name s_c || str_eqb name s_perl_brace || str_eqb name s_python || str_eqb name s_python_brace.
Definition dispatch (formats : list (list N)) : list mdiag :=
  map MDispatch (filter has_checker formats).

(* lib/xml.py: _start_char, _next_char *)
Definition xml_start_char (c : N) : bool :=
  N.eqb c 58 || btw 65 90 c || N.eqb c 95 || btw 97 122 c
  || btw 192 214 c || btw 216 246 c || btw 248 767 c || btw 880 893 c || btw 895 8191 c
  || btw 8204 8205 c || btw 8304 8591 c || btw 11264 12271 c || btw 12289 55295 c
  || btw 63744 64975 c || btw 65008 65533 c || btw 65536 983039 c.
Definition xml_next_char (c : N) : bool :=
  xml_start_char c || N.eqb c 46 || btw 48 57 c || N.eqb c 183 || btw 768 879 c
  || N.eqb c 8255 || N.eqb c 8256 || N.eqb c 45.

Inductive xstate := XNone | XStart | XName | XClosed.
(* (<name>)+\Z *)
Fixpoint xml_elems (st : xstate) (s : list N) : bool :=
  match s with
  | [] => match st with XClosed => true | _ => false end
  | c :: r =>
    match st with
    | XNone | XClosed => N.eqb c 60 && xml_elems XStart r
    | XStart => xml_start_char c && xml_elems XName r
    | XName => if N.eqb c 62 then xml_elems XClosed r else xml_next_char c && xml_elems XName r
    end
  end.
(* re.match(r'\Atype: Content of: (<name>)+\Z', message.comment or '') *)
Definition xml_trigger (comment : list N) : bool :=
  match strip_prefix s_xml_trigger comment with
  | Some r => xml_elems XNone r
  | None => false
  end.

(* xml.check_fragment(s): s.encode('UTF-8', 'surrogatepass') cannot fail (a lone surrogate is handed to expat,
   which rejects the bytes); the verdict is the oracle's *)
Definition xml_check (cfg : config) (s : list N) : outcome (option (list N)) Empty_set := Ok (c_xml cfg s).

Definition xml_diags (cfg : config) (fuzzy : bool) (e : msg_entry) : outcome (list mdiag) Empty_set :=
  if negb (c_encoding cfg) then Ok [] else
  do r <- xml_check cfg (me_msgid e);
  match r with
  | Some m => Ok (if c_template cfg then [MMalformedXml m] else [])
  | None =>
    if fuzzy then Ok [] else
    if is_nil (me_msgstr e) then Ok [] else
    do r2 <- xml_check cfg (me_msgstr e);
    Ok (match r2 with Some m => [MMalformedXml m] | None => [] end)
  end.

(* ------------------------------------------------------------------ *)
(* find_unusual_characters                                              *)

Definition uc_plain (c : N) : bool :=
  btw 0 8 c || btw 11 26 c || btw 28 31 c || N.eqb c 127 || btw 128 159 c
  || N.eqb c 65279 || N.eqb c 65533 || btw 65534 65535 c.

Fixpoint uc_scan (isword : N -> bool) (prev : option N) (s : list N) : list N :=
  match s with
  | [] => []
  | c :: r =>
    let hit := uc_plain c
               || (N.eqb c 27 && negb (match r with d :: _ => N.eqb d 91 | [] => false end))
               || (N.eqb c 191 && match prev with Some p => isword p | None => false end) in
    (if hit then [c] else []) ++ uc_scan isword (Some c) r
  end.
Definition find_unusual (isword : N -> bool) (s : list N) : list N := uc_scan isword None s.

(* encodings.get_character_name raises ValueError for a control character that has no msg_entry in
   data/control-characters (unicodedata has no name for Cc) *)
Definition is_cc (c : N) : bool := (c <? 32) || btw 127 159 c.
Definition name_ok (ctl : list N) (c : N) : bool := if is_cc c then memN c ctl else true.

Fixpoint unusual_loop (cfg : config) (msgid_uc found : list N) (strs : list (list N))
  : outcome (list mdiag * list N) Empty_set :=
  match strs with
  | [] => Ok ([], found)
  | s :: r =>
    let uc := sort_dedup N.compare
                (filter (fun c => negb (memN c msgid_uc) && negb (memN c found)) (find_unusual (c_isword cfg) s)) in
    if is_nil uc then unusual_loop cfg msgid_uc found r else
    if negb (forallb (name_ok (c_ctlnames cfg)) uc) then Crash CValueError else
    do x <- unusual_loop cfg msgid_uc (found ++ uc) r;
    Ok (MUnusual uc :: fst x, snd x)
  end.

(* ------------------------------------------------------------------ *)
(* gettext.search_for_conflict_marker: ^#-#-#-#-#  .+  #-#-#-#-#$ with re.MULTILINE                 *)

Fixpoint lines (s : list N) : list (list N) :=         (* split at "\n" *)
  match s with
  | [] => [[]]
  | c :: r =>
    if N.eqb c 10 then [] :: lines r
    else match lines r with l :: ls => (c :: l) :: ls | [] => [[c]] end
  end.
Definition is_marker_line (l : list N) : bool :=
  starts_with s_cm_pre l && ends_with s_cm_suf l && Nat.leb 23 (length l).
Definition search_marker (s : list N) : option (list N) := find is_marker_line (lines s).

Fixpoint first_marker (strs : list (list N)) : option (list N) :=
  match strs with
  | [] => None
  | s :: r => match search_marker s with Some m => Some m | None => first_marker r end
  end.

(* ------------------------------------------------------------------ *)
(* check_messages                                                       *)

Definition starts_nl (s : list N) : bool := match s with c :: _ => N.eqb c 10 | [] => false end.
Definition ends_nl (s : list N) : bool := starts_nl (rev s).

Definition has_msgstr (e : msg_entry) : bool := negb (is_nil (me_msgstr e)).
Definition has_msgstr_plural (e : msg_entry) : bool := existsb (fun s => negb (is_nil s)) (me_msgstr_plural e).

(* the strings compared with msgid for leading / trailing newlines *)
Definition nl_strings (fuzzy : bool) (e : msg_entry) : list (list N) :=
  (match me_plural e with Some p => [p] | None => [] end)
  ++ (if fuzzy then [] else
        (if has_msgstr e then [me_msgstr e] else [])
        ++ (if has_msgstr_plural e then me_msgstr_plural e else [])).
(* the translations searched for unusual characters and conflict markers *)
Definition tr_strings (e : msg_entry) : list (list N) :=
  (if has_msgstr e then [me_msgstr e] else [])
  ++ (if has_msgstr_plural e then me_msgstr_plural e else []).

Definition check_entry (cfg : config) (seen : list key) (found : list N) (e : msg_entry)
  : outcome (list mdiag * list N) Empty_set :=
  do fr <- check_flags cfg (match me_plural e with Some _ => true | None => false end) (me_flags e);
  let fuzzy := fi_fuzzy (snd fr) in
  do xd <- (if xml_trigger (me_comment e) then xml_diags cfg fuzzy e else Ok []);
  let dup := if Nat.eqb (count_key (key_of e) seen) 1 then [MDuplicateDef] else [] in
  let tmpl := if c_template cfg && (has_msgstr e || has_msgstr_plural e) then [MTranslationInTemplate] else [] in
  let stray := if me_previous e && negb fuzzy then [MStrayPrevious] else [] in
  let strs := nl_strings fuzzy e in
  let lnl := if existsb (fun s => negb (Bool.eqb (starts_nl s) (starts_nl (me_msgid e)))) strs then [MLeadingNL] else [] in
  let tnl := if existsb (fun s => negb (Bool.eqb (ends_nl s) (ends_nl (me_msgid e)))) strs then [MTrailingNL] else [] in
  do ud <- (if c_encoding cfg then
              unusual_loop cfg
                (find_unusual (c_isword cfg) (me_msgid e)
                 ++ find_unusual (c_isword cfg) (match me_plural e with Some p => p | None => [] end))
                found (tr_strings e)
            else Ok ([], found));
  let cm := if fuzzy then [] else
              match first_marker (tr_strings e) with Some m => [MConflictMarker m] | None => [] end in
  let partial := if negb fuzzy && has_msgstr_plural e && existsb (fun s => is_nil s) (me_msgstr_plural e)
                 then [MPartial] else [] in
  Ok (fst fr ++ dispatch (fi_formats (snd fr)) ++ xd ++ dup ++ tmpl ++ stray ++ lnl ++ tnl ++ fst ud ++ cm ++ partial,
      snd ud).

(* the loop; i is the position in the file, seen the keys counted so far (msgid_counter),
   found = found_unusual_characters *)
Fixpoint run (cfg : config) (i : nat) (seen : list key) (found : list N) (es : list msg_entry)
  : outcome (list cdiag * list key) Empty_set :=
  match es with
  | [] => Ok ([], seen)
  | e :: r =>
    if me_obsolete e then run cfg (S i) seen found r
    else if is_header e then run cfg (S i) seen found r
    else
      do x <- check_entry cfg seen found e;
      do y <- run cfg (S i) (key_of e :: seen) (snd x) r;
      Ok (map (AtMsg i) (fst x) ++ fst y, snd y)
  end.

Definition check_messages (cfg : config) (cat : list msg_entry) : outcome (list cdiag) Empty_set :=
  do x <- run cfg 0 [] [] cat;
  Ok (fst x ++ if is_nil (snd x) then (if c_binary cfg && c_hidden cfg then [] else [EmptyFile]) else []).

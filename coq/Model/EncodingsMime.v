(* Model of the charset statement of Checker.check_mime (lib/check/__init__.py), i.e. of
       try: is_ascii_compatible = encinfo.is_ascii_compatible_encoding(encoding, missing_ok=False)
       except encinfo.EncodingLookupError: ...  else: ...
   in terms of `classify` and `unrepresentable_tag_args` (Model/Encodings.v): which tags it emits, in which order, with
   which arguments, and what `encoding` is afterwards (None: the charset is unknown; the proposal when there is one).
   Definitions only.  ctx.language.get_unrepresentable_characters is the oracle `unrep` (its list part is
   get_unrepresentable_characters of Model/Encodings.v); tags are (name, arguments). *)
From Coq Require Import NArith List Bool.
From I18n Require Import Lib.Outcome Model.Encodings Model.EncodingsPy.
Import ListNotations.
Local Open Scope N_scope.

Definition tag : Type := list N * list (list N).
Definition t_boilerplate : list N :=   (* boilerplate-in-content-type *)
  [98; 111; 105; 108; 101; 114; 112; 108; 97; 116; 101; 45; 105; 110; 45; 99; 111; 110; 116; 101; 110; 116; 45; 116; 121; 112; 101].
Definition t_unknown : list N :=       (* unknown-encoding *)
  [117; 110; 107; 110; 111; 119; 110; 45; 101; 110; 99; 111; 100; 105; 110; 103].
Definition t_non_ascii : list N :=     (* non-ascii-compatible-encoding *)
  [110; 111; 110; 45; 97; 115; 99; 105; 105; 45; 99; 111; 109; 112; 97; 116; 105; 98; 108; 101; 45; 101; 110; 99; 111; 100; 105; 110; 103].
Definition t_non_portable : list N :=  (* non-portable-encoding *)
  [110; 111; 110; 45; 112; 111; 114; 116; 97; 98; 108; 101; 45; 101; 110; 99; 111; 100; 105; 110; 103].
Definition t_unrepresentable : list N :=  (* unrepresentable-characters *)
  [117; 110; 114; 101; 112; 114; 101; 115; 101; 110; 116; 97; 98; 108; 101; 45; 99; 104; 97; 114; 97; 99; 116; 101; 114; 115].
Definition s_arrow : list N := [61; 62].                        (* => *)
Definition s_CHARSET : list N := [67; 72; 65; 82; 83; 69; 84].  (* CHARSET *)

(* if ctx.language is not None: ... self.tag('unrepresentable-characters', encoding, *characters) *)
Definition mime_unrepresentable (has_language : bool) (unrep : list N -> pres (list (list N))) (tags : list tag) (enc : list N)
  : pres (list tag * option (list N)) :=
  if has_language then
    pbind (unrep enc)
      (fun l => match unrepresentable_tag_args l with
                | Some args => PRet (tags ++ [(t_unrepresentable, enc :: args)], Some enc)
                | None => PRet (tags, Some enc)
                end)
      (PRet (tags, Some enc))
      (@PRaise _)
  else PRet (tags, Some enc).

Definition mime_charset (d : enc_data) (o : codec_oracle) (is_template has_language : bool)
  (unrep : list N -> pres (list (list N))) (enc ct : list N) : pres (list tag * option (list N)) :=
  match classify d o enc with
  | Ok ClsUnknown =>
    PRet (if list_eqb enc s_CHARSET then (if is_template then [] else [(t_boilerplate, [ct])]) else [(t_unknown, [enc])], None)
  | Ok ClsNonAscii => mime_unrepresentable has_language unrep [(t_non_ascii, [enc])] enc
  | Ok ClsPortable => mime_unrepresentable has_language unrep [] enc
  | Ok (ClsNonPortable (Some p)) => mime_unrepresentable has_language unrep [(t_non_portable, [enc; s_arrow; p])] p
  | Ok (ClsNonPortable None) => mime_unrepresentable has_language unrep [(t_non_portable, [enc])] enc
  | Err _ => PRaise PEncodingLookupError        (* classify has no Err result *)
  | Crash c => of_crash c
  end.

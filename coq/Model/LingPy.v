(* Target vocabulary of the source translator tools/gen/gen_ling_src.py (notes/SRC6.md): the hand-written Gallina meaning
   of the Python operations it emits.  Definitions only.  Generated/LingSrc.v imports this file and Model/Ling.v (for the
   record `language`, the diagnostics `ldiag`/`lsource` and the string primitives), never the model's composite functions
   (fix_codes, lookup_munched, check_language ...): Proofs/LingSrc*.v prove the translation equal to those. *)
From Coq Require Import List NArith ZArith Bool.
From I18n Require Import Lib.Outcome Model.Ling.
Import ListNotations.

(* (notations, not definitions: the same types as in Model/Ling.v, syntactically) *)
Notation str := (list N) (only parsing).
Notation tup4 := (list N * option (list N) * option (list N) * option (list N))%type (only parsing).     (* Language._get_tuple() / match.groups() *)

(* ---------- exceptions ---------- *)
Inductive pyx :=
| XValueError | XLanguageError | XLanguageSyntaxError | XFixingLanguageCodesFailed | XFixingLanguageEncodingFailed
| XLookupError | XKeyError | XIndexError | XTypeError.

Definition is_language_error (x : pyx) : bool :=
  match x with
  | XLanguageError | XLanguageSyntaxError | XFixingLanguageCodesFailed | XFixingLanguageEncodingFailed => true
  | _ => false
  end.

(* `except handler:` catches an exception of class `raised`  (issubclass raised handler).
   ValueError > LanguageError > {LanguageSyntaxError, FixingLanguageCodesFailed, FixingLanguageEncodingFailed}: the class
   statements of lib/ling.py, which the translator checks literally; LookupError > {KeyError, IndexError}: builtin *)
Definition catches (handler raised : pyx) : bool :=
  match handler, raised with
  | XValueError, XValueError => true
  | XValueError, r => is_language_error r
  | XLanguageError, r => is_language_error r
  | XLookupError, (XLookupError | XKeyError | XIndexError) => true
  | XLanguageSyntaxError, XLanguageSyntaxError => true
  | XFixingLanguageCodesFailed, XFixingLanguageCodesFailed => true
  | XFixingLanguageEncodingFailed, XFixingLanguageEncodingFailed => true
  | XKeyError, XKeyError => true
  | XIndexError, XIndexError => true
  | XTypeError, XTypeError => true
  | _, _ => false
  end.

(* ---------- statements ----------
   the result of running a block of statements:
     LNorm s : it ran to its end; s = the values of the variables it (re)bound
     LRet r  : `return`  (r = the function's result, including the effects the function has on its arguments)
     LExc x  : an exception is propagating *)
Inductive lres (S R : Type) :=
| LNorm (s : S) | LRet (r : R) | LExc (x : pyx).
Arguments LNorm {S R} s.
Arguments LRet {S R} r.
Arguments LExc {S R} x.

(* B ; rest *)
Definition lbind {S S' R} (b : lres S R) (rest : S -> lres S' R) : lres S' R :=
  match b with LNorm s => rest s | LRet r => LRet r | LExc x => LExc x end.

(* try: B  except ...: h  else: els      (an exception raised in `els` or in a handler is not caught here; the handler runs
   with the variables as they were when `try` was entered: the translator checks that B changes nothing before a point
   where it can raise, unless the handler overwrites it first) *)
Definition ltry {S S' R} (b : lres S R) (els : S -> lres S' R) (h : pyx -> lres S' R) : lres S' R :=
  match b with LNorm s => els s | LRet r => LRet r | LExc x => h x end.

(* for x in l: B     (s = the variables bound before the loop that B rebinds) *)
Fixpoint lfor {A S R} (l : list A) (s : S) (body : A -> S -> lres S R) : lres S R :=
  match l with
  | [] => LNorm s
  | x :: r => lbind (body x s) (fun s' => lfor r s' body)
  end.

(* v = f(...) ; rest      (a translated function always ends in LRet or LExc) *)
Definition lcall {R S R'} (f : lres Empty_set R) (rest : R -> lres S R') : lres S R' :=
  match f with LNorm e => match e with end | LRet r => rest r | LExc x => LExc x end.

(* ---------- the environment of lib/ling.py: tables and external functions (oracle arguments) ---------- *)
Record pyenv := {
  pe_iso639  : list (str * str);        (* ling._iso_639 *)
  pe_iso3166 : list str;                (* ling._iso_3166 *)
  pe_names   : list (str * str);        (* ling._name_to_code *)
  pe_munch   : str -> str;              (* ling._munch_language_name *)
  pe_scan    : str -> option tup4;      (* _language_regexp.match(s): None, or match.groups() *)
  pe_upper   : str -> str               (* str.upper *)
}.

(* ---------- expressions ---------- *)
(* l[i] with Python's negative indices; None = IndexError *)
Definition py_index {A} (l : list A) (i : Z) : option A :=
  if (i <? 0)%Z then
    (if (Z.of_nat (length l) + i <? 0)%Z then None else nth_error l (Z.to_nat (Z.of_nat (length l) + i)))
  else nth_error l (Z.to_nat i).

(* s[:k] *)
Definition py_slice_to {A} (s : list A) (k : Z) : list A :=
  if (k <? 0)%Z then firstn (length s - Z.to_nat (- k)) s else firstn (Z.to_nat k) s.

(* s.split(sep, 1) *)
Definition py_split1 (sep : N) (s : str) : list str :=
  if lg_has sep s then let '(a, b) := lg_split1 sep s in [a; b] else [s].

(* str.join(sep, l) *)
Fixpoint py_join (sep : str) (l : list str) : str :=
  match l with
  | [] => []
  | [x] => x
  | x :: r => x ++ sep ++ py_join sep r
  end.

(* a set of strings: duplicate-free list in order of first insertion;  S.add(x) *)
Definition sset_add (x : str) (s : list str) : list str := if lg_mem s x then s else s ++ [x].
(* S.pop() when len(S) == 1 *)
Definition sset_the (s : list str) : option str := match s with [x] => Some x | _ => None end.

(* the value of an Optional[str] when it is true (not None, not '') *)
Definition truthy_str (o : option str) : option str :=
  match o with Some (c :: r) => Some (c :: r) | _ => None end.
(* truth of a method result that is None or a bool *)
Definition opt_true (o : option bool) : bool := match o with Some b => b | None => false end.

(* == on the 4-tuples of _get_tuple *)
Definition tup4_eqb (a b : tup4) : bool :=
  let '(a1, a2, a3, a4) := a in let '(b1, b2, b3, b4) := b in
  lg_eqb a1 b1 && opt_eqb a2 b2 && opt_eqb a3 b3 && opt_eqb a4 b4.

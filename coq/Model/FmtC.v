(* Executable model of /repo/lib/strformat/c.py : FormatString, Conversion, _printable_prefix.
   Definitions only; proofs live in Proofs/FmtC*.v.
   Text = list N of code points; Python int = Z; the tables of `_info`, INT_MAX, NL_ARGMAX come
   from Generated/CInfo.v.  [maxd] = sys.get_int_max_str_digits() (0 = unlimited), threaded to
   every int() of a digit run as in Model/IntExpr.v. *)
From Coq Require Import List NArith ZArith Bool String.
From I18n Require Import Lib.Outcome Lib.CFmtSyntax Generated.CInfo.
Import ListNotations.
Local Open Scope N_scope.

(* ------------------------------------------------------------------ *)
(* The directive regex as a deterministic scanner                      *)

Definition is_digit (c : N) : bool := (48 <=? c) && (c <=? 57).
Definition is_digit19 (c : N) : bool := (49 <=? c) && (c <=? 57).
Definition flag_chars : list N := Eval vm_compute in chars "#0 +'I-".
Definition is_flag (c : N) : bool := mem c flag_chars.
Definition conv_chars : list N := Eval vm_compute in chars "diouxXeEfFgGaAcsCSpnm%".
Definition is_conv (c : N) : bool := mem c conv_chars.
(* hh? | ll? | [qjzZt] | L : greedy, so the two-character forms come first *)
Definition length_mods : list (list N) :=
  Eval vm_compute in map chars ["hh"; "h"; "ll"; "l"; "q"; "j"; "z"; "Z"; "t"; "L"]%string.
Definition c99_convs : list N := Eval vm_compute in chars "diouxX".
(* (?:LEAST|FAST)?(?:8|16|32|64)|MAX|PTR *)
Definition c99_lens : list (list N) :=
  Eval vm_compute in map chars ["LEAST8"; "LEAST16"; "LEAST32"; "LEAST64"; "FAST8"; "FAST16"; "FAST32"; "FAST64";
                                "8"; "16"; "32"; "64"; "MAX"; "PTR"]%string.

Fixpoint span (p : N -> bool) (s : list N) : list N * list N :=
  match s with
  | [] => ([], [])
  | c :: r => if p c then let '(a, b) := span p r in (c :: a, b) else ([], s)
  end.

(* remove a literal prefix *)
Fixpoint strip (p s : list N) : option (list N) :=
  match p with
  | [] => Some s
  | x :: p' => match s with
               | y :: s' => if x =? y then strip p' s' else None
               | [] => None
               end
  end.

(* the first alternative that is a prefix of the text *)
Fixpoint first_strip (alts : list (list N)) (s : list N) : option (list N * list N) :=
  match alts with
  | [] => None
  | a :: r => match strip a s with Some rest => Some (a, rest) | None => first_strip r s end
  end.

(* [0-9]+[$] : used for index, varwidth_index, varprec_index.  If the digits are not followed
   by '$' the optional group matches nothing and the text is left untouched. *)
Definition scan_dollar (s : list N) : option (list N) * list N :=
  let '(ds, r) := span is_digit s in
  match ds, r with
  | _ :: _, c :: r' => if c =? 36 then (Some ds, r') else (None, s)
  | _, _ => (None, s)
  end.

(* (?: [1-9][0-9]* | [*] ([0-9]+[$])? )? *)
Definition scan_width (s : list N) : numspec * list N :=
  match s with
  | c :: r =>
    if is_digit19 c then let '(ds, r') := span is_digit s in (NNum ds, r')
    else if c =? 42 then let '(i, r') := scan_dollar r in (NStar i, r')
    else (NNone, s)
  | [] => (NNone, [])
  end.

(* (?: [.] (?: [0-9]* | [*] ([0-9]+[$])? ) )? : the empty precision is tried first, and undone only
   when the next character is '*' (nothing else that follows can start with '*') *)
Definition scan_prec (s : list N) : numspec * list N :=
  match s with
  | c :: r =>
    if c =? 46 then
      match r with
      | c2 :: r2 => if c2 =? 42 then let '(i, r') := scan_dollar r2 in (NStar i, r')
                    else let '(ds, r') := span is_digit r in (NNum ds, r')
      | [] => (NNum [], [])
      end
    else (NNone, s)
  | [] => (NNone, [])
  end.

Definition scan_length (s : list N) : list N * list N :=
  match first_strip length_mods s with Some (l, r) => (l, r) | None => ([], s) end.

(* (?: (length)? (conversion) | < PRI [diouxX] len > ) *)
Definition scan_body (s : list N) : option (cbody * list N) :=
  match s with
  | c :: r =>
    if c =? 60 then
      match strip [80; 82; 73] r with
      | Some (cv :: r2) =>
        if mem cv c99_convs then
          match first_strip c99_lens r2 with
          | Some (l, c3 :: r3) => if c3 =? 62 then Some (BMacro cv l, r3) else None
          | _ => None
          end
        else None
      | _ => None
      end
    else
      let '(l, r1) := scan_length s in
      match r1 with
      | cv :: r2 => if is_conv cv then Some (BStd l cv, r2) else None
      | [] => None
      end
  | [] => None
  end.

(* the text after '%' *)
Definition scan_directive (r : list N) : option (directive * list N) :=
  let '(idx, r1) := scan_dollar r in
  let '(fl, r2) := span is_flag r1 in
  let '(w, r3) := scan_width r2 in
  let '(p, r4) := scan_prec r3 in
  match scan_body r4 with
  | Some (b, r5) => Some (mkdir idx fl w p b, r5)
  | None => None
  end.

Definition not_pct (c : N) : bool := negb (c =? 37).

(* _directive_re.finditer(s), as far as FormatString.__init__ looks at it: the matches from left
   to right; the first position where nothing matches (necessarily at a '%') ends the stream
   with CTBad, carrying s[last_pos:].  finditer is lazy, so everything to the left of that position
   is processed (and may raise) first. *)
Inductive ctoken :=
| CTLit (t : list N)
| CTDir (d : directive) (text : list N)     (* groups, and the matched text *)
| CTBad (rest : list N)
| CTFuel.

Fixpoint fmtc_tokens (fuel : nat) (s : list N) : list ctoken :=
  match s with
  | [] => []
  | c :: r =>
    match fuel with
    | O => [CTFuel]
    | S f =>
      if c =? 37 then
        match scan_directive r with
        | Some (d, rest) => CTDir d (c :: firstn (Nat.sub (List.length r) (List.length rest)) r) :: fmtc_tokens f rest
        | None => [CTBad s]
        end
      else
        let '(l, rest) := span not_pct r in CTLit (c :: l) :: fmtc_tokens f rest
    end
  end.

(* ------------------------------------------------------------------ *)
(* Errors, warnings, arguments                                          *)

Inductive cerr :=
| EError (prefix : list N)                                   (* Error(_printable_prefix(...)) *)
| ELengthError (s len : list N)
| EFlagError (s : list N) (flag : N)
| EWidthError (s : list N)
| EWidthRangeError (s : list N) (w : Z)
| EPrecisionError (s : list N)
| EPrecisionRangeError (s : list N)
| EArgumentRangeError (s : list N) (n : Z)                   (* (s, int) *)
| EArgumentRangeErrorStr (s : list N) (n : Z)                (* (s, f'{n}$') from OverflowError *)
| EArgumentNumberingMixture (s : list N)
| EForbiddenArgumentIndex (s : list N)
| EMissingArgument (s : list N) (i : Z)
| EArgumentTypeMismatch (s : list N) (i : Z) (types : list (list N)).   (* distinct types, first-occurrence order *)

Inductive cwarn :=
| WNonPortable (s a b : list N)                              (* NonPortableConversion(s, a, b) *)
| WRedundantFlag (s : list N) (flags : list N).              (* RedundantFlag(s, f, f) / (s, f1, f2) / (s, '0') *)

Inductive akind := KWidth | KPrec | KConv.                   (* VariableWidth / VariablePrecision / Conversion *)
(* a_cid identifies the Conversion object (the parent for * arguments): its position in _items *)
Record arg := mkarg { a_kind : akind; a_cid : nat; a_type : list N; a_integer : bool }.
Record conv := mkconv { c_id : nat; c_text : list N; c_type : list N; c_integer : bool }.

(* parent state: _argument_map as (n, value) pairs in insertion order, _next_arg_index, warnings *)
Record pstate := mkst { st_entries : list (Z * arg); st_next : option Z; st_warn : list cwarn }.
Definition st_init : pstate := mkst [] (Some 1%Z) [].
Definition add_warns (st : pstate) (w : list cwarn) : pstate :=
  mkst (st_entries st) (st_next st) (st_warn st ++ w).

Definition max_digits_ok (maxd d : N) : bool := (maxd =? 0) || (d <=? maxd).
(* int(digits) *)
Definition py_int (maxd : N) (ds : list N) : outcome Z cerr :=
  if max_digits_ok maxd (N.of_nat (List.length ds)) then Ok (dec_value ds) else Crash CValueError.

Local Open Scope Z_scope.

(* FormatString.add_argument; IndexError -> ArgumentNumberingMixture(s), OverflowError ->
   ArgumentRangeError(s, f'{n}$') at the three call sites *)
Definition add_argument (s : list N) (st : pstate) (n : option Z) (v : arg) : outcome pstate cerr :=
  match n with
  | None =>
    match st_next st with
    | None => Err (EArgumentNumberingMixture s)
    | Some k =>
      if k >? c_NL_ARGMAX then Err (EArgumentRangeErrorStr s k)
      else Ok (mkst (st_entries st ++ [(k, v)]) (Some (k + 1)) (st_warn st))
    end
  | Some k =>
    let put nx := if k >? c_NL_ARGMAX then Err (EArgumentRangeErrorStr s k)
                  else Ok (mkst (st_entries st ++ [(k, v)]) nx (st_warn st)) in
    match st_next st with
    | None => put None
    | Some j =>
      if j =? 1 then
        match st_entries st with [] => put None | _ => Crash CAssertion end
      else Err (EArgumentNumberingMixture s)
    end
  end.

(* ------------------------------------------------------------------ *)
(* Conversion.__init__, in source order                                 *)

Definition S_ (x : string) : list N := chars x.
Definition t_int := Eval vm_compute in S_ "int".
Definition t_uint := Eval vm_compute in S_ "uint".
Definition t_suffix := Eval vm_compute in S_ "_t".
Definition t_double := Eval vm_compute in S_ "double".
Definition t_ldouble := Eval vm_compute in S_ "long double".
Definition t_char := Eval vm_compute in S_ "char".
Definition t_wint := Eval vm_compute in S_ "wint_t".
Definition t_str := Eval vm_compute in S_ "const char *".
Definition t_wstr := Eval vm_compute in S_ "const wchar_t *".
Definition t_voidp := Eval vm_compute in S_ "void *".
Definition t_void := Eval vm_compute in S_ "void".
Definition t_ptr := Eval vm_compute in S_ " *".
Definition k_LEAST := Eval vm_compute in S_ "LEAST".
Definition k_FAST := Eval vm_compute in S_ "FAST".

Definition lower (c : N) : N := if ((65 <=? c) && (c <=? 90))%N then (c + 32)%N else c.
Definition starts (p s : list N) : bool := match strip p s with Some _ => true | None => false end.
Definition pct (l : list N) (c : N) : list N := 37%N :: l ++ [c].

(* length and conversion -> (tp or None, integer, conversion, NonPortableConversion arguments) *)
Definition step_type (b : cbody) : outcome (option (list N) * bool * N * list (list N * list N)) cerr :=
  match b with
  | BMacro cv len =>
    do base <- (if mem cv [100; 105]%N then Ok t_int
                else if mem cv [111; 117; 120; 88]%N then Ok t_uint
                else Crash CAssertion);
    let mid := if starts k_LEAST len || starts k_FAST len then 95%N :: map lower len else map lower len in
    Ok (Some (base ++ mid ++ t_suffix), true, cv, [])
  | BStd len cv =>
    if mem cv (c_int_cvt ++ [110%N]) then
      let plength := match assoc len c_portable_int_lengths with Some p => p | None => len end in
      let w := if list_eqb plength len then [] else [(pct len cv, pct plength cv)] in
      match assoc plength c_int_types with
      | None => Crash CAssertion
      | Some (sg, us) =>
        let tp := if mem cv c_uint_cvt then us else sg in
        if (cv =? 110)%N then Ok (Some (tp ++ t_ptr), false, cv, w)
        else Ok (Some tp, true, cv, w)
      end
    else if mem cv c_float_cvt then
      match len with
      | [] => Ok (Some t_double, false, cv, [])
      | _ => if list_eqb len [108%N] then Ok (Some t_double, false, cv, [(pct [108%N] cv, pct [] cv)])
             else if list_eqb len [76%N] then Ok (Some t_ldouble, false, cv, [])
             else Ok (None, false, cv, [])
      end
    else if (cv =? 99)%N then      (* c *)
      match len with
      | [] => Ok (Some t_char, false, cv, [])
      | _ => if list_eqb len [108%N] then Ok (Some t_wint, false, cv, []) else Ok (None, false, cv, [])
      end
    else if (cv =? 67)%N then      (* C *)
      match len with
      | [] => Ok (Some t_wint, false, cv, [([37; 67]%N, [37; 108; 99]%N)])
      | _ => Ok (None, false, cv, [])
      end
    else if (cv =? 115)%N then     (* s *)
      match len with
      | [] => Ok (Some t_str, false, cv, [])
      | _ => if list_eqb len [108%N] then Ok (Some t_wstr, false, cv, []) else Ok (None, false, cv, [])
      end
    else if (cv =? 83)%N then      (* S *)
      match len with
      | [] => Ok (Some t_wstr, false, cv, [([37; 83]%N, [37; 108; 115]%N)])
      | _ => Ok (None, false, cv, [])
      end
    else if (cv =? 112)%N then     (* p *)
      match len with [] => Ok (Some t_voidp, false, cv, []) | _ => Ok (None, false, cv, []) end
    else if mem cv [109; 37]%N then (* m % *)
      match len with [] => Ok (Some t_void, false, cv, []) | _ => Ok (None, false, cv, []) end
    else Crash CAssertion
  end.

Definition body_length (b : cbody) : list N := match b with BStd l _ => l | BMacro _ _ => [] end.

(* collections.Counter(flags).items(): distinct flags in first-occurrence order *)
Fixpoint dedup (l : list N) : list N :=
  match l with
  | [] => []
  | c :: r => c :: filter (fun x => negb (x =? c)%N) (dedup r)
  end.
Definition count (c : N) (l : list N) : nat := List.length (filter (N.eqb c) l).

Definition flag_step (s : list N) (cv : N) (all : list N) (f : N) : outcome (list cwarn) cerr :=
  let w := if Nat.eqb (count f all) 1%nat then [] else [WRedundantFlag s [f; f]] in
  if (cv =? 110)%N then Err (EFlagError s f)
  else if (f =? 35)%N then
    if mem cv (c_oct_cvt ++ c_hex_cvt ++ c_float_cvt) then Ok w else Err (EFlagError s f)
  else if (f =? 48)%N then
    if mem cv (c_int_cvt ++ c_float_cvt) then Ok w else Err (EFlagError s f)
  else if (f =? 39)%N then
    if mem cv c_dec_cvt then Ok w else Err (EFlagError s f)
  else if (cv =? 37)%N then Err (EFlagError s f)
  else if mem f [45; 32; 43; 73]%N then Ok w
  else Crash CAssertion.

Fixpoint flag_loop (s : list N) (cv : N) (all : list N) (fs : list N) : outcome (list cwarn) cerr :=
  match fs with
  | [] => Ok []
  | f :: r => do w <- flag_step s cv all f; do w' <- flag_loop s cv all r; Ok (w ++ w')
  end.

Definition pair_warns (s : list N) (fl : list N) : list cwarn :=
  (if mem 45%N fl && mem 48%N fl then [WRedundantFlag s [45; 48]%N] else []) ++
  (if mem 43%N fl && mem 32%N fl then [WRedundantFlag s [43; 32]%N] else []).

(* "* [k$]" for width or precision: the optional index, its range, add_argument *)
Definition star_arg (maxd : N) (s : list N) (st : pstate) (idx : option (list N)) (v : arg) : outcome pstate cerr :=
  do n <- match idx with
          | None => Ok None
          | Some ds => do k <- py_int maxd ds;
                       if (0 <? k) && (k <=? c_NL_ARGMAX) then Ok (Some k) else Err (EArgumentRangeError s k)
          end;
  add_argument s st n v.

Definition do_width (maxd : N) (s : list N) (cid : nat) (integer : bool) (cv : N) (st : pstate) (w : numspec)
  : outcome pstate cerr :=
  do st1 <- match w with
            | NNone => Ok st
            | NNum ds => do k <- py_int maxd ds; if k >? c_INT_MAX then Err (EWidthRangeError s k) else Ok st
            | NStar idx => star_arg maxd s st idx (mkarg KWidth cid c_varwidth_type integer)
            end;
  match w with
  | NNone => Ok st1
  | _ => if mem cv [37; 110]%N then Err (EWidthError s) else Ok st1
  end.

Definition do_prec (maxd : N) (s : list N) (cid : nat) (integer : bool) (cv : N) (fl : list N) (st : pstate) (p : numspec)
  : outcome pstate cerr :=
  do st1 <- match p with
            | NNone => Ok st
            | NNum ds => do k <- py_int maxd (match ds with [] => [48%N] | _ => ds end);
                         if k >? c_INT_MAX then Err (EPrecisionRangeError s) else Ok st
            | NStar idx => star_arg maxd s st idx (mkarg KPrec cid c_varprec_type integer)
            end;
  match p with
  | NNone => Ok st1
  | _ =>
    if mem cv (c_int_cvt ++ c_float_cvt ++ c_str_cvt) then
      if mem cv c_int_cvt && mem 48%N fl then Ok (add_warns st1 [WRedundantFlag s [48%N]]) else Ok st1
    else Err (EPrecisionError s)
  end.

Definition do_index (maxd : N) (s : list N) (cid : nat) (tp : list N) (integer : bool) (cv : N) (st : pstate)
  (idx : option (list N)) : outcome pstate cerr :=
  do n <- match idx with
          | None => Ok None
          | Some ds => do k <- py_int maxd ds;
                       if (0 <? k) && (k <=? c_NL_ARGMAX) then Ok (Some k) else Err (EArgumentRangeError s k)
          end;
  if list_eqb tp t_void then
    match n with
    | Some _ => if (cv =? 37)%N then Err (EForbiddenArgumentIndex s) else Ok st
    | None => Ok st
    end
  else add_argument s st n (mkarg KConv cid tp integer).

Definition conversion_init (maxd : N) (cid : nat) (st : pstate) (d : directive) (s : list N)
  : outcome (pstate * conv) cerr :=
  do t <- step_type (d_body d);
  let '(otp, integer, cv, np) := t in
  let st0 := add_warns st (map (fun ab => WNonPortable s (fst ab) (snd ab)) np) in
  match otp with
  | None =>
    match body_length (d_body d) with
    | [] => Crash CAssertion
    | l => Err (ELengthError s l)
    end
  | Some tp =>
    do fw <- flag_loop s cv (d_flags d) (dedup (d_flags d));
    let st1 := add_warns st0 (fw ++ pair_warns s (d_flags d)) in
    do st2 <- do_width maxd s cid integer cv st1 (d_width d);
    do st3 <- do_prec maxd s cid integer cv (d_flags d) st2 (d_prec d);
    do st4 <- do_index maxd s cid tp integer cv st3 (d_index d);
    Ok (st4, mkconv cid s tp integer)
  end.

(* ------------------------------------------------------------------ *)
(* FormatString.__init__                                                *)

Inductive item := ILit (t : list N) | IConv (c : conv).
Record fmtstring := mkfs { fs_items : list item; fs_arguments : list (list arg); fs_warnings : list cwarn }.

Definition is_printable (c : N) : bool := ((32 <=? c) && (c <=? 126))%N.
(* Error(_printable_prefix(rest)) : r.match(rest).group() with r = [ -~]+ *)
Definition raise_error {A} (rest : list N) : outcome A cerr :=
  match fst (span is_printable rest) with
  | [] => Crash CAttributeError
  | p => Err (EError p)
  end.

Fixpoint run (maxd : N) (toks : list ctoken) (cid : nat) (st : pstate) : outcome (list item * pstate) cerr :=
  match toks with
  | [] => Ok ([], st)
  | CTLit t :: r =>
    do x <- run maxd r (S cid) st; let '(its, st') := x in Ok (ILit t :: its, st')
  | CTDir d text :: r =>
    do y <- conversion_init maxd cid st d text; let '(st1, c) := y in
    do x <- run maxd r (S cid) st1; let '(its, st') := x in Ok (IConv c :: its, st')
  | CTBad rest :: _ => raise_error rest
  | CTFuel :: _ => Crash COutOfFuel
  end.

(* for i in range(1, NL_ARGMAX + 1): if not map: break; pop(i) or MissingArgument; then assert not map.
   Every round removes at least one entry, so fuel = number of entries. *)
Fixpoint collect (s : list N) (fuel : nat) (i : Z) (m : list (Z * arg)) : outcome (list (list arg)) cerr :=
  match m with
  | [] => Ok []
  | _ =>
    match fuel with
    | O => Crash COutOfFuel
    | S f =>
      if i >? c_NL_ARGMAX then Crash CAssertion
      else
        let '(mine, others) := partition (fun e => fst e =? i) m in
        match mine with
        | [] => Err (EMissingArgument s i)
        | _ => do rest <- collect s f (i + 1) others; Ok (map snd mine :: rest)
        end
    end
  end.

Fixpoint dedup_types (l : list (list N)) : list (list N) :=
  match l with
  | [] => []
  | t :: r => t :: filter (fun x => negb (list_eqb x t)) (dedup_types r)
  end.

Fixpoint check_types (s : list N) (i : Z) (args : list (list arg)) : outcome unit cerr :=
  match args with
  | [] => Ok tt
  | a :: r =>
    let types := dedup_types (map a_type a) in
    if Nat.ltb 1%nat (List.length types) then Err (EArgumentTypeMismatch s i types)
    else check_types s (i + 1) r
  end.

Definition fmtc_parse (maxd : N) (s : list N) : outcome fmtstring cerr :=
  do x <- run maxd (fmtc_tokens (List.length s) s) O st_init;
  let '(items, st) := x in
  do args <- collect s (List.length (st_entries st)) 1 (st_entries st);
  do _ <- check_types s 1 args;
  Ok (mkfs items args (st_warn st)).

(* ------------------------------------------------------------------ *)
(* get_last_integer_conversion(n=...) : Err tt = the IndexError the method raises on purpose *)

Fixpoint glic_loop (args : list arg) (cv vcv : option (nat * bool)) : option (option (nat * bool)) :=
  (* None = "return None" in the middle of the loop *)
  match args with
  | [] => Some cv
  | a :: r =>
    let me := (a_cid a, a_integer a) in
    match a_kind a with
    | KConv =>
      let vcv1 := match vcv with None => Some me | _ => vcv end in
      let same x := match x with Some (i, _) => Nat.eqb i (a_cid a) | None => false end in
      let cv1 := match cv with None => if same vcv1 then Some me else None | _ => cv end in
      if same cv1 then glic_loop r cv1 vcv1 else None
    | _ =>
      let vcv1 := match vcv with None => Some me | _ => vcv end in
      match vcv1 with
      | Some (i, _) => if Nat.eqb i (a_cid a) then glic_loop r cv vcv1 else None
      | None => None
      end
    end
  end.

Definition fmtc_glic (fs : fmtstring) (n : Z) : outcome (option nat) unit :=
  let len := Z.of_nat (List.length (fs_arguments fs)) in
  if n >? len then Err tt
  else if n <=? 0 then Err tt
  else
    match glic_loop (List.concat (skipn (Z.to_nat (len - n)) (fs_arguments fs))) None None with
    | Some (Some (i, true)) => Ok (Some i)
    | _ => Ok None
    end.

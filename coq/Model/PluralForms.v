(* Executable model of gettext.parse_plural_forms and of Checker.check_plurals
   (lib/check/__init__.py, from the parse of the header value on), with M = 2^32 and the
   200-value window as in the code. *)
From Coq Require Import List ZArith Bool.
From I18n Require Import Lib.Outcome Model.IntExpr.
Import ListNotations.
Local Open Scope Z_scope.

(* ------------------------------------------------------------------ *)
(* the _parse_plural_forms regular expression of lib/gettext.py, used with .search (leftmost match) *)

Fixpoint strip_prefix (p s : list N) : option (list N) :=
  match p with
  | [] => Some s
  | c :: p' => match s with
               | d :: s' => if N.eqb c d then strip_prefix p' s' else None
               | [] => None
               end
  end.

Definition s_nplurals : list N := [110;112;108;117;114;97;108;115;61]%N.   (* "nplurals=" *)
Definition s_plural : list N := [112;108;117;114;97;108;61]%N.             (* "plural=" *)

Fixpoint span (p : N -> bool) (s : list N) : list N * list N :=
  match s with
  | c :: r => if p c then let '(a, b) := span p r in (c :: a, b) else ([], s)
  | [] => ([], [])
  end.

Definition is_blank (c : N) : bool := (N.eqb c 32 || N.eqb c 9)%bool.
Definition not_semi (c : N) : bool := negb (N.eqb c 59).

Definition drop_semi (s : list N) : list N :=
  match s with c :: s' => if N.eqb c 59 then s' else s | [] => s end.

(* match at the start of s: (digits of nplurals, expression text, rest after the match) *)
Definition pf_match_here (s : list N) : option (list N * list N * list N) :=
  match strip_prefix s_nplurals s with
  | None => None
  | Some s1 =>
    match s1 with
    | d :: _ =>
      if (N.leb 49 d && N.leb d 57)%bool then
        let '(digits, s2) := span is_digit s1 in
        match s2 with
        | c2 :: s3 =>
          if negb (N.eqb c2 59) then None else
          let '(_, s4) := span is_blank s3 in
          match strip_prefix s_plural s4 with
          | None => None
          | Some s5 =>
            let '(body, s6) := span not_semi s5 in
            match body with
            | [] => None
            | _ => Some (digits, body, drop_semi s6)
            end
          end
        | [] => None
        end
      else None
    | [] => None
    end
  end.

(* leftmost match: (ljunk, digits, body, rjunk) *)
Fixpoint pf_search (s : list N) : option (list N * list N * list N * list N) :=
  match pf_match_here s with
  | Some (d, b, r) => Some ([], d, b, r)
  | None =>
    match s with
    | [] => None
    | c :: s' =>
      match pf_search s' with
      | Some (l, d, b, r) => Some (c :: l, d, b, r)
      | None => None
      end
    end
  end.

Definition digits_value (ds : list N) : Z :=
  fold_left (fun acc c => acc * 10 + Z.of_N (c - 48)) ds 0.

Inductive pf_err := PFSyntax.

(* parse_plural_forms(s, strict=False) *)
Definition parse_plural_forms (maxd : N) (s : list N)
  : outcome (Z * expr * list N * list N) pf_err :=
  match pf_search s with
  | None => Err PFSyntax
  | Some (l, ds, body, r) =>
    if negb (max_digits_ok maxd (N.of_nat (length ds))) then Crash CValueError else
    match parse_string maxd body with
    | Ok e => Ok (digits_value ds, e, l, r)
    | Err _ => Err PFSyntax
    | Crash c => Crash c
    end
  end.

Definition parse_plural_forms_strict (maxd : N) (s : list N) : outcome (Z * expr) pf_err :=
  do x <- parse_plural_forms maxd s;
  let '(n, e, l, r) := x in
  match l, r with [], [] => Ok (n, e) | _, _ => Err PFSyntax end.

(* ------------------------------------------------------------------ *)
(* check_plurals, from `(n, expr, ljunk, rjunk) = parse_plural_forms(...)` on *)

Inductive pdiag :=
| DSyntax                           (* syntax-error-in-[unused-]plural-forms *)
| DLeadingJunk (j : list N)
| DTrailingJunk (j : list N)
| DIncorrectN (n expected : Z)
| DUnusual
| DCodomainAt (i fi n : Z)          (* f(i) = fi >= n *)
| DArith (i : Z) (k : arith_err)    (* f(i): integer overflow / division by zero *)
| DNever (lo hi : Z).               (* f(x) != lo, ..., hi-1 *)

Definition M32 : Z := 4294967296.
Definition window : Z := 200.

Definition preimg := list (Z * list Z).     (* sorted by key, values in increasing order of n *)

Fixpoint pre_add (p : preimg) (k i : Z) : preimg :=
  match p with
  | [] => [(k, [i])]
  | (k', l) :: r =>
    if k =? k' then (k', l ++ [i]) :: r
    else if k <? k' then (k, [i]) :: p
    else (k', l) :: pre_add r k i
  end.

Definition pre_has (p : preimg) (k : Z) : bool := existsb (fun x => fst x =? k) p.

(* the for-loop over range(200); [lc] is locally_correct_expr when n == locally_correct_n *)
Fixpoint window_loop (e : expr) (n : Z) (lc : option expr) (is : list Z)
         (pre : preimg) (unusual : bool) (acc : list pdiag) : list pdiag * option preimg :=
  match is with
  | [] => (acc, Some pre)
  | i :: rest =>
    match pyeval M32 e i with
    | Err k => (acc ++ [DArith i k], None)
    | Crash _ => (acc, None)          (* unreachable: C04_eval_no_crash *)
    | Ok fi =>
      if fi >=? n then (acc ++ [DCodomainAt i fi n], None) else
      let pre' := pre_add pre fi i in
      match lc with
      | None => window_loop e n lc rest pre' unusual acc
      | Some le =>
        match pyeval M32 le i with
        | Err k => (acc ++ [DArith i k], None)
        | Crash _ => (acc, None)
        | Ok v =>
          if negb (fi =? v) && negb unusual
          then window_loop e n lc rest pre' true (acc ++ [DUnusual])
          else window_loop e n lc rest pre' unusual acc
        end
      end
    end
  end.

Definition zrange (lo hi : Z) : list Z := map (fun k => lo + Z.of_nat k) (seq 0 (Z.to_nat (hi - lo))).

(* the gap scan over sorted(plural_preimage) *)
Fixpoint gap_scan (n : Z) (all : preimg) (keys : list Z) : list (Z * Z) :=
  match keys with
  | [] => []
  | i :: rest =>
    if (i >? 0) && negb (pre_has all (i - 1)) then [(i - 1, i)]
    else if (i + 1 <? n) && negb (pre_has all (i + 1)) then [(i + 1, i + 2)]
    else gap_scan n all rest
  end.

Record pf_in := {
  pf_value : list N;                 (* the (single) Plural-Forms header value *)
  pf_has_plurals : bool;
  pf_expected : list Z;              (* distinct len(msgstr_plural) of translated plural messages *)
  pf_correct : option (list (list N)) (* registry declarations for the language, if known *)
}.

Fixpoint parse_registry (maxd : N) (l : list (list N)) : outcome (list (Z * expr)) pf_err :=
  match l with
  | [] => Ok []
  | s :: r => do x <- parse_plural_forms_strict maxd s; do xs <- parse_registry maxd r; Ok (x :: xs)
  end.

Definition check_plurals_core (maxd : N) (inp : pf_in) : outcome (list pdiag * option preimg) pf_err :=
  match parse_plural_forms maxd (pf_value inp) with
  | Err _ => Ok ([DSyntax], None)
  | Crash c => Crash c
  | Ok (n, e, ljunk, rjunk) =>
    let d1 := match ljunk with [] => [] | _ => [DLeadingJunk ljunk] end in
    let d2 := match rjunk with [] => [] | _ => [DTrailingJunk rjunk] end in
    let d3 := match pf_expected inp with
              | [k] => if negb (n =? k) then [DIncorrectN n k] else []
              | _ => []
              end in
    do reg <- match pf_correct inp with
              | None => Ok None
              | Some l => do r <- parse_registry maxd l; Ok (Some r)
              end;
    let local := match reg with
                 | None => None
                 | Some r => Some (filter (fun x => fst x =? n) r)
                 end in
    let d4 := match local with Some [] => [DUnusual] | _ => [] end in
    let lc := match local with Some [(_, le)] => Some le | _ => None end in
    let '(dl, pre) := window_loop e n lc (zrange 0 window) [] false [] in
    let uncov1 :=
      match codomain M32 e with
      | CSome x y => (if x >? 0 then [(0, x)] else []) ++ (if y + 1 <? n then [(y + 1, n)] else [])
      | _ => []
      end in
    let uncov :=
      match uncov1, pre with
      | [], Some p =>
        match period M32 e with
        | Some (o, pp) => if o + pp <? window then gap_scan n p (map fst p) else []
        | None => []
        end
      | _, _ => uncov1
      end in
    let d5 := map (fun r => DNever (fst r) (snd r)) uncov in
    let pre' := match uncov with [] => pre | _ => None end in
    match codomain M32 e with
    | CAssert => Crash CAssertion
    | _ => Ok (d1 ++ d2 ++ d3 ++ d4 ++ dl ++ d5, pre')
    end
  end.

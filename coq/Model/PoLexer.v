(* Executable model of how a PO file becomes lines and entries:
     polib.detect_encoding (per-line Content-Type scanner on the raw bytes),
     lib/polib4us.py Codecs.open (whole-file decode, LF-only line splitting, atypical-comment
       normalisation, pending-comment buffering, the '# ' sentinel for an empty file),
     polib.pofile(path) = detect_encoding + _POFileParser.parse (Model/PoParser.v),
     and the retry of lib/check/__init__.py with ISO-8859-1 after a UnicodeDecodeError.
   The codec machinery is an oracle. *)
From Coq Require Import List NArith Bool.
From I18n Require Import Lib.Outcome Model.PoUnescape Model.PoParser.
Import ListNotations.
Local Open Scope N_scope.

(* ---------------------------------------------------------------- detect_encoding *)
(* PATTERN = DQUOTE?Content-Type:.+? charset=([\w_\-:\.]+)   compiled for bytes: \w is ASCII *)
Definition s_content_type : str := [67;111;110;116;101;110;116;45;84;121;112;101;58].   (* Content-Type: *)
Definition s_charset : str := [32;99;104;97;114;115;101;116;61].                          (* _charset= *)

Definition charset_char (c : N) : bool :=
  between 48 57 c || between 65 90 c || between 97 122 c || N.eqb c 95 || N.eqb c 45 || N.eqb c 58 || N.eqb c 46.

(* the text after the first occurrence of [pat] *)
Fixpoint after_first (pat s : str) : option str :=
  match s with
  | [] => if startswith pat [] then Some [] else None
  | c :: r => if startswith pat s then Some (skipn (length pat) s) else after_first pat r
  end.

Fixpoint take_while (p : N -> bool) (s : str) : str :=
  match s with
  | [] => []
  | c :: r => if p c then c :: take_while p r else []
  end.

(* the first " charset=" that is followed by a charset character: the lazy .+? moves on otherwise *)
Fixpoint find_charset (s : str) : option str :=
  match s with
  | [] => None
  | c :: r =>
    if startswith s_charset s then
      match take_while charset_char (skipn (length s_charset) s) with
      | [] => find_charset r
      | name => Some name
      end
    else find_charset r
  end.

(* rx.search(line).group(1); '.' does not match LF *)
Definition line_charset (line : str) : option str :=
  match after_first s_content_type line with
  | Some (c :: rest) => if N.eqb c 10 then None else find_charset (take_while (fun c => negb (N.eqb c 10)) rest)
  | _ => None
  end.

(* f.readlines() of a binary file: split after each LF *)
Fixpoint lf_lines_aux (s : str) (cur : str) : list str :=
  match s with
  | [] => match cur with [] => [] | _ => [rev cur] end
  | c :: r => if N.eqb c 10 then rev (c :: cur) :: lf_lines_aux r [] else lf_lines_aux r (c :: cur)
  end.
Definition lf_lines (s : str) : list str := lf_lines_aux s [].

Definition s_ascii : str := [65;83;67;73;73].     (* polib.default_encoding = 'ASCII' *)

(* [lookup name] = codecs.lookup(name) succeeds *)
Fixpoint first_known_charset (lookup : str -> bool) (lines : list str) : str :=
  match lines with
  | [] => s_ascii
  | l :: r =>
    match line_charset l with
    | Some name => if lookup name then name else first_known_charset lookup r
    | None => first_known_charset lookup r
    end
  end.

Definition detect_encoding (lookup : str -> bool) (raw : str) : str :=
  first_known_charset lookup (lf_lines raw).

(* ---------------------------------------------------------------- Codecs.open *)
(* _iterlines = re.compile(r'[^\n]*(?:\n|\Z)').findall : every line with its LF, then one more
   (possibly empty) match at the end of the text *)
Fixpoint iterlines_aux (s : str) (cur : str) : list str :=
  match s with
  | [] => match cur with [] => [[]] | _ => [rev cur; []] end
  | c :: r => if N.eqb c 10 then rev (c :: cur) :: iterlines_aux r [] else iterlines_aux r (c :: cur)
  end.
Definition iterlines (s : str) : list str := iterlines_aux s [].

(* _atypical_comment = re.compile(r'#[^ .:,|~]').match *)
Definition atypical_comment (line : str) : bool :=
  match line with
  | h :: c :: _ => N.eqb h 35 && negb (N.eqb c 32 || N.eqb c 46 || N.eqb c 58 || N.eqb c 44 || N.eqb c 124 || N.eqb c 126)
  | _ => false
  end.

Definition normalise (line : str) : str :=
  if atypical_comment line then 35 :: 32 :: tl line else line.

Definition py_str_isspace (s : str) : bool :=
  match s with [] => false | _ => forallb py_isspace s end.

Definition is_pending (line : str) : bool :=
  list_eqb (firstn 2 line) [] || list_eqb (firstn 2 line) [35; 32] || py_str_isspace line.

(* the generator: returns the yielded lines *)
Fixpoint open_lines (ls : list str) (pending : list str) (empty : bool) : list str :=
  match ls with
  | [] => if empty then [[35; 32]] else []
  | l :: r =>
    let l := normalise l in
    if is_pending l then open_lines r (pending ++ [l]) empty
    else pending ++ l :: open_lines r [] false
  end.

Definition codecs_open_text (text : str) : list str := open_lines (iterlines text) [] true.

(* ---------------------------------------------------------------- polib.pofile + the retry *)
Record codec_oracles := mkCodecs {
  c_lookup : str -> bool;                          (* codecs.lookup(name) succeeds *)
  c_ascii_compatible : str -> bool;                (* lib.encodings.is_ascii_compatible_encoding(name) *)
  c_decode : str -> list N -> option (list N);     (* bytes.decode(name); None = UnicodeDecodeError *)
  c_udigit : N -> option N;
  c_uisdigit : N -> bool
}.

Inductive load_err :=
| LDecode                       (* UnicodeDecodeError out of polib.pofile *)
| LSyntax (e : perr).           (* OSError 'Syntax error in po file ...' *)

Record loaded := mkLoaded { l_encoding : str; l_file : pofile }.

(* polib.pofile(path, encoding=enc) *)
Definition pofile_with (C : codec_oracles) (enc : str) (raw : list N) : outcome loaded load_err :=
  let eff := if c_ascii_compatible C enc then enc else s_ascii in
  match c_decode C eff raw with
  | None => Err LDecode
  | Some text =>
    let O := mkOracles (c_decode C enc) (c_udigit C) (c_uisdigit C) in
    match parse_lines O (codecs_open_text text) with
    | Ok f => Ok (mkLoaded enc f)
    | Err e => Err (LSyntax e)
    | Crash c => Crash c
    end
  end.

Definition pofile (C : codec_oracles) (raw : list N) : outcome loaded load_err :=
  pofile_with C (detect_encoding (c_lookup C) raw) raw.

Definition s_latin1 : str := [73;83;79;45;56;56;53;57;45;49].    (* ISO-8859-1 *)

(* Checker.check: try pofile(path); on UnicodeDecodeError pofile(path, encoding='ISO-8859-1').
   The boolean is broken_encoding. *)
Definition load_po (C : codec_oracles) (raw : list N) : outcome (loaded * bool) load_err :=
  match pofile C raw with
  | Err LDecode => do l <- pofile_with C s_latin1 raw; Ok (l, true)
  | Ok l => Ok (l, false)
  | Err e => Err e
  | Crash c => Crash c
  end.

(* Target vocabulary of the source translator tools/gen/gen_moparser_src.py (notes/SRC4.md): the hand-written Gallina
   meaning of the Python operations that Generated/MoParserSrc.v applies.  Definitions only.  The byte-string primitives
   (len, slice, index, bytes_eqb, bytes_ltb, splitn, split_all) are the ones of Model/MoParser.v; nothing else of the
   model is mentioned by the generated file.  Proofs/MoParserSrc.v proves the generated functions equal to the model. *)
From Coq Require Import List NArith Bool.
From I18n Require Import Lib.Outcome Model.MoParser.
Import ListNotations.
Local Open Scope N_scope.

(* the argument of an exception: a string constant or an f-string, as its parts *)
Inductive fpart := FText (s : bytes) | FNum (n : N).

(* exceptions a translated method can raise *)
Inductive mexn :=
| XSyntax (m : list fpart)     (* moparser.SyntaxError(message) *)
| XIndex                       (* IndexError: view[i], list[i] out of range *)
| XType                        (* TypeError: bytes < None *)
| XValue                       (* ValueError: unpacking a list of the wrong length *)
| XStruct                      (* struct.error *)
| XDecode (s : bytes).         (* UnicodeDecodeError, .object = s *)

(* the classes named in `except` clauses *)
Inductive exn_class := KIndexError | KUnicodeError.
Definition exn_isa (x : mexn) (k : exn_class) : bool :=
  match x, k with
  | XIndex, KIndexError => true
  | XDecode _, KUnicodeError => true
  | _, _ => false
  end.

(* the result of running statements: MRet v = completed normally with value(s) v (for a method: the returned value, paired
   with the attributes of self it assigned; `return None` / end of body is the value tt), MAssert = an assert failed,
   MRaise x = exception x *)
Inductive mres (A : Type) :=
| MRet (a : A) | MAssert | MRaise (x : mexn).
Arguments MRet {A} a.
Arguments MAssert {A}.
Arguments MRaise {A} x.

Definition mbind {A B} (r : mres A) (k : A -> mres B) : mres B :=
  match r with MRet a => k a | MAssert => MAssert | MRaise x => MRaise x end.

(* try: body  except K: handler *)
Definition mcatch {A} (body : mres A) (k : exn_class) (handler : mres A) : mres A :=
  match body with
  | MRaise x => if exn_isa x k then handler else MRaise x
  | r => r
  end.

(* [f(x) for x in l], left to right, stopping at the first exception *)
Fixpoint mmap {A B} (f : A -> mres B) (l : list A) : mres (list B) :=
  match l with
  | [] => MRet []
  | x :: r => mbind (f x) (fun y => mbind (mmap f r) (fun ys => MRet (y :: ys)))
  end.

(* ------------------------------------------------------------------ *)
(* struct.unpack(e + 'I' * n, s), e = '<' or '>' (any other prefix is not given a meaning here: XStruct) *)

Definition endian_be (e : bytes) : option bool :=
  match e with
  | [c] => if N.eqb c 60 then Some false else if N.eqb c 62 then Some true else None
  | _ => None
  end.

Fixpoint unpack_words (be : bool) (n : nat) (s : bytes) : option (list N) :=
  match n with
  | O => match s with [] => Some [] | _ :: _ => None end
  | S k => match s with
           | b0 :: b1 :: b2 :: b3 :: r =>
             match unpack_words be k r with
             | Some l => Some (u32_of be b0 b1 b2 b3 :: l)
             | None => None
             end
           | _ => None
           end
  end.

Definition py_unpack_I (e : bytes) (n : N) (s : bytes) : mres (list N) :=
  match endian_be e with
  | None => MRaise XStruct
  | Some be => match unpack_words be (N.to_nat n) s with
               | Some l => MRet l
               | None => MRaise XStruct
               end
  end.

(* ------------------------------------------------------------------ *)
(* lists, None *)

Definition llen {A} (l : list A) : N := N.of_nat (length l).

Fixpoint blist_eqb (a b : list bytes) : bool :=
  match a, b with
  | [], [] => true
  | x :: a', y :: b' => bytes_eqb x y && blist_eqb a' b'
  | _, _ => false
  end.

(*  *a, b = l  : None = ValueError (empty list) *)
Fixpoint unsnoc {A} (l : list A) : option (list A * A) :=
  match l with
  | [] => None
  | x :: r => match unsnoc r with
              | None => Some ([], x)
              | Some (a, b) => Some (x :: a, b)
              end
  end.

Definition is_none {A} (o : option A) : bool := match o with None => true | Some _ => false end.
Definition is_nil {A} (l : list A) : bool := match l with [] => true | _ :: _ => false end.

(* ------------------------------------------------------------------ *)
(* decoding.  A decoded string is represented by the bytes it was decoded from (as in Model/MoParser.v: byte-level
   entries); whether decoding succeeds is the oracle [dec charset bytes].  The ASCII codec named by a literal is
   given its meaning: every byte < 128, and then the text has exactly these code points. *)

Definition py_decode (dec : bytes -> bytes -> bool) (cs s : bytes) : mres bytes :=
  if dec cs s then MRet s else MRaise (XDecode s).

Definition py_decode_ascii (s : bytes) : mres bytes :=
  if forallb is_ascii s then MRet s else MRaise (XDecode s).

(* ------------------------------------------------------------------ *)
(* keyword arguments of polib.MOEntry and the attributes set afterwards *)

Record kwargs := {
  k_msgid : option bytes;
  k_msgctxt : option bytes;
  k_msgstr : option bytes;
  k_msgid_plural : option bytes;
  k_msgstr_plural : option (list bytes)      (* {0: s0, 1: s1, ...} as [s0; s1; ...] *)
}.

Definition kw_empty : kwargs :=
  {| k_msgid := None; k_msgctxt := None; k_msgstr := None; k_msgid_plural := None; k_msgstr_plural := None |}.
Definition kw_set_msgid (v : bytes) (k : kwargs) : kwargs :=
  {| k_msgid := Some v; k_msgctxt := k_msgctxt k; k_msgstr := k_msgstr k; k_msgid_plural := k_msgid_plural k; k_msgstr_plural := k_msgstr_plural k |}.
Definition kw_set_msgctxt (v : bytes) (k : kwargs) : kwargs :=
  {| k_msgid := k_msgid k; k_msgctxt := Some v; k_msgstr := k_msgstr k; k_msgid_plural := k_msgid_plural k; k_msgstr_plural := k_msgstr_plural k |}.
Definition kw_set_msgstr (v : bytes) (k : kwargs) : kwargs :=
  {| k_msgid := k_msgid k; k_msgctxt := k_msgctxt k; k_msgstr := Some v; k_msgid_plural := k_msgid_plural k; k_msgstr_plural := k_msgstr_plural k |}.
Definition kw_set_msgid_plural (v : bytes) (k : kwargs) : kwargs :=
  {| k_msgid := k_msgid k; k_msgctxt := k_msgctxt k; k_msgstr := k_msgstr k; k_msgid_plural := Some v; k_msgstr_plural := k_msgstr_plural k |}.
Definition kw_set_msgstr_plural (v : list bytes) (k : kwargs) : kwargs :=
  {| k_msgid := k_msgid k; k_msgctxt := k_msgctxt k; k_msgstr := k_msgstr k; k_msgid_plural := k_msgid_plural k; k_msgstr_plural := Some v |}.

(* the constants assigned to attributes of the entry:  None, (), lambda: True / False *)
Inductive pyconst := PNone | PEmptyTuple | PConstFn (b : bool).

(* polib.MOEntry called with the keyword arguments, followed by attribute assignments: the attributes set so far are kept
   as an association list sorted by name (bytes order), a later assignment to the same name replaces the earlier one *)
Fixpoint attr_insert (name : bytes) (v : pyconst) (l : list (bytes * pyconst)) : list (bytes * pyconst) :=
  match l with
  | [] => [(name, v)]
  | (n, w) :: r =>
    if bytes_ltb name n then (name, v) :: l
    else if bytes_eqb name n then (name, v) :: r
    else (n, w) :: attr_insert name v r
  end.

Record pentry := { p_kw : kwargs; p_attrs : list (bytes * pyconst) }.
Definition MOEntry (k : kwargs) : pentry := {| p_kw := k; p_attrs := [] |}.
Definition entry_setattr (name : bytes) (v : pyconst) (e : pentry) : pentry :=
  {| p_kw := p_kw e; p_attrs := attr_insert name v (p_attrs e) |}.

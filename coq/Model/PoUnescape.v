(* Executable model of lib/polib4us.py polib_unescape (the replacement of polib.unescape).

     _escapes_re = ( \\ (?: [ntbrfva] | \\ | DQUOTE | [0-9]{1,3} | x[0-9a-fA-F]+ ) )+
     _long_x_escape_re = \\x [0-9a-fA-F]* ([0-9a-fA-F]{2})
     _short_x_escape_re = \\x ([0-9a-fA-F]) (?= \\ | $ )
     def polib_unescape(s):  return _escapes_re.sub(unescape, s)
     def unescape(match):
         s = _long_x_escape_re.sub(r'\\x\1', match.group())
         s = _short_x_escape_re.sub(r'\\x0\1', s)
         result = ast.literal_eval(the bytes literal b'...' with s between the quotes)
         try: return result.decode('ASCII')
         except UnicodeDecodeError: return result.decode(<encoding of the PO file>)

   Text is a list of code points, bytes a list of numbers < 256.  The codec of the PO file is the
   ORACLE argument [dec].  Besides the value the model returns a [warned] flag: CPython (3.12) emits
   a SyntaxWarning on stderr while compiling a bytes literal with an invalid escape (\8, \9) or an
   octal escape above \377 (defect D14).

   Every scanner walks its input one character at a time (structural recursion); a [skip] counter
   drops the characters already consumed by a look-ahead.

   (This is the code after the repair of D29: like gettext and C, a hexadecimal escape takes every hex
   digit that follows and the value is reduced to its low 8 bits.) *)
From Coq Require Import List NArith Bool.
From I18n Require Import Lib.Outcome.
Import ListNotations.
Local Open Scope N_scope.

Definition between (lo hi c : N) : bool := (lo <=? c) && (c <=? hi).
Definition is_dec (c : N) : bool := between 48 57 c.                (* [0-9] *)
Definition is_oct (c : N) : bool := between 48 55 c.                (* [0-7] *)
Definition is_hex (c : N) : bool := between 48 57 c || between 97 102 c || between 65 70 c.
Definition hexval (c : N) : N :=
  if between 48 57 c then c - 48 else if between 97 102 c then c - 87 else c - 55.
Definition BSL : N := 92.    (* backslash *)
Definition LX : N := 120.    (* x *)

(* [ntbrfva] | \\ | DQUOTE   : the byte each one denotes in a Python bytes literal *)
Definition simple_escape (c : N) : option N :=
  if N.eqb c 110 then Some 10 else if N.eqb c 116 then Some 9 else if N.eqb c 98 then Some 8
  else if N.eqb c 114 then Some 13 else if N.eqb c 102 then Some 12 else if N.eqb c 118 then Some 11
  else if N.eqb c 97 then Some 7 else if N.eqb c 92 then Some 92 else if N.eqb c 34 then Some 34
  else None.

Definition nth_is (p : N -> bool) (s : list N) (i : nat) : bool :=
  match nth_error s i with Some c => p c | None => false end.

(* [0-9a-fA-F]* at the head of [s], greedy: the number of hex digits *)
Fixpoint hex_span (s : list N) : nat :=
  match s with
  | c :: r => if is_hex c then S (hex_span r) else O
  | [] => O
  end.

(* one alternative of _escapes_re at the head of [s]; the length of the match (backslash included).
   Alternation order and greedy repetition; nothing follows the group inside the [+], so
   the first (greedy) success is the match: no backtracking changes it. *)
Definition escape_len (s : list N) : option nat :=
  if nth_is (N.eqb BSL) s 0 then
    match nth_error s 1 with
    | Some e =>
      match simple_escape e with
      | Some _ => Some 2%nat
      | None =>
        if is_dec e then
          if nth_is is_dec s 2 then (if nth_is is_dec s 3 then Some 4%nat else Some 3%nat) else Some 2%nat
        else if N.eqb e LX then
          match hex_span (skipn 2 s) with O => None | S n => Some (S (S (S n))) end
        else None
      end
    | None => None
    end
  else None.

(* _long_x_escape_re.sub(r'\\x\1', run): backslash x and n >= 2 hex digits (the star takes them all and
   gives two back to the group) become backslash x and the last two digits *)
Definition long_x_at (s : list N) : option nat :=     (* the number of hex digits *)
  if nth_is (N.eqb BSL) s 0 && nth_is (N.eqb LX) s 1 then
    match hex_span (skipn 2 s) with S (S n) => Some (S (S n)) | _ => None end
  else None.

Fixpoint fixup_long (s : list N) (skip : nat) : list N :=
  match s with
  | [] => []
  | c :: r =>
    match skip with
    | S k => fixup_long r k
    | O => match long_x_at s with
           | Some n => BSL :: LX :: firstn 2 (skipn n s) ++ fixup_long r (S n)
           | None => c :: fixup_long r 0
           end
    end
  end.

(* _short_x_escape_re.sub(r'\\x0\1', run) *)
Definition short_x_at (s : list N) : bool :=
  nth_is (N.eqb BSL) s 0 && nth_is (N.eqb LX) s 1 && nth_is is_hex s 2 &&
  match nth_error s 3 with None => true | Some c => N.eqb c BSL end.

Fixpoint fixup (s : list N) (skip : nat) : list N :=
  match s with
  | [] => []
  | c :: r =>
    match skip with
    | S k => fixup r k
    | O => if short_x_at s then BSL :: LX :: 48 :: nth 2 s 0 :: fixup r 2
           else c :: fixup r 0
    end
  end.

(* ast.literal_eval of the bytes literal, for the text between the quotes: CPython's
   _PyBytes_DecodeEscape.  Result: bytes and whether a SyntaxWarning is emitted.
   Crash: shapes on which the compiler raises instead (SyntaxError / ValueError);
   they are proved unreachable from the scanner. *)
Definition oct_len (s : list N) : nat :=      (* s starts at the first octal digit *)
  if nth_is is_oct s 1 then (if nth_is is_oct s 2 then 3%nat else 2%nat) else 1%nat.
Definition oct_value (s : list N) (k : nat) : N :=
  fold_left (fun acc d => acc * 8 + (d - 48)) (firstn k s) 0.

Fixpoint bytes_eval (s : list N) (skip : nat) : outcome (list N * bool) unit :=
  match s with
  | [] => Ok ([], false)
  | c :: r =>
    match skip with
    | S k => bytes_eval r k
    | O =>
      if N.eqb c BSL then
        match r with
        | [] => Crash CValueError                       (* unterminated literal *)
        | e :: _ =>
          if N.eqb e 39 then (do x <- bytes_eval r 1; Ok (39 :: fst x, snd x))
          else if N.eqb e 10 then bytes_eval r 1            (* backslash-newline: continuation *)
          else match simple_escape e with
          | Some b => do x <- bytes_eval r 1; Ok (b :: fst x, snd x)
          | None =>
            if is_oct e then
              let k := oct_len r in
              let v := oct_value r k in
              do x <- bytes_eval r k; Ok (v mod 256 :: fst x, (255 <? v) || snd x)
            else if N.eqb e LX then
              if nth_is is_hex r 1 && nth_is is_hex r 2
              then do x <- bytes_eval r 3; Ok (hexval (nth 1 r 0) * 16 + hexval (nth 2 r 0) :: fst x, snd x)
              else Crash CValueError                    (* invalid \x escape *)
            else (* unknown escape: the backslash stays, a warning is emitted *)
              do x <- bytes_eval r 0; Ok (BSL :: fst x, true)
          end
        end
      else if N.eqb c 39 || N.eqb c 10 || N.eqb c 13 || (128 <=? c) then Crash CValueError
      else do x <- bytes_eval r 0; Ok (c :: fst x, snd x)
    end
  end.

Inductive unesc_err : Set := EDecode.    (* UnicodeDecodeError from result.decode(encoding) *)

(* result.decode('ASCII'), else result.decode(encoding) *)
Definition decode_run (dec : list N -> option (list N)) (b : list N) : outcome (list N) unesc_err :=
  if forallb (fun c => c <? 128) b then Ok b
  else match dec b with Some t => Ok t | None => Err EDecode end.

Definition lift_crash {A} (x : outcome A unit) : outcome A unesc_err :=
  match x with Ok a => Ok a | Err _ => Crash CValueError | Crash c => Crash c end.

(* the callback [unescape(match)] *)
Definition unescape_run (dec : list N -> option (list N)) (run : list N) : outcome (list N * bool) unesc_err :=
  do x <- lift_crash (bytes_eval (fixup (fixup_long run 0) 0) 0);
  do t <- decode_run dec (fst x);
  Ok (t, snd x).

Definition flush_run (dec : list N -> option (list N)) (run : list N) : outcome (list N * bool) unesc_err :=
  match run with [] => Ok ([], false) | _ => unescape_run dec run end.

(* _escapes_re.sub(unescape, s): [run] is the escape run being collected *)
Fixpoint unescape_go (dec : list N -> option (list N)) (s : list N) (skip : nat) (run : list N)
  : outcome (list N * bool) unesc_err :=
  match s with
  | [] => flush_run dec run
  | c :: r =>
    match skip with
    | S k => unescape_go dec r k run
    | O =>
      match escape_len s with
      | Some L => unescape_go dec r (pred L) (run ++ firstn L s)
      | None =>
        do a <- flush_run dec run;
        do b <- unescape_go dec r 0 [];
        Ok (fst a ++ c :: fst b, snd a || snd b)
      end
    end
  end.

Definition unescape (dec : list N -> option (list N)) (s : list N) : outcome (list N * bool) unesc_err :=
  unescape_go dec s 0 [].

(* The format-string models instantiated with the generated tables (Generated/Ucd.v: the running
   interpreter's \w, \d, isdigit, isdecimal; Generated/PyFmtInfo.v: _info and SSIZE_MAX of /repo).
   These are the entry points that are extracted and compared with the implementation. *)
From Coq Require Import List NArith ZArith.
From I18n Require Import Lib.Outcome Lib.Ranges Generated.Ucd Generated.PyFmtInfo Model.FmtPerlBrace.

Definition perl_parse_ucd (s : list N) := perl_parse_steps re_w re_d s.

(* The format-string models instantiated with the generated tables (Generated/Ucd.v: the running
   interpreter's \w, \d, isdigit, isdecimal; Generated/PyFmtInfo.v: _info and SSIZE_MAX of /repo).
   These are the entry points that are extracted and compared with the implementation. *)
From Coq Require Import List NArith ZArith.
From I18n Require Import Lib.Outcome Lib.Ranges Generated.Ucd Generated.PyFmtInfo Generated.PyConsts
  Model.FmtPerlBrace Model.FmtPython Model.FmtPyBrace Model.FmtPyBraceDomain.

Definition perl_parse_ucd (s : list N) := perl_parse_steps re_w re_d s.

Definition gen_info : pyinfo := {|
  i_flags := gen_py_flags; i_lengths := gen_py_lengths; i_oct := gen_py_oct_cvt; i_hex := gen_py_hex_cvt;
  i_int := gen_py_int_cvt; i_float := gen_py_float_cvt; i_other := gen_py_other_cvt; i_all := gen_py_all_cvt;
  i_ssize_max := gen_py_ssize_max |}.
Definition fmtpy_parse_gen (s : list N) := fmtpy_parse gen_info s.

Definition gen_ucd : ucd := {|
  u_w := re_w; u_d := re_d; u_isdecimal := py_isdecimal;
  u_decval := re_d_value; u_maxd := int_max_str_digits |}.
Definition pybrace_parse_gen (s : list N) := pybrace_parse gen_ucd gen_pybrace_ssize_max s.

(* (every field is flat, every field is flat and its format spec is outside D24): the domain of C13_py_flat_formats *)
Definition pybrace_domain_gen (s : list N) : bool * bool :=
  (all_flat gen_ucd (S (length s)) s, flat_guard gen_ucd (S (length s)) s).

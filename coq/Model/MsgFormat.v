(* Executable model of lib/check/msgformat: Checker.check_message (pairing of msgid / msgid_plural /
   msgstr / msgstr[i], the tolerated-omission rule) and the four check_args, over argument
   SIGNATURES (what the format-string parsers of C11-C13 report), not over strings. *)
From Coq Require Import List ZArith NArith Bool.
Import ListNotations.

Definition str := list N.

Fixpoint str_eqb (a b : str) : bool :=
  match a, b with
  | [], [] => true
  | x :: a', y :: b' => N.eqb x y && str_eqb a' b'
  | _, _ => false
  end.

(* keys of brace formats: positional (int) before named (str): sort_key = (isinstance(item, str), item) *)
Inductive key := KInt (z : Z) | KStr (s : str).
Definition key_eqb (a b : key) : bool :=
  match a, b with
  | KInt x, KInt y => Z.eqb x y
  | KStr x, KStr y => str_eqb x y
  | _, _ => false
  end.

Definition mem_key (k : key) (l : list key) : bool := existsb (key_eqb k) l.

(* diagnostics of check_args, in emission order *)
Inductive adiag :=
| AExcess (nd ns : nat)                 (* c-format-string-excess-arguments *)
| AMissingN (nd ns : nat)               (* c-format-string-missing-arguments *)
| ANumber (nd ns : nat)                 (* python-format-string-argument-number-mismatch *)
| ATypeMismatch (dt st : list str)      (* ...-argument-type-mismatch: dst types, src types *)
| AUnknown (k : key)                    (* ...-unknown-argument *)
| AMissing (k : key).                   (* ...-missing-argument *)

(* ---------- c-format ---------- *)
(* src, dst: the type of the first conversion of each argument; lastint n = get_last_integer_conversion(n=n) is truthy *)
Definition c_check_args (src dst : list str) (lastint : nat -> bool) (omit_ok : bool) : list adiag :=
  let ls := length src in let ld := length dst in
  (if Nat.ltb ls ld then [AExcess ld ls]
   else if Nat.ltb ld ls then (if omit_ok && lastint (ls - ld)%nat then [] else [AMissingN ld ls])
   else [])
  ++ flat_map (fun p => if str_eqb (fst p) (snd p) then [] else [ATypeMismatch [snd p] [fst p]]) (combine src dst).

(* ---------- named-argument maps (python-format, python-brace-format, perl-brace-format) ---------- *)
(* a map is a list of (key, types of the first argument with that key, every argument with that key is an int conversion),
   sorted by key, keys distinct (the harness builds it so; the theorems state what they need) *)
Definition amap := list (key * list str * bool).
Definition keys (m : amap) : list key := map (fun x => fst (fst x)) m.
Fixpoint lookup (k : key) (m : amap) : option (list str * bool) :=
  match m with
  | [] => None
  | (k', t, b) :: r => if key_eqb k k' then Some (t, b) else lookup k r
  end.

Definition types_intersect (a b : list str) : bool := existsb (fun x => existsb (str_eqb x) b) a.

(* mismatch test: python-format compares the single type names; python-brace-format tests set intersection *)
Definition map_check_args (brace : bool) (src dst : amap) (omit_ok : bool) : list adiag :=
  let common := filter (fun x => mem_key (fst (fst x)) (keys src)) dst in
  let d_mism := flat_map (fun x =>
      match lookup (fst (fst x)) src with
      | Some (st, _) =>
        let dt := snd (fst x) in
        if (if brace then types_intersect st dt
            else match st, dt with [a], [b] => str_eqb a b | _, _ => false end)
        then [] else [ATypeMismatch dt st]
      | None => []
      end) common in
  let d_unknown := map (fun x => AUnknown (fst (fst x))) (filter (fun x => negb (mem_key (fst (fst x)) (keys src))) dst) in
  let missing := filter (fun x => negb (mem_key (fst (fst x)) (keys dst))) src in
  let missing' := match missing with
                  | [(k, _, allint)] => if omit_ok && allint then [] else missing
                  | _ => missing
                  end in
  d_mism ++ d_unknown ++ map (fun x => AMissing (fst (fst x))) missing'.

(* python-format: unnamed part first *)
Definition py_check_args (src_seq dst_seq : list str) (src_map dst_map : amap) (omit_ok : bool) : list adiag :=
  (if Nat.eqb (length dst_seq) (length src_seq) then [] else [ANumber (length dst_seq) (length src_seq)])
  ++ flat_map (fun p => if str_eqb (fst p) (snd p) then [] else [ATypeMismatch [snd p] [fst p]]) (combine src_seq dst_seq)
  ++ map_check_args false src_map dst_map omit_ok.

(* perl-brace-format: name sets; a single missing name is tolerated whenever omission is ok *)
Definition perl_check_args (src dst : list key) (omit_ok : bool) : list adiag :=
  map AUnknown (filter (fun k => negb (mem_key k src)) dst)
  ++ (let missing := filter (fun k => negb (mem_key k dst)) src in
      match missing with
      | [_] => if omit_ok then [] else map AMissing missing
      | _ => map AMissing missing
      end).

(* ---------- check_message: which (source, destination) pairs are compared, and with what tolerance ---------- *)
Inductive loc := LMsgid | LMsgidPlural | LMsgstr | LMsgstrN (i : Z).

(* the filtered preimage decides whether dropping one integer argument is tolerated, and against which source *)
Definition in_range (lo hi x : Z) : bool := (Z.leb lo x && Z.leb x hi)%bool.

Inductive omit_rule := OmitVsMsgid | OmitOk | OmitNo.
Definition omission_rule (preimage : list Z) : omit_rule :=
  match preimage with
  | [] => OmitOk
  | [x] => if Z.eqb x 1 then OmitVsMsgid else OmitOk
  | [x; _] => if Z.eqb x 0 then OmitOk else OmitNo
  | _ => OmitNo
  end.

(* one check_args invocation *)
Record invocation := { iv_src : loc; iv_dst : loc; iv_omit_ok : bool }.

Record msg_in := {
  mi_template : bool;
  mi_fuzzy : bool;
  mi_encoding_known : bool;            (* ctx.encoding is not None *)
  mi_msgid_ok : bool;                  (* msgid is a valid format string *)
  mi_has_plural : bool;                (* msgid_plural is not None *)
  mi_plural_ok : bool;                 (* msgid_plural is a valid format string *)
  mi_lens_equal : bool;                (* len(msgid_fmt) == len(msgid_plural_fmt) *)
  mi_msgstr : option bool;             (* None: msgstr empty; Some b: non-empty, b = valid format string *)
  mi_plurals : list (Z * bool);        (* sorted msgstr_plural items: (index, valid format string) *)
  mi_any_plural_nonempty : bool;       (* any(message.msgstr_plural.values()) *)
  mi_preimage : option (list (Z * list Z));   (* ctx.plural_preimage *)
  mi_rmin : Z; mi_rmax : Z             (* flags.range_min / range_max *)
}.

Fixpoint assoc (i : Z) (p : list (Z * list Z)) : option (list Z) :=
  match p with
  | [] => None
  | (k, l) :: r => if Z.eqb i k then Some l else assoc i r
  end.

Definition plan_plural (m : msg_in) (p : list (Z * list Z)) (i : Z) : list invocation :=
  let msgid_fmt := mi_msgid_ok m in
  let plural_fmt := mi_has_plural m && mi_plural_ok m in
  match assoc i p with
  | None => []                        (* KeyError: broken plural forms *)
  | Some pre =>
    let pre' := filter (in_range (mi_rmin m) (mi_rmax m)) pre in
    match omission_rule pre' with
    | OmitVsMsgid =>
      if msgid_fmt then [{| iv_src := LMsgid; iv_dst := LMsgstrN i;
                            iv_omit_ok := msgid_fmt && plural_fmt && mi_lens_equal m |}] else []
    | OmitOk => if plural_fmt then [{| iv_src := LMsgidPlural; iv_dst := LMsgstrN i; iv_omit_ok := true |}] else []
    | OmitNo => if plural_fmt then [{| iv_src := LMsgidPlural; iv_dst := LMsgstrN i; iv_omit_ok := false |}] else []
    end
  end.

Definition plan_message (m : msg_in) : list invocation :=
  let plural_fmt := mi_has_plural m && mi_plural_ok m in
  if negb (mi_template m) && (negb (mi_msgid_ok m) || (mi_has_plural m && negb (mi_plural_ok m))) then []
  else
    let first := if mi_template m && mi_msgid_ok m && plural_fmt
                 then [{| iv_src := LMsgidPlural; iv_dst := LMsgid; iv_omit_ok := true |}] else [] in
    if mi_fuzzy m || negb (mi_encoding_known m) then first
    else
      first
      ++ match mi_msgstr m with
         | Some true => if mi_msgid_ok m then [{| iv_src := LMsgid; iv_dst := LMsgstr; iv_omit_ok := false |}] else []
         | _ => []
         end
      ++ match mi_preimage m with
         | Some ((_ :: _) as p) =>
           if mi_any_plural_nonempty m
           then flat_map (fun ib : Z * bool => if snd ib then plan_plural m p (fst ib) else []) (mi_plurals m)
           else []
         | _ => []
         end.

(* Executable model of the whole of Checker.check_plurals (lib/check/__init__.py): what precedes the parse of the header
   value (the Plural-Forms field lookup, the scan of the messages, the tags about a missing field) around
   Model/PluralForms.check_plurals_core.  Its tags are the source-level tags of Model/PluralFormsPy.v; the diagnostics of
   the core are embedded by tag_of_diag (has_plurals selects the -unused- variant of a tag name, the header value is
   the argument of the syntax / unusual tags, the text of a never-claim is misc.format_range(range(lo, hi), max=5)).
   Tied to the code by the source translation only (Proofs/PluralsSrc.v). *)
From Coq Require Import List ZArith NArith Bool.
From I18n Require Import Lib.Outcome Lib.PySrc Model.IntExpr Model.PluralForms Model.PluralFormsPy.
Import ListNotations.
Local Open Scope Z_scope.

Definition tag_of_diag (hp : bool) (v : str) (d : pdiag) : stag :=
  match d with
  | DSyntax => TSyntax hp v
  | DLeadingJunk j => TLeadingJunk j
  | DTrailingJunk j => TTrailingJunk j
  | DIncorrectN n k => TIncorrectN n k
  | DUnusual => TUnusual hp v
  | DCodomainAt i fi n => TCodomain hp (MAt i fi n)
  | DArith i EOverflow => TArith hp (MOverflow i)
  | DArith i EDivZero => TArith hp (MDivZero i)
  | DNever lo hi => TCodomain hp (MNever (lo, hi, 5))
  end.

(* what check_plurals reads of a message *)
Record pmsg := {
  pm_obsolete : bool;          (* message.obsolete *)
  pm_plural : bool;            (* message.msgid_plural is not None *)
  pm_translated : bool;        (* message.translated() *)
  pm_count : Z                 (* len(message.msgstr_plural) *)
}.

Record pl_ctx := {
  pc_values : list str;               (* ctx.metadata['Plural-Forms'] *)
  pc_template : bool;                 (* ctx.is_template *)
  pc_correct : option (list str);     (* ctx.language.get_plural_forms(), None without a language *)
  pc_msgs : list pmsg                 (* ctx.file *)
}.

(* a set of ints as a sorted list *)
Fixpoint zset_add (l : list Z) (k : Z) : list Z :=
  match l with
  | [] => [k]
  | k' :: r => if k =? k' then k :: r else if k <? k' then k :: l else k' :: zset_add r k
  end.

(* the loop over ctx.file: has_plurals, and the distinct numbers of msgstr[] of the translated plural messages
   (the loop stops at the second distinct number) *)
Fixpoint scan_msgs (ms : list pmsg) (hp : bool) (counts : list Z) : bool * list Z :=
  match ms with
  | [] => (hp, counts)
  | m :: r =>
    if pm_obsolete m then scan_msgs r hp counts
    else if pm_plural m then
      if negb (pm_translated m) then scan_msgs r true counts
      else
        let counts' := zset_add counts (pm_count m) in
        if zlen counts' >? 1 then (true, counts') else scan_msgs r true counts'
    else scan_msgs r hp counts
  end.

Definition inconsistent_args (counts : list Z) : list targ :=
  removelast (flat_map (fun n => [AInt n; ADeco; AConst]) counts).

Definition check_plurals (maxd : N) (c : pl_ctx) : outcome (list stag * option preimg) pf_err :=
  let dup := zlen (pc_values c) >? 1 in
  let vals := if dup then str_sorted_set (pc_values c) else pc_values c in
  let d0 := if dup then [TDuplicate] else [] in
  if dup && (zlen vals >? 1) then Ok (d0, None) else
  let '(hp, counts) := scan_msgs (pc_msgs c) false [] in
  let d1 := if zlen counts >? 1 then [TInconsistent (inconsistent_args counts)] else [] in
  match vals with
  | [] => Ok (d0 ++ d1 ++ (if hp then (if nonempty counts then [TNoRequired] else [TNoField]) else []), None)
  | [v] =>
    if pc_template c then Ok (d0 ++ d1, None) else
    match check_plurals_core maxd {| pf_value := v; pf_has_plurals := hp; pf_expected := counts; pf_correct := pc_correct c |} with
    | Ok (ds, pre) => Ok (d0 ++ d1 ++ map (tag_of_diag hp v) ds, pre)
    | Err e => Err e
    | Crash k => Crash k
    end
  | _ => Crash CAssertion          (* assert len(plural_forms) == 0: unreachable *)
  end.

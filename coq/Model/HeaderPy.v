(* Target vocabulary of the source translator tools/gen/gen_header_src.py (notes/SRC9.md):
   the hand-written Gallina meaning of the Python operations that the translator emits and that
   Model/Header.v does not already define (split_on, strip_blank, splitlines, sort_u, values_of, hmem, smem,
   hstarts, str_eqb, search_pos and the regex scanners / oracles are used from there).
   Definitions only. Generated/HeaderSrc.v imports this file and Model.Header (types, primitives, oracles);
   it never mentions the composite functions of the model (parse_line, check_mime, ...). *)
From Coq Require Import List NArith Bool.
From I18n Require Import Lib.Outcome Model.Header.
Import ListNotations.
Local Open Scope N_scope.

(* truth value of a list / set / dict *)
Definition truthy {A} (l : list A) : bool := match l with [] => false | _ => true end.

(* key, *values = line.split(sep, 1) *)
Definition split1 (sep : N) (s : str) : str * list str :=
  match split_first sep s with Some (a, b) => (a, [b]) | None => (s, []) end.

(* x or ''   for x : None | str *)
Definition opt_or_empty (o : option str) : str := match o with Some s => s | None => [] end.
Definition is_none {A} (o : option A) : bool := match o with Some _ => false | None => true end.

(* h in d   for h : None | str and d a dict with str keys *)
Definition opt_in (o : option str) (keys : list str) : bool := match o with Some h => smem h keys | None => false end.

(* == on lists of str *)
Fixpoint strs_eqb (a b : list str) : bool :=
  match a, b with
  | [], [] => true
  | x :: a', y :: b' => str_eqb x y && strs_eqb a' b'
  | _, _ => false
  end.

(* a defaultdict(list) filled only by  d[k] += [v]  is the list of (k, v) in insertion order:
   d[K] = values_of K d;   K in d = smem K (map fst d);   sorted(d.items()) = mm_items d *)
Definition mm_items (d : list (str * str)) : list (str * list str) :=
  map (fun k => (k, values_of k d)) (sort_u (map fst d)).

(* sorted(collections.Counter(l).items()) *)
Definition counter_items (l : list str) : list (str * nat) := map (fun f => (f, count_str f l)) (sort_u l).

(* a dict filled only by  d[k] = v  is the list of (k, v) in assignment order; d.get(k) is the LAST v stored under k *)
Definition dict_get (d : list (str * str)) (k : str) : option str :=
  match find (fun kv => str_eqb (fst kv) k) (rev d) with Some kv => Some (snd kv) | None => None end.

(* {str.lower(s): s for s in T}.get(k): the dict is built in the (unspecified) iteration order of the frozenset T;
   taken as the first entry of the table with that lower-cased name (exact when the lower-cased names are distinct) *)
Definition lc_get (lower : str -> str) (table : list str) (k : str) : option str :=
  find (fun s => str_eqb (lower s) k) table.

(* sorted(set(chars)) for characters: one-character strings compare by code point *)
Definition sorted_chars (l : list N) : list N := concat (sort_u (map (fun c => [c]) l)).

(* str.join(':', (path, line)) for path, line in occurrences *)
Definition join_refs (occ : list (str * str)) : list str := map (fun pl => fst pl ++ [58] ++ snd pl) occ.

(* re.compile(str.join('|', regexs)).search(line) is not None: some alternative matches at some position
   (which alternative comes first does not change whether there is a match) *)
Definition alt_search (rs : list (option N -> str -> bool)) (line : str) : bool :=
  search_pos (fun prev s => existsb (fun m => m prev s) rs) None line.

(* try: scheme = urlparse(v).scheme / except ValueError: scheme = ''   followed by   scheme == '' *)
Definition scheme_or_empty_is_empty (r : url_result) : bool :=
  match r with UScheme => false | UNoScheme => true | URaise => true end.

(* tags emitted in sequence by code that may raise: a ; b *)
Definition oapp {A} (a b : outcome (list A) unit) : outcome (list A) unit :=
  do x <- a; do y <- b; Ok (x ++ y).
(* for x in l: body *)
Fixpoint ocoll {A B} (f : A -> outcome (list B) unit) (l : list A) : outcome (list B) unit :=
  match l with
  | [] => Ok []
  | x :: r => oapp (f x) (ocoll f r)
  end.
(* assert c *)
Definition oassert {A} (c : bool) : outcome (list A) unit := if c then Ok [] else Crash CAssertion.

(* The charset part of check_mime (the try / except / else statement on encinfo.is_ascii_compatible_encoding), which the
   translator does NOT translate: this is the model's reading of it, cut out of Header.content_type_diags
   (Proofs/HeaderSrc.v: content_type_diags_charset_part).  fst: the tags it emits; snd: the value of `encoding` afterwards. *)
Definition charset_part (O : oracles) (template : bool) (ct enc : str) : list diag * option str :=
  match o_enc O enc with
  | EUnknown =>
    ((if str_eqb enc s_CHARSET then (if template then [] else [DBoilerplateContentType ct])
      else [DUnknownEncoding enc]), None)
  | EKnown ac portable proposal =>
    let '(ds1, enc1) :=
      if negb ac then ([DNonAsciiCompatible enc], enc)
      else if portable then ([], enc)
      else match proposal with
           | Some ne => ([DNonPortable enc (Some ne)], ne)
           | None => ([DNonPortable enc None], enc)
           end in
    (ds1 ++ (match o_unrep O enc1 with [] => [] | l => [DUnrepresentable enc1 (truncate_unrep l)] end), Some enc1)
  end.

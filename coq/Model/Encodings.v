(* Executable model of lib/encodings.py (charset classification, the charmap codecs built from
   data/charmaps, the codec search function) and of Language.get_unrepresentable_characters
   (lib/ling.py) / the charset part of Checker.check_headers (lib/check/__init__.py).

   Text = list N of code points; bytes = list N; positions = nat.
   Library behaviour that is not modelled enters as function arguments (record codec_oracle):
   str.lower / str.upper, codecs.lookup, bytes.decode of the ASCII repertoire, str.encode.
   The data tables (data/encodings as loaded, file names of data/charmaps) are a record argument
   too; Generated/EncodingsData.v provides the instance the code sees today. *)
From Coq Require Import NArith List Bool Arith.
From I18n Require Import Lib.Outcome Generated.CodecOracle.
Import ListNotations.
Local Open Scope N_scope.

(* ------------------------------------------------------------------ *)
(* small string library (ASCII case mapping only: the tables are ASCII; str.lower/upper on an
   arbitrary header value is an oracle) *)

Fixpoint list_eqb (a b : list N) : bool :=
  match a, b with
  | [], [] => true
  | x :: a', y :: b' => N.eqb x y && list_eqb a' b'
  | _, _ => false
  end.

Definition ascii_lower_char (c : N) : N := if (65 <=? c) && (c <=? 90) then c + 32 else c.
Definition ascii_upper_char (c : N) : N := if (97 <=? c) && (c <=? 122) then c - 32 else c.
Definition ascii_lower (s : list N) : list N := map ascii_lower_char s.
Definition ascii_upper (s : list N) : list N := map ascii_upper_char s.

Fixpoint assoc {A : Type} (k : list N) (l : list (list N * A)) : option A :=
  match l with
  | [] => None
  | (k', v) :: r => if list_eqb k k' then Some v else assoc k r
  end.

Definition mem (k : list N) (l : list (list N)) : bool := existsb (list_eqb k) l.

Definition replace_char (a b : N) (s : list N) : list N := map (fun c => if c =? a then b else c) s.

Fixpoint starts_with (p s : list N) : bool :=
  match p, s with
  | [], _ => true
  | c :: p', d :: s' => N.eqb c d && starts_with p' s'
  | _ :: _, [] => false
  end.

(* ------------------------------------------------------------------ *)
(* charmap codecs: charmap_encoding(encoding) = codecs.charmap_build / charmap_decode / charmap_encode
   over the 256-character decoding table read from data/charmaps/<NAME>.

   codecs.charmap_decode(input, 'strict', table : str):
     byte b is undefined if b >= len(table) or table[b] == U+FFFE; error = UnicodeDecodeError(start=i, end=i+1).
   codecs.charmap_build(table) (PyUnicode_BuildEncodingMap): looks at the first min(len, 256) characters;
     an empty table is a TypeError; it builds a 3-level trie (EncodingMap) unless table[0] != 0, or some later
     character is 0 or above U+FFFF, or the trie would need 255 or more second/third-level blocks, in which case it
     builds a dict {table[i]: i}.  In both forms a later byte overrides an earlier one with the same character.
     Trie: U+FFFE entries are skipped, U+0000 encodes to byte 0, characters above U+FFFF are unencodable.
     Dict: every entry counts, U+FFFE included.
   codecs.charmap_encode(input, 'strict', map): the error covers the maximal run of unencodable characters:
     UnicodeEncodeError(start=i, end=first j > i with input[j] encodable, or len). *)

Definition UNDEF : N := 65534.

Definition decode_byte (t : list N) (b : N) : option N :=
  match nth_error t (N.to_nat b) with
  | Some c => if c =? UNDEF then None else Some c
  | None => None
  end.

Fixpoint cm_decode_from (t : list N) (pos : nat) (bs : list N) : outcome (list N) (nat * nat) :=
  match bs with
  | [] => Ok []
  | b :: r =>
    match decode_byte t b with
    | None => Err (pos, S pos)
    | Some c => do r' <- cm_decode_from t (S pos) r; Ok (c :: r')
    end
  end.

Definition cm_decode (t : list N) (bs : list N) : outcome (list N) (nat * nat) := cm_decode_from t 0%nat bs.

Inductive cm_mode := CmTrie | CmDict.

Fixpoint indexed_from (k : nat) (t : list N) : list (nat * N) :=
  match t with
  | [] => []
  | x :: r => (k, x) :: indexed_from (S k) r
  end.
Definition indexed (t : list N) : list (nat * N) := indexed_from 0 t.

Definition distinct_count (l : list N) : nat := length (nodup N.eq_dec l).

(* None = PyErr_BadArgument (empty table) *)
Definition cm_build (t : list N) : option cm_mode :=
  match firstn 256 t with
  | [] => None
  | c0 :: rest =>
    let live := filter (fun ch => negb (ch =? UNDEF)) rest in
    if negb (c0 =? 0)
       || existsb (fun ch => (ch =? 0) || (65535 <? ch)) rest
       || Nat.leb 255 (distinct_count (map (fun ch => ch / 2048) live))
       || Nat.leb 255 (distinct_count (map (fun ch => ch / 128) live))
    then Some CmDict else Some CmTrie
  end.

Definition enc_candidates (m : cm_mode) (t : list N) : list (nat * N) :=
  let ix := indexed (firstn 256 t) in
  match m with
  | CmDict => ix
  | CmTrie => filter (fun p => negb (snd p =? UNDEF)) (tl ix)
  end.

Definition find_last_byte (cands : list (nat * N)) (c : N) : option nat :=
  option_map fst (find (fun p => snd p =? c) (rev cands)).

Definition encode_char (m : cm_mode) (t : list N) (c : N) : option nat :=
  match m with
  | CmTrie => if 65535 <? c then None else if c =? 0 then Some 0%nat else find_last_byte (enc_candidates m t) c
  | CmDict => find_last_byte (enc_candidates m t) c
  end.

Fixpoint unenc_run (m : cm_mode) (t : list N) (l : list N) : nat :=
  match l with
  | [] => 0%nat
  | c :: r => match encode_char m t c with Some _ => 0%nat | None => S (unenc_run m t r) end
  end.

Fixpoint cm_encode_from (m : cm_mode) (t : list N) (pos : nat) (txt : list N) : outcome (list N) (nat * nat) :=
  match txt with
  | [] => Ok []
  | c :: r =>
    match encode_char m t c with
    | None => Err (pos, (S pos + unenc_run m t r)%nat)
    | Some b => do r' <- cm_encode_from m t (S pos) r; Ok (N.of_nat b :: r')
    end
  end.

(* str.encode(NAME): the encoding map is built once, when the codec is created; an empty file makes that fail *)
Definition cm_encode (t : list N) (txt : list N) : outcome (list N) (nat * nat) :=
  match cm_build t with
  | None => Crash CTypeError
  | Some m => cm_encode_from m t 0%nat txt
  end.

(* ------------------------------------------------------------------ *)
(* data/encodings as _read_encodings leaves it, and the oracles *)

Record enc_data := {
  ed_portable : list (list N * bool);      (* _portable_encodings: key, codec is not None *)
  ed_c2e : list (list N * list N);         (* _pycodec_to_encoding *)
  ed_extra : list (list N);                (* _extra_encodings *)
  ed_charmap_files : list (list N);        (* os.listdir(data/charmaps) *)
  ed_py39 : bool;                          (* sys.version_info >= (3, 9) *)
  ed_interesting : list N                  (* _interesting_ascii_bytes *)
}.

Record codec_oracle := {
  co_lower : list N -> list N;                          (* str.lower *)
  co_upper : list N -> list N;                          (* str.upper *)
  co_lookup : list N -> option (list N);                (* codecs.lookup(x).name, None = LookupError *)
  co_ascii : list N -> ascii_outcome                    (* _interesting_ascii_bytes.decode(x) *)
}.

Definition s_iso_us : list N := [105; 115; 111; 95].   (* "iso_" *)
Definition s_iso_hy : list N := [105; 115; 111; 45].   (* "iso-" *)

(* is_portable_encoding(encoding, python=python) *)
Definition is_portable_encoding (d : enc_data) (o : codec_oracle) (python : bool) (encoding : list N) : bool :=
  let e := co_lower o encoding in
  let e := if starts_with s_iso_us e then s_iso_hy ++ skipn 4 e else e in
  match assoc e (ed_portable d) with
  | Some has_codec => if python then has_codec else true
  | None => false
  end.

(* get_portable_encodings(python=python) *)
Definition get_portable_encodings (d : enc_data) (python : bool) : list (list N) :=
  map fst (filter (fun p => negb python || snd p) (ed_portable d)).

(* propose_portable_encoding(encoding): None, or the proposal; the assert is a Crash branch *)
Definition propose_portable_encoding (d : enc_data) (o : codec_oracle) (encoding : list N)
  : outcome (option (list N)) unit :=
  match co_lookup o encoding with
  | None => Ok None                                       (* LookupError from codecs.lookup *)
  | Some cname =>
    match assoc cname (ed_c2e d) with
    | None => Ok None                                     (* KeyError is a LookupError *)
    | Some new_encoding =>
      if is_portable_encoding d o true new_encoding then Ok (Some (co_upper o new_encoding))
      else Crash CAssertion
    end
  end.

(* is_ascii_compatible_encoding(encoding, missing_ok=missing_ok); Err tt = EncodingLookupError *)
Definition is_ascii_compatible_encoding (o : codec_oracle) (missing_ok : bool) (encoding : list N)
  : outcome bool unit :=
  match co_ascii o encoding with
  | AscSame => Ok true
  | AscDiff => Ok false
  | AscDecodeError => Ok false
  | AscLookupError | AscOtherError | AscNotStr => if missing_ok then Ok false else Err tt
  end.

(* _unmangle_encoding: built from set(_portable_encodings) | set(_extra_encodings) when Python >= 3.9.
   The set is iterated in hash order; the model takes the first key (portable list order, then extras) whose
   mangled form is the name, which is the same thing whenever mangling is injective on the keys
   (Proofs: checked on the generated tables). *)
Definition mangle (k : list N) : list N := replace_char 45 95 k.   (* '-' -> '_' *)

Definition unmangle_keys (d : enc_data) : list (list N) := map fst (ed_portable d) ++ ed_extra d.

Definition unmangle (d : enc_data) (enc : list N) : list N :=
  if ed_py39 d then
    match find (fun k => list_eqb (mangle k) enc) (unmangle_keys d) with
    | Some k => k
    | None => enc
    end
  else enc.

(* _codec_search_function(encoding): which codec the tool supplies for a (normalised) name *)
Inductive search_result :=
| SNone                         (* return None: not ours *)
| SCharmap (file : list N)      (* charmap_encoding: data/charmaps/<file> *)
| SIconv (name : list N).       (* iconv_encoding(name) *)

Definition codec_search (d : enc_data) (enc : list N) : search_result :=
  let e := unmangle d enc in
  let ours :=
    match assoc e (ed_portable d) with
    | Some false => true                    (* portable for gettext, codec is None *)
    | _ => mem e (ed_extra d)
    end in
  if ours then
    let f := ascii_upper e in
    if mem f (ed_charmap_files d) then SCharmap f else SIconv e
  else SNone.

(* ------------------------------------------------------------------ *)
(* the charset part of Checker.check_headers: what is decided about charset=<encoding> *)

Inductive charset_class :=
| ClsUnknown                                  (* unknown-encoding (or boilerplate for CHARSET) *)
| ClsNonAscii                                 (* non-ascii-compatible-encoding *)
| ClsPortable                                 (* no tag *)
| ClsNonPortable (proposal : option (list N)). (* non-portable-encoding [=> proposal] *)

Definition classify (d : enc_data) (o : codec_oracle) (encoding : list N) : outcome charset_class unit :=
  match is_ascii_compatible_encoding o false encoding with
  | Err _ => Ok ClsUnknown
  | Crash c => Crash c
  | Ok false => Ok ClsNonAscii
  | Ok true =>
    if is_portable_encoding d o true encoding then Ok ClsPortable
    else do p <- propose_portable_encoding d o encoding; Ok (ClsNonPortable p)
  end.

(* ------------------------------------------------------------------ *)
(* Language.get_unrepresentable_characters(encoding) from the list of characters on
   (strict=False: entries written "(x)" are optional and were dropped by _get_characters).
   encode s = Ok: s.encode(encoding) returns; Err: it raises UnicodeEncodeError; Crash: anything else (oracle).
   The early exit on exc.reason.startswith('iconv:') belongs to the iconv(1) fallback, which is not
   in use when libc has iconv(3); it is the flag cli_fallback. *)

Definition is_optional_entry (ch : list N) : bool :=
  match ch with
  | [] => false
  | c :: _ => (c =? 40) && (last ch 0 =? 41)
  end.

Definition listed_characters (entries : list (list N)) : list (list N) :=
  filter (fun ch => negb (is_optional_entry ch)) entries.

Fixpoint unrepresentable_scan (encode : list N -> outcome unit unit) (cli_fallback : bool) (chars : list (list N))
  : outcome (list (list N)) unit :=
  match chars with
  | [] => Ok []
  | ch :: r =>
    match encode ch with
    | Ok _ => unrepresentable_scan encode cli_fallback r
    | Err _ => if cli_fallback then Ok [ch] else do r' <- unrepresentable_scan encode cli_fallback r; Ok (ch :: r')
    | Crash c => Crash c                         (* an exception other than UnicodeEncodeError propagates *)
    end
  end.

Definition get_unrepresentable_characters (encode : list N -> outcome unit unit) (cli_fallback : bool)
  (chars : list (list N)) : outcome (list (list N)) unit :=
  match encode (concat chars) with
  | Ok _ => Ok []
  | Err _ => unrepresentable_scan encode cli_fallback chars
  | Crash c => Crash c
  end.

(* the tag's extra arguments: at most 5 items, the fifth replaced by "..." when there are more *)
Definition s_dots : list N := [46; 46; 46].
Definition unrepresentable_tag_args (l : list (list N)) : option (list (list N)) :=
  match l with
  | [] => None
  | _ => Some (if Nat.ltb 5 (length l) then firstn 4 l ++ [s_dots] else l)
  end.

(* ------------------------------------------------------------------ *)
(* the instance the code sees today (regenerated from /repo on every run) *)
From I18n Require Generated.EncodingsData Generated.Charmaps.

Definition real_enc_data : enc_data := {|
  ed_portable := EncodingsData.portable_encodings;
  ed_c2e := EncodingsData.pycodec_to_encoding;
  ed_extra := EncodingsData.extra_encodings;
  ed_charmap_files := EncodingsData.charmap_files;
  ed_py39 := EncodingsData.python_ge_39;
  ed_interesting := EncodingsData.interesting_ascii_bytes
|}.

(* the codec oracle read from the generated table; names outside the table are unknown to everybody.
   Case mapping of the (ASCII) names of the table is ASCII case mapping. *)
Definition oracle_row (tbl : list codec_row) (name : list N) : option codec_row :=
  find (fun r => list_eqb (o_name r) name) tbl.

Definition table_oracle (tbl : list codec_row) : codec_oracle := {|
  co_lower := ascii_lower;
  co_upper := ascii_upper;
  co_lookup := fun name => match oracle_row tbl name with Some r => o_tool_name r | None => None end;
  co_ascii := fun name => match oracle_row tbl name with Some r => o_ascii r | None => AscLookupError end
|}.

Definition real_oracle : codec_oracle := table_oracle codec_oracle_table.

(* the table of a charmap file, None = FileNotFoundError (EncodingLookupError, then the iconv fallback) *)
Definition charmap_table (file : list N) : option (list N) := assoc file Charmaps.charmaps.

(* Model of lib/terminal.py: _strip_delay, attr_fg, attr_reset (the curses calls are oracle arguments).

   _strip_delay = re.compile(b'[$]<([0-9]*[.])?[0-9]+([/*]|[*][/])?>').sub with the empty replacement:
   leftmost, non-overlapping matches are removed.  Every character the pattern can consume between "$<"
   and ">" differs from ">", so a match starting at a "$<" ends at the first ">" after it and exists iff
   the text in between is   ([0-9]*[.])?[0-9]+([/*]|[*][/])?  : the scanner below decides exactly that. *)
From Coq Require Import List NArith Bool.
Import ListNotations.
Open Scope N_scope.

Definition text := list N.

Definition c_dollar : N := 36.   (* $ *)
Definition c_lt : N := 60.       (* < *)
Definition c_gt : N := 62.       (* > *)
Definition c_dot : N := 46.      (* . *)
Definition c_star : N := 42.     (* * *)
Definition c_slash : N := 47.    (* / *)

Definition is_digit (c : N) : bool := (48 <=? c) && (c <=? 57).

(* the longest prefix of digits, and the rest *)
Fixpoint span_digits (s : text) : text * text :=
  match s with
  | c :: r => if is_digit c then let (d, r') := span_digits r in (c :: d, r') else ([], s)
  | [] => ([], [])
  end.

(* ([/*]|[*][/])? then end of the body *)
Definition suffix_ok (s : text) : bool :=
  match s with
  | [] => true
  | [c] => (c =? c_slash) || (c =? c_star)
  | [c; d] => (c =? c_star) && (d =? c_slash)
  | _ => false
  end.

(* ([0-9]*[.])?[0-9]+([/*]|[*][/])?  on the whole body *)
Definition body_ok (b : text) : bool :=
  let (d1, r1) := span_digits b in
  match r1 with
  | c :: r2 =>
      if c =? c_dot then
        let (d2, r3) := span_digits r2 in
        match d2 with [] => false | _ => suffix_ok r3 end
      else match d1 with [] => false | _ => suffix_ok r1 end
  | [] => match d1 with [] => false | _ => true end
  end.

(* text up to the first ">" (exclusive) and the text after it; None when there is no ">" *)
Fixpoint split_gt (s : text) : option (text * text) :=
  match s with
  | [] => None
  | c :: r => if c =? c_gt then Some ([], r)
              else match split_gt r with Some (b, r') => Some (c :: b, r') | None => None end
  end.

(* one step at a position: Some rest when a padding specification starts here *)
Definition match_here (s : text) : option text :=
  match s with
  | c1 :: c2 :: r =>
      if (c1 =? c_dollar) && (c2 =? c_lt) then
        match split_gt r with
        | Some (b, r') => if body_ok b then Some r' else None
        | None => None
        end
      else None
  | _ => None
  end.

(* re.sub(b''): fuel = length of the string (each step consumes at least one character) *)
Fixpoint strip_fuel (fuel : nat) (s : text) : text :=
  match fuel with
  | O => s
  | S f =>
      match match_here s with
      | Some r => strip_fuel f r
      | None => match s with [] => [] | c :: r => c :: strip_fuel f r end
      end
  end.

Definition strip_delay (s : text) : text := strip_fuel (length s) s.

(* attr_reset: tigetstr('sgr0') or b'' with the padding removed.
   attr_fg: tigetstr('setaf') with the padding removed, then tparm (an oracle) unless empty. *)
Definition attr_reset (sgr0 : option text) : text :=
  strip_delay (match sgr0 with Some s => s | None => [] end).

Definition attr_fg (setaf : option text) (tparm : text -> text) : text :=
  let s := strip_delay (match setaf with Some s => s | None => [] end) in
  match s with [] => [] | _ => tparm s end.

(* Executable model of lib/ling.py (locale names: parse_language, Language.__str__, __eq__, fix_codes,
   remove_encoding, remove_nonlinguistic_modifier, lookup_territory_code, get_language_for_name), of the -l
   handling of lib/cli.py main(), and of the decision logic of Checker.check_language
   (lib/check/__init__.py).  Text = list N of code points.  Tables and the Unicode folding of
   _munch_language_name are arguments (record ling_cfg). *)
From Coq Require Import List NArith Bool Arith.
From I18n Require Import Lib.Outcome.
Import ListNotations.
Local Open Scope N_scope.

(* ------------------------------------------------------------------ *)
(* strings *)

Fixpoint lg_eqb (a b : list N) : bool :=
  match a, b with
  | [], [] => true
  | x :: a', y :: b' => N.eqb x y && lg_eqb a' b'
  | _, _ => false
  end.

Fixpoint lg_span (p : N -> bool) (s : list N) : list N * list N :=
  match s with
  | c :: r => if p c then let '(a, b) := lg_span p r in (c :: a, b) else ([], s)
  | [] => ([], [])
  end.

Fixpoint lg_lookup (t : list (list N * list N)) (k : list N) : option (list N) :=
  match t with
  | [] => None
  | (k', v) :: r => if lg_eqb k k' then Some v else lg_lookup r k
  end.

Fixpoint lg_mem (t : list (list N)) (k : list N) : bool :=
  match t with
  | [] => false
  | k' :: r => lg_eqb k k' || lg_mem r k
  end.

Definition in_range (lo hi c : N) : bool := N.leb lo c && N.leb c hi.
Definition is_lower (c : N) : bool := in_range 97 122 c.       (* [a-z] *)
Definition is_upper (c : N) : bool := in_range 65 90 c.        (* [A-Z] *)
Definition is_digit (c : N) : bool := in_range 48 57 c.        (* [0-9] *)
Definition is_encch (c : N) : bool :=                          (* [a-zA-Z0-9+-] *)
  is_lower c || is_upper c || is_digit c || N.eqb c 43 || N.eqb c 45.
Definition ascii_upper (c : N) : N := if is_lower c then c - 32 else c.

(* ------------------------------------------------------------------ *)
(* class Language *)

Record language := mkLang {
  l_lang : list N;
  l_terr : option (list N);
  l_enc  : option (list N);
  l_mod  : option (list N)
}.

Inductive ling_err := LSyntax | LFixCodes.     (* LanguageSyntaxError, FixingLanguageCodesFailed: both LanguageError *)

Definition opt_eqb (a b : option (list N)) : bool :=
  match a, b with
  | None, None => true
  | Some x, Some y => lg_eqb x y
  | _, _ => false
  end.

(* Language.__eq__ : equality of the 4-tuples *)
Definition lang_eqb (a b : language) : bool :=
  lg_eqb (l_lang a) (l_lang b) && opt_eqb (l_terr a) (l_terr b) &&
  opt_eqb (l_enc a) (l_enc b) && opt_eqb (l_mod a) (l_mod b).

Definition optpart (sep : N) (g : option (list N)) : list N :=
  match g with Some x => sep :: x | None => [] end.

Definition render (ll : list N) (cc en md : option (list N)) : list N :=
  ll ++ optpart 95 cc ++ optpart 46 en ++ optpart 64 md.

(* Language.__str__ *)
Definition str_language (l : language) : list N :=
  render (l_lang l) (l_terr l) (l_enc l) (l_mod l).

(* ------------------------------------------------------------------ *)
(* _language_regexp (re.VERBOSE, no MULTILINE), used with .match:
     ^([a-z]{2,})(?:_([A-Z]{2,}))?(?:[.]([a-zA-Z0-9+-]+))?(?:@([a-z]+))?$
   Each optional group is followed by a position that none of its characters can occupy, so the
   backtracking engine never finds a match that the greedy scan misses. *)

Definition opt_group (sep : N) (cls : N -> bool) (minlen : nat) (s : list N) : option (list N) * list N :=
  match s with
  | c :: t =>
    if N.eqb c sep then
      let '(g, r) := lg_span cls t in
      if Nat.leb minlen (length g) then (Some g, r) else (None, s)
    else (None, s)
  | [] => (None, s)
  end.

(* `$` : at the end, or before a newline that is the last character *)
Definition at_dollar (s : list N) : bool :=
  match s with
  | [] => true
  | c :: [] => N.eqb c 10
  | _ => false
  end.
(* `\Z` : at the end only *)
Definition at_end (s : list N) : bool := match s with [] => true | _ => false end.

Definition parse_language_gen (endp : list N -> bool) (s : list N) : outcome language ling_err :=
  let '(ll, r1) := lg_span is_lower s in
  if negb (Nat.leb 2 (length ll)) then Err LSyntax else
  let '(cc, r2) := opt_group 95 is_upper 2 r1 in
  let '(en, r3) := opt_group 46 is_encch 1 r2 in
  let '(md, r4) := opt_group 64 is_lower 1 r3 in
  if endp r4
  then Ok (mkLang ll cc (option_map (map ascii_upper) en) md)    (* Language.__init__: encoding.upper() *)
  else Err LSyntax.

(* ling.parse_language as it is (the pattern ends with \Z) *)
Definition parse_language : list N -> outcome language ling_err := parse_language_gen at_end.
(* the same with \Z in place of $ *)
Definition parse_language_Z : list N -> outcome language ling_err := parse_language_gen at_end.

(* ------------------------------------------------------------------ *)
(* tables and oracles *)

Record ling_cfg := {
  cfg_iso639  : list (list N * list N);     (* ling._iso_639 *)
  cfg_iso3166 : list (list N);              (* ling._iso_3166 *)
  cfg_names   : list (list N * list N);     (* ling._name_to_code *)
  cfg_munch   : list N -> list N            (* ling._munch_language_name (whitespace, case and accent folding) *)
}.

(* lookup_territory_code *)
Definition lookup_territory_code (cfg : ling_cfg) (cc : list N) : option (list N) :=
  if lg_mem (cfg_iso3166 cfg) cc then Some cc else None.

(* Language.fix_codes: the new object and whether the language code changed (Python: True / None) *)
Definition fix_codes (cfg : ling_cfg) (l : language) : outcome (language * bool) ling_err :=
  match lg_lookup (cfg_iso639 cfg) (l_lang l) with
  | None => Err LFixCodes
  | Some ll =>
    let fixed := negb (lg_eqb ll (l_lang l)) in
    match l_terr l with
    | None => Ok (mkLang ll None (l_enc l) (l_mod l), fixed)
    | Some cc =>
      match lookup_territory_code cfg cc with
      | None => Err LFixCodes
      | Some cc' =>
        if negb (lg_eqb cc' cc) then Crash CValueError          (* `raise ValueError  # no coverage` *)
        else Ok (mkLang ll (Some cc') (l_enc l) (l_mod l), fixed)
      end
    end
  end.

Definition is_some {A} (o : option A) : bool := match o with Some _ => true | None => false end.

Definition remove_encoding (l : language) : language * bool :=
  (mkLang (l_lang l) (l_terr l) None (l_mod l), is_some (l_enc l)).

Definition s_euro : list N := [101; 117; 114; 111].
Definition remove_nonlinguistic_modifier (l : language) : language * bool :=
  match l_mod l with
  | Some m => if lg_eqb m s_euro then (mkLang (l_lang l) (l_terr l) (l_enc l) None, true) else (l, false)
  | None => (l, false)
  end.

(* ------------------------------------------------------------------ *)
(* get_language_for_name *)

(* str.isspace of one code point (the fixed whitespace set of CPython's _PyUnicode_IsWhitespace) *)
Definition py_isspace (c : N) : bool :=
  in_range 9 13 c || in_range 28 32 c || N.eqb c 133 || N.eqb c 160 || N.eqb c 5760 ||
  in_range 8192 8202 c || N.eqb c 8232 || N.eqb c 8233 || N.eqb c 8239 || N.eqb c 8287 || N.eqb c 12288.

Fixpoint lg_lstrip (s : list N) : list N :=
  match s with
  | c :: r => if py_isspace c then lg_lstrip r else s
  | [] => []
  end.
Definition lg_strip (s : list N) : list N := rev (lg_lstrip (rev (lg_lstrip s))).

(* str.split(sep): never empty *)
Fixpoint lg_split (sep : N) (s : list N) : list (list N) :=
  match s with
  | [] => [[]]
  | c :: r =>
    if N.eqb c sep then [] :: lg_split sep r
    else match lg_split sep r with
         | x :: xs => (c :: x) :: xs
         | [] => [[c]]          (* unreachable *)
         end
  end.

(* str.split(sep, 1) when sep occurs: (before, after) *)
Fixpoint lg_split1 (sep : N) (s : list N) : list N * list N :=
  match s with
  | [] => ([], [])
  | c :: r => if N.eqb c sep then ([], r) else let '(a, b) := lg_split1 sep r in (c :: a, b)
  end.

Definition lg_has (c : N) (s : list N) : bool := existsb (N.eqb c) s.

Inductive lookup_err := LLookup.       (* LookupError *)

(* parse(_name_to_code[key]); a LanguageSyntaxError here is caught by no handler on the way out *)
Definition parse_code (code : list N) : outcome language lookup_err :=
  match parse_language code with
  | Ok l => Ok l
  | Err _ => Crash CValueError
  | Crash c => Crash c
  end.

Definition name_hit (cfg : ling_cfg) (key : list N) : option (outcome language lookup_err) :=
  match lg_lookup (cfg_names cfg) key with
  | Some code => Some (parse_code code)
  | None => None
  end.

Fixpoint first_hit (cfg : ling_cfg) (subs : list (list N)) : option (outcome language lookup_err) :=
  match subs with
  | [] => None
  | s :: r => match name_hit cfg (lg_strip s) with Some o => Some o | None => first_hit cfg r end
  end.

Fixpoint found_codes (cfg : ling_cfg) (subs : list (list N)) : list (list N) :=
  match subs with
  | [] => []
  | s :: r =>
    match lg_lookup (cfg_names cfg) (lg_strip s) with
    | Some code => code :: found_codes cfg r
    | None => found_codes cfg r
    end
  end.

(* the part of get_language_for_name after `_name = _munch_language_name(name)` *)
Definition lookup_munched (cfg : ling_cfg) (nm : list N) : outcome language lookup_err :=
  match name_hit cfg nm with
  | Some o => o
  | None =>
    match (if lg_has 59 nm then first_hit cfg (lg_split 59 nm) else None) with
    | Some o => o
    | None =>
      if lg_has 44 nm then
        let '(a, b) := lg_split1 44 nm in
        match name_hit cfg (lg_strip b ++ [32] ++ lg_strip a) with
        | Some o => o
        | None =>
          match found_codes cfg (lg_split 44 nm) with
          | c :: r => if forallb (lg_eqb c) r then parse_code c else Err LLookup
          | [] => Err LLookup
          end
        end
      else Err LLookup
    end
  end.

Definition get_language_for_name (cfg : ling_cfg) (name : list N) : outcome language lookup_err :=
  lookup_munched cfg (cfg_munch cfg name).

(* ------------------------------------------------------------------ *)
(* lib/cli.py main(): -l *)

Definition cli_language (cfg : ling_cfg) (s : list N) : outcome language ling_err :=
  do l <- parse_language s;
  do lf <- fix_codes cfg l;
  Ok (fst (remove_nonlinguistic_modifier (fst (remove_encoding (fst lf))))).

(* ------------------------------------------------------------------ *)
(* path functions (posixpath) *)

Definition is_nil {A} (l : list A) : bool := match l with [] => true | _ => false end.
Definition s_dot : list N := [46].
Definition s_dotdot : list N := [46; 46].

Fixpoint norm_comps (abs : bool) (comps : list (list N)) (acc : list (list N)) : list (list N) :=
  match comps with
  | [] => rev acc
  | c :: r =>
    if is_nil c || lg_eqb c s_dot then norm_comps abs r acc
    else if negb (lg_eqb c s_dotdot) || (negb abs && is_nil acc)
            || match acc with x :: _ => lg_eqb x s_dotdot | [] => false end
    then norm_comps abs r (c :: acc)
    else match acc with
         | _ :: acc' => norm_comps abs r acc'
         | [] => norm_comps abs r acc
         end
  end.

Fixpoint lg_join (sep : N) (l : list (list N)) : list N :=
  match l with
  | [] => []
  | [x] => x
  | x :: r => x ++ sep :: lg_join sep r
  end.

Definition initial_slashes (p : list N) : nat :=
  match p with
  | a :: b :: c :: _ => if N.eqb a 47 then if N.eqb b 47 then if N.eqb c 47 then 1 else 2 else 1 else 0
  | a :: b :: [] => if N.eqb a 47 then if N.eqb b 47 then 2 else 1 else 0
  | a :: [] => if N.eqb a 47 then 1 else 0
  | [] => 0
  end%nat.

(* os.path.normpath *)
Definition normpath (p : list N) : list N :=
  match p with
  | [] => s_dot
  | _ =>
    let k := initial_slashes p in
    let comps := norm_comps (negb (Nat.eqb k 0)) (lg_split 47 p) [] in
    let q := repeat 47 k ++ lg_join 47 comps in
    match q with [] => s_dot | _ => q end
  end.

Fixpoint index_of (x : list N) (l : list (list N)) : option nat :=
  match l with
  | [] => None
  | y :: r => if lg_eqb x y then Some O else option_map S (index_of x r)
  end.

Definition s_LC_MESSAGES : list N := [76; 67; 95; 77; 69; 83; 83; 65; 71; 69; 83].
Definition s_dot_po : list N := [46; 112; 111].

(* the component before the first 'LC_MESSAGES' component of the normalised path, if that is not the first one *)
Definition lcmessages_parent (path : list N) : option (list N) :=
  let comps := lg_split 47 (normpath path) in
  match index_of s_LC_MESSAGES comps with
  | Some (S i) => Some (nth i comps [])
  | _ => None
  end.

Fixpoint lg_prefix (p s : list N) : bool :=
  match p with
  | [] => true
  | c :: p' => match s with d :: s' => N.eqb c d && lg_prefix p' s' | [] => false end
  end.

Definition lg_endswith (s suf : list N) : bool := lg_prefix (rev suf) (rev s).

(* needle in hay *)
Fixpoint lg_infix (needle hay : list N) : bool :=
  lg_prefix needle hay || match hay with [] => false | _ :: t => lg_infix needle t end.

(* os.path.basename *)
Definition basename (p : list N) : list N := last (lg_split 47 p) [].

(* os.path.basename(path)[:-3] *)
Definition po_stem (path : list N) : list N :=
  let b := basename path in firstn (length b - 3) b.

Definition replace_char (a b : N) (s : list N) : list N := map (fun c => if N.eqb c a then b else c) s.

(* ------------------------------------------------------------------ *)
(* Checker.check_language *)

Inductive lsource := SrcCommandLine | SrcPathname | SrcLanguageField | SrcPoedit.

Inductive ldiag :=
| DDupLanguage                                          (* duplicate-header-field-language *)
| DNoLanguageField (suggest : option language)          (* no-language-header-field [Language: ll] *)
| DInvalidLanguage (orig : list N) (corr : option language)   (* invalid-language orig [=> ll] *)
| DEncodingInField (orig : list N)                      (* encoding-in-language-header-field *)
| DVariantNoEffect (orig : list N)                      (* language-variant-does-not-affect-translation *)
| DDisparity (l : language) (src : lsource) (l2 : language) (src2 : lsource)   (* language-disparity *)
| DDupPoedit (country : bool)                           (* duplicate-header-field-x-poedit *)
| DUnknownPoedit (name : list N)                        (* unknown-poedit-language *)
| DUnable.                                              (* unable-to-determine-language *)

(* sorted(set(l)) for strings: insertion into a strictly increasing list *)
Fixpoint lg_ltb (a b : list N) : bool :=
  match a, b with
  | [], [] => false
  | [], _ :: _ => true
  | _ :: _, [] => false
  | x :: a', y :: b' => N.ltb x y || (N.eqb x y && lg_ltb a' b')
  end.
Fixpoint ins_sorted (x : list N) (l : list (list N)) : list (list N) :=
  match l with
  | [] => [x]
  | y :: r => if lg_eqb x y then l else if lg_ltb x y then x :: l else y :: ins_sorted x r
  end.
Definition sorted_set (l : list (list N)) : list (list N) := fold_right ins_sorted [] l.

(* the value of the Language field that is analysed: (duplicate tag, the single value if any, "duplicate_meta_language") *)
Definition field_value (metas : list (list N)) : list ldiag * option (list N) * bool :=
  let dup := Nat.ltb 1 (length metas) in
  let metas' := if dup then sorted_set metas else metas in
  let dupdiff := dup && Nat.ltb 1 (length metas') in
  ((if dup then [DDupLanguage] else []),
   match metas' with [m] => Some m | _ => None end,
   dupdiff).

(* language named by the directory above LC_MESSAGES: parse, fix_codes, remove_encoding, remove_nonlinguistic_modifier;
   a LanguageError means "no language" *)
Definition lang_from_dir (cfg : ling_cfg) (path : list N) : outcome (option language) ling_err :=
  match lcmessages_parent path with
  | None => Ok None
  | Some comp =>
    match parse_language comp with
    | Err _ => Ok None
    | Crash c => Crash c
    | Ok l =>
      match fix_codes cfg l with
      | Err _ => Ok None
      | Crash c => Crash c
      | Ok (l1, _) => Ok (Some (fst (remove_nonlinguistic_modifier (fst (remove_encoding l1)))))
      end
    end
  end.

(* language named by the base name of a path that ends with '.po' *)
Definition lang_from_basename (cfg : ling_cfg) (path : list N) : outcome (option language) ling_err :=
  match parse_language (po_stem path) with
  | Err _ => Ok None
  | Crash c => Crash c
  | Ok l =>
    if is_some (l_enc l) then Ok None else
    match fix_codes cfg l with
    | Err _ => Ok None
    | Crash c => Crash c
    | Ok (l1, _) => Ok (Some (fst (remove_nonlinguistic_modifier l1)))
    end
  end.

(* language, language_source, language_source_quality > 0   before the Language field is looked at *)
Definition external_language (cfg : ling_cfg) (opt : option language) (path : list N)
  : outcome (option (language * lsource * bool)) ling_err :=
  match opt with
  | Some l => Ok (Some (l, SrcCommandLine, true))
  | None =>
    do l1 <- lang_from_dir cfg path;
    match l1 with
    | Some l => Ok (Some (l, SrcPathname, true))
    | None =>
      if lg_endswith path s_dot_po then
        do l2 <- lang_from_basename cfg path;
        match l2 with
        | Some l => Ok (Some (l, SrcPathname, false))
        | None => Ok None
        end
      else Ok None
    end
  end.

Record field_result := {
  f_diags : list ldiag;
  f_lang : option language;      (* meta_language after the analysis *)
  f_entered : bool               (* the `if meta_language:` block with the LibreOffice test was executed *)
}.

(* analysis of the (single) Language field value *)
Definition field_language (cfg : ling_cfg) (meta : option (list N)) : outcome field_result ling_err :=
  match meta with
  | None => Ok {| f_diags := []; f_lang := None; f_entered := false |}
  | Some [] => Ok {| f_diags := []; f_lang := None; f_entered := false |}
  | Some o =>
    do step1 <-
      match parse_language o with
      | Ok l => Ok ([], Some l)
      | Crash c => Crash c
      | Err _ =>
        match get_language_for_name cfg o with
        | Ok l => Ok ([DInvalidLanguage o (Some l)], Some l)
        | Err _ => Ok ([DInvalidLanguage o None], None)
        | Crash c => Crash c
        end
      end;
    let '(d1, ml) := step1 in
    match ml with
    | None => Ok {| f_diags := d1; f_lang := None; f_entered := false |}
    | Some l =>
      let '(l1, b1) := remove_encoding l in
      let '(l2, b2) := remove_nonlinguistic_modifier l1 in
      let d2 := (if b1 then [DEncodingInField o] else []) ++ (if b2 then [DVariantNoEffect o] else []) in
      match fix_codes cfg l2 with
      | Ok (l3, true) => Ok {| f_diags := d1 ++ d2 ++ [DInvalidLanguage o (Some l3)]; f_lang := Some l3; f_entered := true |}
      | Ok (l3, false) => Ok {| f_diags := d1 ++ d2; f_lang := Some l3; f_entered := true |}
      | Err _ => Ok {| f_diags := d1 ++ d2 ++ [DInvalidLanguage o None]; f_lang := None; f_entered := true |}
      | Crash c => Crash c
      end
    end
  end.

(* f'/{meta_language}/' in self.path or f'/{meta_language}/'.replace('_', '-') in self.path *)
Definition path_names (path : list N) (m : language) : bool :=
  let s := 47 :: str_language m ++ [47] in
  lg_infix s path || lg_infix (replace_char 95 45 s) path.

(* the LibreOffice exception (`meta_language is not None and language_source_quality <= 0 and ...`):
   a language taken from the base name is dropped *)
Definition libreoffice_drop (path : list N) (ext : option (language * lsource * bool)) (fr : field_result)
  : option (language * lsource) :=
  match ext with
  | None => None
  | Some (l, src, q) =>
    if f_entered fr && match f_lang fr with Some m => negb q && path_names path m | None => false end
    then None else Some (l, src)
  end.

Definition merge_field (ext : option (language * lsource)) (ml : option language)
  : list ldiag * option (language * lsource) :=
  match ml with
  | None => ([], ext)
  | Some m =>
    match ext with
    | None => ([], Some (m, SrcLanguageField))
    | Some (l, src) =>
      ((if negb (lang_eqb l m) then [DDisparity l src m SrcLanguageField] else []), ext)
    end
  end.

Definition poedit_phase (cfg : ling_cfg) (pls pcs : list (list N)) (cur : option (language * lsource))
  : outcome (list ldiag * option (language * lsource)) ling_err :=
  let dl := Nat.ltb 1 (length pls) in
  let pls' := if dl then sorted_set pls else pls in
  let dc := Nat.ltb 1 (length pcs) in
  let pcs' := if dc then sorted_set pcs else pcs in
  let d0 := (if dl then [DDupPoedit false] else []) ++ (if dc then [DDupPoedit true] else []) in
  match pls' with
  | [name] =>
    if Nat.leb (length pcs') 1 then
      match get_language_for_name cfg name with
      | Err _ => Ok (d0 ++ [DUnknownPoedit name], cur)
      | Crash c => Crash c
      | Ok pl =>
        match cur with
        | None => Ok (d0, Some (pl, SrcPoedit))
        | Some (l, src) =>
          Ok (d0 ++ (if negb (lg_eqb (l_lang l) (l_lang pl)) then [DDisparity l src pl SrcPoedit] else []), cur)
        end
      end
    else Ok (d0, cur)
  | _ => Ok (d0, cur)
  end.

Definition final_diags (meta : option (list N)) (dupdiff : bool) (cur : option (language * lsource)) : list ldiag :=
  let nofield := match meta with None => true | Some [] => true | Some _ => false end && negb dupdiff in
  match cur with
  | None => (if nofield then [DNoLanguageField None] else []) ++ [DUnable]
  | Some (l, _) => if nofield then [DNoLanguageField (Some l)] else []
  end.

(* the tags in the order they are emitted, and ctx.language *)
Definition check_language (cfg : ling_cfg) (opt : option language) (path : list N)
           (metas pls pcs : list (list N)) (is_template : bool)
  : outcome (list ldiag * option language) ling_err :=
  let '(d0, meta, dupdiff) := field_value metas in
  if is_template then
    Ok (d0 ++ match meta with None => [DNoLanguageField None] | Some _ => [] end, None)
  else
  do ext <- external_language cfg opt path;
  do fr <- field_language cfg meta;
  let ext' := libreoffice_drop path ext fr in
  let '(d2, cur1) := merge_field ext' (f_lang fr) in
  do pr <- poedit_phase cfg pls pcs cur1;
  let '(d3, cur2) := pr in
  Ok (d0 ++ f_diags fr ++ d2 ++ d3 ++ final_diags meta dupdiff cur2, option_map fst cur2).

(* Target vocabulary of the source translator tools/gen/gen_messages_src.py (notes/SRC10.md): the hand-written
   Gallina meaning of the Python operations that occur in Checker.check_messages, _check_message_flags,
   _check_message_formats, _check_message_xml_format and is_header_entry of /repo/lib/check/__init__.py.
   Generated/MessagesSrc.v uses these definitions, the data types / oracles / regex scanners of Model/Messages.v
   (msg_entry, config, mdiag, cdiag; c_isword, c_xml; find_unusual, search_marker, xml_trigger) and nothing else of
   the model; Proofs/MessagesSrc*.v prove the generated functions equal to the model's check_flags, dispatch,
   xml_diags, check_entry, check_messages.  Definitions only. *)
From Coq Require Import List NArith ZArith Bool Permutation.
From I18n Require Import Lib.Outcome Model.IntExpr Model.PluralForms Model.Messages.
Import ListNotations.

(* ------------------------------------------------------------------ *)
(* for loops.  The body gets the loop-carried variables [st] and the element and returns (broke, st').
   py_for   : the body may raise (outcome)
   py_forb  : pure body with `break`
   a pure loop without `break` is a plain fold_left *)
Fixpoint py_for {S X} (l : list X) (s : S) (body : S -> X -> outcome (bool * S) Empty_set) : outcome S Empty_set :=
  match l with
  | [] => Ok s
  | x :: r => do bs <- body s x; if fst bs then Ok (snd bs) else py_for r (snd bs) body
  end.
Fixpoint py_forb {S X} (l : list X) (s : S) (body : S -> X -> bool * S) : S :=
  match l with
  | [] => s
  | x :: r => let bs := body s x in if fst bs then snd bs else py_forb r (snd bs) body
  end.
Definition py_fold {S X} (l : list X) (s : S) (body : S -> X -> S) : S := fold_left body l s.

(* the position of every element: the tags emitted while check_messages looks at the i-th entry of ctx.file are
   recorded as AtMsg i *)
Definition py_enumerate {X} (l : list X) : list (nat * X) := combine (seq 0 (length l)) l.

(* reading a local variable that is only assigned on some paths *)
Definition py_bound {A} (o : option A) : outcome A Empty_set :=
  match o with Some a => Ok a | None => Crash CUnboundLocal end.

(* ------------------------------------------------------------------ *)
(* equality and order of compound keys *)
Definition option_eqb {A} (eqb : A -> A -> bool) (a b : option A) : bool :=
  match a, b with
  | None, None => true
  | Some x, Some y => eqb x y
  | _, _ => false
  end.
Definition pair_eqb {A B} (ea : A -> A -> bool) (eb : B -> B -> bool) (a b : A * B) : bool :=
  ea (fst a) (fst b) && eb (snd a) (snd b).
Definition pair_cmp {A B} (ca : A -> A -> comparison) (cb : B -> B -> comparison) (a b : A * B) : comparison :=
  match ca (fst a) (fst b) with Eq => cb (snd a) (snd b) | c => c end.
Definition is_some {A} (o : option A) : bool := match o with Some _ => true | None => false end.
Definition is_none {A} (o : option A) : bool := match o with Some _ => false | None => true end.

(* ------------------------------------------------------------------ *)
(* sets: a list stands for the set of its elements (order and repetitions carry no meaning: only the operations
   below are applied to a set; ps_sorted and ps_len remove the repetitions first) *)
Definition ps_mem {A} (eqb : A -> A -> bool) (x : A) (s : list A) : bool := existsb (eqb x) s.
Definition ps_union {A} (a b : list A) : list A := a ++ b.                                   (* a | b *)
Definition ps_diff {A} (eqb : A -> A -> bool) (a b : list A) : list A :=                     (* a - b *)
  filter (fun x => negb (ps_mem eqb x b)) a.
Definition ps_inter {A} (eqb : A -> A -> bool) (a b : list A) : list A :=                    (* a & b *)
  filter (fun x => ps_mem eqb x b) a.
Definition ps_sorted {A} (cmp : A -> A -> comparison) (s : list A) : list A := sort_dedup cmp s.   (* sorted(s) *)
Definition ps_dedup {A} (eqb : A -> A -> bool) (s : list A) : list A :=
  fold_right (fun x acc => if ps_mem eqb x acc then acc else x :: acc) [] s.
Definition ps_len {A} (eqb : A -> A -> bool) (s : list A) : nat := length (ps_dedup eqb s).                  (* len(s) *)

(* ------------------------------------------------------------------ *)
(* dicts (dict, collections.Counter, collections.defaultdict): association lists, NEWEST assignment first;
   a lookup takes the first (= latest) binding of the key.  Iteration order (insertion order) is not represented:
   the translator only accepts sorted(d.items()), and order-insensitive uses of keys() / values(). *)
Definition pd_get {K V} (eqb : K -> K -> bool) (k : K) (d : list (K * V)) : option V :=
  match find (fun p => eqb (fst p) k) d with Some p => Some (snd p) | None => None end.
(* Counter()[k] (0 when missing, nothing is inserted); defaultdict(f)[k] when the insertion of the default is
   not observable (the translator rejects len / keys / values of a defaultdict after such a read) *)
Definition pd_getd {K V} (eqb : K -> K -> bool) (k : K) (dflt : V) (d : list (K * V)) : V :=
  match pd_get eqb k d with Some v => v | None => dflt end.
(* d[k] of a plain dict *)
Definition pd_item {K V} (eqb : K -> K -> bool) (k : K) (d : list (K * V)) : outcome V Empty_set :=
  match pd_get eqb k d with Some v => Ok v | None => Crash CKeyError end.
Definition pd_set {K V} (k : K) (v : V) (d : list (K * V)) : list (K * V) := (k, v) :: d.    (* d[k] = v *)
Definition pd_keys {K V} (d : list (K * V)) : list K := map fst d.                           (* the key set *)
(* sorted(d.items()): keys are distinct, so the pairs are ordered by key *)
Definition pd_items {K V} (cmp : K -> K -> comparison) (eqb : K -> K -> bool) (d : list (K * V)) : list (K * V) :=
  flat_map (fun k => match pd_get eqb k d with Some v => [(k, v)] | None => [] end) (sort_dedup cmp (map fst d)).
(* d.values(), as a bag (listed in key order): only for sum(), any(), all(), [x] = ... *)
Definition pd_values {K V} (cmp : K -> K -> comparison) (eqb : K -> K -> bool) (d : list (K * V)) : list V :=
  map snd (pd_items cmp eqb d).
Definition pd_len {K V} (eqb : K -> K -> bool) (d : list (K * V)) : nat := ps_len eqb (map fst d).
(* collections.Counter(l) *)
Definition py_counter {K} (eqb : K -> K -> bool) (l : list K) : list (K * nat) :=
  fold_left (fun c k => pd_set k (pd_getd eqb k 0 c + 1)%nat c) l [].

(* ------------------------------------------------------------------ *)
(* builtins that raise on unexpected sizes *)
Definition py_min {A} (ltb : A -> A -> bool) (l : list A) : outcome A Empty_set :=            (* min(l) *)
  match l with
  | [] => Crash CValueError
  | x :: r => Ok (fold_left (fun a b => if ltb b a then b else a) r x)
  end.
Definition py_two_smallest {A} (cmp : A -> A -> comparison) (s : list A) : outcome (A * A) Empty_set :=
  match sort_dedup cmp s with                       (* [a, b] = heapq.nsmallest(2, s) for a set s *)
  | a :: b :: _ => Ok (a, b)
  | _ => Crash CValueError
  end.
Definition py_single {A} (l : list A) : outcome A Empty_set :=                                 (* [x] = l *)
  match l with [x] => Ok x | _ => Crash CValueError end.
Definition py_sum (l : list nat) : nat := fold_right Nat.add 0%nat l.

(* ------------------------------------------------------------------ *)
(* str *)
Fixpoint py_lstrip (chars s : list N) : list N :=
  match s with c :: r => if memN c chars then py_lstrip chars r else s | [] => [] end.
Definition py_rstrip (chars s : list N) : list N := rev (py_lstrip chars (rev s)).          (* s.rstrip(chars) *)
Definition py_strip (chars s : list N) : list N := py_rstrip chars (py_lstrip chars s).      (* s.strip(chars) *)
(* s[k:-m] for a literal m > 0 (both ends clamp) *)
Definition py_slice_mid (k m : nat) (s : list N) : list N := firstn (length s - m - k) (skipn k s).
Definition py_truthy {A} (l : list A) : bool := negb (is_nil l).                            (* bool(s), bool(list) *)
Definition str_leb (a b : list N) : bool := negb (str_ltb b a).

(* int(s) for s matched by [0-9]+ : ValueError above sys.get_int_max_str_digits() digits *)
Definition py_int (maxd : N) (ds : list N) : outcome Z Empty_set :=
  if max_digits_ok maxd (N.of_nat (length ds)) then Ok (digits_value ds) else Crash CValueError.

(* re.match(r'\A([0-9]+)[.][.]([0-9]+)\Z', s): the two groups *)
Definition re_range (s : list N) : option (list N * list N) :=
  let '(d1, r1) := span is_digit s in
  if is_nil d1 then None else
  match r1 with
  | a :: b :: r2 =>
    if N.eqb a 46 && N.eqb b 46 then
      let '(d2, r3) := span is_digit r2 in
      if is_nil d2 || negb (is_nil r3) then None else Some (d1, d2)
    else None
  | _ => None
  end.

(* str.join(', ', (f'U+{ord(ch):04X} {encinfo.get_character_name(ch)}' for ch in l)): the text is represented by
   the list of characters it names; get_character_name raises ValueError for a control character without an entry
   in data/control-characters (Model/Messages.v name_ok) *)
Definition py_char_names (ctl : list N) (l : list N) : outcome (list N) Empty_set :=
  if forallb (name_ok ctl) l then Ok l else Crash CValueError.

(* ------------------------------------------------------------------ *)
(* the object returned by _check_message_flags (types.SimpleNamespace) *)
Record pyinfo := {
  pi_fuzzy : bool;
  pi_range_min : Z;
  pi_range_max : option Z;            (* None = 1e999 (+inf) *)
  pi_formats : list (list N)          (* a frozenset *)
}.

(* what the model's msg_entry abstracts of a polib entry, kept for the translation:
   message.msgstr_plural.values() in INSERTION order (me_msgstr_plural is in key order), and the three
   previous_* fields (me_previous only says whether any of them is set) *)
Record msg_view := {
  mv_values : list (list N);
  mv_prev_ctxt : option (list N);
  mv_prev_id : option (list N);
  mv_prev_plural : option (list N)
}.
Definition view_ok (p : msg_entry * msg_view) : Prop :=
  Permutation (mv_values (snd p)) (me_msgstr_plural (fst p)) /\
  me_previous (fst p) = is_some (mv_prev_ctxt (snd p)) || is_some (mv_prev_id (snd p)) || is_some (mv_prev_plural (snd p)).

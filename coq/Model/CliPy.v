(* Target vocabulary of the source translator tools/gen/gen_cli_src.py (notes/SRC15.md): definitions only.
   Generated/CliSrc.v imports only this file; Proofs/CliSrc.v proves the translated functions of lib/cli.py equal to
   Model/Cli.v.

   A statement of lib/cli.py is run for its effect on stdout and may raise: its meaning is [io A] = (what it wrote to
   stdout, in order; how it ended).  L is the unit of output (one printed line), X the exceptions of external code
   (subprocess, the real checker): both abstract.  str = list N (code points). *)
From Coq Require Import List NArith ZArith Bool.
Import ListNotations.

Definition str := list N.

Fixpoint str_eqb (a b : str) : bool :=
  match a, b with
  | [], [] => true
  | x :: a', y :: b' => N.eqb x y && str_eqb a' b'
  | _, _ => false
  end.

Fixpoint str_prefixb (p s : str) : bool :=
  match p, s with
  | [], _ => true
  | x :: p', y :: s' => N.eqb x y && str_prefixb p' s'
  | _ :: _, [] => false
  end.
(* s.endswith(suffix) *)
Definition str_endswith (s suffix : str) : bool := str_prefixb (rev suffix) (rev s).

Definition str_startswith_sep (s : str) : bool := match s with c :: _ => N.eqb c 47 | [] => false end.

(* posixpath.join(a, b):  b if b is absolute;  a + b if a is empty or ends with "/";  a + "/" + b otherwise.
   os.path.join(a, b, c) = join(join(a, b), c) *)
Definition path_join (a b : str) : str :=
  if str_startswith_sep b then b
  else match a with
       | [] => b
       | _ => if str_endswith a [47%N] then a ++ b else a ++ [47%N] ++ b
       end.

(* x in S  for a set of str (a set is represented by a list of its elements; only membership is observed) *)
Definition set_mem (x : str) (s : list str) : bool := existsb (str_eqb x) s.
Definition set_copy (s : list str) : list str := s.          (* set(S): a NEW set with the same elements *)
Definition set_add (x : str) (s : list str) : list str := x :: s.   (* S.add(x) on a set owned by the function *)

Inductive cexn (X : Type) := EUnsupportedFileType | EDataIntegrity | EValueError | EForeign (x : X).
Arguments EUnsupportedFileType {X}.
Arguments EDataIntegrity {X}.
Arguments EValueError {X}.
Arguments EForeign {X} x.
Inductive res (X A : Type) := Ret (a : A) | Raise (e : cexn X).
Arguments Ret {X A} a.
Arguments Raise {X A} e.
Definition io (L X A : Type) : Type := list L * res X A.

Definition io_ret {L X A} (a : A) : io L X A := ([], Ret a).
Definition io_raise {L X A} (e : cexn X) : io L X A := ([], Raise e).
Definition io_lift {L X A} (r : res X A) : io L X A := ([], r).
(* m ; k : the output of m, then (unless m raised) k *)
Definition io_bind {L X A B} (m : io L X A) (k : A -> io L X B) : io L X B :=
  match m with
  | (o, Ret a) => let '(o2, r) := k a in (o ++ o2, r)
  | (o, Raise e) => (o, Raise e)
  end.
(* print(s) / sys.stdout.write(s) *)
Definition io_write {L X} (o : list L) : io L X unit := (o, Ret tt).
(* try: return m  except E: h        (h continues with what follows the try statement) *)
Definition is_unsupported_file_type {X} (e : cexn X) : bool := match e with EUnsupportedFileType => true | _ => false end.
Definition io_try {L X A} (m : io L X A) (catches : cexn X -> bool) (h : io L X A) : io L X A :=
  match m with
  | (o, Raise e) => if catches e then let '(o2, r) := h in (o ++ o2, r) else m
  | _ => m
  end.
(* try: m  finally: c   /   with ... : m   (c = leaving the context) *)
Definition io_finally {L X A} (m : io L X A) (c : io L X unit) : io L X A :=
  match m, c with
  | (o, r), (o2, Ret _) => (o ++ o2, r)
  | (o, _), (o2, Raise e) => (o ++ o2, Raise e)
  end.
(* sys.stdout = io.StringIO(); try: m finally: sys.stdout = orig; return getvalue():
   what m writes is not written but returned; if m raises, the captured text is lost and the exception propagates *)
Definition io_capture {L X} (m : io L X unit) : io L X (list L) :=
  match m with
  | (o, Ret _) => ([], Ret o)
  | (_, Raise e) => ([], Raise e)
  end.

(* the options namespace after main() has normalised it.  o_rest: everything lib/cli.py only passes on
   (language, file_type, traceback) *)
Record options (O : Type) := mkOptions {
  o_unpack_deb : bool; o_jobs : Z; o_ignore_tags : list str; o_fake_root : option (str * str); o_rest : O }.
Arguments mkOptions {O}.
Arguments o_unpack_deb {O}.
Arguments o_jobs {O}.
Arguments o_ignore_tags {O}.
Arguments o_fake_root {O}.
Arguments o_rest {O}.

(* keyword arguments of copy_options(options, k=v, ...) *)
Inductive opt_update := UIgnoreTags (s : list str) | UFakeRoot (r : option (str * str)).
Definition apply_update {O} (o : options O) (u : opt_update) : options O :=
  match u with
  | UIgnoreTags s => mkOptions (o_unpack_deb o) (o_jobs o) s (o_fake_root o) (o_rest o)
  | UFakeRoot r => mkOptions (o_unpack_deb o) (o_jobs o) (o_ignore_tags o) r (o_rest o)
  end.
(* vars(ns) is the record itself; dict(d) is a copy (values are immutable here); d.update(u) on an owned dict;
   argparse.Namespace applied to the entries of d is the record again *)
Definition ns_vars {O} (o : options O) : options O := o.
Definition dict_copy {O} (d : options O) : options O := d.
Definition dict_update {O} (d : options O) (u : list opt_update) : options O := fold_left apply_update u d.
Definition ns_of_dict {O} (d : options O) : options O := d.

(* Executable model of the header checks of lib/check/__init__.py:
     gettext.parse_header / is_valid_field_name / search_for_conflict_marker   (lib/gettext.py)
     Checker.check_comments, check_headers, check_mime, check_project, check_translator
     domains.is_special_domain / is_email_in_special_domain / is_email_in_dotless_domain   (lib/domains.py)
   Library behaviour that the code calls is an oracle argument (record [oracles]):
     the re module's \w \d \s classes, str.lower, difflib.get_close_matches, email.utils.parseaddr,
     urllib.parse.urlparse(...).scheme (scheme / no scheme / ValueError), the encoding predicates of
     lib.encodings, Language.get_unrepresentable_characters.
   check_language, check_plurals, check_dates are other properties (C19, C07, C18) and are not modelled.
   Definitions only; text = list N of code points. *)
From Coq Require Import List NArith Bool.
From Coq Require String Ascii.
From I18n Require Import Lib.Outcome.
Import ListNotations.
Import String.StringSyntax.
Local Open Scope N_scope.

Definition str := list N.

(* string literals of the Python source *)
Definition lit (s : String.string) : str := map Ascii.N_of_ascii (String.list_ascii_of_string s).
Arguments lit s%string_scope.
(* the literal as a concrete list of code points, computed when the definition is elaborated
   (so the extracted code does not contain Coq's string type) *)
Notation "'LIT' s" := (ltac:(let v := eval vm_compute in (lit s) in exact v)) (at level 10, s at level 9, only parsing).

(* ------------------------------------------------------------------ *)
(* str primitives *)

Fixpoint str_eqb (a b : str) : bool :=
  match a, b with
  | [], [] => true
  | x :: a', y :: b' => N.eqb x y && str_eqb a' b'
  | _, _ => false
  end.

(* Python's str ordering: lexicographic by code point *)
Fixpoint str_cmp (a b : str) : comparison :=
  match a, b with
  | [], [] => Eq
  | [], _ :: _ => Lt
  | _ :: _, [] => Gt
  | x :: a', y :: b' => match N.compare x y with Eq => str_cmp a' b' | c => c end
  end.

Definition hmem (c : N) (s : str) : bool := existsb (N.eqb c) s.
Definition smem (x : str) (l : list str) : bool := existsb (str_eqb x) l.

Fixpoint hstrip_prefix (p s : str) : option str :=
  match p with
  | [] => Some s
  | c :: p' => match s with
               | d :: s' => if N.eqb c d then hstrip_prefix p' s' else None
               | [] => None
               end
  end.

Definition hstarts (p s : str) : bool := match hstrip_prefix p s with Some _ => true | None => false end.

(* s = r ++ p  ->  Some r *)
Definition hstrip_suffix (p s : str) : option str :=
  match hstrip_prefix (rev p) (rev s) with Some r => Some (rev r) | None => None end.

Definition nonempty (s : str) : bool := match s with [] => false | _ => true end.

Fixpoint hspan (p : N -> bool) (s : str) : str * str :=
  match s with
  | c :: r => if p c then let '(a, b) := hspan p r in (c :: a, b) else ([], s)
  | [] => ([], [])
  end.

Fixpoint hdropwhile (p : N -> bool) (s : str) : str :=
  match s with
  | c :: r => if p c then hdropwhile p r else s
  | [] => []
  end.

(* sorted(set(l)) for a list of strings *)
Fixpoint insert_u (x : str) (l : list str) : list str :=
  match l with
  | [] => [x]
  | y :: r => match str_cmp x y with
              | Lt => x :: l
              | Eq => l
              | Gt => y :: insert_u x r
              end
  end.
Definition sort_u (l : list str) : list str := fold_right insert_u [] l.

(* s.split(sep): at least one piece *)
Fixpoint split_on (sep : N) (s : str) : list str :=
  match s with
  | [] => [[]]
  | c :: r =>
    if N.eqb c sep then [] :: split_on sep r
    else match split_on sep r with
         | h :: t => (c :: h) :: t
         | [] => [[c]]
         end
  end.

(* s.split(sep, 1): None when sep does not occur *)
Fixpoint split_first (sep : N) (s : str) : option (str * str) :=
  match s with
  | [] => None
  | c :: r =>
    if N.eqb c sep then Some ([], r)
    else match split_first sep r with
         | Some (a, b) => Some (c :: a, b)
         | None => None
         end
  end.

(* s.rsplit(sep, 1)[1]: None when sep does not occur *)
Fixpoint after_last (sep : N) (s : str) : option str :=
  match s with
  | [] => None
  | c :: r =>
    match after_last sep r with
    | Some d => Some d
    | None => if N.eqb c sep then Some r else None
    end
  end.

(* str.splitlines() *)
Definition is_linebreak (c : N) : bool :=
  N.eqb c 10 || N.eqb c 13 || N.eqb c 11 || N.eqb c 12 || N.eqb c 28 || N.eqb c 29 || N.eqb c 30
  || N.eqb c 133 || N.eqb c 8232 || N.eqb c 8233.

Fixpoint splitlines_aux (cur : str) (s : str) : list str :=   (* cur: current line, reversed *)
  match s with
  | [] => match cur with [] => [] | _ => [rev cur] end
  | c :: r =>
    if is_linebreak c then
      rev cur :: match r with
                 | d :: r' => if N.eqb c 13 && N.eqb d 10 then splitlines_aux [] r' else splitlines_aux [] r
                 | [] => []
                 end
    else splitlines_aux (c :: cur) r
  end.
Definition splitlines (s : str) : list str := splitlines_aux [] s.

Definition in_rng (lo hi c : N) : bool := (lo <=? c) && (c <=? hi).
Definition is_blank_c (c : N) : bool := N.eqb c 32 || N.eqb c 9.
(* s.strip(' \t') *)
Definition strip_blank (s : str) : str := rev (hdropwhile is_blank_c (rev (hdropwhile is_blank_c s))).

Definition hd_opt (s : str) : option N := match s with c :: _ => Some c | [] => None end.
Definition opt_is (o : option N) (c : N) : bool := match o with Some x => N.eqb x c | None => false end.

(* ------------------------------------------------------------------ *)
(* oracles *)

Inductive url_result := UScheme | UNoScheme | URaise.      (* urlparse(s).scheme != '' / == '' / ValueError *)

Inductive enc_info :=
| EUnknown                                                   (* EncodingLookupError *)
| EKnown (ascii_compatible portable : bool) (proposal : option str).

Record oracles := {
  o_word : N -> bool;               (* re \w *)
  o_digit : N -> bool;              (* re \d *)
  o_space : N -> bool;              (* re \s *)
  o_lower : str -> str;             (* str.lower *)
  o_close_fuzzy : str -> bool;      (* bool(difflib.get_close_matches(s, ['fuzzy'], cutoff=0.8)) *)
  o_close_field : str -> option str;(* difflib.get_close_matches(s, header_fields, n=1, cutoff=0.8) *)
  o_parseaddr : str -> str;         (* email.utils.parseaddr(s)[1] *)
  o_urlscheme : str -> url_result;
  o_enc : str -> enc_info;          (* is_ascii_compatible_encoding(missing_ok=False) / is_portable_encoding / propose_portable_encoding *)
  o_unrep : str -> list str         (* ctx.language.get_unrepresentable_characters(enc) or [] (also when ctx.language is None) *)
}.

(* \b between two positions: exactly one side is a word character *)
Definition isw (O : oracles) (c : option N) : bool := match c with Some x => o_word O x | None => false end.
Definition wb (O : oracles) (prev next : option N) : bool := xorb (isw O prev) (isw O next).

(* regex.search: is there a position (previous character, rest of the string) where [m] matches? *)
Fixpoint search_pos (m : option N -> str -> bool) (prev : option N) (s : str) : bool :=
  m prev s || match s with c :: r => search_pos m (Some c) r | [] => false end.

(* ------------------------------------------------------------------ *)
(* gettext.parse_header *)

(* is_valid_field_name = ^[\x21-\x39\x3B-\x7E]+$ *)
Definition fname_char (c : N) : bool := in_rng 33 57 c || in_rng 59 126 c.
Definition valid_field_name (k : str) : bool := nonempty k && forallb fname_char k.

Inductive hline := HField (key value : str) | HStray (line : str).

Definition drop_last_empty (ls : list str) : list str :=
  match rev ls with
  | [] :: r => rev r
  | _ => ls
  end.

Definition header_lines (s : str) : list str := drop_last_empty (split_on 10 s).

Definition parse_line (line : str) : hline :=
  match split_first 58 line with
  | Some (key, value) => if valid_field_name key then HField key (strip_blank value) else HStray line
  | None => HStray line
  end.

Definition parse_header (s : str) : list hline := map parse_line (header_lines s).

Definition fields_of (ls : list hline) : list (str * str) :=
  flat_map (fun l => match l with HField k v => [(k, v)] | HStray _ => [] end) ls.
Definition strays_of (ls : list hline) : list str :=
  flat_map (fun l => match l with HField _ _ => [] | HStray s => [s] end) ls.

(* metadata[key] *)
Definition values_of (key : str) (fs : list (str * str)) : list str :=
  map snd (filter (fun kv => str_eqb (fst kv) key) fs).

(* search_for_conflict_marker = ^#-#-#-#-#  .+  #-#-#-#-#$ (MULTILINE) on a string without LF *)
Definition s_marker_l : str := LIT "#-#-#-#-#  ".
Definition s_marker_r : str := LIT "  #-#-#-#-#".
Definition is_conflict_marker (s : str) : bool :=
  match hstrip_prefix s_marker_l s with
  | Some r => match hstrip_suffix s_marker_r r with
              | Some mid => nonempty mid
              | None => false
              end
  | None => false
  end.

(* ------------------------------------------------------------------ *)
(* diagnostics *)

Inductive hfield := FMime | FCte | FContentType | FProject | FReport | FTranslator | FTeam.

Inductive diag :=
| DBoilerplateComment (line : str)                       (* boilerplate-in-initial-comments *)
| DDuplicateHeaderEntry
| DEmptyMsgidRefs (refs : list str)                      (* empty-msgid-message-with-source-code-references *)
| DEmptyMsgidPlural                                      (* empty-msgid-message-with-plural-forms *)
| DFuzzyHeader
| DUnexpectedFlag (flag : str) (hint : bool)             (* hint: '=>' 'fuzzy' *)
| DDuplicateFlag (flag : str)
| DDistantHeader
| DUnusualChars (chars : list N)                         (* unusual-character-in-header-entry, sorted set *)
| DConflictMarker (line : str)
| DStrayLine (line : str)
| DUnknownField (key : str) (hint : option str)
| DDuplicateField (key : str)                            (* duplicate-header-field <key> *)
| DDuplicateDedicated (f : hfield)                       (* duplicate-header-field-<f> *)
| DNoField (f : hfield)                                  (* no-<f>-header-field *)
| DInvalidMimeVersion (v : str)
| DInvalidCte (v : str)
| DInvalidContentType (v : str) (enc : option str)       (* hint text/plain; charset=<enc or "<encoding>"> *)
| DBoilerplateContentType (v : str)
| DUnknownEncoding (e : str)
| DNonAsciiCompatible (e : str)
| DNonPortable (e : str) (proposal : option str)
| DUnrepresentable (e : str) (chars : list str)
| DBoilerplateProject (v : str)
| DNoPackageName (v : str)
| DNoVersion (v : str)
| DInvalidReport (v : str)
| DBoilerplateReport (v : str)
| DInvalidTranslator (v : str)
| DBoilerplateTranslator (v : str)
| DInvalidTeam (v : str)
| DBoilerplateTeam (v : str)
| DTeamEqualsTranslator (team translator : str).

Definition field_name (f : hfield) : str :=
  match f with
  | FMime => LIT "MIME-Version"
  | FCte => LIT "Content-Transfer-Encoding"
  | FContentType => LIT "Content-Type"
  | FProject => LIT "Project-Id-Version"
  | FReport => LIT "Report-Msgid-Bugs-To"
  | FTranslator => LIT "Last-Translator"
  | FTeam => LIT "Language-Team"
  end.

(* ------------------------------------------------------------------ *)
(* check_comments *)

(* \bLIT\b at this position *)
Definition m_word_lit (O : oracles) (l : str) (prev : option N) (s : str) : bool :=
  match hstrip_prefix l s with
  | Some r => wb O prev (hd_opt l) && wb O (hd_opt (rev l)) (hd_opt r)
  | None => false
  end.

(* \bCopyright \S+ YEAR\b   (no backtracking is possible: a shorter \S+ would have to be followed by
   a space inside a run of non-spaces; U+0020 is \s) *)
Definition m_copyright_year (O : oracles) (prev : option N) (s : str) : bool :=
  match hstrip_prefix (LIT "Copyright ") s with
  | Some r =>
    wb O prev (Some 67) &&
    let '(run, r2) := hspan (fun c => negb (o_space O c)) r in
    nonempty run &&
    match hstrip_prefix (LIT " YEAR") r2 with
    | Some r3 => wb O (Some 82) (hd_opt r3)
    | None => false
    end
  | None => false
  end.

(* (?<=>), YEAR\b *)
Definition m_gt_year (O : oracles) (prev : option N) (s : str) : bool :=
  opt_is prev 62 &&
  match hstrip_prefix (LIT ", YEAR") s with
  | Some r => wb O (Some 82) (hd_opt r)
  | None => false
  end.

Definition m_plain (l : str) (prev : option N) (s : str) : bool := hstarts l s.

Definition comment_boilerplate_at (O : oracles) (template : bool) (prev : option N) (s : str) : bool :=
  m_word_lit O (LIT "PACKAGE package") prev s
  || m_copyright_year O prev s
  || m_word_lit O (LIT "THE PACKAGE'S COPYRIGHT HOLDER") prev s
  || (negb template &&
      (m_word_lit O (LIT "FIRST AUTHOR") prev s
       || m_plain (LIT "<EMAIL@ADDRESS>") prev s
       || m_gt_year O prev s)).

Definition comment_line_boilerplate (O : oracles) (template : bool) (line : str) : bool :=
  search_pos (comment_boilerplate_at O template) None line.

Definition check_comments (O : oracles) (template : bool) (comment : str) : list diag :=
  flat_map (fun line => if comment_line_boilerplate O template line then [DBoilerplateComment line] else [])
           (splitlines comment).

(* ------------------------------------------------------------------ *)
(* check_headers *)

Record entry := {
  e_header : bool;                 (* msgid == '' and msgctxt is None *)
  e_obsolete : bool;
  e_occurrences : list (str * str);
  e_has_plural : bool;             (* msgid_plural is not None *)
  e_msgstr : option str;
  e_plural0 : option str;          (* msgstr_plural.get(0) *)
  e_flags : list str
}.

Definition entry_msgstr (e : entry) : str :=
  match e_plural0 e with
  | Some s => s
  | None => match e_msgstr e with Some s => s | None => [] end
  end.

(* find_unusual_characters *)
Definition unusual_at (O : oracles) (prev : option N) (c : N) (next : option N) : bool :=
  in_rng 0 8 c || in_rng 11 26 c || in_rng 28 31 c
  || (N.eqb c 27 && negb (opt_is next 91))
  || N.eqb c 127
  || in_rng 128 159 c
  || N.eqb c 65279 || N.eqb c 65533 || N.eqb c 65534 || N.eqb c 65535
  || (N.eqb c 191 && isw O prev).

Fixpoint unusual_scan (O : oracles) (prev : option N) (s : str) : list N :=
  match s with
  | [] => []
  | c :: r => (if unusual_at O prev c (hd_opt r) then [c] else []) ++ unusual_scan O (Some c) r
  end.

(* sorted(set(...)) of characters *)
Definition unusual_chars (O : oracles) (s : str) : list N :=
  concat (sort_u (map (fun c => [c]) (unusual_scan O None s))).

Definition count_str (x : str) (l : list str) : nat := length (filter (str_eqb x) l).

Definition s_fuzzy : str := LIT "fuzzy".

Definition flag_diags (O : oracles) (template : bool) (flags : list str) : list diag :=
  flat_map (fun flag =>
    (if str_eqb flag s_fuzzy then (if template then [] else [DFuzzyHeader])
     else [DUnexpectedFlag flag (o_close_fuzzy O (o_lower O flag))])
    ++ (if Nat.ltb 1 (count_str flag flags) then [DDuplicateFlag flag] else []))
    (sort_u flags).

Definition header_entry_diags (O : oracles) (template : bool) (first : bool) (e : entry) : list diag :=
  (match e_occurrences e with
   | [] => []
   | occ => [DEmptyMsgidRefs (map (fun pl => fst pl ++ [58] ++ snd pl) occ)]
   end)
  ++ (if e_has_plural e then [DEmptyMsgidPlural] else [])
  ++ flag_diags O template (e_flags e)
  ++ (if first then [] else [DDistantHeader])
  ++ (match unusual_chars O (entry_msgstr e) with [] => [] | cs => [DUnusualChars cs] end).

Fixpoint stray_diags (seen : bool) (strays : list str) : list diag :=
  match strays with
  | [] => []
  | s :: r =>
    if is_conflict_marker s then (if seen then [] else [DConflictMarker s]) ++ stray_diags true r
    else DStrayLine s :: stray_diags seen r
  end.

Definition s_X : str := LIT "X-".
Definition s_x : str := LIT "x-".

(* header_fields_lc.get(key.lower()) *)
Definition lc_lookup (O : oracles) (known : list str) (key : str) : option str :=
  find (fun f => str_eqb (o_lower O f) (o_lower O key)) known.

Definition key_diags (O : oracles) (known dedicated : list str) (fs : list (str * str)) (key : str) : list diag :=
  (if hstarts s_X key || hstarts s_x key then []
   else if smem key known then []
   else
     let hint := match lc_lookup O known key with Some h => Some h | None => o_close_field O key end in
     let hint := match hint with
                 | Some h => if smem h (map fst fs) then None else Some h
                 | None => None
                 end in
     [DUnknownField key hint])
  ++ (if Nat.ltb 1 (length (values_of key fs)) && negb (smem key dedicated) then [DDuplicateField key] else []).

(* the live (non-obsolete) header entries with their position in the file *)
Fixpoint header_entries (first : bool) (es : list entry) : list (bool * entry) :=
  match es with
  | [] => []
  | e :: r => (if e_header e && negb (e_obsolete e) then [(first, e)] else []) ++ header_entries false r
  end.

(* returns (metadata, diagnostics) *)
Definition check_headers (O : oracles) (known dedicated : list str) (template : bool) (es : list entry)
  : list (str * str) * list diag :=
  match header_entries true es with
  | [] => ([], [])
  | (first, e) :: more =>
    let ls := parse_header (entry_msgstr e) in
    let fs := fields_of ls in
    (fs,
     header_entry_diags O template first e
     ++ (match more with [] => [] | _ => [DDuplicateHeaderEntry] end)
     ++ stray_diags false (strays_of ls)
     ++ flat_map (key_diags O known dedicated fs) (sort_u (map fst fs)))
  end.

(* ------------------------------------------------------------------ *)
(* check_mime *)

(* if len(vs) > 1: vs = sorted(set(vs)) *)
Definition many (vs : list str) : bool := Nat.ltb 1 (length vs).
Definition dedup (vs : list str) : list str := if many vs then sort_u vs else vs.

Definition s_text_plain : str := LIT "text/plain; ".
Definition s_charset : str := LIT "charset=".
Definition s_CHARSET : str := LIT "CHARSET".

(* [^\s;]+ up to \Z *)
Definition charset_token_ok (O : oracles) (tok : str) : bool :=
  nonempty tok && forallb (fun c => negb (o_space O c) && negb (N.eqb c 59)) tok.

(* \bcharset=([^\s;]+)\Z at this position *)
Definition m_charset (O : oracles) (prev : option N) (s : str) : option str :=
  match hstrip_prefix s_charset s with
  | Some tok => if wb O prev (hd_opt s) && charset_token_ok O tok then Some tok else None
  | None => None
  end.

Fixpoint charset_search (O : oracles) (prev : option N) (s : str) : option str :=
  match m_charset O prev s with
  | Some tok => Some tok
  | None => match s with c :: r => charset_search O (Some c) r | [] => None end
  end.

(* re.search(r'(\Atext/plain; )?\bcharset=([^\s;]+)\Z', ct): (group 1 matched, group 2) *)
Definition content_type_match (O : oracles) (ct : str) : option (bool * str) :=
  match (match hstrip_prefix s_text_plain ct with
         | Some r => m_charset O (Some 32) r
         | None => None
         end) with
  | Some tok => Some (true, tok)
  | None => match charset_search O None ct with
            | Some tok => Some (false, tok)
            | None => None
            end
  end.

Definition truncate_unrep (l : list str) : list str :=
  if Nat.ltb 5 (length l) then firstn 4 l ++ [LIT "..."] else l.

Definition content_type_diags (O : oracles) (template : bool) (ct : str) : list diag :=
  match content_type_match O ct with
  | None => [DInvalidContentType ct None]
  | Some (pref, enc) =>
    let '(ds, encoding) :=
      match o_enc O enc with
      | EUnknown =>
        ((if str_eqb enc s_CHARSET then (if template then [] else [DBoilerplateContentType ct])
          else [DUnknownEncoding enc]), None)
      | EKnown ac portable proposal =>
        let '(ds1, enc1) :=
          if negb ac then ([DNonAsciiCompatible enc], enc)
          else if portable then ([], enc)
          else match proposal with
               | Some ne => ([DNonPortable enc (Some ne)], ne)
               | None => ([DNonPortable enc None], enc)
               end in
        (ds1 ++ (match o_unrep O enc1 with [] => [] | l => [DUnrepresentable enc1 (truncate_unrep l)] end), Some enc1)
      end in
    ds ++ (if pref then [] else [DInvalidContentType ct encoding])
  end.

Definition s_1_0 : str := LIT "1.0".
Definition s_8bit : str := LIT "8bit".

Definition check_mime (O : oracles) (template : bool) (fs : list (str * str)) : list diag :=
  let mvs := values_of (field_name FMime) fs in
  let ctes := values_of (field_name FCte) fs in
  let cts := values_of (field_name FContentType) fs in
  (if many mvs then [DDuplicateDedicated FMime] else [])
  ++ flat_map (fun v => if str_eqb v s_1_0 then [] else [DInvalidMimeVersion v]) (dedup mvs)
  ++ (match dedup mvs with [] => [DNoField FMime] | _ => [] end)
  ++ (if many ctes then [DDuplicateDedicated FCte] else [])
  ++ flat_map (fun v => if str_eqb v s_8bit then [] else [DInvalidCte v]) (dedup ctes)
  ++ (match dedup ctes with [] => [DNoField FCte] | _ => [] end)
  ++ (if many cts then [DDuplicateDedicated FContentType] else [])
  ++ (match cts with
      | [] => [DNoField FContentType]
      | _ => flat_map (content_type_diags O template) (dedup cts)
      end).

(* ------------------------------------------------------------------ *)
(* lib/domains.py *)

(* fullmatch of  (.+[.])NAME : a non-empty prefix without LF, a dot, NAME *)
Definition is_subdomain_of (name d : str) : bool :=
  match hstrip_suffix (46 :: name) d with
  | Some pre => nonempty pre && negb (hmem 10 pre)
  | None => false
  end.

(* domains._is_special on an already lowercased domain *)
Definition is_special (exact_or_sub sub_only : list str) (d : str) : bool :=
  existsb (fun n => str_eqb d n || is_subdomain_of n d) exact_or_sub
  || existsb (fun n => is_subdomain_of n d) sub_only.

(* _, domain = email.rsplit('@', 1): ValueError when there is no '@' *)
Definition domain_of (email : str) : outcome str unit :=
  match after_last 64 email with
  | Some d => Ok d
  | None => Crash CValueError
  end.

Section WithTables.
Variable O : oracles.
Variable known dedicated exact_or_sub sub_only : list str.

Definition email_in_special_domain (email : str) : outcome bool unit :=
  do d <- domain_of email; Ok (is_special exact_or_sub sub_only (o_lower O d)).

Definition email_in_dotless_domain (email : str) : outcome bool unit :=
  do d <- domain_of email; Ok (negb (hmem 46 d)).

(* ------------------------------------------------------------------ *)
(* check_project *)

Fixpoint ocollect {A} (f : A -> outcome (list diag) unit) (l : list A) : outcome (list diag) unit :=
  match l with
  | [] => Ok []
  | x :: r => do a <- f x; do b <- ocollect f r; Ok (a ++ b)
  end.

Definition s_EMAIL_ADDRESS : str := LIT "EMAIL@ADDRESS".

(* [^_\d\W] somewhere; [0-9] somewhere *)
Definition has_name_char (v : str) : bool :=
  existsb (fun c => o_word O c && negb (o_digit O c) && negb (N.eqb c 95)) v.
Definition has_ascii_digit (v : str) : bool := existsb (in_rng 48 57) v.

Definition project_diags (v : str) : list diag :=
  if str_eqb v (LIT "PACKAGE VERSION") || str_eqb v (LIT "PROJECT VERSION") then [DBoilerplateProject v]
  else (if has_name_char v then [] else [DNoPackageName v])
       ++ (if has_ascii_digit v then [] else [DNoVersion v]).

Definition report_diags (v : str) : outcome (list diag) unit :=
  let email := o_parseaddr O v in
  if negb (hmem 64 email) then
    match o_urlscheme O v with
    | URaise => Ok [DInvalidReport v]             (* except ValueError: scheme = '' *)
    | UNoScheme => Ok [DInvalidReport v]
    | UScheme => Ok []
    end
  else
    do sp <- email_in_special_domain email;
    if sp then Ok [DInvalidReport v]
    else if str_eqb email s_EMAIL_ADDRESS then Ok [DBoilerplateReport v]
    else do dl <- email_in_dotless_domain email;
         Ok (if dl then [DInvalidReport v] else []).

(* if report_msgid_bugs_tos == ['']: report_msgid_bugs_tos = []   (after the sorted(set()) of duplicates) *)
Definition report_values (fs : list (str * str)) : list str :=
  match dedup (values_of (field_name FReport) fs) with [[]] => [] | l => l end.

Definition check_project (fs : list (str * str)) : outcome (list diag) unit :=
  let pivs := values_of (field_name FProject) fs in
  let rs := values_of (field_name FReport) fs in
  let rs' := report_values fs in
  do rd <- ocollect report_diags rs';
  Ok ((if many pivs then [DDuplicateDedicated FProject] else match pivs with [] => [DNoField FProject] | _ => [] end)
      ++ flat_map project_diags (dedup pivs)
      ++ (if many rs then [DDuplicateDedicated FReport] else [])
      ++ (match rs' with [] => [DNoField FReport] | _ => [] end)
      ++ rd).

(* ------------------------------------------------------------------ *)
(* check_translator *)

Definition translator_diags (template : bool) (v : str) : outcome (list diag) unit :=
  let email := o_parseaddr O v in
  if negb (hmem 64 email) then Ok [DInvalidTranslator v]
  else
    do sp <- email_in_special_domain email;
    if sp then Ok [DInvalidTranslator v]
    else if str_eqb email s_EMAIL_ADDRESS then Ok (if template then [] else [DBoilerplateTranslator v])
    else do dl <- email_in_dotless_domain email;
         Ok (if dl then [DInvalidTranslator v] else []).

(* translator_emails.get(email): the dict keeps the last translator (in sorted order) with that address *)
Definition translator_with_email (translators : list str) (email : str) : option str :=
  find (fun t => str_eqb (o_parseaddr O t) email) (rev translators).

Definition team_diags (template : bool) (translators : list str) (v : str) : outcome (list diag) unit :=
  let email := o_parseaddr O v in
  if negb (hmem 64 email) then Ok []
  else
    do sp <- email_in_special_domain email;
    if sp then Ok [DInvalidTeam v]
    else if str_eqb email (LIT "LL@li.org") || str_eqb email s_EMAIL_ADDRESS then
      Ok (if template then [] else [DBoilerplateTeam v])
    else do dl <- email_in_dotless_domain email;
         if dl then Ok [DInvalidTeam v]
         else Ok (match translator_with_email translators email with
                  | Some t => [DTeamEqualsTranslator v t]
                  | None => []
                  end).

Definition check_translator (template : bool) (fs : list (str * str)) : outcome (list diag) unit :=
  let trs := values_of (field_name FTranslator) fs in
  let teams := values_of (field_name FTeam) fs in
  do td <- ocollect (translator_diags template) (dedup trs);
  do md <- ocollect (team_diags template (dedup trs)) (dedup teams);
  Ok ((if many trs then [DDuplicateDedicated FTranslator] else match trs with [] => [DNoField FTranslator] | _ => [] end)
      ++ td
      ++ (if many teams then [DDuplicateDedicated FTeam] else match teams with [] => [DNoField FTeam] | _ => [] end)
      ++ md).

(* ------------------------------------------------------------------ *)
(* Checker.check, restricted to the modelled methods, in call order *)

Record hinput := {
  h_template : bool;       (* ctx.is_template *)
  h_comment : str;         (* ctx.file.header *)
  h_entries : list entry   (* ctx.file *)
}.

Definition hdr_check (inp : hinput) : outcome (list diag) unit :=
  let t := h_template inp in
  let '(fs, hd) := check_headers O known dedicated t (h_entries inp) in
  do pd <- check_project fs;
  do td <- check_translator t fs;
  Ok (check_comments O t (h_comment inp) ++ hd ++ check_mime O t fs ++ pd ++ td).

End WithTables.

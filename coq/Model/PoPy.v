(* Target vocabulary of the source translator tools/gen/gen_polib_src.py (notes/SRC13.md): the hand-written meaning of the
   Python operations that Generated/PolibSrc.v mentions.  Definitions only.

   The regular-expression engine is the one of the model: each pattern of lib/polib4us.py is read by a hand-written scanner of
   Model/PoUnescape.v / Model/PoLexer.v.  [re_sub_cb], [re_sub_tpl], [re_findall], [re_match_b] take the pattern TEXT (as
   sre_parse reads it: for re.VERBOSE without the ignored white space) and apply the scanner written for that text; for any
   other text they have no meaning (an arbitrary value), so nothing can be proved about a pattern the model has no scanner for. *)
From Coq Require Import List NArith Bool.
From I18n Require Import Lib.Outcome Model.PoUnescape Model.PoParser Model.PoLexer.
Import ListNotations.
Local Open Scope N_scope.

(* the pattern texts the scanners were written for *)
Definition re_escapes_text : str :=     (* (\\(?:[ntbrfva]|\\|DQUOTE|[0-9]{1,3}|x[0-9a-fA-F]+))+        scanner: escape_len, iterated *)
  [40; 92; 92; 40; 63; 58; 91; 110; 116; 98; 114; 102; 118; 97; 93; 124; 92; 92; 124; 34; 124; 91; 48; 45; 57; 93; 123; 49; 44; 51; 125;
   124; 120; 91; 48; 45; 57; 97; 45; 102; 65; 45; 70; 93; 43; 41; 41; 43].
Definition re_long_x_text : str :=      (* \\x[0-9a-fA-F]*([0-9a-fA-F]{2})     scanner: long_x_at / fixup_long *)
  [92; 92; 120; 91; 48; 45; 57; 97; 45; 102; 65; 45; 70; 93; 42; 40; 91; 48; 45; 57; 97; 45; 102; 65; 45; 70; 93; 123; 50; 125; 41].
Definition re_long_x_repl : str := [92; 92; 120; 92; 49].              (* \\x\1 *)
Definition re_short_x_text : str :=     (* \\x([0-9a-fA-F])(?=\\|$)            scanner: short_x_at / fixup *)
  [92; 92; 120; 40; 91; 48; 45; 57; 97; 45; 102; 65; 45; 70; 93; 41; 40; 63; 61; 92; 92; 124; 36; 41].
Definition re_short_x_repl : str := [92; 92; 120; 48; 92; 49].         (* \\x0\1 *)
Definition re_iterlines_text : str :=   (* [^\n]*(?:\n|\Z)                     scanner: iterlines *)
  [91; 94; 92; 110; 93; 42; 40; 63; 58; 92; 110; 124; 92; 90; 41].
Definition re_atypical_text : str :=    (* #[^ .:,|~]                          scanner: atypical_comment *)
  [35; 91; 94; 32; 46; 58; 44; 124; 126; 93].

(* R.sub(template, s) *)
Definition re_sub_tpl (pat repl s : str) : str :=
  if list_eqb pat re_long_x_text && list_eqb repl re_long_x_repl then fixup_long s 0
  else if list_eqb pat re_short_x_text && list_eqb repl re_short_x_repl then fixup s 0
  else [].
(* R.findall(s) *)
Definition re_findall (pat s : str) : list str :=
  if list_eqb pat re_iterlines_text then iterlines s else [].
(* the truth value of R.match(s) *)
Definition re_match_b (pat s : str) : bool :=
  list_eqb pat re_atypical_text && atypical_comment s.

(* The monad of the callback of polib_unescape: a value and "CPython printed a SyntaxWarning" (D14), or an exception. *)
Definition wres (A : Type) : Type := outcome (A * bool) unesc_err.
Definition wret {A} (a : A) : wres A := Ok (a, false).
Definition wbind {A B} (x : wres A) (f : A -> wres B) : wres B :=
  do a <- x; do b <- f (fst a); Ok (fst b, snd a || snd b).

(* R.sub(callback, s) for a pattern of the shape (E)+ where [e] recognises one E at the head of a text (its length): the
   callback receives each maximal run of E's, left to right; the text between the runs is copied.  (The shape of
   Model/PoUnescape.unescape_go, with the callback as a parameter.) *)
Definition re_flush (cb : str -> wres str) (run : str) : wres str :=
  match run with [] => Ok ([], false) | _ => cb run end.
Fixpoint re_sub_runs (e : str -> option nat) (cb : str -> wres str) (s : str) (skip : nat) (run : str) : wres str :=
  match s with
  | [] => re_flush cb run
  | c :: r =>
    match skip with
    | S k => re_sub_runs e cb r k run
    | O =>
      match e s with
      | Some L => re_sub_runs e cb r (pred L) (run ++ firstn L s)
      | None =>
        do a <- re_flush cb run;
        do b <- re_sub_runs e cb r 0 [];
        Ok (fst a ++ c :: fst b, snd a || snd b)
      end
    end
  end.
Definition re_sub_cb (pat : str) (cb : str -> wres str) (s : str) : wres str :=
  if list_eqb pat re_escapes_text then re_sub_runs escape_len cb s 0 [] else Crash CNotImplemented.

(* ast.literal_eval of the bytes literal b'<s>': the model's evaluator of CPython's bytes literals *)
Definition py_literal_eval_bytes (s : str) : wres (list N) := lift_crash (bytes_eval s 0).
(* b.decode('ASCII'); None = UnicodeDecodeError *)
Definition py_decode_ascii (b : list N) : option str :=
  if forallb (fun c => c <? 128) b then Some b else None.
(* b.decode(<the encoding of the file>), uncaught *)
Definition py_decode_w (dec : list N -> option str) (b : list N) : wres str :=
  match dec b with Some t => Ok (t, false) | None => Err EDecode end.
(* b.decode(name), uncaught, in a function whose model calls UnicodeDecodeError [err] *)
Definition py_decode {E} (err : E) (dec : list N -> option str) (b : list N) : outcome str E :=
  match dec b with Some t => Ok t | None => Err err end.

(* x in {a, b, ..} on str *)
Definition str_in (x : str) (l : list str) : bool := existsb (list_eqb x) l.

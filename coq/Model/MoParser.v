(* Executable model of lib/moparser.py (Parser.__init__/_read_ints/_parse/_parse_entry), byte level.
   Bytes are [list N]; the file is the list of its bytes.  All integers that come from the file are [N] and are
   never turned into [nat].  Decoding of the byte strings with the chosen charset is not modelled: the model
   returns byte-level entries, the charset name it chose and the hidden-strings flag; the entries parsed before
   an error are returned too, so that a caller can place the decode step (an oracle) exactly where the code has it.
   Oracle: [asc] = encodings.is_ascii_compatible_encoding on the charset name. *)
From Coq Require Import List NArith Bool.
From I18n Require Import Lib.Outcome.
Import ListNotations.
Local Open Scope N_scope.

Definition bytes := list N.

(* ------------------------------------------------------------------ *)
(* memoryview primitives; indices are N, recursion is on the list *)

Fixpoint drop (n : N) (l : bytes) : bytes :=
  match l with
  | [] => []
  | _ :: r => if N.eqb n 0 then l else drop (N.pred n) r
  end.

Fixpoint take (n : N) (l : bytes) : bytes :=
  match l with
  | [] => []
  | x :: r => if N.eqb n 0 then [] else x :: take (N.pred n) r
  end.

Definition len (l : bytes) : N := N.of_nat (length l).

(* view[a:b] for 0 <= a <= b : clamps at the end of the view *)
Definition slice (f : bytes) (a b : N) : bytes := take (b - a) (drop a f).

(* view[i] : None = IndexError *)
Definition index (f : bytes) (i : N) : option N :=
  match drop i f with x :: _ => Some x | [] => None end.

Fixpoint bytes_eqb (a b : bytes) : bool :=
  match a, b with
  | [], [] => true
  | x :: a', y :: b' => N.eqb x y && bytes_eqb a' b'
  | _, _ => false
  end.

(* Python's  a < b  on bytes *)
Fixpoint bytes_ltb (a b : bytes) : bool :=
  match a, b with
  | _, [] => false
  | [], _ :: _ => true
  | x :: a', y :: b' => if N.ltb x y then true else if N.ltb y x then false else bytes_ltb a' b'
  end.

(* s.partition-like: first occurrence of sep *)
Fixpoint break (sep : N) (s : bytes) : option (bytes * bytes) :=
  match s with
  | [] => None
  | c :: r =>
    if N.eqb c sep then Some ([], r)
    else match break sep r with
         | Some (a, b) => Some (c :: a, b)
         | None => None
         end
  end.

(* s.split(sep, k) *)
Fixpoint splitn (k : nat) (sep : N) (s : bytes) : list bytes :=
  match k with
  | O => [s]
  | S k' => match break sep s with
            | None => [s]
            | Some (a, b) => a :: splitn k' sep b
            end
  end.

(* s.split(sep) *)
Fixpoint split_all (sep : N) (s : bytes) : list bytes :=
  match s with
  | [] => [[]]
  | c :: r =>
    if N.eqb c sep then [] :: split_all sep r
    else match split_all sep r with
         | h :: t => (c :: h) :: t
         | [] => [[c]]
         end
  end.

(* ------------------------------------------------------------------ *)
(* errors *)

Inductive mo_msg :=
| MMagic                 (* unexpected magic *)
| MMajor (n : N)         (* unexpected major revision number: n *)
| MTruncated             (* truncated file *)
| MIdNotTerminated       (* msgid is not null-terminated *)
| MStrNotTerminated      (* msgstr is not null-terminated *)
| MIdNul                 (* unexpected null byte in msgid *)
| MStrNul                (* unexpected null byte in msgstr *)
| MDuplicate             (* duplicate message definition *)
| MNotSorted.            (* messages are not sorted *)

Inductive mo_err := MoSyntax (m : mo_msg).

(* ------------------------------------------------------------------ *)
(* _read_ints: one bounds check for the whole read, then struct.unpack on the slice *)

Definition u32_of (be : bool) (b0 b1 b2 b3 : N) : N :=
  if be then ((b0 * 256 + b1) * 256 + b2) * 256 + b3
  else ((b3 * 256 + b2) * 256 + b1) * 256 + b0.

Definition unpack1 (be : bool) (s : bytes) : outcome N mo_err :=
  match s with
  | [b0; b1; b2; b3] => Ok (u32_of be b0 b1 b2 b3)
  | _ => Crash CStructError
  end.

Definition unpack2 (be : bool) (s : bytes) : outcome (N * N) mo_err :=
  match s with
  | [b0; b1; b2; b3; c0; c1; c2; c3] => Ok (u32_of be b0 b1 b2 b3, u32_of be c0 c1 c2 c3)
  | _ => Crash CStructError
  end.

Definition read_int (be : bool) (f : bytes) (at_ : N) : outcome N mo_err :=
  if N.ltb (len f) (at_ + 4) then Err (MoSyntax MTruncated)
  else unpack1 be (slice f at_ (at_ + 4)).

Definition read_int2 (be : bool) (f : bytes) (at_ : N) : outcome (N * N) mo_err :=
  if N.ltb (len f) (at_ + 8) then Err (MoSyntax MTruncated)
  else unpack2 be (slice f at_ (at_ + 8)).

(* ------------------------------------------------------------------ *)
(* the charset of the header mo_entry:  re.search(b'charset=([^ \t\n]+)', msgstr)  *)

Fixpoint strip_prefix (p s : bytes) : option bytes :=
  match p with
  | [] => Some s
  | c :: p' => match s with
               | d :: s' => if N.eqb c d then strip_prefix p' s' else None
               | [] => None
               end
  end.

Fixpoint span (p : N -> bool) (s : bytes) : bytes * bytes :=
  match s with
  | c :: r => if p c then let '(a, b) := span p r in (c :: a, b) else ([], s)
  | [] => ([], [])
  end.

Definition s_charset : bytes := [99; 104; 97; 114; 115; 101; 116; 61].   (* "charset=" *)
Definition is_blank (c : N) : bool := N.eqb c 32 || N.eqb c 9 || N.eqb c 10.
Definition non_blank (c : N) : bool := negb (is_blank c).

Definition cs_match_here (s : bytes) : option bytes :=
  match strip_prefix s_charset s with
  | None => None
  | Some r => match fst (span non_blank r) with
              | [] => None
              | name => Some name
              end
  end.

Fixpoint find_charset (s : bytes) : option bytes :=
  match cs_match_here s with
  | Some n => Some n
  | None => match s with
            | [] => None
            | _ :: r => find_charset r
            end
  end.

Definition ascii_name : bytes := [65; 83; 67; 73; 73].   (* 'ASCII' *)
Definition is_ascii (c : N) : bool := N.ltb c 128.

(* the  if i == 0:  block.  enc = self._encoding (the constructor's argument), msgid0 = msgids[0] *)
Definition choose_encoding (asc : bytes -> bool) (enc : option bytes) (msgid0 msgstr : bytes) : bytes :=
  let enc1 :=
    match enc with
    | Some e => Some e
    | None =>
      match msgid0 with
      | [] => match find_charset msgstr with
              | Some n => if forallb is_ascii n then Some n else None    (* .decode('ASCII') / except UnicodeError *)
              | None => None
              end
      | _ :: _ => None
      end
    end in
  match enc1 with
  | None => ascii_name
  | Some e => if asc e then e else ascii_name
  end.

(* ------------------------------------------------------------------ *)
(* entries *)

Record mo_entry := {
  e_ctxt : option bytes;
  e_id : bytes;
  e_plural : option bytes;      (* Some = msgid_plural given, e_strs are the msgstr[i] *)
  e_strs : list bytes           (* [msgstr] when e_plural = None *)
}.

(*  msgid, *msgctxt = msgid.split(b'\x04', 1)
    kwargs = dict(msgid=msgid ...);  if msgctxt: [msgctxt] = msgctxt; kwargs.update(msgctxt=msgctxt ...)
    key = msgctxt EOT msgid *)
Definition split_ctxt (msgid0 : bytes) : bytes * option bytes :=
  match break 4 msgid0 with
  | Some (a, b) => (b, Some a)
  | None => (msgid0, None)
  end.

Definition build_entry (msgid0 : bytes) (msgids : list bytes) (msgstr : bytes) (msgstrs : list bytes)
  : outcome mo_entry mo_err :=
  let '(id, ctxt) := split_ctxt msgid0 in
  match msgids with
  | [_] =>
    match msgstrs with
    | [s] => if bytes_eqb s msgstr      (* assert [msgstr] == msgstrs *)
             then Ok {| e_ctxt := ctxt; e_id := id; e_plural := None; e_strs := [msgstr] |}
             else Crash CAssertion
    | _ => Crash CAssertion
    end
  | [_; p] =>                            (* assert len(msgids) == 2 *)
    match msgstrs with
    | [] => Crash CAssertion             (* assert len(msgstrs) >= 1 *)
    | _ :: _ => Ok {| e_ctxt := ctxt; e_id := id; e_plural := Some p; e_strs := msgstrs |}
    end
  | _ => Crash CAssertion
  end.

(* [length, offset] = self._read_ints(at=.., n=2); s = view[offset:offset+length].tobytes();
   try: if view[offset + length] != b'\0': raise SyntaxError(msg)  except IndexError: raise SyntaxError('truncated file') *)
Definition read_string (be : bool) (f : bytes) (at_ : N) (msg : mo_msg) : outcome bytes mo_err :=
  do d <- read_int2 be f at_;
  let '(n, off) := d in
  let s := slice f off (off + n) in
  match index f (off + n) with
  | None => Err (MoSyntax MTruncated)                    (* except IndexError *)
  | Some t => if negb (N.eqb t 0) then Err (MoSyntax msg) else Ok s
  end.

(* _parse_entry from  msgstrs = msgstr.split(b'\0')  on; msgids = msgid0 :: rest (one or two elements) *)
Definition finish_entry (asc : bytes -> bool) (first : bool) (enc : option bytes) (last : option bytes)
           (msgid0 : bytes) (rest : list bytes) (msgstr : bytes) : outcome (mo_entry * bytes * bytes) mo_err :=
  let msgstrs := split_all 0 msgstr in
  match rest, msgstrs with
  | [], _ :: _ :: _ => Err (MoSyntax MStrNul)            (* len(msgids) == 1 and len(msgstrs) > 1 *)
  | _, _ =>
    do encoding <-
      (if first then Ok (choose_encoding asc enc msgid0 msgstr)
       else
         (* elif msgids == self._last_msgid: a list is compared with bytes: never equal, MDuplicate is never raised *)
         match last with
         | None => Crash CTypeError                      (* bytes < None *)
         | Some l =>
           if bytes_ltb msgid0 l then Err (MoSyntax MNotSorted)
           else match enc with
                | Some e => Ok e
                | None => Crash CAssertion               (* assert encoding is not None *)
                end
         end);
    do e <- build_entry msgid0 (msgid0 :: rest) msgstr msgstrs;
    Ok (e, encoding, msgid0)
  end.

(* _parse_entry(i, mo, so); first = (i == 0); enc = self._encoding; last = self._last_msgid.
   Returns the mo_entry, the new self._encoding and the new self._last_msgid. *)
Definition parse_entry (asc : bytes -> bool) (be : bool) (f : bytes) (first : bool)
           (enc : option bytes) (last : option bytes) (mo so : N)
  : outcome (mo_entry * bytes * bytes) mo_err :=
  do msgid <- read_string be f mo MIdNotTerminated;
  match splitn 2 0 msgid with
  | [] => Crash CIndexError                              (* msgids[0] *)
  | _ :: _ :: _ :: _ => Err (MoSyntax MIdNul)            (* len(msgids) > 2 *)
  | msgid0 :: rest =>
    do msgstr <- read_string be f so MStrNotTerminated;
    finish_entry asc first enc last msgid0 rest msgstr
  end.

(* the for-loop of _parse, from index i on.  fuel: one unit per completed iteration; [length f] suffices
   (Proofs: every completed iteration i needs 8*(i+1) <= len f).
   Result: entries appended so far, self._encoding at the end, and how the loop ended. *)
Fixpoint entries_loop (asc : bytes -> bool) (be : bool) (f : bytes) (fuel : nat) (i n mo so : N)
         (enc last : option bytes) : list mo_entry * option bytes * outcome unit mo_err :=
  if N.ltb i n then
    match parse_entry asc be f (N.eqb i 0) enc last (mo + 8 * i) (so + 8 * i) with
    | Ok (e, enc', last') =>
      match fuel with
      | O => ([e], Some enc', Crash COutOfFuel)
      | S k =>
        let '(es, encf, r) := entries_loop asc be f k (i + 1) n mo so (Some enc') (Some last') in
        (e :: es, encf, r)
      end
    | Err x => ([], enc, Err x)
    | Crash c => ([], enc, Crash c)
    end
  else ([], enc, Ok tt).

Definition le_magic : bytes := [222; 18; 4; 149].
Definition be_magic : bytes := [149; 4; 18; 222].

Record mo_header := {
  h_be : bool;
  h_n : N;
  h_hidden : bool;
  h_otab : N;
  h_ttab : N
}.

(* _parse up to the loop *)
Definition parse_header (f : bytes) : outcome mo_header mo_err :=
  let magic := slice f 0 4 in
  do be <- (if bytes_eqb magic le_magic then Ok false
            else if bytes_eqb magic be_magic then Ok true
            else Err (MoSyntax MMagic));
  do revision <- read_int be f 4;
  let major := revision / 65536 in
  let minor := revision mod 65536 in
  if N.ltb 1 major then Err (MoSyntax (MMajor major)) else
  do n <- read_int be f 8;
  do hidden <- (if N.ltb 1 minor then Ok true
                else if N.eqb minor 1 then (do ns <- read_int be f 36; Ok (N.ltb 0 ns))
                else Ok false);
  do tabs <- read_int2 be f 12;
  let '(otab, ttab) := tabs in
  Ok {| h_be := be; h_n := n; h_hidden := hidden; h_otab := otab; h_ttab := ttab |}.

(* Parser(path, encoding=enc0): entries appended before the end, self._encoding, outcome (hidden flag) *)
Definition mo_run (asc : bytes -> bool) (enc0 : option bytes) (f : bytes)
  : list mo_entry * option bytes * outcome bool mo_err :=
  match parse_header f with
  | Err x => ([], enc0, Err x)
  | Crash c => ([], enc0, Crash c)
  | Ok h =>
    let '(es, enc, r) := entries_loop asc (h_be h) f (length f) 0 (h_n h) (h_otab h) (h_ttab h) enc0 None in
    (es, enc, match r with Ok _ => Ok (h_hidden h) | Err x => Err x | Crash c => Crash c end)
  end.

Record mo_out := {
  o_entries : list mo_entry;
  o_charset : option bytes;      (* None only when there is no mo_entry and no encoding was given *)
  o_hidden : bool
}.

Definition mo_parse (asc : bytes -> bool) (enc0 : option bytes) (f : bytes) : outcome mo_out mo_err :=
  match mo_run asc enc0 f with
  | (es, enc, Ok h) => Ok {| o_entries := es; o_charset := enc; o_hidden := h |}
  | (_, _, Err x) => Err x
  | (_, _, Crash c) => Crash c
  end.

(* ------------------------------------------------------------------ *)
(* with the codec as an oracle: [dec cs s] = s.decode(cs) succeeds (false = UnicodeDecodeError).
   Strings are decoded mo_entry by mo_entry, in the order of the code, before the next mo_entry is read. *)

Definition entry_strings (e : mo_entry) : list bytes :=
  e_id e :: (match e_ctxt e with Some c => [c] | None => [] end)
         ++ (match e_plural e with Some p => [p] | None => [] end) ++ e_strs e.

Inductive load_err :=
| LSyntax (m : mo_msg)           (* moparser.SyntaxError *)
| LDecode (s : bytes).           (* UnicodeDecodeError, .object = s *)

Definition mo_load (asc : bytes -> bool) (dec : bytes -> bytes -> bool) (enc0 : option bytes) (f : bytes)
  : outcome mo_out load_err :=
  let '(es, enc, r) := mo_run asc enc0 f in
  let cs := match enc with Some c => c | None => ascii_name end in
  match find (fun s => negb (dec cs s)) (concat (map entry_strings es)) with
  | Some s => Err (LDecode s)
  | None =>
    match r with
    | Ok h => Ok {| o_entries := es; o_charset := enc; o_hidden := h |}
    | Err (MoSyntax m) => Err (LSyntax m)
    | Crash c => Crash c
    end
  end.

(* Checker.check, the part around polib.mofile: first attempt with encoding=None; on UnicodeDecodeError the
   broken-encoding tag and a second attempt with ISO-8859-1; moparser.SyntaxError (from either attempt) gives
   invalid-mo-file and nothing else is derived from the file. *)
Inductive mo_tag := TInvalidMoFile (m : mo_msg) | TBrokenEncoding (s : bytes).
Definition latin1_name : bytes := [73; 83; 79; 45; 56; 56; 53; 57; 45; 49].   (* 'ISO-8859-1' *)

Definition checker_load (asc : bytes -> bool) (dec : bytes -> bytes -> bool) (f : bytes)
  : outcome (list mo_tag * option mo_out) load_err :=
  match mo_load asc dec None f with
  | Ok o => Ok ([], Some o)
  | Err (LSyntax m) => Ok ([TInvalidMoFile m], None)
  | Crash c => Crash c
  | Err (LDecode s) =>
    match mo_load asc dec (Some latin1_name) f with
    | Ok o => Ok ([TBrokenEncoding s], Some o)
    | Err (LSyntax m) => Ok ([TInvalidMoFile m; TBrokenEncoding s], None)   (* except ...: tag; the finally: block adds broken-encoding *)
    | Err (LDecode s') => Err (LDecode s')                                  (* escapes: not caught a second time *)
    | Crash c => Crash c
    end
  end.

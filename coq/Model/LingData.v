(* The instance of the Ling model on the tables regenerated from /repo (Generated/IsoCodes.v);
   the Unicode folding of _munch_language_name stays an argument. *)
From Coq Require Import List NArith.
From I18n Require Import Model.Ling Generated.IsoCodes.

Definition gen_cfg (munch : list N -> list N) : ling_cfg :=
  {| cfg_iso639 := iso_639; cfg_iso3166 := iso_3166; cfg_names := name_to_code; cfg_munch := munch |}.

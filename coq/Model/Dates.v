(* Executable model of the date code of i18nspector:
     lib/gettext.py   fix_date_format, _parse_date, _search_for_date_boilerplate, parse_date, epoch
     lib/check/__init__.py   Checker.check_dates
   Text is list N (code points).  The two whitespace predicates (str.strip() and the regex class \s)
   and the zone table are ARGUMENTS (record env); the instance built from Generated/ is at the end.

   Regex semantics: the scanners below implement Python's backtracking order (greedy first, leftmost
   alternative first) without assuming anything about the whitespace predicate or the zone table:
   \s+ / \s* try the longest run first and give characters back one by one; the optional seconds are
   tried first, then skipped; the numeric zone is tried before the abbreviation; abbreviations are
   tried in table order (= order of the alternation built from the dict); `$` matches at the end and
   before a final newline.  Only the choices that are forced by the characters themselves
   ((?:GMT|UTC)?, :?) are written deterministically. *)
From Coq Require Import List ZArith NArith Bool.
From I18n Require Import Lib.Outcome Generated.Timezones Generated.DatesUcd.
Import ListNotations.

Record env := {
  sp_strip : N -> bool;                            (* chr(c).isspace(): what str.strip() removes *)
  sp_re : N -> bool;                               (* \s of a str pattern *)
  tz_table : list (list N * list (list N))         (* gettext._timezones, in dict order *)
}.

Inductive date_err := Boilerplate | Invalid.       (* BoilerplateDate | DateSyntaxError *)

(* ------------------------------------------------------------------ *)
(* small text library *)

Definition is_d (c : N) : bool := (N.leb 48 c && N.leb c 57)%bool.          (* [0-9]: ASCII only *)
Definition is_sign (c : N) : bool := (N.eqb c 43 || N.eqb c 45)%bool.        (* [+-] *)

Fixpoint list_eqb (a b : list N) : bool :=
  match a, b with
  | [], [] => true
  | x :: a', y :: b' => (N.eqb x y && list_eqb a' b')%bool
  | _, _ => false
  end.

Fixpoint strip_prefix (p s : list N) : option (list N) :=
  match p with
  | [] => Some s
  | c :: p' => match s with
               | d :: s' => if N.eqb c d then strip_prefix p' s' else None
               | [] => None
               end
  end.

Definition orelse {A} (x y : option A) : option A :=
  match x with Some _ => x | None => y end.

Fixpoint lstrip (sp : N -> bool) (s : list N) : list N :=
  match s with
  | c :: r => if sp c then lstrip sp r else s
  | [] => []
  end.

Definition strip (sp : N -> bool) (s : list N) : list N :=
  rev (lstrip sp (rev (lstrip sp s))).

(* `$` without re.MULTILINE *)
Definition at_dollar (s : list N) : bool :=
  match s with
  | [] => true
  | c :: r => match r with [] => N.eqb c 10 | _ :: _ => false end
  end.

(* fixed-shape pieces: a list of character classes *)
Inductive cc := CD | CS | CL (c : N).               (* [0-9] | [+-] | a literal *)

Definition cc_ok (k : cc) (c : N) : bool :=
  match k with CD => is_d c | CS => is_sign c | CL x => N.eqb c x end.

Fixpoint match_pat (p : list cc) (s : list N) : option (list N * list N) :=
  match p with
  | [] => Some ([], s)
  | k :: p' =>
    match s with
    | c :: s' =>
      if cc_ok k c then
        match match_pat p' s' with
        | Some (a, r) => Some (c :: a, r)
        | None => None
        end
      else None
    | [] => None
    end
  end.

Definition date_pat : list cc := [CD; CD; CD; CD; CL 45; CD; CD; CL 45; CD; CD].   (* [0-9]{4}-[0-9]{2}-[0-9]{2} *)
Definition time_pat : list cc := [CD; CD; CL 58; CD; CD].                          (* [0-9]{2}:[0-9]{2} *)
Definition sec_pat : list cc := [CL 58; CD; CD].                                   (* :[0-9]{2} *)
Definition zh_pat : list cc := [CS; CD; CD].                                       (* [+-][0-9]{2} *)
Definition zm_pat : list cc := [CD; CD].                                           (* [0-9]{2} *)

(* \s* k  and  \s+ k : greedy, giving back one character at a time *)
Fixpoint ws_star {A} (sp : N -> bool) (k : list N -> option A) (s : list N) : option A :=
  match s with
  | c :: r => if sp c then orelse (ws_star sp k r) (k s) else k s
  | [] => k s
  end.

Definition ws_plus {A} (sp : N -> bool) (k : list N -> option A) (s : list N) : option A :=
  match s with
  | c :: r => if sp c then ws_star sp k r else None
  | [] => None
  end.

(* ------------------------------------------------------------------ *)
(* _search_for_date_boilerplate:
     ^ YEAR - | - MO - | - DA \s | \s HO : | : MI (?:[+]|$) | [+] ZONE $          (.search) *)

Definition s_YEAR_ : list N := [89; 69; 65; 82; 45]%N.
Definition s_MO_ : list N := [45; 77; 79; 45]%N.
Definition s_DA : list N := [45; 68; 65]%N.
Definition s_HO_ : list N := [72; 79; 58]%N.
Definition s_MI : list N := [58; 77; 73]%N.
Definition s_ZONE : list N := [43; 90; 79; 78; 69]%N.

Definition starts_with (p s : list N) : bool :=
  match strip_prefix p s with Some _ => true | None => false end.

(* does some alternative match at this position?  first = we are at position 0 *)
Definition bp_at (sp : N -> bool) (first : bool) (s : list N) : bool :=
  (first && starts_with s_YEAR_ s)
  || starts_with s_MO_ s
  || match strip_prefix s_DA s with Some (c :: _) => sp c | _ => false end
  || match s with c :: r => sp c && starts_with s_HO_ r | [] => false end
  || match strip_prefix s_MI s with
     | Some r => match r with c :: _ => N.eqb c 43 | [] => false end || at_dollar r
     | None => false
     end
  || match strip_prefix s_ZONE s with Some r => at_dollar r | None => false end.

Fixpoint bp_from (sp : N -> bool) (first : bool) (s : list N) : bool :=
  bp_at sp first s ||
  match s with
  | _ :: r => bp_from sp false r
  | [] => false
  end.

Definition bp_search (sp : N -> bool) (s : list N) : bool := bp_from sp true s.

(* ------------------------------------------------------------------ *)
(* _parse_date (.match):
     ^ ([0-9]{4}-[0-9]{2}-[0-9]{2}) (?:\s+|T) ([0-9]{2}:[0-9]{2}) (?::[0-9]{2})? \s*
       (?: (?:GMT|UTC)? ([+-][0-9]{2}) :? ([0-9]{2}) | [+]? (ABBR|ABBR|...) )? $                     *)

Inductive zone_match :=
| ZNum (zh zm : list N)       (* groups 3 and 4 *)
| ZAbbr (a : list N)          (* group 5 *)
| ZNone.

Definition s_GMT : list N := [71; 77; 84]%N.
Definition s_UTC : list N := [85; 84; 67]%N.

(* (?:GMT|UTC)? ([+-][0-9]{2}) :? ([0-9]{2}) $
   Not skipping a present GMT/UTC leaves a letter where [+-] is required, and not taking a present
   ':' leaves ':' where a digit is required, so these two choices are forced. *)
Definition zone_num (s : list N) : option zone_match :=
  let s1 := match strip_prefix s_GMT s with
            | Some r => r
            | None => match strip_prefix s_UTC s with Some r => r | None => s end
            end in
  match match_pat zh_pat s1 with
  | None => None
  | Some (zh, s2) =>
    let s3 := match s2 with c :: r => if N.eqb c 58 then r else s2 | [] => s2 end in
    match match_pat zm_pat s3 with
    | None => None
    | Some (zm, s4) => if at_dollar s4 then Some (ZNum zh zm) else None
    end
  end.

(* (ABBR1|ABBR2|...) $ : the first abbreviation, in table order, after which `$` matches *)
Fixpoint find_abbr (t : list (list N * list (list N))) (s : list N) : option zone_match :=
  match t with
  | [] => None
  | (a, _) :: t' =>
    match strip_prefix a s with
    | Some r => if at_dollar r then Some (ZAbbr a) else find_abbr t' s
    | None => find_abbr t' s
    end
  end.

(* [+]? (ABBR...) $ *)
Definition zone_abbr (t : list (list N * list (list N))) (s : list N) : option zone_match :=
  orelse (match s with c :: r => if N.eqb c 43 then find_abbr t r else None | [] => None end)
         (find_abbr t s).

(* (?: numeric | abbreviation )? $ *)
Definition zone_opt (t : list (list N * list (list N))) (s : list N) : option zone_match :=
  orelse (orelse (zone_num s) (zone_abbr t s))
         (if at_dollar s then Some ZNone else None).

(* \s* (zone)? $ *)
Definition re_tail (E : env) (s : list N) : option zone_match :=
  ws_star (sp_re E) (zone_opt (tz_table E)) s.

(* ([0-9]{2}:[0-9]{2}) (?::[0-9]{2})? tail *)
Definition re_time (E : env) (s : list N) : option (list N * zone_match) :=
  match match_pat time_pat s with
  | None => None
  | Some (time, s3) =>
    match orelse (match match_pat sec_pat s3 with Some (_, s4) => re_tail E s4 | None => None end)
                 (re_tail E s3) with
    | Some z => Some (time, z)
    | None => None
    end
  end.

Definition parse_date_re (E : env) (s : list N) : option (list N * list N * zone_match) :=
  match match_pat date_pat s with
  | None => None
  | Some (date, s1) =>
    match orelse (ws_plus (sp_re E) (re_time E) s1)
                 (match s1 with c :: r => if N.eqb c 84 then re_time E r else None | [] => None end) with
    | Some (time, z) => Some (date, time, z)
    | None => None
    end
  end.

(* ------------------------------------------------------------------ *)
(* numbers and the calendar as CPython computes it (Modules/_datetimemodule.c: is_leap,
   days_before_year, days_before_month, ymd_to_ord, days_in_month) *)
Local Open Scope Z_scope.

Definition dval (c : N) : Z := Z.of_N c - 48.
Definition num (ds : list N) : Z := fold_left (fun a c => a * 10 + dval c) ds 0.

Definition py_is_leap (y : Z) : bool :=
  (y mod 4 =? 0) && (negb (y mod 100 =? 0) || (y mod 400 =? 0)).

Definition py_days_in_month (y m : Z) : Z :=
  if (m =? 2) && py_is_leap y then 29
  else nth (Z.to_nat m) [0; 31; 28; 31; 30; 31; 30; 31; 31; 30; 31; 30; 31] 0.

Definition py_days_before_year (y : Z) : Z :=
  let y1 := y - 1 in y1 * 365 + y1 / 4 - y1 / 100 + y1 / 400.

Definition py_days_before_month (y m : Z) : Z :=
  nth (Z.to_nat m) [0; 0; 31; 59; 90; 120; 151; 181; 212; 243; 273; 304; 334] 0
  + (if (2 <? m) && py_is_leap y then 1 else 0).

Definition ymd_to_ord (y m d : Z) : Z :=
  py_days_before_year y + py_days_before_month y m + d.

(* datetime(year, month, day, hour, minute) accepts *)
Definition civil_ok (y m d hh mi : Z) : bool :=
  (1 <=? y) && (y <=? 9999) && (1 <=? m) && (m <=? 12) && (1 <=? d) && (d <=? py_days_in_month y m)
  && (0 <=? hh) && (hh <=? 23) && (0 <=? mi) && (mi <=? 59).

Record stamp := { st_y : Z; st_m : Z; st_d : Z; st_hh : Z; st_mi : Z; st_off : Z }.   (* st_off: minutes east of UTC *)

(* minutes since 0001-01-01T00:00Z (what aware-datetime comparison compares, up to the common scale) *)
Definition stamp_minutes (t : stamp) : Z :=
  (ymd_to_ord (st_y t) (st_m t) (st_d t) - 1) * 1440 + st_hh t * 60 + st_mi t - st_off t.

(* gettext.epoch = datetime(1995, 7, 2, tzinfo=utc) *)
Definition epoch_stamp : stamp := {| st_y := 1995; st_m := 7; st_d := 2; st_hh := 0; st_mi := 0; st_off := 0 |}.
Definition epoch_minutes : Z := stamp_minutes epoch_stamp.

Definition non_ascii (s : list N) : bool := existsb (fun c => N.leb 128 c) s.

(* the %z part of strptime on exactly five characters: [+-]\d\d[0-5]\d, then timezone() demands |offset| < 24h.
   Result: Some offset-in-minutes *)
Definition zone5_offset (z : list N) : option Z :=
  match match_pat [CS; CD; CD; CD; CD] z with
  | Some (_, []) =>
    let sg := nth 0 z 0%N in
    let zh := num (firstn 2 (skipn 1 z)) in
    let zm := num (skipn 3 z) in
    if (zh <=? 23) && (zm <=? 59) then Some (if N.eqb sg 45 then - (zh * 60 + zm) else zh * 60 + zm)
    else None
  | _ => None
  end.

Definition canon16_pat : list cc := date_pat ++ [CL 32] ++ time_pat.

(* parse_date(s) = strptime(s, '%Y-%m-%d %H:%M%z') on the strings fix_date_format builds:
   "dddd-dd-dd dd:dd" followed by five ASCII characters.  Anything else is outside the modelled
   domain (Crash CNotImplemented, proved unreachable from fix_date / check_dates).
   On that domain strptime's regex can only read the fields at their full two-digit width
   (1[0-2]|0[1-9]|[1-9] etc. followed by the literal separators), so it succeeds iff
   01<=mm<=12, 01<=dd<=31, hh<=23, mi<=59, the zone is [+-]dd[0-5]d; then datetime() demands
   1<=year, day<=days_in_month, and timezone() demands zone hours <= 23. *)
Definition parse_date (s : list N) : outcome stamp date_err :=
  match match_pat canon16_pat s with
  | None => Crash CNotImplemented
  | Some (pre, z) =>
    if negb (Nat.eqb (length z) 5) || non_ascii z then Crash CNotImplemented else
    let y := num (firstn 4 pre) in
    let m := num (firstn 2 (skipn 5 pre)) in
    let d := num (firstn 2 (skipn 8 pre)) in
    let hh := num (firstn 2 (skipn 11 pre)) in
    let mi := num (firstn 2 (skipn 14 pre)) in
    match zone5_offset z with
    | None => Err Invalid
    | Some off =>
      if civil_ok y m d hh mi
      then Ok {| st_y := y; st_m := m; st_d := d; st_hh := hh; st_mi := mi; st_off := off |}
      else Err Invalid
    end
  end.

(* ------------------------------------------------------------------ *)
(* datetime.strptime(tz_hint, '%z'):  [+-]\d\d:?[0-5]\d(:?[0-5]\d(\.\d{1,6})?)?|Z  must match the
   whole string; colons must be used consistently; |offset| < 24 h.  Any failure is a ValueError that
   fix_date_format does not catch.  Modelled for ASCII hints (the tool passes only '-0000' or None);
   a non-ASCII hint is outside the modelled domain (\d is Unicode there). *)
Local Open Scope bool_scope.

Definition is_05 (c : N) : bool := N.leb 48 c && N.leb c 53.

Definition take_colon (s : list N) : bool * list N :=
  match s with c :: r => if N.eqb c 58 then (true, r) else (false, s) | [] => (false, s) end.

Definition hint_check (h : list N) : outcome unit date_err :=
  if non_ascii h then Crash CNotImplemented else
  if list_eqb h [90%N] then Ok tt else
  match match_pat zh_pat h with
  | None => Crash CValueError
  | Some (zh, r1) =>
    let '(c1, r2) := take_colon r1 in
    match r2 with
    | m1 :: m2 :: r3 =>
      if negb (is_05 m1 && is_d m2) then Crash CValueError else
      let hours_ok := (num (skipn 1 zh) <=? 23)%Z in
      match r3 with
      | [] => if hours_ok then Ok tt else Crash CValueError
      | _ :: _ =>
        let '(c2, r4) := take_colon r3 in
        match r4 with
        | s1 :: s2 :: r5 =>
          if negb (is_05 s1 && is_d s2) then Crash CValueError else
          if negb (Bool.eqb c1 c2) then Crash CValueError else
          match r5 with
          | [] => if hours_ok then Ok tt else Crash CValueError
          | dot :: ds =>
            if N.eqb dot 46 && forallb is_d ds && Nat.leb 1 (length ds) && Nat.leb (length ds) 6 && hours_ok
            then Ok tt else Crash CValueError
          end
        | _ => Crash CValueError
        end
      end
    | _ => Crash CValueError
    end
  end.

(* ------------------------------------------------------------------ *)
(* fix_date_format(s, tz_hint=hint) *)

Fixpoint lookup (t : list (list N * list (list N))) (a : list N) : option (list (list N)) :=
  match t with
  | [] => None
  | (k, v) :: t' => if list_eqb k a then Some v else lookup t' a
  end.

Definition fix_date (E : env) (hint : option (list N)) (s0 : list N) : outcome (list N) date_err :=
  let s := strip (sp_strip E) s0 in
  if bp_search (sp_re E) s then Err Boilerplate else
  do _ <- match hint with None => Ok tt | Some h => hint_check h end;
  match parse_date_re E s with
  | None => Err Invalid
  | Some (date, time, zm) =>
    do zone <- match zm with
               | ZNum zh zmin => Ok (zh ++ zmin)
               | ZAbbr a =>
                 match lookup (tz_table E) a with
                 | None => Crash CKeyError
                 | Some (z :: nil) => Ok z
                 | Some _ => Err Invalid            (* [zone] = ... -> ValueError -> DateSyntaxError *)
                 end
               | ZNone => match hint with Some h => Ok h | None => Err Invalid end
               end;
    let r := date ++ [32%N] ++ time ++ zone in
    if negb (Nat.eqb (length r) 21) then Crash CAssertion else
    do _ <- parse_date r;
    Ok r
  end.

(* ------------------------------------------------------------------ *)
(* Checker.check_dates *)

Inductive dtag :=
| TDuplicate                               (* duplicate-header-field-date <field> *)
| TNoField                                 (* no-date-header-field <field> *)
| TBoilerplate (d : list N)                (* boilerplate-in-date <field>: <date> *)
| TInvalid (d : list N)                    (* invalid-date <field>: <date> *)
| TInvalidFix (d fixed : list N)           (* invalid-date <field>: <date> => <fixed> *)
| TFuture (d : list N)                     (* date-from-future <field>: <date> *)
| TAncient (d : list N).                   (* ancient-date <field>: <date> *)

Definition boilerplate_date : list N :=     (* 'YEAR-MO-DA HO:MI+ZONE' *)
  [89; 69; 65; 82; 45; 77; 79; 45; 68; 65; 32; 72; 79; 58; 77; 73; 43; 90; 79; 78; 69]%N.
Definition s_publican : list N :=           (* 'application/x-publican;' *)
  [97; 112; 112; 108; 105; 99; 97; 116; 105; 111; 110; 47; 120; 45; 112; 117; 98; 108; 105; 99; 97; 110; 59]%N.
Definition hint_utc : list N := [45; 48; 48; 48; 48]%N.   (* '-0000' *)

Record dctx := { is_template : bool; is_binary : bool; is_publican : bool }.

Definition publican_of (content_types : list (list N)) : bool :=
  match content_types with ct :: _ => starts_with s_publican ct | [] => false end.

Definition us_per_minute : Z := 60000000.

(* the body of `for date in dates`; now = microseconds since 0001-01-01T00:00Z; is_po = the field is PO-Revision-Date *)
Definition check_one (E : env) (now : Z) (c : dctx) (is_po : bool) (date : list N) : outcome (list dtag) date_err :=
  if is_template c && is_po && list_eqb date boilerplate_date then Ok [] else
  let hint := if existsb (N.eqb 84) date && is_publican c then Some hint_utc else None in
  match fix_date E hint date with
  | Crash k => Crash k
  | Err Boilerplate => Ok [TBoilerplate date]
  | Err Invalid => Ok [TInvalid date]
  | Ok fixed =>
    match parse_date fixed with
    | Crash k => Crash k
    | Err e => Err e                      (* a DateSyntaxError here escapes check_dates (no try around the second parse_date) *)
    | Ok st =>
      Ok ((if list_eqb date fixed then [] else [TInvalidFix date fixed])
          ++ (if (now <? stamp_minutes st * us_per_minute)%Z then [TFuture date] else [])
          ++ (if (stamp_minutes st <? epoch_minutes)%Z then [TAncient date] else []))
    end
  end.

(* sorted(set(dates)): str order is code point order *)
Fixpoint str_cmp (a b : list N) : comparison :=
  match a, b with
  | [], [] => Eq
  | [], _ :: _ => Lt
  | _ :: _, [] => Gt
  | x :: a', y :: b' => match N.compare x y with Eq => str_cmp a' b' | o => o end
  end.

Fixpoint insert_uniq (x : list N) (l : list (list N)) : list (list N) :=
  match l with
  | [] => [x]
  | y :: r => match str_cmp x y with
              | Lt => x :: l
              | Eq => l
              | Gt => y :: insert_uniq x r
              end
  end.

Definition sorted_set (l : list (list N)) : list (list N) := fold_right insert_uniq [] l.

Fixpoint check_each (E : env) (now : Z) (c : dctx) (is_po : bool) (dates : list (list N)) : outcome (list dtag) date_err :=
  match dates with
  | [] => Ok []
  | d :: r =>
    do t1 <- check_one E now c is_po d;
    do t2 <- check_each E now c is_po r;
    Ok (t1 ++ t2)
  end.

(* one iteration of `for field in ...` *)
Definition check_field (E : env) (now : Z) (c : dctx) (is_po : bool) (dates : list (list N)) : outcome (list dtag) date_err :=
  match dates with
  | [] => if negb is_po && is_binary c then Ok [] else Ok [TNoField]
  | [_] => check_each E now c is_po dates
  | _ => do t <- check_each E now c is_po (sorted_set dates); Ok (TDuplicate :: t)
  end.

(* check_dates: (tags about POT-Creation-Date, tags about PO-Revision-Date) *)
Definition check_dates (E : env) (now : Z) (tmpl bin : bool) (content_types pot_dates po_dates : list (list N))
  : outcome (list dtag * list dtag) date_err :=
  let c := {| is_template := tmpl; is_binary := bin; is_publican := publican_of content_types |} in
  do a <- check_field E now c false pot_dates;
  do b <- check_field E now c true po_dates;
  Ok (a, b).

(* ------------------------------------------------------------------ *)
(* the instance read from /repo and the running interpreter *)
Definition in_points (pts : list N) (c : N) : bool := existsb (N.eqb c) pts.

Definition real_env : env :=
  {| sp_strip := in_points py_isspace_points; sp_re := in_points re_space_points; tz_table := timezones |}.

Definition fix_date_real := fix_date real_env.
Definition parse_date_re_real := parse_date_re real_env.
Definition bp_search_real := bp_search (sp_re real_env).
Definition strip_real := strip (sp_strip real_env).
Definition check_dates_real := check_dates real_env.
Definition ord_real (y m d : Z) : option Z := if civil_ok y m d 0 0 then Some (ymd_to_ord y m d) else None.

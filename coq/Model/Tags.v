(* Executable model of lib/tags.py: _is_safe, _escape (with Python's repr of str and bytes),
   safe_format for positional templates, Tag.get_priority, Tag.format.
   The Unicode predicate str.isprintable is an oracle argument [U]. *)
From Coq Require Import List NArith Bool.
Import ListNotations.
Local Open Scope N_scope.

Definition in_range (lo hi c : N) : bool := (lo <=? c) && (c <=? hi).

(* _is_safe = re.compile(r'\A[A-Za-z0-9_.!<>=-]+\Z').match *)
Definition safe_char (c : N) : bool :=
  in_range 65 90 c || in_range 97 122 c || in_range 48 57 c
  || N.eqb c 95 || N.eqb c 46 || N.eqb c 33 || N.eqb c 60 || N.eqb c 62 || N.eqb c 61 || N.eqb c 45.
Definition is_safe (s : list N) : bool :=
  match s with [] => false | _ => forallb safe_char s end.

Definition hexdigit (d : N) : N := if d <? 10 then 48 + d else 87 + d.   (* lowercase *)
Definition hex2 (c : N) : list N := [hexdigit (c / 16 mod 16); hexdigit (c mod 16)].
Definition hex4 (c : N) : list N := hex2 (c / 256 mod 256) ++ hex2 (c mod 256).
Definition hex8 (c : N) : list N := hex4 (c / 65536 mod 65536) ++ hex4 (c mod 65536).

Definition mem (c : N) (s : list N) : bool := existsb (N.eqb c) s.

(* the quote character repr chooses *)
Definition repr_quote (s : list N) : N := if mem 39 s && negb (mem 34 s) then 34 else 39.

Definition repr_str_char (U : N -> bool) (q c : N) : list N :=
  if N.eqb c q || N.eqb c 92 then [92; c]
  else if N.eqb c 9 then [92; 116]
  else if N.eqb c 10 then [92; 110]
  else if N.eqb c 13 then [92; 114]
  else if (c <? 32) || N.eqb c 127 then 92 :: 120 :: hex2 c
  else if c <? 127 then [c]
  else if U c then [c]
  else if c <=? 255 then 92 :: 120 :: hex2 c
  else if c <=? 65535 then 92 :: 117 :: hex4 c
  else 92 :: 85 :: hex8 c.

Definition repr_str (U : N -> bool) (s : list N) : list N :=
  let q := repr_quote s in q :: flat_map (repr_str_char U q) s ++ [q].

Definition repr_bytes_char (q c : N) : list N :=
  if N.eqb c q || N.eqb c 92 then [92; c]
  else if N.eqb c 9 then [92; 116]
  else if N.eqb c 10 then [92; 110]
  else if N.eqb c 13 then [92; 114]
  else if (c <? 32) || (127 <=? c) then 92 :: 120 :: hex2 c
  else [c].

(* repr(b)[1:] *)
Definition repr_bytes_tail (b : list N) : list N :=
  let q := repr_quote b in q :: flat_map (repr_bytes_char q) b ++ [q].

Inductive arg :=
| ASafe (s : list N)      (* tags.safestr: emitted verbatim *)
| AStr (s : list N)       (* str(x) of anything else *)
| ABytes (b : list N).

Definition s_empty : list N := [40;101;109;112;116;121;32;115;116;114;105;110;103;41].  (* "(empty string)" *)

Definition escape (U : N -> bool) (a : arg) : list N :=
  match a with
  | ASafe s => s
  | ABytes b => repr_bytes_tail b
  | AStr s => match s with
              | [] => s_empty
              | _ => if is_safe s then s else repr_str U s
              end
  end.

Fixpoint join (sep : list N) (l : list (list N)) : list N :=
  match l with
  | [] => []
  | [x] => x
  | x :: r => x ++ sep ++ join sep r
  end.

(* severities and certainties, in the order of the OrderedEnums *)
Inductive severity := Pedantic | Wishlist | Minor | Normal | Important | Serious.
Inductive certainty := WildGuess | Possible | Certain.
Definition sev_rank (s : severity) : N :=
  match s with Pedantic => 1 | Wishlist => 2 | Minor => 3 | Normal => 4 | Important => 5 | Serious => 6 end.
Definition cer_rank (c : certainty) : N :=
  match c with WildGuess => 1 | Possible => 2 | Certain => 3 end.

(* Tag.get_priority: 'P' 'I' 'W' 'E' *)
Definition priority (s : severity) (c : certainty) : N :=
  match s with
  | Pedantic => 80
  | Wishlist => 73
  | Minor => if cer_rank Certain <=? cer_rank c then 87 else 73
  | Normal => if cer_rank Possible <=? cer_rank c then 87 else 73
  | Important => if cer_rank Possible <=? cer_rank c then 69 else 87
  | Serious => 69
  end.

(* Tag.format(target, *extra, color) with color_on / color_off strings *)
Definition format_line (U : N -> bool) (prio : N) (target name on off : list N) (extra : list arg) : list N :=
  prio :: [58; 32] ++ target ++ [58; 32] ++ on ++ name ++ off ++
  match extra with
  | [] => []
  | _ => 32 :: join [32] (map (escape U) extra)
  end.

(* safe_format(template, *args, **kwargs): every positional and keyword argument goes through _escape; str.format (an
   oracle [fmt], whatever its result type) only ever receives the template and escaped text; kwargs = (name, value) pairs *)
Definition safe_format {R} (U : N -> bool) (fmt : list N -> list (list N) -> list (list N * list N) -> R)
    (template : list N) (args : list arg) (kwargs : list (list N * arg)) : R :=
  fmt template (map (escape U) args) (map (fun kv => (fst kv, escape U (snd kv))) kwargs).

(* Tag.get_colors: the attribute of terminal.colors chosen for a priority letter (None: KeyError) *)
Definition prio_colour (p : N) : option (list N) :=
  if N.eqb p 80 then Some [103;114;101;101;110]            (* P green *)
  else if N.eqb p 73 then Some [99;121;97;110]             (* I cyan *)
  else if N.eqb p 87 then Some [121;101;108;108;111;119]   (* W yellow *)
  else if N.eqb p 69 then Some [114;101;100]               (* E red *)
  else None.

(* ------------------------------------------------------------------ *)
(* Provenance of text that is emitted verbatim (tags.safestr values and safe_format templates);
   the terms are generated from the python ast by tools/gen/gen_callsites.py *)
Inductive prov :=
| PLit (s : list N)            (* a string literal in the source *)
| PCat (parts : list prov)     (* f-string / concatenation *)
| PTrusted (kind : list N)     (* whitelisted tool-generated value *)
| PTainted (src : list N).     (* anything else *)

Definition ascii_printable (c : N) : bool := in_range 32 126 c.

Fixpoint prov_ok (p : prov) : bool :=
  match p with
  | PLit s => forallb ascii_printable s
  | PCat ps => forallb prov_ok ps
  | PTrusted _ => true
  | PTainted _ => false
  end.

Definition in_ranges (rs : list (N * N)) (c : N) : bool :=
  existsb (fun r => (fst r <=? c) && (c <=? snd r)) rs.

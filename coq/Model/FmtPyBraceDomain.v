(* The domain of the second clause of C13 (flat fields, format specs outside defect D24), as executable predicates on
   what the model's scanner finds.  Kept with the models because it is extracted and compared with the harness's
   independent reading of "flat" on every run. *)
From Coq Require Import List NArith ZArith Bool.
From I18n Require Import Lib.Outcome Model.FmtPyBrace.
Import ListNotations.
Local Open Scope N_scope.

(* D24: "," with b c o x X, or a sign / "#" with c *)
Definition d24_bad (ty : option N) (alt sgn comma : bool) : bool :=
  match ty with
  | Some c => (comma && FmtPyBrace.in_chars c [98; 99; 111; 120; 88]) || ((sgn || alt) && (c =? 99))
  | None => false
  end.


(* the guard that excludes D24: no "," with b c o x X, no sign or "#" with c *)
Definition spec_guard (U : ucd) (tl : list N) : bool :=
  match m_format_spec U tl with
  | Some m => negb (d24_bad (sp_type m) (sp_alt m) (FmtPyBrace.is_some (sp_sign m)) (sp_comma m))
  | None => true
  end.


(* a field without attribute / index access and without nested fields *)
Definition no_dot_bracket (n : list N) : bool := forallb (fun c => negb ((c =? 46) || (c =? 91))) n.

Definition flat_field (f : field_match) : bool :=
  (match f_nested f with [] => true | _ => false end) &&
  (match f_name f with Some n => no_dot_bracket n | None => true end).


Section Domain.
Variable U : ucd.

(* the domain of the theorem: every field is flat and its format spec is outside D24 *)
Definition field_guard (f : field_match) : bool :=
  flat_field f && match f_fmt f with Some (_ :: tl) => spec_guard U tl | _ => true end.

Fixpoint flat_guard (fuel : nat) (s : list N) : bool :=
  match fuel with
  | O => true
  | S fuel' =>
    match s with
    | [] => true
    | _ :: _ =>
      match m_field_re U s with
      | Some (BLit _, rest) => flat_guard fuel' rest
      | Some (BField f, rest) => field_guard f && flat_guard fuel' rest
      | None => true
      end
    end
  end.

(* the flat part alone *)
Fixpoint all_flat (fuel : nat) (s : list N) : bool :=
  match fuel with
  | O => true
  | S fuel' =>
    match s with
    | [] => true
    | _ :: _ =>
      match m_field_re U s with
      | Some (BLit _, rest) => all_flat fuel' rest
      | Some (BField f, rest) => flat_field f && all_flat fuel' rest
      | None => true
      end
    end
  end.

End Domain.

(* Model of lib/cli.py check_all: sequential loop vs ProcessPoolExecutor.map.
   check_file is a function of the file alone (it captures what the component models compute);
   workers complete in an arbitrary order [pi]; executor.map yields results in submission order. *)
From Coq Require Import List Arith Permutation.
Import ListNotations.

Section CheckAll.
  Variables file line : Type.
  Variable check_file : file -> list line.

  Definition check_all_seq (fs : list file) : list line := flat_map check_file fs.

  (* results as they complete: (submission index, captured output) in completion order *)
  Definition completed (pi : list nat) (fs : list file) : list (nat * list line) :=
    flat_map (fun i => match nth_error fs i with Some f => [(i, check_file f)] | None => [] end) pi.

  Fixpoint lookup (i : nat) (rs : list (nat * list line)) : option (list line) :=
    match rs with
    | [] => None
    | (j, o) :: r => if Nat.eqb i j then Some o else lookup i r
    end.

  (* executor.map: iterate over submission indices, taking each result from the completed table *)
  Definition check_all_par (pi : list nat) (fs : list file) : list line :=
    flat_map (fun i => match lookup i (completed pi fs) with Some o => o | None => [] end) (seq 0 (length fs)).
End CheckAll.

(* fake_path: Checker.__init__ with options.fake_root = (real_root, fake_root) *)
Fixpoint is_prefix {A} (eqb : A -> A -> bool) (p s : list A) : bool :=
  match p, s with
  | [], _ => true
  | x :: p', y :: s' => andb (eqb x y) (is_prefix eqb p' s')
  | _ :: _, [] => false
  end.

Definition fake_path {A} (eqb : A -> A -> bool) (real_root fake_root path : list A) : list A :=
  if is_prefix eqb real_root path then fake_root ++ skipn (length real_root) path else path.

(* check_deb: where a package is unpacked and how the paths of its members are printed.
   binary (.deb): dpkg-deb -x filename tmpdir            -> members at tmpdir/<member>,   real_root = os.path.join(tmpdir, '')
   source (.dsc): dpkg-source -x filename tmpdir/s/      -> members at tmpdir/s/<member>, real_root = os.path.join(tmpdir, 's', '')
   fake_root = (real_root, os.path.join(filename, ''));  tmpdir and filename do not end with "/" *)
From Coq Require Import NArith.
Definition real_root (binary : bool) (tmpdir : list N) : list N :=
  if binary then tmpdir ++ [47%N] else tmpdir ++ [47%N; 115%N; 47%N].
Definition unpacked_member (binary : bool) (tmpdir member : list N) : list N := real_root binary tmpdir ++ member.
Definition printed_member (binary : bool) (tmpdir filename member : list N) : list N :=
  fake_path N.eqb (real_root binary tmpdir) (filename ++ [47%N]) (unpacked_member binary tmpdir member).

(* ---------------------------------------------------------------------------------------------------------------
   The rest of lib/cli.py as run for its effect on stdout (Model/CliPy.v: io = lines written + Ret / Raise).
   External code is an argument, as in Generated/CliSrc.v: the real checker (checker_check), subprocesses (check_call),
   the temporary directory (mkdtemp / cleanup), os.walk, islink / isfile, the tag registry and Tag.format.
   Proofs/CliSrc.v proves the translation of the Python text equal to these definitions. *)
From I18n Require Import Model.CliPy.
From Coq Require Import ZArith.

Definition s_unknown_file_type : str := [117; 110; 107; 110; 111; 119; 110; 45; 102; 105; 108; 101; 45; 116; 121; 112; 101]%N.
Definition s_deb : str := [46; 100; 101; 98]%N.
Definition s_dsc : str := [46; 100; 115; 99]%N.
Definition s_tmp_prefix : str := [105; 49; 56; 110; 115; 112; 101; 99; 116; 111; 114; 46; 100; 101; 98; 46]%N.   (* i18nspector.deb. *)
Definition s_dpkg_deb : str := [100; 112; 107; 103; 45; 100; 101; 98]%N.
Definition s_dpkg_source : str := [100; 112; 107; 103; 45; 115; 111; 117; 114; 99; 101]%N.
Definition s_x : str := [45; 120]%N.
Definition s_no_copy : str := [45; 45; 110; 111; 45; 99; 111; 112; 121]%N.
Definition s_no_check : str := [45; 45; 110; 111; 45; 99; 104; 101; 99; 107]%N.

(* a directory / file name as tempfile and the command line give it: not empty, no trailing "/" *)
Definition path_ok (p : str) : Prop := p <> [] /\ str_endswith p [47%N] = false.

Section CliModel.
  Context {L X T E O : Type}.

  (* cli.Checker.tag: nothing for an ignored tag; an unknown tag is a DataIntegrityError; otherwise one line, in colour mode *)
  Definition cli_tag (get_tag : str -> option T) (tag_format : T -> str -> E -> bool -> res X L)
      (opts : options O) (fake_path tagname : str) (extra : E) : io L X unit :=
    if set_mem tagname (o_ignore_tags opts) then io_ret tt
    else match get_tag tagname with
         | None => io_raise EDataIntegrity
         | Some t => match tag_format t fake_path extra true with Ret s => io_write [s] | Raise e => io_raise e end
         end.

  (* copy_options: a NEW value; the argument is not changed (values are immutable here, so this is what the function returns) *)
  Definition copy_options (o : options O) (us : list opt_update) : options O := fold_left apply_update us o.

  (* run f on the elements in order; stop at the first that raises *)
  Fixpoint io_for {A} (f : A -> io L X unit) (l : list A) : io L X unit :=
    match l with [] => io_ret tt | a :: r => io_bind (f a) (fun _ => io_for f r) end.

  (* check_deb *)
  Definition deb_kind (filename : str) : option bool :=
    if str_endswith filename s_deb then Some true else if str_endswith filename s_dsc then Some false else None.
  (* the options the members of a package are checked with: unknown-file-type is ignored in addition, paths under real_root are
     printed under <filename>/ *)
  Definition deb_options (o : options O) (binary : bool) (tmpdir filename : str) : options O :=
    mkOptions (o_unpack_deb o) (o_jobs o) (s_unknown_file_type :: o_ignore_tags o)
              (Some (real_root binary tmpdir, filename ++ [47%N])) (o_rest o).
  Definition unpack_argv (binary : bool) (filename tmpdir : str) : list str :=
    if binary then [s_dpkg_deb; s_x; filename; tmpdir]
    else [s_dpkg_source; s_no_copy; s_no_check; s_x; filename; real_root false tmpdir].
  (* the members that are checked, in os.walk order: regular files that are not symbolic links *)
  Definition deb_members (islink isfile : str -> bool) (walk : list (str * list str * list str)) : list str :=
    filter (fun p => andb (negb (islink p)) (isfile p))
           (flat_map (fun rdf => map (path_join (fst (fst rdf))) (snd rdf)) walk).
  Definition check_deb (check_call : list str -> bool -> io L X unit) (mkdtemp : str -> res X str) (cleanup : str -> io L X unit)
      (os_walk : str -> list (str * list str * list str)) (islink isfile : str -> bool)
      (check_file : str -> options O -> io L X unit) (filename : str) (o : options O) : io L X unit :=
    match deb_kind filename with
    | None => io_raise EUnsupportedFileType
    | Some binary =>
      io_bind (io_lift (mkdtemp s_tmp_prefix)) (fun tmpdir =>
        io_finally
          (io_bind (check_call (unpack_argv binary filename tmpdir) (negb binary)) (fun _ =>
           io_for (fun p => check_file p (deb_options o binary tmpdir filename)) (deb_members islink isfile (os_walk tmpdir))))
          (cleanup tmpdir))
    end.

  (* check_file: with --unpack-deb a package is unpacked; anything that is not a package is checked as a regular file *)
  Definition check_file (checker_check : str -> options O -> io L X unit) (check_deb_ : str -> options O -> io L X unit)
      (path : str) (o : options O) : io L X unit :=
    if o_unpack_deb o then io_try (check_deb_ path o) is_unsupported_file_type (checker_check path o)
    else checker_check path o.

  (* check_all, with the executor an argument: sequential when there is at most one file or one job *)
  Definition check_all (executor_map : Z -> (str -> io L X (list L)) -> list str -> list (io L X (list L)))
      (check_file_ : str -> options O -> io L X unit) (paths : list str) (o : options O) : io L X unit :=
    if orb (Z.of_nat (length paths) <=? 1)%Z (o_jobs o <=? 1)%Z then io_for (fun p => check_file_ p o) paths
    else io_for (fun m => io_bind m io_write) (executor_map (o_jobs o) (fun p => io_capture (check_file_ p o)) paths).

  (* parse_jobs (argparse type of -j): "auto" or a positive integer *)
  Definition parse_jobs (cpu_count : Z) (py_int : str -> res X Z) (s : str) : io L X Z :=
    if str_eqb s [97; 117; 116; 111]%N then io_ret cpu_count
    else match py_int s with
         | Ret n => if (n <=? 0)%Z then io_raise EValueError else io_ret n
         | Raise e => io_raise e
         end.
End CliModel.

(* ProcessPoolExecutor.map as Model/Cli.v models it: the calls complete in the order pi; the results are yielded in submission order *)
Fixpoint lookup_result {B} (i : nat) (rs : list (nat * B)) : option B :=
  match rs with
  | [] => None
  | (j, o) :: r => if Nat.eqb i j then Some o else lookup_result i r
  end.
Definition executor_map_model {B} (pi : list nat) (f : str -> B) (fs : list str) : list B :=
  flat_map (fun i => match lookup_result i (flat_map (fun j => match nth_error fs j with Some x => [(j, f x)] | None => [] end) pi) with
                     | Some o => [o] | None => [] end) (seq 0 (length fs)).

(* main: jobs = -j, else --parallel, else 1; every run starts with no ignored tag and no fake root *)
Definition main_normalise (jobs parallel : option Z) : option Z * list str * option (str * str) :=
  (Some (match jobs with Some j => j | None => match parallel with Some p => p | None => 1%Z end end), [], None).

(* Model of lib/cli.py check_all: sequential loop vs ProcessPoolExecutor.map.
   check_file is a function of the file alone (it captures what the component models compute);
   workers complete in an arbitrary order [pi]; executor.map yields results in submission order. *)
From Coq Require Import List Arith Permutation.
Import ListNotations.

Section CheckAll.
  Variables file line : Type.
  Variable check_file : file -> list line.

  Definition check_all_seq (fs : list file) : list line := flat_map check_file fs.

  (* results as they complete: (submission index, captured output) in completion order *)
  Definition completed (pi : list nat) (fs : list file) : list (nat * list line) :=
    flat_map (fun i => match nth_error fs i with Some f => [(i, check_file f)] | None => [] end) pi.

  Fixpoint lookup (i : nat) (rs : list (nat * list line)) : option (list line) :=
    match rs with
    | [] => None
    | (j, o) :: r => if Nat.eqb i j then Some o else lookup i r
    end.

  (* executor.map: iterate over submission indices, taking each result from the completed table *)
  Definition check_all_par (pi : list nat) (fs : list file) : list line :=
    flat_map (fun i => match lookup i (completed pi fs) with Some o => o | None => [] end) (seq 0 (length fs)).
End CheckAll.

(* fake_path: Checker.__init__ with options.fake_root = (real_root, fake_root) *)
Fixpoint is_prefix {A} (eqb : A -> A -> bool) (p s : list A) : bool :=
  match p, s with
  | [], _ => true
  | x :: p', y :: s' => andb (eqb x y) (is_prefix eqb p' s')
  | _ :: _, [] => false
  end.

Definition fake_path {A} (eqb : A -> A -> bool) (real_root fake_root path : list A) : list A :=
  if is_prefix eqb real_root path then fake_root ++ skipn (length real_root) path else path.

(* check_deb: where a package is unpacked and how the paths of its members are printed.
   binary (.deb): dpkg-deb -x filename tmpdir            -> members at tmpdir/<member>,   real_root = os.path.join(tmpdir, '')
   source (.dsc): dpkg-source -x filename tmpdir/s/      -> members at tmpdir/s/<member>, real_root = os.path.join(tmpdir, 's', '')
   fake_root = (real_root, os.path.join(filename, ''));  tmpdir and filename do not end with "/" *)
From Coq Require Import NArith.
Definition real_root (binary : bool) (tmpdir : list N) : list N :=
  if binary then tmpdir ++ [47%N] else tmpdir ++ [47%N; 115%N; 47%N].
Definition unpacked_member (binary : bool) (tmpdir member : list N) : list N := real_root binary tmpdir ++ member.
Definition printed_member (binary : bool) (tmpdir filename member : list N) : list N :=
  fake_path N.eqb (real_root binary tmpdir) (filename ++ [47%N]) (unpacked_member binary tmpdir member).

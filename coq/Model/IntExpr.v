(* Executable model of /repo/lib/intexpr.py (and gettext.parse_plural_expression).
   Definitions only; proofs live in Proofs/. *)
From Coq Require Import List ZArith Bool.
From I18n Require Import Lib.Outcome.
Import ListNotations.
Local Open Scope Z_scope.

(* ------------------------------------------------------------------ *)
(* Abstract syntax: the Python ast nodes the productions build         *)

Inductive binop := Add | Sub | Mult | Div | Mod.
Inductive cmpop := CLt | CLe | CGt | CGe | CEq | CNe.

Inductive expr :=
| Var
| Num (z : Z)
| Not (e : expr)
| Bin (o : binop) (a b : expr)
| Cmp (o : cmpop) (a b : expr)
| And (a b : expr)            (* ast.BoolOp(And, [a, b]) : the parser only builds binary ones *)
| Or (a b : expr)
| If (c a b : expr).

(* ------------------------------------------------------------------ *)
(* Evaluator                                                            *)

Inductive arith_err := EOverflow | EDivZero.
Definition eres := outcome Z arith_err.

Definition check_overflow (M n : Z) : eres :=
  if n <? 0 then Err EOverflow
  else if n >=? M then Err EOverflow
  else Ok n.

Definition b2z (b : bool) : Z := if b then 1 else 0.

Definition eval_cmp (o : cmpop) (x y : Z) : Z :=
  match o with
  | CLt => b2z (x <? y) | CLe => b2z (x <=? y)
  | CGt => b2z (x >? y) | CGe => b2z (x >=? y)
  | CEq => b2z (x =? y) | CNe => b2z (negb (x =? y))
  end.

Definition eval_bin (M : Z) (o : binop) (x y : Z) : eres :=
  match o with
  | Add => check_overflow M (x + y)
  | Sub => check_overflow M (x - y)
  | Mult => check_overflow M (x * y)
  | Div => if y =? 0 then Err EDivZero else Ok (x / y)     (* Python // : floor *)
  | Mod => if y =? 0 then Err EDivZero else Ok (x mod y)   (* Python %  : sign of divisor *)
  end.

Fixpoint pyeval (M : Z) (e : expr) (n : Z) : eres :=
  match e with
  | Var => check_overflow M n
  | Num z => check_overflow M z
  | Not a => do x <- pyeval M a n; Ok (b2z (x =? 0))
  | Bin o a b => do x <- pyeval M a n; do y <- pyeval M b n; eval_bin M o x y
  | Cmp o a b => do x <- pyeval M a n; do y <- pyeval M b n; Ok (eval_cmp o x y)
  | And a b => do x <- pyeval M a n;
               if x =? 0 then Ok 0 else
               do y <- pyeval M b n; if y =? 0 then Ok 0 else Ok 1
  | Or a b => do x <- pyeval M a n;
              if negb (x =? 0) then Ok 1 else
              do y <- pyeval M b n; if negb (y =? 0) then Ok 1 else Ok 0
  | If c a b => do t <- pyeval M c n;
                if negb (t =? 0) then pyeval M a n else pyeval M b n
  end.

(* ------------------------------------------------------------------ *)
(* CodomainEvaluator                                                    *)

Inductive cres := CNone | CSome (l r : Z) | CAssert.

Definition cbind (x : cres) (f : Z -> Z -> cres) : cres :=
  match x with CNone => CNone | CAssert => CAssert | CSome l r => f l r end.

Definition pair_eqb (a b c d : Z) : bool := (a =? c) && (b =? d).

Definition cd_bin (M : Z) (o : binop) (x0 x1 y0 y1 : Z) : cres :=
  match o with
  | Add => let z0 := x0 + y0 in let z1 := Z.min (x1 + y1) (M - 1) in
           if z0 >? z1 then CNone else CSome z0 z1
  | Sub => let z0 := Z.max (x0 - y1) 0 in let z1 := x1 - y0 in
           if z0 >? z1 then CNone else CSome z0 z1
  | Mult => let z0 := x0 * y0 in let z1 := Z.min (x1 * y1) (M - 1) in
           if z0 >? z1 then CNone else CSome z0 z1
  | Div => if pair_eqb y0 y1 0 0 then CNone
           else if negb (y1 >? 0) then CAssert
           else CSome (x0 / y1) (x1 / Z.max y0 1)
  | Mod => if pair_eqb y0 y1 0 0 then CNone
           else if negb (y1 >? 0) then CAssert
           else if x1 <? y0 then CSome x0 x1
           else CSome 0 (Z.min x1 (y1 - 1))
  end.

Definition cd_not (x0 x1 : Z) : cres :=
  if x0 >? 0 then CSome 0 0
  else if pair_eqb x0 x1 0 0 then CSome 1 1
  else CSome 0 1.

Definition cd_cmp (o : cmpop) (x0 x1 y0 y1 : Z) : cres :=
  match o with
  | CGe => CSome (b2z (x0 >=? y1)) (b2z (x1 >=? y0))
  | CGt => CSome (b2z (x0 >? y1)) (b2z (x1 >? y0))
  | CLe => CSome (b2z (x1 <=? y0)) (b2z (x0 <=? y1))
  | CLt => CSome (b2z (x1 <? y0)) (b2z (x0 <? y1))
  | CEq => if (x0 =? x1) && (x1 =? y0) && (y0 =? y1) then CSome 1 1
          else if (x0 <=? y0) && (y0 <=? x1) then CSome 0 1
          else if (y0 <=? x0) && (x0 <=? y1) then CSome 0 1
          else CSome 0 0
  | CNe => if (x0 =? x1) && (x1 =? y0) && (y0 =? y1) then CSome 0 0
          else if (x0 <=? y0) && (y0 <=? x1) then CSome 0 1
          else if (y0 <=? x0) && (x0 <=? y1) then CSome 0 1
          else CSome 1 1
  end.

(* the loop body of _visit_and; r is the running pair, xs the results of visiting the
   remaining arguments (visiting has no side effect, so doing it eagerly is faithful) *)
Fixpoint cd_and_loop (r0 r1 : Z) (xs : list cres) : cres :=
  match xs with
  | [] => CSome r0 r1
  | x :: rest =>
    if pair_eqb r0 r1 0 0 then CAssert else
    match x with
    | CAssert => CAssert
    | CNone => if pair_eqb r0 r1 0 1 then CSome 0 0 else CNone
    | CSome x0 x1 =>
      if pair_eqb x0 x1 0 0 then CSome x0 x1
      else if x0 >=? 1 then cd_and_loop r0 r1 rest
      else if negb (x0 =? 0) then CAssert
      else if negb (x1 >? 0) then CAssert
      else cd_and_loop 0 1 rest
    end
  end.

Fixpoint cd_or_loop (r0 r1 : Z) (xs : list cres) : cres :=
  match xs with
  | [] => CSome r0 r1
  | x :: rest =>
    if pair_eqb r0 r1 1 1 then CAssert else
    match x with
    | CAssert => CAssert
    | CNone => if pair_eqb r0 r1 0 1 then CSome 1 1 else CNone
    | CSome x0 x1 =>
      if x0 >=? 1 then CSome 1 1
      else if pair_eqb x0 x1 0 0 then cd_or_loop r0 r1 rest
      else if negb (x0 =? 0) then CAssert
      else if negb (x1 >? 0) then CAssert
      else cd_or_loop 0 1 rest
    end
  end.

Definition cd_if (t : cres) (x y : cres) : cres :=
  match t with
  | CNone => CNone
  | CAssert => CAssert
  | CSome t0 t1 =>
    let x' := if t1 >? 0 then x else CNone in
    let y' := if t0 =? 0 then y else CNone in
    match x', y' with
    | CAssert, _ => CAssert
    | _, CAssert => CAssert
    | CNone, _ => y'
    | _, CNone => x'
    | CSome x0 x1, CSome y0 y1 => CSome (Z.min x0 y0) (Z.max x1 y1)
    end
  end.

Fixpoint codomain (M : Z) (e : expr) : cres :=
  match e with
  | Var => CSome 0 (M - 1)
  | Num z => if (z <? 0) || (z >=? M) then CNone else CSome z z
  | Not a => cbind (codomain M a) cd_not
  | Bin o a b => cbind (codomain M a) (fun x0 x1 =>
                 cbind (codomain M b) (fun y0 y1 => cd_bin M o x0 x1 y0 y1))
  | Cmp o a b => cbind (codomain M a) (fun x0 x1 =>
                 cbind (codomain M b) (fun y0 y1 => cd_cmp o x0 x1 y0 y1))
  | And a b => cd_and_loop 1 1 [codomain M a; codomain M b]
  | Or a b => cd_or_loop 0 0 [codomain M a; codomain M b]
  | If c a b => cd_if (codomain M c) (codomain M a) (codomain M b)
  end.

(* ------------------------------------------------------------------ *)
(* PeriodEvaluator                                                      *)

Definition py_lcm (x y : Z) : Z := x / Z.gcd x y * y.   (* r //= gcd(r, y); r *= y *)

Definition per_join (M : Z) (x y : option (Z * Z)) : option (Z * Z) :=
  match x with None => None | Some (xo, xp) =>
  match y with None => None | Some (yo, yp) =>
    let ro := Z.max xo yo in
    let rp := py_lcm xp yp in
    if rp >=? M then None else Some (ro, rp)
  end end.

Definition is_var (e : expr) : bool := match e with Var => true | _ => false end.
Definition num_of (e : expr) : option Z := match e with Num z => Some z | _ => None end.
Definition is_mod (o : binop) : bool := match o with Mod => true | _ => false end.

Fixpoint period (M : Z) (e : expr) : option (Z * Z) :=
  match e with
  | Var => None
  | Num z => if (z <? 0) || (z >=? M) then None else Some (0, 1)
  | Not a => period M a
  | Bin o a b =>
    match (if is_mod o && is_var a then num_of b else None) with
    | Some n => if (n <=? 0) || (n >=? M) then None else Some (0, n)
    | None => per_join M (period M a) (period M b)
    end
  | Cmp o a b =>
    match (if is_var a then num_of b else None) with
    | Some n =>
      if (n <? 0) || (n >=? M) then None else
      match o with
      | CLt | CGe => Some (n, 1)
      | _ => if n + 1 =? M then None else Some (n + 1, 1)
      end
    | None => per_join M (period M a) (period M b)
    end
  | And a b | Or a b =>
    (* fold starting from (0, 1), cut-off tested after every argument *)
    per_join M (per_join M (Some (0, 1)) (period M a)) (period M b)
  | If c a b =>
    match period M c, period M a, period M b with
    | Some (to, tp), Some (xo, xp), Some (yo, yp) =>
      let ro := Z.max (Z.max to xo) yo in
      let rp := py_lcm (py_lcm tp xp) yp in
      if rp >=? M then None else Some (ro, rp)
    | _, _, _ => None
    end
  end.

(* ------------------------------------------------------------------ *)
(* Lexer (rply: ignore rules first, then the first rule that matches)   *)

Inductive token :=
| TIf | TElse | TOr | TAnd
| TEq (neq : bool)           (* == / != *)
| TCmp (o : cmpop)           (* < <= > >= *)
| TAddSub (sub : bool)
| TMulDiv (o : binop)
| TNot | TLpar | TRpar | TVar
| TInt (z : Z) (ndigits : N)
| TBad.                      (* lexing error: end of the token stream *)

Definition is_digit (c : N) : bool := ((48 <=? c) && (c <=? 57))%N.

(* flush a pending INT token *)
Definition flush (acc : option (Z * N)) (k : list token) : list token :=
  match acc with Some (z, d) => TInt z d :: k | None => k end.

(* [acc] is the INT being accumulated, if any.  A lexing error ends the stream with TBad:
   the implementation's lexer is a lazy stream, so everything to the left of the error is
   still seen by the parser first (this matters only for which exception comes first). *)
Fixpoint lex (acc : option (Z * N)) (s : list N) : list token :=
  match s with
  | [] => flush acc []
  | c :: r =>
    if is_digit c then
      let d := Z.of_N (c - 48) in
      match acc with
      | Some (z, k) => lex (Some (z * 10 + d, (k + 1)%N)) r
      | None => lex (Some (d, 1%N)) r
      end
    else
    let one t := flush acc (t :: lex None r) in
    let bad := flush acc [TBad] in
    match c with
    | 32%N | 9%N => flush acc (lex None r)
    | 63%N => one TIf
    | 58%N => one TElse
    | 124%N => match r with 124%N :: r' => flush acc (TOr :: lex None r') | _ => bad end
    | 38%N => match r with 38%N :: r' => flush acc (TAnd :: lex None r') | _ => bad end
    | 61%N => match r with 61%N :: r' => flush acc (TEq false :: lex None r') | _ => bad end
    | 33%N => match r with 61%N :: r' => flush acc (TEq true :: lex None r') | _ => one TNot end
    | 60%N => match r with 61%N :: r' => flush acc (TCmp CLe :: lex None r') | _ => one (TCmp CLt) end
    | 62%N => match r with 61%N :: r' => flush acc (TCmp CGe :: lex None r') | _ => one (TCmp CGt) end
    | 43%N => one (TAddSub false)
    | 45%N => one (TAddSub true)
    | 42%N => one (TMulDiv Mult)
    | 47%N => one (TMulDiv Div)
    | 37%N => one (TMulDiv Mod)
    | 40%N => one TLpar
    | 41%N => one TRpar
    | 110%N => one TVar
    | _ => bad
    end
  end.

(* ------------------------------------------------------------------ *)
(* Parser: precedence climbing over the %left/%right table of plural.y  *)

Inductive pmode :=
| MPrimary                       (* '!'* atom *)
| MBinary (minlvl : nat)         (* primary followed by operators of level >= minlvl *)
| MLoop (minlvl : nat) (lhs : expr).

Inductive syn_err := SynErr.
Definition pres := outcome (expr * list token) syn_err.

(* binary operator tokens: level and constructor; levels 1 (or) .. 6 (mul div mod) *)
Definition binop_of (t : token) : option (nat * (expr -> expr -> expr)) :=
  match t with
  | TOr => Some (1%nat, Or)
  | TAnd => Some (2%nat, And)
  | TEq neq => Some (3%nat, Cmp (if neq then CNe else CEq))
  | TCmp o => Some (4%nat, Cmp o)
  | TAddSub sub => Some (5%nat, Bin (if sub then Sub else Add))
  | TMulDiv o => Some (6%nat, Bin o)
  | _ => None
  end.

Definition max_digits_ok (maxd d : N) : bool := ((maxd =? 0) || (d <=? maxd))%N.

Fixpoint pgo (maxd : N) (fuel : nat) (m : pmode) (ts : list token) : pres :=
  match fuel with
  | O => Crash COutOfFuel
  | S fuel' =>
    match m with
    | MPrimary =>
      match ts with
      | TNot :: r => do x <- pgo maxd fuel' MPrimary r; let '(e, r') := x in Ok (Not e, r')
      | TVar :: r => Ok (Var, r)
      | TInt z d :: r => if max_digits_ok maxd d then Ok (Num z, r) else Crash CValueError
      | TLpar :: r =>
        do x <- pgo maxd fuel' (MBinary 0) r;
        let '(e, r') := x in
        match r' with TRpar :: r'' => Ok (e, r'') | _ => Err SynErr end
      | _ => Err SynErr
      end
    | MBinary minlvl =>
      do x <- pgo maxd fuel' MPrimary ts;
      let '(lhs, r) := x in pgo maxd fuel' (MLoop minlvl lhs) r
    | MLoop minlvl lhs =>
      match ts with
      | [] => Ok (lhs, ts)
      | t :: r =>
        match binop_of t with
        | Some (l, mk) =>
          if Nat.leb minlvl l then
            do x <- pgo maxd fuel' (MBinary (S l)) r;
            let '(rhs, r') := x in pgo maxd fuel' (MLoop minlvl (mk lhs rhs)) r'
          else Ok (lhs, ts)
        | None =>
          match t with
          | TIf =>
            if Nat.leb minlvl 0 then
              do x <- pgo maxd fuel' (MBinary 0) r;
              let '(a, r1) := x in
              match r1 with
              | TElse :: r2 =>
                do y <- pgo maxd fuel' (MBinary 0) r2;
                let '(b, r3) := y in Ok (If lhs a b, r3)
              | _ => Err SynErr
              end
            else Ok (lhs, ts)
          | _ => Ok (lhs, ts)
          end
        end
      end
    end
  end.

Definition parse_tokens (maxd : N) (ts : list token) : outcome expr syn_err :=
  do x <- pgo maxd (4 * length ts + 4) (MBinary 0) ts;
  let '(e, r) := x in
  match r with [] => Ok e | _ => Err SynErr end.

(* gettext.parse_plural_expression: LexingError and ParsingError both become
   PluralExpressionSyntaxError (Err SynErr); TBad matches no production. *)
Definition parse_string (maxd : N) (s : list N) : outcome expr syn_err :=
  parse_tokens maxd (lex None s).

(* Executable model of lib/strformat/perlbrace.py: FormatString.__init__.

     _field_re = (?P<literal> [^{]+ ) | (?: [{] (?P<name> [^\W\d]\w* ) [}] )     (re.VERBOSE)

   used through finditer: a match is attempted at last_pos; if it fails the engine goes on searching at
   the following positions, and whatever it finds (a later match, or nothing) the code raises
   Error(_printable_prefix(s[last_pos:])).  The Unicode classes \w and \d are oracle arguments.
   Every function also returns the number of character inspections it made (for the linearity
   theorem); the search that finditer continues after a failed attempt is counted too. *)
From Coq Require Import List NArith Bool.
From I18n Require Import Lib.Outcome.
Import ListNotations.
Local Open Scope N_scope.

Definition c_lbrace : N := 123.
Definition c_rbrace : N := 125.

Fixpoint span (p : N -> bool) (s : list N) : list N * list N :=
  match s with
  | c :: r => if p c then let '(a, b) := span p r in (c :: a, b) else ([], s)
  | [] => ([], [])
  end.

Inductive pitem :=
| PLit (text : list N)          (* match.group() of the literal alternative *)
| PField (name : list N).       (* {name} *)

Inductive perl_err := PerlError (printable_prefix : list N).

(* _printable_prefix: re.compile('[ -\x7E]+').match(s).group(); AttributeError when there is no match *)
Definition is_printable_ascii (c : N) : bool := (32 <=? c) && (c <=? 126).
Definition printable_prefix {A} (s : list N) : outcome A perl_err :=
  match fst (span is_printable_ascii s) with
  | [] => Crash CAttributeError
  | p => Err (PerlError p)
  end.

Section PerlBrace.
Variables is_w is_d : N -> bool.

Definition not_lbrace (c : N) : bool := negb (c =? c_lbrace).
Definition ident_start (c : N) : bool := is_w c && negb (is_d c).     (* [^\W\d] *)

(* one match attempt of _field_re at the start of s: (item, rest) if it matches, and the number of
   character inspections (each consumed character once, plus the look-ahead that ends a run) *)
Definition match_at (s : list N) : option (pitem * list N) * nat :=
  match s with
  | [] => (None, 1%nat)
  | c :: r =>
    if not_lbrace c then
      let '(a, b) := span not_lbrace s in (Some (PLit a, b), S (length a))
    else
      match r with
      | [] => (None, 2%nat)
      | d :: r1 =>
        if ident_start d then
          let '(w, r2) := span is_w r1 in
          match r2 with
          | e :: r3 => if e =? c_rbrace then (Some (PField (d :: w), r3), (3 + length w)%nat)
                       else (None, (3 + length w)%nat)
          | [] => (None, (3 + length w)%nat)
          end
        else (None, 2%nat)
      end
  end.

(* what finditer still does after a failed attempt: search from the next positions on *)
Fixpoint search_cost (s : list N) : nat :=
  match s with
  | [] => 1%nat
  | _ :: r => match match_at s with
              | (Some _, k) => k
              | (None, k) => (k + search_cost r)%nat
              end
  end.

(* the loop of FormatString.__init__; fuel = number of finditer iterations allowed *)
Fixpoint scan (fuel : nat) (s : list N) (acc : list pitem) (steps : nat)
  : outcome (list pitem) perl_err * nat :=
  match fuel with
  | O => (Crash COutOfFuel, steps)
  | S fuel' =>
    match s with
    | [] => (Ok (rev acc), S steps)                      (* last_pos == len(s) *)
    | _ :: _ =>
      match match_at s with
      | (Some (it, rest), k) => scan fuel' rest (it :: acc) (steps + k)
      | (None, _) => (printable_prefix s, (steps + search_cost s)%nat)
      end
    end
  end.

Definition perl_parse_steps (s : list N) : outcome (list pitem) perl_err * nat :=
  scan (S (length s)) s [] 0%nat.

Definition perl_parse (s : list N) : outcome (list pitem) perl_err := fst (perl_parse_steps s).

(* .arguments is the set of these names *)
Fixpoint names_of (its : list pitem) : list (list N) :=
  match its with
  | [] => []
  | PLit _ :: r => names_of r
  | PField n :: r => n :: names_of r
  end.

End PerlBrace.

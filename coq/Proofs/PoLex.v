(* Each line of the printer family is classified back to its token by the model of
   _POFileParser.parse's line handling (strip, split(None, 2), #~ prefix, keywords, quote test). *)
From Coq Require Import List NArith Bool Lia ZifyBool Arith.
From I18n Require Import Lib.Outcome Model.PoUnescape Model.PoParser Spec.PoSyntax Proofs.PoStrings Proofs.PoParser.
Import ListNotations.
Local Open Scope N_scope.

(* ---------------------------------------------------------------- no unescaped quote inside a chunk *)
Lemma uq_skip d : forall s b, ~ In 34 d -> d <> [] -> exists b', unescaped_quote_aux (d ++ s) b = unescaped_quote_aux s b'.
Proof.
  induction d as [|c d IH]; intros s b Hn Hne; [congruence|]. cbn [app unescaped_quote_aux].
  destruct (N.eqb_spec c 34) as [->|Hc]; [exfalso; apply Hn; now left|]. cbn [andb].
  destruct d as [|c2 d']; [eexists; reflexivity|]. apply IH; [intros H; apply Hn; now right|discriminate].
Qed.

Lemma uq_item i s : item_ok i -> (forall b, unescaped_quote_aux s b = false) -> forall b, unescaped_quote_aux (item_text i ++ s) b = false.
Proof.
  intros Hok Hs b. destruct i as [e v | d | d]; cbn [item_text app].
  - cbn [unescaped_quote_aux]. cbn [N.eqb andb]. change (N.eqb 92 34) with false. cbn [andb].
    change (N.eqb 92 92) with true. rewrite andb_false_r. apply Hs.
  - cbn [unescaped_quote_aux]. change (N.eqb 92 34) with false. cbn [andb]. destruct Hok as (Hlen & Hd & _).
    destruct (uq_skip d s (N.eqb 92 92)) as [b' ->]; [| destruct d; [cbn in Hlen; lia|discriminate] | apply Hs].
    intros Hin. rewrite Forall_forall in Hd. specialize (Hd _ Hin). unfold c_octal in Hd. lia.
  - cbn [unescaped_quote_aux]. change (N.eqb 92 34) with false. cbn [andb].
    change (N.eqb 120 34) with false. cbn [andb]. destruct Hok as (Hlen & Hd).
    destruct (uq_skip d s (N.eqb 120 92)) as [b' ->]; [| destruct d; [cbn in Hlen; lia|discriminate] | apply Hs].
    intros Hin. rewrite Forall_forall in Hd. specialize (Hd _ Hin). unfold c_hex in Hd. lia.
Qed.

Lemma uq_items its s : Forall item_ok its -> (forall b, unescaped_quote_aux s b = false) ->
  forall b, unescaped_quote_aux (flat_map item_text its ++ s) b = false.
Proof. induction 1 as [|i its Hi _ IH]; intros Hs b; [apply Hs|]. cbn [flat_map]. rewrite <- app_assoc. apply uq_item; [assumption|]. now apply IH. Qed.

Lemma uq_lits cs s : Forall lit_ok cs -> (forall b, unescaped_quote_aux s b = false) ->
  forall b, unescaped_quote_aux (cs ++ s) b = false.
Proof. induction 1 as [|c cs Hc _ IH]; intros Hs b; [apply Hs|]. cbn [app unescaped_quote_aux].
  destruct Hc as (_ & H34 & _). destruct (N.eqb_spec c 34); [congruence|]. cbn [andb]. now apply IH. Qed.

Lemma uq_chunk dec ps : chunk_ok dec ps -> forall b, unescaped_quote_aux (chunk_text ps) b = false.
Proof.
  induction ps as [|p ps IH]; intros Hok b; [reflexivity|]. unfold chunk_text in *. cbn [flat_map].
  destruct p as [cs|its t]; cbn [chunk_ok piece_text] in *.
  - destruct Hok as (_ & Hl & _ & Hr). apply uq_lits; auto.
  - destruct Hok as (_ & Hi & _ & _ & Hr). apply uq_items; auto.
Qed.

Lemma quote_test dec c : chunk_ok dec c -> unescaped_quote (inner (quoted c)) = false.
Proof. intros H. rewrite inner_quoted. now apply (uq_chunk dec). Qed.

(* ---------------------------------------------------------------- words *)
Definition starts_nonspace (s : str) : Prop := match s with [] => False | c :: _ => ~ is_space c end.
Definition ends_word (s : str) : Prop := match s with [] => True | c :: _ => is_space c end.

Lemma word_app w s : no_space w -> ends_word s -> word (w ++ s) = (w, s).
Proof. induction 1 as [|c w Hc _ IH]; intros Hs.
  - cbn [app]. destruct s as [|c s]; [reflexivity|]. cbn in Hs. cbn [word]. now rewrite (space_true _ Hs).
  - cbn [app word]. rewrite (not_space_false _ Hc), IH by assumption. reflexivity. Qed.

Lemma lstrip_spaces ws s : all_space ws -> lstrip (ws ++ s) = lstrip s.
Proof. intros H. apply lstrip_by_all. now apply all_space_py. Qed.
Lemma lstrip_nonspace s : starts_nonspace s -> lstrip s = s.
Proof. destruct s as [|c s]; [contradiction|]. intros H. apply lstrip_by_stop. now apply not_space_false. Qed.

Lemma all_space_ends ws s : all_space ws -> ws <> [] -> ends_word (ws ++ s).
Proof. destruct ws; [congruence|]. intros H _. inversion H; subst. assumption. Qed.

(* the head of line.split(None, 2): first word, and whether something follows *)
Lemma split2_one w : no_space w -> w <> [] -> split2 w = [w].
Proof.
  intros Hw Hne. unfold split2. destruct w as [|c w']; [congruence|]. inversion Hw as [|? ? Hc Hw']; subst.
  rewrite lstrip_nonspace by exact Hc. pose proof (word_app (c :: w') [] Hw I) as E. rewrite app_nil_r in E. rewrite E. reflexivity.
Qed.

Lemma split2_two w sep x : no_space w -> w <> [] -> all_space sep -> sep <> [] -> starts_nonspace x ->
  exists t1 r, split2 (w ++ sep ++ x) = w :: t1 :: r /\ t1 = fst (word x) /\
               (r = [] \/ r = [lstrip (snd (word x))]) /\ (lstrip (snd (word x)) = [] <-> r = []).
Proof.
  intros Hw Hne Hs Hsne Hx. unfold split2. destruct w as [|c w']; [congruence|]. inversion Hw as [|? ? Hc Hw']; subst.
  rewrite lstrip_nonspace by exact Hc.
  rewrite (word_app (c :: w') (sep ++ x) Hw (all_space_ends sep x Hs Hsne)).
  rewrite lstrip_spaces by assumption. rewrite (lstrip_nonspace x Hx).
  destruct x as [|cx x']; [contradiction|]. destruct (word (cx :: x')) as [w2 t2] eqn:Ew. cbn [fst snd].
  destruct (lstrip t2) as [|c2 s2] eqn:El.
  - exists w2, []. repeat split; auto.
  - exists w2, [c2 :: s2]. repeat split; auto; try discriminate.
Qed.

(* ---------------------------------------------------------------- a physical line: padding, body, padding + line end *)
Lemma trimmed_last_app a c : ~ is_space c -> a <> [] \/ True -> last (a ++ [c]) 0 = c.
Proof. intros _ _. apply last_last. Qed.

Lemma strip_body lead body trail : all_space lead -> all_space trail -> trimmed body ->
  strip (lead ++ body ++ trail) = body.
Proof. apply strip_padded. Qed.

Lemma lex_padded first lead body trail : all_space lead -> all_space trail -> trimmed body -> body <> [] ->
  hd 0 body <> bom -> lex_line first (lead ++ body ++ trail) = lex_line false body.
Proof.
  intros Hl Ht Hb Hne Hbom. unfold lex_line.
  assert (E : (if first && startswith [bom] (lead ++ body ++ trail) then drop 1 (lead ++ body ++ trail) else lead ++ body ++ trail)
              = lead ++ body ++ trail).
  { destruct first; [|reflexivity]. cbn [andb].
    assert (Hs : startswith [bom] (lead ++ body ++ trail) = false).
    { destruct lead as [|c lead'].
      - destruct body as [|c body']; [congruence|]. cbn [app startswith]. cbn [hd] in Hbom. destruct (N.eqb_spec bom c); [congruence|reflexivity].
      - inversion Hl as [|? ? Hc _]; subst. cbn [app startswith]. destruct (N.eqb_spec bom c) as [<-|]; [|reflexivity].
        exfalso. unfold is_space, bom in Hc. cbn [In] in Hc. repeat (destruct Hc as [Hc|Hc]; [discriminate Hc|]). destruct Hc. }
    now rewrite Hs. }
  rewrite E. cbn [andb]. rewrite strip_body by assumption. rewrite (strip_trimmed body Hb). reflexivity.
Qed.

Lemma lex_blank first ws : all_space ws -> hd 0 ws <> bom \/ True -> lex_line first ws = LBlank.
Proof.
  intros Hw _. unfold lex_line.
  assert (Hstrip : forall s, all_space s -> strip s = []).
  { intros s Hs. unfold strip, strip_by, rstrip_by. rewrite (lstrip_by_only py_isspace s) by now apply all_space_py. reflexivity. }
  destruct (first && startswith [bom] ws).
  - rewrite Hstrip; [reflexivity|]. unfold drop. destruct ws; [constructor|]. inversion Hw; assumption.
  - now rewrite Hstrip.
Qed.

Definition lex_tokens (line : str) (tokens : list str) : lexed :=
  match tokens with
  | [] => LBlank
  | t0 :: rest =>
    if list_eqb t0 [HASH; 126; 124] then LPrevObsolete
    else if list_eqb t0 [HASH; 126] && negb (match rest with [] => true | _ => false end) then
      LLine true (match rest with t1 :: _ => startswith [HASH] t1 | [] => false end) (lex_core (strip (drop 3 line)) rest)
    else LLine false (startswith [HASH] t0) (lex_core line tokens)
  end.

Lemma lex_line_body body : trimmed body -> body <> [] -> lex_line false body = lex_tokens body (split2 body).
Proof. intros Ht Hne. unfold lex_line. cbn [andb]. rewrite (strip_trimmed _ Ht). destruct body; [congruence|]. reflexivity. Qed.

Definition qtext (c : chunk) : str := quoted c.

Lemma quoted_trimmed c : trimmed (quoted c) /\ quoted c <> [] /\ starts_nonspace (quoted c) /\ hd 0 (quoted c) <> bom.
Proof.
  assert (H34 : ~ is_space 34) by (unfold is_space; cbn [In]; intros H; repeat (destruct H as [H|H]; [discriminate H|]); destruct H).
  unfold quoted. repeat split; try discriminate; try exact H34.
  change (34 :: chunk_text c ++ [34]) with ((34 :: chunk_text c) ++ [34]). now rewrite last_last.
Qed.

Lemma not_space_chars : ~ is_space 35 /\ ~ is_space 34 /\ ~ is_space 109.
Proof. unfold is_space; cbn [In]; repeat split; intros H; repeat (destruct H as [H|H]; [discriminate H|]); destruct H. Qed.

(* ---- keyword lines:  msgid "..." *)
Definition kw_of (y : sym) : option str :=
  match y with Yct => Some k_msgctxt | Ymi => Some k_msgid | Ymp => Some k_msgid_plural | Yms => Some k_msgstr | _ => None end.

Lemma kw_facts y kw : kw_of y = Some kw -> no_space kw /\ kw <> [] /\ keyword_sym kw = Some y /\ trimmed kw /\ hd 0 kw <> bom.
Proof.
  assert (Hns : forall c, In c [109;115;103;99;116;120;105;100;114;95;112;108;117;97] -> ~ is_space c).
  { intros c Hc H. unfold is_space in H. cbn [In] in *. repeat (destruct Hc as [Hc|Hc]; [subst c; repeat (destruct H as [H|H]; [discriminate H|]); destruct H|]). destruct Hc. }
  destruct y; cbn; intros E; inversion E; subst; (split; [repeat constructor; apply Hns; cbn; tauto|]);
    (split; [discriminate|]); (split; [reflexivity|]); (split; [split; apply Hns; cbn; tauto | discriminate]).
Qed.

Lemma lex_core_kw dec y kw sep c : kw_of y = Some kw -> all_space sep -> sep <> [] -> chunk_ok dec c ->
  exists t1 r, split2 (kw ++ sep ++ quoted c) = kw :: t1 :: r /\
  lex_core (kw ++ sep ++ quoted c) (kw :: t1 :: r) = AProc y (quoted c).
Proof.
  intros Hk Hs Hne Hc. destruct (kw_facts y kw Hk) as (Hns & Hkne & Hsym & _).
  destruct (quoted_trimmed c) as (_ & _ & Hst & _).
  destruct (split2_two kw sep (quoted c) Hns Hkne Hs Hne Hst) as (t1 & r & E & _).
  exists t1, r. split; [exact E|]. unfold lex_core. rewrite Hsym.
  assert (El : lstrip (drop (length kw) (kw ++ sep ++ quoted c)) = quoted c).
  { unfold drop. rewrite skipn_app, skipn_all, Nat.sub_diag. cbn [skipn app]. rewrite lstrip_spaces by assumption. now apply lstrip_nonspace. }
  rewrite El, (quote_test dec c Hc). reflexivity.
Qed.

Lemma lex_kw dec y kw sep c : kw_of y = Some kw -> all_space sep -> sep <> [] -> chunk_ok dec c ->
  lex_line false (kw ++ sep ++ quoted c) = kw_tok false false y c.
Proof.
  intros Hk Hs Hne Hc. destruct (kw_facts y kw Hk) as (Hns & Hkne & Hsym & Htr & _).
  destruct (lex_core_kw dec y kw sep c Hk Hs Hne Hc) as (t1 & r & E & Hcore).
  assert (Htrim : trimmed (kw ++ sep ++ quoted c)).
  { destruct kw as [|k0 kw']; [congruence|]. destruct Htr as [H1 _]. split; [exact H1|].
    unfold quoted.
    replace ((k0 :: kw') ++ sep ++ 34 :: chunk_text c ++ [34]) with (((k0 :: kw') ++ sep ++ 34 :: chunk_text c) ++ [34])
      by (rewrite <- !app_assoc; reflexivity).
    rewrite last_last. apply not_space_chars. }
  rewrite lex_line_body; [|exact Htrim|destruct kw; [congruence|discriminate]]. rewrite E. unfold lex_tokens.
  assert (Hn1 : list_eqb kw [HASH; 126; 124] = false /\ list_eqb kw [HASH; 126] = false /\ startswith [HASH] kw = false).
  { destruct y; cbn in Hk; inversion Hk; subst; repeat split; reflexivity. }
  destruct Hn1 as (-> & -> & ->). cbn [andb]. rewrite Hcore. reflexivity.
Qed.

(* ---- continuation lines:  "..." *)
Lemma word_quoted_head c : exists w, fst (word (quoted c)) = 34 :: w.
Proof. unfold quoted. cbn [word]. change (py_isspace 34) with false. cbv iota.
  destruct (word (chunk_text c ++ [34])). eexists. reflexivity. Qed.

Lemma split2_quoted c : exists w r, split2 (quoted c) = (34 :: w) :: r.
Proof.
  unfold split2. destruct (quoted_trimmed c) as (_ & _ & Hst & _). rewrite (lstrip_nonspace _ Hst).
  destruct (word_quoted_head c) as [w Hw]. unfold quoted in *. destruct (word (34 :: chunk_text c ++ [34])) as [w1 t1]. cbn [fst] in Hw. subst w1.
  destruct (lstrip t1); [eexists _, _; reflexivity|]. destruct (word (n :: s)). destruct (lstrip s1); eexists _, _; reflexivity.
Qed.

Lemma lex_core_cont dec c w r : chunk_ok dec c -> lex_core (quoted c) ((34 :: w) :: r) = AProc Ymc (quoted c).
Proof.
  intros Hc. unfold lex_core.
  assert (Hk : keyword_sym (34 :: w) = None) by reflexivity. rewrite Hk.
  assert (H1 : list_eqb (34 :: w) [HASH; 58] = false) by reflexivity. rewrite H1.
  assert (H2 : startswith [34] (quoted c) = true) by reflexivity. rewrite H2.
  rewrite (quote_test dec c Hc). reflexivity.
Qed.

Lemma lex_cont dec c : chunk_ok dec c -> lex_line false (quoted c) = cont_tok false false c.
Proof.
  intros Hc. destruct (quoted_trimmed c) as (Htr & _). destruct (split2_quoted c) as (w & r & E).
  rewrite lex_line_body; [|exact Htr|discriminate]. rewrite E. unfold lex_tokens.
  assert (H1 : list_eqb (34 :: w) [HASH; 126; 124] = false) by reflexivity.
  assert (H2 : list_eqb (34 :: w) [HASH; 126] = false) by reflexivity.
  rewrite H1, H2. cbn [andb]. change (startswith [HASH] (34 :: w)) with false.
  rewrite (lex_core_cont dec c w r Hc). reflexivity.
Qed.

(* Each line of the printer family is classified back to its token by the model of
   _POFileParser.parse's line handling (strip, split(None, 2), #~ prefix, keywords, quote test). *)
From Coq Require Import List NArith Bool Lia ZifyBool Arith.
From I18n Require Import Lib.Outcome Model.PoUnescape Model.PoParser Spec.PoSyntax Proofs.PoStrings Proofs.PoParser.
Import ListNotations.
Local Open Scope N_scope.

(* ---------------------------------------------------------------- no unescaped quote inside a chunk *)
Lemma uq_skip d : forall s b, ~ In 34 d -> d <> [] -> exists b', unescaped_quote_aux (d ++ s) b = unescaped_quote_aux s b'.
Proof.
  induction d as [|c d IH]; intros s b Hn Hne; [congruence|]. cbn [app unescaped_quote_aux].
  destruct (N.eqb_spec c 34) as [->|Hc]; [exfalso; apply Hn; now left|]. cbn [andb].
  destruct d as [|c2 d']; [eexists; reflexivity|]. apply IH; [intros H; apply Hn; now right|discriminate].
Qed.

Lemma uq_item i s : item_ok i -> (forall b, unescaped_quote_aux s b = false) -> forall b, unescaped_quote_aux (item_text i ++ s) b = false.
Proof.
  intros Hok Hs b. destruct i as [e v | d | d]; cbn [item_text app].
  - cbn [unescaped_quote_aux]. cbn [N.eqb andb]. change (N.eqb 92 34) with false. cbn [andb].
    change (N.eqb 92 92) with true. rewrite andb_false_r. apply Hs.
  - cbn [unescaped_quote_aux]. change (N.eqb 92 34) with false. cbn [andb]. destruct Hok as (Hlen & Hd & _).
    destruct (uq_skip d s (N.eqb 92 92)) as [b' ->]; [| destruct d; [cbn in Hlen; lia|discriminate] | apply Hs].
    intros Hin. rewrite Forall_forall in Hd. specialize (Hd _ Hin). unfold c_octal in Hd. lia.
  - cbn [unescaped_quote_aux]. change (N.eqb 92 34) with false. cbn [andb].
    change (N.eqb 120 34) with false. cbn [andb]. destruct Hok as (Hlen & Hd).
    destruct (uq_skip d s (N.eqb 120 92)) as [b' ->]; [| destruct d; [cbn in Hlen; lia|discriminate] | apply Hs].
    intros Hin. rewrite Forall_forall in Hd. specialize (Hd _ Hin). unfold c_hex in Hd. lia.
Qed.

Lemma uq_items its s : Forall item_ok its -> (forall b, unescaped_quote_aux s b = false) ->
  forall b, unescaped_quote_aux (flat_map item_text its ++ s) b = false.
Proof. induction 1 as [|i its Hi _ IH]; intros Hs b; [apply Hs|]. cbn [flat_map]. rewrite <- app_assoc. apply uq_item; [assumption|]. now apply IH. Qed.

Lemma uq_lits cs s : Forall lit_ok cs -> (forall b, unescaped_quote_aux s b = false) ->
  forall b, unescaped_quote_aux (cs ++ s) b = false.
Proof. induction 1 as [|c cs Hc _ IH]; intros Hs b; [apply Hs|]. cbn [app unescaped_quote_aux].
  destruct Hc as (_ & H34 & _). destruct (N.eqb_spec c 34); [congruence|]. cbn [andb]. now apply IH. Qed.

Lemma uq_chunk dec ps : chunk_ok dec ps -> forall b, unescaped_quote_aux (chunk_text ps) b = false.
Proof.
  induction ps as [|p ps IH]; intros Hok b; [reflexivity|]. unfold chunk_text in *. cbn [flat_map].
  destruct p as [cs|its t]; cbn [chunk_ok piece_text] in *.
  - destruct Hok as (_ & Hl & _ & Hr). apply uq_lits; auto.
  - destruct Hok as (_ & Hi & _ & _ & Hr). apply uq_items; auto.
Qed.

Lemma quote_test dec c : chunk_ok dec c -> unescaped_quote (inner (quoted c)) = false.
Proof. intros H. rewrite inner_quoted. now apply (uq_chunk dec). Qed.

(* ---------------------------------------------------------------- words *)
Definition starts_nonspace (s : str) : Prop := match s with [] => False | c :: _ => ~ is_space c end.
Definition ends_word (s : str) : Prop := match s with [] => True | c :: _ => is_space c end.

Lemma word_app w s : no_space w -> ends_word s -> word (w ++ s) = (w, s).
Proof. induction 1 as [|c w Hc _ IH]; intros Hs.
  - cbn [app]. destruct s as [|c s]; [reflexivity|]. cbn in Hs. cbn [word]. now rewrite (space_true _ Hs).
  - cbn [app word]. rewrite (not_space_false _ Hc), IH by assumption. reflexivity. Qed.

Lemma lstrip_spaces ws s : all_space ws -> lstrip (ws ++ s) = lstrip s.
Proof. intros H. apply lstrip_by_all. now apply all_space_py. Qed.
Lemma lstrip_nonspace s : starts_nonspace s -> lstrip s = s.
Proof. destruct s as [|c s]; [contradiction|]. intros H. apply lstrip_by_stop. now apply not_space_false. Qed.

Lemma all_space_ends ws s : all_space ws -> ws <> [] -> ends_word (ws ++ s).
Proof. destruct ws; [congruence|]. intros H _. inversion H; subst. assumption. Qed.

(* the head of line.split(None, 2): first word, and whether something follows *)
Lemma split2_one w : no_space w -> w <> [] -> split2 w = [w].
Proof.
  intros Hw Hne. unfold split2. destruct w as [|c w']; [congruence|]. inversion Hw as [|? ? Hc Hw']; subst.
  rewrite lstrip_nonspace by exact Hc. pose proof (word_app (c :: w') [] Hw I) as E. rewrite app_nil_r in E. rewrite E. reflexivity.
Qed.

Lemma split2_two w sep x : no_space w -> w <> [] -> all_space sep -> sep <> [] -> starts_nonspace x ->
  exists t1 r, split2 (w ++ sep ++ x) = w :: t1 :: r /\ t1 = fst (word x) /\
               (r = [] \/ r = [lstrip (snd (word x))]) /\ (lstrip (snd (word x)) = [] <-> r = []).
Proof.
  intros Hw Hne Hs Hsne Hx. unfold split2. destruct w as [|c w']; [congruence|]. inversion Hw as [|? ? Hc Hw']; subst.
  rewrite lstrip_nonspace by exact Hc.
  rewrite (word_app (c :: w') (sep ++ x) Hw (all_space_ends sep x Hs Hsne)).
  rewrite lstrip_spaces by assumption. rewrite (lstrip_nonspace x Hx).
  destruct x as [|cx x']; [contradiction|]. destruct (word (cx :: x')) as [w2 t2] eqn:Ew. cbn [fst snd].
  destruct (lstrip t2) as [|c2 s2] eqn:El.
  - exists w2, []. repeat split; auto.
  - exists w2, [c2 :: s2]. repeat split; auto; try discriminate.
Qed.

(* ---------------------------------------------------------------- a physical line: padding, body, padding + line end *)
Lemma trimmed_last_app a c : ~ is_space c -> a <> [] \/ True -> last (a ++ [c]) 0 = c.
Proof. intros _ _. apply last_last. Qed.

Lemma strip_body lead body trail : all_space lead -> all_space trail -> trimmed body ->
  strip (lead ++ body ++ trail) = body.
Proof. apply strip_padded. Qed.

Lemma lex_padded first lead body trail : all_space lead -> all_space trail -> trimmed body -> body <> [] ->
  hd 0 body <> bom -> lex_line first (lead ++ body ++ trail) = lex_line false body.
Proof.
  intros Hl Ht Hb Hne Hbom. unfold lex_line.
  assert (E : (if first && startswith [bom] (lead ++ body ++ trail) then drop 1 (lead ++ body ++ trail) else lead ++ body ++ trail)
              = lead ++ body ++ trail).
  { destruct first; [|reflexivity]. cbn [andb].
    assert (Hs : startswith [bom] (lead ++ body ++ trail) = false).
    { destruct lead as [|c lead'].
      - destruct body as [|c body']; [congruence|]. cbn [app startswith]. cbn [hd] in Hbom. destruct (N.eqb_spec bom c); [congruence|reflexivity].
      - inversion Hl as [|? ? Hc _]; subst. cbn [app startswith]. destruct (N.eqb_spec bom c) as [<-|]; [|reflexivity].
        exfalso. unfold is_space, bom in Hc. cbn [In] in Hc. repeat (destruct Hc as [Hc|Hc]; [discriminate Hc|]). destruct Hc. }
    now rewrite Hs. }
  rewrite E. cbn [andb]. rewrite strip_body by assumption. rewrite (strip_trimmed body Hb). reflexivity.
Qed.

Lemma lex_blank first ws : all_space ws -> hd 0 ws <> bom \/ True -> lex_line first ws = LBlank.
Proof.
  intros Hw _. unfold lex_line.
  assert (Hstrip : forall s, all_space s -> strip s = []).
  { intros s Hs. unfold strip, strip_by, rstrip_by. rewrite (lstrip_by_only py_isspace s) by now apply all_space_py. reflexivity. }
  destruct (first && startswith [bom] ws).
  - rewrite Hstrip; [reflexivity|]. unfold drop. destruct ws; [constructor|]. inversion Hw; assumption.
  - now rewrite Hstrip.
Qed.

Definition lex_tokens (line : str) (tokens : list str) : lexed :=
  match tokens with
  | [] => LBlank
  | t0 :: rest =>
    if list_eqb t0 [HASH; 126; 124] then LPrevObsolete
    else if list_eqb t0 [HASH; 126] && negb (match rest with [] => true | _ => false end) then
      LLine true (match rest with t1 :: _ => startswith [HASH] t1 | [] => false end) (lex_core (strip (drop 3 line)) rest)
    else LLine false (startswith [HASH] t0) (lex_core line tokens)
  end.

Lemma lex_line_body body : trimmed body -> body <> [] -> lex_line false body = lex_tokens body (split2 body).
Proof. intros Ht Hne. unfold lex_line. cbn [andb]. rewrite (strip_trimmed _ Ht). destruct body; [congruence|]. reflexivity. Qed.

Definition qtext (c : chunk) : str := quoted c.

Lemma quoted_trimmed c : trimmed (quoted c) /\ quoted c <> [] /\ starts_nonspace (quoted c) /\ hd 0 (quoted c) <> bom.
Proof.
  assert (H34 : ~ is_space 34) by (unfold is_space; cbn [In]; intros H; repeat (destruct H as [H|H]; [discriminate H|]); destruct H).
  unfold quoted. repeat split; try discriminate; try exact H34.
  change (34 :: chunk_text c ++ [34]) with ((34 :: chunk_text c) ++ [34]). now rewrite last_last.
Qed.

Lemma not_space_chars : ~ is_space 35 /\ ~ is_space 34 /\ ~ is_space 109.
Proof. unfold is_space; cbn [In]; repeat split; intros H; repeat (destruct H as [H|H]; [discriminate H|]); destruct H. Qed.

(* ---- keyword lines:  msgid "..." *)
Definition kw_of (y : sym) : option str :=
  match y with Yct => Some k_msgctxt | Ymi => Some k_msgid | Ymp => Some k_msgid_plural | Yms => Some k_msgstr | _ => None end.

Lemma kw_facts y kw : kw_of y = Some kw -> no_space kw /\ kw <> [] /\ keyword_sym kw = Some y /\ trimmed kw /\ hd 0 kw <> bom.
Proof.
  assert (Hns : forall c, In c [109;115;103;99;116;120;105;100;114;95;112;108;117;97] -> ~ is_space c).
  { intros c Hc H. unfold is_space in H. cbn [In] in *. repeat (destruct Hc as [Hc|Hc]; [subst c; repeat (destruct H as [H|H]; [discriminate H|]); destruct H|]). destruct Hc. }
  destruct y; cbn; intros E; inversion E; subst; (split; [repeat constructor; apply Hns; cbn; tauto|]);
    (split; [discriminate|]); (split; [reflexivity|]); (split; [split; apply Hns; cbn; tauto | discriminate]).
Qed.

Lemma lex_core_kw dec y kw sep c : kw_of y = Some kw -> all_space sep -> sep <> [] -> chunk_ok dec c ->
  exists t1 r, split2 (kw ++ sep ++ quoted c) = kw :: t1 :: r /\
  lex_core (kw ++ sep ++ quoted c) (kw :: t1 :: r) = AProc y (quoted c).
Proof.
  intros Hk Hs Hne Hc. destruct (kw_facts y kw Hk) as (Hns & Hkne & Hsym & _).
  destruct (quoted_trimmed c) as (_ & _ & Hst & _).
  destruct (split2_two kw sep (quoted c) Hns Hkne Hs Hne Hst) as (t1 & r & E & _).
  exists t1, r. split; [exact E|]. unfold lex_core. rewrite Hsym.
  assert (El : lstrip (drop (length kw) (kw ++ sep ++ quoted c)) = quoted c).
  { unfold drop. rewrite skipn_app, skipn_all, Nat.sub_diag. cbn [skipn app]. rewrite lstrip_spaces by assumption. now apply lstrip_nonspace. }
  rewrite El, (quote_test dec c Hc). reflexivity.
Qed.

Lemma lex_kw dec y kw sep c : kw_of y = Some kw -> all_space sep -> sep <> [] -> chunk_ok dec c ->
  lex_line false (kw ++ sep ++ quoted c) = kw_tok false false y c.
Proof.
  intros Hk Hs Hne Hc. destruct (kw_facts y kw Hk) as (Hns & Hkne & Hsym & Htr & _).
  destruct (lex_core_kw dec y kw sep c Hk Hs Hne Hc) as (t1 & r & E & Hcore).
  assert (Htrim : trimmed (kw ++ sep ++ quoted c)).
  { destruct kw as [|k0 kw']; [congruence|]. destruct Htr as [H1 _]. split; [exact H1|].
    unfold quoted.
    replace ((k0 :: kw') ++ sep ++ 34 :: chunk_text c ++ [34]) with (((k0 :: kw') ++ sep ++ 34 :: chunk_text c) ++ [34])
      by (rewrite <- !app_assoc; reflexivity).
    rewrite last_last. apply not_space_chars. }
  rewrite lex_line_body; [|exact Htrim|destruct kw; [congruence|discriminate]]. rewrite E. unfold lex_tokens.
  assert (Hn1 : list_eqb kw [HASH; 126; 124] = false /\ list_eqb kw [HASH; 126] = false /\ startswith [HASH] kw = false).
  { destruct y; cbn in Hk; inversion Hk; subst; repeat split; reflexivity. }
  destruct Hn1 as (-> & -> & ->). cbn [andb]. rewrite Hcore. reflexivity.
Qed.

(* ---- continuation lines:  "..." *)
Lemma word_quoted_head c : exists w, fst (word (quoted c)) = 34 :: w.
Proof. unfold quoted. cbn [word]. change (py_isspace 34) with false. cbv iota.
  destruct (word (chunk_text c ++ [34])). eexists. reflexivity. Qed.

Lemma split2_quoted c : exists w r, split2 (quoted c) = (34 :: w) :: r.
Proof.
  unfold split2. destruct (quoted_trimmed c) as (_ & _ & Hst & _). rewrite (lstrip_nonspace _ Hst).
  destruct (word_quoted_head c) as [w Hw]. unfold quoted in *. destruct (word (34 :: chunk_text c ++ [34])) as [w1 t1]. cbn [fst] in Hw. subst w1.
  destruct (lstrip t1); [eexists _, _; reflexivity|]. destruct (word (n :: s)). destruct (lstrip s1); eexists _, _; reflexivity.
Qed.

Lemma lex_core_cont dec c w r : chunk_ok dec c -> lex_core (quoted c) ((34 :: w) :: r) = AProc Ymc (quoted c).
Proof.
  intros Hc. unfold lex_core.
  assert (Hk : keyword_sym (34 :: w) = None) by reflexivity. rewrite Hk.
  assert (H1 : list_eqb (34 :: w) [HASH; 58] = false) by reflexivity. rewrite H1.
  assert (H2 : startswith [34] (quoted c) = true) by reflexivity. rewrite H2.
  rewrite (quote_test dec c Hc). reflexivity.
Qed.

Lemma lex_cont dec c : chunk_ok dec c -> lex_line false (quoted c) = cont_tok false false c.
Proof.
  intros Hc. destruct (quoted_trimmed c) as (Htr & _). destruct (split2_quoted c) as (w & r & E).
  rewrite lex_line_body; [|exact Htr|discriminate]. rewrite E. unfold lex_tokens.
  assert (H1 : list_eqb (34 :: w) [HASH; 126; 124] = false) by reflexivity.
  assert (H2 : list_eqb (34 :: w) [HASH; 126] = false) by reflexivity.
  rewrite H1, H2. cbn [andb]. change (startswith [HASH] (34 :: w)) with false.
  rewrite (lex_core_cont dec c w r Hc). reflexivity.
Qed.

(* ---- comment lines:  # text   #. text   #: refs   #, flags *)
Lemma span_space s : exists ws x, s = ws ++ x /\ all_space ws /\ (x = [] \/ starts_nonspace x).
Proof.
  induction s as [|c s IH].
  - exists [], []. repeat split; [constructor|now left].
  - destruct (py_isspace c) eqn:E.
    + destruct IH as (ws & x & -> & Hws & Hx). exists (c :: ws), x. repeat split; [|exact Hx].
      constructor; [now apply is_space_iff|exact Hws].
    + exists [], (c :: s). repeat split; [constructor|]. right. cbn. intros H. apply is_space_iff in H. congruence.
Qed.

Lemma lex_hash_line t0 y sep s :
  In (t0, y) [([35], Ytc); ([35; 46], Ygc); ([35; 58], Yoc); ([35; 44], Yfl)] ->
  is_space sep -> trimmed (t0 ++ sep :: s) ->
  lex_line false (t0 ++ sep :: s) = LLine false true (AProc y (t0 ++ sep :: s)).
Proof.
  intros Hin Hsep Htr.
  assert (Hns : no_space t0 /\ t0 <> []).
  { assert (H35 : ~ is_space 35) by apply not_space_chars.
    assert (Hp : forall c, In c [46; 58; 44] -> ~ is_space c).
    { intros c Hc H. unfold is_space in H. cbn [In] in *. repeat (destruct Hc as [Hc|Hc]; [subst c; repeat (destruct H as [H|H]; [discriminate H|]); destruct H|]). destruct Hc. }
    cbn [In] in Hin. repeat (destruct Hin as [Hin|Hin]; [inversion Hin; subst; split; [repeat constructor; try assumption; apply Hp; cbn; tauto|discriminate]|]). destruct Hin. }
  destruct Hns as [Hns Hne].
  destruct (span_space s) as (ws & x & -> & Hws & Hx).
  assert (Hx' : starts_nonspace x).
  { destruct Hx as [-> | Hx]; [|exact Hx]. exfalso. rewrite app_nil_r in Htr.
    destruct t0 as [|c0 t0']; [congruence|]. destruct Htr as [_ Hl]. apply Hl.
    change ((c0 :: t0') ++ sep :: ws) with ((c0 :: t0') ++ (sep :: ws)).
    destruct (@exists_last _ (sep :: ws) ltac:(discriminate)) as (l' & z & Ez). rewrite Ez, app_assoc, last_last.
    assert (Hall : all_space (sep :: ws)) by (constructor; assumption). rewrite Ez in Hall.
    apply Forall_app in Hall. destruct Hall as [_ Hz]. now inversion Hz. }
  destruct (split2_two t0 (sep :: ws) x Hns Hne (Forall_cons _ Hsep Hws) ltac:(discriminate) Hx') as (t1 & r & E & _).
  change (t0 ++ (sep :: ws) ++ x) with (t0 ++ sep :: ws ++ x) in E.
  rewrite lex_line_body; [|exact Htr|destruct t0; [congruence|discriminate]]. rewrite E. unfold lex_tokens, lex_core.
  cbn [In] in Hin. repeat (destruct Hin as [Hin|Hin]; [inversion Hin; subst; reflexivity|]). destruct Hin.
Qed.

Lemma lex_tc_empty : lex_line false [35] = LLine false true (AProc Ytc [35]).
Proof. reflexivity. Qed.

Lemma trimmed_app_last a t : a <> [] -> ~ is_space (hd 0 a) -> t <> [] -> ~ is_space (last t 0) -> trimmed (a ++ t).
Proof.
  intros Ha Hh Ht Hl. destruct a as [|c a']; [congruence|]. split; [exact Hh|].
  destruct (@exists_last _ t Ht) as (t' & z & ->). rewrite last_last in Hl.
  rewrite app_assoc. now rewrite last_last.
Qed.

Lemma trimmed_parts t : trimmed t -> t <> [] -> starts_nonspace t /\ ~ is_space (last t 0).
Proof. destruct t; [congruence|]. intros [H1 H2] _. split; assumption. Qed.

Theorem lex_cline_simple cl : (forall dec, cline_ok dec cl) \/ True ->
  match cl with
  | CTrans t => trimmed t -> lex_line false (tc_cur t) = LLine false true (AProc Ytc (tc_cur t))
  | CExtr sep t => sep_ok sep -> t <> [] -> trimmed t ->
      lex_line false (35 :: 46 :: sep :: t) = LLine false true (AProc Ygc (35 :: 46 :: sep :: t))
  | _ => True
  end.
Proof.
  intros _. destruct cl as [t | sep t | | |]; try exact I.
  - intros Ht. unfold tc_cur. destruct t as [|c t']; [reflexivity|].
    destruct (trimmed_parts _ Ht ltac:(discriminate)) as [Hs Hl].
    apply (lex_hash_line [35] Ytc 32 (c :: t')); [cbn; tauto | unfold is_space; cbn; tauto |].
    change ([35] ++ 32 :: c :: t') with ([35; 32] ++ (c :: t')). apply trimmed_app_last; try discriminate; [apply not_space_chars|exact Hl].
  - intros [Hsep _] Hne Ht. destruct (trimmed_parts _ Ht Hne) as [Hs Hl].
    apply (lex_hash_line [35; 46] Ygc sep t); [cbn; tauto | exact Hsep |].
    change ([35; 46] ++ sep :: t) with ([35; 46; sep] ++ t). apply trimmed_app_last; try discriminate; [apply not_space_chars|assumption|exact Hl].
Qed.

(* #: and #, lines: the token is the whole line; trailing white space is not part of the body *)
Theorem lex_refs_flags_line t0 y sep body :
  In (t0, y) [([35; 58], Yoc); ([35; 44], Yfl)] -> is_space sep -> body <> [] -> ~ is_space (last body 0) ->
  lex_line false (t0 ++ sep :: body) = LLine false true (AProc y (t0 ++ sep :: body)).
Proof.
  intros Hin Hsep Hne Hl. apply lex_hash_line; [cbn [In] in *; tauto | exact Hsep |].
  assert (E : exists a, t0 ++ sep :: body = a ++ body /\ a <> [] /\ hd 0 a = 35).
  { cbn [In] in Hin. destruct Hin as [Hin|[Hin|[]]]; inversion Hin; subst; [exists [35; 58; sep]|exists [35; 44; sep]]; repeat split; discriminate. }
  destruct E as (a & -> & Ha & Hh). apply trimmed_app_last; try assumption. rewrite Hh. apply not_space_chars.
Qed.

(* ---- #~| lines are dropped *)
Lemma lex_prev_obsolete s : ends_word s -> trimmed ([35; 126; 124] ++ s) -> lex_line false ([35; 126; 124] ++ s) = LPrevObsolete.
Proof.
  intros Hs Htr. rewrite lex_line_body; [|exact Htr|discriminate].
  assert (Hns : no_space [35; 126; 124]).
  { repeat constructor; unfold is_space; cbn [In]; intros H; repeat (destruct H as [H|H]; [discriminate H|]); destruct H. }
  unfold split2. rewrite lstrip_nonspace by (cbn; inversion Hns; assumption).
  cbn [app] in *. change (35 :: 126 :: 124 :: s) with ([35; 126; 124] ++ s). rewrite (word_app _ _ Hns Hs).
  destruct (lstrip s); [reflexivity|]. destruct (word (n :: s0)). destruct (lstrip s2); reflexivity.
Qed.

(* ---- msgstr[i] "..." *)
Lemma lex_mx dec i ws c : i < 10 -> all_space ws -> ws <> [] -> chunk_ok dec c ->
  lex_line false (mx_cur i ws c) = LLine false false (AProc Ymx (mx_cur i ws c)).
Proof.
  intros Hi Hws Hne Hc.
  assert (Hd : idx_digits i = [48 + i]) by (unfold idx_digits; replace (i <? 10) with true by lia; reflexivity).
  set (t0 := k_msgstr_br ++ [48 + i; 93]).
  assert (Eb : mx_cur i ws c = t0 ++ ws ++ quoted c) by (unfold mx_cur, t0; rewrite Hd, <- !app_assoc; reflexivity).
  assert (Hns : no_space t0).
  { unfold t0, k_msgstr_br, k_msgstr. cbn [app]. repeat constructor;
      unfold is_space; cbn [In]; intros H; repeat (destruct H as [H|H]; [try discriminate H; lia|]); destruct H. }
  destruct (quoted_trimmed c) as (_ & _ & Hst & _).
  destruct (split2_two t0 ws (quoted c) Hns ltac:(discriminate) Hws Hne Hst) as (t1 & r & E & _).
  rewrite Eb.
  assert (Htr : trimmed (t0 ++ ws ++ quoted c)).
  { unfold quoted. replace (t0 ++ ws ++ 34 :: chunk_text c ++ [34]) with ((t0 ++ ws ++ 34 :: chunk_text c) ++ [34])
      by (rewrite <- !app_assoc; reflexivity).
    split; [apply not_space_chars|]. rewrite last_last. apply not_space_chars. }
  rewrite lex_line_body; [|exact Htr|discriminate]. rewrite E. unfold lex_tokens.
  assert (H1 : list_eqb t0 [HASH; 126; 124] = false) by reflexivity.
  assert (H2 : list_eqb t0 [HASH; 126] = false) by reflexivity.
  assert (H3 : startswith [HASH] t0 = false) by reflexivity.
  rewrite H1, H2, H3. cbn [andb]. unfold lex_core.
  assert (H4 : keyword_sym t0 = None) by reflexivity. rewrite H4.
  assert (H5 : list_eqb t0 [HASH; 58] = false) by reflexivity. rewrite H5.
  assert (H6 : startswith [34] (t0 ++ ws ++ quoted c) = false) by reflexivity. rewrite H6.
  assert (H7 : startswith k_msgstr_br (t0 ++ ws ++ quoted c) = true) by reflexivity. rewrite H7. reflexivity.
Qed.

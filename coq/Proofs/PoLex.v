(* Each line of the printer family is classified back to its token by the model of
   _POFileParser.parse's line handling (strip, split(None, 2), #~ prefix, keywords, quote test). *)
From Coq Require Import List NArith Bool Lia ZifyBool Arith.
From I18n Require Import Lib.Outcome Model.PoUnescape Model.PoParser Spec.PoSyntax Proofs.PoStrings Proofs.PoParser.
Import ListNotations.
Local Open Scope N_scope.

(* ---------------------------------------------------------------- no unescaped quote inside a chunk *)
Lemma uq_skip d : forall s b, ~ In 34 d -> d <> [] -> exists b', unescaped_quote_aux (d ++ s) b = unescaped_quote_aux s b'.
Proof.
  induction d as [|c d IH]; intros s b Hn Hne; [congruence|]. cbn [app unescaped_quote_aux].
  destruct (N.eqb_spec c 34) as [->|Hc]; [exfalso; apply Hn; now left|]. cbn [andb].
  destruct d as [|c2 d']; [eexists; reflexivity|]. apply IH; [intros H; apply Hn; now right|discriminate].
Qed.

Lemma uq_item i s : item_ok i -> (forall b, unescaped_quote_aux s b = false) -> forall b, unescaped_quote_aux (item_text i ++ s) b = false.
Proof.
  intros Hok Hs b. destruct i as [e v | d | d]; cbn [item_text app].
  - cbn [unescaped_quote_aux]. cbn [N.eqb andb]. change (N.eqb 92 34) with false. cbn [andb].
    change (N.eqb 92 92) with true. rewrite andb_false_r. apply Hs.
  - cbn [unescaped_quote_aux]. change (N.eqb 92 34) with false. cbn [andb]. destruct Hok as (Hlen & Hd & _).
    destruct (uq_skip d s (N.eqb 92 92)) as [b' ->]; [| destruct d; [cbn in Hlen; lia|discriminate] | apply Hs].
    intros Hin. rewrite Forall_forall in Hd. specialize (Hd _ Hin). unfold c_octal in Hd. lia.
  - cbn [unescaped_quote_aux]. change (N.eqb 92 34) with false. cbn [andb].
    change (N.eqb 120 34) with false. cbn [andb]. destruct Hok as (Hlen & Hd).
    destruct (uq_skip d s (N.eqb 120 92)) as [b' ->]; [| destruct d; [cbn in Hlen; lia|discriminate] | apply Hs].
    intros Hin. rewrite Forall_forall in Hd. specialize (Hd _ Hin). unfold c_hex in Hd. lia.
Qed.

Lemma uq_items its s : Forall item_ok its -> (forall b, unescaped_quote_aux s b = false) ->
  forall b, unescaped_quote_aux (flat_map item_text its ++ s) b = false.
Proof. induction 1 as [|i its Hi _ IH]; intros Hs b; [apply Hs|]. cbn [flat_map]. rewrite <- app_assoc. apply uq_item; [assumption|]. now apply IH. Qed.

Lemma uq_lits cs s : Forall lit_ok cs -> (forall b, unescaped_quote_aux s b = false) ->
  forall b, unescaped_quote_aux (cs ++ s) b = false.
Proof. induction 1 as [|c cs Hc _ IH]; intros Hs b; [apply Hs|]. cbn [app unescaped_quote_aux].
  destruct Hc as (_ & H34 & _). destruct (N.eqb_spec c 34); [congruence|]. cbn [andb]. now apply IH. Qed.

Lemma uq_chunk dec ps : chunk_ok dec ps -> forall b, unescaped_quote_aux (chunk_text ps) b = false.
Proof.
  induction ps as [|p ps IH]; intros Hok b; [reflexivity|]. unfold chunk_text in *. cbn [flat_map].
  destruct p as [cs|its t]; cbn [chunk_ok piece_text] in *.
  - destruct Hok as (_ & Hl & _ & Hr). apply uq_lits; auto.
  - destruct Hok as (_ & Hi & _ & _ & Hr). apply uq_items; auto.
Qed.

Lemma quote_test dec c : chunk_ok dec c -> unescaped_quote (inner (quoted c)) = false.
Proof. intros H. rewrite inner_quoted. now apply (uq_chunk dec). Qed.

(* ---------------------------------------------------------------- words *)
Definition starts_nonspace (s : str) : Prop := match s with [] => False | c :: _ => ~ is_space c end.
Definition ends_word (s : str) : Prop := match s with [] => True | c :: _ => is_space c end.

Lemma word_app w s : no_space w -> ends_word s -> word (w ++ s) = (w, s).
Proof. induction 1 as [|c w Hc _ IH]; intros Hs.
  - cbn [app]. destruct s as [|c s]; [reflexivity|]. cbn in Hs. cbn [word]. now rewrite (space_true _ Hs).
  - cbn [app word]. rewrite (not_space_false _ Hc), IH by assumption. reflexivity. Qed.

Lemma lstrip_spaces ws s : all_space ws -> lstrip (ws ++ s) = lstrip s.
Proof. intros H. apply lstrip_by_all. now apply all_space_py. Qed.
Lemma lstrip_nonspace s : starts_nonspace s -> lstrip s = s.
Proof. destruct s as [|c s]; [contradiction|]. intros H. apply lstrip_by_stop. now apply not_space_false. Qed.

Lemma all_space_ends ws s : all_space ws -> ws <> [] -> ends_word (ws ++ s).
Proof. destruct ws; [congruence|]. intros H _. inversion H; subst. assumption. Qed.

(* the head of line.split(None, 2): first word, and whether something follows *)
Lemma split2_one w : no_space w -> w <> [] -> split2 w = [w].
Proof.
  intros Hw Hne. unfold split2. destruct w as [|c w']; [congruence|]. inversion Hw as [|? ? Hc Hw']; subst.
  rewrite lstrip_nonspace by exact Hc. pose proof (word_app (c :: w') [] Hw I) as E. rewrite app_nil_r in E. rewrite E. reflexivity.
Qed.

Lemma split2_two w sep x : no_space w -> w <> [] -> all_space sep -> sep <> [] -> starts_nonspace x ->
  exists t1 r, split2 (w ++ sep ++ x) = w :: t1 :: r /\ t1 = fst (word x) /\
               (r = [] \/ r = [lstrip (snd (word x))]) /\ (lstrip (snd (word x)) = [] <-> r = []).
Proof.
  intros Hw Hne Hs Hsne Hx. unfold split2. destruct w as [|c w']; [congruence|]. inversion Hw as [|? ? Hc Hw']; subst.
  rewrite lstrip_nonspace by exact Hc.
  rewrite (word_app (c :: w') (sep ++ x) Hw (all_space_ends sep x Hs Hsne)).
  rewrite lstrip_spaces by assumption. rewrite (lstrip_nonspace x Hx).
  destruct x as [|cx x']; [contradiction|]. destruct (word (cx :: x')) as [w2 t2] eqn:Ew. cbn [fst snd].
  destruct (lstrip t2) as [|c2 s2] eqn:El.
  - exists w2, []. repeat split; auto.
  - exists w2, [c2 :: s2]. repeat split; auto; try discriminate.
Qed.

(* ---------------------------------------------------------------- a physical line: padding, body, padding + line end *)
Lemma trimmed_last_app a c : ~ is_space c -> a <> [] \/ True -> last (a ++ [c]) 0 = c.
Proof. intros _ _. apply last_last. Qed.

Lemma strip_body lead body trail : all_space lead -> all_space trail -> trimmed body ->
  strip (lead ++ body ++ trail) = body.
Proof. apply strip_padded. Qed.

Lemma lex_padded first lead body trail : all_space lead -> all_space trail -> trimmed body -> body <> [] ->
  hd 0 body <> bom -> lex_line first (lead ++ body ++ trail) = lex_line false body.
Proof.
  intros Hl Ht Hb Hne Hbom. unfold lex_line.
  assert (E : (if first && startswith [bom] (lead ++ body ++ trail) then drop 1 (lead ++ body ++ trail) else lead ++ body ++ trail)
              = lead ++ body ++ trail).
  { destruct first; [|reflexivity]. cbn [andb].
    assert (Hs : startswith [bom] (lead ++ body ++ trail) = false).
    { destruct lead as [|c lead'].
      - destruct body as [|c body']; [congruence|]. cbn [app startswith]. cbn [hd] in Hbom. destruct (N.eqb_spec bom c); [congruence|reflexivity].
      - inversion Hl as [|? ? Hc _]; subst. cbn [app startswith]. destruct (N.eqb_spec bom c) as [<-|]; [|reflexivity].
        exfalso. unfold is_space, bom in Hc. cbn [In] in Hc. repeat (destruct Hc as [Hc|Hc]; [discriminate Hc|]). destruct Hc. }
    now rewrite Hs. }
  rewrite E. cbn [andb]. rewrite strip_body by assumption. rewrite (strip_trimmed body Hb). reflexivity.
Qed.

Lemma lex_blank first ws : all_space ws -> hd 0 ws <> bom \/ True -> lex_line first ws = LBlank.
Proof.
  intros Hw _. unfold lex_line.
  assert (Hstrip : forall s, all_space s -> strip s = []).
  { intros s Hs. unfold strip, strip_by, rstrip_by. rewrite (lstrip_by_only py_isspace s) by now apply all_space_py. reflexivity. }
  destruct (first && startswith [bom] ws).
  - rewrite Hstrip; [reflexivity|]. unfold drop. destruct ws; [constructor|]. inversion Hw; assumption.
  - now rewrite Hstrip.
Qed.

Definition lex_tokens (line : str) (tokens : list str) : lexed :=
  match tokens with
  | [] => LBlank
  | t0 :: rest =>
    if list_eqb t0 [HASH; 126; 124] then LPrevObsolete
    else if list_eqb t0 [HASH; 126] && negb (match rest with [] => true | _ => false end) then
      LLine true (match rest with t1 :: _ => startswith [HASH] t1 | [] => false end) (lex_core (strip (drop 3 line)) rest)
    else LLine false (startswith [HASH] t0) (lex_core line tokens)
  end.

Lemma lex_line_body body : trimmed body -> body <> [] -> lex_line false body = lex_tokens body (split2 body).
Proof. intros Ht Hne. unfold lex_line. cbn [andb]. rewrite (strip_trimmed _ Ht). destruct body; [congruence|]. reflexivity. Qed.

Definition qtext (c : chunk) : str := quoted c.

Lemma quoted_trimmed c : trimmed (quoted c) /\ quoted c <> [] /\ starts_nonspace (quoted c) /\ hd 0 (quoted c) <> bom.
Proof.
  assert (H34 : ~ is_space 34) by (unfold is_space; cbn [In]; intros H; repeat (destruct H as [H|H]; [discriminate H|]); destruct H).
  unfold quoted. repeat split; try discriminate; try exact H34.
  change (34 :: chunk_text c ++ [34]) with ((34 :: chunk_text c) ++ [34]). now rewrite last_last.
Qed.

Lemma not_space_chars : ~ is_space 35 /\ ~ is_space 34 /\ ~ is_space 109.
Proof. unfold is_space; cbn [In]; repeat split; intros H; repeat (destruct H as [H|H]; [discriminate H|]); destruct H. Qed.

(* ---- keyword lines:  msgid "..." *)
Definition kw_of (y : sym) : option str :=
  match y with Yct => Some k_msgctxt | Ymi => Some k_msgid | Ymp => Some k_msgid_plural | Yms => Some k_msgstr | _ => None end.

Lemma kw_facts y kw : kw_of y = Some kw -> no_space kw /\ kw <> [] /\ keyword_sym kw = Some y /\ trimmed kw /\ hd 0 kw <> bom.
Proof.
  assert (Hns : forall c, In c [109;115;103;99;116;120;105;100;114;95;112;108;117;97] -> ~ is_space c).
  { intros c Hc H. unfold is_space in H. cbn [In] in *. repeat (destruct Hc as [Hc|Hc]; [subst c; repeat (destruct H as [H|H]; [discriminate H|]); destruct H|]). destruct Hc. }
  destruct y; cbn; intros E; inversion E; subst; (split; [repeat constructor; apply Hns; cbn; tauto|]);
    (split; [discriminate|]); (split; [reflexivity|]); (split; [split; apply Hns; cbn; tauto | discriminate]).
Qed.

Lemma lex_core_kw dec y kw sep c : kw_of y = Some kw -> all_space sep -> sep <> [] -> chunk_ok dec c ->
  exists t1 r, split2 (kw ++ sep ++ quoted c) = kw :: t1 :: r /\
  lex_core (kw ++ sep ++ quoted c) (kw :: t1 :: r) = AProc y (quoted c).
Proof.
  intros Hk Hs Hne Hc. destruct (kw_facts y kw Hk) as (Hns & Hkne & Hsym & _).
  destruct (quoted_trimmed c) as (_ & _ & Hst & _).
  destruct (split2_two kw sep (quoted c) Hns Hkne Hs Hne Hst) as (t1 & r & E & _).
  exists t1, r. split; [exact E|]. unfold lex_core. rewrite Hsym.
  assert (El : lstrip (drop (length kw) (kw ++ sep ++ quoted c)) = quoted c).
  { unfold drop. rewrite skipn_app, skipn_all, Nat.sub_diag. cbn [skipn app]. rewrite lstrip_spaces by assumption. now apply lstrip_nonspace. }
  rewrite El, (quote_test dec c Hc). reflexivity.
Qed.

Lemma lex_kw dec y kw sep c : kw_of y = Some kw -> all_space sep -> sep <> [] -> chunk_ok dec c ->
  lex_line false (kw ++ sep ++ quoted c) = kw_tok false false y c.
Proof.
  intros Hk Hs Hne Hc. destruct (kw_facts y kw Hk) as (Hns & Hkne & Hsym & Htr & _).
  destruct (lex_core_kw dec y kw sep c Hk Hs Hne Hc) as (t1 & r & E & Hcore).
  assert (Htrim : trimmed (kw ++ sep ++ quoted c)).
  { destruct kw as [|k0 kw']; [congruence|]. destruct Htr as [H1 _]. split; [exact H1|].
    unfold quoted.
    replace ((k0 :: kw') ++ sep ++ 34 :: chunk_text c ++ [34]) with (((k0 :: kw') ++ sep ++ 34 :: chunk_text c) ++ [34])
      by (rewrite <- !app_assoc; reflexivity).
    rewrite last_last. apply not_space_chars. }
  rewrite lex_line_body; [|exact Htrim|destruct kw; [congruence|discriminate]]. rewrite E. unfold lex_tokens.
  assert (Hn1 : list_eqb kw [HASH; 126; 124] = false /\ list_eqb kw [HASH; 126] = false /\ startswith [HASH] kw = false).
  { destruct y; cbn in Hk; inversion Hk; subst; repeat split; reflexivity. }
  destruct Hn1 as (-> & -> & ->). cbn [andb]. rewrite Hcore. reflexivity.
Qed.

(* ---- continuation lines:  "..." *)
Lemma word_quoted_head c : exists w, fst (word (quoted c)) = 34 :: w.
Proof. unfold quoted. cbn [word]. change (py_isspace 34) with false. cbv iota.
  destruct (word (chunk_text c ++ [34])). eexists. reflexivity. Qed.

Lemma split2_quoted c : exists w r, split2 (quoted c) = (34 :: w) :: r.
Proof.
  unfold split2. destruct (quoted_trimmed c) as (_ & _ & Hst & _). rewrite (lstrip_nonspace _ Hst).
  destruct (word_quoted_head c) as [w Hw]. unfold quoted in *. destruct (word (34 :: chunk_text c ++ [34])) as [w1 t1]. cbn [fst] in Hw. subst w1.
  destruct (lstrip t1); [eexists _, _; reflexivity|]. destruct (word (n :: s)). destruct (lstrip s1); eexists _, _; reflexivity.
Qed.

Lemma lex_core_cont dec c w r : chunk_ok dec c -> lex_core (quoted c) ((34 :: w) :: r) = AProc Ymc (quoted c).
Proof.
  intros Hc. unfold lex_core.
  assert (Hk : keyword_sym (34 :: w) = None) by reflexivity. rewrite Hk.
  assert (H1 : list_eqb (34 :: w) [HASH; 58] = false) by reflexivity. rewrite H1.
  assert (H2 : startswith [34] (quoted c) = true) by reflexivity. rewrite H2.
  rewrite (quote_test dec c Hc). reflexivity.
Qed.

Lemma lex_cont dec c : chunk_ok dec c -> lex_line false (quoted c) = cont_tok false false c.
Proof.
  intros Hc. destruct (quoted_trimmed c) as (Htr & _). destruct (split2_quoted c) as (w & r & E).
  rewrite lex_line_body; [|exact Htr|discriminate]. rewrite E. unfold lex_tokens.
  assert (H1 : list_eqb (34 :: w) [HASH; 126; 124] = false) by reflexivity.
  assert (H2 : list_eqb (34 :: w) [HASH; 126] = false) by reflexivity.
  rewrite H1, H2. cbn [andb]. change (startswith [HASH] (34 :: w)) with false.
  rewrite (lex_core_cont dec c w r Hc). reflexivity.
Qed.

(* ---- comment lines:  # text   #. text   #: refs   #, flags *)
Lemma span_space s : exists ws x, s = ws ++ x /\ all_space ws /\ (x = [] \/ starts_nonspace x).
Proof.
  induction s as [|c s IH].
  - exists [], []. repeat split; [constructor|now left].
  - destruct (py_isspace c) eqn:E.
    + destruct IH as (ws & x & -> & Hws & Hx). exists (c :: ws), x. repeat split; [|exact Hx].
      constructor; [now apply is_space_iff|exact Hws].
    + exists [], (c :: s). repeat split; [constructor|]. right. cbn. intros H. apply is_space_iff in H. congruence.
Qed.

Lemma lex_hash_line t0 y sep s :
  In (t0, y) [([35], Ytc); ([35; 46], Ygc); ([35; 58], Yoc); ([35; 44], Yfl)] ->
  is_space sep -> trimmed (t0 ++ sep :: s) ->
  lex_line false (t0 ++ sep :: s) = LLine false true (AProc y (t0 ++ sep :: s)).
Proof.
  intros Hin Hsep Htr.
  assert (Hns : no_space t0 /\ t0 <> []).
  { assert (H35 : ~ is_space 35) by apply not_space_chars.
    assert (Hp : forall c, In c [46; 58; 44] -> ~ is_space c).
    { intros c Hc H. unfold is_space in H. cbn [In] in *. repeat (destruct Hc as [Hc|Hc]; [subst c; repeat (destruct H as [H|H]; [discriminate H|]); destruct H|]). destruct Hc. }
    cbn [In] in Hin. repeat (destruct Hin as [Hin|Hin]; [inversion Hin; subst; split; [repeat constructor; try assumption; apply Hp; cbn; tauto|discriminate]|]). destruct Hin. }
  destruct Hns as [Hns Hne].
  destruct (span_space s) as (ws & x & -> & Hws & Hx).
  assert (Hx' : starts_nonspace x).
  { destruct Hx as [-> | Hx]; [|exact Hx]. exfalso. rewrite app_nil_r in Htr.
    destruct t0 as [|c0 t0']; [congruence|]. destruct Htr as [_ Hl]. apply Hl.
    change ((c0 :: t0') ++ sep :: ws) with ((c0 :: t0') ++ (sep :: ws)).
    destruct (@exists_last _ (sep :: ws) ltac:(discriminate)) as (l' & z & Ez). rewrite Ez, app_assoc, last_last.
    assert (Hall : all_space (sep :: ws)) by (constructor; assumption). rewrite Ez in Hall.
    apply Forall_app in Hall. destruct Hall as [_ Hz]. now inversion Hz. }
  destruct (split2_two t0 (sep :: ws) x Hns Hne (Forall_cons _ Hsep Hws) ltac:(discriminate) Hx') as (t1 & r & E & _).
  change (t0 ++ (sep :: ws) ++ x) with (t0 ++ sep :: ws ++ x) in E.
  rewrite lex_line_body; [|exact Htr|destruct t0; [congruence|discriminate]]. rewrite E. unfold lex_tokens, lex_core.
  cbn [In] in Hin. repeat (destruct Hin as [Hin|Hin]; [inversion Hin; subst; reflexivity|]). destruct Hin.
Qed.

Lemma lex_tc_empty : lex_line false [35] = LLine false true (AProc Ytc [35]).
Proof. reflexivity. Qed.

Lemma trimmed_app_last a t : a <> [] -> ~ is_space (hd 0 a) -> t <> [] -> ~ is_space (last t 0) -> trimmed (a ++ t).
Proof.
  intros Ha Hh Ht Hl. destruct a as [|c a']; [congruence|]. split; [exact Hh|].
  destruct (@exists_last _ t Ht) as (t' & z & ->). rewrite last_last in Hl.
  rewrite app_assoc. now rewrite last_last.
Qed.

Lemma trimmed_parts t : trimmed t -> t <> [] -> starts_nonspace t /\ ~ is_space (last t 0).
Proof. destruct t; [congruence|]. intros [H1 H2] _. split; assumption. Qed.

Theorem lex_cline_simple cl : (forall dec, cline_ok dec cl) \/ True ->
  match cl with
  | CTrans t => trimmed t -> lex_line false (tc_cur t) = LLine false true (AProc Ytc (tc_cur t))
  | CExtr sep t => sep_ok sep -> t <> [] -> trimmed t ->
      lex_line false (35 :: 46 :: sep :: t) = LLine false true (AProc Ygc (35 :: 46 :: sep :: t))
  | _ => True
  end.
Proof.
  intros _. destruct cl as [t | sep t | | |]; try exact I.
  - intros Ht. unfold tc_cur. destruct t as [|c t']; [reflexivity|].
    destruct (trimmed_parts _ Ht ltac:(discriminate)) as [Hs Hl].
    apply (lex_hash_line [35] Ytc 32 (c :: t')); [cbn; tauto | unfold is_space; cbn; tauto |].
    change ([35] ++ 32 :: c :: t') with ([35; 32] ++ (c :: t')). apply trimmed_app_last; try discriminate; [apply not_space_chars|exact Hl].
  - intros [Hsep _] Hne Ht. destruct (trimmed_parts _ Ht Hne) as [Hs Hl].
    apply (lex_hash_line [35; 46] Ygc sep t); [cbn; tauto | exact Hsep |].
    change ([35; 46] ++ sep :: t) with ([35; 46; sep] ++ t). apply trimmed_app_last; try discriminate; [apply not_space_chars|assumption|exact Hl].
Qed.

(* #: and #, lines: the token is the whole line; trailing white space is not part of the body *)
Theorem lex_refs_flags_line t0 y sep body :
  In (t0, y) [([35; 58], Yoc); ([35; 44], Yfl)] -> is_space sep -> body <> [] -> ~ is_space (last body 0) ->
  lex_line false (t0 ++ sep :: body) = LLine false true (AProc y (t0 ++ sep :: body)).
Proof.
  intros Hin Hsep Hne Hl. apply lex_hash_line; [cbn [In] in *; tauto | exact Hsep |].
  assert (E : exists a, t0 ++ sep :: body = a ++ body /\ a <> [] /\ hd 0 a = 35).
  { cbn [In] in Hin. destruct Hin as [Hin|[Hin|[]]]; inversion Hin; subst; [exists [35; 58; sep]|exists [35; 44; sep]]; repeat split; discriminate. }
  destruct E as (a & -> & Ha & Hh). apply trimmed_app_last; try assumption. rewrite Hh. apply not_space_chars.
Qed.

(* ---- #~| lines are dropped *)
Lemma lex_prev_obsolete s : ends_word s -> trimmed ([35; 126; 124] ++ s) -> lex_line false ([35; 126; 124] ++ s) = LPrevObsolete.
Proof.
  intros Hs Htr. rewrite lex_line_body; [|exact Htr|discriminate].
  assert (Hns : no_space [35; 126; 124]).
  { repeat constructor; unfold is_space; cbn [In]; intros H; repeat (destruct H as [H|H]; [discriminate H|]); destruct H. }
  unfold split2. rewrite lstrip_nonspace by (cbn; inversion Hns; assumption).
  cbn [app] in *. change (35 :: 126 :: 124 :: s) with ([35; 126; 124] ++ s). rewrite (word_app _ _ Hns Hs).
  destruct (lstrip s); [reflexivity|]. destruct (word (n :: s0)). destruct (lstrip s2); reflexivity.
Qed.

(* ---- msgstr[i] "..." *)
Lemma lex_mx dec i ws c : i < 10 -> all_space ws -> ws <> [] -> chunk_ok dec c ->
  lex_line false (mx_cur i ws c) = LLine false false (AProc Ymx (mx_cur i ws c)).
Proof.
  intros Hi Hws Hne Hc.
  assert (Hd : idx_digits i = [48 + i]) by (unfold idx_digits; replace (i <? 10) with true by lia; reflexivity).
  set (t0 := k_msgstr_br ++ [48 + i; 93]).
  assert (Eb : mx_cur i ws c = t0 ++ ws ++ quoted c) by (unfold mx_cur, t0; rewrite Hd, <- !app_assoc; reflexivity).
  assert (Hns : no_space t0).
  { unfold t0, k_msgstr_br, k_msgstr. cbn [app]. repeat constructor;
      unfold is_space; cbn [In]; intros H; repeat (destruct H as [H|H]; [try discriminate H; lia|]); destruct H. }
  destruct (quoted_trimmed c) as (_ & _ & Hst & _).
  destruct (split2_two t0 ws (quoted c) Hns ltac:(discriminate) Hws Hne Hst) as (t1 & r & E & _).
  rewrite Eb.
  assert (Htr : trimmed (t0 ++ ws ++ quoted c)).
  { unfold quoted. replace (t0 ++ ws ++ 34 :: chunk_text c ++ [34]) with ((t0 ++ ws ++ 34 :: chunk_text c) ++ [34])
      by (rewrite <- !app_assoc; reflexivity).
    split; [apply not_space_chars|]. rewrite last_last. apply not_space_chars. }
  rewrite lex_line_body; [|exact Htr|discriminate]. rewrite E. unfold lex_tokens.
  assert (H1 : list_eqb t0 [HASH; 126; 124] = false) by reflexivity.
  assert (H2 : list_eqb t0 [HASH; 126] = false) by reflexivity.
  assert (H3 : startswith [HASH] t0 = false) by reflexivity.
  rewrite H1, H2, H3. cbn [andb]. unfold lex_core.
  assert (H4 : keyword_sym t0 = None) by reflexivity. rewrite H4.
  assert (H5 : list_eqb t0 [HASH; 58] = false) by reflexivity. rewrite H5.
  assert (H6 : startswith [34] (t0 ++ ws ++ quoted c) = false) by reflexivity. rewrite H6.
  assert (H7 : startswith k_msgstr_br (t0 ++ ws ++ quoted c) = true) by reflexivity. rewrite H7. reflexivity.
Qed.

(* ================================================================ prefixed lines: #~ ... and #| ... *)
Definition rest_tokens (x : str) : list str :=      (* what split(None, 2) leaves after the first token, for the text x *)
  fst (word x) :: match lstrip (snd (word x)) with [] => [] | l => [l] end.

Lemma split2_prefixed w sep x : no_space w -> w <> [] -> all_space sep -> sep <> [] -> starts_nonspace x ->
  split2 (w ++ sep ++ x) = w :: rest_tokens x.
Proof.
  intros Hw Hne Hs Hsne Hx. destruct (split2_two w sep x Hw Hne Hs Hsne Hx) as (t1 & r & E & -> & Hr & Hiff).
  rewrite E. unfold rest_tokens. f_equal. f_equal. destruct Hr as [-> | ->].
  - destruct Hiff as [_ H]. now rewrite (H eq_refl).
  - destruct (lstrip (snd (word x))) eqn:El; [|reflexivity]. destruct Hiff as [H _]. discriminate (H eq_refl).
Qed.

Lemma hash_tok_nospace c : In c [126; 124] -> no_space [35; c] /\ ~ is_space 35.
Proof. intros Hc. assert (H35 : ~ is_space 35) by apply not_space_chars. split; [|exact H35].
  constructor; [exact H35|]. constructor; [|constructor]. unfold is_space. cbn [In] in *. intros H.
  destruct Hc as [<-|[<-|[]]]; repeat (destruct H as [H|H]; [discriminate H|]); destruct H. Qed.

Lemma lex_obs_line osep inner : sep_str_ok osep -> trimmed inner -> starts_nonspace inner ->
  lex_line false ([35; 126] ++ osep ++ inner) =
  LLine true (startswith [HASH] (fst (word inner))) (lex_core inner (rest_tokens inner)).
Proof.
  intros [Hne Hsp] Htr Hst.
  destruct (hash_tok_nospace 126 ltac:(cbn; tauto)) as [Hns H35].
  assert (Hinner : inner <> []) by (destruct inner; [contradiction|discriminate]).
  assert (Hbody : trimmed ([35; 126] ++ osep ++ inner)).
  { replace ([35; 126] ++ osep ++ inner) with (([35; 126] ++ osep) ++ inner) by now rewrite <- app_assoc.
    destruct (trimmed_parts _ Htr Hinner) as [_ Hl]. apply trimmed_app_last; try assumption; discriminate. }
  rewrite lex_line_body; [|exact Hbody|discriminate].
  rewrite (split2_prefixed [35; 126] osep inner Hns ltac:(discriminate) Hsp Hne Hst).
  unfold lex_tokens, rest_tokens. change (list_eqb [35; 126] [HASH; 126; 124]) with false.
  change (list_eqb [35; 126] [HASH; 126]) with true. cbn [andb negb]. cbv iota.
  assert (Es : strip (drop 3 ([35; 126] ++ osep ++ inner)) = inner).
  { destruct osep as [|o osep']; [congruence|]. inversion Hsp; subst. cbn [app drop skipn].
    pose proof (strip_padded osep' inner [] ltac:(assumption) (Forall_nil _) Htr) as E. now rewrite app_nil_r in E. }
  rewrite Es. reflexivity.
Qed.

Lemma lex_core_kw_gen dec y kw sep c (rest : list PoParser.str) : kw_of y = Some kw -> all_space sep -> sep <> [] -> chunk_ok dec c -> rest <> [] ->
  lex_core (kw ++ sep ++ quoted c) (kw :: rest) = AProc y (quoted c).
Proof.
  intros Hk Hs Hne Hc Hr. destruct (kw_facts y kw Hk) as (Hns & Hkne & Hsym & _).
  destruct (quoted_trimmed c) as (_ & _ & Hst & _). unfold lex_core. rewrite Hsym.
  destruct rest as [|t1 r]; [congruence|].
  assert (El : lstrip (drop (length kw) (kw ++ sep ++ quoted c)) = quoted c).
  { unfold drop. rewrite skipn_app, skipn_all, Nat.sub_diag. cbn [skipn app]. rewrite lstrip_spaces by assumption. now apply lstrip_nonspace. }
  rewrite El, (quote_test dec c Hc). reflexivity.
Qed.

Lemma kw_line_facts y kw sep c : kw_of y = Some kw -> all_space sep -> sep <> [] ->
  trimmed (kw ++ sep ++ quoted c) /\ starts_nonspace (kw ++ sep ++ quoted c) /\
  word (kw ++ sep ++ quoted c) = (kw, sep ++ quoted c) /\ lstrip (sep ++ quoted c) = quoted c.
Proof.
  intros Hk Hs Hne. destruct (kw_facts y kw Hk) as (Hns & Hkne & _ & Htr & _).
  destruct (quoted_trimmed c) as (_ & _ & Hst & _).
  split; [|split; [|split]].
  - destruct kw as [|k0 kw']; [congruence|]. destruct Htr as [H1 _]. split; [exact H1|]. unfold quoted.
    replace ((k0 :: kw') ++ sep ++ 34 :: chunk_text c ++ [34]) with (((k0 :: kw') ++ sep ++ 34 :: chunk_text c) ++ [34])
      by (rewrite <- !app_assoc; reflexivity).
    rewrite last_last. apply not_space_chars.
  - destruct kw as [|k0 kw']; [congruence|]. destruct Htr as [H1 _]. exact H1.
  - apply word_app; [assumption|]. now apply all_space_ends.
  - rewrite lstrip_spaces by assumption. now apply lstrip_nonspace.
Qed.

Lemma rest_tokens_eq x w t : word x = (w, t) -> lstrip t <> [] -> rest_tokens x = [w; lstrip t].
Proof. intros Hw Hl. unfold rest_tokens. rewrite Hw. cbn [fst snd]. destruct (lstrip t); [congruence|reflexivity]. Qed.

Lemma quoted_match {A} c (a : A) (f : str -> A) : match quoted c with [] => a | n :: l => f (n :: l) end = f (quoted c).
Proof. reflexivity. Qed.

Lemma lex_obs_kw dec y kw osep sep c : kw_of y = Some kw -> sep_str_ok osep -> all_space sep -> sep <> [] -> chunk_ok dec c ->
  lex_line false ([35; 126] ++ osep ++ kw ++ sep ++ quoted c) = kw_tok true false y c.
Proof.
  intros Hk Ho Hs Hne Hc. destruct (kw_line_facts y kw sep c Hk Hs Hne) as (Htr & Hst & Hw & Hl).
  rewrite (lex_obs_line osep _ Ho Htr Hst). rewrite (rest_tokens_eq _ _ _ Hw) by (rewrite Hl; discriminate).
  rewrite Hw, Hl. cbn [fst].
  assert (Hh : startswith [HASH] kw = false) by (destruct y; cbn in Hk; inversion Hk; reflexivity).
  rewrite Hh. unfold kw_tok. f_equal. apply (lex_core_kw_gen dec y kw sep c); try assumption. discriminate.
Qed.

Lemma lex_obs_cont dec osep c : sep_str_ok osep -> chunk_ok dec c ->
  lex_line false ([35; 126] ++ osep ++ quoted c) = cont_tok true false c.
Proof.
  intros Ho Hc. destruct (quoted_trimmed c) as (Htr & _ & Hst & _).
  rewrite (lex_obs_line osep _ Ho Htr Hst). unfold rest_tokens. destruct (word_quoted_head c) as [w Hw]. rewrite Hw.
  rewrite (lex_core_cont dec c w _ Hc). reflexivity.
Qed.

Lemma mx_line_facts i ws c : i < 10 -> all_space ws -> ws <> [] ->
  let t0 := k_msgstr_br ++ [48 + i; 93] in
  mx_cur i ws c = t0 ++ ws ++ quoted c /\ trimmed (t0 ++ ws ++ quoted c) /\ starts_nonspace (t0 ++ ws ++ quoted c) /\
  word (t0 ++ ws ++ quoted c) = (t0, ws ++ quoted c) /\
  forall rest, lex_core (t0 ++ ws ++ quoted c) (t0 :: rest) = AProc Ymx (t0 ++ ws ++ quoted c).
Proof.
  intros Hi Hws Hne t0.
  assert (Hd : idx_digits i = [48 + i]) by (unfold idx_digits; replace (i <? 10) with true by lia; reflexivity).
  assert (Hns : no_space t0).
  { unfold t0, k_msgstr_br, k_msgstr. cbn [app]. repeat constructor;
      unfold is_space; cbn [In]; intros H; repeat (destruct H as [H|H]; [try discriminate H; lia|]); destruct H. }
  split; [unfold mx_cur, t0; rewrite Hd, <- !app_assoc; reflexivity|].
  split; [|split; [|split]].
  - unfold quoted. replace (t0 ++ ws ++ 34 :: chunk_text c ++ [34]) with ((t0 ++ ws ++ 34 :: chunk_text c) ++ [34])
      by (rewrite <- !app_assoc; reflexivity).
    split; [apply not_space_chars|]. rewrite last_last. apply not_space_chars.
  - apply not_space_chars.
  - apply word_app; [assumption|]. now apply all_space_ends.
  - intros rest. unfold lex_core.
    assert (H4 : keyword_sym t0 = None) by reflexivity. rewrite H4.
    assert (H5 : list_eqb t0 [HASH; 58] = false) by reflexivity. rewrite H5.
    assert (H6 : startswith [34] (t0 ++ ws ++ quoted c) = false) by reflexivity. rewrite H6.
    assert (H7 : startswith k_msgstr_br (t0 ++ ws ++ quoted c) = true) by reflexivity. rewrite H7. reflexivity.
Qed.

Lemma lex_obs_mx osep i ws c : sep_str_ok osep -> i < 10 -> all_space ws -> ws <> [] ->
  lex_line false ([35; 126] ++ osep ++ mx_cur i ws c) = LLine true false (AProc Ymx (mx_cur i ws c)).
Proof.
  intros Ho Hi Hws Hne. destruct (mx_line_facts i ws c Hi Hws Hne) as (Eb & Htr & Hst & Hw & Hcore).
  rewrite Eb. rewrite (lex_obs_line osep _ Ho Htr Hst). unfold rest_tokens. rewrite Hw. cbn [fst snd].
  rewrite Hcore. reflexivity.
Qed.

(* ---- #| msgid "..."  and  #| "..." *)
Lemma lex_prev_line psep inner : sep_str_ok psep -> trimmed inner -> starts_nonspace inner ->
  lex_line false ([35; 124] ++ psep ++ inner) =
  LLine false true
    (if startswith [34] (fst (word inner)) then AProc Ymc inner
     else match lstrip (snd (word inner)) with
          | [] => AFail DInvalidContinuation
          | _ => match prev_keyword_sym (fst (word inner)) with
                 | None => AFail (DUnknownKeyword (fst (word inner)))
                 | Some y => AProc y (lstrip (drop (length (fst (word inner))) inner))
                 end
          end).
Proof.
  intros [Hne Hsp] Htr Hst.
  destruct (hash_tok_nospace 124 ltac:(cbn; tauto)) as [Hns H35].
  assert (Hinner : inner <> []) by (destruct inner; [contradiction|discriminate]).
  assert (Hbody : trimmed ([35; 124] ++ psep ++ inner)).
  { replace ([35; 124] ++ psep ++ inner) with (([35; 124] ++ psep) ++ inner) by now rewrite <- app_assoc.
    destruct (trimmed_parts _ Htr Hinner) as [_ Hl]. apply trimmed_app_last; try assumption; discriminate. }
  rewrite lex_line_body; [|exact Hbody|discriminate].
  rewrite (split2_prefixed [35; 124] psep inner Hns ltac:(discriminate) Hsp Hne Hst).
  unfold lex_tokens, rest_tokens. change (list_eqb [35; 124] [HASH; 126; 124]) with false.
  change (list_eqb [35; 124] [HASH; 126]) with false. cbn [andb]. change (startswith [HASH] [35; 124]) with true.
  f_equal. unfold lex_core. change (keyword_sym [35; 124]) with (@None sym).
  change (list_eqb [35; 124] [HASH; 58]) with false.
  change (startswith [34] ([35; 124] ++ psep ++ inner)) with false.
  change (startswith k_msgstr_br ([35; 124] ++ psep ++ inner)) with false.
  change (list_eqb [35; 124] [HASH; 44]) with false.
  change (list_eqb [35; 124] [HASH] || startswith [HASH; HASH] [35; 124]) with false.
  change (list_eqb [35; 124] [HASH; 46]) with false. change (list_eqb [35; 124] [HASH; 124]) with true. cbv iota.
  assert (El : lstrip (drop 2 ([35; 124] ++ psep ++ inner)) = inner).
  { cbn [app drop skipn]. rewrite lstrip_spaces by assumption. now apply lstrip_nonspace. }
  rewrite El. destruct (lstrip (snd (word inner))); reflexivity.
Qed.

Definition prev_kw_of (y : sym) : option str :=
  match y with Ypc => Some k_msgctxt | Ypm => Some k_msgid | Ypp => Some k_msgid_plural | _ => None end.

Lemma lex_prev_kw y kw psep sep c : prev_kw_of y = Some kw -> sep_str_ok psep -> all_space sep -> sep <> [] ->
  lex_line false ([35; 124] ++ psep ++ kw ++ sep ++ quoted c) = kw_tok false true y c.
Proof.
  intros Hk Hp Hs Hne.
  assert (Hk' : exists y', kw_of y' = Some kw /\ prev_keyword_sym kw = Some y /\ startswith [34] kw = false).
  { destruct y; cbn in Hk; inversion Hk; subst; [exists Yct|exists Ymi|exists Ymp]; repeat split; reflexivity. }
  destruct Hk' as (y' & Hk' & Hpk & H34).
  destruct (kw_line_facts y' kw sep c Hk' Hs Hne) as (Htr & Hst & Hw & Hl).
  rewrite (lex_prev_line psep _ Hp Htr Hst). rewrite Hw. cbn [fst snd]. rewrite H34, Hl, Hpk.
  assert (Ed : lstrip (drop (length kw) (kw ++ sep ++ quoted c)) = quoted c).
  { unfold drop. rewrite skipn_app, skipn_all, Nat.sub_diag. cbn [skipn app]. exact Hl. }
  rewrite Ed. reflexivity.
Qed.

Lemma lex_prev_cont psep c : sep_str_ok psep -> lex_line false ([35; 124] ++ psep ++ quoted c) = cont_tok false true c.
Proof.
  intros Hp. destruct (quoted_trimmed c) as (Htr & _ & Hst & _).
  rewrite (lex_prev_line psep _ Hp Htr Hst). destruct (word_quoted_head c) as [w Hw]. rewrite Hw. reflexivity.
Qed.

(* ================================================================ assembly: every line of the rendered file *)
(* a '#' is followed by one of the characters after which Codecs.open leaves a comment line alone *)
Definition typical_shape (b : str) : Prop :=
  b = [35] \/ hd 0 b <> 35 \/ exists c r, b = 35 :: c :: r /\ In c [32; 46; 58; 44; 124; 126].

Definition lexes (body : str) (t : lexed) : Prop :=
  typical_shape body /\ trimmed body /\ body <> [] /\
  forall first lead trail, all_space lead -> all_space trail -> lex_line first (lead ++ body ++ trail) = t.

Lemma lexes_intro body t : typical_shape body -> trimmed body -> body <> [] -> hd 0 body <> bom -> lex_line false body = t -> lexes body t.
Proof. intros Hs Ht Hne Hb Hl. split; [exact Hs|]. split; [exact Ht|]. split; [exact Hne|].
  intros first lead trail H1 H2. rewrite lex_padded by assumption. exact Hl. Qed.

Ltac solve_shape := first [ left; reflexivity | right; left; discriminate
                          | right; right; eexists _, _; split; [reflexivity | cbn [In]; tauto] ].

Lemma trimmed_prefix pre inner : pre <> [] -> ~ is_space (hd 0 pre) -> trimmed inner -> inner <> [] -> trimmed (pre ++ inner).
Proof. intros Hp Hh Ht Hne. destruct (trimmed_parts _ Ht Hne) as [_ Hl]. now apply trimmed_app_last. Qed.

Lemma Forall2_flat_map {A B C} (R : B -> C -> Prop) (f : A -> list B) (g : A -> list C) l :
  (forall x, In x l -> Forall2 R (f x) (g x)) -> Forall2 R (flat_map f l) (flat_map g l).
Proof. induction l as [|x l IH]; intros H; [constructor|]. cbn [flat_map]. apply Forall2_app; [apply H; now left|].
  apply IH. intros y Hy. apply H. now right. Qed.

Lemma Forall2_map2 {A B C} (R : B -> C -> Prop) (f : A -> B) (g : A -> C) l :
  (forall x, In x l -> R (f x) (g x)) -> Forall2 R (map f l) (map g l).
Proof. induction l as [|x l IH]; intros H; [constructor|]. cbn [map]. constructor; [apply H; now left|].
  apply IH. intros y Hy. apply H. now right. Qed.

Lemma last_app_ne' {A} (l1 l2 : list A) d : l2 <> [] -> last (l1 ++ l2) d = last l2 d.
Proof. intros H. induction l1 as [|a l1 IH]; [reflexivity|]. cbn [app].
  rewrite <- IH. destruct (l1 ++ l2) eqn:E; [destruct l1, l2; cbn in E; congruence|]. reflexivity. Qed.

Lemma no_space_last w : no_space w -> w <> [] -> ~ is_space (last w 0).
Proof. intros Hns Hne. destruct (@exists_last _ w Hne) as (l' & z & ->). rewrite last_last.
  apply Forall_app in Hns. destruct Hns as [_ Hz]. now inversion Hz. Qed.

Lemma refs_text_facts : forall refs b, refs <> [] -> refs_ok b refs ->
  refs_text refs <> [] /\ ~ is_space (last (refs_text refs) 0).
Proof.
  induction refs as [|[ws r] refs IH]; intros b Hne Hok; [congruence|].
  cbn [refs_ok] in Hok. destruct Hok as (_ & _ & _ & Hr & Hrest). destruct (ref_text_no_space r Hr) as [Hns Hrne].
  unfold refs_text. cbn [flat_map fst snd]. fold (refs_text refs). split.
  - intros E. apply app_eq_nil in E. destruct E as [E _]. apply app_eq_nil in E. destruct E as [_ E]. contradiction.
  - destruct refs as [|x refs'].
    + cbn [refs_text flat_map]. rewrite app_nil_r. rewrite last_app_ne' by assumption. now apply no_space_last.
    + destruct (IH false ltac:(discriminate) Hrest) as [H1 H2]. rewrite last_app_ne' by assumption. exact H2.
Qed.

Lemma flags_body_ne : forall items x, In x items -> snd (fst x) <> [] -> flags_body items <> [].
Proof.
  induction items as [|y items IH]; intros x Hin Hx; [destruct Hin|].
  destruct items as [|z items'].
  - destruct Hin as [->|[]]. rewrite flags_body_one. unfold fitem_text. intros E.
    apply app_eq_nil in E. destruct E as [_ E]. apply app_eq_nil in E. destruct E as [E _]. contradiction.
  - rewrite flags_body_cons. intros E. apply app_eq_nil in E. destruct E as [_ E]. discriminate E.
Qed.

Section Assembly.
Variable dec : decoder.
Variable sp : seps.
Hypothesis Hsp : seps_ok sp.

Let Hkw : sep_str_ok (sp_kw sp) := proj1 Hsp.
Let Hobs : sep_str_ok (sp_obs sp) := proj1 (proj2 Hsp).
Let Hprev : sep_str_ok (sp_prev sp) := proj1 (proj2 (proj2 Hsp)).
Let Hmx : sep_str_ok (sp_mx sp) := proj2 (proj2 (proj2 Hsp)).

Definition obs_pre (obs : bool) : str := if obs then [35; 126] ++ sp_obs sp else [].

Lemma bom_facts : 35 <> bom /\ 34 <> bom /\ 109 <> bom.
Proof. unfold bom. repeat split; discriminate. Qed.

Lemma quoted_ne c : quoted c <> [].
Proof. discriminate. Qed.

(* a message string: keyword line and continuation lines, plain or with the #~ prefix *)
Lemma lexes_cont obs c : chunk_ok dec c -> lexes (obs_pre obs ++ quoted_text c) (cont_tok obs false c).
Proof.
  intros Hc. destruct (quoted_trimmed c) as (Htr & Hne & _ & Hb). destruct obs; cbn [obs_pre app].
  - apply lexes_intro; [solve_shape| | discriminate | apply bom_facts |].
    + change (35 :: 126 :: sp_obs sp ++ quoted_text c) with ([35; 126] ++ sp_obs sp ++ quoted c).
      rewrite app_assoc. apply trimmed_prefix; [discriminate|apply not_space_chars|exact Htr|exact Hne].
    + apply (lex_obs_cont dec (sp_obs sp) c Hobs Hc).
  - apply lexes_intro; [solve_shape|exact Htr|exact Hne|exact Hb|]. apply (lex_cont dec c Hc).
Qed.

Lemma lexes_kw obs y kw c : kw_of y = Some kw -> chunk_ok dec c ->
  lexes (obs_pre obs ++ kw ++ sp_kw sp ++ quoted_text c) (kw_tok obs false y c).
Proof.
  intros Hk Hc. destruct Hkw as [Hne Hs]. destruct (kw_line_facts y kw (sp_kw sp) c Hk Hs Hne) as (Htr & Hst & _).
  destruct (kw_facts y kw Hk) as (_ & Hkne & _ & _ & Hb).
  assert (Hine : kw ++ sp_kw sp ++ quoted c <> []) by (destruct kw; [congruence|discriminate]).
  destruct obs; cbn [obs_pre app].
  - apply lexes_intro; [solve_shape| | discriminate | apply bom_facts |].
    + change (35 :: 126 :: sp_obs sp ++ kw ++ sp_kw sp ++ quoted_text c) with ([35; 126] ++ sp_obs sp ++ kw ++ sp_kw sp ++ quoted c).
      rewrite app_assoc. apply trimmed_prefix; [discriminate|apply not_space_chars|exact Htr|exact Hine].
    + apply (lex_obs_kw dec y kw (sp_obs sp) (sp_kw sp) c Hk Hobs Hs Hne Hc).
  - apply lexes_intro; [right; left; destruct y; cbn in Hk; inversion Hk; discriminate|exact Htr|exact Hine| |apply (lex_kw dec y kw (sp_kw sp) c Hk Hs Hne Hc)].
    destruct kw; [congruence|exact Hb].
Qed.

Lemma lexes_sstring obs y kw s : kw_of y = Some kw -> sstring_ok dec s ->
  Forall2 lexes (string_bodies sp (obs_pre obs) kw s) (toks_sstring obs false y s).
Proof.
  intros Hk [Hne Hok]. destruct s as [|c r]; [congruence|]. inversion Hok as [|? ? Hc Hr]; subst.
  cbn [string_bodies toks_sstring]. constructor; [now apply lexes_kw|].
  apply Forall2_map2. intros c' Hin. rewrite Forall_forall in Hr. apply lexes_cont. now apply Hr.
Qed.

Lemma lexes_mx obs i c : i < 10 -> chunk_ok dec c ->
  lexes (obs_pre obs ++ w_msgstr ++ [91] ++ index_text i ++ [93] ++ sp_mx sp ++ quoted_text c)
        (LLine obs false (AProc Ymx (mx_cur i (sp_mx sp) c))).
Proof.
  intros Hi Hc. destruct Hmx as [Hne Hs]. destruct (mx_line_facts i (sp_mx sp) c Hi Hs Hne) as (Eb & Htr & Hst & _).
  assert (Ebody : w_msgstr ++ [91] ++ index_text i ++ [93] ++ sp_mx sp ++ quoted_text c = mx_cur i (sp_mx sp) c).
  { unfold mx_cur, k_msgstr_br. rewrite <- !app_assoc. reflexivity. }
  rewrite Ebody. destruct obs; cbn [obs_pre app].
  - apply lexes_intro; [solve_shape| | discriminate | apply bom_facts |].
    + change (35 :: 126 :: sp_obs sp ++ mx_cur i (sp_mx sp) c) with ([35; 126] ++ sp_obs sp ++ mx_cur i (sp_mx sp) c).
      rewrite app_assoc. apply trimmed_prefix; [discriminate|apply not_space_chars| |]; rewrite Eb; [exact Htr|discriminate].
    + apply (lex_obs_mx (sp_obs sp) i (sp_mx sp) c Hobs Hi Hs Hne).
  - apply lexes_intro; [right; left; rewrite Eb; discriminate|rewrite Eb; exact Htr|rewrite Eb; discriminate|rewrite Eb; apply bom_facts|].
    apply (lex_mx dec i (sp_mx sp) c Hi Hs Hne Hc).
Qed.

Lemma lexes_plurals obs : forall l i, Forall (sstring_ok dec) l -> N.of_nat (length l) + i <= 10 ->
  Forall2 lexes (plurals_bodies sp (obs_pre obs) i l) (toks_plurals obs (sp_mx sp) i l).
Proof.
  induction l as [|s l IH]; intros i Hok Hlen; [constructor|]. inversion Hok as [|? ? [Hne Hs] Hl]; subst.
  cbn [plurals_bodies toks_plurals length] in *. apply Forall2_app; [|apply IH; [assumption|lia]].
  destruct s as [|c r]; [congruence|]. inversion Hs as [|? ? Hc Hr]; subst. cbn [plural_bodies toks_mx].
  constructor; [apply lexes_mx; [lia|assumption]|].
  apply Forall2_map2. intros c' Hin. rewrite Forall_forall in Hr. apply lexes_cont. now apply Hr.
Qed.

(* comment lines *)
Definition toks_cline_x (obs : bool) (cl : cline) : list lexed :=
  match cl with
  | CPrev k s => if obs then map (fun _ => LPrevObsolete) s else toks_cline cl
  | _ => toks_cline cl
  end.

Lemma lexes_tc t : trimmed t -> lexes (35 :: match t with [] => [] | _ => 32 :: t end) (LLine false true (AProc Ytc (tc_cur t))).
Proof.
  intros Ht. change (35 :: match t with [] => [] | _ => 32 :: t end) with (tc_cur t).
  apply lexes_intro; [unfold tc_cur; destruct t; solve_shape| | discriminate | apply bom_facts | apply (lex_cline_simple (CTrans t) (or_intror I) Ht)].
  unfold tc_cur. destruct t as [|c t']; [split; apply not_space_chars|].
  change (35 :: 32 :: c :: t') with ([35; 32] ++ (c :: t')). apply trimmed_prefix; [discriminate|apply not_space_chars|exact Ht|discriminate].
Qed.

Lemma lexes_hash t0 y sep s : In (t0, y) [([35; 46], Ygc); ([35; 58], Yoc); ([35; 44], Yfl)] ->
  is_space sep -> s <> [] -> ~ is_space (last s 0) -> lexes (t0 ++ sep :: s) (LLine false true (AProc y (t0 ++ sep :: s))).
Proof.
  intros Hin Hsep Hne Hl.
  assert (E : exists a, t0 ++ sep :: s = a ++ s /\ a <> [] /\ hd 0 a = 35).
  { cbn [In] in Hin. destruct Hin as [Hin|[Hin|[Hin|[]]]]; inversion Hin; subst;
      [exists [35; 46; sep]|exists [35; 58; sep]|exists [35; 44; sep]]; repeat split; discriminate. }
  destruct E as (a & Ea & Ha & Hh).
  assert (Htr : trimmed (t0 ++ sep :: s)) by (rewrite Ea; apply trimmed_app_last; try assumption; rewrite Hh; apply not_space_chars).
  apply lexes_intro; [cbn [In] in Hin; destruct Hin as [Hin|[Hin|[Hin|[]]]]; inversion Hin; subst; solve_shape|exact Htr| | |].
  - rewrite Ea. destruct a; [congruence|discriminate].
  - rewrite Ea. destruct a; [congruence|]. cbn [hd app] in *. rewrite Hh. apply bom_facts.
  - apply lex_hash_line; [cbn [In] in *; tauto|exact Hsep|exact Htr].
Qed.

Lemma lexes_obsolete_prev_any x : x <> [] -> ~ is_space (last x 0) ->
  lexes ([35; 126; 124] ++ sp_prev sp ++ x) LPrevObsolete.
Proof.
  intros Hx Hl. destruct Hprev as [Hne Hs].
  assert (Htr : trimmed ([35; 126; 124] ++ sp_prev sp ++ x)).
  { rewrite app_assoc. apply trimmed_app_last; [discriminate|apply not_space_chars|exact Hx|exact Hl]. }
  apply lexes_intro; [solve_shape|exact Htr|discriminate|apply bom_facts|].
  apply lex_prev_obsolete; [now apply all_space_ends|exact Htr].
Qed.

Lemma last_quoted_tail a c : last (a ++ quoted_text c) 0 = 34.
Proof. unfold quoted_text. replace (a ++ 34 :: chunk_text c ++ [34]) with ((a ++ 34 :: chunk_text c) ++ [34]) by (rewrite <- !app_assoc; reflexivity).
  apply last_last. Qed.

Lemma lexes_cline obs cl : cline_ok dec cl -> Forall2 lexes (cline_bodies sp obs cl) (toks_cline_x obs cl).
Proof.
  intros Hok. destruct cl as [t | sep t | sep refs | sep items | k s]; cbn [cline_bodies toks_cline_x toks_cline].
  - destruct Hok as [Ht _]. constructor; [now apply lexes_tc|constructor].
  - destruct Hok as ([Hsep _] & Hne & Ht & _). destruct (trimmed_parts _ Ht Hne) as [_ Hl].
    constructor; [|constructor]. apply (lexes_hash [35; 46] Ygc sep t); [cbn; tauto|assumption..].
  - destruct Hok as ([Hsep _] & Hne & Hr). constructor; [|constructor].
    rewrite refs_body_text. destruct (refs_text_facts refs true Hne Hr) as [H1 H2].
    apply (lexes_hash [35; 58] Yoc sep (refs_text refs)); [cbn; tauto|assumption..].
  - destruct Hok as ([Hsep _] & Hi & [x [Hx Hxne]] & Hl). constructor; [|constructor].
    apply (lexes_hash [35; 44] Yfl sep (flags_body items)); [cbn; tauto|assumption| |exact Hl].
    exact (flags_body_ne items x Hx Hxne).
  - destruct obs.
    + (* #~| lines: dropped *)
      destruct Hok as [Hne Hcs]. destruct s as [|c r]; [congruence|]. cbn [string_bodies map].
      constructor.
      * rewrite <- app_assoc. apply lexes_obsolete_prev_any; [destruct k; discriminate|]. rewrite app_assoc. rewrite last_quoted_tail.
        apply not_space_chars.
      * apply Forall2_map2. intros c' _. rewrite <- app_assoc. apply lexes_obsolete_prev_any; [discriminate|].
        rewrite <- (app_nil_l (quoted_text c')). rewrite last_quoted_tail. apply not_space_chars.
    + destruct Hok as [Hne Hcs]. destruct s as [|c r]; [congruence|]. inversion Hcs as [|? ? Hc Hr]; subst.
      cbn [string_bodies toks_sstring]. destruct Hprev as [Hpne Hps]. destruct Hkw as [Hkne Hks].
      assert (Hk : exists y' kw, kw_of y' = Some kw /\ prev_kw_of (prev_sym k) = Some kw /\ pkind_word k = kw).
      { destruct k; [exists Yct, k_msgctxt|exists Ymi, k_msgid|exists Ymp, k_msgid_plural]; repeat split; reflexivity. }
      destruct Hk as (y' & kw & Hk1 & Hk2 & Hk3). rewrite Hk3.
      destruct (kw_line_facts y' kw (sp_kw sp) c Hk1 Hks Hkne) as (Htr & _).
      constructor.
      * rewrite <- app_assoc. apply lexes_intro; [solve_shape| | discriminate | apply bom_facts |].
        -- rewrite app_assoc. apply trimmed_prefix; [discriminate|apply not_space_chars|exact Htr|]. destruct kw; [discriminate Hk1 || (destruct y'; discriminate)|discriminate].
        -- apply (lex_prev_kw (prev_sym k) kw (sp_prev sp) (sp_kw sp) c Hk2 (conj Hpne Hps) Hks Hkne).
      * apply Forall2_map2. intros c' _. rewrite <- app_assoc. apply lexes_intro; [solve_shape| | discriminate | apply bom_facts |].
        -- rewrite app_assoc. apply trimmed_prefix; [discriminate|apply not_space_chars|apply quoted_trimmed|discriminate].
        -- apply (lex_prev_cont (sp_prev sp) c' (conj Hpne Hps)).
Qed.

End Assembly.

(* ================================================================ entries, catalog, file *)
Section Assembly2.
Variable dec : decoder.
Variable sp : seps.
Hypothesis Hsp : seps_ok sp.

Definition toks_entry_x (e : sentry) : list lexed :=
  let obs := s_obsolete e in
  flat_map (toks_cline_x obs) (s_pre e) ++
  match s_ctxt e with Some s => toks_sstring obs false Yct s | None => [] end ++
  toks_sstring obs false Ymi (s_id e) ++ toks_strs obs (sp_mx sp) e.

Definition toks_catalog_x (c : scatalog) : list lexed :=
  toks_header (sc_header c) ++ flat_map toks_entry_x (sc_entries c).

Lemma lexes_entry e : sentry_ok dec e -> (length (s_strs e) <= 10)%nat ->
  Forall2 lexes (entry_bodies sp e) (toks_entry_x e).
Proof.
  intros (Hpre & Hctx & Hid & Hstrs) Hlen. unfold entry_bodies, toks_entry_x.
  change (if s_obsolete e then [35; 126] ++ sp_obs sp else []) with (obs_pre sp (s_obsolete e)).
  apply Forall2_app; [|apply Forall2_app; [|apply Forall2_app]].
  - apply Forall2_flat_map. intros cl Hin. rewrite Forall_forall in Hpre. apply (lexes_cline dec sp Hsp). now apply Hpre.
  - destruct (s_ctxt e) as [s|]; [|constructor]. now apply (lexes_sstring dec sp Hsp _ Yct k_msgctxt s eq_refl).
  - now apply (lexes_sstring dec sp Hsp _ Ymi k_msgid (s_id e) eq_refl).
  - unfold toks_strs. destruct (s_plural e) as [pl|].
    + destruct Hstrs as (Hpl & Hne & Hall). apply Forall2_app.
      * now apply (lexes_sstring dec sp Hsp _ Ymp k_msgid_plural pl eq_refl).
      * apply (lexes_plurals dec sp Hsp); [assumption|lia].
    + destruct Hstrs as (s & Hs & Hsok). rewrite Hs. cbn [flat_map]. rewrite !app_nil_r.
      now apply (lexes_sstring dec sp Hsp _ Yms k_msgstr s eq_refl).
Qed.

Lemma lexes_catalog c : scatalog_ok dec c -> nplurals_le_10 c ->
  Forall2 lexes (render_bodies sp c) (toks_catalog_x c).
Proof.
  intros (Hh & Hes & _) Hn. unfold render_bodies, toks_catalog_x, toks_header. apply Forall2_app.
  - apply Forall2_map2. intros t Hin. rewrite Forall_forall in Hh. destruct (Hh t Hin) as [Ht _]. now apply (lexes_tc).
  - apply Forall2_flat_map. intros e Hin. unfold nplurals_le_10 in Hn. rewrite Forall_forall in Hes, Hn. apply lexes_entry; auto.
Qed.

(* ---- the dropped #~| lines and the blank lines are insertions in the sense of [ext] *)
Lemma ext_refl' l : ext l l.
Proof. induction l; constructor; assumption. Qed.

Lemma ext_app a a' b b' : ext a a' -> ext b b' -> ext (a ++ b) (a' ++ b').
Proof.
  induction 1 as [| l l' H IH | l l' H IH Hne | x l l' H IH]; intros Hb; cbn [app].
  - exact Hb.
  - constructor. now apply IH.
  - constructor; [now apply IH|]. intros E. apply app_eq_nil in E. destruct E. contradiction.
  - constructor. now apply IH.
Qed.

Lemma ext_insert_prev {A} (s : list A) l : l <> [] -> ext l (map (fun _ => LPrevObsolete) s ++ l).
Proof. intros Hne. induction s as [|x s IH]; cbn [map app]; [apply ext_refl'|]. constructor; assumption. Qed.

Lemma ext_trans_prev {A} (s : list A) a b : ext a b -> a <> [] -> ext a (map (fun _ => LPrevObsolete) s ++ b).
Proof. intros H Hne. induction s as [|x s IH]; cbn [map app]; [exact H|]. constructor; assumption. Qed.

Lemma ext_pre (obs : bool) : forall (pre : list cline) (T : list lexed), T <> [] ->
  ext (flat_map toks_cline (if obs then filter (fun cl => negb (is_prev cl)) pre else pre) ++ T)
      (flat_map (toks_cline_x obs) pre ++ T).
Proof.
  destruct obs.
  - induction pre as [|cl pre IH]; intros T HT; [apply ext_refl'|]. cbn [filter flat_map].
    destruct cl as [t | sep t | sep refs | sep items | k s]; cbn [is_prev negb flat_map toks_cline_x];
      try (rewrite <- !app_assoc; apply ext_app; [apply ext_refl'|now apply IH]).
    rewrite <- app_assoc. eapply (ext_trans_prev s).
    + now apply IH.
    + intros E. apply app_eq_nil in E. destruct E. contradiction.
  - intros pre T _. assert (E : flat_map (toks_cline_x false) pre = flat_map toks_cline pre).
    { apply flat_map_ext. intros []; reflexivity. }
    rewrite E. apply ext_refl'.
Qed.
End Assembly2.

(* ================================================================ the theorem *)
Inductive bext : list lexed -> list lexed -> Prop :=
| bext_nil : bext [] []
| bext_blank l l' : bext l l' -> bext l (LBlank :: l')
| bext_keep x l l' : bext l l' -> bext (x :: l) (x :: l').

Lemma ext_bext : forall b c, bext b c -> forall a, ext a b -> ext a c.
Proof.
  induction 1 as [| b c Hb IH | x b c Hb IH]; intros a Ha.
  - exact Ha.
  - constructor. now apply IH.
  - inversion Ha; subst.
    + constructor. now apply IH.
    + constructor; [now apply IH|assumption].
    + constructor. now apply IH.
Qed.

Lemma lex_file : forall bodies raws, file_of bodies raws -> forall toks, Forall2 lexes bodies toks ->
  forall first, bext toks (lex_lines first raws).
Proof.
  induction 1 as [| bodies ws raws Hws Hf IH | body lead trail bodies raws Hl Ht Hf IH]; intros toks H2 first.
  - inversion H2; subst. constructor.
  - cbn [lex_lines]. rewrite (lex_blank first ws Hws (or_intror I)). constructor. now apply IH.
  - inversion H2 as [|? t ? toks' Hlex H2']; subst. cbn [lex_lines]. destruct Hlex as (_ & _ & _ & Hlex). rewrite (Hlex first lead trail Hl Ht).
    constructor. now apply IH.
Qed.

Lemma ext_catalog dec sp c : Forall (sentry_ok dec) (sc_entries c) ->
  ext (toks_catalog (sp_mx sp) c) (toks_catalog_x sp c).
Proof.
  intros Hok. unfold toks_catalog, toks_catalog_x. apply ext_app; [apply ext_refl'|].
  induction (sc_entries c) as [|e es IH]; [constructor|]. inversion Hok as [|? ? He Hes]; subst.
  cbn [flat_map]. apply ext_app; [|now apply IH].
  unfold toks_entry, toks_entry_x, eff_pre. apply ext_pre.
  destruct He as (_ & _ & [Hne _] & _). destruct (s_id e) as [|c0 r]; [congruence|].
  intros E. apply app_eq_nil in E. destruct E as [_ E]. discriminate E.
Qed.

Lemma space_not_quote s : all_space s -> ~ In 34 s.
Proof. intros H Hin. unfold all_space in H. rewrite Forall_forall in H. specialize (H _ Hin). unfold is_space in H. cbn [In] in H.
  repeat (destruct H as [H|H]; [discriminate H|]). destruct H. Qed.

(* every file of the printer family loads back to its catalog *)
Theorem load_render O sp c raws :
  ascii_compatible (o_dec O) -> seps_ok sp -> scatalog_ok (o_dec O) c -> nplurals_le_10 c ->
  file_of (render_bodies sp c) raws ->
  parse_lines O raws = Ok (mkPo (fst (catalog_value c)) (map (fun e => to_entry (tool_view e)) (snd (catalog_value c))) false).
Proof.
  intros Hdec Hsp Hok Hn Hfile. unfold parse_lines.
  apply (machine_roundtrip O (sp_mx sp) c _ Hdec); try assumption.
  - apply space_not_quote. apply Hsp.
  - eapply ext_bext; [|apply (ext_catalog (o_dec O) sp c); apply Hok].
    apply (lex_file _ _ Hfile). now apply (lexes_catalog (o_dec O) sp Hsp).
Qed.

Theorem load_render_exact O sp c raws :
  ascii_compatible (o_dec O) -> seps_ok sp -> scatalog_ok (o_dec O) c -> nplurals_le_10 c -> no_obsolete_prev c ->
  file_of (render_bodies sp c) raws ->
  parse_lines O raws = Ok (mkPo (fst (catalog_value c)) (map to_entry (snd (catalog_value c))) false).
Proof.
  intros Hdec Hsp Hok Hn Hno Hfile. rewrite (load_render O sp c raws Hdec Hsp Hok Hn Hfile). f_equal. f_equal.
  unfold catalog_value. cbn [snd]. rewrite !map_map. apply map_ext_in. intros e He. now rewrite (tool_view_id c Hno e He).
Qed.

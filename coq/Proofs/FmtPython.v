(* python %-format: the whole string.  Inclusion theorems between the parser model (lib/strformat/python.py)
   and the CPython % specification. *)
From Coq Require Import List NArith ZArith Bool Lia.
From I18n Require Import Lib.Outcome Model.FmtPython Spec.CPyPercent Proofs.FmtPythonDir.
Import ListNotations.
Local Open Scope N_scope.

(* ---------------------------------------------------------------- what "arguments of the reported shape and types" means *)
Definition val_ok (t : ptype) (v : pyval) : bool :=
  match t, v with
  | TyInt, VInt _ => true
  | TyFloat, VFloat => true
  | TyFloat, VInt z => (Z.abs z <? float_limit)%Z
  | TyChr, VInt z => ((0 <=? z) && (z <? 1114112))%Z
  | TyChr, VStr [_] => true
  | TyStr, VStr _ => true
  | TyObject, _ => true
  | _, _ => false
  end.

(* an int for every * : one that fits a C int *)
Definition star_ok (v : pyval) : bool :=
  match v with VInt z => ((-2147483648 <=? z) && (z <=? 2147483647))%Z | _ => false end.

Definition seqarg_ok (a : seqarg) (v : pyval) : bool :=
  match a with SVarWidth | SVarPrec => star_ok v | SConv t => val_ok t v end.

(* a tuple for unnamed specifications, a mapping for named ones *)
Definition args_match (sq : list seqarg) (mp : list (list N * list ptype)) (a : pyval) : Prop :=
  match mp with
  | [] => exists vs, a = VTuple vs /\ Forall2 (fun x v => seqarg_ok x v = true) sq vs
  | _ => exists d, a = VDict d /\
           forall k ts, In (k, ts) mp -> exists v, lookup k d = Some v /\ forallb (fun t => val_ok t v) ts = true
  end.

(* ---------------------------------------------------------------- the loop as a fold over the scanned specifications *)
Fixpoint pscan (fuel : nat) (s : list N) : list directive * option (list N) :=
  match fuel with
  | O => ([], None)
  | S fuel' =>
    match s with
    | [] => ([], None)
    | ch :: r =>
      if ch =? 37 then
        match parse_directive std_info r with
        | None => ([], Some s)
        | Some (d, rest) => let '(ds, t) := pscan fuel' rest in (d :: ds, t)
        end
      else pscan fuel' r
    end
  end.

Fixpoint pfold (ds : list directive) (tail : option (list N)) (st : pstate) : outcome pstate py_err :=
  match ds with
  | [] => match tail with None => Ok st | Some w => Err (EError w) end
  | d :: r => do st' <- conv_init std_info st d; pfold r tail st'
  end.

Lemma ploop_pfold fuel : forall s st, (length s < fuel)%nat ->
  ploop std_info fuel s st = pfold (fst (pscan fuel s)) (snd (pscan fuel s)) st.
Proof.
  induction fuel as [|fuel IH]; intros s st Hl; [lia|].
  cbn [ploop pscan]. destruct s as [|ch r]; [reflexivity|].
  cbn [length] in Hl. destruct (ch =? 37).
  - pose proof (dir_agree r) as Hd. destruct (parse_directive std_info r) as [[d rest]|]; [|reflexivity].
    destruct Hd as [_ [Hlen _]].
    destruct (pscan fuel rest) as [ds t] eqn:Es. cbn [fst snd pfold].
    destruct (conv_init std_info st d) as [st'| |]; cbn [obind]; [|reflexivity|reflexivity].
    rewrite IH by lia. rewrite Es. reflexivity.
  - apply IH. lia.
Qed.

Lemma pscan_wf fuel : forall s, Forall dir_wf (fst (pscan fuel s)).
Proof.
  induction fuel as [|fuel IH]; intros s; cbn [pscan]; [constructor|].
  destruct s as [|ch r]; [constructor|]. destruct (ch =? 37); [|apply IH].
  pose proof (dir_agree r) as Hd. destruct (parse_directive std_info r) as [[d rest]|]; [|constructor].
  destruct Hd as [Hwf _]. specialize (IH rest). destruct (pscan fuel rest) as [ds t]. constructor; assumption.
Qed.

Definition clean (ds : list directive) (tail : option (list N)) : bool :=
  match tail with None => forallb (fun d => negb (too_big d)) ds | Some _ => false end.

(* CPython's events for the whole string are those of the scanned specifications, or contain an error *)
Lemma events_scan fuel : forall s, (length s < fuel)%nat ->
  if clean (fst (pscan fuel s)) (snd (pscan fuel s))
  then cpy_events_f fuel s = flat_map events_of (fst (pscan fuel s))
  else bad (cpy_events_f fuel s).
Proof.
  induction fuel as [|fuel IH]; intros s Hl; [lia|].
  cbn [pscan cpy_events_f]. destruct s as [|ch r]; [reflexivity|].
  cbn [length] in Hl. destruct (ch =? 37); [|apply IH; lia].
  pose proof (dir_agree r) as Hd. destruct (parse_directive std_info r) as [[d rest]|].
  - destruct Hd as [_ [Hlen Hd]]. specialize (IH rest ltac:(lia)).
    destruct (pscan fuel rest) as [ds t]. cbn [fst snd] in *.
    unfold clean in *. destruct (too_big d) eqn:Etb.
    + destruct Hd as [ev [-> Hb]]. destruct t; cbn [forallb]; rewrite ?Etb; cbn [negb andb]; exact Hb.
    + rewrite Hd. destruct t as [w|]; cbn [forallb flat_map]; rewrite ?Etb; cbn [negb andb].
      * apply bad_app_r. exact IH.
      * destruct (forallb (fun d0 => negb (too_big d0)) ds).
        -- rewrite IH. reflexivity.
        -- apply bad_app_r. exact IH.
  - destruct Hd as [ev [-> Hb]]. exact Hb.
Qed.

(* ---------------------------------------------------------------- Conversion.__init__ *)
Lemma flag_warns_total conv fl : Forall (fun x => is_flag (fst x) = true) fl -> flag_warns std_info conv fl <> None.
Proof.
  induction 1 as [|[f n] r Hf Hr IH]; cbn [flag_warns]; [discriminate|].
  cbn [fst] in Hf. unfold is_flag in Hf.
  destruct (N.eqb_spec f 35) as [->|]; [cbn [obind_opt]; destruct (flag_warns std_info conv r); [discriminate|congruence]|].
  destruct (N.eqb_spec f 45) as [->|]; [cbn [obind_opt]; destruct (flag_warns std_info conv r); [discriminate|congruence]|].
  assert (Hm : mem f [48; 32; 43] = true).
  { unfold mem. cbn [existsb]. destruct (f =? 45), (f =? 43), (f =? 32), (f =? 35), (f =? 48); try discriminate; reflexivity. }
  rewrite Hm. cbn [obind_opt]. destruct (flag_warns std_info conv r); [discriminate|congruence].
Qed.

Lemma conv_type_total c : mem c (i_all std_info) = true -> exists t, conv_type std_info c = Some t.
Proof.
  unfold conv_type, mem. cbn [i_all i_int i_float std_info existsb].
  repeat match goal with |- context [c =? ?k] => destruct (N.eqb_spec c k); [subst; cbn; eauto|] end.
  cbn. discriminate.
Qed.

Lemma conv_type_none c : conv_type std_info c = Some TyNone -> c = 37.
Proof.
  unfold conv_type, mem. cbn [i_int i_float std_info existsb].
  repeat match goal with |- context [c =? ?k] => destruct (N.eqb_spec c k); [subst; cbn; intros H; first [discriminate H|reflexivity]|] end.
  cbn. discriminate.
Qed.

(* the conversion is one CPython supports, and a value of the reported type formats *)
Local Opaque float_limit.
Lemma conv_type_formats c t v : conv_type std_info c = Some t -> t <> TyNone -> val_ok t v = true ->
  c <> 37 /\ format_value c v = RSuccess.
Proof.
  unfold conv_type, mem. cbn [i_int i_float std_info existsb].
  repeat match goal with |- context [c =? ?k] =>
    destruct (N.eqb_spec c k);
    [subst; cbn; intros H; inversion H; subst; intros _ Hv; split; [discriminate|];
     destruct v as [z| |[|x [|y l]]| | |]; cbn in Hv |- *; try discriminate; try reflexivity; try (rewrite Hv; reflexivity)|] end.
  cbn. discriminate.
Qed.

Definition seq_adds (d : directive) : list seqarg :=
  (if d_var_width d then [SVarWidth] else []) ++ (if d_var_prec d then [SVarPrec] else []).

Lemma conv_init_crash st d c : dir_wf d -> conv_init std_info st d <> Crash c.
Proof.
  intros [Hlast Hfl Hconv _ _]. unfold conv_init.
  rewrite Hlast, N.eqb_refl. cbn [negb].
  unfold conv_warns. pose proof (flag_warns_total (d_conv d) (d_flags d) Hfl) as Hfw.
  destruct (flag_warns std_info (d_conv d) (d_flags d)); [|congruence]. cbn [obind_opt].
  destruct (conv_type_total _ Hconv) as [t Ht]. rewrite Ht.
  destruct (d_var_width d).
  - destruct (add_seq st SVarWidth); cbn [obind]; [|discriminate].
    destruct (d_var_prec d).
    + destruct (add_seq p SVarPrec); cbn [obind]; [|discriminate].
      destruct t; destruct (d_key d); try discriminate;
        match goal with |- context [match ?x with Some _ => _ | None => _ end] => destruct x; discriminate end.
    + destruct (d_prec d) as [pv|]; [destruct (pv >? i_ssize_max std_info)%Z|]; cbn [obind]; try discriminate;
      destruct t; destruct (d_key d); try discriminate;
        match goal with |- context [match ?x with Some _ => _ | None => _ end] => destruct x; discriminate end.
  - destruct (d_width d >? i_ssize_max std_info)%Z; cbn [obind]; [discriminate|].
    destruct (d_var_prec d).
    + destruct (add_seq st SVarPrec); cbn [obind]; [|discriminate].
      destruct t; destruct (d_key d); try discriminate;
        match goal with |- context [match ?x with Some _ => _ | None => _ end] => destruct x; discriminate end.
    + destruct (d_prec d) as [pv|]; [destruct (pv >? i_ssize_max std_info)%Z|]; cbn [obind]; try discriminate;
      destruct t; destruct (d_key d); try discriminate;
        match goal with |- context [match ?x with Some _ => _ | None => _ end] => destruct x; discriminate end.
Qed.

(* what a successful Conversion.__init__ did to the argument lists *)
Definition conv_adds (t : ptype) : list seqarg := match t with TyNone => [] | _ => [SConv t] end.

Lemma conv_init_ok st d st' : dir_wf d -> conv_init std_info st d = Ok st' ->
  too_big d = false /\
  exists t, conv_type std_info (d_conv d) = Some t /\
    match d_key d with
    | None =>
      st_map st' = st_map st /\
      st_seq st' = st_seq st ++ seq_adds d ++ conv_adds t /\
      (seq_adds d ++ conv_adds t <> [] -> st_map st = [])
    | Some k =>
      t <> TyNone /\ seq_adds d = [] /\ st_seq st = [] /\ st_seq st' = [] /\ st_map st' = map_add k t (st_map st)
    end.
Proof.
  intros Hwf. unfold conv_init, too_big, seq_adds.
  destruct (negb (last (d_text d) 0 =? d_conv d)); [discriminate|].
  destruct (conv_warns std_info d) as [ws|]; [|discriminate].
  assert (Hmax1 : (i_ssize_max std_info <= PY_SSIZE_T_MAX)%Z) by (unfold PY_SSIZE_T_MAX; cbn; lia).
  assert (Hmax2 : (i_ssize_max std_info <= C_INT_MAX)%Z) by (unfold C_INT_MAX; cbn; lia).
  set (M := i_ssize_max std_info) in *.
  destruct (if d_var_width d then match add_seq st SVarWidth with Some x => Ok x | None => Err EMixture end
            else if (d_width d >? M)%Z then Err EWidthRange else Ok st) as [st1| |] eqn:E1; cbn [obind]; try discriminate.
  destruct (if d_var_prec d then match add_seq st1 SVarPrec with Some x => Ok x | None => Err EMixture end
            else match d_prec d with
                 | Some p => if (p >? M)%Z then Err EPrecRange else Ok st1
                 | None => Ok st1
                 end) as [st2| |] eqn:E2; cbn [obind]; try discriminate.
  intros H.
  assert (F1 : st_map st1 = st_map st /\
               st_seq st1 = st_seq st ++ (if d_var_width d then [SVarWidth] else []) /\
               (d_var_width d = true -> st_map st = []) /\
               (negb (d_var_width d) && (d_width d >? PY_SSIZE_T_MAX)%Z = false)).
  { destruct (d_var_width d).
    - unfold add_seq in E1. destruct (st_map st) eqn:Em; [|discriminate]. inversion E1; subst. cbn. rewrite ?Em. auto.
    - destruct (d_width d >? M)%Z eqn:Ew; [discriminate|]. inversion E1; subst. rewrite app_nil_r.
      repeat split; try discriminate. cbn [negb andb]. clear - Ew Hmax1. lia. }
  destruct F1 as [F1a [F1b [F1c F1d]]].
  assert (F2 : st_map st2 = st_map st1 /\
               st_seq st2 = st_seq st1 ++ (if d_var_prec d then [SVarPrec] else []) /\
               (d_var_prec d = true -> st_map st1 = []) /\
               match d_prec d with Some p => (p >? C_INT_MAX)%Z | None => false end = false).
  { pose proof (wf_var_prec d Hwf) as Hvp. destruct (d_var_prec d).
    - rewrite (Hvp eq_refl).
      unfold add_seq in E2. destruct (st_map st1) eqn:Em; [|discriminate]. inversion E2; subst. cbn. rewrite ?Em. auto.
    - destruct (d_prec d) as [p|].
      + destruct (p >? M)%Z eqn:Ep; [discriminate|]. inversion E2; subst. rewrite app_nil_r.
        repeat split; try discriminate. clear - Ep Hmax2. lia.
      + inversion E2; subst. rewrite app_nil_r. repeat split; try discriminate. }
  destruct F2 as [F2a [F2b [F2c F2d]]].
  split; [rewrite F1d, F2d; reflexivity|].
  destruct (conv_type std_info (d_conv d)) as [t|]; [|discriminate].
  exists t. split; [reflexivity|].
  assert (Hseq2 : st_seq st2 = st_seq st ++ (if d_var_width d then [SVarWidth] else []) ++ (if d_var_prec d then [SVarPrec] else []))
    by (rewrite F2b, F1b, <- app_assoc; reflexivity).
  assert (Hmap2 : st_map st2 = st_map st) by congruence.
  assert (Hadds : (if d_var_width d then [SVarWidth] else []) ++ (if d_var_prec d then [SVarPrec] else []) <> [] -> st_map st = []).
  { intros Hne. destruct (d_var_width d); [auto|]. destruct (d_var_prec d); [|cbn in Hne; congruence]. rewrite <- F1a. auto. }
  destruct (d_key d) as [k|].
  - (* keyed *)
    assert (Hk : forall st3, add_map st2 k t = Some st3 ->
                 seq_adds d = [] /\ st_seq st = [] /\ st_seq st3 = [] /\ st_map st3 = map_add k t (st_map st)).
    { unfold add_map. intros st3. rewrite Hseq2.
      destruct (st_seq st ++ (if d_var_width d then [SVarWidth] else []) ++ (if d_var_prec d then [SVarPrec] else [])) eqn:Es; [|discriminate].
      intros E; inversion E; subst; cbn.
      apply app_eq_nil in Es. destruct Es as [Es1 Es2]. unfold seq_adds. rewrite Hmap2. auto. }
    destruct t; try discriminate;
      (destruct (add_map st2 k _) as [st3|] eqn:E3; [|discriminate]; inversion H; subst; cbn [st_seq st_map];
       split; [discriminate|]; exact (Hk st3 eq_refl)).
  - (* unkeyed *)
    assert (Hu : forall t0 st3, add_seq st2 (SConv t0) = Some st3 ->
                 st_map st3 = st_map st /\ st_seq st3 = st_seq st ++ seq_adds d ++ [SConv t0] /\ st_map st = []).
    { unfold add_seq. intros t0 st3. destruct (st_map st2) eqn:Em; [|discriminate]. intros E; inversion E; subst; cbn.
      rewrite Hseq2. unfold seq_adds. rewrite <- !app_assoc. split; [congruence|]. split; [reflexivity|congruence]. }
    destruct t; cbn [conv_adds];
      try (destruct (add_seq st2 (SConv _)) as [st3|] eqn:E3; [|discriminate]; inversion H; subst; cbn [st_seq st_map];
           destruct (Hu _ st3 E3) as [A [B C]]; split; [exact A|]; split; [exact B|]; intros _; exact C).
    inversion H; subst; cbn [st_seq st_map]. rewrite app_nil_r. split; [exact Hmap2|]. split; [exact Hseq2|].
    exact Hadds.
Qed.

(* the errors Conversion.__init__ can raise *)
Lemma conv_init_err st d e : conv_init std_info st d = Err e ->
  e = EMixture \/ e = EWidthRange \/ e = EPrecRange \/ (e = EForbiddenKey /\ d_conv d = 37 /\ d_key d <> None).
Proof.
  unfold conv_init.
  destruct (negb (last (d_text d) 0 =? d_conv d)); [discriminate|].
  destruct (conv_warns std_info d) as [ws|]; [|discriminate].
  destruct (if d_var_width d then match add_seq st SVarWidth with Some x => Ok x | None => Err EMixture end
            else if (d_width d >? i_ssize_max std_info)%Z then Err EWidthRange else Ok st) as [st1| |] eqn:E1; cbn [obind].
  2:{ intros H; inversion H; subst. destruct (d_var_width d).
      - destruct (add_seq st SVarWidth); inversion E1; auto.
      - destruct (d_width d >? i_ssize_max std_info)%Z; inversion E1; auto. }
  2:{ discriminate. }
  destruct (if d_var_prec d then match add_seq st1 SVarPrec with Some x => Ok x | None => Err EMixture end
            else match d_prec d with
                 | Some p => if (p >? i_ssize_max std_info)%Z then Err EPrecRange else Ok st1
                 | None => Ok st1
                 end) as [st2| |] eqn:E2; cbn [obind].
  2:{ intros H; inversion H; subst. destruct (d_var_prec d).
      - destruct (add_seq st1 SVarPrec); inversion E2; auto.
      - destruct (d_prec d) as [p|]; [destruct (p >? i_ssize_max std_info)%Z|]; inversion E2; auto. }
  2:{ discriminate. }
  destruct (conv_type std_info (d_conv d)) as [t|] eqn:Et; [|discriminate].
  destruct t; destruct (d_key d) eqn:Ek; try discriminate;
    try (match goal with |- context [match ?x with Some _ => _ | None => _ end] => destruct x end;
         [discriminate|intros H; inversion H; auto]).
  intros H; inversion H; subst. right. right. right. split; [reflexivity|]. split; [apply conv_type_none; exact Et|discriminate].
Qed.

(* ---------------------------------------------------------------- facts about the fold *)
Lemma pfold_ok_clean ds : forall tail st fin, Forall dir_wf ds -> pfold ds tail st = Ok fin -> clean ds tail = true.
Proof.
  induction ds as [|d r IH]; intros tail st fin Hwf; cbn [pfold].
  - destruct tail; [discriminate|reflexivity].
  - inversion Hwf; subst. destruct (conv_init std_info st d) as [st'| |] eqn:Ec; cbn [obind]; try discriminate.
    intros H. apply conv_init_ok in Ec; [|assumption]. destruct Ec as [Etb _].
    specialize (IH tail st' fin ltac:(assumption) H). unfold clean in *. destruct tail; [discriminate|].
    cbn [forallb]. rewrite Etb, IH. reflexivity.
Qed.

Lemma pfold_no_crash ds : forall tail st c, Forall dir_wf ds -> pfold ds tail st <> Crash c.
Proof.
  induction ds as [|d r IH]; intros tail st c Hwf; cbn [pfold].
  - destruct tail; discriminate.
  - inversion Hwf; subst. pose proof (conv_init_crash st d) as Hc.
    destruct (conv_init std_info st d) as [st'| |c']; cbn [obind]; [apply IH; assumption|discriminate|].
    exfalso. apply (Hc c'); [assumption|reflexivity].
Qed.

Lemma pfold_err ds : forall st e, pfold ds None st = Err e -> exists d st1, In d ds /\ conv_init std_info st1 d = Err e.
Proof.
  induction ds as [|d r IH]; intros st e; cbn [pfold]; [discriminate|].
  destruct (conv_init std_info st d) as [st'| |] eqn:Ec; cbn [obind]; try discriminate.
  - intros H. apply IH in H. destruct H as [d' [st1 [Hin H]]]. exists d', st1. split; [right; exact Hin|exact H].
  - intros H; inversion H; subst. exists d, st. split; [left; reflexivity|exact Ec].
Qed.

Lemma map_add_nonempty k t m : map_add k t m <> [].
Proof. destruct m as [|[k0 ts] r]; cbn [map_add]; [discriminate|]. destruct (list_eqb k0 k); discriminate. Qed.

(* one of the two argument lists stays empty; both only grow *)
Lemma pfold_grow ds : forall st fin, Forall dir_wf ds -> pfold ds None st = Ok fin ->
  (exists delta, st_seq fin = st_seq st ++ delta) /\
  (st_map st <> [] -> st_map fin <> []) /\
  ((st_seq st = [] \/ st_map st = []) -> (st_seq fin = [] \/ st_map fin = [])).
Proof.
  induction ds as [|d r IH]; intros st fin Hwf; cbn [pfold].
  - intros H; inversion H; subst. split; [exists []; rewrite app_nil_r; reflexivity|]. split; auto.
  - inversion Hwf; subst. destruct (conv_init std_info st d) as [st'| |] eqn:Ec; cbn [obind]; try discriminate.
    intros H. apply conv_init_ok in Ec; [|assumption]. destruct Ec as [_ [t [_ Hk]]].
    destruct (IH st' fin ltac:(assumption) H) as [[delta Hd] [Hm Hx]].
    destruct (d_key d) as [k|].
    + destruct Hk as [_ [_ [Hs0 [Hs1 Hm1]]]]. split; [|split].
      * exists delta. rewrite Hd, Hs1, Hs0. reflexivity.
      * intros _. apply Hm. rewrite Hm1. apply map_add_nonempty.
      * intros _. apply Hx. left. exact Hs1.
    + destruct Hk as [Hm1 [Hs1 Hne]]. split; [|split].
      * exists ((seq_adds d ++ conv_adds t) ++ delta). rewrite Hd, Hs1. rewrite <- !app_assoc. reflexivity.
      * intros Hn. apply Hm. rewrite Hm1. exact Hn.
      * intros Ho. apply Hx. destruct (seq_adds d ++ conv_adds t) eqn:Ea.
        -- rewrite Hs1, app_nil_r, Hm1. exact Ho.
        -- right. rewrite Hm1. apply Hne. discriminate.
Qed.

(* ---------------------------------------------------------------- running CPython's events *)
Lemma run_star_w v r evs dict : star_ok v = true ->
  cpy_run (EvStarWidth :: evs) (ATuple (v :: r)) dict = cpy_run evs (ATuple r) dict.
Proof.
  destruct v as [z| | | | |]; cbn [star_ok]; try discriminate. intros H. cbn [cpy_run getnextarg].
  replace (Z.abs z <=? PY_SSIZE_T_MAX)%Z with true by (unfold PY_SSIZE_T_MAX; lia). reflexivity.
Qed.

Lemma run_star_p v r evs dict : star_ok v = true ->
  cpy_run (EvStarPrec :: evs) (ATuple (v :: r)) dict = cpy_run evs (ATuple r) dict.
Proof.
  destruct v as [z| | | | |]; cbn [star_ok]; try discriminate. intros H. cbn [cpy_run getnextarg].
  replace ((- C_INT_MAX - 1 <=? z) && (z <=? C_INT_MAX))%Z with true by (unfold C_INT_MAX; lia). reflexivity.
Qed.

Lemma run_conv c v a a' evs dict : getnextarg a = Some (v, a') -> format_value c v = RSuccess ->
  cpy_run (EvConv c :: evs) a dict = cpy_run evs a' dict.
Proof. intros Hg Hf. cbn [cpy_run]. rewrite Hg, Hf. reflexivity. Qed.

Lemma run_success_no_error evs : forall a dict, cpy_run evs a dict = RSuccess -> existsb is_error_event evs = false.
Proof.
  induction evs as [|e r IH]; intros a dict; [reflexivity|]. cbn [cpy_run existsb].
  destruct e as [|k| | |c|[|]|c|x]; cbn [is_error_event orb].
  - destruct dict; [apply IH|discriminate].
  - destruct dict as [d|]; [|discriminate]. destruct (lookup k d); [apply IH|discriminate].
  - destruct (getnextarg a) as [[[z| | | | |] a']|]; try discriminate. destruct (Z.abs z <=? PY_SSIZE_T_MAX)%Z; [apply IH|discriminate].
  - destruct (getnextarg a) as [[[z| | | | |] a']|]; try discriminate.
    destruct ((- C_INT_MAX - 1 <=? z) && (z <=? C_INT_MAX))%Z; [apply IH|discriminate].
  - destruct (getnextarg a) as [[v a']|]; [|discriminate]. destruct (format_value c v); try discriminate. apply IH.
  - apply IH.
  - destruct (getnextarg a); discriminate.
  - destruct (getnextarg a); discriminate.
  - discriminate.
Qed.

Definition no_decorated (evs : list event) : Prop :=
  forallb (fun e => match e with EvPercent false => false | _ => true end) evs = true.

Lemma no_decorated_app a b : no_decorated (a ++ b) <-> no_decorated a /\ no_decorated b.
Proof. unfold no_decorated. rewrite forallb_app, andb_true_iff. reflexivity. Qed.

(* among the events of a scanned specification only a decorated "%" is an error *)
Lemma events_of_error d : existsb is_error_event (events_of d) = true -> ~ no_decorated (events_of d).
Proof.
  unfold events_of, no_decorated. rewrite !existsb_app, !forallb_app.
  assert (H1 : existsb is_error_event (key_events (d_key d)) = false) by (destruct (d_key d); reflexivity).
  assert (H2 : existsb is_error_event (width_events (d_var_width d)) = false) by (destruct (d_var_width d); reflexivity).
  assert (H3 : existsb is_error_event (prec_events (d_var_prec d)) = false) by (destruct (d_var_prec d); reflexivity).
  rewrite H1, H2, H3. cbn [orb existsb]. unfold conv_event.
  destruct (d_conv d =? 37); [|discriminate]. destruct (d_plain d); [discriminate|].
  intros _ H. rewrite !andb_true_iff in H. destruct H as [_ [_ [_ H]]]. cbn in H. discriminate.
Qed.

Lemma flat_events_error ds : existsb is_error_event (flat_map events_of ds) = true -> ~ no_decorated (flat_map events_of ds).
Proof.
  induction ds as [|d r IH]; cbn [flat_map]; [discriminate|].
  rewrite existsb_app, orb_true_iff. intros [H|H] Hn; apply no_decorated_app in Hn; destruct Hn as [Hn1 Hn2].
  - exact (events_of_error d H Hn1).
  - exact (IH H Hn2).
Qed.

(* ---------------------------------------------------------------- accepted => CPython formats: unnamed arguments *)
Lemma Forall2_app_split {A B} (R : A -> B -> Prop) l1 : forall l2 vs, Forall2 R (l1 ++ l2) vs ->
  exists v1 v2, vs = v1 ++ v2 /\ Forall2 R l1 v1 /\ Forall2 R l2 v2.
Proof.
  induction l1 as [|x l1 IH]; intros l2 vs H; cbn [app] in H.
  - exists [], vs. split; [reflexivity|split; [constructor|exact H]].
  - inversion H as [|? y ? vs' Hxy Hr]; subst. destruct (IH _ _ Hr) as [v1 [v2 [-> [H1 H2]]]].
    exists (y :: v1), v2. split; [reflexivity|split; [constructor; assumption|exact H2]].
Qed.

Lemma run_unnamed ds : forall st fin, Forall dir_wf ds -> pfold ds None st = Ok fin -> st_map fin = [] ->
  no_decorated (flat_map events_of ds) ->
  exists delta, st_seq fin = st_seq st ++ delta /\
    forall vs, Forall2 (fun x v => seqarg_ok x v = true) delta vs -> forall rest more,
      cpy_run (flat_map events_of ds ++ more) (ATuple (vs ++ rest)) None = cpy_run more (ATuple rest) None.
Proof.
  induction ds as [|d r IH]; intros st fin Hwf; cbn [pfold flat_map].
  - intros H _ _; inversion H; subst. exists []. rewrite app_nil_r. split; [reflexivity|].
    intros vs Hv rest more. inversion Hv; subst. reflexivity.
  - inversion Hwf as [|? ? Hd Hr]; subst.
    destruct (conv_init std_info st d) as [st'| |] eqn:Ec; cbn [obind]; try discriminate.
    intros H Hm Hnd. apply no_decorated_app in Hnd. destruct Hnd as [Hnd1 Hnd2].
    pose proof (conv_init_ok _ _ _ Hd Ec) as [_ [t [Ht Hk]]].
    destruct (pfold_grow r st' fin Hr H) as [_ [Hmono _]].
    destruct (d_key d) as [k|] eqn:Ek.
    { exfalso. destruct Hk as [_ [_ [_ [_ Hm1]]]]. apply Hmono; [rewrite Hm1; apply map_add_nonempty|exact Hm]. }
    destruct Hk as [Hm1 [Hs1 _]].
    destruct (IH st' fin Hr H Hm Hnd2) as [delta [Hseq Hrun]].
    exists ((seq_adds d ++ conv_adds t) ++ delta). split; [rewrite Hseq, Hs1, <- !app_assoc; reflexivity|].
    intros vs Hv rest more.
    apply Forall2_app_split in Hv. destruct Hv as [v1 [v2 [-> [Hv1 Hv2]]]].
    apply Forall2_app_split in Hv1. destruct Hv1 as [va [vc [-> [Hva Hvc]]]].
    unfold seq_adds in Hva. apply Forall2_app_split in Hva. destruct Hva as [vw [vp [-> [Hvw Hvp]]]].
    unfold events_of. rewrite Ek. cbn [key_events app]. rewrite <- !app_assoc.
    (* width star *)
    assert (Sw : forall evs tl, cpy_run (width_events (d_var_width d) ++ evs) (ATuple (vw ++ tl)) None = cpy_run evs (ATuple tl) None).
    { intros evs tl. destruct (d_var_width d); cbn [width_events app].
      - inversion Hvw as [|? v ? ? Hs Hn]; subst. inversion Hn; subst. cbn [app]. apply run_star_w. exact Hs.
      - inversion Hvw; subst. reflexivity. }
    assert (Sp : forall evs tl, cpy_run (prec_events (d_var_prec d) ++ evs) (ATuple (vp ++ tl)) None = cpy_run evs (ATuple tl) None).
    { intros evs tl. destruct (d_var_prec d); cbn [prec_events app].
      - inversion Hvp as [|? v ? ? Hs Hn]; subst. inversion Hn; subst. cbn [app]. apply run_star_p. exact Hs.
      - inversion Hvp; subst. reflexivity. }
    rewrite <- ?app_assoc. rewrite Sw, Sp. cbn [app].
    unfold conv_event. unfold no_decorated, events_of in Hnd1. rewrite !forallb_app in Hnd1.
    rewrite !andb_true_iff in Hnd1. destruct Hnd1 as [_ [_ [_ Hce]]]. unfold conv_event in Hce.
    destruct t; cbn [conv_adds] in Hvc;
      try (inversion Hvc as [|? v ? ? Hs Hn]; subst; inversion Hn; subst;
           match type of Ht with _ = Some ?tt =>
             destruct (conv_type_formats (d_conv d) tt v Ht ltac:(discriminate) Hs) as [Hne Hfv] end;
           replace (d_conv d =? 37) with false by (symmetry; apply N.eqb_neq; exact Hne);
           cbn [app]; erewrite run_conv; [apply Hrun; exact Hv2|reflexivity|exact Hfv]).
    (* a bare "%%" *)
    inversion Hvc; subst. apply conv_type_none in Ht. rewrite Ht in *. cbn [N.eqb Pos.eqb] in *.
    destruct (d_plain d); [|cbn in Hce; discriminate]. cbn [app cpy_run]. apply Hrun. exact Hv2.
Qed.

(* ---------------------------------------------------------------- accepted => CPython formats: named arguments *)
Definition has_kt (m : list (list N * list ptype)) (k : list N) (t : ptype) : Prop :=
  exists ts, In (k, ts) m /\ In t ts.

Lemma list_eqb_eq a : forall b, list_eqb a b = true -> a = b.
Proof.
  induction a as [|x a IH]; intros [|y b]; cbn [list_eqb]; try discriminate; [reflexivity|].
  rewrite andb_true_iff. intros [H1 H2]. apply N.eqb_eq in H1. f_equal; auto.
Qed.
Lemma list_eqb_refl a : list_eqb a a = true.
Proof. induction a; cbn [list_eqb]; [reflexivity|]. rewrite N.eqb_refl. exact IHa. Qed.

Lemma map_add_has k t m : has_kt (map_add k t m) k t.
Proof.
  induction m as [|[k0 ts] r IH]; cbn [map_add].
  - exists [t]. split; left; reflexivity.
  - destruct (list_eqb k0 k) eqn:E.
    + apply list_eqb_eq in E. subst k0. exists (ts ++ [t]). split; [left; reflexivity|apply in_or_app; right; left; reflexivity].
    + destruct IH as [ts' [H1 H2]]. exists ts'. split; [right; exact H1|exact H2].
Qed.

Lemma map_add_keeps k t m k' t' : has_kt m k' t' -> has_kt (map_add k t m) k' t'.
Proof.
  induction m as [|[k0 ts] r IH]; cbn [map_add]; intros [ts' [H1 H2]]; [destruct H1|].
  destruct H1 as [H1|H1].
  - inversion H1; subst. destruct (list_eqb k' k).
    + exists (ts' ++ [t]). split; [left; reflexivity|apply in_or_app; left; exact H2].
    + exists ts'. split; [left; reflexivity|exact H2].
  - destruct (list_eqb k0 k).
    + exists ts'. split; [right; exact H1|exact H2].
    + destruct (IH (ex_intro _ ts' (conj H1 H2))) as [ts'' [H3 H4]]. exists ts''. split; [right; exact H3|exact H4].
Qed.

Lemma pfold_has_kt ds : forall st fin k t, Forall dir_wf ds -> pfold ds None st = Ok fin ->
  has_kt (st_map st) k t -> has_kt (st_map fin) k t.
Proof.
  induction ds as [|d r IH]; intros st fin k t Hwf; cbn [pfold].
  - intros H; inversion H; subst. auto.
  - inversion Hwf as [|? ? Hd Hr]; subst.
    destruct (conv_init std_info st d) as [st'| |] eqn:Ec; cbn [obind]; try discriminate.
    intros H Hk. apply (IH st' fin k t Hr H).
    pose proof (conv_init_ok _ _ _ Hd Ec) as [_ [t0 [_ Hc]]].
    destruct (d_key d) as [k0|].
    + destruct Hc as [_ [_ [_ [_ ->]]]]. apply map_add_keeps. exact Hk.
    + destruct Hc as [-> _]. exact Hk.
Qed.

Lemma run_named ds : forall st fin, Forall dir_wf ds -> pfold ds None st = Ok fin -> st_seq fin = [] ->
  no_decorated (flat_map events_of ds) ->
  forall dct, (forall k ts, In (k, ts) (st_map fin) -> exists v, lookup k dct = Some v /\ forallb (fun t => val_ok t v) ts = true) ->
  forall a more, exists a', cpy_run (flat_map events_of ds ++ more) a (Some dct) = cpy_run more a' (Some dct).
Proof.
  induction ds as [|d r IH]; intros st fin Hwf; cbn [pfold flat_map].
  - intros _ _ _ dct _ a more. exists a. reflexivity.
  - inversion Hwf as [|? ? Hd Hr]; subst.
    destruct (conv_init std_info st d) as [st'| |] eqn:Ec; cbn [obind]; try discriminate.
    intros H Hs Hnd dct Hdct a more. apply no_decorated_app in Hnd. destruct Hnd as [Hnd1 Hnd2].
    pose proof (conv_init_ok _ _ _ Hd Ec) as [_ [t [Ht Hk]]].
    destruct (pfold_grow r st' fin Hr H) as [[delta Hdelta] _].
    assert (Hs' : st_seq st' = []). { rewrite Hs in Hdelta. symmetry in Hdelta. apply app_eq_nil in Hdelta. tauto. }
    unfold events_of. rewrite <- !app_assoc.
    unfold no_decorated, events_of in Hnd1. rewrite !forallb_app, !andb_true_iff in Hnd1.
    destruct Hnd1 as [_ [_ [_ Hce]]]. unfold conv_event in Hce |- *.
    destruct (d_key d) as [k|] eqn:Ek.
    + destruct Hk as [Htn [Hadds [_ [_ Hm1]]]].
      unfold seq_adds in Hadds. apply app_eq_nil in Hadds. destruct Hadds as [Ha1 Ha2].
      assert (d_var_width d = false) as -> by (destruct (d_var_width d); [discriminate|reflexivity]).
      assert (d_var_prec d = false) as -> by (destruct (d_var_prec d); [discriminate|reflexivity]).
      cbn [key_events width_events prec_events app].
      assert (Hkt : has_kt (st_map fin) k t).
      { apply (pfold_has_kt r st' fin k t Hr H). rewrite Hm1. apply map_add_has. }
      destruct Hkt as [ts [Hin Htin]]. destruct (Hdct k ts Hin) as [v [Hl Hv]].
      rewrite forallb_forall in Hv. specialize (Hv t Htin).
      destruct (conv_type_formats (d_conv d) t v Ht Htn Hv) as [Hne Hfv].
      replace (d_conv d =? 37) with false by (symmetry; apply N.eqb_neq; exact Hne).
      cbn [cpy_run]. rewrite Hl. cbn [cpy_run getnextarg]. rewrite Hfv.
      apply (IH st' fin Hr H Hs Hnd2 dct Hdct).
    + destruct Hk as [_ [Hs1 _]]. rewrite Hs' in Hs1. symmetry in Hs1.
      apply app_eq_nil in Hs1. destruct Hs1 as [_ Hs1]. apply app_eq_nil in Hs1. destruct Hs1 as [Hadds Hca].
      unfold seq_adds in Hadds. apply app_eq_nil in Hadds. destruct Hadds as [Ha1 Ha2].
      assert (d_var_width d = false) as -> by (destruct (d_var_width d); [discriminate|reflexivity]).
      assert (d_var_prec d = false) as -> by (destruct (d_var_prec d); [discriminate|reflexivity]).
      cbn [key_events width_events prec_events app].
      destruct t; cbn [conv_adds] in Hca; try discriminate.
      apply conv_type_none in Ht. rewrite Ht in *. cbn [N.eqb Pos.eqb] in *.
      destruct (d_plain d); [|cbn in Hce; discriminate]. cbn [cpy_run].
      apply (IH st' fin Hr H Hs Hnd2 dct Hdct).
Qed.

(* ---------------------------------------------------------------- the theorems *)
Lemma events_of_parse s : (if clean (fst (pscan (S (length s)) s)) (snd (pscan (S (length s)) s))
   then cpy_events s = flat_map events_of (fst (pscan (S (length s)) s))
   else bad (cpy_events s)).
Proof. apply events_scan. lia. Qed.

Lemma plain_no_decorated s : plain_percents s = true -> no_decorated (cpy_events s).
Proof. intros H. exact H. Qed.

Theorem accept_formats s sg a :
  fmtpy_parse std_info s = Ok sg -> plain_percents s = true ->
  args_match (seq_arguments sg) (map_arguments sg) a -> formats_ok s a.
Proof.
  unfold fmtpy_parse. intros Hp Hplain Hargs.
  rewrite ploop_pfold in Hp by lia.
  pose proof (pscan_wf (S (length s)) s) as Hwf. pose proof (events_of_parse s) as Hev.
  destruct (pscan (S (length s)) s) as [ds tail]. cbn [fst snd] in *.
  destruct (pfold ds tail st0) as [fin| |] eqn:Ef; cbn [obind] in Hp; try discriminate.
  destruct (existsb (fun kv => mixed_types (snd kv)) (st_map fin)); [discriminate|].
  inversion Hp; subst sg; clear Hp. cbn [seq_arguments map_arguments] in Hargs.
  rewrite (pfold_ok_clean ds tail st0 fin Hwf Ef) in Hev.
  assert (tail = None) as -> by (apply pfold_ok_clean in Ef; [|assumption]; destruct tail; [discriminate|reflexivity]).
  apply plain_no_decorated in Hplain. rewrite Hev in Hplain.
  unfold formats_ok, cpy_format. rewrite Hev. unfold args_match in Hargs.
  destruct (st_map fin) as [|kv m] eqn:Em.
  - destruct Hargs as [vs [-> Hvs]].
    destruct (run_unnamed ds st0 fin Hwf Ef Em Hplain) as [delta [Hseq Hrun]]. cbn [st_seq st0 app] in Hseq. subst delta.
    specialize (Hrun vs Hvs [] []). rewrite !app_nil_r in Hrun. rewrite Hrun. reflexivity.
  - destruct Hargs as [dct [-> Hd]].
    destruct (pfold_grow ds st0 fin Hwf Ef) as [_ [_ Hx]].
    assert (Hs : st_seq fin = []). { destruct (Hx (or_introl eq_refl)) as [H|H]; [exact H|rewrite Em in H; discriminate]. }
    rewrite <- Em in Hd.
    destruct (run_named ds st0 fin Hwf Ef Hs Hplain dct Hd (AOne (Some (VDict dct))) []) as [a' Ha].
    rewrite app_nil_r in Ha. rewrite Ha. reflexivity.
Qed.

Theorem own_errors s c : fmtpy_parse std_info s <> Crash c.
Proof.
  unfold fmtpy_parse. rewrite ploop_pfold by lia.
  pose proof (pscan_wf (S (length s)) s) as Hwf.
  destruct (pscan (S (length s)) s) as [ds tail]. cbn [fst snd] in *.
  pose proof (pfold_no_crash ds tail st0) as Hc.
  destruct (pfold ds tail st0) as [fin| |c']; cbn [obind].
  - destruct (existsb (fun kv => mixed_types (snd kv)) (st_map fin)); discriminate.
  - discriminate.
  - exfalso. apply (Hc c'); [assumption|reflexivity].
Qed.

Theorem reject_if_cpython_rejects s :
  cpy_syntax_error s = true -> plain_percents s = true -> exists e, fmtpy_parse std_info s = Err e.
Proof.
  intros Hsyn Hplain. destruct (fmtpy_parse std_info s) as [sg|e|c] eqn:Ep; [exfalso|eauto|exfalso; exact (own_errors s c Ep)].
  unfold fmtpy_parse in Ep. rewrite ploop_pfold in Ep by lia.
  pose proof (pscan_wf (S (length s)) s) as Hwf. pose proof (events_of_parse s) as Hev.
  destruct (pscan (S (length s)) s) as [ds tail]. cbn [fst snd] in *.
  destruct (pfold ds tail st0) as [fin| |] eqn:Ef; cbn [obind] in Ep; try discriminate.
  rewrite (pfold_ok_clean ds tail st0 fin Hwf Ef) in Hev.
  unfold cpy_syntax_error in Hsyn. apply plain_no_decorated in Hplain. rewrite Hev in *.
  exact (flat_events_error ds Hsyn Hplain).
Qed.

Definition documented (e : py_err) : Prop :=
  e = EMixture \/ e = ETypeMismatch \/ e = EWidthRange \/ e = EPrecRange.

Theorem only_documented_rejections s a e :
  formats_ok s a -> fmtpy_parse std_info s = Err e -> documented e.
Proof.
  unfold formats_ok, cpy_format. intros Hok Hp.
  apply run_success_no_error in Hok.
  unfold fmtpy_parse in Hp. rewrite ploop_pfold in Hp by lia.
  pose proof (pscan_wf (S (length s)) s) as Hwf. pose proof (events_of_parse s) as Hev.
  destruct (pscan (S (length s)) s) as [ds tail]. cbn [fst snd] in *.
  destruct (clean ds tail) eqn:Ecl; [|unfold bad in Hev; congruence].
  assert (tail = None) as -> by (unfold clean in Ecl; destruct tail; [discriminate|reflexivity]).
  destruct (pfold ds None st0) as [fin|e'|] eqn:Ef; cbn [obind] in Hp.
  - destruct (existsb (fun kv => mixed_types (snd kv)) (st_map fin)); inversion Hp; subst. right; left; reflexivity.
  - inversion Hp; subst e'. apply pfold_err in Ef. destruct Ef as [d [st1 [Hin Hc]]].
    apply conv_init_err in Hc. destruct Hc as [->|[->|[->|[-> [H37 Hkey]]]]]; unfold documented; auto.
    (* ForbiddenArgumentKey: a "%" conversion with a key, which CPython does not format *)
    exfalso. rewrite Hev in Hok.
    assert (Hd : dir_wf d) by (rewrite Forall_forall in Hwf; apply Hwf; exact Hin).
    assert (Hbad : existsb is_error_event (events_of d) = true).
    { unfold events_of. rewrite !existsb_app. unfold conv_event. rewrite H37. cbn [N.eqb Pos.eqb].
      destruct (d_plain d) eqn:Epl.
      - destruct (wf_plain d Hd Epl) as [Hk _]. congruence.
      - cbn. rewrite !orb_true_r. reflexivity. }
    assert (Hall : existsb is_error_event (flat_map events_of ds) = true).
    { clear - Hin Hbad. induction ds as [|x r IH]; [destruct Hin|]. cbn [flat_map]. rewrite existsb_app.
      destruct Hin as [->|Hin]; [rewrite Hbad; reflexivity|rewrite (IH Hin); apply orb_true_r]. }
    congruence.
  - discriminate.
Qed.

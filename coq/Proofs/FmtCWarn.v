(* C11_warnings_inert: the warning list is write-only.  The parser is re-stated with a pluggable warn() (the model is
   the instance warn = add_warns, proved below); any two warn functions that leave the argument map and the numbering
   counter alone give the same outcome, the same items and the same arguments.  In particular warn = no-op. *)
From Coq Require Import List NArith ZArith Bool Lia String.
From I18n Require Import Lib.Outcome Lib.CFmtSyntax Generated.CInfo Model.FmtC.
Import ListNotations.
Local Open Scope Z_scope.

Definition warnfn := pstate -> list cwarn -> pstate.

Definition do_prec_g (warn : warnfn) (maxd : N) (s : list N) (cid : nat) (integer : bool) (cv : N) (fl : list N) (st : pstate) (p : numspec)
  : outcome pstate cerr :=
  do st1 <- match p with
            | NNone => Ok st
            | NNum ds => do k <- py_int maxd (match ds with [] => [48%N] | _ => ds end);
                         if k >? c_INT_MAX then Err (EPrecisionRangeError s) else Ok st
            | NStar idx => star_arg maxd s st idx (mkarg KPrec cid c_varprec_type integer)
            end;
  match p with
  | NNone => Ok st1
  | _ =>
    if mem cv (c_int_cvt ++ c_float_cvt ++ c_str_cvt) then
      if mem cv c_int_cvt && mem 48%N fl then Ok (warn st1 [WRedundantFlag s [48%N]]) else Ok st1
    else Err (EPrecisionError s)
  end.

Definition conversion_init_g (warn : warnfn) (maxd : N) (cid : nat) (st : pstate) (d : directive) (s : list N)
  : outcome (pstate * conv) cerr :=
  do t <- step_type (d_body d);
  let '(otp, integer, cv, np) := t in
  let st0 := warn st (map (fun ab => WNonPortable s (fst ab) (snd ab)) np) in
  match otp with
  | None =>
    match body_length (d_body d) with
    | [] => Crash CAssertion
    | l => Err (ELengthError s l)
    end
  | Some tp =>
    do fw <- flag_loop s cv (d_flags d) (dedup (d_flags d));
    let st1 := warn st0 (fw ++ pair_warns s (d_flags d)) in
    do st2 <- do_width maxd s cid integer cv st1 (d_width d);
    do st3 <- do_prec_g warn maxd s cid integer cv (d_flags d) st2 (d_prec d);
    do st4 <- do_index maxd s cid tp integer cv st3 (d_index d);
    Ok (st4, mkconv cid s tp integer)
  end.

Fixpoint run_g (warn : warnfn) (maxd : N) (toks : list ctoken) (cid : nat) (st : pstate) : outcome (list item * pstate) cerr :=
  match toks with
  | [] => Ok ([], st)
  | CTLit t :: r =>
    do x <- run_g warn maxd r (S cid) st; let '(its, st') := x in Ok (ILit t :: its, st')
  | CTDir d text :: r =>
    do y <- conversion_init_g warn maxd cid st d text; let '(st1, c) := y in
    do x <- run_g warn maxd r (S cid) st1; let '(its, st') := x in Ok (IConv c :: its, st')
  | CTBad rest :: _ => raise_error rest
  | CTFuel :: _ => Crash COutOfFuel
  end.

Definition parse_g (warn : warnfn) (maxd : N) (s : list N) : outcome fmtstring cerr :=
  do x <- run_g warn maxd (fmtc_tokens (List.length s) s) O st_init;
  let '(items, st) := x in
  do args <- collect s (List.length (st_entries st)) 1 (st_entries st);
  do _ <- check_types s 1 args;
  Ok (mkfs items args (st_warn st)).

(* the model is the instance warn = add_warns *)
Lemma conversion_init_instance : forall maxd cid st d s, conversion_init_g add_warns maxd cid st d s = conversion_init maxd cid st d s.
Proof. reflexivity. Qed.

Lemma run_instance : forall maxd toks cid st, run_g add_warns maxd toks cid st = run maxd toks cid st.
Proof.
  intros maxd. induction toks as [|t toks IH]; intros cid st; cbn [run_g run]; [reflexivity|].
  destruct t; try reflexivity.
  - rewrite IH. reflexivity.
  - rewrite conversion_init_instance. destruct (conversion_init maxd cid st d text) as [[st1 c]| |]; cbn [obind]; try reflexivity.
    rewrite IH. reflexivity.
Qed.

Lemma parse_instance : forall maxd s, parse_g add_warns maxd s = fmtc_parse maxd s.
Proof. intros. unfold parse_g, fmtc_parse. rewrite run_instance. reflexivity. Qed.

(* ------------------------------------------------------------------ *)
(* simulation                                                           *)

Definition sim (a b : pstate) : Prop := st_entries a = st_entries b /\ st_next a = st_next b.
Definition quiet (warn : warnfn) : Prop := forall st l, sim (warn st l) st.

Lemma quiet_add_warns : quiet add_warns.
Proof. intros st l. split; reflexivity. Qed.
Lemma quiet_noop : quiet (fun st _ => st).
Proof. intros st l. split; reflexivity. Qed.

Lemma sim_refl : forall a, sim a a. Proof. intros; split; reflexivity. Qed.
Lemma sim_trans : forall a b c, sim a b -> sim b c -> sim a c.
Proof. intros a b c [H1 H2] [H3 H4]. split; congruence. Qed.
Lemma sim_sym : forall a b, sim a b -> sim b a.
Proof. intros a b [H1 H2]. split; congruence. Qed.

Lemma sim_warn : forall w1 w2 a b l1 l2, quiet w1 -> quiet w2 -> sim a b -> sim (w1 a l1) (w2 b l2).
Proof.
  intros w1 w2 a b l1 l2 Q1 Q2 H. eapply sim_trans; [apply Q1|]. eapply sim_trans; [exact H|]. apply sim_sym. apply Q2.
Qed.

Definition osim {A B} (R : A -> B -> Prop) (x : outcome A cerr) (y : outcome B cerr) : Prop :=
  match x, y with
  | Ok a, Ok b => R a b
  | Err e1, Err e2 => e1 = e2
  | Crash c1, Crash c2 => c1 = c2
  | _, _ => False
  end.

Lemma osim_bind : forall A B C D (R : A -> B -> Prop) (S : C -> D -> Prop) x y f g,
  osim R x y -> (forall a b, R a b -> osim S (f a) (g b)) -> osim S (obind x f) (obind y g).
Proof.
  intros A B C D R S x y f g H HF. destruct x, y; cbn in *; try contradiction; try assumption. apply HF. exact H.
Qed.

Lemma osim_refl : forall A (x : outcome A cerr), osim eq x x.
Proof. intros A x. destruct x; reflexivity. Qed.

Lemma add_argument_sim : forall s a b n v, sim a b -> osim sim (add_argument s a n v) (add_argument s b n v).
Proof.
  intros s [e1 n1 w1] [e2 n2 w2] n v [H1 H2]. cbn [st_entries st_next] in *. subst e2 n2.
  unfold add_argument. cbn [st_entries st_next st_warn].
  destruct n as [k|]; destruct n1 as [j|]; cbn [osim].
  - destruct (j =? 1); [|reflexivity]. destruct e1; [|reflexivity]. destruct (k >? c_NL_ARGMAX); cbn [osim]; [reflexivity | split; reflexivity].
  - destruct (k >? c_NL_ARGMAX); cbn [osim]; [reflexivity | split; reflexivity].
  - destruct (j >? c_NL_ARGMAX); cbn [osim]; [reflexivity | split; reflexivity].
  - reflexivity.
Qed.

Lemma star_arg_sim : forall maxd s a b idx v, sim a b -> osim sim (star_arg maxd s a idx v) (star_arg maxd s b idx v).
Proof.
  intros maxd s a b idx v H. unfold star_arg. eapply osim_bind; [apply osim_refl|].
  intros n n' <-. apply add_argument_sim. exact H.
Qed.

Lemma do_width_sim : forall maxd s cid integer cv a b w, sim a b ->
  osim sim (do_width maxd s cid integer cv a w) (do_width maxd s cid integer cv b w).
Proof.
  intros maxd s cid integer cv a b w H. unfold do_width. eapply osim_bind with (R := sim).
  - destruct w as [|ds|idx].
    + exact H.
    + destruct (py_int maxd ds) as [k|e|c]; cbn [obind osim]; try reflexivity.
      destruct (k >? c_INT_MAX); cbn [osim]; [reflexivity | exact H].
    + apply star_arg_sim. exact H.
  - intros a' b' H'. destruct w; [exact H' | |]; destruct (mem cv [37%N; 110%N]); cbn [osim]; try reflexivity; exact H'.
Qed.

Lemma do_prec_sim : forall w1 w2 maxd s cid integer cv fl a b p, quiet w1 -> quiet w2 -> sim a b ->
  osim sim (do_prec_g w1 maxd s cid integer cv fl a p) (do_prec_g w2 maxd s cid integer cv fl b p).
Proof.
  intros w1 w2 maxd s cid integer cv fl a b p Q1 Q2 H. unfold do_prec_g. eapply osim_bind with (R := sim).
  - destruct p as [|ds|idx].
    + exact H.
    + destruct (py_int maxd match ds with [] => [48%N] | _ :: _ => ds end) as [k|e|c]; cbn [obind osim]; try reflexivity.
      destruct (k >? c_INT_MAX); cbn [osim]; [reflexivity | exact H].
    + apply star_arg_sim. exact H.
  - intros a' b' H'. destruct p; [exact H' | |];
      (destruct (mem cv (c_int_cvt ++ c_float_cvt ++ c_str_cvt)); cbn [osim]; [|reflexivity];
       destruct (mem cv c_int_cvt && mem 48%N fl); cbn [osim]; [apply sim_warn; assumption | exact H']).
Qed.

Lemma do_index_sim : forall maxd s cid tp integer cv a b idx, sim a b ->
  osim sim (do_index maxd s cid tp integer cv a idx) (do_index maxd s cid tp integer cv b idx).
Proof.
  intros maxd s cid tp integer cv a b idx H. unfold do_index. eapply osim_bind; [apply osim_refl|].
  intros n n' <-. destruct (list_eqb tp t_void).
  - destruct n; [destruct (cv =? 37)%N|]; cbn [osim]; try reflexivity; exact H.
  - apply add_argument_sim. exact H.
Qed.

Definition sim_conv (x y : pstate * conv) : Prop := sim (fst x) (fst y) /\ snd x = snd y.

Lemma conversion_init_sim : forall w1 w2 maxd cid a b d s, quiet w1 -> quiet w2 -> sim a b ->
  osim sim_conv (conversion_init_g w1 maxd cid a d s) (conversion_init_g w2 maxd cid b d s).
Proof.
  intros w1 w2 maxd cid a b d s Q1 Q2 H. unfold conversion_init_g.
  destruct (step_type (d_body d)) as [[[[otp integer] cv] np]|e|c]; cbn [obind osim]; try reflexivity.
  destruct otp as [tp|].
  2:{ destruct (body_length (d_body d)); cbn [osim]; reflexivity. }
  destruct (flag_loop s cv (d_flags d) (dedup (d_flags d))) as [fw|e|c]; cbn [obind osim]; try reflexivity.
  eapply osim_bind with (R := sim).
  { apply do_width_sim. apply sim_warn; try assumption. apply sim_warn; assumption. }
  intros a2 b2 H2. eapply osim_bind with (R := sim).
  { apply do_prec_sim; assumption. }
  intros a3 b3 H3. eapply osim_bind with (R := sim).
  { apply do_index_sim. exact H3. }
  intros a4 b4 H4. cbn [osim]. split; [exact H4 | reflexivity].
Qed.

Definition sim_run (x y : list item * pstate) : Prop := fst x = fst y /\ sim (snd x) (snd y).

Lemma run_sim : forall w1 w2 maxd, quiet w1 -> quiet w2 -> forall toks cid a b, sim a b ->
  osim sim_run (run_g w1 maxd toks cid a) (run_g w2 maxd toks cid b).
Proof.
  intros w1 w2 maxd Q1 Q2. induction toks as [|t toks IH]; intros cid a b H; cbn [run_g].
  - cbn [osim]. split; [reflexivity | exact H].
  - destruct t as [l|d text|rest|].
    + eapply osim_bind; [apply IH; exact H|]. intros [i1 s1] [i2 s2] [E S]. cbn [fst snd] in *. subst i2.
      cbn [osim]. split; [reflexivity | exact S].
    + eapply osim_bind; [apply conversion_init_sim; assumption|].
      intros [s1 c1] [s2 c2] [S E]. cbn [fst snd] in *. subst c2.
      eapply osim_bind; [apply IH; exact S|]. intros [i1 t1] [i2 t2] [E' S']. cbn [fst snd] in *. subst i2.
      cbn [osim]. split; [reflexivity | exact S'].
    + unfold raise_error. destruct (fst (span is_printable rest)); cbn [osim]; reflexivity.
    + reflexivity.
Qed.

Definition same_result (f1 f2 : fmtstring) : Prop :=
  fs_items f1 = fs_items f2 /\ fs_arguments f1 = fs_arguments f2.

Theorem warn_irrelevant : forall w1 w2 maxd s, quiet w1 -> quiet w2 ->
  osim same_result (parse_g w1 maxd s) (parse_g w2 maxd s).
Proof.
  intros w1 w2 maxd s Q1 Q2. unfold parse_g.
  eapply osim_bind; [apply run_sim; [assumption | assumption | apply sim_refl]|].
  intros [i1 s1] [i2 s2] [E [S1 S2]]. cbn [fst snd] in *. subst i2. rewrite S1.
  destruct (collect s (List.length (st_entries s2)) 1 (st_entries s2)) as [args|e|c]; cbn [obind osim]; try reflexivity.
  destruct (check_types s 1 args); cbn [obind osim]; try reflexivity. split; reflexivity.
Qed.

(* the model against the parser with warn() removed *)
Corollary warnings_inert : forall maxd s,
  osim same_result (fmtc_parse maxd s) (parse_g (fun st _ => st) maxd s).
Proof.
  intros maxd s. rewrite <- parse_instance. apply warn_irrelevant; [apply quiet_add_warns | apply quiet_noop].
Qed.

(* A catalog that violates none of the documented rules (Spec.clean_catalog_decl, fully declarative) yields no tag. *)
From Coq Require Import List NArith ZArith Bool Lia.
From I18n Require Import Lib.Outcome Model.Messages Spec.Messages Proofs.MessagesLib Proofs.MessagesFlags Proofs.Messages
  Proofs.MessagesScan Proofs.MessagesUnusual Proofs.MessagesMore Proofs.MessagesFormats.
Import ListNotations.
Local Open Scope N_scope.

Lemma first_marker_none strs : (forall s, In s strs -> search_marker s = None) -> first_marker strs = None.
Proof.
  induction strs as [|s strs IH]; cbn; intros H; auto. rewrite (H s (or_introl eq_refl)). apply IH. intros; apply H; right; auto.
Qed.
Lemma first_marker_some strs m : first_marker strs = Some m -> exists s, In s strs /\ search_marker s = Some m.
Proof.
  induction strs as [|s strs IH]; cbn; [discriminate|]. destruct (search_marker s) eqn:E.
  - intros H. inversion H; subst. eauto.
  - intros H. destruct (IH H) as [s' [A B]]. eauto.
Qed.

Theorem clean_catalog_decl_silent cfg cat ds : formats_sane (c_formats cfg) = true ->
  clean_catalog_decl cfg cat -> check_messages cfg cat = Ok ds -> forall d, In d ds -> is_tag d = false.
Proof.
  intros Hsane [Hne Hcl] H d Hin. destruct d as [j d|].
  2:{ exfalso. apply (empty_file_iff _ _ _ H) in Hin. destruct Hin as [A B].
      destruct Hne as [[e [He Hl]]|Hb]; [apply live_spec in Hl; rewrite (A e He) in Hl; discriminate|tauto]. }
  destruct (is_simple d) eqn:Es.
  { exfalso. apply (simple_tag_iff _ _ _ j d H Es) in Hin. destruct Hin as [e [A [B C]]].
    destruct (Hcl j e A (proj1 (live_spec e) B)) as [C1 [C2 [C3 [C4 [C5 [C6 _]]]]]].
    destruct d; try discriminate; cbn [simple_rule] in C.
    - rewrite count_key_seen_at in C. auto.
    - destruct C as [X Y]. apply (C2 X Y).
    - destruct C as [X Y]. auto.
    - destruct C as [s [X Y]]. apply Y. apply (C4 s X).
    - destruct C as [s [X Y]]. apply Y. apply (C4 s X).
    - destruct C as [X Y]. destruct (first_marker_some _ _ Y) as [s [Y1 Y2]].
      apply (C6 X s marker); [apply tr_strings_In; auto|apply search_marker_spec; auto].
    - destruct C as [X Y]. apply (C5 X Y). }
  destruct (is_flag_tag d) eqn:Ef.
  { exfalso. apply (flag_tag_iff _ _ _ j d H Ef) in Hin. destruct Hin as [e [fd [info [A [B [C D]]]]]].
    destruct (Hcl j e A (proj1 (live_spec e) B)) as [_ [_ [_ [_ [_ [_ [_ [C8 _]]]]]]]].
    rewrite (flags_clean_silent cfg _ _ fd info Hsane C8 C) in D. contradiction. }
  destruct d; try discriminate; try reflexivity.
  - exfalso. destruct (malformed_xml_sound _ _ _ _ _ H Hin) as [e [A [B [C [D E]]]]].
    destruct (Hcl j e A (proj1 (live_spec e) B)) as [_ [_ [_ [_ [_ [_ [_ [_ C9]]]]]]]].
    destruct (C9 D (proj1 (xml_trigger_spec _) C)) as [X Y].
    destruct E as [[E1 E2]|[E1 [E2 [E3 E4]]]]; [rewrite (X E2) in E1; discriminate|].
    rewrite (Y E2 E3 E1) in E4. discriminate.
  - exfalso. destruct (unusual_sound _ _ _ _ _ H Hin) as [e [A [B [C [D E]]]]].
    destruct (Hcl j e A (proj1 (live_spec e) B)) as [_ [_ [_ [_ [_ [_ [C7 _]]]]]]].
    destruct chars as [|c cs]; [congruence|]. destruct (E c (or_introl eq_refl)) as [[s [E1 E2]] [E3 E4]].
    apply find_unusual_spec in E2. pose proof (C7 C s c E1 E2) as X. apply (muc_spec cfg e c) in X.
    unfold muc in X. apply in_app_or in X. tauto.
Qed.

(* ------------------------------------------------------------------ *)
(* the flag tags of a file, declaratively                               *)

Section Lifted.
  Variables (cfg : config) (cat : list msg_entry) (ds : list cdiag).
  Hypothesis Hsane : formats_sane (c_formats cfg) = true.
  Hypothesis Hok : check_messages cfg cat = Ok ds.
  Let names := names_of (c_formats cfg).

  Theorem unknown_flag_file j f : In (AtMsg j (MUnknownFlag f)) ds <->
    exists e, nth_error cat j = Some e /\ live e = true /\ In f (me_flags e) /\ ~ known_flag names f.
  Proof.
    apply (flag_tag_lift _ _ _ j (MUnknownFlag f) _ Hok eq_refl). intros e fd info Hf.
    apply (unknown_flag_decl cfg _ _ _ _ Hsane Hf).
  Qed.
  Theorem invalid_range_file j f : In (AtMsg j (MInvalidRange f)) ds <->
    exists e, nth_error cat j = Some e /\ live e = true /\ In f (me_flags e) /\ is_range_flag f /\ forall a b, ~ valid_range f a b.
  Proof.
    apply (flag_tag_lift _ _ _ j (MInvalidRange f) _ Hok eq_refl). intros e fd info Hf.
    apply (invalid_range_decl cfg _ _ _ _ Hf).
  Qed.
  Theorem range_no_plural_file j : In (AtMsg j MRangeNoPlural) ds <->
    exists e, nth_error cat j = Some e /\ live e = true /\ hp_of e = false /\ exists f, In f (me_flags e) /\ is_range_flag f.
  Proof.
    apply (flag_tag_lift _ _ _ j MRangeNoPlural _ Hok eq_refl). intros e fd info Hf.
    apply (range_no_plural_decl cfg _ _ _ _ Hf).
  Qed.
  Theorem redundant_flag_file j p q : In (AtMsg j (MRedundantFlag p q)) ds <->
    exists e, nth_error cat j = Some e /\ live e = true /\
      exists name, In name names /\ p = format_flag TpPossible name /\ q = format_flag TpPos name
                   /\ In p (me_flags e) /\ In q (me_flags e).
  Proof.
    apply (flag_tag_lift _ _ _ j (MRedundantFlag p q) _ Hok eq_refl). intros e fd info Hf.
    apply (redundant_decl cfg _ _ _ _ Hsane Hf).
  Qed.
End Lifted.

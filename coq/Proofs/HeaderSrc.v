(* Source tie for C15 (notes/SRC9.md): every definition of Generated/HeaderSrc.v -- the translation of
   gettext.parse_header and Checker.check_comments / check_headers / check_mime / check_project / check_translator
   by tools/gen/gen_header_src.py -- EQUALS the corresponding function of the hand-written model Model/Header.v,
   for all arguments. *)
From Coq Require Import List NArith Bool Arith Lia.
From Coq Require String.
From I18n Require Import Lib.Outcome Model.Header Model.HeaderPy Proofs.HeaderBase Generated.HeaderSrc.
Import ListNotations.
Import String.StringSyntax.
Local Open Scope bool_scope.

(* ------------------------------------------------------------------ *)
(* generic facts about the target vocabulary *)

Lemma flat_map_ext' : forall A B (f g : A -> list B) l, (forall x, f x = g x) -> flat_map f l = flat_map g l.
Proof. intros A B f g l H. induction l as [|x r IH]; cbn [flat_map]; [reflexivity | rewrite H, IH; reflexivity]. Qed.

Lemma flat_map_map' : forall A B C (g : A -> B) (f : B -> list C) l, flat_map f (map g l) = flat_map (fun x => f (g x)) l.
Proof. intros A B C g f l. induction l as [|x r IH]; cbn [flat_map map]; [reflexivity | rewrite IH; reflexivity]. Qed.

Lemma flat_map_single : forall A B (g : A -> B) l, flat_map (fun x => [g x]) l = map g l.
Proof. intros A B g l. induction l as [|x r IH]; cbn [flat_map map app]; [reflexivity | rewrite IH; reflexivity]. Qed.

Lemma ocoll_single : forall A B (f : A -> outcome (list B) unit) (g : A -> B) l,
  (forall x, f x = Ok [g x]) -> ocoll f l = Ok (map g l).
Proof.
  intros A B f g l H. induction l as [|x r IH]; cbn [ocoll map]; [reflexivity|].
  rewrite H, IH. reflexivity.
Qed.

Lemma ocoll_ocollect : forall A (f g : A -> outcome (list diag) unit) l,
  (forall x, f x = g x) -> ocoll f l = ocollect g l.
Proof.
  intros A f g l H. induction l as [|x r IH]; cbn [ocoll ocollect]; [reflexivity|].
  rewrite H, IH. reflexivity.
Qed.

Lemma oapp_ok : forall A (x : list A) m, oapp (Ok x) m = (do y <- m; Ok (x ++ y)).
Proof. reflexivity. Qed.

Lemma search_pos_ext : forall m1 m2 s prev, (forall p x, m1 p x = m2 p x) -> search_pos m1 prev s = search_pos m2 prev s.
Proof.
  intros m1 m2 s. induction s as [|c r IH]; intros prev H; cbn [search_pos]; rewrite H; [reflexivity|].
  rewrite (IH (Some c) H). reflexivity.
Qed.

Lemma many_len : forall l : list str, Nat.ltb 1 (length l) = many l.
Proof. reflexivity. Qed.

Lemma dedup_if : forall l : list str, (if Nat.ltb 1 (length l) then sort_u l else l) = dedup l.
Proof. reflexivity. Qed.

Lemma len0 : forall A (l : list A), Nat.eqb (length l) 0 = match l with [] => true | _ => false end.
Proof. intros A [|x r]; reflexivity. Qed.

(* the string literals of the translation are `lit "..."`, those of the model are the computed lists *)
Ltac norm_lit := repeat match goal with |- context [lit ?s] => let v := eval vm_compute in (lit s) in change (lit s) with v end.

(* ------------------------------------------------------------------ *)
(* gettext.parse_header *)

Lemma split_on_ne : forall sep s, split_on sep s <> [].
Proof.
  intros sep [|c r]; cbn [split_on]; [discriminate|].
  destruct (N.eqb c sep); [discriminate|]. destruct (split_on sep r); discriminate.
Qed.

Lemma drop_last_src : forall ls : list str, ls <> [] ->
  (if str_eqb (last ls []) [] then removelast ls else ls) = drop_last_empty ls.
Proof.
  intros ls Hne. destruct (exists_last Hne) as [l' [a ->]].
  unfold drop_last_empty. rewrite last_last, removelast_last, rev_unit.
  destruct a as [|c a']; cbn [str_eqb]; [rewrite rev_involutive|]; reflexivity.
Qed.

(* the generator, consumed to the end, yields the model's lines and does not raise (the assert is dead) *)
Lemma src_parse_header_eq : forall s, src_parse_header s = Ok (parse_header s).
Proof.
  intro s. unfold src_parse_header, parse_header, header_lines.
  rewrite (drop_last_src _ (split_on_ne 10 s)).
  apply ocoll_single. intro x. unfold split1, parse_line.
  destruct (split_first 58 x) as [[a b]|]; cbn [fst snd truthy andb hd length]; rewrite ?andb_false_r, ?andb_true_r; [|reflexivity].
  destruct (valid_field_name a); reflexivity.
Qed.

(* ------------------------------------------------------------------ *)
(* check_comments *)

Lemma src_check_comments_eq : forall O template comment,
  src_check_comments O template comment = check_comments O template comment.
Proof.
  intros O template comment. unfold src_check_comments, check_comments.
  apply flat_map_ext'. intro line.
  replace (alt_search _ line) with (comment_line_boilerplate O template line).
  - destruct (comment_line_boilerplate O template line); reflexivity.
  - unfold alt_search, comment_line_boilerplate. apply search_pos_ext. intros p x.
    unfold comment_boilerplate_at. norm_lit. destruct template; cbn [negb app existsb andb];
    repeat match goal with
           | |- context [m_word_lit ?a ?b ?c ?d] => destruct (m_word_lit a b c d)
           | |- context [m_copyright_year ?a ?b ?c] => destruct (m_copyright_year a b c)
           | |- context [m_gt_year ?a ?b ?c] => destruct (m_gt_year a b c)
           | |- context [m_plain ?a ?b ?c] => destruct (m_plain a b c)
           end; reflexivity.
Qed.

(* ------------------------------------------------------------------ *)
(* check_mime (the charset part is the argument charset_step, instantiated with the model's charset_part) *)

Lemma content_type_diags_charset_part : forall O template ct,
  content_type_diags O template ct =
  match content_type_match O ct with
  | Some m => fst (charset_part O template ct (snd m))
              ++ (if negb (fst m) then [DInvalidContentType ct (snd (charset_part O template ct (snd m)))] else [])
  | None => [DInvalidContentType ct None]
  end.
Proof.
  intros O template ct. unfold content_type_diags, charset_part.
  destruct (content_type_match O ct) as [[pref enc]|]; [|reflexivity]. cbn [fst snd].
  destruct (o_enc O enc) as [|ac portable proposal].
  - destruct pref; reflexivity.
  - destruct (negb ac); [destruct pref; reflexivity|].
    destruct portable; [destruct pref; reflexivity|].
    destruct proposal; destruct pref; reflexivity.
Qed.

(* one Content-Type value *)
Ltac ct_value O template :=
  let x := fresh "x" in let m := fresh "m" in
  intro x; rewrite (content_type_diags_charset_part O template x);
  destruct (content_type_match O x) as [m|]; [|reflexivity];
  destruct (snd (charset_part O template x (snd m))); destruct (fst m); reflexivity.

Lemma src_check_mime_eq : forall O template fs,
  src_check_mime O template (charset_part O template) fs = check_mime O template fs.
Proof.
  intros O template fs. unfold src_check_mime, check_mime.
  change (lit "MIME-Version") with (field_name FMime).
  change (lit "Content-Transfer-Encoding") with (field_name FCte).
  change (lit "Content-Type") with (field_name FContentType).
  rewrite !dedup_if, !many_len, !len0.
  f_equal. f_equal.
  { apply flat_map_ext'. intro v. change (lit "1.0") with s_1_0. destruct (str_eqb v s_1_0); reflexivity. }
  f_equal. { destruct (dedup (values_of (field_name FMime) fs)); reflexivity. }
  f_equal. f_equal.
  { apply flat_map_ext'. intro v. change (lit "8bit") with s_8bit. destruct (str_eqb v s_8bit); reflexivity. }
  f_equal. { destruct (dedup (values_of (field_name FCte) fs)); reflexivity. }
  unfold dedup. destruct (many (values_of (field_name FContentType) fs)) eqn:Hm.
  - destruct (values_of (field_name FContentType) fs) as [|a r]; [discriminate Hm|].
    cbn [app]. f_equal. apply flat_map_ext'. ct_value O template.
  - destruct (values_of (field_name FContentType) fs) as [|a r]; [reflexivity|].
    cbn [app]. apply flat_map_ext'. ct_value O template.
Qed.

(* ------------------------------------------------------------------ *)
(* check_project, check_translator *)

Lemma src_report_values : forall fs,
  (if strs_eqb (dedup (values_of (field_name FReport) fs)) [[]] then [] else dedup (values_of (field_name FReport) fs)) = report_values fs.
Proof. intro fs. unfold report_values. destruct (dedup (values_of (field_name FReport) fs)) as [|[|c a] [|y r]]; reflexivity. Qed.

Lemma find_map_fst : forall (g : str -> str) (k : str) l,
  find (fun kv : str * str => str_eqb (fst kv) k) (map (fun x => (g x, x)) l) =
  match find (fun x => str_eqb (g x) k) l with Some x => Some (g x, x) | None => None end.
Proof.
  intros g k l. induction l as [|x r IH]; cbn [map find fst]; [reflexivity|].
  destruct (str_eqb (g x) k); [reflexivity | exact IH].
Qed.

(* the dict translator_emails, filled in the loop over the translators, against the model's search from the end *)
Lemma src_translator_emails : forall O translators email,
  dict_get (flat_map (fun x => [(o_parseaddr O x, x)]) translators) email = translator_with_email O translators email.
Proof.
  intros O translators email. unfold dict_get, translator_with_email.
  rewrite flat_map_single, <- map_rev, find_map_fst.
  destruct (find _ (rev translators)); reflexivity.
Qed.

(* the address ladder of one value: case analysis on every test it makes (each may also raise) *)
Ltac ladder O eos so template v :=
  change (lit "EMAIL@ADDRESS") with s_EMAIL_ADDRESS; change (lit "LL@li.org") with (LIT "LL@li.org");
  rewrite ?src_translator_emails;
  destruct (hmem 64 (o_parseaddr O v)); cbn [negb];
  [ destruct (email_in_special_domain O eos so (o_parseaddr O v)) as [[|]|?|?]; cbn [obind]; try reflexivity;
    destruct (str_eqb (o_parseaddr O v) (LIT "LL@li.org")); cbn [orb];
    destruct (str_eqb (o_parseaddr O v) s_EMAIL_ADDRESS); try (destruct template; reflexivity);
    destruct (email_in_dotless_domain (o_parseaddr O v)) as [[|]|?|?]; reflexivity
  | try reflexivity; destruct (o_urlscheme O v); reflexivity ].

Lemma src_check_project_eq : forall O eos so fs,
  src_check_project O eos so fs = check_project O eos so fs.
Proof.
  intros O eos so fs. unfold src_check_project, check_project.
  change (lit "Project-Id-Version") with (field_name FProject).
  change (lit "Report-Msgid-Bugs-To") with (field_name FReport).
  rewrite !dedup_if, !many_len, !len0, !src_report_values, oapp_ok.
  rewrite (ocoll_ocollect _ _ (report_diags O eos so)) by (intro v; unfold report_diags; ladder O eos so false v).
  destruct (ocollect _ _) as [rd|e|c]; cbn [obind]; [|reflexivity|reflexivity].
  f_equal. rewrite <- !app_assoc. f_equal.
  { destruct (many (values_of (field_name FProject) fs)); [reflexivity|].
    destruct (values_of (field_name FProject) fs); reflexivity. }
  f_equal.
  { apply flat_map_ext'. intro v. unfold project_diags.
    change (lit "PACKAGE VERSION") with (LIT "PACKAGE VERSION"). change (lit "PROJECT VERSION") with (LIT "PROJECT VERSION").
    destruct (str_eqb v (LIT "PACKAGE VERSION")), (str_eqb v (LIT "PROJECT VERSION")); cbn [orb]; try reflexivity.
    destruct (has_name_char O v), (has_ascii_digit v); reflexivity. }
  f_equal. f_equal. destruct (report_values fs); reflexivity.
Qed.

Lemma src_check_translator_eq : forall O eos so template fs,
  src_check_translator O eos so template fs = check_translator O eos so template fs.
Proof.
  intros O eos so template fs. unfold src_check_translator, check_translator.
  change (lit "Last-Translator") with (field_name FTranslator).
  change (lit "Language-Team") with (field_name FTeam).
  rewrite !dedup_if, !many_len, !len0.
  rewrite (ocoll_ocollect _ _ (translator_diags O eos so template)) by (intro v; unfold translator_diags; ladder O eos so template v).
  rewrite (ocoll_ocollect _ _ (team_diags O eos so template (dedup (values_of (field_name FTranslator) fs))))
    by (intro v; unfold team_diags; ladder O eos so template v).
  destruct (ocollect (translator_diags O eos so template) _) as [td|e|c]; cbn [oapp obind]; [|reflexivity|reflexivity].
  destruct (ocollect (team_diags O eos so template _) _) as [md|e|c]; cbn [oapp obind]; [|reflexivity|reflexivity].
  f_equal. f_equal.
  { destruct (many (values_of (field_name FTranslator) fs)); [reflexivity|].
    destruct (values_of (field_name FTranslator) fs); reflexivity. }
  f_equal. f_equal.
  destruct (many (values_of (field_name FTeam) fs)); [reflexivity|].
  destruct (values_of (field_name FTeam) fs); reflexivity.
Qed.

(* ------------------------------------------------------------------ *)
(* check_headers *)

Lemma src_entry_msgstr : forall e,
  opt_or_empty (match e_plural0 e with Some s => Some s | None => e_msgstr e end) = entry_msgstr e.
Proof. intro e. unfold entry_msgstr, opt_or_empty. destruct (e_plural0 e); reflexivity. Qed.

Lemma src_fields_of : forall ls,
  flat_map (fun l => match l with HField k v => [(k, v)] | HStray _ => [] end) ls = fields_of ls.
Proof. reflexivity. Qed.

Lemma src_strays_of : forall ls,
  flat_map (fun l => match l with HField _ _ => [] | HStray s => [s] end) ls = strays_of ls.
Proof. reflexivity. Qed.

Lemma concat_singletons_nil : forall l : list str, (forall x, In x l -> exists c, x = [c]) -> concat l = [] -> l = [].
Proof.
  intros [|x r] H Hc; [reflexivity|]. destruct (H x (or_introl eq_refl)) as [c ->]. discriminate Hc.
Qed.

Lemma sorted_chars_nil : forall l, sorted_chars l = [] <-> l = [].
Proof.
  intro l. unfold sorted_chars. split.
  - intro H. apply concat_singletons_nil in H.
    + apply (proj1 (sort_u_nil _)) in H. apply map_eq_nil in H. exact H.
    + intros x Hx. apply In_sort_u, in_map_iff in Hx. destruct Hx as [c [<- _]]. exists c. reflexivity.
  - intros ->. reflexivity.
Qed.

Lemma src_unusual : forall O s,
  (if truthy (unusual_scan O None s) then [DUnusualChars (sorted_chars (unusual_scan O None s))] else [])
  = match unusual_chars O s with [] => [] | cs => [DUnusualChars cs] end.
Proof.
  intros O s. change (unusual_chars O s) with (sorted_chars (unusual_scan O None s)).
  destruct (unusual_scan O None s) as [|c r] eqn:E; [reflexivity|]. cbn [truthy].
  destruct (sorted_chars (c :: r)) eqn:E2; [apply (proj1 (sorted_chars_nil _)) in E2; discriminate E2 | reflexivity].
Qed.

Lemma src_flags : forall O template flags,
  flat_map (fun x : str * nat =>
      (if str_eqb (fst x) (lit "fuzzy") then (if negb template then [DFuzzyHeader] else [])
       else (if o_close_fuzzy O (o_lower O (fst x)) then [DUnexpectedFlag (fst x) true] else [DUnexpectedFlag (fst x) false]))
      ++ (if Nat.ltb 1 (snd x) then [DDuplicateFlag (fst x)] else []))
    (counter_items flags)
  = flag_diags O template flags.
Proof.
  intros O template flags. unfold counter_items, flag_diags. rewrite flat_map_map'. apply flat_map_ext'. intro f. cbn [fst snd].
  change (lit "fuzzy") with s_fuzzy. f_equal.
  destruct (str_eqb f s_fuzzy); [destruct template; reflexivity|].
  destruct (o_close_fuzzy O (o_lower O f)); reflexivity.
Qed.

Lemma src_header_entry : forall O template first e,
  (if truthy (e_occurrences e) then [DEmptyMsgidRefs (join_refs (e_occurrences e))] else [])
  ++ (if e_has_plural e then [DEmptyMsgidPlural] else [])
  ++ flag_diags O template (e_flags e)
  ++ (if negb first then [DDistantHeader] else [])
  ++ match unusual_chars O (entry_msgstr e) with [] => [] | cs => [DUnusualChars cs] end
  = header_entry_diags O template first e.
Proof.
  intros O template first e. unfold header_entry_diags, join_refs. f_equal.
  - destruct (e_occurrences e); reflexivity.
  - f_equal. f_equal. f_equal. destruct first; reflexivity.
Qed.

(* the loop over ctx.file with its `continue`, `break` and the flag seen_header_entry, against the model's
   "first live header entry, and is there a second one" *)
Lemma src_entry_loop : forall O known dedicated template parse es0 l first seen out md st,
  src_check_headers_loop1 O known dedicated template parse es0 seen out md st first l =
  match header_entries first l with
  | [] => (seen, out, md, st)
  | (f, e) :: more =>
    if seen then (true, out ++ [DDuplicateHeaderEntry], md, st)
    else (true,
          out ++ header_entry_diags O template f e ++ (match more with [] => [] | _ => [DDuplicateHeaderEntry] end),
          md ++ fields_of (parse (entry_msgstr e)),
          st ++ strays_of (parse (entry_msgstr e)))
  end.
Proof.
  intros O known dedicated template parse es0. induction l as [|x l' IH]; intros first seen out md st; [reflexivity|].
  cbn [src_check_headers_loop1 header_entries].
  rewrite !src_entry_msgstr, !src_fields_of, !src_strays_of, !src_flags, !src_unusual.
  destruct (e_header x), (e_obsolete x); cbn [negb orb andb app];
    try (rewrite IH, !app_nil_r; reflexivity).
  destruct seen; cbn [app].
  - rewrite !app_nil_r. reflexivity.
  - rewrite IH, src_header_entry. destruct (header_entries false l') as [|[f' e'] more'].
    + rewrite !app_nil_r. reflexivity.
    + rewrite <- !app_assoc. reflexivity.
Qed.

Lemma src_stray_loop : forall O known dedicated template parse es0 l first seen out,
  src_check_headers_loop2 O known dedicated template parse es0 seen out first l =
  (seen || existsb is_conflict_marker l, out ++ stray_diags seen l).
Proof.
  intros O known dedicated template parse es0. induction l as [|x l' IH]; intros first seen out.
  - cbn. rewrite orb_false_r, app_nil_r. reflexivity.
  - cbn [src_check_headers_loop2 stray_diags existsb]. rewrite IH.
    destruct (is_conflict_marker x), seen; cbn [negb orb app]; rewrite <- ?app_assoc; reflexivity.
Qed.

Lemma src_key : forall O known dedicated fs k,
  (if hstarts (lit "X-") k || hstarts (lit "x-") k then []
   else if smem k known then []
   else match (if opt_in (match lc_get (o_lower O) known (o_lower O k) with
                          | Some _ => lc_get (o_lower O) known (o_lower O k)
                          | None => match o_close_field O k with Some h => Some h | None => None end
                          end) (map fst fs)
               then None
               else match lc_get (o_lower O) known (o_lower O k) with
                    | Some _ => lc_get (o_lower O) known (o_lower O k)
                    | None => match o_close_field O k with Some h => Some h | None => None end
                    end) with
        | Some h => [DUnknownField k (Some h)]
        | None => [DUnknownField k None]
        end)
  ++ (if Nat.ltb 1 (length (values_of k fs)) && negb (smem k dedicated) then [DDuplicateField k] else [])
  = key_diags O known dedicated fs k.
Proof.
  intros O known dedicated fs k. unfold key_diags. change (lit "X-") with s_X. change (lit "x-") with s_x.
  change (lc_get (o_lower O) known (o_lower O k)) with (lc_lookup O known k).
  f_equal. destruct (hstarts s_X k || hstarts s_x k); [reflexivity|]. destruct (smem k known); [reflexivity|].
  destruct (lc_lookup O known k) as [h|]; cbn [opt_in].
  - destruct (smem h (map fst fs)); reflexivity.
  - destruct (o_close_field O k) as [h|]; cbn [opt_in]; [destruct (smem h (map fst fs))|]; reflexivity.
Qed.

Lemma src_check_headers_eq : forall O known dedicated template es,
  src_check_headers O known dedicated template parse_header es = check_headers O known dedicated template es.
Proof.
  intros O known dedicated template es. unfold src_check_headers, check_headers.
  rewrite src_entry_loop. destruct (header_entries true es) as [|[first e] more]; [reflexivity|].
  cbn [fst snd app]. rewrite src_stray_loop. cbn [fst snd app]. f_equal.
  rewrite <- !app_assoc. f_equal. f_equal. f_equal.
  unfold mm_items. rewrite flat_map_map'. apply flat_map_ext'. intro k. cbn [fst snd]. apply src_key.
Qed.

(* C11, part (a): the scanner of Model/FmtC.v is sound and complete for the concrete syntax of Spec/Printf.v
   (render / syntax_ok / decomp). *)
From Coq Require Import List NArith ZArith Bool Lia String.
From I18n Require Import Lib.Outcome Lib.CFmtSyntax Model.FmtC Spec.Printf.
Import ListNotations.
Local Open Scope N_scope.

(* ------------------------------------------------------------------ *)
(* generic facts                                                        *)

Lemma mem_In : forall c l, mem c l = true <-> In c l.
Proof.
  intros c l. unfold mem. rewrite existsb_exists. split.
  - intros [x [Hx He]]. apply N.eqb_eq in He. subst. exact Hx.
  - intros H. exists c. split; [exact H | apply N.eqb_refl].
Qed.

Lemma mem_false_In : forall c l, mem c l = false <-> ~ In c l.
Proof.
  intros c l. split.
  - intros H Hin. apply mem_In in Hin. congruence.
  - intros H. destruct (mem c l) eqn:E; [|reflexivity]. apply mem_In in E. contradiction.
Qed.

Lemma list_eqb_eq : forall a b, list_eqb a b = true <-> a = b.
Proof.
  induction a as [|x a IH]; destruct b as [|y b]; cbn [list_eqb]; split; intros H; try congruence; try reflexivity.
  - apply andb_true_iff in H. destruct H as [H1 H2]. apply N.eqb_eq in H1. apply IH in H2. congruence.
  - inversion H; subst. rewrite N.eqb_refl. cbn. apply IH. reflexivity.
Qed.

Lemma list_eqb_refl : forall a, list_eqb a a = true.
Proof. intros. apply list_eqb_eq. reflexivity. Qed.

Lemma existsb_list_eqb_In : forall l ls, existsb (list_eqb l) ls = true <-> In l ls.
Proof.
  intros. rewrite existsb_exists. split.
  - intros [x [Hx He]]. apply list_eqb_eq in He. subst. exact Hx.
  - intros H. exists l. split; [exact H | apply list_eqb_refl].
Qed.

Definition nhead (p : N -> bool) (s : list N) : bool := match s with c :: _ => negb (p c) | [] => true end.

Lemma span_spec : forall p s a b, span p s = (a, b) -> s = a ++ b /\ forallb p a = true /\ nhead p b = true.
Proof.
  intros p. induction s as [|c r IH]; intros a b H; cbn [span] in H.
  - inversion H; subst. repeat split.
  - destruct (p c) eqn:Hc.
    + destruct (span p r) as [a' b'] eqn:Hs. inversion H; subst.
      destruct (IH a' b eq_refl) as [H1 [H2 H3]]. subst r. repeat split; cbn; try rewrite Hc; auto.
    + inversion H; subst. repeat split. cbn. rewrite Hc. reflexivity.
Qed.

Lemma span_complete : forall p a b, forallb p a = true -> nhead p b = true -> span p (a ++ b) = (a, b).
Proof.
  intros p. induction a as [|c a IH]; intros b Ha Hb; cbn [app span].
  - destruct b as [|c r]; [reflexivity|]. cbn in Hb. cbn [span]. destruct (p c); [discriminate | reflexivity].
  - cbn in Ha. apply andb_true_iff in Ha. destruct Ha as [Hc Ha]. rewrite Hc. rewrite (IH b Ha Hb). reflexivity.
Qed.

Lemma span_length : forall p s a b, span p s = (a, b) -> (List.length b <= List.length s)%nat.
Proof.
  intros. apply span_spec in H. destruct H as [H _]. subst. rewrite app_length. lia.
Qed.

Lemma strip_spec : forall p s r, strip p s = Some r -> s = p ++ r.
Proof.
  induction p as [|x p IH]; intros s r H; cbn [strip] in H.
  - inversion H. reflexivity.
  - destruct s as [|y s]; [discriminate|]. destruct (x =? y) eqn:E; [|discriminate].
    apply N.eqb_eq in E. subst. cbn. f_equal. apply IH. exact H.
Qed.

Lemma strip_app : forall p r, strip p (p ++ r) = Some r.
Proof. induction p as [|x p IH]; intros; cbn; [reflexivity|]. rewrite N.eqb_refl. apply IH. Qed.

Lemma first_strip_spec : forall alts s a r, first_strip alts s = Some (a, r) -> In a alts /\ s = a ++ r.
Proof.
  induction alts as [|x alts IH]; intros s a r H; cbn [first_strip] in H; [discriminate|].
  destruct (strip x s) eqn:E.
  - inversion H; subst. split; [left; reflexivity | apply strip_spec; exact E].
  - destruct (IH _ _ _ H). split; [right|]; assumption.
Qed.

(* ------------------------------------------------------------------ *)
(* the character tables of model and specification coincide            *)

Lemma is_digit_spec : forall c, is_digit c = is_dec_digit c.
Proof. reflexivity. Qed.

Lemma flag_tables : forall c, is_flag c = mem c flag_characters.
Proof.
  intros c. unfold is_flag.
  destruct (mem c flag_chars) eqn:E1; destruct (mem c flag_characters) eqn:E2; try reflexivity; exfalso.
  - apply mem_In in E1. apply mem_false_In in E2. apply E2. vm_compute in E1 |- *. tauto.
  - apply mem_In in E2. apply mem_false_In in E1. apply E1. vm_compute in E2 |- *. tauto.
Qed.

Lemma conv_tables : forall c, is_conv c = mem c conversion_specifiers.
Proof.
  intros c. unfold is_conv.
  destruct (mem c conv_chars) eqn:E1; destruct (mem c conversion_specifiers) eqn:E2; try reflexivity; exfalso.
  - apply mem_In in E1. apply mem_false_In in E2. apply E2. vm_compute in E1 |- *. tauto.
  - apply mem_In in E2. apply mem_false_In in E1. apply E1. vm_compute in E2 |- *. tauto.
Qed.

Lemma c99_conv_tables : c99_convs = macro_conversions.
Proof. reflexivity. Qed.

Lemma length_tables : forall l, In l length_mods <-> In l length_modifiers.
Proof. intros l. vm_compute. tauto. Qed.

Lemma c99_len_tables : forall l, In l c99_lens <-> In l macro_suffixes.
Proof. intros l. vm_compute. tauto. Qed.

(* ------------------------------------------------------------------ *)
(* "separator" characters: what can follow the index / flags / width part *)

Definition sep (c : N) : bool := negb (is_digit c || is_flag c || (c =? 36) || (c =? 42)).
Definition sep2 (c : N) : bool := sep c && negb (c =? 46).
Definition hd_sep (t : list N) : bool := match t with c :: _ => sep c | [] => true end.
Definition hd_sep2 (t : list N) : bool := match t with c :: _ => sep2 c | [] => true end.

Lemma sep_parts : forall c, sep c = true ->
  is_digit c = false /\ is_flag c = false /\ c <> 36 /\ c <> 42.
Proof.
  intros c H. unfold sep in H. apply negb_true_iff in H.
  apply orb_false_iff in H. destruct H as [H H4]. apply orb_false_iff in H. destruct H as [H H3].
  apply orb_false_iff in H. destruct H as [H1 H2].
  apply N.eqb_neq in H3. apply N.eqb_neq in H4. auto.
Qed.

Lemma hd_sep2_sep : forall t, hd_sep2 t = true -> hd_sep t = true.
Proof. intros [|c t]; cbn; [reflexivity|]. unfold sep2. intros H. apply andb_true_iff in H. tauto. Qed.

Lemma hd_sep_nodigit : forall t, hd_sep t = true -> nhead is_digit t = true.
Proof. intros [|c t] H; cbn in *; [reflexivity|]. apply sep_parts in H. destruct H as [H _]. rewrite H. reflexivity. Qed.

(* ------------------------------------------------------------------ *)
(* scan_dollar                                                          *)

Lemma scan_dollar_sound : forall s i r, scan_dollar s = (i, r) -> s = r_dollar i ++ r /\ index_syntax i = true.
Proof.
  intros s i r H. unfold scan_dollar in H. destruct (span is_digit s) as [ds r0] eqn:Hs.
  apply span_spec in Hs. destruct Hs as [Hs [Hd _]].
  destruct ds as [|d ds]; [inversion H; subst; split; reflexivity|].
  destruct r0 as [|c r']; [inversion H; subst; split; reflexivity|].
  destruct (c =? 36) eqn:Hc.
  - apply N.eqb_eq in Hc. subst c. inversion H; subst. split.
    + cbn [r_dollar]. rewrite <- app_assoc. reflexivity.
    + cbn [index_syntax nonempty]. exact Hd.
  - inversion H; subst. split; reflexivity.
Qed.

Lemma scan_dollar_some : forall ds t, index_syntax (Some ds) = true -> scan_dollar (ds ++ 36 :: t) = (Some ds, t).
Proof.
  intros ds t H. cbn [index_syntax] in H. apply andb_true_iff in H. destruct H as [Hn Hd].
  unfold scan_dollar. rewrite (span_complete is_digit ds (36 :: t) Hd eq_refl).
  destruct ds; [discriminate|]. reflexivity.
Qed.

(* no "digits$" at the start *)
Definition nd (t : list N) : bool := nhead (N.eqb 36) (snd (span is_digit t)).

Lemma nd_scan : forall t, nd t = true -> scan_dollar t = (None, t).
Proof.
  intros t H. unfold nd in H. unfold scan_dollar. destruct (span is_digit t) as [ds r]. cbn [snd] in H.
  destruct ds; [reflexivity|]. destruct r as [|c r]; [reflexivity|]. cbn [nhead] in H.
  apply negb_true_iff in H. rewrite N.eqb_sym in H. rewrite H. reflexivity.
Qed.

Lemma nd_digit : forall c t, is_digit c = true -> nd t = true -> nd (c :: t) = true.
Proof. intros c t Hc H. unfold nd in *. cbn [span]. rewrite Hc. destruct (span is_digit t). exact H. Qed.

Lemma nd_other : forall c t, is_digit c = false -> c <> 36 -> nd (c :: t) = true.
Proof.
  intros c t Hc H. unfold nd. cbn [span]. rewrite Hc. cbn [snd nhead]. apply negb_true_iff. apply N.eqb_neq. congruence.
Qed.

Lemma nd_sep : forall t, hd_sep t = true -> nd t = true.
Proof.
  intros [|c t] H; [reflexivity|]. cbn in H. apply sep_parts in H. destruct H as [H1 [_ [H3 _]]].
  apply nd_other; assumption.
Qed.

Lemma nd_digits : forall ds t, forallb is_digit ds = true -> nd t = true -> nd (ds ++ t) = true.
Proof.
  induction ds as [|c ds IH]; intros t Hd Ht; [exact Ht|]. cbn in Hd. apply andb_true_iff in Hd. destruct Hd as [Hc Hd].
  cbn [app]. apply nd_digit; [exact Hc | apply IH; assumption].
Qed.

(* ------------------------------------------------------------------ *)
(* width, precision                                                     *)

Lemma is_digit19_digit : forall c, is_digit19 c = true -> is_digit c = true /\ c <> 48.
Proof.
  intros c H. unfold is_digit19 in H. unfold is_digit. apply andb_true_iff in H. destruct H as [H1 H2].
  apply N.leb_le in H1. apply N.leb_le in H2. split; [|lia].
  apply andb_true_iff. split; apply N.leb_le; lia.
Qed.

Lemma digit_not48_19 : forall c, is_digit c = true -> (c =? 48) = false -> is_digit19 c = true.
Proof.
  intros c H1 H2. unfold is_digit in H1. unfold is_digit19. apply andb_true_iff in H1. destruct H1 as [Ha Hb].
  apply N.leb_le in Ha. apply N.leb_le in Hb. apply N.eqb_neq in H2.
  apply andb_true_iff. split; apply N.leb_le; lia.
Qed.

Lemma scan_width_sound : forall s w r, scan_width s = (w, r) -> s = r_width w ++ r /\ width_syntax w = true.
Proof.
  intros s w r H. unfold scan_width in H. destruct s as [|c s']; [inversion H; subst; split; reflexivity|].
  destruct (is_digit19 c) eqn:H19.
  - destruct (span is_digit (c :: s')) as [ds r'] eqn:Hs. inversion H; subst.
    pose proof (span_spec _ _ _ _ Hs) as [Hs1 [Hs2 _]]. split; [exact Hs1|].
    apply is_digit19_digit in H19. destruct H19 as [Hd Hn].
    cbn [span] in Hs. rewrite Hd in Hs. destruct (span is_digit s') as [a b]. inversion Hs; subst.
    cbn [width_syntax]. apply N.eqb_neq in Hn. rewrite Hn. exact Hs2.
  - destruct (c =? 42) eqn:Hc.
    + apply N.eqb_eq in Hc. subst c. destruct (scan_dollar s') as [i r'] eqn:Hd. inversion H; subst.
      apply scan_dollar_sound in Hd. destruct Hd as [Hd1 Hd2]. split; [cbn [r_width app]; f_equal; exact Hd1 | exact Hd2].
    + inversion H; subst. split; reflexivity.
Qed.

Lemma scan_width_complete : forall w t, width_syntax w = true -> hd_sep t = true -> scan_width (r_width w ++ t) = (w, t).
Proof.
  intros w t Hw Ht. destruct w as [|ds|i]; cbn [r_width].
  - cbn [app]. unfold scan_width. destruct t as [|c t']; [reflexivity|]. cbn in Ht. apply sep_parts in Ht.
    destruct Ht as [H1 [_ [_ H4]]].
    assert (is_digit19 c = false) as E.
    { destruct (is_digit19 c) eqn:E; [|reflexivity]. apply is_digit19_digit in E. destruct E; congruence. }
    rewrite E. apply N.eqb_neq in H4. rewrite H4. reflexivity.
  - cbn [width_syntax] in Hw. destruct ds as [|c ds]; [discriminate|]. apply andb_true_iff in Hw. destruct Hw as [Hn Hd].
    apply negb_true_iff in Hn. pose proof Hd as Hd'. cbn in Hd'. apply andb_true_iff in Hd'. destruct Hd' as [Hc _].
    unfold scan_width. cbn [app]. rewrite (digit_not48_19 c Hc Hn).
    change (c :: ds ++ t) with ((c :: ds) ++ t). rewrite (span_complete is_digit (c :: ds) t Hd (hd_sep_nodigit t Ht)). reflexivity.
  - cbn [width_syntax] in Hw. unfold scan_width. cbn [app]. cbn.
    destruct i as [ds|]; cbn [r_dollar].
    + rewrite <- app_assoc. cbn [app]. rewrite (scan_dollar_some ds t Hw). reflexivity.
    + cbn [app]. rewrite (nd_scan t (nd_sep t Ht)). reflexivity.
Qed.

Lemma scan_prec_sound : forall s p r, scan_prec s = (p, r) -> s = r_prec p ++ r /\ prec_syntax p = true.
Proof.
  intros s p r H. unfold scan_prec in H. destruct s as [|c s']; [inversion H; subst; split; reflexivity|].
  destruct (c =? 46) eqn:Hc; [|inversion H; subst; split; reflexivity].
  apply N.eqb_eq in Hc. subst c. destruct s' as [|c2 r2]; [inversion H; subst; split; reflexivity|].
  destruct (c2 =? 42) eqn:Hc2.
  - apply N.eqb_eq in Hc2. subst c2. destruct (scan_dollar r2) as [i r'] eqn:Hd. inversion H; subst.
    apply scan_dollar_sound in Hd. destruct Hd as [Hd1 Hd2]. split; [cbn [r_prec app]; do 2 f_equal; exact Hd1 | exact Hd2].
  - destruct (span is_digit (c2 :: r2)) as [ds r'] eqn:Hs. inversion H; subst.
    apply span_spec in Hs. destruct Hs as [Hs1 [Hs2 _]]. split; [cbn [r_prec app]; f_equal; exact Hs1 | exact Hs2].
Qed.

Lemma scan_prec_complete : forall p t, prec_syntax p = true -> hd_sep2 t = true -> scan_prec (r_prec p ++ t) = (p, t).
Proof.
  intros p t Hp Ht. destruct p as [|ds|i]; cbn [r_prec].
  - cbn [app]. unfold scan_prec. destruct t as [|c t']; [reflexivity|]. cbn in Ht. unfold sep2 in Ht.
    apply andb_true_iff in Ht. destruct Ht as [_ Ht]. apply negb_true_iff in Ht. rewrite Ht. reflexivity.
  - cbn [prec_syntax] in Hp. unfold scan_prec. cbn [app]. cbn.
    pose proof (hd_sep_nodigit t (hd_sep2_sep t Ht)) as Hnd.
    destruct ds as [|c ds].
    + cbn [app]. destruct t as [|c t']; [reflexivity|]. cbn in Ht. unfold sep2 in Ht. apply andb_true_iff in Ht.
      destruct Ht as [Ht _]. apply sep_parts in Ht. destruct Ht as [_ [_ [_ H4]]]. apply N.eqb_neq in H4. rewrite H4.
      change (c :: t') with ([] ++ c :: t'). rewrite (span_complete is_digit [] (c :: t') eq_refl Hnd). reflexivity.
    + cbn [app]. pose proof Hp as Hp'. cbn in Hp'. apply andb_true_iff in Hp'. destruct Hp' as [Hc _].
      assert ((c =? 42) = false) as E.
      { apply N.eqb_neq. intros ->. discriminate. }
      rewrite E. change (c :: ds ++ t) with ((c :: ds) ++ t). rewrite (span_complete is_digit (c :: ds) t Hp Hnd). reflexivity.
  - cbn [prec_syntax] in Hp. unfold scan_prec. cbn [app]. cbn.
    destruct i as [ds|]; cbn [r_dollar].
    + rewrite <- app_assoc. cbn [app]. rewrite (scan_dollar_some ds t Hp). reflexivity.
    + cbn [app]. rewrite (nd_scan t (nd_sep t (hd_sep2_sep t Ht))). reflexivity.
Qed.

(* ------------------------------------------------------------------ *)
(* length, conversion, macro                                            *)

Lemma scan_body_sound : forall s b r, scan_body s = Some (b, r) -> s = r_body b ++ r /\ body_syntax b = true.
Proof.
  intros s b r H. unfold scan_body in H. destruct s as [|c s']; [discriminate|].
  destruct (c =? 60) eqn:Hc.
  - apply N.eqb_eq in Hc. subst c. destruct (strip [80; 82; 73] s') as [[|cv r2]|] eqn:Hs; try discriminate.
    apply strip_spec in Hs. destruct (mem cv c99_convs) eqn:Hcv; [|discriminate].
    destruct (first_strip c99_lens r2) as [[l [|c3 r3]]|] eqn:Hf; try discriminate.
    destruct (c3 =? 62) eqn:Hc3; [|discriminate]. apply N.eqb_eq in Hc3. subst c3. inversion H; subst.
    apply first_strip_spec in Hf. destruct Hf as [Hin Hr2]. subst r2. split.
    + cbn [r_body]. change (chars "<PRI") with [60; 80; 82; 73]. cbn [app]. rewrite <- app_assoc. reflexivity.
    + cbn [body_syntax]. rewrite <- c99_conv_tables. rewrite Hcv. cbn [andb].
      apply existsb_list_eqb_In. apply c99_len_tables. exact Hin.
  - unfold scan_length in H. destruct (first_strip length_mods (c :: s')) as [[l r1]|] eqn:Hf.
    + destruct r1 as [|cv r2]; [discriminate|]. destruct (is_conv cv) eqn:Hcv; [|discriminate]. inversion H; subst.
      apply first_strip_spec in Hf. destruct Hf as [Hin Hr]. split.
      * cbn [r_body]. rewrite <- app_assoc. exact Hr.
      * cbn [body_syntax]. rewrite <- conv_tables. rewrite Hcv. rewrite andb_true_r.
        destruct l; [reflexivity|]. apply existsb_list_eqb_In. apply length_tables. exact Hin.
    + destruct (is_conv c) eqn:Hcv; [|discriminate]. inversion H; subst. split; [reflexivity|].
      cbn [body_syntax]. rewrite <- conv_tables. rewrite Hcv. reflexivity.
Qed.

Lemma body_syntax_cases : forall b, body_syntax b = true ->
  match b with
  | BStd len c => (len = [] \/ In len length_modifiers) /\ In c conversion_specifiers
  | BMacro c len => In c macro_conversions /\ In len macro_suffixes
  end.
Proof.
  intros [len c|c len] H; cbn [body_syntax] in H; apply andb_true_iff in H; destruct H as [H1 H2].
  - split; [|apply mem_In; exact H2]. destruct len; [left; reflexivity | right; apply existsb_list_eqb_In; exact H1].
  - split; [apply mem_In; exact H1 | apply existsb_list_eqb_In; exact H2].
Qed.

Ltac split_in H :=
  repeat (destruct H as [H|H]; [subst | ]); try (exfalso; exact H).

Lemma scan_body_complete : forall b rest, body_syntax b = true -> scan_body (r_body b ++ rest) = Some (b, rest).
Proof.
  intros b rest H. apply body_syntax_cases in H. destruct b as [len c|c len]; destruct H as [H1 H2].
  - vm_compute in H2. destruct H1 as [H1|H1].
    + subst len. split_in H2; reflexivity.
    + vm_compute in H1. split_in H1; split_in H2; reflexivity.
  - vm_compute in H1, H2. split_in H1; split_in H2; reflexivity.
Qed.

Lemma body_head : forall b rest, body_syntax b = true -> hd_sep2 (r_body b ++ rest) = true.
Proof.
  intros b rest H. apply body_syntax_cases in H. destruct b as [len c|c len]; destruct H as [H1 H2].
  - vm_compute in H2. destruct H1 as [H1|H1].
    + subst len. split_in H2; reflexivity.
    + vm_compute in H1. split_in H1; reflexivity.
  - reflexivity.
Qed.

(* ------------------------------------------------------------------ *)
(* one conversion specification                                         *)

Lemma scan_directive_sound : forall r d rest, scan_directive r = Some (d, rest) ->
  r = render d ++ rest /\ syntax_ok d = true.
Proof.
  intros r d rest H. unfold scan_directive in H.
  destruct (scan_dollar r) as [idx r1] eqn:H1. destruct (span is_flag r1) as [fl r2] eqn:H2.
  destruct (scan_width r2) as [w r3] eqn:H3. destruct (scan_prec r3) as [p r4] eqn:H4.
  destruct (scan_body r4) as [[b r5]|] eqn:H5; [|discriminate]. inversion H; subst.
  apply scan_dollar_sound in H1. apply span_spec in H2. apply scan_width_sound in H3.
  apply scan_prec_sound in H4. apply scan_body_sound in H5.
  destruct H1 as [E1 S1]. destruct H2 as [E2 [S2 _]]. destruct H3 as [E3 S3]. destruct H4 as [E4 S4]. destruct H5 as [E5 S5].
  split.
  - unfold render. cbn [d_index d_flags d_width d_prec d_body]. subst. rewrite <- !app_assoc. reflexivity.
  - unfold syntax_ok. cbn [d_index d_flags d_width d_prec d_body]. rewrite S1, S3, S4, S5. rewrite !andb_true_r. cbn [andb].
    rewrite forallb_forall in S2 |- *. intros f Hf. rewrite <- flag_tables. apply S2. exact Hf.
Qed.

Lemma flag_not_digit19 : forall c, is_flag c = true -> is_digit19 c = false /\ c <> 42 /\ c <> 36.
Proof.
  intros c H. unfold is_flag in H. apply mem_In in H. vm_compute in H. split_in H; repeat split; try reflexivity; discriminate.
Qed.

Lemma width_head_noflag : forall w t, width_syntax w = true -> hd_sep t = true -> nhead is_flag (r_width w ++ t) = true.
Proof.
  intros w t Hw Ht. destruct w as [|ds|i]; cbn [r_width app].
  - destruct t as [|c t']; [reflexivity|]. cbn [nhead hd_sep] in *. apply sep_parts in Ht. destruct Ht as [_ [H2 _]]. rewrite H2. reflexivity.
  - cbn [width_syntax] in Hw. destruct ds as [|c ds]; [discriminate|]. apply andb_true_iff in Hw. destruct Hw as [Hn Hd].
    cbn in Hd. apply andb_true_iff in Hd. destruct Hd as [Hc _]. apply negb_true_iff in Hn.
    cbn [app nhead]. destruct (is_flag c) eqn:E; [|reflexivity]. apply flag_not_digit19 in E. destruct E as [E _].
    rewrite (digit_not48_19 c Hc Hn) in E. discriminate.
  - reflexivity.
Qed.

Lemma nd_flags_width : forall fl w t, forallb is_flag fl = true -> width_syntax w = true -> hd_sep t = true ->
  nd (fl ++ r_width w ++ t) = true.
Proof.
  induction fl as [|f fl IH]; intros w t Hf Hw Ht.
  - cbn [app]. destruct w as [|ds|i]; cbn [r_width app].
    + apply nd_sep. exact Ht.
    + cbn [width_syntax] in Hw. destruct ds as [|c ds]; [discriminate|]. apply andb_true_iff in Hw. destruct Hw as [_ Hd].
      apply nd_digits; [exact Hd | apply nd_sep; exact Ht].
    + apply nd_other; [reflexivity | discriminate].
  - cbn in Hf. apply andb_true_iff in Hf. destruct Hf as [Hf1 Hf2]. cbn [app].
    destruct (is_digit f) eqn:Ed.
    + apply nd_digit; [exact Ed | apply IH; assumption].
    + apply nd_other; [exact Ed|]. apply flag_not_digit19 in Hf1. tauto.
Qed.

Lemma scan_directive_complete : forall d rest, syntax_ok d = true -> scan_directive (render d ++ rest) = Some (d, rest).
Proof.
  intros [idx fl w p b] rest H. unfold syntax_ok in H. cbn [d_index d_flags d_width d_prec d_body] in H.
  apply andb_true_iff in H. destruct H as [H S5]. apply andb_true_iff in H. destruct H as [H S4].
  apply andb_true_iff in H. destruct H as [H S3]. apply andb_true_iff in H. destruct H as [S1 S2].
  assert (forallb is_flag fl = true) as S2'.
  { rewrite forallb_forall in S2 |- *. intros f Hf. rewrite flag_tables. apply S2. exact Hf. }
  unfold render. cbn [d_index d_flags d_width d_prec d_body]. rewrite <- !app_assoc.
  pose proof (body_head b rest S5) as Hb.
  assert (hd_sep2 (r_body b ++ rest) = true -> hd_sep (r_prec p ++ r_body b ++ rest) = true) as Hp.
  { intros Hh. destruct p as [|ds|i]; cbn [r_prec app]; [apply hd_sep2_sep; exact Hh | reflexivity | reflexivity]. }
  specialize (Hp Hb).
  unfold scan_directive.
  assert (scan_dollar (r_dollar idx ++ fl ++ r_width w ++ r_prec p ++ r_body b ++ rest)
          = (idx, fl ++ r_width w ++ r_prec p ++ r_body b ++ rest)) as E1.
  { destruct idx as [ds|]; cbn [r_dollar].
    - rewrite <- app_assoc. cbn [app]. apply scan_dollar_some. exact S1.
    - cbn [app]. apply nd_scan. apply nd_flags_width; assumption. }
  rewrite E1.
  rewrite (span_complete is_flag fl _ S2' (width_head_noflag w _ S3 Hp)).
  rewrite (scan_width_complete w _ S3 Hp).
  rewrite (scan_prec_complete p _ S4 Hb).
  rewrite (scan_body_complete b rest S5). reflexivity.
Qed.

(* ------------------------------------------------------------------ *)
(* the token stream and decomp                                          *)

Fixpoint dirs (t : list ctoken) : list directive :=
  match t with
  | CTLit _ :: r => dirs r
  | CTDir d _ :: r => d :: dirs r
  | _ => []
  end.
Fixpoint good (t : list ctoken) : bool :=
  match t with
  | [] => true
  | CTLit _ :: r => good r
  | CTDir _ _ :: r => good r
  | _ => false
  end.

Lemma scan_directive_length : forall r d rest, scan_directive r = Some (d, rest) -> (List.length rest <= List.length r)%nat.
Proof. intros. apply scan_directive_sound in H. destruct H as [H _]. subst. rewrite app_length. lia. Qed.

Lemma decomp_lit : forall l rest ds, forallb not_pct l = true -> decomp rest ds -> decomp (l ++ rest) ds.
Proof.
  induction l as [|c l IH]; intros rest ds Hl Hd; [exact Hd|]. cbn in Hl. apply andb_true_iff in Hl. destruct Hl as [Hc Hl].
  cbn [app]. apply dc_char; [|apply IH; assumption]. unfold not_pct in Hc. apply negb_true_iff in Hc. apply N.eqb_neq. exact Hc.
Qed.

Lemma decomp_skip_lit : forall l rest ds, forallb not_pct l = true -> decomp (l ++ rest) ds -> decomp rest ds.
Proof.
  induction l as [|c l IH]; intros rest ds Hl Hd; [exact Hd|]. cbn in Hl. apply andb_true_iff in Hl. destruct Hl as [Hc Hl].
  cbn [app] in Hd. inversion Hd; subst.
  - apply IH; assumption.
  - unfold not_pct in Hc. cbn in Hc. discriminate.
Qed.

Lemma tokens_sound : forall fuel s, (List.length s <= fuel)%nat -> good (fmtc_tokens fuel s) = true ->
  decomp s (dirs (fmtc_tokens fuel s)).
Proof.
  induction fuel as [|f IH]; intros s Hlen Hg.
  - destruct s; [constructor | cbn in Hlen; lia].
  - destruct s as [|c r]; [constructor|]. cbn [fmtc_tokens] in *. cbn [List.length] in Hlen.
    destruct (c =? 37) eqn:Hc.
    + apply N.eqb_eq in Hc. subst c. destruct (scan_directive r) as [[d rest]|] eqn:Hs; [|discriminate].
      cbn [good dirs] in *. pose proof (scan_directive_length _ _ _ Hs) as Hl.
      apply scan_directive_sound in Hs. destruct Hs as [Hr Hsyn]. subst r.
      apply dc_dir; [exact Hsyn|]. apply IH; [lia | exact Hg].
    + destruct (span not_pct r) as [l rest] eqn:Hs. cbn [good dirs] in *.
      pose proof (span_length _ _ _ _ Hs) as Hl. apply span_spec in Hs. destruct Hs as [Hr [Hall _]]. subst r.
      apply dc_char; [apply N.eqb_neq; exact Hc|]. apply decomp_lit; [exact Hall|]. apply IH; [lia | exact Hg].
Qed.

Lemma tokens_complete : forall fuel s ds, (List.length s <= fuel)%nat -> decomp s ds ->
  good (fmtc_tokens fuel s) = true /\ dirs (fmtc_tokens fuel s) = ds.
Proof.
  induction fuel as [|f IH]; intros s ds Hlen Hd.
  - destruct s; [inversion Hd; subst; split; reflexivity | cbn in Hlen; lia].
  - destruct s as [|c r]; [inversion Hd; subst; split; reflexivity|]. cbn [fmtc_tokens]. cbn [List.length] in Hlen.
    destruct (c =? 37) eqn:Hc.
    + apply N.eqb_eq in Hc. subst c.
      inversion Hd as [ | c' s' ds' Hne Hd' | d s' ds' Hsyn Hd' ]; subst; [congruence|].
      rewrite (scan_directive_complete d s' Hsyn). cbn [good dirs].
      rewrite app_length in Hlen. destruct (IH s' ds' ltac:(lia) Hd') as [G D]. split; [exact G | rewrite D; reflexivity].
    + apply N.eqb_neq in Hc.
      inversion Hd as [ | c' s' ds' Hne Hd' | d s' ds' Hsyn Hd' ]; subst; [|congruence].
      destruct (span not_pct r) as [l rest] eqn:Hs. cbn [good dirs].
      pose proof (span_length _ _ _ _ Hs) as Hl. apply span_spec in Hs. destruct Hs as [Hr [Hall _]]. subst r.
      apply (IH rest ds); [lia|]. apply (decomp_skip_lit l rest ds Hall). assumption.
Qed.

(* shape of the stream: never out of fuel; the text carried by CTBad starts with '%'; every directive is well-formed *)
Definition tok_ok (t : ctoken) : Prop :=
  match t with
  | CTFuel => False
  | CTBad rest => exists r, rest = 37 :: r
  | CTDir d _ => syntax_ok d = true
  | CTLit _ => True
  end.

Lemma tokens_shape : forall fuel s, (List.length s <= fuel)%nat -> Forall tok_ok (fmtc_tokens fuel s).
Proof.
  induction fuel as [|f IH]; intros s Hlen.
  - destruct s; [constructor | cbn in Hlen; lia].
  - destruct s as [|c r]; [constructor|]. cbn [fmtc_tokens]. cbn [List.length] in Hlen.
    destruct (c =? 37) eqn:Hc.
    + apply N.eqb_eq in Hc. subst c. destruct (scan_directive r) as [[d rest]|] eqn:Hs.
      * pose proof (scan_directive_length _ _ _ Hs) as Hl. apply scan_directive_sound in Hs. destruct Hs as [_ Hsyn].
        constructor; [exact Hsyn | apply IH; lia].
      * constructor; [exists r; reflexivity | constructor].
    + destruct (span not_pct r) as [l rest] eqn:Hs. pose proof (span_length _ _ _ _ Hs) as Hl.
      constructor; [exact I | apply IH; lia].
Qed.

(* The precedence-climbing parser model only accepts token sequences of the plural.y grammar,
   and builds the tree the stratified grammar assigns. *)
From Coq Require Import List ZArith Bool Lia Arith.
From I18n Require Import Lib.Outcome Model.IntExpr Spec.CPlural.
Import ListNotations.

Lemma binop_of_spec t : binop_of t = spec_binop t.
Proof. destruct t as [| | | |b|o|b|o| | | | |z d|]; cbn; auto; destruct b; auto. Qed.

Lemma spec_binop_level t l mk : spec_binop t = Some (l, mk) -> (1 <= l <= 6)%nat.
Proof. destruct t as [| | | |b|o|b|o| | | | |z d|]; cbn; try discriminate; try (destruct b); intros H; inversion H; lia. Qed.

Lemma G_level l ts e : G l ts e -> (l <= 7)%nat.
Proof. induction 1; lia. Qed.

Lemma G_mono k ts e : G k ts e -> forall l, (l <= k)%nat -> G l ts e.
Proof.
  intros H l Hl. pose proof (G_level _ _ _ H) as Hk.
  induction Hl; auto. apply IHHl; [|lia]. apply G_up; [lia|auto].
Qed.

Definition tok_lvl (t : token) : option nat :=
  match binop_of t with
  | Some (l, _) => Some l
  | None => match t with TIf => Some 0%nat | _ => None end
  end.

(* the first remaining token is not an operator of level >= minlvl *)
Definition stops (minlvl : nat) (ts : list token) : Prop :=
  match ts with
  | [] => True
  | t :: _ => match tok_lvl t with Some l => (l < minlvl)%nat | None => True end
  end.
Definition head_le (k : nat) (ts : list token) : Prop :=
  match ts with
  | [] => True
  | t :: _ => match tok_lvl t with Some l => (l <= k)%nat | None => True end
  end.

Definition post (m : pmode) (ts : list token) (e : expr) (rest : list token) : Prop :=
  match m with
  | MPrimary => exists used, ts = used ++ rest /\ G 7 used e
  | MBinary minlvl => (minlvl <= 7)%nat ->
      exists used, ts = used ++ rest /\ G minlvl used e /\ stops minlvl rest
  | MLoop minlvl lhs => forall pre k, G k pre lhs -> (minlvl <= k)%nat -> (1 <= k)%nat -> head_le k ts ->
      exists used, ts = used ++ rest /\ G minlvl (pre ++ used) e /\ stops minlvl rest
  end.

Lemma pgo_sound maxd fuel : forall m ts e rest, pgo maxd fuel m ts = Ok (e, rest) -> post m ts e rest.
Proof.
  induction fuel as [|fuel IH]; intros m ts e rest; [discriminate|]. cbn [pgo].
  destruct m as [|minlvl|minlvl lhs].
  - (* MPrimary *)
    destruct ts as [|t r]; [discriminate|]. destruct t; try discriminate.
    + (* TNot *)
      destruct (pgo maxd fuel MPrimary r) as [[e1 r1]| |] eqn:E; cbn; try discriminate.
      intros H; inversion H; subst. apply IH in E. destruct E as [used [Hu HG]].
      exists (TNot :: used). split; [cbn; congruence|]. constructor. auto.
    + (* TLpar *)
      destruct (pgo maxd fuel (MBinary 0) r) as [[e1 r1]| |] eqn:E; cbn; try discriminate.
      destruct r1 as [|t1 r1]; [discriminate|]. destruct t1; try discriminate.
      intros H; inversion H; subst. apply IH in E. destruct (E ltac:(lia)) as [used [Hu [HG _]]].
      exists (TLpar :: used ++ [TRpar]). split; [cbn; rewrite <- app_assoc; cbn; congruence|].
      constructor. auto.
    + (* TVar *)
      intros H; inversion H; subst. exists [TVar]. split; auto. constructor.
    + (* TInt *)
      destruct (max_digits_ok maxd ndigits); [|discriminate].
      intros H; inversion H; subst. exists [TInt z ndigits]. split; auto. constructor.
  - (* MBinary *)
    destruct (pgo maxd fuel MPrimary ts) as [[lhs r]| |] eqn:E; cbn; try discriminate.
    intros H Hmin. apply IH in E. destruct E as [used1 [Hu1 HG1]].
    apply IH in H. cbn in H.
    assert (Hhead : head_le 7 r).
    { destruct r as [|t r']; cbn; auto. unfold tok_lvl. rewrite binop_of_spec.
      destruct (spec_binop t) as [[l mk]|] eqn:Eb; [apply spec_binop_level in Eb; lia|].
      destruct t; auto; lia. }
    destruct (H used1 7%nat HG1 Hmin ltac:(lia) Hhead) as [used2 [Hu2 [HG2 Hst]]].
    exists (used1 ++ used2). split; [rewrite <- app_assoc; congruence|]. auto.
  - (* MLoop *)
    intros H pre k HG Hmk Hk1 Hhead.
    destruct ts as [|t r].
    { inversion H; subst. exists []. rewrite !app_nil_r. split; auto. split; [eapply G_mono; eauto|cbn; auto]. }
    cbn in Hhead. unfold tok_lvl in Hhead.
    destruct (binop_of t) as [[l mk]|] eqn:Eb.
    + destruct (Nat.leb minlvl l) eqn:El.
      * apply Nat.leb_le in El.
        destruct (pgo maxd fuel (MBinary (S l)) r) as [[rhs r']| |] eqn:E; cbn in H; try discriminate.
        rewrite binop_of_spec in Eb. pose proof (spec_binop_level _ _ _ Eb) as Hl.
        apply IH in E. destruct (E ltac:(lia)) as [used2 [Hu2 [HG2 Hst2]]].
        apply IH in H. cbn in H.
        assert (HGl : G l (pre ++ t :: used2) (mk lhs rhs)).
        { eapply G_bin; eauto. eapply G_mono; eauto. }
        assert (Hh : head_le l r').
        { destruct r' as [|t' r'']; cbn; auto. cbn in Hst2. destruct (tok_lvl t'); auto. lia. }
        destruct (H _ l HGl El ltac:(lia) Hh) as [used3 [Hu3 [HG3 Hst3]]].
        exists (t :: used2 ++ used3). split; [cbn; rewrite <- app_assoc; congruence|].
        split; auto. replace (pre ++ t :: used2 ++ used3) with ((pre ++ t :: used2) ++ used3); auto.
        rewrite <- app_assoc. reflexivity.
      * apply Nat.leb_gt in El. inversion H; subst. exists []. rewrite !app_nil_r.
        split; auto. split; [eapply G_mono; eauto|]. cbn. unfold tok_lvl. rewrite Eb. auto.
    + assert (Hdefault : (t <> TIf \/ (minlvl > 0)%nat) -> @Ok (expr * list token) syn_err (lhs, t :: r) = Ok (e, rest) ->
                exists used, t :: r = used ++ rest /\ G minlvl (pre ++ used) e /\ stops minlvl rest).
      { intros Hc H'. inversion H'; subst. exists []. rewrite !app_nil_r. split; auto.
        split; [eapply G_mono; eauto|]. cbn. unfold tok_lvl. rewrite Eb.
        destruct t; auto. destruct Hc; [congruence|lia]. }
      destruct t; try (apply Hdefault; [left; discriminate|exact H]).
      destruct (Nat.leb minlvl 0) eqn:El; [|apply Nat.leb_gt in El; apply Hdefault; [right; lia|exact H]].
      apply Nat.leb_le in El. assert (minlvl = 0)%nat by lia. subst minlvl.
      destruct (pgo maxd fuel (MBinary 0) r) as [[a r1]| |] eqn:E1; cbn in H; try discriminate.
      destruct r1 as [|t1 r2]; [discriminate|]. destruct t1; try discriminate.
      destruct (pgo maxd fuel (MBinary 0) r2) as [[b r3]| |] eqn:E2; cbn in H; try discriminate.
      inversion H; subst.
      apply IH in E1. destruct (E1 ltac:(lia)) as [ua [Hua [HGa _]]].
      apply IH in E2. destruct (E2 ltac:(lia)) as [ub [Hub [HGb Hstb]]].
      exists (TIf :: ua ++ TElse :: ub). split; [cbn; rewrite <- app_assoc; cbn; congruence|].
      split; auto. apply G_if; auto. eapply G_mono; eauto.
Qed.

Theorem parse_tokens_sound maxd ts e : parse_tokens maxd ts = Ok e -> G 0 ts e.
Proof.
  unfold parse_tokens.
  destruct (pgo maxd (4 * length ts + 4) (MBinary 0) ts) as [[e1 r]| |] eqn:E; cbn; try discriminate.
  destruct r; [|discriminate]. intros H; inversion H; subst.
  apply pgo_sound in E. destruct (E ltac:(lia)) as [used [Hu [HG _]]].
  rewrite app_nil_r in Hu. subst. auto.
Qed.

(* With an unlimited int() (maxd = 0) no constant can make the parser raise ValueError. *)
Lemma pgo_no_value_error fuel : forall m ts c, pgo 0%N fuel m ts = Crash c -> c = COutOfFuel.
Proof.
  induction fuel as [|fuel IH]; intros m ts c; cbn [pgo]; [intros H; inversion H; auto|].
  destruct m as [|minlvl|minlvl lhs].
  - destruct ts as [|t r]; [discriminate|]. destruct t; try discriminate.
    + destruct (pgo 0%N fuel MPrimary r) as [[e1 r1]| |] eqn:E; cbn; try discriminate.
      intros H; inversion H; subst. eapply IH; eauto.
    + destruct (pgo 0%N fuel (MBinary 0) r) as [[e1 r1]| |] eqn:E; cbn; try discriminate.
      * destruct r1 as [|t1 r1]; [discriminate|]. destruct t1; discriminate.
      * intros H; inversion H; subst. eapply IH; eauto.
  - destruct (pgo 0%N fuel MPrimary ts) as [[lhs r]| |] eqn:E; cbn; try discriminate.
    + apply IH.
    + intros H; inversion H; subst. eapply IH; eauto.
  - destruct ts as [|t r]; [discriminate|].
    destruct (binop_of t) as [[l mk]|] eqn:Eb.
    + destruct (Nat.leb minlvl l); [|discriminate].
      destruct (pgo 0%N fuel (MBinary (S l)) r) as [[rhs r']| |] eqn:E; cbn; try discriminate.
      * apply IH.
      * intros H; inversion H; subst. eapply IH; eauto.
    + destruct t; try discriminate.
      destruct (Nat.leb minlvl 0); [|discriminate].
      destruct (pgo 0%N fuel (MBinary 0) r) as [[a r1]| |] eqn:E1; cbn; try discriminate.
      * destruct r1 as [|t1 r2]; [discriminate|]. destruct t1; try discriminate.
        destruct (pgo 0%N fuel (MBinary 0) r2) as [[b r3]| |] eqn:E2; cbn; try discriminate.
        intros H; inversion H; subst. eapply IH; eauto.
      * intros H; inversion H; subst. eapply IH; eauto.
Qed.

Lemma parse_string_no_value_error maxd : maxd = 0%N -> forall s, parse_string maxd s <> Crash CValueError.
Proof.
  intros -> s. unfold parse_string, parse_tokens.
  destruct (pgo 0%N (4 * length (lex None s) + 4) (MBinary 0) (lex None s)) as [[e r]| |] eqn:E; cbn.
  - destruct r; discriminate.
  - discriminate.
  - apply pgo_no_value_error in E. subst. discriminate.
Qed.

(* Source tie for C11 (notes/SRC14.md), third part: FormatString.__init__ = fmtc_parse. *)
From Coq Require Import List NArith ZArith Bool Lia.
From I18n Require Import Lib.Outcome Lib.CFmtSyntax Generated.CInfo Model.FmtC Spec.Printf Proofs.FmtCScan.
From I18n Require Import Model.FmtCPy Generated.FmtCSrc Proofs.FmtCSrc Proofs.FmtCSrcConv.
Import ListNotations.
Local Open Scope Z_scope.
(* a proof that diverges after an edit of the translated code must fail, not hang the check *)
Set Default Timeout 120.

(* ------------------------------------------------------------------ *)
(* every directive of the scanner has digit strings in front of '$'     *)

Lemma digits_no_dollar : forall ds, digits ds = true -> no_dollar ds.
Proof.
  intros ds H. unfold no_dollar, digits in *. rewrite forallb_forall in *. intros x Hx. specialize (H x Hx).
  unfold is_dec_digit in H. destruct (x =? 36)%N eqn:E; [|reflexivity]. apply N.eqb_eq in E. subst x. discriminate.
Qed.

Lemma index_syntax_ok : forall i, index_syntax i = true -> odollar_ok i.
Proof.
  intros [ds|] H; [|exact I]. cbn in *. apply andb_true_iff in H. apply digits_no_dollar. apply H.
Qed.

Lemma syntax_ok_wf : forall d, syntax_ok d = true -> dir_wf d.
Proof.
  intros d H. unfold syntax_ok in H. rewrite !andb_true_iff in H. destruct H as [[[[Hi _] Hw] Hp] _].
  repeat split.
  - apply index_syntax_ok. exact Hi.
  - destruct (d_width d) as [|ds|i]; try exact I. apply index_syntax_ok. exact Hw.
  - destruct (d_prec d) as [|ds|i]; try exact I. apply index_syntax_ok. exact Hp.
Qed.

(* ------------------------------------------------------------------ *)
(* the last loop: one type per argument                                  *)

Lemma zlen_gt1 : forall A (l : list A), (zlen l >? 1) = Nat.ltb 1 (List.length l).
Proof.
  intros. unfold zlen. destruct (Nat.ltb 1 (List.length l)) eqn:E.
  - apply Nat.ltb_lt in E. apply Z.gtb_lt. lia.
  - apply Nat.ltb_ge in E. destruct (Z.of_nat (List.length l) >? 1) eqn:E2; [|reflexivity]. apply Z.gtb_lt in E2. lia.
Qed.

Lemma loop3_eq : forall s args i,
  src_formatstring_init_loop3 s (py_enumerate i args) = emb (check_types s i args).
Proof.
  intros s. induction args as [|a r IH]; intros i; [reflexivity|].
  cbn [py_enumerate src_formatstring_init_loop3 check_types]. cbv zeta. unfold arg_typeset. rewrite zlen_gt1.
  destruct (Nat.ltb 1 _); [reflexivity|]. apply IH.
Qed.

(* ------------------------------------------------------------------ *)
(* the gap loop with the assert that follows it                          *)

Definition after_gap (r : cres (list (Z * arg) * list (list arg))) : cres (list (list arg)) :=
  cbind r (fun '(m, args) => if negb (FmtCPy.nonempty m) then CRet args else CAssert).

Lemma loop2_eq : forall s n i m acc f,
  (List.length m <= f)%nat -> i + Z.of_nat n = c_NL_ARGMAX + 1 ->
  after_gap (src_formatstring_init_loop2 s (zrange i n) m acc)
  = emb (do rest <- collect s f i m; Ok (acc ++ rest)).
Proof.
  intros s. induction n as [|k IH]; intros i m acc f Hf Hi.
  - cbn [zrange src_formatstring_init_loop2 after_gap cbind]. destruct m as [|e m]; cbn [FmtCPy.nonempty negb collect obind emb].
    + destruct f; cbn [collect obind emb]; rewrite app_nil_r; reflexivity.
    + destruct f as [|f]; [cbn in Hf; lia|]. cbn [collect]. replace (i >? c_NL_ARGMAX) with true by (symmetry; apply Z.gtb_lt; lia). reflexivity.
  - cbn [zrange src_formatstring_init_loop2]. destruct m as [|e m].
    + destruct f; cbn; rewrite app_nil_r; reflexivity.
    + cbn [FmtCPy.nonempty negb]. destruct f as [|f]; [cbn in Hf; lia|]. cbn [collect].
      assert (Hg : (i >? c_NL_ARGMAX) = false) by (rewrite Z.gtb_ltb; apply Z.ltb_ge; lia). rewrite Hg.
      unfold amap_pop.
      destruct (partition (fun e0 => fst e0 =? i) (e :: m)) as [mine others] eqn:Hp.
      pose proof (partition_length _ _ Hp) as Hl.
      destruct mine as [|x mine]; [reflexivity|].
      cbn [ccatch cbind]. cbv zeta.
      assert (Hlen : (List.length others <= f)%nat) by (cbn [List.length] in *; lia).
      rewrite (IH (i + 1) others (acc ++ [map snd (x :: mine)]) f Hlen) by lia.
      destruct (collect s f (i + 1) others) as [rest|err|c]; cbn [obind emb]; try reflexivity.
      rewrite <- app_assoc. reflexivity.
Qed.

(* ------------------------------------------------------------------ *)
(* the token stream covers the string                                   *)

Definition tok_text (t : ctoken) : list N :=
  match t with CTLit l => l | CTDir _ text => text | CTBad rest => rest | CTFuel => [] end.
Definition toks_text (toks : list ctoken) : list N := List.concat (map tok_text toks).

Lemma firstn_suffix : forall (a b : list N), firstn (List.length (a ++ b) - List.length b) (a ++ b) = a.
Proof.
  intros. rewrite app_length. replace (List.length a + List.length b - List.length b)%nat with (List.length a + 0)%nat by lia.
  rewrite firstn_app_2. cbn. apply app_nil_r.
Qed.

Lemma tokens_text : forall fuel s, (List.length s <= fuel)%nat -> toks_text (fmtc_tokens fuel s) = s.
Proof.
  induction fuel as [|f IH]; intros s Hlen.
  - destruct s; [reflexivity | cbn in Hlen; lia].
  - destruct s as [|c r]; [reflexivity|]. cbn [fmtc_tokens]. cbn [List.length] in Hlen.
    destruct (c =? 37)%N eqn:Hc.
    + destruct (scan_directive r) as [[d rest]|] eqn:Hs.
      * pose proof (scan_directive_length _ _ _ Hs) as Hl. apply scan_directive_sound in Hs. destruct Hs as [Hr _].
        unfold toks_text. cbn [map List.concat tok_text]. fold (toks_text (fmtc_tokens f rest)). rewrite IH by lia.
        subst r. rewrite firstn_suffix. cbn [app]. rewrite <- ?app_assoc. reflexivity.
      * unfold toks_text. cbn. rewrite app_nil_r. reflexivity.
    + destruct (span not_pct r) as [l rest] eqn:Hs. pose proof (span_length _ _ _ _ Hs) as Hl.
      apply span_spec in Hs. destruct Hs as [Hr _].
      unfold toks_text. cbn [map List.concat tok_text]. fold (toks_text (fmtc_tokens f rest)). rewrite IH by lia.
      subst r. reflexivity.
Qed.

(* ------------------------------------------------------------------ *)
(* _directive_re.finditer(s) for the model's token stream: one match object per literal / directive, adjacent; at the first
   position where nothing matches (CTBad) finditer skips ahead: whatever it finds later starts further right *)
Inductive finditer_of : list ctoken -> Z -> list cmatch -> Prop :=
| fo_nil : forall pos, finditer_of [] pos []
| fo_lit : forall t r pos ms, finditer_of r (pos + zlen t) ms ->
    finditer_of (CTLit t :: r) pos (match_of_lit t pos (pos + zlen t) :: ms)
| fo_dir : forall d text r pos ms, finditer_of r (pos + zlen text) ms ->
    finditer_of (CTDir d text :: r) pos (match_of_dir d text pos (pos + zlen text) :: ms)
| fo_bad : forall rest pos ms, match ms with [] => True | mt :: _ => m_start mt <> pos end ->
    finditer_of [CTBad rest] pos ms.

(* one such result: nothing at all after the first position where nothing matches *)
Fixpoint matches_of (toks : list ctoken) (pos : Z) : list cmatch :=
  match toks with
  | CTLit t :: r => match_of_lit t pos (pos + zlen t) :: matches_of r (pos + zlen t)
  | CTDir d text :: r => match_of_dir d text pos (pos + zlen text) :: matches_of r (pos + zlen text)
  | _ => []
  end.
Fixpoint stream_ok (toks : list ctoken) : bool :=
  match toks with
  | [] => true
  | CTLit _ :: r => stream_ok r
  | CTDir _ _ :: r => stream_ok r
  | CTBad _ :: r => match r with [] => true | _ => false end
  | CTFuel :: _ => false
  end.
Lemma finditer_of_matches_of : forall toks pos, stream_ok toks = true -> finditer_of toks pos (matches_of toks pos).
Proof.
  induction toks as [|t r IH]; intros pos H; [constructor|].
  destruct t; cbn [stream_ok] in H; cbn [matches_of].
  - constructor. apply IH. exact H.
  - constructor. apply IH. exact H.
  - destruct r; [|discriminate]. constructor. exact I.
  - discriminate.
Qed.

(* _printable_prefix as the model has it: None = the regex [ -~]+ does not match *)
Definition model_prefix (t : list N) : option (list N) :=
  match fst (span is_printable t) with [] => None | p => Some p end.

(* the first loop together with the check that follows it *)
Definition after_scan (o_prefix : list N -> option (list N)) (s : list N)
  (r : cres (list item * list (Z * arg) * option Z * list cwarn * Z)) : cres (list item * pstate) :=
  cbind r (fun '(items, m, nx, w, last_pos) =>
    if negb (last_pos =? zlen s) then
      match o_prefix (str_from s last_pos) with
      | None => CRaise (XCrash CAttributeError)
      | Some p => CRaise (XErr (EError p))
      end
    else CRet (items, mkst m nx w)).

Lemma str_from_app : forall (pre t : list N), str_from (pre ++ t) (zlen pre) = t.
Proof. intros. unfold str_from, zlen. rewrite Nat2Z.id. rewrite skipn_app, skipn_all, Nat.sub_diag. reflexivity. Qed.

Lemma zlen_app : forall A (a b : list A), zlen (a ++ b) = zlen a + zlen b.
Proof. intros. unfold zlen. rewrite app_length. lia. Qed.

Lemma raise_error_prefix : forall A rest,
  match model_prefix rest with None => CRaise (XCrash CAttributeError) | Some p => CRaise (XErr (EError p)) end
  = emb (@raise_error A rest).
Proof. intros. unfold model_prefix, raise_error. destruct (fst (span is_printable rest)); reflexivity. Qed.

Lemma cbind_pack : forall A cid (X : cres (list (Z * arg) * option Z * list cwarn * list N * list N * bool)) (F : pstate -> conv -> cres A),
  cbind X (fun '(m, nx, w, s, tp, i) => F (mkst m nx w) (mkconv cid s tp i))
  = cbind (cbind X (fun '(m, nx, w, s, tp, i) => CRet (mkst m nx w, mkconv cid s tp i))) (fun '(st', c) => F st' c).
Proof. intros. destruct X as [[[[[[m nx] w] s] tp] i]| |]; reflexivity. Qed.

Lemma loop1_eq : forall maxd s toks pre ms items st,
  Forall tok_ok toks -> finditer_of toks (zlen pre) ms -> s = pre ++ toks_text toks ->
  after_scan model_prefix s
    (src_formatstring_init_loop1 maxd model_prefix s ms items (st_entries st) (st_next st) (st_warn st) (zlen pre))
  = emb (do x <- run maxd toks (List.length items) st; let '(its, st') := x in Ok (items ++ its, st')).
Proof.
  intros maxd s toks. induction toks as [|t r IH]; intros pre ms items st Hok Hfo Hs; inversion Hfo; subst.
  - cbn [src_formatstring_init_loop1 after_scan cbind run obind emb]. unfold toks_text. cbn [map List.concat].
    rewrite !app_nil_r, Z.eqb_refl. destruct st; reflexivity.
  - inversion Hok as [|? ? _ Hok']; subst.
    cbn [src_formatstring_init_loop1 match_of_lit m_start m_end m_literal]. rewrite Z.eqb_refl. cbn [negb]. cbv zeta.
    rewrite <- zlen_app.
    rewrite (IH (pre ++ t0) ms0 (items ++ [ILit t0]) st Hok').
    + rewrite app_length. cbn [List.length]. rewrite Nat.add_1_r. cbn [run].
      destruct (run maxd r (S (List.length items)) st) as [[its st']|e|c]; cbn [obind emb]; try reflexivity.
      rewrite <- app_assoc. reflexivity.
    + rewrite zlen_app. assumption.
    + unfold toks_text. cbn [map List.concat tok_text]. rewrite <- app_assoc. reflexivity.
  - inversion Hok as [|? ? Hd Hok']; subst. cbn [tok_ok] in Hd. apply syntax_ok_wf in Hd.
    cbn [src_formatstring_init_loop1]. cbn [match_of_dir m_start m_end m_literal]. rewrite Z.eqb_refl. cbn [negb]. cbv zeta.
    rewrite <- zlen_app. cbn [run].
    pose (F := fun (st' : pstate) (c : conv) =>
      src_formatstring_init_loop1 maxd model_prefix (pre ++ toks_text (CTDir d text :: r)) ms0 (items ++ [IConv c])
        (st_entries st') (st_next st') (st_warn st') (zlen (pre ++ text))).
    match goal with |- after_scan _ _ (cbind ?X _) = _ =>
      transitivity (after_scan model_prefix (pre ++ toks_text (CTDir d text :: r))
                      (cbind (cbind X (fun '(m, nx, w, s, tp, i) => CRet (mkst m nx w, mkconv (List.length items) s tp i)))
                             (fun '(st', c) => F st' c)))
    end.
    { rewrite <- cbind_pack. reflexivity. }
    rewrite (src_conversion_init_eq maxd (List.length items) st d text _ _ Hd).
    destruct (conversion_init maxd (List.length items) st d text) as [[st1 c]|e|cr]; [| reflexivity | destruct cr; reflexivity].
    cbn [emb cbind obind]. unfold F.
    rewrite (IH (pre ++ text) ms0 (items ++ [IConv c]) st1 Hok').
    + rewrite app_length. cbn [List.length]. rewrite Nat.add_1_r.
      destruct (run maxd r (S (List.length items)) st1) as [[its st']|e|cr]; cbn [obind emb]; try reflexivity.
      rewrite <- app_assoc. reflexivity.
    + rewrite zlen_app. assumption.
    + unfold toks_text. cbn [map List.concat tok_text]. rewrite <- app_assoc. reflexivity.
  - inversion Hok as [|? ? Hb _]; subst. cbn [tok_ok] in Hb. destruct Hb as [r0 Hr0]. subst rest.
    unfold toks_text. cbn [map List.concat tok_text]. rewrite app_nil_r.
    assert (Hne : (zlen pre =? zlen (pre ++ 37%N :: r0)) = false).
    { apply Z.eqb_neq. rewrite zlen_app. unfold zlen. cbn [List.length]. lia. }
    cbn [run]. unfold raise_error.
    destruct ms as [|mt ms'].
    + cbn [src_formatstring_init_loop1 after_scan cbind]. rewrite Hne. cbn [negb]. rewrite str_from_app.
      unfold model_prefix. destruct (fst (span is_printable (37%N :: r0))); reflexivity.
    + cbn [src_formatstring_init_loop1].
      match goal with H : m_start mt <> _ |- _ => apply Z.eqb_neq in H; rewrite H end.
      cbn [negb]. rewrite str_from_app. unfold model_prefix. destruct (fst (span is_printable (37%N :: r0))); reflexivity.
Qed.

Lemma scan_factor : forall A o_prefix s (L : cres (list item * list (Z * arg) * option Z * list cwarn * Z)) (K : list item -> pstate -> cres A),
  cbind L (fun '(items, m, nx, w, last_pos) =>
    if negb (last_pos =? zlen s) then
      match o_prefix (str_from s last_pos) with
      | None => CRaise (XCrash CAttributeError)
      | Some p => CRaise (XErr (EError p))
      end
    else K items (mkst m nx w))
  = cbind (after_scan o_prefix s L) (fun '(items, st) => K items st).
Proof.
  intros. destruct L as [[[[[items m] nx] w] lp]| |]; try reflexivity. cbn [after_scan cbind].
  destruct (negb (lp =? zlen s)); [destruct (o_prefix _)|]; reflexivity.
Qed.

Lemma gap_factor : forall A (L : cres (list (Z * arg) * list (list arg))) (K : list (list arg) -> cres A),
  cbind L (fun '(m, args) => if negb (FmtCPy.nonempty m) then K args else CAssert)
  = cbind (after_gap L) K.
Proof. intros. destruct L as [[m args]| |]; try reflexivity. cbn [after_gap cbind]. destruct (negb _); reflexivity. Qed.

(* FormatString.__init__ *)
Theorem src_formatstring_init_eq : forall maxd (o_finditer : list N -> list cmatch) s,
  finditer_of (fmtc_tokens (List.length s) s) 0 (o_finditer s) ->
  cbind (src_formatstring_init maxd o_finditer model_prefix s) (fun '(items, args, w) => CRet (mkfs items args w))
  = emb (fmtc_parse maxd s).
Proof.
  intros maxd o_finditer s Hfo. unfold src_formatstring_init, fmtc_parse. cbv zeta.
  match goal with |- context [src_formatstring_init_loop2 s ?R _ _] =>
    pose (K := fun (items : list item) (st : pstate) =>
      cbind (src_formatstring_init_loop2 s R (st_entries st) [])
        (fun '(m, args) =>
           if negb (FmtCPy.nonempty m) then
             cbind (src_formatstring_init_loop3 s (py_enumerate 1 args)) (fun _ => CRet (items, args, st_warn st))
           else CAssert))
  end.
  match goal with |- cbind (cbind ?L _) _ = _ =>
    transitivity (cbind (cbind (after_scan model_prefix s L) (fun '(items, st) => K items st))
                        (fun '(items, args, w) => CRet (mkfs items args w)))
  end.
  { rewrite <- scan_factor. reflexivity. }
  pose proof (loop1_eq maxd s (fmtc_tokens (List.length s) s) [] (o_finditer s) [] st_init
                (tokens_shape _ s (le_n _)) Hfo) as H1.
  cbn [zlen List.length Z.of_nat app st_init st_entries st_next st_warn] in H1.
  rewrite H1 by (symmetry; apply tokens_text; apply le_n). clear H1.
  destruct (run maxd (fmtc_tokens (List.length s) s) 0 st_init) as [[items st]|e|c]; [| reflexivity | destruct c; reflexivity].
  cbn [obind emb cbind app]. unfold K. rewrite gap_factor.
  unfold py_range.
  match goal with |- context [zrange 1 ?n] =>
    assert (Hn : 1 + Z.of_nat n = c_NL_ARGMAX + 1) by (rewrite Z2Nat.id; [lia | unfold c_NL_ARGMAX; lia])
  end.
  rewrite (loop2_eq s _ 1 (st_entries st) [] (List.length (st_entries st)) (le_n _) Hn).
  destruct (collect s (List.length (st_entries st)) 1 (st_entries st)) as [args|e|c]; [| reflexivity | destruct c; reflexivity].
  cbn [obind emb cbind app]. rewrite loop3_eq.
  destruct (check_types s 1 args) as [[]|e|c]; [| reflexivity | destruct c; reflexivity].
  reflexivity.
Qed.

(* ------------------------------------------------------------------ *)
(* the pattern of _directive_re, as data: the text the scanner of Model/FmtC.v was written from
   (whitespace outside character classes removed, as re.VERBOSE does) *)
From Coq Require Import Strings.String.
Definition directive_re_text : list N := Eval vm_compute in chars
  "(?P<literal>[^%]+)|(%(?P<index>[0-9]+[$])?(?P<flags>[#0 +'I-]*)(?:(?P<width>[1-9][0-9]*)|(?P<varwidth>[*])(?P<varwidth_index>[0-9]+[$])?)?(?:[.](?:(?P<precision>[0-9]*)|(?P<varprec>[*])(?P<varprec_index>[0-9]+[$])?))?(?:(?P<length>hh?|ll?|[qjzZt]|L)?(?P<conversion>[diouxXeEfFgGaAcsCSpnm%])|<(?:PRI(?P<c99conv>[diouxX])(?P<c99len>(?:LEAST|FAST)?(?:8|16|32|64)|MAX|PTR))>))"%string.

Lemma src_directive_re_eq : src_directive_re = directive_re_text.
Proof. reflexivity. Qed.

(* the token stream of every string is covered by the tie: well-formed tokens, text = the string *)
Lemma toks_of_tie_ready : forall s,
  Forall tok_ok (fmtc_tokens (List.length s) s) /\ toks_text (fmtc_tokens (List.length s) s) = s.
Proof. intros s. split; [apply tokens_shape | apply tokens_text]; apply le_n. Qed.

(* Completeness of the precedence-climbing parser model with respect to the stratified plural.y
   grammar G (Spec/CPlural.v): every sentence of G is parsed, to the tree G assigns.
   Route: an operational ("unrolled") presentation of the grammar,
       binary(minlvl) ::= primary (op_l binary(l+1))*   with the levels l non-increasing and >= minlvl,
                           optionally closed by  '?' binary(0) ':' binary(0)  when minlvl = 0
   (OP / OB / OL below), shown to contain G (the left-recursive productions of G are absorbed by
   appending to the operator tail), and followed step by step by `pgo`. *)
From Coq Require Import List ZArith Bool Lia Arith.
From I18n Require Import Lib.Outcome Model.IntExpr Spec.CPlural Proofs.IntExprParse Proofs.IntExprFuel.
Import ListNotations.

(* ------------------------------------------------------------------ *)
(* the operational grammar                                              *)

Inductive OP : list token -> expr -> Prop :=
| OP_var : OP [TVar] Var
| OP_int z d : OP [TInt z d] (Num z)
| OP_not ts e : OP ts e -> OP (TNot :: ts) (Not e)
| OP_par ts e : OB 0 ts e -> OP (TLpar :: ts ++ [TRpar]) e
with OB : nat -> list token -> expr -> Prop :=
| OB_intro minlvl u0 p0 us e : OP u0 p0 -> OL minlvl 7 p0 us e -> OB minlvl (u0 ++ us) e
(* OL minlvl k lhs us e : the operator tail us, applied to the tree lhs (whose top operator has
   level k; 7 for a primary) yields e; only operators of level in [minlvl, k] are taken *)
with OL : nat -> nat -> expr -> list token -> expr -> Prop :=
| OL_nil minlvl k lhs : OL minlvl k lhs [] lhs
| OL_bin minlvl k lhs t l mk u b us e : spec_binop t = Some (l, mk) -> (minlvl <= l <= k)%nat ->
    OB (S l) u b -> OL minlvl l (mk lhs b) us e -> OL minlvl k lhs (t :: u ++ us) e
| OL_if k lhs ua a ub b : OB 0 ua a -> OB 0 ub b ->
    OL 0 k lhs (TIf :: ua ++ TElse :: ub) (If lhs a b).

Scheme OP_mut := Minimality for OP Sort Prop
  with OB_mut := Minimality for OB Sort Prop
  with OL_mut := Minimality for OL Sort Prop.
Combined Scheme O_mutind from OP_mut, OB_mut, OL_mut.

(* ------------------------------------------------------------------ *)
(* G is contained in the operational grammar                            *)

Lemma OL_weaken m' k lhs us e : OL m' k lhs us e -> forall m, m' = S m -> OL m k lhs us e.
Proof.
  induction 1 as [minlvl k lhs|minlvl k lhs t l mk u b us e Hb Hl HB HL IH|k lhs ua a ub b Ha Hb];
    intros m Hm.
  - constructor.
  - eapply OL_bin; eauto. lia.
  - discriminate.
Qed.

Lemma OL_snoc_bin m k lhs us a : OL m k lhs us a ->
  forall t mk u b, (m <= k)%nat -> spec_binop t = Some (m, mk) -> OB (S m) u b ->
  OL m k lhs (us ++ t :: u) (mk a b).
Proof.
  induction 1 as [minlvl k lhs|minlvl k lhs t l mk u b us e Hb Hl HB HL IH|k lhs ua a ub b Ha Hb];
    intros t' mk' u' b' Hk Ht HB'.
  - cbn. replace (t' :: u') with (t' :: u' ++ []) by (rewrite app_nil_r; reflexivity).
    eapply OL_bin; eauto. constructor.
  - cbn. rewrite <- app_assoc. eapply OL_bin; eauto. apply IH; auto. lia.
  - apply spec_binop_level in Ht. lia.
Qed.

Lemma OL_snoc_if m k lhs us c : OL m k lhs us c -> m = 1%nat ->
  forall ua a ub b, OB 0 ua a -> OB 0 ub b ->
  OL 0 k lhs (us ++ TIf :: ua ++ TElse :: ub) (If c a b).
Proof.
  induction 1 as [minlvl k lhs|minlvl k lhs t l mk u b us e Hb Hl HB HL IH|k lhs ua a ub b Ha Hb];
    intros Hm ua' a' ub' b' HA HB'.
  - cbn. constructor; auto.
  - cbn. rewrite <- app_assoc. eapply OL_bin; eauto. lia.
  - discriminate.
Qed.

Lemma OL7 k lhs us e : OL 7 k lhs us e -> us = [] /\ e = lhs.
Proof.
  inversion 1; subst; auto.
  match goal with H : spec_binop _ = Some _ |- _ => apply spec_binop_level in H end. lia.
Qed.

Lemma OB7_OP ts e : OB 7 ts e -> OP ts e.
Proof.
  inversion 1 as [minlvl u0 p0 us e' HP HL]; subst.
  apply OL7 in HL. destruct HL as [-> ->]. rewrite app_nil_r. exact HP.
Qed.

Lemma OP_OB7 ts e : OP ts e -> OB 7 ts e.
Proof.
  intros H. rewrite <- (app_nil_r ts). econstructor; eauto. constructor.
Qed.

Lemma G_OB l ts e : G l ts e -> OB l ts e.
Proof.
  induction 1 as [|z d|ts e HG IH|ts e HG IH|l ts e Hl HG IH
                 |l t mk ts1 ts2 a b Ht HG1 IH1 HG2 IH2|ts1 ts2 ts3 c a b HG1 IH1 HG2 IH2 HG3 IH3].
  - apply OP_OB7. constructor.
  - apply OP_OB7. constructor.
  - apply OP_OB7. constructor. exact IH.
  - apply OP_OB7. constructor. apply OB7_OP. exact IH.
  - inversion IH as [minlvl u0 p0 us e' HP HL]; subst.
    econstructor; eauto. eapply OL_weaken; eauto.
  - inversion IH1 as [minlvl u0 p0 us e' HP HL]; subst.
    rewrite <- app_assoc. econstructor; eauto.
    apply OL_snoc_bin; auto. apply spec_binop_level in Ht. lia.
  - inversion IH1 as [minlvl u0 p0 us e' HP HL]; subst.
    rewrite <- app_assoc. econstructor; eauto.
    eapply OL_snoc_if; eauto.
Qed.

(* ... and conversely: the two presentations define the same language and trees *)
Lemma O_G :
  (forall u p, OP u p -> G 7 u p) /\
  (forall l u e, OB l u e -> (l <= 7)%nat -> G l u e) /\
  (forall m k lhs us e, OL m k lhs us e ->
     forall pre, G k pre lhs -> (m <= k)%nat -> (1 <= k)%nat -> G m (pre ++ us) e).
Proof.
  apply O_mutind.
  - constructor.
  - constructor.
  - intros ts e _ IH. constructor. exact IH.
  - intros ts e _ IH. constructor. apply IH. lia.
  - intros minlvl u0 p0 us e _ IHP _ IHL Hl. apply IHL; auto. lia.
  - intros minlvl k lhs pre HG Hmk Hk. rewrite app_nil_r. eapply G_mono; eauto.
  - intros minlvl k lhs t l mk u b us e Hb Hl _ IHB _ IHL pre HG Hmk Hk.
    pose proof (spec_binop_level _ _ _ Hb) as Hlv.
    replace (pre ++ t :: u ++ us) with ((pre ++ t :: u) ++ us) by (rewrite <- app_assoc; reflexivity).
    apply IHL; [|lia|lia].
    eapply G_bin; eauto; [eapply G_mono; eauto; lia|apply IHB; lia].
  - intros k lhs ua a ub b _ IHa _ IHb pre HG Hmk Hk.
    apply G_if; [eapply G_mono; eauto|apply IHa; lia|apply IHb; lia].
Qed.

Theorem G_iff_OB l ts e : (l <= 7)%nat -> (G l ts e <-> OB l ts e).
Proof.
  intros Hl. split; [apply G_OB|]. intros H. destruct O_G as [_ [HB _]]. apply HB; auto.
Qed.

(* ------------------------------------------------------------------ *)
(* the parser follows the operational grammar                           *)

Definition tok_ok (maxd : N) (t : token) : bool :=
  match t with TInt _ d => max_digits_ok maxd d | _ => true end.
Definition toks_ok (maxd : N) (ts : list token) : Prop := Forall (fun t => tok_ok maxd t = true) ts.

Lemma toks_ok_app maxd a b : toks_ok maxd (a ++ b) <-> toks_ok maxd a /\ toks_ok maxd b.
Proof. apply Forall_app. Qed.
Lemma toks_ok_cons maxd t a : toks_ok maxd (t :: a) <-> tok_ok maxd t = true /\ toks_ok maxd a.
Proof. apply Forall_cons_iff. Qed.

Lemma stops_weaken m k ts : (m <= k)%nat -> stops m ts -> stops k ts.
Proof.
  intros Hmk. destruct ts as [|t r]; cbn; auto. destruct (tok_lvl t); auto. lia.
Qed.

Lemma tok_lvl_binop t l mk : spec_binop t = Some (l, mk) -> tok_lvl t = Some l.
Proof. intros H. unfold tok_lvl. rewrite binop_of_spec, H. reflexivity. Qed.

(* what follows an operator tail does not extend the operand before it *)
Lemma OL_stops m k lhs us e : OL m k lhs us e -> forall rest, (m <= k)%nat -> stops m rest ->
  stops (S k) (us ++ rest).
Proof.
  destruct 1 as [minlvl k lhs|minlvl k lhs t l mk u b us e Hb Hl HB HL|k lhs ua a ub b Ha Hb];
    intros rest Hmk Hst.
  - cbn. eapply stops_weaken; [|exact Hst]. lia.
  - cbn. rewrite (tok_lvl_binop _ _ _ Hb). lia.
  - cbn. lia.
Qed.

Lemma loop_stops maxd fuel minlvl lhs rest : stops minlvl rest ->
  pgo maxd (S fuel) (MLoop minlvl lhs) rest = Ok (lhs, rest).
Proof.
  intros Hst. cbn [pgo]. destruct rest as [|t r]; [reflexivity|].
  cbn in Hst. unfold tok_lvl in Hst.
  destruct (binop_of t) as [[l mk]|] eqn:Eb.
  - destruct (Nat.leb_spec minlvl l); [lia|reflexivity].
  - destruct t; try reflexivity.
    destruct (Nat.leb_spec minlvl 0); [lia|reflexivity].
Qed.

Section Follow.
Variable maxd : N.

Definition P_P (u : list token) (p : expr) : Prop :=
  toks_ok maxd u -> forall rest fuel, (need MPrimary (length (u ++ rest)) <= fuel)%nat ->
  pgo maxd fuel MPrimary (u ++ rest) = Ok (p, rest).
Definition P_B (l : nat) (u : list token) (e : expr) : Prop :=
  toks_ok maxd u -> forall rest fuel, stops l rest -> (need (MBinary l) (length (u ++ rest)) <= fuel)%nat ->
  pgo maxd fuel (MBinary l) (u ++ rest) = Ok (e, rest).
Definition P_L (minlvl k : nat) (lhs : expr) (us : list token) (e : expr) : Prop :=
  toks_ok maxd us -> forall rest fuel, stops minlvl rest ->
  (need (MLoop minlvl lhs) (length (us ++ rest)) <= fuel)%nat ->
  pgo maxd fuel (MLoop minlvl lhs) (us ++ rest) = Ok (e, rest).

Lemma pgo_follows :
  (forall u p, OP u p -> P_P u p) /\
  (forall l u e, OB l u e -> P_B l u e) /\
  (forall minlvl k lhs us e, OL minlvl k lhs us e -> P_L minlvl k lhs us e).
Proof.
  apply O_mutind; unfold P_P, P_B, P_L; cbn [need].
  - (* OP_var *)
    intros _ rest fuel Hf. destruct fuel as [|f]; [lia|]. reflexivity.
  - (* OP_int *)
    intros z d Hok rest fuel Hf. destruct fuel as [|f]; [lia|].
    apply toks_ok_cons in Hok. destruct Hok as [Hd _]. cbn in Hd.
    cbn [app pgo]. rewrite Hd. reflexivity.
  - (* OP_not *)
    intros ts e _ IH Hok rest fuel Hf. destruct fuel as [|f]; [lia|].
    apply toks_ok_cons in Hok. destruct Hok as [_ Hok].
    cbn [app pgo]. cbn [app length] in Hf. rewrite (IH Hok rest f ltac:(lia)). reflexivity.
  - (* OP_par *)
    intros ts e _ IH Hok rest fuel Hf. destruct fuel as [|f]; [lia|].
    apply toks_ok_cons in Hok. destruct Hok as [_ Hok].
    apply toks_ok_app in Hok. destruct Hok as [Hok _].
    cbn [app]. rewrite <- app_assoc. cbn [app pgo].
    cbn [app length] in Hf. rewrite <- app_assoc in Hf. cbn [app] in Hf.
    rewrite (IH Hok (TRpar :: rest) f I ltac:(lia)). reflexivity.
  - (* OB_intro *)
    intros minlvl u0 p0 us e _ IHP HL IHL Hok rest fuel Hst Hf. destruct fuel as [|f]; [lia|].
    apply toks_ok_app in Hok. destruct Hok as [Hok0 Hoks].
    rewrite <- app_assoc in Hf |- *. cbn [pgo].
    rewrite (IHP Hok0 (us ++ rest) f ltac:(lia)). cbn [obind].
    apply IHL; auto. rewrite app_length in Hf. lia.
  - (* OL_nil *)
    intros minlvl k lhs _ rest fuel Hst Hf. destruct fuel as [|f]; [lia|].
    apply loop_stops. exact Hst.
  - (* OL_bin *)
    intros minlvl k lhs t l mk u b us e Hb Hl _ IHB HL IHL Hok rest fuel Hst Hf.
    destruct fuel as [|f]; [lia|].
    apply toks_ok_cons in Hok. destruct Hok as [_ Hok].
    apply toks_ok_app in Hok. destruct Hok as [Hoku Hoks].
    cbn [app] in Hf |- *. rewrite <- app_assoc in Hf |- *. cbn [length] in Hf.
    cbn [pgo]. rewrite binop_of_spec, Hb.
    destruct (Nat.leb_spec minlvl l) as [_|]; [|lia].
    assert (Hst' : stops (S l) (us ++ rest)).
    { eapply OL_stops; eauto. lia. }
    rewrite (IHB Hoku (us ++ rest) f Hst' ltac:(lia)). cbn [obind].
    apply IHL; auto. rewrite app_length in Hf. lia.
  - (* OL_if *)
    intros k lhs ua a ub b _ IHa _ IHb Hok rest fuel Hst Hf.
    destruct fuel as [|f]; [lia|].
    apply toks_ok_cons in Hok. destruct Hok as [_ Hok].
    apply toks_ok_app in Hok. destruct Hok as [Hoka Hok].
    apply toks_ok_cons in Hok. destruct Hok as [_ Hokb].
    cbn [app] in Hf |- *. rewrite <- app_assoc in Hf |- *. cbn [app length] in Hf |- *.
    cbn [pgo binop_of Nat.leb].
    rewrite (IHa Hoka (TElse :: ub ++ rest) f I ltac:(lia)). cbn [obind].
    rewrite app_length in Hf. cbn [length] in Hf.
    rewrite (IHb Hokb rest f Hst ltac:(lia)). reflexivity.
Qed.

End Follow.

(* ------------------------------------------------------------------ *)
(* completeness                                                         *)

Definition digits_ok (maxd : N) (ts : list token) : Prop :=
  forall z d, In (TInt z d) ts -> max_digits_ok maxd d = true.

Lemma digits_toks_ok maxd ts : digits_ok maxd ts -> toks_ok maxd ts.
Proof.
  intros H. apply Forall_forall. intros t Ht. destruct t; try reflexivity.
  cbn. eapply H; eauto.
Qed.

Lemma digits_ok_unlimited ts : digits_ok 0 ts.
Proof. intros z d _. reflexivity. Qed.

Theorem parse_tokens_complete maxd ts e : G 0 ts e -> digits_ok maxd ts -> parse_tokens maxd ts = Ok e.
Proof.
  intros HG Hd. apply G_OB in HG. apply digits_toks_ok in Hd.
  destruct (pgo_follows maxd) as [_ [HB _]].
  unfold parse_tokens.
  pose proof (HB _ _ _ HG Hd [] (4 * length ts + 4) I) as H.
  rewrite app_nil_r in H. rewrite H; [reflexivity|]. cbn [need]. lia.
Qed.

Theorem parse_tokens_iff maxd ts e : digits_ok maxd ts -> (parse_tokens maxd ts = Ok e <-> G 0 ts e).
Proof.
  intros Hd. split; [apply parse_tokens_sound|]. intros HG. apply parse_tokens_complete; auto.
Qed.

(* the stratified grammar is unambiguous: one tree per sentence *)
Theorem G_unambiguous ts e1 e2 : G 0 ts e1 -> G 0 ts e2 -> e1 = e2.
Proof.
  intros H1 H2.
  apply (parse_tokens_complete 0) in H1; [|apply digits_ok_unlimited].
  apply (parse_tokens_complete 0) in H2; [|apply digits_ok_unlimited].
  congruence.
Qed.

(* the sentences of G contain no error token *)
Lemma G_no_bad l ts e : G l ts e -> ~ In TBad ts.
Proof.
  induction 1 as [|z d|ts e HG IH|ts e HG IH|l ts e Hl HG IH
                 |l t mk ts1 ts2 a b Ht HG1 IH1 HG2 IH2|ts1 ts2 ts3 c a b HG1 IH1 HG2 IH2 HG3 IH3];
    cbn; rewrite ?in_app_iff; cbn; rewrite ?in_app_iff; cbn.
  - intros [H|[]]; discriminate.
  - intros [H|[]]; discriminate.
  - intros [H|[H|[H|[]]]]; try discriminate; auto.
  - intros [H|H]; try discriminate; auto.
  - auto.
  - intros [H|[H|H]]; auto. subst t. discriminate.
  - intros [H|[H|[H|[H|H]]]]; try discriminate; auto.
Qed.

(* Without a constant over the digit limit the parser cannot raise ValueError. *)
Lemma pgo_toks_ok maxd fuel : forall m ts, toks_ok maxd ts ->
  pgo maxd fuel m ts <> Crash CValueError /\
  forall e rest, pgo maxd fuel m ts = Ok (e, rest) -> toks_ok maxd rest.
Proof.
  induction fuel as [|fuel IH]; intros m ts Hok; cbn [pgo].
  { split; [discriminate|intros ? ? H; discriminate]. }
  destruct m as [|minlvl|minlvl lhs].
  - destruct ts as [|t r]; [split; [discriminate|intros ? ? H; discriminate]|].
    apply toks_ok_cons in Hok. destruct Hok as [Ht Hok].
    destruct t; try (split; [discriminate|intros ? ? H; discriminate]).
    + destruct (IH MPrimary r Hok) as [Hn Hr].
      destruct (pgo maxd fuel MPrimary r) as [[e1 r1]| |c] eqn:E; cbn.
      * split; [discriminate|]. intros e rest H. inversion H; subst. eapply Hr; eauto.
      * split; [discriminate|intros ? ? H; discriminate].
      * split; [congruence|intros ? ? H; discriminate].
    + destruct (IH (MBinary 0) r Hok) as [Hn Hr].
      destruct (pgo maxd fuel (MBinary 0) r) as [[e1 r1]| |c] eqn:E; cbn.
      * specialize (Hr _ _ eq_refl).
        destruct r1 as [|t1 r1]; [split; [discriminate|intros ? ? H; discriminate]|].
        apply toks_ok_cons in Hr. destruct Hr as [_ Hr].
        destruct t1; try (split; [discriminate|intros ? ? H; discriminate]).
        split; [discriminate|]. intros e rest H. inversion H; subst. exact Hr.
      * split; [discriminate|intros ? ? H; discriminate].
      * split; [congruence|intros ? ? H; discriminate].
    + split; [discriminate|]. intros e rest H. inversion H; subst. exact Hok.
    + cbn in Ht. rewrite Ht.
      split; [discriminate|]. intros e rest H. inversion H; subst. exact Hok.
  - destruct (IH MPrimary ts Hok) as [Hn Hr].
    destruct (pgo maxd fuel MPrimary ts) as [[lhs r]| |c] eqn:E; cbn.
    + apply IH. eapply Hr; eauto.
    + split; [discriminate|intros ? ? H; discriminate].
    + split; [congruence|intros ? ? H; discriminate].
  - destruct ts as [|t r].
    { split; [discriminate|]. intros e rest H. inversion H; subst. exact Hok. }
    assert (Hstop : @Ok (expr * list token) syn_err (lhs, t :: r) <> Crash CValueError /\
                    forall e rest, @Ok (expr * list token) syn_err (lhs, t :: r) = Ok (e, rest) -> toks_ok maxd rest).
    { split; [discriminate|]. intros e rest H. inversion H; subst. exact Hok. }
    apply toks_ok_cons in Hok. destruct Hok as [Ht Hok].
    destruct (binop_of t) as [[l mk]|] eqn:Eb.
    + destruct (Nat.leb minlvl l); [|exact Hstop].
      destruct (IH (MBinary (S l)) r Hok) as [Hn Hr].
      destruct (pgo maxd fuel (MBinary (S l)) r) as [[rhs r']| |c] eqn:E; cbn.
      * apply IH. eapply Hr; eauto.
      * split; [discriminate|intros ? ? H; discriminate].
      * split; [congruence|intros ? ? H; discriminate].
    + destruct t; try exact Hstop.
      destruct (Nat.leb minlvl 0); [|exact Hstop].
      destruct (IH (MBinary 0) r Hok) as [Hn Hr].
      destruct (pgo maxd fuel (MBinary 0) r) as [[a r1]| |c] eqn:E1; cbn.
      * specialize (Hr _ _ eq_refl).
        destruct r1 as [|t1 r2]; [split; [discriminate|intros ? ? H; discriminate]|].
        apply toks_ok_cons in Hr. destruct Hr as [_ Hr].
        destruct t1; try (split; [discriminate|intros ? ? H; discriminate]).
        destruct (IH (MBinary 0) r2 Hr) as [Hn2 Hr2].
        destruct (pgo maxd fuel (MBinary 0) r2) as [[b r3]| |c] eqn:E2; cbn.
        -- split; [discriminate|]. intros e rest H. inversion H; subst. eapply Hr2; eauto.
        -- split; [discriminate|intros ? ? H; discriminate].
        -- split; [congruence|intros ? ? H; discriminate].
      * split; [discriminate|intros ? ? H; discriminate].
      * split; [congruence|intros ? ? H; discriminate].
Qed.

Theorem parse_tokens_no_crash maxd ts c : digits_ok maxd ts -> parse_tokens maxd ts <> Crash c.
Proof.
  intros Hd H. pose proof (parse_tokens_crash_kind _ _ _ H). subst c.
  revert H. unfold parse_tokens.
  destruct (pgo_toks_ok maxd (4 * length ts + 4) (MBinary 0) ts (digits_toks_ok _ _ Hd)) as [Hn _].
  destruct (pgo maxd (4 * length ts + 4) (MBinary 0) ts) as [[e r]| |c'] eqn:E; cbn.
  - destruct r; discriminate.
  - discriminate.
  - congruence.
Qed.

(* With the parser deciding G, rejection is exact too. *)
Theorem parse_tokens_rejects maxd ts : digits_ok maxd ts ->
  (parse_tokens maxd ts = Err SynErr <-> ~ exists e, G 0 ts e).
Proof.
  intros Hd. split.
  - intros H [e HG]. apply (parse_tokens_complete maxd) in HG; auto. congruence.
  - intros Hn. destruct (parse_tokens maxd ts) as [e|[]|c] eqn:E; auto.
    + exfalso. apply Hn. exists e. eapply parse_tokens_sound; eauto.
    + exfalso. eapply parse_tokens_no_crash; eauto.
Qed.

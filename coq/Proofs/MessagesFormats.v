(* Format flags: the decomposition <family><name>-format, (family, name) determines the flag; range flags against
   the documented syntax; the flag rules in declarative form; a declarative "clean" flag list. *)
From Coq Require Import List NArith ZArith Bool Lia ZifyBool ZifyN Sorted.
From I18n Require Import Lib.Outcome Model.IntExpr Model.PluralForms Model.Messages Spec.Messages
  Proofs.PluralForms Proofs.MessagesLib Proofs.MessagesFlags Proofs.Messages.
Import ListNotations.
Local Open Scope N_scope.

Definition names_of (tbl : list (list N * list (list N))) : list (list N) := map fst tbl.

(* what the four-prefix lookup needs of the table; checked by computation on the generated one *)
Definition formats_sane (tbl : list (list N * list (list N))) : bool :=
  forallb (fun p => negb (is_nil (fst p))
                    && negb (starts_with s_no (fst p ++ s_format))
                    && negb (starts_with s_possible (fst p ++ s_format))
                    && negb (starts_with s_impossible (fst p ++ s_format))
                    && negb (starts_with s_range (fst p ++ s_format))
                    && negb (is_nil (snd p))) tbl.

Lemma mem_key_In k tbl : mem_key k tbl = true <-> In k (names_of tbl).
Proof.
  unfold mem_key, names_of. rewrite existsb_exists, in_map_iff. split.
  - intros [p [H1 H2]]. apply str_eqb_eq in H2. eauto.
  - intros [p [H1 H2]]. exists p. split; auto. apply str_eqb_eq. auto.
Qed.

Lemma sane_name tbl name : formats_sane tbl = true -> In name (names_of tbl) ->
  name <> [] /\ starts_with s_no (name ++ s_format) = false /\ starts_with s_possible (name ++ s_format) = false
  /\ starts_with s_impossible (name ++ s_format) = false /\ starts_with s_range (name ++ s_format) = false.
Proof.
  unfold formats_sane, names_of. rewrite forallb_forall, in_map_iff. intros H [p [<- Hp]]. specialize (H p Hp).
  rewrite !andb_true_iff, !negb_true_iff in H. destruct H as [[[[[A B] C] D] E] _].
  apply is_nil_false in A. auto.
Qed.

Lemma skipn_app_length {A} (p r : list A) : skipn (length p) (p ++ r) = r.
Proof. induction p; cbn; auto. Qed.

Lemma slice_mid_app p name : slice_mid (length p) (p ++ name ++ s_format) = name.
Proof.
  unfold slice_mid. rewrite skipn_app_length, !app_length. cbn [length s_format].
  replace (length p + (length name + 7) - 7 - length p)%nat with (length name + 0)%nat by lia.
  rewrite firstn_app_2. cbn. apply app_nil_r.
Qed.

Lemma slice_decomp p f : starts_with p f = true -> ends_with s_format f = true -> slice_mid (length p) f <> [] ->
  f = p ++ slice_mid (length p) f ++ s_format.
Proof.
  rewrite starts_with_spec, ends_with_spec. intros [r ->] [r' E] Hs.
  unfold slice_mid in *. rewrite skipn_app_length, app_length in *.
  replace (length p + length r - 7 - length p)%nat with (length r - 7)%nat in * by lia.
  assert (Hl : (8 <= length r)%nat).
  { destruct (Nat.le_gt_cases 8 (length r)); auto. exfalso. apply Hs.
    replace (length r - 7)%nat with 0%nat by lia. reflexivity. }
  apply app_eq_app in E. destruct E as [l [[E1 E2]|[E1 E2]]].
  - exfalso. apply (f_equal (@length N)) in E2. rewrite app_length in E2. cbn in E2. lia.
  - subst r. rewrite app_length. cbn [length s_format]. replace (length l + 7 - 7)%nat with (length l + 0)%nat by lia.
    rewrite firstn_app_2. cbn. rewrite app_nil_r. reflexivity.
Qed.

Section Table.
  Variable tbl : list (list N * list (list N)).
  Hypothesis Hsane : formats_sane tbl = true.

  Lemma name_nonempty name : mem_key name tbl = true -> name <> [].
  Proof. intros H. apply mem_key_In in H. apply (sane_name tbl name Hsane H). Qed.

  (* the lookup finds only genuine decompositions ... *)
  Lemma lookup_decomp f tp name : ends_with s_format f = true -> lookup_format tbl prefixes f = Some (tp, name) ->
    In name (names_of tbl) /\ f = format_flag tp name.
  Proof.
    intros He. unfold prefixes. cbn [lookup_format].
    assert (G : forall tp0 p, starts_with p f = true -> mem_key (slice_mid (length p) f) tbl = true -> prefix_of tp0 = p ->
                In (slice_mid (length p) f) (names_of tbl) /\ f = format_flag tp0 (slice_mid (length p) f)).
    { intros tp0 p Hp Hm Hpre. split; [apply mem_key_In; auto|]. unfold format_flag. rewrite Hpre.
      apply slice_decomp; auto. apply name_nonempty; auto. }
    destruct (starts_with s_no f) eqn:E1.
    { destruct (mem_key (slice_mid (length s_no) f) tbl) eqn:M1.
      - intros H. inversion H; subst. apply (G TpNo s_no); auto.
      - destruct (starts_with s_possible f) eqn:E2.
        { destruct (mem_key (slice_mid (length s_possible) f) tbl) eqn:M2.
          - intros H. inversion H; subst. apply (G TpPossible s_possible); auto.
          - destruct (starts_with s_impossible f) eqn:E3.
            { destruct (mem_key (slice_mid (length s_impossible) f) tbl) eqn:M3.
              - intros H. inversion H; subst. apply (G TpImpossible s_impossible); auto.
              - cbn [starts_with]. destruct (mem_key (slice_mid (length (@nil N)) f) tbl) eqn:M4; [|discriminate].
                intros H. inversion H; subst. apply (G TpPos []); auto. }
            cbn [starts_with]. destruct (mem_key (slice_mid (length (@nil N)) f) tbl) eqn:M4; [|discriminate].
            intros H. inversion H; subst. apply (G TpPos []); auto. }
        destruct (starts_with s_impossible f) eqn:E3.
        { destruct (mem_key (slice_mid (length s_impossible) f) tbl) eqn:M3.
          - intros H. inversion H; subst. apply (G TpImpossible s_impossible); auto.
          - cbn [starts_with]. destruct (mem_key (slice_mid (length (@nil N)) f) tbl) eqn:M4; [|discriminate].
            intros H. inversion H; subst. apply (G TpPos []); auto. }
        cbn [starts_with]. destruct (mem_key (slice_mid (length (@nil N)) f) tbl) eqn:M4; [|discriminate].
        intros H. inversion H; subst. apply (G TpPos []); auto. }
    destruct (starts_with s_possible f) eqn:E2.
    { destruct (mem_key (slice_mid (length s_possible) f) tbl) eqn:M2.
      - intros H. inversion H; subst. apply (G TpPossible s_possible); auto.
      - destruct (starts_with s_impossible f) eqn:E3.
        { destruct (mem_key (slice_mid (length s_impossible) f) tbl) eqn:M3.
          - intros H. inversion H; subst. apply (G TpImpossible s_impossible); auto.
          - cbn [starts_with]. destruct (mem_key (slice_mid (length (@nil N)) f) tbl) eqn:M4; [|discriminate].
            intros H. inversion H; subst. apply (G TpPos []); auto. }
        cbn [starts_with]. destruct (mem_key (slice_mid (length (@nil N)) f) tbl) eqn:M4; [|discriminate].
        intros H. inversion H; subst. apply (G TpPos []); auto. }
    destruct (starts_with s_impossible f) eqn:E3.
    { destruct (mem_key (slice_mid (length s_impossible) f) tbl) eqn:M3.
      - intros H. inversion H; subst. apply (G TpImpossible s_impossible); auto.
      - cbn [starts_with]. destruct (mem_key (slice_mid (length (@nil N)) f) tbl) eqn:M4; [|discriminate].
        intros H. inversion H; subst. apply (G TpPos []); auto. }
    cbn [starts_with]. destruct (mem_key (slice_mid (length (@nil N)) f) tbl) eqn:M4; [|discriminate].
    intros H. inversion H; subst. apply (G TpPos []); auto.
  Qed.

  (* ... and finds every one *)
  Lemma lookup_complete tp name : In name (names_of tbl) -> lookup_format tbl prefixes (format_flag tp name) = Some (tp, name).
  Proof.
    intros Hn. destruct (sane_name tbl name Hsane Hn) as [N0 [N1 [N2 [N3 N4]]]]. apply mem_key_In in Hn.
    unfold prefixes, format_flag. cbn [lookup_format]. destruct tp; cbn [prefix_of].
    - (* positive *) cbn [app]. rewrite N1, N2, N3. cbn [starts_with].
      change (slice_mid (length (@nil N)) (name ++ s_format)) with (slice_mid (length (@nil N)) ([] ++ name ++ s_format)).
      rewrite slice_mid_app, Hn. reflexivity.
    - (* no- *) assert (E : starts_with s_no (s_no ++ name ++ s_format) = true) by (apply starts_with_spec; eauto).
      rewrite E, slice_mid_app, Hn. reflexivity.
    - (* possible- *) assert (E : starts_with s_possible (s_possible ++ name ++ s_format) = true) by (apply starts_with_spec; eauto).
      change (starts_with s_no (s_possible ++ name ++ s_format)) with false. cbv iota.
      rewrite E, slice_mid_app, Hn. reflexivity.
    - (* impossible- *) assert (E : starts_with s_impossible (s_impossible ++ name ++ s_format) = true) by (apply starts_with_spec; eauto).
      change (starts_with s_no (s_impossible ++ name ++ s_format)) with false.
      change (starts_with s_possible (s_impossible ++ name ++ s_format)) with false. cbv iota.
      rewrite E, slice_mid_app, Hn. reflexivity.
  Qed.
End Table.

(* ------------------------------------------------------------------ *)
(* classification of format flags                                       *)

Lemma ends_with_format tp name : ends_with s_format (format_flag tp name) = true.
Proof. apply ends_with_spec. exists (prefix_of tp ++ name). unfold format_flag. rewrite app_assoc. reflexivity. Qed.

Lemma not_ends_format_neq f g : ends_with s_format f = true -> ends_with s_format g = false -> str_eqb f g = false.
Proof. intros H1 H2. apply str_eqb_neq. intros ->. congruence. Qed.

Section Classify.
  Variable cfg : config.
  Hypothesis Hsane : formats_sane (c_formats cfg) = true.
  Let tbl := c_formats cfg.

  Lemma starts_range_format tp name : In name (names_of tbl) -> starts_with s_range (format_flag tp name) = false.
  Proof.
    intros Hn. destruct (sane_name tbl name Hsane Hn) as [_ [_ [_ [_ N4]]]].
    unfold format_flag. destruct tp; cbn [prefix_of]; [exact N4|reflexivity|reflexivity|reflexivity].
  Qed.

  (* the flags of a format are classified as such, with their family *)
  Lemma classify_format_flag tp name : In name (names_of tbl) ->
    classify cfg (format_flag tp name) = Ok (FFormat (Some (tp, name))).
  Proof.
    intros Hn. unfold classify.
    pose proof (ends_with_format tp name) as He.
    rewrite (not_ends_format_neq _ s_fuzzy He eq_refl), (not_ends_format_neq _ s_wrap He eq_refl),
            (not_ends_format_neq _ s_no_wrap He eq_refl), (starts_range_format tp name Hn), He.
    fold tbl. rewrite (lookup_complete tbl Hsane tp name Hn). reflexivity.
  Qed.

  (* (family, name) determines the flag *)
  Lemma classify_format_inv f tp name : classify cfg f = Ok (FFormat (Some (tp, name))) ->
    In name (names_of tbl) /\ f = format_flag tp name.
  Proof.
    intros H. destruct (classify_cases _ _ _ H) as [[_ E]|[[_ E]|[[_ E]|[[_ [_ [r [_ E]]]]|[[_ [_ [He E]]]|[[_ E]|[_ [_ [_ [_ E]]]]]]]]]];
      try discriminate. inversion E as [E']. symmetry in E'. apply (lookup_decomp tbl Hsane f tp name He E').
  Qed.
  Theorem format_flag_injective f g tp name :
    classify cfg f = Ok (FFormat (Some (tp, name))) -> classify cfg g = Ok (FFormat (Some (tp, name))) -> f = g.
  Proof. intros H1 H2. apply classify_format_inv in H1, H2. destruct H1 as [_ ->]. destruct H2 as [_ ->]. reflexivity. Qed.

  Lemma classify_format_iff f tp name : classify cfg f = Ok (FFormat (Some (tp, name))) <->
    In name (names_of tbl) /\ f = format_flag tp name.
  Proof. split; [apply classify_format_inv|]. intros [H ->]. apply classify_format_flag. exact H. Qed.

  (* unknown flags, declaratively *)
  Theorem unknown_decl f : (classify cfg f = Ok (FFormat None) \/ classify cfg f = Ok FOther) <-> ~ known_flag (names_of tbl) f.
  Proof.
    unfold known_flag, is_range_flag, is_format_flag. split.
    - intros H K.
      assert (Hc : exists cl, classify cfg f = Ok cl /\ (cl = FFormat None \/ cl = FOther)) by (destruct H as [H|H]; eauto).
      destruct Hc as [cl [Hc Hcl]].
      destruct (classify_cases _ _ _ Hc) as [[E1 E2]|[[E1 E2]|[[E1 E2]|[[_ [_ [r [_ E2]]]]|[[Hn [Hr [He E2]]]|[[E1 E2]|[Hn [Hr [He [Hm E2]]]]]]]]]];
        try (subst cl; destruct Hcl; discriminate).
      + destruct K as [K|[K|[K|[K|[[r K]|[tp [name [K1 K2]]]]]]]]; unfold named_flag in Hn; try tauto.
        * subst f. assert (X : ends_with s_format s_markdown = true) by exact He. discriminate X.
        * subst f. assert (X : starts_with s_range (s_range ++ r) = true) by (apply starts_with_spec; eauto). congruence.
        * subst f. fold tbl in E2. rewrite (lookup_complete tbl Hsane tp name K1) in E2. subst cl. destruct Hcl; discriminate.
      + destruct K as [K|[K|[K|[K|[[r K]|[tp [name [K1 K2]]]]]]]]; unfold named_flag in Hn; try tauto.
        * subst f. assert (X : starts_with s_range (s_range ++ r) = true) by (apply starts_with_spec; eauto). congruence.
        * subst f. rewrite ends_with_format in He. discriminate.
    - intros K. unfold classify.
      destruct (str_eqb f s_fuzzy) eqn:E1; [apply str_eqb_eq in E1; tauto|].
      destruct (str_eqb f s_wrap) eqn:E2; [apply str_eqb_eq in E2; tauto|].
      destruct (str_eqb f s_no_wrap) eqn:E3; [apply str_eqb_eq in E3; tauto|].
      destruct (starts_with s_range f) eqn:E4; [apply starts_with_spec in E4; tauto|].
      destruct (ends_with s_format f) eqn:E5.
      + left. fold tbl. destruct (lookup_format tbl prefixes f) as [[tp name]|] eqn:E6; auto.
        exfalso. destruct (lookup_decomp tbl Hsane f tp name E5 E6) as [A B]. apply K. do 5 right. eauto.
      + destruct (str_eqb f s_markdown) eqn:E6; [apply str_eqb_eq in E6; tauto|]. auto.
  Qed.

  (* the format_flags dictionaries, in terms of the flag list *)
  Lemma dict_decl F items tp name flag : classify_all cfg (counter_sorted F) = Ok items ->
    (dget name (fmt_dict tp items) = Some flag <-> In name (names_of tbl) /\ flag = format_flag tp name /\ In flag F).
  Proof.
    intros Hit. split.
    - intros H. destruct (dict_from_flags cfg F items tp name flag Hit H) as [A B].
      apply classify_format_inv in B. tauto.
    - intros [A [-> C]]. pose proof (classify_format_flag tp name A) as Hc.
      destruct (dict_has_flag cfg F items tp name _ Hit C Hc) as [flag' Hg]. rewrite Hg. f_equal.
      destruct (dict_from_flags cfg F items tp name flag' Hit Hg) as [_ B]. apply classify_format_inv in B. tauto.
  Qed.
End Classify.

(* ------------------------------------------------------------------ *)
(* range flags against the documented syntax                            *)

Lemma blank_spec c : is_strip_char c = true <-> blank c.
Proof. unfold is_strip_char, blank. rewrite !orb_true_iff, !N.eqb_eq. tauto. Qed.
Lemma digit_spec c : is_digit c = true <-> digit c.
Proof. unfold is_digit, digit. rewrite andb_true_iff, !N.leb_le. tauto. Qed.
Lemma digit_not_blank c : is_digit c = true -> is_strip_char c = false.
Proof. unfold is_digit, is_strip_char. lia. Qed.
Lemma decimal_eq ds : decimal ds = digits_value ds.
Proof. reflexivity. Qed.
Lemma forallb_digit ds : forallb is_digit ds = true <-> Forall digit ds.
Proof. rewrite forallb_forall, Forall_forall. split; intros H x Hx; apply digit_spec; auto. Qed.

Definition head_nonblank (x : list N) : Prop := match x with [] => True | c :: _ => is_strip_char c = false end.

Lemma lstrip_spec : forall s, exists l, s = l ++ lstrip s /\ Forall blank l /\ head_nonblank (lstrip s).
Proof.
  induction s as [|c s [l [A [B C]]]]; cbn.
  - exists []. repeat split; constructor.
  - destruct (is_strip_char c) eqn:E.
    + exists (c :: l). split; [cbn; congruence|]. split; auto. constructor; auto. apply blank_spec; auto.
    + exists []. split; [reflexivity|]. split; [constructor|]. cbn. exact E.
Qed.
Lemma lstrip_app l x : Forall blank l -> lstrip (l ++ x) = lstrip x.
Proof. induction 1 as [|c l Hc Hl IH]; cbn; auto. apply blank_spec in Hc. rewrite Hc. exact IH. Qed.
Lemma lstrip_id x : head_nonblank x -> lstrip x = x.
Proof. destruct x as [|c x]; cbn; auto. intros ->. reflexivity. Qed.

Lemma strip_decomp s : exists l r, s = l ++ strip s ++ r /\ Forall blank l /\ Forall blank r.
Proof.
  destruct (lstrip_spec s) as [l [A [B _]]]. destruct (lstrip_spec (rev (lstrip s))) as [r' [C [D _]]].
  exists l, (rev r'). unfold strip. split; [|split; auto; apply Forall_rev; auto].
  rewrite <- rev_app_distr, <- C, rev_involutive. exact A.
Qed.
Lemma strip_core l core r : Forall blank l -> Forall blank r -> head_nonblank core -> head_nonblank (rev core) ->
  strip (l ++ core ++ r) = core.
Proof.
  intros Hl Hr H1 H2. unfold strip. rewrite (lstrip_app l _ Hl).
  destruct core as [|c core].
  - cbn [app]. destruct (lstrip_spec r) as [l' [A [B C]]].
    assert (E : lstrip r = []).
    { clear -Hr. induction Hr as [|c r Hc _ IH]; cbn; auto. apply blank_spec in Hc. rewrite Hc. exact IH. }
    rewrite E. reflexivity.
  - rewrite (lstrip_id ((c :: core) ++ r) H1). rewrite rev_app_distr, (lstrip_app (rev r)) by (apply Forall_rev; auto).
    rewrite (lstrip_id (rev (c :: core)) H2). apply rev_involutive.
Qed.

Lemma span_app (p : N -> bool) : forall a b, forallb p a = true -> match b with [] => True | c :: _ => p c = false end ->
  span p (a ++ b) = (a, b).
Proof.
  induction a as [|c a IH]; intros b Ha Hb.
  - cbn. destruct b as [|c b]; cbn; auto. rewrite Hb. reflexivity.
  - cbn in Ha. apply andb_true_iff in Ha. destruct Ha as [Hc Ha]. cbn. rewrite Hc, (IH b Ha Hb). reflexivity.
Qed.

Definition range_core (t d1 d2 : list N) : Prop :=
  t = d1 ++ [46; 46] ++ d2 /\ d1 <> [] /\ d2 <> [] /\ Forall digit d1 /\ Forall digit d2.

Lemma parse_range_some maxd s i j : parse_range maxd s = Ok (Some (i, j)) ->
  exists d1 d2, range_core (strip s) d1 d2 /\ i = decimal d1 /\ j = decimal d2 /\ (i < j)%Z.
Proof.
  unfold parse_range. destruct (span is_digit (strip s)) as [d1 r1] eqn:E1.
  destruct (span_spec _ _ _ _ E1) as [A [B C]].
  destruct (is_nil d1) eqn:N1; [discriminate|]. apply is_nil_false in N1.
  destruct r1 as [|a [|b r2]]; try discriminate.
  destruct (N.eqb a 46 && N.eqb b 46) eqn:E2; [|discriminate]. apply andb_true_iff in E2. destruct E2 as [Ea Eb].
  apply N.eqb_eq in Ea, Eb. subst a b.
  destruct (span is_digit r2) as [d2 r3] eqn:E3. destruct (span_spec _ _ _ _ E3) as [A' [B' C']].
  destruct (is_nil d2 || negb (is_nil r3)) eqn:N2; [discriminate|]. apply orb_false_iff in N2. destruct N2 as [N2 N3].
  apply is_nil_false in N2. apply negb_false_iff in N3. apply is_nil_true in N3. subst r3.
  destruct (negb (max_digits_ok maxd (N.of_nat (length d1)))); [discriminate|].
  destruct (negb (max_digits_ok maxd (N.of_nat (length d2)))); [discriminate|].
  rewrite app_nil_r in A'. subst r2.
  destruct (digits_value d1 <? digits_value d2)%Z eqn:E4; [|discriminate]. intros H. inversion H; subst i j.
  exists d1, d2. split.
  - split; [exact A|]. split; auto. split; auto. split; apply forallb_digit; auto.
  - repeat split. apply Z.ltb_lt. exact E4.
Qed.

Lemma parse_range_core maxd s d1 d2 r : range_core (strip s) d1 d2 -> parse_range maxd s = Ok r ->
  r = if (decimal d1 <? decimal d2)%Z then Some (decimal d1, decimal d2) else None.
Proof.
  intros [A [N1 [N2 [D1 D2]]]]. unfold parse_range. rewrite A.
  rewrite (span_app is_digit d1 ([46; 46] ++ d2)) by (try (apply forallb_digit; auto); reflexivity).
  apply is_nil_false in N1. rewrite N1. cbn [app]. change (N.eqb 46 46) with true. cbn [andb].
  assert (S2 : span is_digit d2 = (d2, [])).
  { pose proof (span_app is_digit d2 [] (proj2 (forallb_digit d2) D2) I) as S. rewrite app_nil_r in S. exact S. }
  rewrite S2.
  apply is_nil_false in N2. rewrite N2. cbn [is_nil negb orb].
  destruct (negb (max_digits_ok maxd (N.of_nat (length d1)))); [discriminate|].
  destruct (negb (max_digits_ok maxd (N.of_nat (length d2)))); [discriminate|].
  unfold decimal, digits_value. match goal with |- context [Z.ltb ?a ?b] => destruct (Z.ltb a b) end; intros H; inversion H; reflexivity.
Qed.

Lemma digits_head_nonblank d x : d <> [] -> Forall digit d -> head_nonblank (d ++ x).
Proof. destruct d as [|c d]; [congruence|]. intros _ H. inversion H; subst. cbn. apply digit_not_blank. apply digit_spec. auto. Qed.

Lemma valid_range_core f i j : valid_range f i j <->
  exists rest d1 d2, f = s_range ++ rest /\ range_core (strip rest) d1 d2 /\ i = decimal d1 /\ j = decimal d2 /\ (i < j)%Z.
Proof.
  unfold valid_range, range_syntax. split.
  - intros [d1 [d2 [[l [r [A [B [C [D [E [F G]]]]]]]] [H1 [H2 H3]]]]].
    exists (l ++ d1 ++ [46; 46] ++ d2 ++ r), d1, d2. split; auto. split; [|auto].
    assert (S : strip (l ++ (d1 ++ [46; 46] ++ d2) ++ r) = d1 ++ [46; 46] ++ d2).
    { apply strip_core; auto.
      - apply digits_head_nonblank; auto.
      - rewrite !rev_app_distr. rewrite <- app_assoc. apply digits_head_nonblank; [|apply Forall_rev; auto].
        intros HH. apply E. apply (f_equal (@rev N)) in HH. rewrite rev_involutive in HH. exact HH. }
    repeat rewrite <- app_assoc in S. cbn [app] in S |- *. unfold range_core. rewrite S. auto.
  - intros [rest [d1 [d2 [A [[B [C [D [E F]]]] [H1 [H2 H3]]]]]]].
    destruct (strip_decomp rest) as [l [r [G [K L]]]]. exists d1, d2. split; [|auto].
    exists l, r. split; [|auto 7]. rewrite A, G, B. repeat rewrite <- app_assoc. reflexivity.
Qed.

(* what the flag analysis calls a valid range is what the documentation calls one *)
Theorem range_flag_valid_iff cfg f r : classify cfg f = Ok (FRange r) -> forall i j, r = Some (i, j) <-> valid_range f i j.
Proof.
  intros H i j. destruct (classify_cases _ _ _ H) as [[_ E]|[[_ E]|[[_ E]|[[_ [Hs [r' [Hp E]]]]|[[_ [_ [_ E]]]|[[_ E]|[_ [_ [_ [_ E]]]]]]]]]];
    try discriminate. inversion E; subst r'. apply starts_with_spec in Hs. destruct Hs as [rest ->].
  change (skipn 6 (s_range ++ rest)) with rest in Hp. rewrite valid_range_core. split.
  - intros ->. destruct (parse_range_some _ _ _ _ Hp) as [d1 [d2 [A [B [C D]]]]]. exists rest, d1, d2. auto.
  - intros [rest' [d1 [d2 [A [B [C [D G]]]]]]]. apply app_inv_head in A. subst rest'.
    rewrite (parse_range_core _ _ _ _ _ B Hp). subst i j. apply Z.ltb_lt in G. rewrite G. reflexivity.
Qed.

Lemma classify_range_flag cfg f r : classify cfg f = Ok (FRange r) -> is_range_flag f.
Proof.
  intros H. destruct (classify_cases _ _ _ H) as [[_ E]|[[_ E]|[[_ E]|[[_ [Hs _]]|[[_ [_ [_ E]]]|[[_ E]|[_ [_ [_ [_ E]]]]]]]]]];
    try discriminate. apply starts_with_spec in Hs. exact Hs.
Qed.

(* ------------------------------------------------------------------ *)
(* the flag rules in declarative form                                   *)

Lemma named_not_range f : named_flag f -> starts_with s_range f = false.
Proof. intros [-> | [-> | ->]]; reflexivity. Qed.

Section Decl.
  Variables (cfg : config) (hp : bool) (F : list (list N)) (ds : list mdiag) (info : finfo).
  Hypothesis Hsane : formats_sane (c_formats cfg) = true.
  Hypothesis Hcf : check_flags cfg hp F = Ok (ds, info).
  Let names := names_of (c_formats cfg).

  Lemma classify_of_range f : In f F -> is_range_flag f -> exists r, classify cfg f = Ok (FRange r).
  Proof.
    intros Hin [rest ->]. destruct (whole_items _ _ _ _ _ Hcf) as [items [Hit _]].
    destruct (items_complete cfg F items Hit _ Hin) as [cl [_ Hc]].
    assert (Hs : starts_with s_range (s_range ++ rest) = true) by (apply starts_with_spec; eauto).
    destruct (classify_cases _ _ _ Hc) as [H|[H|[H|[H|[H|[H|H]]]]]].
    - destruct H as [E _]. rewrite E in Hs. discriminate Hs.
    - destruct H as [E _]. rewrite E in Hs. discriminate Hs.
    - destruct H as [E _]. rewrite E in Hs. discriminate Hs.
    - destruct H as [_ [_ [r [_ E]]]]. subst cl. eauto.
    - destruct H as [_ [E _]]. congruence.
    - destruct H as [E _]. rewrite E in Hs. discriminate Hs.
    - destruct H as [_ [E _]]. congruence.
  Qed.

  Theorem unknown_flag_decl f : In (MUnknownFlag f) ds <-> In f F /\ ~ known_flag names f.
  Proof. rewrite (flags_unknown_iff _ _ _ _ _ Hcf f), (unknown_decl cfg Hsane f). reflexivity. Qed.

  Theorem invalid_range_decl f : In (MInvalidRange f) ds <-> In f F /\ is_range_flag f /\ forall i j, ~ valid_range f i j.
  Proof.
    rewrite (flags_invalid_range_iff _ _ _ _ _ Hcf f). split.
    - intros [A B]. split; auto. split; [eapply classify_range_flag; eauto|].
      intros i j V. apply (range_flag_valid_iff _ _ _ B i j) in V. discriminate.
    - intros [A [B C]]. split; auto. destruct (classify_of_range f A B) as [r Hr]. destruct r as [[i j]|]; auto.
      exfalso. apply (C i j). apply (range_flag_valid_iff _ _ _ Hr i j). reflexivity.
  Qed.

  Theorem range_no_plural_decl : In MRangeNoPlural ds <-> hp = false /\ exists f, In f F /\ is_range_flag f.
  Proof.
    rewrite (flags_range_no_plural_iff _ _ _ _ _ Hcf). split.
    - intros [A [f [r [B C]]]]. split; auto. exists f. split; auto. eapply classify_range_flag; eauto.
    - intros [A [f [B C]]]. split; auto. destruct (classify_of_range f B C) as [r Hr]. eauto.
  Qed.

  Theorem redundant_decl p q : In (MRedundantFlag p q) ds <->
    exists name, In name names /\ p = format_flag TpPossible name /\ q = format_flag TpPos name /\ In p F /\ In q F.
  Proof.
    rewrite (flags_redundant_iff _ _ _ _ _ Hcf p q). destruct (whole_items _ _ _ _ _ Hcf) as [items [Hit _]]. split.
    - intros [items' [k [Hit' [A B]]]]. rewrite Hit in Hit'. inversion Hit'; subst items'.
      apply (dict_decl cfg Hsane F items _ _ _ Hit) in A, B. exists k. tauto.
    - intros [name [A [-> [-> [B C]]]]]. exists items, name. split; auto.
      split; apply (dict_decl cfg Hsane F items _ _ _ Hit); auto.
  Qed.

  (* the format part of conflicting-message-flags *)
  Theorem format_conflict_decl a b :
    (exists items k1 k2, classify_all cfg (counter_sorted F) = Ok items
          /\ dget k1 (fmt_dict TpPos items) = Some a /\ dget k2 (fmt_dict TpPos items) = Some b
          /\ str_ltb k1 k2 = true /\ compatible (c_formats cfg) k1 k2 = false)
    <-> exists n1 n2, In n1 names /\ In n2 names /\ str_compare n1 n2 = Lt /\ compatible (c_formats cfg) n1 n2 = false
          /\ a = format_flag TpPos n1 /\ b = format_flag TpPos n2 /\ In a F /\ In b F.
  Proof.
    destruct (whole_items _ _ _ _ _ Hcf) as [items [Hit _]]. split.
    - intros [items' [k1 [k2 [Hit' [A [B [C D]]]]]]]. rewrite Hit in Hit'. inversion Hit'; subst items'.
      apply (dict_decl cfg Hsane F items _ _ _ Hit) in A, B. exists k1, k2.
      unfold str_ltb in C. destruct (str_compare k1 k2) eqn:E; try discriminate. tauto.
    - intros [n1 [n2 [A [B [C [D [-> [-> [G K]]]]]]]]]. exists items, n1, n2. split; auto.
      split; [apply (dict_decl cfg Hsane F items _ _ _ Hit); auto|].
      split; [apply (dict_decl cfg Hsane F items _ _ _ Hit); auto|]. unfold str_ltb. rewrite C. auto.
  Qed.
  Theorem family_conflict_decl a b :
    (exists items k tp1 tp2, classify_all cfg (counter_sorted F) = Ok items
          /\ ((tp1 = TpPos /\ tp2 = TpNo) \/ (tp1 = TpPos /\ tp2 = TpImpossible) \/ (tp1 = TpPossible /\ tp2 = TpImpossible))
          /\ dget k (fmt_dict tp1 items) = Some a /\ dget k (fmt_dict tp2 items) = Some b)
    <-> exists name tp1 tp2, In name names
          /\ ((tp1 = TpPos /\ tp2 = TpNo) \/ (tp1 = TpPos /\ tp2 = TpImpossible) \/ (tp1 = TpPossible /\ tp2 = TpImpossible))
          /\ a = format_flag tp1 name /\ b = format_flag tp2 name /\ In a F /\ In b F.
  Proof.
    destruct (whole_items _ _ _ _ _ Hcf) as [items [Hit _]]. split.
    - intros [items' [k [tp1 [tp2 [Hit' [T [A B]]]]]]]. rewrite Hit in Hit'. inversion Hit'; subst items'.
      apply (dict_decl cfg Hsane F items _ _ _ Hit) in A, B. exists k, tp1, tp2. tauto.
    - intros [name [tp1 [tp2 [A [T [-> [-> [B C]]]]]]]]. exists items, name, tp1, tp2. split; auto. split; auto.
      split; apply (dict_decl cfg Hsane F items _ _ _ Hit); auto.
  Qed.

  (* range rows are the valid range flags of the list, with their values *)
  Theorem range_row_decl items r f n : classify_all cfg (counter_sorted F) = Ok items ->
    (In (r, (f, n)) (range_rows items) <-> In f F /\ n = count_str f F /\ is_range_flag f /\ valid_range f (fst r) (snd r)).
  Proof.
    intros Hit. rewrite (rows_In cfg F items Hit r f n). destruct r as [i j]. cbn [fst snd]. split.
    - intros [A [B C]]. split; auto. split; auto. split; [eapply classify_range_flag; eauto|].
      apply (range_flag_valid_iff _ _ _ C i j). reflexivity.
    - intros [A [B [C D]]]. split; auto. split; auto. destruct (classify_of_range f A C) as [r Hr].
      rewrite Hr. apply (range_flag_valid_iff _ _ _ Hr i j) in D. subst r. reflexivity.
  Qed.
End Decl.

(* ------------------------------------------------------------------ *)
(* a flag list that breaks no rule yields no flag tag                   *)

Lemma filter_nil {A} (f : A -> bool) l : (forall x, In x l -> f x = false) -> filter f l = [].
Proof. induction l as [|a l IH]; cbn; intros H; auto. rewrite (H a (or_introl eq_refl)). apply IH. intros; apply H; right; auto. Qed.

Lemma NoDup_count f F : NoDup F -> (count_str f F <= 1)%nat.
Proof.
  unfold count_str. induction 1 as [|x l Hx Hl IH]; cbn; auto.
  destruct (str_eqb f x) eqn:E; cbn; auto. apply str_eqb_eq in E. subst x.
  assert (Z : filter (str_eqb f) l = []).
  { apply filter_nil. intros y Hy. apply str_eqb_neq. intros ->. auto. }
  rewrite Z. cbn. lia.
Qed.

Lemma rows_flags_NoDup items : NoDup (map flag_of items) -> NoDup (map (fun r => fst (snd r)) (range_rows items)).
Proof.
  unfold range_rows. induction items as [|[[f n] cl] items IH]; cbn; intros H; [constructor|].
  inversion H as [|? ? Hn Hd]; subst. specialize (IH Hd).
  destruct cl as [|w|[r|]|x| |]; cbn; auto. constructor; auto.
  intros Hin. apply Hn. apply in_map_iff in Hin. destruct Hin as [[r' [f' n']] [E Hin]]. cbn in E. subst f'.
  apply in_flat_map in Hin. destruct Hin as [[[f2 n2] cl2] [Hin2 Hr]].
  destruct cl2 as [|w|[r2|]|x| |]; try contradiction. destruct Hr as [Hr|[]]. inversion Hr; subst.
  apply in_map_iff. exists (f, n', FRange (Some r')). auto.
Qed.

Theorem flags_clean_silent cfg hp F ds info : formats_sane (c_formats cfg) = true ->
  flags_clean (c_formats cfg) hp F -> check_flags cfg hp F = Ok (ds, info) -> ds = [].
Proof.
  intros Hsane [C1 [C2 [C3 [C4 [C5 [C6 C7]]]]]] Hcf. fold (names_of (c_formats cfg)) in *.
  destruct ds as [|d ds']; auto. exfalso.
  assert (Hd : In d (d :: ds')) by (left; auto). remember (d :: ds') as ds eqn:Eds. clear Eds.
  destruct (whole_items _ _ _ _ _ Hcf) as [items [Hit _]].
  destruct (flags_shape _ _ _ _ _ Hcf d Hd) as [->|[[f ->]|[[f ->]|[[f ->]|[[a [b ->]]|[p [q ->]]]]]]].
  - apply (range_no_plural_decl cfg hp F ds info Hcf) in Hd. destruct Hd as [A [f [B C]]].
    destruct (C3 f B C) as [X _]. congruence.
  - apply (invalid_range_decl cfg hp F ds info Hcf) in Hd. destruct Hd as [A [B C]].
    destruct (C3 f A B) as [_ [i [j V]]]. apply (C i j V).
  - apply (unknown_flag_decl cfg hp F ds info Hsane Hcf) in Hd. destruct Hd as [A B]. apply B. apply C2. exact A.
  - apply (flags_duplicate_iff _ _ _ _ _ Hcf) in Hd. destruct Hd as [[A [B _]]|[items' [k [Hit' [E [S _]]]]]].
    + pose proof (NoDup_count f F C1). lia.
    + rewrite Hit in Hit'. inversion Hit'; subst items'.
      pose proof (rows_flags_NoDup items (items_flags_NoDup cfg F items Hit)) as ND.
      assert (Hrow : forall r, In r (range_rows items) -> In (fst (snd r)) F /\ is_range_flag (fst (snd r)) /\ (snd (snd r) <= 1)%nat).
      { intros [r [g n]] Hr. apply (range_row_decl cfg hp F ds info Hcf items r g n Hit) in Hr.
        destruct Hr as [X [Y [Z _]]]. cbn. split; auto. split; auto. subst n. apply NoDup_count. exact C1. }
      destruct (range_rows items) as [|r1 [|r2 rest]] eqn:ER.
      * cbn in S. lia.
      * cbn in S. destruct (Hrow r1 (or_introl eq_refl)) as [_ [_ X]]. lia.
      * destruct (Hrow r1 (or_introl eq_refl)) as [A1 [B1 _]]. destruct (Hrow r2 (or_intror (or_introl eq_refl))) as [A2 [B2 _]].
        pose proof (C4 _ _ A1 A2 B1 B2) as Eq. cbn in ND. inversion ND as [|? ? Hn _]; subst. apply Hn. left. auto.
  - apply (flags_conflict_iff _ _ _ _ _ Hcf) in Hd. destruct Hd as [[_ [_ [A B]]]|[H|[H|H]]].
    + apply C5. auto.
    + destruct H as [items' [k1 [k2 [rest [Hit' [E _]]]]]]. rewrite Hit in Hit'. inversion Hit'; subst items'.
      destruct (keys_two_smallest _ _ _ _ E) as [A [B [C _]]].
      apply in_map_iff in A, B. destruct A as [[r1 [f1 n1]] [E1 A]]. destruct B as [[r2 [f2 n2]] [E2 B]]. cbn in E1, E2. subst r1 r2.
      apply (rows_In cfg F items Hit) in A, B. destruct A as [A1 [_ A3]]. destruct B as [B1 [_ B3]].
      pose proof (C4 _ _ A1 B1 (classify_range_flag _ _ _ A3) (classify_range_flag _ _ _ B3)) as Eq. subst f2.
      rewrite A3 in B3. inversion B3; subst. assert (Z : zz_compare k2 k2 = Eq) by (apply zz_compare_eq; auto). congruence.
    + apply (format_conflict_decl cfg hp F ds info Hsane Hcf a b) in H.
      destruct H as [n1 [n2 [A [B [C [D [-> [-> [G K]]]]]]]]].
      assert (Hne : n1 <> n2) by (intros ->; rewrite str_compare_refl in C; discriminate).
      rewrite (C6 n1 n2 A B Hne G K) in D. discriminate.
    + apply (family_conflict_decl cfg hp F ds info Hsane Hcf a b) in H.
      destruct H as [name [tp1 [tp2 [A [T [-> [-> [B C]]]]]]]].
      apply (C7 name tp1 tp2 A); [unfold bad_pair; tauto|auto].
  - apply (redundant_decl cfg hp F ds info Hsane Hcf p q) in Hd. destruct Hd as [name [A [-> [-> [B C]]]]].
    apply (C7 name TpPos TpPossible A); [unfold bad_pair; tauto|auto].
Qed.

(* Format flags: the decomposition <family><name>-format, (family, name) determines the flag; range flags against
   the documented syntax; the flag rules in declarative form; a declarative "clean" flag list. *)
From Coq Require Import List NArith ZArith Bool Lia ZifyBool ZifyN Sorted.
From I18n Require Import Lib.Outcome Model.IntExpr Model.PluralForms Model.Messages Spec.Messages
  Proofs.PluralForms Proofs.MessagesLib Proofs.MessagesFlags Proofs.Messages.
Import ListNotations.
Local Open Scope N_scope.

Definition names_of (tbl : list (list N * list (list N))) : list (list N) := map fst tbl.

(* what the four-prefix lookup needs of the table; checked by computation on the generated one *)
Definition formats_sane (tbl : list (list N * list (list N))) : bool :=
  forallb (fun p => negb (is_nil (fst p))
                    && negb (starts_with s_no (fst p ++ s_format))
                    && negb (starts_with s_possible (fst p ++ s_format))
                    && negb (starts_with s_impossible (fst p ++ s_format))
                    && negb (starts_with s_range (fst p ++ s_format))
                    && negb (is_nil (snd p))) tbl.

Lemma mem_key_In k tbl : mem_key k tbl = true <-> In k (names_of tbl).
Proof.
  unfold mem_key, names_of. rewrite existsb_exists, in_map_iff. split.
  - intros [p [H1 H2]]. apply str_eqb_eq in H2. eauto.
  - intros [p [H1 H2]]. exists p. split; auto. apply str_eqb_eq. auto.
Qed.

Lemma sane_name tbl name : formats_sane tbl = true -> In name (names_of tbl) ->
  name <> [] /\ starts_with s_no (name ++ s_format) = false /\ starts_with s_possible (name ++ s_format) = false
  /\ starts_with s_impossible (name ++ s_format) = false /\ starts_with s_range (name ++ s_format) = false.
Proof.
  unfold formats_sane, names_of. rewrite forallb_forall, in_map_iff. intros H [p [<- Hp]]. specialize (H p Hp).
  rewrite !andb_true_iff, !negb_true_iff in H. destruct H as [[[[[A B] C] D] E] _].
  apply is_nil_false in A. auto.
Qed.

Lemma skipn_app_length {A} (p r : list A) : skipn (length p) (p ++ r) = r.
Proof. induction p; cbn; auto. Qed.

Lemma slice_mid_app p name : slice_mid (length p) (p ++ name ++ s_format) = name.
Proof.
  unfold slice_mid. rewrite skipn_app_length, !app_length. cbn [length s_format].
  replace (length p + (length name + 7) - 7 - length p)%nat with (length name + 0)%nat by lia.
  rewrite firstn_app_2. cbn. apply app_nil_r.
Qed.

Lemma slice_decomp p f : starts_with p f = true -> ends_with s_format f = true -> slice_mid (length p) f <> [] ->
  f = p ++ slice_mid (length p) f ++ s_format.
Proof.
  rewrite starts_with_spec, ends_with_spec. intros [r ->] [r' E] Hs.
  unfold slice_mid in *. rewrite skipn_app_length, app_length in *.
  replace (length p + length r - 7 - length p)%nat with (length r - 7)%nat in * by lia.
  assert (Hl : (8 <= length r)%nat).
  { destruct (Nat.le_gt_cases 8 (length r)); auto. exfalso. apply Hs.
    replace (length r - 7)%nat with 0%nat by lia. reflexivity. }
  apply app_eq_app in E. destruct E as [l [[E1 E2]|[E1 E2]]].
  - exfalso. apply (f_equal (@length N)) in E2. rewrite app_length in E2. cbn in E2. lia.
  - subst r. rewrite app_length. cbn [length s_format]. replace (length l + 7 - 7)%nat with (length l + 0)%nat by lia.
    rewrite firstn_app_2. cbn. rewrite app_nil_r. reflexivity.
Qed.

Section Table.
  Variable tbl : list (list N * list (list N)).
  Hypothesis Hsane : formats_sane tbl = true.

  Lemma name_nonempty name : mem_key name tbl = true -> name <> [].
  Proof. intros H. apply mem_key_In in H. apply (sane_name tbl name Hsane H). Qed.

  (* the lookup finds only genuine decompositions ... *)
  Lemma lookup_decomp f tp name : ends_with s_format f = true -> lookup_format tbl prefixes f = Some (tp, name) ->
    In name (names_of tbl) /\ f = format_flag tp name.
  Proof.
    intros He. unfold prefixes. cbn [lookup_format].
    assert (G : forall tp0 p, starts_with p f = true -> mem_key (slice_mid (length p) f) tbl = true -> prefix_of tp0 = p ->
                In (slice_mid (length p) f) (names_of tbl) /\ f = format_flag tp0 (slice_mid (length p) f)).
    { intros tp0 p Hp Hm Hpre. split; [apply mem_key_In; auto|]. unfold format_flag. rewrite Hpre.
      apply slice_decomp; auto. apply name_nonempty; auto. }
    destruct (starts_with s_no f) eqn:E1.
    { destruct (mem_key (slice_mid (length s_no) f) tbl) eqn:M1.
      - intros H. inversion H; subst. apply (G TpNo s_no); auto.
      - destruct (starts_with s_possible f) eqn:E2.
        { destruct (mem_key (slice_mid (length s_possible) f) tbl) eqn:M2.
          - intros H. inversion H; subst. apply (G TpPossible s_possible); auto.
          - destruct (starts_with s_impossible f) eqn:E3.
            { destruct (mem_key (slice_mid (length s_impossible) f) tbl) eqn:M3.
              - intros H. inversion H; subst. apply (G TpImpossible s_impossible); auto.
              - cbn [starts_with]. destruct (mem_key (slice_mid (length (@nil N)) f) tbl) eqn:M4; [|discriminate].
                intros H. inversion H; subst. apply (G TpPos []); auto. }
            cbn [starts_with]. destruct (mem_key (slice_mid (length (@nil N)) f) tbl) eqn:M4; [|discriminate].
            intros H. inversion H; subst. apply (G TpPos []); auto. }
        destruct (starts_with s_impossible f) eqn:E3.
        { destruct (mem_key (slice_mid (length s_impossible) f) tbl) eqn:M3.
          - intros H. inversion H; subst. apply (G TpImpossible s_impossible); auto.
          - cbn [starts_with]. destruct (mem_key (slice_mid (length (@nil N)) f) tbl) eqn:M4; [|discriminate].
            intros H. inversion H; subst. apply (G TpPos []); auto. }
        cbn [starts_with]. destruct (mem_key (slice_mid (length (@nil N)) f) tbl) eqn:M4; [|discriminate].
        intros H. inversion H; subst. apply (G TpPos []); auto. }
    destruct (starts_with s_possible f) eqn:E2.
    { destruct (mem_key (slice_mid (length s_possible) f) tbl) eqn:M2.
      - intros H. inversion H; subst. apply (G TpPossible s_possible); auto.
      - destruct (starts_with s_impossible f) eqn:E3.
        { destruct (mem_key (slice_mid (length s_impossible) f) tbl) eqn:M3.
          - intros H. inversion H; subst. apply (G TpImpossible s_impossible); auto.
          - cbn [starts_with]. destruct (mem_key (slice_mid (length (@nil N)) f) tbl) eqn:M4; [|discriminate].
            intros H. inversion H; subst. apply (G TpPos []); auto. }
        cbn [starts_with]. destruct (mem_key (slice_mid (length (@nil N)) f) tbl) eqn:M4; [|discriminate].
        intros H. inversion H; subst. apply (G TpPos []); auto. }
    destruct (starts_with s_impossible f) eqn:E3.
    { destruct (mem_key (slice_mid (length s_impossible) f) tbl) eqn:M3.
      - intros H. inversion H; subst. apply (G TpImpossible s_impossible); auto.
      - cbn [starts_with]. destruct (mem_key (slice_mid (length (@nil N)) f) tbl) eqn:M4; [|discriminate].
        intros H. inversion H; subst. apply (G TpPos []); auto. }
    cbn [starts_with]. destruct (mem_key (slice_mid (length (@nil N)) f) tbl) eqn:M4; [|discriminate].
    intros H. inversion H; subst. apply (G TpPos []); auto.
  Qed.

  (* ... and finds every one *)
  Lemma lookup_complete tp name : In name (names_of tbl) -> lookup_format tbl prefixes (format_flag tp name) = Some (tp, name).
  Proof.
    intros Hn. destruct (sane_name tbl name Hsane Hn) as [N0 [N1 [N2 [N3 N4]]]]. apply mem_key_In in Hn.
    unfold prefixes, format_flag. cbn [lookup_format]. destruct tp; cbn [prefix_of].
    - (* positive *) cbn [app]. rewrite N1, N2, N3. cbn [starts_with].
      change (slice_mid (length (@nil N)) (name ++ s_format)) with (slice_mid (length (@nil N)) ([] ++ name ++ s_format)).
      rewrite slice_mid_app, Hn. reflexivity.
    - (* no- *) assert (E : starts_with s_no (s_no ++ name ++ s_format) = true) by (apply starts_with_spec; eauto).
      rewrite E, slice_mid_app, Hn. reflexivity.
    - (* possible- *) assert (E : starts_with s_possible (s_possible ++ name ++ s_format) = true) by (apply starts_with_spec; eauto).
      change (starts_with s_no (s_possible ++ name ++ s_format)) with false. cbv iota.
      rewrite E, slice_mid_app, Hn. reflexivity.
    - (* impossible- *) assert (E : starts_with s_impossible (s_impossible ++ name ++ s_format) = true) by (apply starts_with_spec; eauto).
      change (starts_with s_no (s_impossible ++ name ++ s_format)) with false.
      change (starts_with s_possible (s_impossible ++ name ++ s_format)) with false. cbv iota.
      rewrite E, slice_mid_app, Hn. reflexivity.
  Qed.
End Table.

(* ------------------------------------------------------------------ *)
(* classification of format flags                                       *)

Lemma ends_with_format tp name : ends_with s_format (format_flag tp name) = true.
Proof. apply ends_with_spec. exists (prefix_of tp ++ name). unfold format_flag. rewrite app_assoc. reflexivity. Qed.

Lemma not_ends_format_neq f g : ends_with s_format f = true -> ends_with s_format g = false -> str_eqb f g = false.
Proof. intros H1 H2. apply str_eqb_neq. intros ->. congruence. Qed.

Section Classify.
  Variable cfg : config.
  Hypothesis Hsane : formats_sane (c_formats cfg) = true.
  Let tbl := c_formats cfg.

  Lemma starts_range_format tp name : In name (names_of tbl) -> starts_with s_range (format_flag tp name) = false.
  Proof.
    intros Hn. destruct (sane_name tbl name Hsane Hn) as [_ [_ [_ [_ N4]]]].
    unfold format_flag. destruct tp; cbn [prefix_of]; [exact N4|reflexivity|reflexivity|reflexivity].
  Qed.

  (* the flags of a format are classified as such, with their family *)
  Lemma classify_format_flag tp name : In name (names_of tbl) ->
    classify cfg (format_flag tp name) = Ok (FFormat (Some (tp, name))).
  Proof.
    intros Hn. unfold classify.
    pose proof (ends_with_format tp name) as He.
    rewrite (not_ends_format_neq _ s_fuzzy He eq_refl), (not_ends_format_neq _ s_wrap He eq_refl),
            (not_ends_format_neq _ s_no_wrap He eq_refl), (starts_range_format tp name Hn), He.
    fold tbl. rewrite (lookup_complete tbl Hsane tp name Hn). reflexivity.
  Qed.

  (* (family, name) determines the flag *)
  Lemma classify_format_inv f tp name : classify cfg f = Ok (FFormat (Some (tp, name))) ->
    In name (names_of tbl) /\ f = format_flag tp name.
  Proof.
    intros H. destruct (classify_cases _ _ _ H) as [[_ E]|[[_ E]|[[_ E]|[[_ [_ [r [_ E]]]]|[[_ [_ [He E]]]|[[_ E]|[_ [_ [_ [_ E]]]]]]]]]];
      try discriminate. inversion E as [E']. symmetry in E'. apply (lookup_decomp tbl Hsane f tp name He E').
  Qed.
  Theorem format_flag_injective f g tp name :
    classify cfg f = Ok (FFormat (Some (tp, name))) -> classify cfg g = Ok (FFormat (Some (tp, name))) -> f = g.
  Proof. intros H1 H2. apply classify_format_inv in H1, H2. destruct H1 as [_ ->]. destruct H2 as [_ ->]. reflexivity. Qed.

  Lemma classify_format_iff f tp name : classify cfg f = Ok (FFormat (Some (tp, name))) <->
    In name (names_of tbl) /\ f = format_flag tp name.
  Proof. split; [apply classify_format_inv|]. intros [H ->]. apply classify_format_flag. exact H. Qed.

  (* unknown flags, declaratively *)
  Theorem unknown_decl f : (classify cfg f = Ok (FFormat None) \/ classify cfg f = Ok FOther) <-> ~ known_flag (names_of tbl) f.
  Proof.
    unfold known_flag, is_range_flag, is_format_flag. split.
    - intros H K.
      assert (Hc : exists cl, classify cfg f = Ok cl /\ (cl = FFormat None \/ cl = FOther)) by (destruct H as [H|H]; eauto).
      destruct Hc as [cl [Hc Hcl]].
      destruct (classify_cases _ _ _ Hc) as [[E1 E2]|[[E1 E2]|[[E1 E2]|[[_ [_ [r [_ E2]]]]|[[Hn [Hr [He E2]]]|[[E1 E2]|[Hn [Hr [He [Hm E2]]]]]]]]]];
        try (subst cl; destruct Hcl; discriminate).
      + destruct K as [K|[K|[K|[K|[[r K]|[tp [name [K1 K2]]]]]]]]; unfold named_flag in Hn; try tauto.
        * subst f. assert (X : ends_with s_format s_markdown = true) by exact He. discriminate X.
        * subst f. assert (X : starts_with s_range (s_range ++ r) = true) by (apply starts_with_spec; eauto). congruence.
        * subst f. fold tbl in E2. rewrite (lookup_complete tbl Hsane tp name K1) in E2. subst cl. destruct Hcl; discriminate.
      + destruct K as [K|[K|[K|[K|[[r K]|[tp [name [K1 K2]]]]]]]]; unfold named_flag in Hn; try tauto.
        * subst f. assert (X : starts_with s_range (s_range ++ r) = true) by (apply starts_with_spec; eauto). congruence.
        * subst f. rewrite ends_with_format in He. discriminate.
    - intros K. unfold classify.
      destruct (str_eqb f s_fuzzy) eqn:E1; [apply str_eqb_eq in E1; tauto|].
      destruct (str_eqb f s_wrap) eqn:E2; [apply str_eqb_eq in E2; tauto|].
      destruct (str_eqb f s_no_wrap) eqn:E3; [apply str_eqb_eq in E3; tauto|].
      destruct (starts_with s_range f) eqn:E4; [apply starts_with_spec in E4; tauto|].
      destruct (ends_with s_format f) eqn:E5.
      + left. fold tbl. destruct (lookup_format tbl prefixes f) as [[tp name]|] eqn:E6; auto.
        exfalso. destruct (lookup_decomp tbl Hsane f tp name E5 E6) as [A B]. apply K. do 5 right. eauto.
      + destruct (str_eqb f s_markdown) eqn:E6; [apply str_eqb_eq in E6; tauto|]. auto.
  Qed.

  (* the format_flags dictionaries, in terms of the flag list *)
  Lemma dict_decl F items tp name flag : classify_all cfg (counter_sorted F) = Ok items ->
    (dget name (fmt_dict tp items) = Some flag <-> In name (names_of tbl) /\ flag = format_flag tp name /\ In flag F).
  Proof.
    intros Hit. split.
    - intros H. destruct (dict_from_flags cfg F items tp name flag Hit H) as [A B].
      apply classify_format_inv in B. tauto.
    - intros [A [-> C]]. pose proof (classify_format_flag tp name A) as Hc.
      destruct (dict_has_flag cfg F items tp name _ Hit C Hc) as [flag' Hg]. rewrite Hg. f_equal.
      destruct (dict_from_flags cfg F items tp name flag' Hit Hg) as [_ B]. apply classify_format_inv in B. tauto.
  Qed.
End Classify.

(* Source tie, class Evaluator (and BaseEvaluator as used by it): see Proofs/IntExprSrc.v *)
From Coq Require Import List ZArith Bool Lia ZifyBool.
From I18n Require Import Lib.Outcome Lib.PySrc Model.IntExpr Generated.IntExprSrc Proofs.IntExprSrc.
Import ListNotations.
Local Open Scope Z_scope.

(* ================================================================== *)
(* class Evaluator                                                      *)

Lemma src_ev_check_overflow_eq M n : src_ev_check_overflow M n = of_eres (check_overflow M n).
Proof. unfold src_ev_check_overflow, check_overflow. zb. Qed.

Lemma src_ev_add_eq M x y : src_ev_add M x y = of_eres (eval_bin M Add x y).
Proof. apply src_ev_check_overflow_eq. Qed.
Lemma src_ev_sub_eq M x y : src_ev_sub M x y = of_eres (eval_bin M Sub x y).
Proof. apply src_ev_check_overflow_eq. Qed.
Lemma src_ev_mult_eq M x y : src_ev_mult M x y = of_eres (eval_bin M Mult x y).
Proof. apply src_ev_check_overflow_eq. Qed.
Lemma src_ev_div_eq M x y : src_ev_div x y = of_eres (eval_bin M Div x y).
Proof. unfold src_ev_div, eval_bin. zb. Qed.
Lemma src_ev_mod_eq M x y : src_ev_mod x y = of_eres (eval_bin M Mod x y).
Proof. unfold src_ev_mod, eval_bin. zb. Qed.

Lemma src_ev_not_eq x : src_ev_not x = SRet (b2z (x =? 0)).
Proof. reflexivity. Qed.

Lemma src_ev_gte_eq x y : src_ev_gte x y = SRet (eval_cmp CGe x y).
Proof. reflexivity. Qed.
Lemma src_ev_gt_eq x y : src_ev_gt x y = SRet (eval_cmp CGt x y).
Proof. reflexivity. Qed.
Lemma src_ev_lte_eq x y : src_ev_lte x y = SRet (eval_cmp CLe x y).
Proof. reflexivity. Qed.
Lemma src_ev_lt_eq x y : src_ev_lt x y = SRet (eval_cmp CLt x y).
Proof. reflexivity. Qed.
Lemma src_ev_eq_eq x y : src_ev_eq x y = SRet (eval_cmp CEq x y).
Proof. reflexivity. Qed.
Lemma src_ev_noteq_eq x y : src_ev_noteq x y = SRet (eval_cmp CNe x y).
Proof. reflexivity. Qed.

(* self._visit on an expression node = the model's evaluator; on anything else the getattr dispatch
   would find no such zero-argument method *)
Definition ev_vis (M n : Z) (nd : pynode) : sres Z :=
  match nd with NE e => of_eres (pyeval M e n) | _ => SRaise (XCrash CTypeError) end.

Lemma src_ev_and_eq M n a b : src_ev_and (ev_vis M n) [NE a; NE b] = of_eres (pyeval M (And a b) n).
Proof.
  unfold src_ev_and. cbn [src_ev_and_loop ev_vis pyeval].
  destruct (pyeval M a n) as [x|[]|c]; cbn [obind of_eres sbind]; try reflexivity.
  destruct (x =? 0); [reflexivity|].
  destruct (pyeval M b n) as [y|[]|c]; cbn [obind of_eres sbind]; try reflexivity.
  destruct (y =? 0); reflexivity.
Qed.

Lemma src_ev_or_eq M n a b : src_ev_or (ev_vis M n) [NE a; NE b] = of_eres (pyeval M (Or a b) n).
Proof.
  unfold src_ev_or. cbn [src_ev_or_loop ev_vis pyeval].
  destruct (pyeval M a n) as [x|[]|c]; cbn [obind of_eres sbind]; try reflexivity.
  destruct (x =? 0); cbn [negb]; [|reflexivity].
  destruct (pyeval M b n) as [y|[]|c]; cbn [obind of_eres sbind]; try reflexivity.
  destruct (y =? 0); reflexivity.
Qed.

Lemma src_ev_ifexp_eq M n c a b :
  src_ev_ifexp (ev_vis M n) (NE c) (NE a) (NE b) = of_eres (pyeval M (If c a b) n).
Proof.
  unfold src_ev_ifexp. cbn [ev_vis pyeval].
  destruct (pyeval M c n) as [t|[]|k]; cbn [obind of_eres sbind]; try reflexivity.
  destruct (t =? 0); reflexivity.
Qed.

Lemma src_ev_num_eq M n z : src_ev_num M z = of_eres (pyeval M (Num z) n).
Proof. apply src_ev_check_overflow_eq. Qed.
Lemma src_ev_name_eq M n : src_ev_name M n = of_eres (pyeval M Var n).
Proof. apply src_ev_check_overflow_eq. Qed.

(* the getattr dispatch of BaseEvaluator._visit (`'_visit_' + type(node).__name__.lower()`), written by hand *)
Definition ev_visit2 (M : Z) (nd : pynode) (x y : Z) : sres Z :=
  match nd with
  | NBin Add => src_ev_add M x y | NBin Sub => src_ev_sub M x y | NBin Mult => src_ev_mult M x y
  | NBin Div => src_ev_div x y | NBin Mod => src_ev_mod x y
  | NCmp CGe => src_ev_gte x y | NCmp CGt => src_ev_gt x y | NCmp CLe => src_ev_lte x y
  | NCmp CLt => src_ev_lt x y | NCmp CEq => src_ev_eq x y | NCmp CNe => src_ev_noteq x y
  | _ => SRaise (XCrash CTypeError)
  end.
Definition ev_visit1 (nd : pynode) (x : Z) : sres Z :=
  match nd with NNot => src_ev_not x | _ => SRaise (XCrash CTypeError) end.
Definition ev_visitn (M n : Z) (nd : pynode) (args : list pynode) : sres Z :=
  match nd with
  | NAnd => src_ev_and (ev_vis M n) args | NOr => src_ev_or (ev_vis M n) args
  | _ => SRaise (XCrash CTypeError)
  end.

(* one step of the visitor, assembled from the translated BaseEvaluator and Evaluator methods, is one step of pyeval *)
Lemma ev_step_bin M n o a b :
  src_base_binop (ev_vis M n) (ev_visit2 M) (NE a) (NE b) (NBin o) = of_eres (pyeval M (Bin o a b) n).
Proof.
  unfold src_base_binop. cbn [ev_vis pyeval].
  destruct (pyeval M a n) as [x|[]|c]; cbn [obind of_eres sbind]; try reflexivity.
  destruct (pyeval M b n) as [y|[]|c]; cbn [obind of_eres sbind]; try reflexivity.
  destruct o; cbn [ev_visit2].
  - apply src_ev_add_eq. - apply src_ev_sub_eq. - apply src_ev_mult_eq.
  - apply src_ev_div_eq. - apply src_ev_mod_eq.
Qed.

Lemma ev_step_cmp M n o a b :
  src_base_compare (ev_vis M n) (ev_visit2 M) [NE b] [NCmp o] (NE a) = of_eres (pyeval M (Cmp o a b) n).
Proof.
  unfold src_base_compare. cbn [length Z.of_nat Z.eqb Pos.eqb negb ev_vis pyeval].
  destruct (pyeval M a n) as [x|[]|c]; cbn [obind of_eres sbind]; try reflexivity.
  destruct (pyeval M b n) as [y|[]|c]; cbn [obind of_eres sbind]; try reflexivity.
  destruct o; reflexivity.
Qed.

Lemma ev_step_not M n a :
  src_base_unaryop (ev_vis M n) ev_visit1 (NE a) NNot = of_eres (pyeval M (Not a) n).
Proof.
  unfold src_base_unaryop. cbn [ev_vis pyeval].
  destruct (pyeval M a n) as [x|[]|c]; reflexivity.
Qed.

Lemma ev_step_and M n a b :
  src_base_boolop (ev_visitn M n) NAnd [NE a; NE b] = of_eres (pyeval M (And a b) n).
Proof. apply src_ev_and_eq. Qed.
Lemma ev_step_or M n a b :
  src_base_boolop (ev_visitn M n) NOr [NE a; NE b] = of_eres (pyeval M (Or a b) n).
Proof. apply src_ev_or_eq. Qed.


(* grouped for Props/C04.v *)
Lemma ev_tie_arith M x y :
  src_ev_add M x y = of_eres (eval_bin M Add x y) /\ src_ev_sub M x y = of_eres (eval_bin M Sub x y) /\
  src_ev_mult M x y = of_eres (eval_bin M Mult x y) /\ src_ev_div x y = of_eres (eval_bin M Div x y) /\
  src_ev_mod x y = of_eres (eval_bin M Mod x y).
Proof. repeat split; [apply src_ev_add_eq|apply src_ev_sub_eq|apply src_ev_mult_eq|apply src_ev_div_eq|apply src_ev_mod_eq]. Qed.

Lemma ev_tie_compare x y :
  src_ev_gte x y = SRet (eval_cmp CGe x y) /\ src_ev_gt x y = SRet (eval_cmp CGt x y) /\
  src_ev_lte x y = SRet (eval_cmp CLe x y) /\ src_ev_lt x y = SRet (eval_cmp CLt x y) /\
  src_ev_eq x y = SRet (eval_cmp CEq x y) /\ src_ev_noteq x y = SRet (eval_cmp CNe x y) /\
  src_ev_not x = SRet (b2z (x =? 0)).
Proof. repeat split. Qed.

Lemma ev_tie_leaves M n z :
  src_ev_num M z = of_eres (pyeval M (Num z) n) /\ src_ev_name M n = of_eres (pyeval M Var n).
Proof. split; [apply src_ev_num_eq|apply src_ev_name_eq]. Qed.

Lemma ev_tie_visitor M n :
  (forall o a b, src_base_binop (ev_vis M n) (ev_visit2 M) (NE a) (NE b) (NBin o) = of_eres (pyeval M (Bin o a b) n)) /\
  (forall o a b, src_base_compare (ev_vis M n) (ev_visit2 M) [NE b] [NCmp o] (NE a) = of_eres (pyeval M (Cmp o a b) n)) /\
  (forall a, src_base_unaryop (ev_vis M n) ev_visit1 (NE a) NNot = of_eres (pyeval M (Not a) n)) /\
  (forall a b, src_base_boolop (ev_visitn M n) NAnd [NE a; NE b] = of_eres (pyeval M (And a b) n)) /\
  (forall a b, src_base_boolop (ev_visitn M n) NOr [NE a; NE b] = of_eres (pyeval M (Or a b) n)) /\
  (forall c a b, src_ev_ifexp (ev_vis M n) (NE c) (NE a) (NE b) = of_eres (pyeval M (If c a b) n)).
Proof.
  repeat split; intros.
  - apply ev_step_bin. - apply ev_step_cmp. - apply ev_step_not. - apply ev_step_and. - apply ev_step_or.
  - apply src_ev_ifexp_eq.
Qed.

(* the parts of BaseEvaluator / Evaluator that are not translated (constructor: max = 1 << bits; __call__, the getattr
   dispatch _visit, _visit_expr) still have the text recorded in the translator *)
Lemma ev_pins : src_pin_base = true /\ src_pin_ev = true.
Proof. split; reflexivity. Qed.

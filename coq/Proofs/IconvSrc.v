(* Source tie, lib/iconv.py: the functions of Generated/EncodingsSrc.v that tools/gen/gen_encodings_src.py translates
   from encode / decode / _encode_dl / _decode_dl (regenerated from /repo on every run) equal the hand-written model
   Model/Iconv.v for every libc behaviour `ops`, every input, every amount of fuel.  The buffer growth
   (`output_len *= 2`), the loop structure, the order of the libc calls, the error-position arithmetic and the
   resynchronisation scan all come from the source text: an edit of any of them changes the generated function and the
   lemma about it stops compiling. *)
From Coq Require Import List ZArith NArith Bool Lia.
From I18n Require Import Lib.Outcome Model.Iconv Model.EncodingsPy Generated.EncodingsSrc.
Import ListNotations.
Local Open Scope Z_scope.

(* ---------- embedding of the model's results ---------- *)
Definition of_iconv (mk : Z -> Z -> pexn) (r : outcome (list N) (Z * Z)) : pres (list N) :=
  match r with
  | Ok out => PRet out
  | Err (b, e) => PRaise (mk b e)
  | Crash c => of_crash c
  end.
Definition of_dec := of_iconv PUnicodeDecodeError.
Definition of_enc := of_iconv PUnicodeEncodeError.

(* ---------- ctypes.c_size_t(x).value == x  <->  x < 2^64 (x >= 0) ---------- *)
Lemma size_t_wrap : forall x, 0 <= x -> (x mod size_t_max =? x) = (x <? size_t_max).
Proof.
  intros x Hx. assert (Hm : 0 < size_t_max) by (unfold size_t_max; lia).
  destruct (x <? size_t_max) eqn:E.
  - apply Z.ltb_lt in E. rewrite Z.mod_small by lia. apply Z.eqb_refl.
  - apply Z.ltb_ge in E. apply Z.eqb_neq. pose proof (Z.mod_pos_bound x size_t_max Hm). lia.
Qed.

Lemma byte_lt_128 : forall b : N, (Z.of_N b <? 128) = (b <? 128)%N.
Proof.
  intros b. destruct (b <? 128)%N eqn:E.
  - apply N.ltb_lt in E. apply Z.ltb_lt. lia.
  - apply N.ltb_ge in E. apply Z.ltb_ge. lia.
Qed.

(* ---------- _decode_dl: the resynchronisation scan (for ... else) ---------- *)
Lemma src_decode_dl_for_eq : forall ops input b cnt e,
  src_iconv_decode_dl_for ops input b cnt e =
  of_dec (match scan_end input (Z.of_nat (length input)) cnt e with
          | Ok e' => Err (b, e') | Err x => Err x | Crash c => Crash c end).
Proof.
  intros ops input b cnt; induction cnt as [|cnt IH]; intros e; cbn [src_iconv_decode_dl_for scan_end].
  - reflexivity.
  - destruct (py_index input e) as [x|]; [|reflexivity].
    rewrite byte_lt_128. destruct (x <? 128)%N; [reflexivity|]. apply IH.
Qed.

(* the recursive call of a translated loop: the new capacity, however it is written (cap * 2, 2 * cap, cap + cap) *)
Ltac recur IH cap :=
  cbv zeta; match goal with |- ?f _ _ _ ?c = _ => replace c with (cap * 2) by lia end; apply IH; lia.

(* ---------- _decode_dl: while True ---------- *)
Lemma src_decode_dl_loop_eq : forall ops input fuel cap grows, 0 <= cap ->
  src_iconv_decode_dl_loop ops fuel input cap = of_dec (snd (dec_loop ops input fuel cap grows)).
Proof.
  intros ops input fuel; induction fuel as [|fuel IH]; intros cap grows Hcap; cbn [src_iconv_decode_dl_loop dec_loop].
  - reflexivity.
  - rewrite (size_t_wrap (Z.of_nat (length input))) by lia. rewrite (size_t_wrap cap) by lia.
    destruct (Z.of_nat (length input) <? size_t_max); cbn [negb andb]; [|reflexivity].
    destruct (cap <? size_t_max); cbn [negb andb]; [|reflexivity].
    destruct (io_reset_ok ops cap); cbn [rc_of_bool rc_ok negb]; [|reflexivity].
    unfold iteration.
    destruct (cr_rc (io_conv ops cap)) eqn:Ec; cbn [rc_ok negb rc_eqb orb snd].
    + destruct (fr_rc (io_flush ops cap)) eqn:Ef; cbn [rc_ok negb rc_eqb orb snd].
      * destruct (cr_inleft (io_conv ops cap) =? 0); cbn [negb snd]; [|reflexivity].
        destruct ((cap - fr_outleft (io_flush ops cap)) mod 4 =? 0); reflexivity.
      * recur IH cap.
      * rewrite src_decode_dl_for_eq. reflexivity.
      * rewrite src_decode_dl_for_eq. reflexivity.
      * reflexivity.
    + recur IH cap.
    + rewrite src_decode_dl_for_eq. reflexivity.
    + rewrite src_decode_dl_for_eq. reflexivity.
    + reflexivity.
Qed.

(* try: <loop> finally: iconv_close *)
Lemma src_decode_dl_eq : forall ops input fuel, input <> [] ->
  src_iconv_decode_dl ops fuel input = of_dec (snd (iconv_decode ops true input fuel)).
Proof.
  intros ops input fuel Hne. unfold src_iconv_decode_dl. destruct input as [|c r]; [congruence|].
  cbn [iconv_decode negb]. destruct (io_open_ok ops); cbn [rc_of_bool rc_ok negb snd]; [|reflexivity].
  cbv zeta. rewrite (src_decode_dl_loop_eq ops (c :: r) fuel _ O) by lia.
  destruct (io_close_ok ops); cbn [rc_of_bool rc_ok negb pfinally snd]; reflexivity.
Qed.

(* decode(input, encoding, errors) *)
Lemma src_decode_eq : forall ops input strict fuel,
  src_iconv_decode ops fuel input strict = of_dec (snd (iconv_decode ops strict input fuel)).
Proof.
  intros ops input strict fuel. unfold src_iconv_decode. destruct input as [|c r] eqn:Ei; [reflexivity|].
  replace (Z.of_nat (length (c :: r)) =? 0) with false by (symmetry; apply Z.eqb_neq; cbn [length]; lia).
  destruct strict; cbn [negb].
  - rewrite src_decode_dl_eq by discriminate. reflexivity.
  - reflexivity.
Qed.

(* ---------- _encode_dl ---------- *)
Lemma src_encode_dl_loop_eq : forall ops input fuel cap grows, 0 <= cap ->
  src_iconv_encode_dl_loop ops fuel input cap = of_enc (snd (enc_loop ops (Z.of_nat (length input)) fuel cap grows)).
Proof.
  intros ops input fuel; induction fuel as [|fuel IH]; intros cap grows Hcap; cbn [src_iconv_encode_dl_loop enc_loop].
  - reflexivity.
  - rewrite (size_t_wrap (Z.of_nat (length input) * 4)) by lia. rewrite (size_t_wrap cap) by lia.
    destruct (Z.of_nat (length input) * 4 <? size_t_max); cbn [negb andb]; [|reflexivity].
    destruct (cap <? size_t_max); cbn [negb andb]; [|reflexivity].
    destruct (io_reset_ok ops cap); cbn [rc_of_bool rc_ok negb]; [|reflexivity].
    unfold iteration.
    destruct (cr_rc (io_conv ops cap)) eqn:Ec; cbn [rc_ok negb rc_eqb orb snd].
    + destruct (fr_rc (io_flush ops cap)) eqn:Ef; cbn [rc_ok negb rc_eqb orb snd]; try reflexivity.
      * destruct (cr_inleft (io_conv ops cap) =? 0); reflexivity.
      * recur IH cap.
    + recur IH cap.
    + reflexivity.
    + reflexivity.
    + reflexivity.
Qed.

Lemma src_encode_dl_eq : forall ops input fuel, input <> [] ->
  src_iconv_encode_dl ops fuel input = of_enc (snd (iconv_encode ops true input fuel)).
Proof.
  intros ops input fuel Hne. unfold src_iconv_encode_dl. destruct input as [|c r]; [congruence|].
  cbn [iconv_encode negb]. destruct (first_surrogate 0 (c :: r)); [reflexivity|].
  rewrite Z.eqb_refl. cbn [negb].
  destruct (io_open_ok ops); cbn [rc_of_bool rc_ok negb snd]; [|reflexivity].
  cbv zeta. rewrite (src_encode_dl_loop_eq ops (c :: r) fuel _ O) by lia.
  destruct (io_close_ok ops); cbn [rc_of_bool rc_ok negb pfinally snd]; reflexivity.
Qed.

Lemma src_encode_eq : forall ops input strict fuel,
  src_iconv_encode ops fuel input strict = of_enc (snd (iconv_encode ops strict input fuel)).
Proof.
  intros ops input strict fuel. unfold src_iconv_encode. destruct input as [|c r] eqn:Ei; [reflexivity|].
  replace (Z.of_nat (length (c :: r)) =? 0) with false by (symmetry; apply Z.eqb_neq; cbn [length]; lia).
  destruct strict; cbn [negb].
  - rewrite src_encode_dl_eq by discriminate. reflexivity.
  - reflexivity.
Qed.

(* ---------- the number of doublings: the model's counter is the number of iterations that ended in `continue` ----------
   (the source has no such counter; this is a statement about the model alone, used to read C20_iconv_*_terminates
   on the translated loop: with fuel k+1 the translated loop does not return PFuel, so it doubled at most k times) *)
Lemma of_iconv_fuel : forall mk r, of_iconv mk r = PFuel <-> r = Crash COutOfFuel.
Proof.
  intros mk [out|[b e]|c]; cbn [of_iconv]; split; intros H; try discriminate; try reflexivity.
  - destruct c; cbn in H; try discriminate. reflexivity.
  - injection H as ->. reflexivity.
Qed.

(* the termination / position theorem of Proofs/Iconv.v read on the translated decode() *)
From I18n Require Import Spec.Iconv Proofs.Iconv.
Lemma src_decode_terminates : forall ops input need k fuel,
  let n := Z.of_nat (length input) in
  iconv_contract ops n 1 4 need -> n < size_t_max -> 2 * need <= size_t_max ->
  io_open_ok ops = true -> need <= Z.max n 1 * 2 ^ Z.of_nat k -> (k < fuel)%nat ->
  (exists out, src_iconv_decode ops fuel input true = PRet out) \/
  (exists b e, src_iconv_decode ops fuel input true = PRaise (PUnicodeDecodeError b e) /\ 0 <= b < e /\ e <= n).
Proof.
  intros ops input need k fuel n Hc Hn Hneed Hopen Hk Hf. rewrite src_decode_eq.
  destruct (iconv_decode_spec ops input need k fuel Hc Hn Hneed Hopen Hk Hf) as [_ [(out & ->)|(b & e & -> & H)]].
  - left. exists out. reflexivity.
  - right. exists b, e. split; [reflexivity|exact H].
Qed.

(* check_messages: per-msg_entry rules, the loop over the file, absence of crashes. *)
From Coq Require Import List NArith ZArith Bool Lia ZifyBool ZifyN Sorted.
From I18n Require Import Lib.Outcome Model.IntExpr Model.PluralForms Model.Messages Spec.Messages
  Proofs.MessagesLib Proofs.MessagesFlags.
Import ListNotations.
Local Open Scope N_scope.

Definition hp_of (e : msg_entry) : bool := match me_plural e with Some _ => true | None => false end.

Lemma In_if {A} (c : bool) (x d : A) : In d (if c then [x] else []) <-> c = true /\ d = x.
Proof. destruct c; cbn; intuition congruence. Qed.

(* ------------------------------------------------------------------ *)
(* model predicates = documented predicates                             *)

Lemma has_msgstr_plural_spec e : has_msgstr_plural e = true <-> translated_plural e.
Proof.
  unfold has_msgstr_plural, translated_plural. rewrite existsb_exists. split.
  - intros [s [H1 H2]]. exists s. split; auto. apply negb_true_iff in H2. apply is_nil_false in H2. auto.
  - intros [s [H1 H2]]. exists s. split; auto. apply negb_true_iff. apply is_nil_false. auto.
Qed.
Lemma has_msgstr_spec e : has_msgstr e = true <-> me_msgstr e <> [].
Proof. unfold has_msgstr. rewrite negb_true_iff. apply is_nil_false. Qed.

Lemma tr_strings_In e s : In s (tr_strings e) <-> translation e s.
Proof.
  unfold tr_strings, translation. rewrite in_app_iff. split.
  - intros [H|H].
    + destruct (has_msgstr e) eqn:E; [|contradiction]. destruct H as [<-|[]]. left. split; auto. apply has_msgstr_spec; auto.
    + destruct (has_msgstr_plural e) eqn:E; [|contradiction]. right. split; auto. apply has_msgstr_plural_spec; auto.
  - intros [[-> H]|[H1 H2]].
    + left. apply has_msgstr_spec in H. rewrite H. left. reflexivity.
    + right. apply has_msgstr_plural_spec in H2. rewrite H2. exact H1.
Qed.
Lemma nl_strings_In fz e s : In s (nl_strings fz e) <-> me_plural e = Some s \/ (fz = false /\ translation e s).
Proof.
  unfold nl_strings. rewrite in_app_iff. fold (tr_strings e). rewrite <- tr_strings_In.
  destruct (me_plural e) as [p|]; destruct fz; cbn; intuition congruence.
Qed.
Lemma starts_nl_spec s : starts_nl s = true <-> leading_nl s.
Proof.
  unfold starts_nl, leading_nl. destruct s as [|c r]; [split; [discriminate|intros [r H]; discriminate]|].
  rewrite N.eqb_eq. split; [intros ->; eauto|intros [r' H]; congruence].
Qed.
Lemma ends_nl_spec s : ends_nl s = true <-> trailing_nl s.
Proof.
  unfold ends_nl, trailing_nl. rewrite starts_nl_spec. unfold leading_nl. split.
  - intros [r H]. exists (rev r). rewrite <- (rev_involutive s), H. reflexivity.
  - intros [r ->]. exists (rev r). rewrite rev_app_distr. reflexivity.
Qed.

(* ------------------------------------------------------------------ *)
(* shapes of the state-dependent and oracle-dependent parts             *)

Lemma xml_diags_inv cfg fz e xd : xml_diags cfg fz e = Ok xd -> forall d, In d xd ->
  exists m, d = MMalformedXml m /\ c_encoding cfg = true
    /\ ((c_xml cfg (me_msgid e) = Some m /\ c_template cfg = true)
        \/ (c_xml cfg (me_msgid e) = None /\ fz = false /\ me_msgstr e <> [] /\ c_xml cfg (me_msgstr e) = Some m)).
Proof.
  unfold xml_diags. destruct (c_encoding cfg); cbn [negb]; cbv iota; [|intros H; inversion H; contradiction].
  intros H. apply obind_ok in H. destruct H as [r [Hr H]].
  unfold xml_check in Hr. inversion Hr; subst. clear Hr.
  destruct (c_xml cfg (me_msgid e)) as [m|] eqn:E1.
  - inversion H; subst. destruct (c_template cfg); [|contradiction]. intros d [<-|[]]. eauto 8.
  - destruct fz; [inversion H; contradiction|].
    destruct (is_nil (me_msgstr e)) eqn:E2; [inversion H; contradiction|]. apply is_nil_false in E2.
    apply obind_ok in H. destruct H as [r2 [Hr2 H]].
    unfold xml_check in Hr2. inversion Hr2; subst.
    inversion H; subst. destruct (c_xml cfg (me_msgstr e)) as [m|] eqn:E3; [|contradiction].
    intros d [<-|[]]. exists m. split; auto. split; auto.
Qed.

Lemma unusual_loop_inv cfg muc : forall strs found ud found', unusual_loop cfg muc found strs = Ok (ud, found') ->
  forall d, In d ud -> exists cs, d = MUnusual cs /\ cs <> []
    /\ forall c, In c cs -> ~ In c muc /\ ~ In c found /\ exists s, In s strs /\ In c (find_unusual (c_isword cfg) s).
Proof.
  induction strs as [|s strs IH]; cbn [unusual_loop]; intros found ud found' H.
  - inversion H; subst. contradiction.
  - set (uc := sort_dedup N.compare (filter (fun c => negb (memN c muc) && negb (memN c found)) (find_unusual (c_isword cfg) s))) in *.
    destruct (is_nil uc) eqn:E.
    + intros d Hd. destruct (IH _ _ _ H d Hd) as [cs [H1 [H2 H3]]]. exists cs. split; auto. split; auto.
      intros c Hc. destruct (H3 c Hc) as [A [B [s' [C D]]]]. split; auto. split; auto. exists s'. split; [right|]; auto.
    + destruct (forallb (name_ok (c_ctlnames cfg)) uc); cbn [negb] in H; [|discriminate].
      apply obind_ok in H. destruct H as [[ud2 f2] [H1 H2]]. inversion H2; subst. cbn [fst snd].
      intros d [<-|Hd].
      * exists uc. split; auto. split; [apply is_nil_false; auto|].
        intros c Hc. unfold uc in Hc. apply (proj1 (N_sort_In _ _)) in Hc. apply filter_In in Hc. destruct Hc as [Hc1 Hc2].
        apply andb_true_iff in Hc2. destruct Hc2 as [Hm Hf]. apply negb_true_iff in Hm, Hf.
        split; [intros HH; apply memN_In in HH; congruence|]. split; [intros HH; apply memN_In in HH; congruence|].
        exists s. split; [left|]; auto.
      * destruct (IH _ _ _ H1 d Hd) as [cs [A [B C]]]. exists cs. split; auto. split; auto.
        intros c Hc. destruct (C c Hc) as [C1 [C2 [s' [C3 C4]]]]. split; auto. split.
        -- intros HH. apply C2. apply in_or_app. auto.
        -- exists s'. split; [right|]; auto.
Qed.

(* ------------------------------------------------------------------ *)
(* one msg_entry                                                            *)

Definition is_simple (d : mdiag) : bool :=
  match d with
  | MDuplicateDef | MTranslationInTemplate | MStrayPrevious | MLeadingNL | MTrailingNL | MConflictMarker _ | MPartial => true
  | _ => false
  end.

Definition simple_rule (cfg : config) (seen : list key) (e : msg_entry) (d : mdiag) : Prop :=
  match d with
  | MDuplicateDef => count_key (key_of e) seen = 1%nat
  | MTranslationInTemplate => c_template cfg = true /\ translated e
  | MStrayPrevious => me_previous e = true /\ ~ fuzzy e
  | MLeadingNL => exists s, considered e s /\ ~ (leading_nl s <-> leading_nl (me_msgid e))
  | MTrailingNL => exists s, considered e s /\ ~ (trailing_nl s <-> trailing_nl (me_msgid e))
  | MConflictMarker m => ~ fuzzy e /\ first_marker (tr_strings e) = Some m
  | MPartial => ~ fuzzy e /\ partially_translated e
  | _ => False
  end.

Lemma check_entry_inv cfg seen found e ds found' : check_entry cfg seen found e = Ok (ds, found') ->
  exists fd info xd ud,
    check_flags cfg (hp_of e) (me_flags e) = Ok (fd, info)
    /\ (if xml_trigger (me_comment e) then xml_diags cfg (fi_fuzzy info) e else Ok []) = Ok xd
    /\ (if c_encoding cfg then
          unusual_loop cfg (find_unusual (c_isword cfg) (me_msgid e)
                            ++ find_unusual (c_isword cfg) (match me_plural e with Some p => p | None => [] end))
                       found (tr_strings e)
        else Ok ([], found)) = Ok (ud, found')
    /\ let fz := fi_fuzzy info in
       ds = fd ++ dispatch (fi_formats info) ++ xd
            ++ (if Nat.eqb (count_key (key_of e) seen) 1 then [MDuplicateDef] else [])
            ++ (if c_template cfg && (has_msgstr e || has_msgstr_plural e) then [MTranslationInTemplate] else [])
            ++ (if me_previous e && negb fz then [MStrayPrevious] else [])
            ++ (if existsb (fun s => negb (Bool.eqb (starts_nl s) (starts_nl (me_msgid e)))) (nl_strings fz e) then [MLeadingNL] else [])
            ++ (if existsb (fun s => negb (Bool.eqb (ends_nl s) (ends_nl (me_msgid e)))) (nl_strings fz e) then [MTrailingNL] else [])
            ++ ud
            ++ (if fz then [] else match first_marker (tr_strings e) with Some m => [MConflictMarker m] | None => [] end)
            ++ (if negb fz && has_msgstr_plural e && existsb (fun s => is_nil s) (me_msgstr_plural e) then [MPartial] else []).
Proof.
  unfold check_entry. fold (hp_of e). fold (tr_strings e). intros H.
  apply obind_ok in H. destruct H as [[fd info] [H1 H]].
  apply obind_ok in H. destruct H as [xd [H2 H]].
  apply obind_ok in H. destruct H as [[ud f2] [H3 H]].
  cbn [fst snd] in *. inversion H; subst. exists fd, info, xd, ud. auto.
Qed.

Lemma bool_iff_neq (a b : bool) (P Q : Prop) : (a = true <-> P) -> (b = true <-> Q) ->
  (negb (Bool.eqb a b) = true <-> ~ (P <-> Q)).
Proof.
  intros [A1 A2] [B1 B2]. destruct a, b; cbn; split; intros H; try discriminate; try reflexivity.
  - exfalso. apply H. tauto.
  - intros [C1 C2]. assert (E : false = true) by tauto. discriminate E.
  - intros [C1 C2]. assert (E : false = true) by tauto. discriminate E.
  - exfalso. apply H. split; intros HH; [apply A2 in HH|apply B2 in HH]; discriminate HH.
Qed.

Lemma entry_simple cfg seen found e r d : check_entry cfg seen found e = Ok r -> is_simple d = true ->
  (In d (fst r) <-> simple_rule cfg seen e d).
Proof.
  destruct r as [ds found']. intros H Hs. cbn [fst].
  destruct (check_entry_inv _ _ _ _ _ _ H) as [fd [info [xd [ud [Hf [Hx [Hu Hds]]]]]]].
  pose proof (flags_fuzzy_iff _ _ _ _ _ Hf) as Hfz. fold (fuzzy e) in Hfz.
  assert (Nfd : ~ In d fd).
  { intros Hin. apply (flags_shape _ _ _ _ _ Hf) in Hin.
    destruct Hin as [->|[[? ->]|[[? ->]|[[? ->]|[[? [? ->]]|[? [? ->]]]]]]]; discriminate. }
  assert (Ndi : ~ In d (dispatch (fi_formats info))).
  { unfold dispatch. intros Hin. apply in_map_iff in Hin. destruct Hin as [? [<- _]]. discriminate. }
  assert (Nxd : ~ In d xd).
  { intros Hin. destruct (xml_trigger (me_comment e)); [|inversion Hx; subst; contradiction].
    destruct (xml_diags_inv _ _ _ _ Hx _ Hin) as [m [-> _]]. discriminate. }
  assert (Nud : ~ In d ud).
  { intros Hin. destruct (c_encoding cfg); [|inversion Hu; subst; contradiction].
    destruct (unusual_loop_inv _ _ _ _ _ _ Hu _ Hin) as [cs [-> _]]. discriminate. }
  cbn zeta in Hds. rewrite Hds. rewrite !in_app_iff, !In_if.
  assert (Hnf : fi_fuzzy info = false <-> ~ fuzzy e).
  { rewrite <- Hfz. destruct (fi_fuzzy info); split; congruence. }
  destruct d; try discriminate; cbn [simple_rule].
  - (* duplicate *) rewrite Nat.eqb_eq. split; [intros HH|intros HH; right; right; right; left; auto].
    repeat (destruct HH as [HH|HH]; try tauto; try (destruct HH as [_ HH]; discriminate HH)).
    destruct (fi_fuzzy info); [contradiction|]. destruct (first_marker (tr_strings e)); [destruct HH as [HH|[]]; discriminate|contradiction].
  - (* template *)
    assert (HT : c_template cfg && (has_msgstr e || has_msgstr_plural e) = true <-> c_template cfg = true /\ translated e).
    { rewrite andb_true_iff, orb_true_iff, has_msgstr_spec, has_msgstr_plural_spec. unfold translated, translation. split.
      - intros [A [B|[s [B1 B2]]]]; split; auto; [exists (me_msgstr e); left; auto|exists s; right; split; auto; exists s; auto].
      - intros [A [s [[-> B]|[B1 B2]]]]; split; auto. }
    rewrite <- HT. split; [intros HH|intros HH; right; right; right; right; left; auto].
    repeat (destruct HH as [HH|HH]; try tauto; try (destruct HH as [_ HH]; discriminate HH)).
    destruct (fi_fuzzy info); [contradiction|]. destruct (first_marker (tr_strings e)); [destruct HH as [HH|[]]; discriminate|contradiction].
  - (* stray *)
    assert (HT : me_previous e && negb (fi_fuzzy info) = true <-> me_previous e = true /\ ~ fuzzy e).
    { rewrite andb_true_iff, negb_true_iff, Hnf. tauto. }
    rewrite <- HT. split; [intros HH|intros HH; do 5 right; left; auto].
    repeat (destruct HH as [HH|HH]; try tauto; try (destruct HH as [_ HH]; discriminate HH)).
    destruct (fi_fuzzy info); [contradiction|]. destruct (first_marker (tr_strings e)); [destruct HH as [HH|[]]; discriminate|contradiction].
  - (* leading newline *)
    assert (HT : existsb (fun s => negb (Bool.eqb (starts_nl s) (starts_nl (me_msgid e)))) (nl_strings (fi_fuzzy info) e) = true
                 <-> exists s, considered e s /\ ~ (leading_nl s <-> leading_nl (me_msgid e))).
    { rewrite existsb_exists. unfold considered. split; intros [s [A B]]; exists s.
      - apply nl_strings_In in A. rewrite (bool_iff_neq _ _ _ _ (starts_nl_spec s) (starts_nl_spec (me_msgid e))) in B.
        split; auto. rewrite <- Hnf. exact A.
      - split; [apply nl_strings_In; rewrite Hnf; exact A|].
        apply (bool_iff_neq _ _ _ _ (starts_nl_spec s) (starts_nl_spec (me_msgid e))). exact B. }
    rewrite <- HT. split; [intros HH|intros HH; do 6 right; left; auto].
    repeat (destruct HH as [HH|HH]; try tauto; try (destruct HH as [_ HH]; discriminate HH)).
    destruct (fi_fuzzy info); [contradiction|]. destruct (first_marker (tr_strings e)); [destruct HH as [HH|[]]; discriminate|contradiction].
  - (* trailing newline *)
    assert (HT : existsb (fun s => negb (Bool.eqb (ends_nl s) (ends_nl (me_msgid e)))) (nl_strings (fi_fuzzy info) e) = true
                 <-> exists s, considered e s /\ ~ (trailing_nl s <-> trailing_nl (me_msgid e))).
    { rewrite existsb_exists. unfold considered. split; intros [s [A B]]; exists s.
      - apply nl_strings_In in A. rewrite (bool_iff_neq _ _ _ _ (ends_nl_spec s) (ends_nl_spec (me_msgid e))) in B.
        split; auto. rewrite <- Hnf. exact A.
      - split; [apply nl_strings_In; rewrite Hnf; exact A|].
        apply (bool_iff_neq _ _ _ _ (ends_nl_spec s) (ends_nl_spec (me_msgid e))). exact B. }
    rewrite <- HT. split; [intros HH|intros HH; do 7 right; left; auto].
    repeat (destruct HH as [HH|HH]; try tauto; try (destruct HH as [_ HH]; discriminate HH)).
    destruct (fi_fuzzy info); [contradiction|]. destruct (first_marker (tr_strings e)); [destruct HH as [HH|[]]; discriminate|contradiction].
  - (* conflict marker *)
    rewrite <- Hnf. split.
    + intros HH. repeat (destruct HH as [HH|HH]; try tauto; try (destruct HH as [_ HH]; discriminate HH)).
      destruct (fi_fuzzy info); [contradiction|]. split; auto.
      destruct (first_marker (tr_strings e)); [destruct HH as [HH|[]]; congruence|contradiction].
    + intros [A B]. do 9 right. left. rewrite A, B. left. reflexivity.
  - (* partial *)
    assert (HT : negb (fi_fuzzy info) && has_msgstr_plural e && existsb (fun s => is_nil s) (me_msgstr_plural e) = true
                 <-> ~ fuzzy e /\ partially_translated e).
    { rewrite !andb_true_iff, negb_true_iff, Hnf, has_msgstr_plural_spec, existsb_exists. unfold partially_translated. split.
      - intros [[A B] [s [C D]]]. apply is_nil_true in D. subst. tauto.
      - intros [A [B C]]. split; auto. exists []. auto. }
    rewrite <- HT. split; [intros HH|intros HH; do 10 right; auto].
    repeat (destruct HH as [HH|HH]; try tauto; try (destruct HH as [_ HH]; discriminate HH)).
    destruct (fi_fuzzy info); [contradiction|]. destruct (first_marker (tr_strings e)); [destruct HH as [HH|[]]; discriminate|contradiction].
Qed.

(* ------------------------------------------------------------------ *)
(* the loop over the file                                               *)

Definition seen_at (seen : list key) (es : list msg_entry) (k : nat) : list key :=
  rev (map key_of (filter live (firstn k es))) ++ seen.

Lemma seen_at_cons_live seen e es k : live e = true -> seen_at seen (e :: es) (S k) = seen_at (key_of e :: seen) es k.
Proof. intros H. unfold seen_at. cbn [firstn filter]. rewrite H. cbn [map rev]. rewrite <- app_assoc. reflexivity. Qed.
Lemma seen_at_cons_dead seen e es k : live e = false -> seen_at seen (e :: es) (S k) = seen_at seen es k.
Proof. intros H. unfold seen_at. cbn [firstn filter]. rewrite H. reflexivity. Qed.

Lemma run_step cfg i seen found e es :
  run cfg i seen found (e :: es) =
  if live e then
    do x <- check_entry cfg seen found e;
    do y <- run cfg (S i) (key_of e :: seen) (snd x) es;
    Ok (map (AtMsg i) (fst x) ++ fst y, snd y)
  else run cfg (S i) seen found es.
Proof. cbn [run]. unfold live. destruct (me_obsolete e); cbn; [reflexivity|]. destruct (is_header e); reflexivity. Qed.

Lemma run_sound cfg : forall es i seen found ds seen', run cfg i seen found es = Ok (ds, seen') ->
  forall j d, In (AtMsg j d) ds -> exists k e fnd r, j = (i + k)%nat /\ nth_error es k = Some e /\ live e = true
     /\ check_entry cfg (seen_at seen es k) fnd e = Ok r /\ In d (fst r).
Proof.
  induction es as [|e es IH]; intros i seen found ds seen' H j d Hin.
  - cbn in H. inversion H; subst. contradiction.
  - rewrite run_step in H. destruct (live e) eqn:L.
    + apply obind_ok in H. destruct H as [x [Hx H]]. apply obind_ok in H. destruct H as [y [Hy H]].
      inversion H; subst. apply in_app_or in Hin. destruct Hin as [Hin|Hin].
      * apply in_map_iff in Hin. destruct Hin as [d' [E Hd]]. inversion E; subst.
        exists 0%nat, e, found, x. rewrite Nat.add_0_r. cbn. auto.
      * destruct y as [dy sy]. destruct (IH _ _ _ _ _ Hy j d Hin) as [k [e' [fnd [r [A [B [C [D E]]]]]]]].
        exists (S k), e', fnd, r. rewrite seen_at_cons_live by auto. repeat split; auto. lia.
    + destruct (IH _ _ _ _ _ H j d Hin) as [k [e' [fnd [r [A [B [C [D E]]]]]]]].
      exists (S k), e', fnd, r. rewrite seen_at_cons_dead by auto. repeat split; auto. lia.
Qed.

Lemma run_complete cfg : forall es i seen found ds seen', run cfg i seen found es = Ok (ds, seen') ->
  forall k e, nth_error es k = Some e -> live e = true ->
  exists fnd r, check_entry cfg (seen_at seen es k) fnd e = Ok r /\ forall d, In d (fst r) -> In (AtMsg (i + k) d) ds.
Proof.
  induction es as [|e0 es IH]; intros i seen found ds seen' H k e Hk Hl.
  - destruct k; discriminate.
  - rewrite run_step in H. destruct (live e0) eqn:L.
    + apply obind_ok in H. destruct H as [x [Hx H]]. apply obind_ok in H. destruct H as [y [Hy H]].
      inversion H; subst. destruct k as [|k].
      * cbn in Hk. inversion Hk; subst. exists found, x. split; [exact Hx|]. intros d Hd.
        rewrite Nat.add_0_r. apply in_or_app. left. apply in_map. exact Hd.
      * cbn in Hk. destruct y as [dy sy]. destruct (IH _ _ _ _ _ Hy k e Hk Hl) as [fnd [r [A B]]].
        exists fnd, r. rewrite seen_at_cons_live by auto. split; auto. intros d Hd.
        apply in_or_app. right. replace (i + S k)%nat with (S i + k)%nat by lia. apply B. exact Hd.
    + destruct k as [|k]; [cbn in Hk; inversion Hk; subst; congruence|]. cbn in Hk.
      destruct (IH _ _ _ _ _ H k e Hk Hl) as [fnd [r [A B]]].
      exists fnd, r. rewrite seen_at_cons_dead by auto. split; auto. intros d Hd.
      replace (i + S k)%nat with (S i + k)%nat by lia. apply B. exact Hd.
Qed.

Lemma run_seen cfg : forall es i seen found ds seen', run cfg i seen found es = Ok (ds, seen') ->
  seen' = seen_at seen es (length es) /\ ~ In EmptyFile ds.
Proof.
  induction es as [|e es IH]; intros i seen found ds seen' H.
  - cbn in H. inversion H; subst. split; [reflexivity|auto].
  - rewrite run_step in H. destruct (live e) eqn:L.
    + apply obind_ok in H. destruct H as [x [Hx H]]. apply obind_ok in H. destruct H as [[dy sy] [Hy H]].
      inversion H; subst. destruct (IH _ _ _ _ _ Hy) as [A B]. cbn [length]. rewrite seen_at_cons_live by auto.
      split; auto. cbn [fst snd]. intros HH. apply in_app_or in HH. destruct HH as [HH|HH]; [|auto].
      apply in_map_iff in HH. destruct HH as [? [HH _]]. discriminate.
    + destruct (IH _ _ _ _ _ H) as [A B]. cbn [length]. rewrite seen_at_cons_dead by auto. auto.
Qed.

Lemma check_messages_inv cfg cat ds : check_messages cfg cat = Ok ds ->
  exists ds0 seen', run cfg 0 [] [] cat = Ok (ds0, seen')
    /\ ds = ds0 ++ (if is_nil seen' then (if c_binary cfg && c_hidden cfg then [] else [EmptyFile]) else []).
Proof.
  unfold check_messages. intros H. apply obind_ok in H. destruct H as [[ds0 seen'] [H1 H2]].
  inversion H2; subst. eauto.
Qed.

Lemma at_msg_in cfg (cat : list msg_entry) ds ds0 (seen' : list key) j d :
  ds = ds0 ++ (if is_nil seen' then (if c_binary cfg && c_hidden cfg then [] else [EmptyFile]) else []) ->
  (In (AtMsg j d) ds <-> In (AtMsg j d) ds0).
Proof.
  intros ->. rewrite in_app_iff. split; [|auto]. intros [H|H]; auto.
  destruct (is_nil seen'); [|contradiction]. destruct (c_binary cfg && c_hidden cfg); [contradiction|].
  destruct H as [H|[]]. discriminate.
Qed.

(* the master theorem for the tags whose condition does not involve the flag analysis or an oracle *)
Theorem simple_tag_iff cfg cat ds j d : check_messages cfg cat = Ok ds -> is_simple d = true ->
  (In (AtMsg j d) ds <-> exists e, nth_error cat j = Some e /\ live e = true /\ simple_rule cfg (seen_at [] cat j) e d).
Proof.
  intros H Hs. destruct (check_messages_inv _ _ _ H) as [ds0 [seen' [Hr Hds]]].
  rewrite (at_msg_in _ cat _ _ _ j d Hds). split.
  - intros Hin. destruct (run_sound _ _ _ _ _ _ _ Hr j d Hin) as [k [e [fnd [r [A [B [C [D E]]]]]]]].
    cbn in A. subst. exists e. split; auto. split; auto. apply (entry_simple _ _ _ _ _ _ D Hs). exact E.
  - intros [e [A [B C]]]. destruct (run_complete _ _ _ _ _ _ _ Hr j e A B) as [fnd [r [D E]]].
    apply (E d). apply (entry_simple _ _ _ _ _ _ D Hs). exact C.
Qed.

(* flag tags: exactly the output of the flag analysis of that msg_entry *)
Definition is_flag_tag (d : mdiag) : bool :=
  match d with
  | MRangeNoPlural | MInvalidRange _ | MUnknownFlag _ | MDupFlag _ | MConflictFlags _ _ | MRedundantFlag _ _ => true
  | _ => false
  end.

Lemma entry_flag_tag cfg seen found e r d : check_entry cfg seen found e = Ok r -> is_flag_tag d = true ->
  exists fd info, check_flags cfg (hp_of e) (me_flags e) = Ok (fd, info) /\ (In d (fst r) <-> In d fd).
Proof.
  destruct r as [ds found']. intros H Hs. cbn [fst].
  destruct (check_entry_inv _ _ _ _ _ _ H) as [fd [info [xd [ud [Hf [Hx [Hu Hds]]]]]]].
  exists fd, info. split; auto. cbn zeta in Hds. rewrite Hds. rewrite !in_app_iff, !In_if. split; [|auto].
  intros HH. destruct HH as [HH|HH]; auto. exfalso.
  destruct HH as [HH|HH].
  { unfold dispatch in HH. apply in_map_iff in HH. destruct HH as [? [<- _]]. discriminate. }
  destruct HH as [HH|HH].
  { destruct (xml_trigger (me_comment e)); [|inversion Hx; subst; contradiction].
    destruct (xml_diags_inv _ _ _ _ Hx _ HH) as [m [-> _]]. discriminate. }
  repeat (destruct HH as [HH|HH]; try (destruct HH as [_ HH]; subst; discriminate)).
  - destruct (c_encoding cfg); [|inversion Hu; subst; contradiction].
    destruct (unusual_loop_inv _ _ _ _ _ _ Hu _ HH) as [cs [-> _]]. discriminate.
  - destruct (fi_fuzzy info); [contradiction|]. destruct (first_marker (tr_strings e)); [destruct HH as [<-|[]]; discriminate|contradiction].
Qed.

Theorem flag_tag_iff cfg cat ds j d : check_messages cfg cat = Ok ds -> is_flag_tag d = true ->
  (In (AtMsg j d) ds <-> exists e fd info, nth_error cat j = Some e /\ live e = true
       /\ check_flags cfg (hp_of e) (me_flags e) = Ok (fd, info) /\ In d fd).
Proof.
  intros H Hs. destruct (check_messages_inv _ _ _ H) as [ds0 [seen' [Hr Hds]]].
  rewrite (at_msg_in _ cat _ _ _ j d Hds). split.
  - intros Hin. destruct (run_sound _ _ _ _ _ _ _ Hr j d Hin) as [k [e [fnd [r [A [B [C [D E]]]]]]]].
    cbn in A. subst. destruct (entry_flag_tag _ _ _ _ _ _ D Hs) as [fd [info [F1 F2]]].
    exists e, fd, info. repeat split; auto. apply F2. exact E.
  - intros [e [fd [info [A [B [C D]]]]]]. destruct (run_complete _ _ _ _ _ _ _ Hr j e A B) as [fnd [r [E F]]].
    destruct (entry_flag_tag _ _ _ _ _ _ E Hs) as [fd' [info' [F1 F2]]]. rewrite C in F1. inversion F1; subst.
    apply (F d). apply F2. exact D.
Qed.

(* oracle-dependent tags: soundness *)
Theorem malformed_xml_sound cfg cat ds j m : check_messages cfg cat = Ok ds -> In (AtMsg j (MMalformedXml m)) ds ->
  exists e, nth_error cat j = Some e /\ live e = true /\ xml_trigger (me_comment e) = true /\ c_encoding cfg = true
    /\ ((c_xml cfg (me_msgid e) = Some m /\ c_template cfg = true)
        \/ (c_xml cfg (me_msgid e) = None /\ ~ fuzzy e /\ me_msgstr e <> [] /\ c_xml cfg (me_msgstr e) = Some m)).
Proof.
  intros H Hin. destruct (check_messages_inv _ _ _ H) as [ds0 [seen' [Hr Hds]]].
  rewrite (at_msg_in _ cat _ _ _ j _ Hds) in Hin.
  destruct (run_sound _ _ _ _ _ _ _ Hr j _ Hin) as [k [e [fnd [[r1 r2] [A [B [C [D E]]]]]]]]. cbn in A. subst. cbn [fst] in E.
  destruct (check_entry_inv _ _ _ _ _ _ D) as [fd [info [xd [ud [Hf [Hx [Hu Hds']]]]]]].
  pose proof (flags_fuzzy_iff _ _ _ _ _ Hf) as Hfz. fold (fuzzy e) in Hfz.
  exists e. split; auto. split; auto.
  cbn zeta in Hds'. rewrite Hds' in E. rewrite !in_app_iff, !In_if in E.
  destruct E as [E|E].
  { apply (flags_shape _ _ _ _ _ Hf) in E. destruct E as [E|[[? E]|[[? E]|[[? E]|[[? [? E]]|[? [? E]]]]]]]; discriminate. }
  destruct E as [E|E].
  { unfold dispatch in E. apply in_map_iff in E. destruct E as [? [E _]]. discriminate. }
  destruct E as [E|E].
  { destruct (xml_trigger (me_comment e)); [|inversion Hx; subst; contradiction]. split; auto.
    destruct (xml_diags_inv _ _ _ _ Hx _ E) as [m' [E1 [E2 E3]]]. inversion E1; subst. split; auto.
    destruct E3 as [E3|[E3 [E4 [E5 E6]]]]; [left; auto|right]. repeat split; auto.
    rewrite <- Hfz. rewrite E4. discriminate. }
  exfalso. repeat (destruct E as [E|E]; try (destruct E as [_ E]; discriminate)).
  - destruct (c_encoding cfg); [|inversion Hu; subst; contradiction].
    destruct (unusual_loop_inv _ _ _ _ _ _ Hu _ E) as [cs [E1 _]]. discriminate.
  - destruct (fi_fuzzy info); [contradiction|]. destruct (first_marker (tr_strings e)); [destruct E as [E|[]]; discriminate|contradiction].
Qed.

Theorem unusual_sound cfg cat ds j cs : check_messages cfg cat = Ok ds -> In (AtMsg j (MUnusual cs)) ds ->
  exists e, nth_error cat j = Some e /\ live e = true /\ c_encoding cfg = true /\ cs <> []
    /\ forall c, In c cs ->
         (exists s, translation e s /\ In c (find_unusual (c_isword cfg) s))
         /\ ~ In c (find_unusual (c_isword cfg) (me_msgid e))
         /\ ~ In c (find_unusual (c_isword cfg) (match me_plural e with Some p => p | None => [] end)).
Proof.
  intros H Hin. destruct (check_messages_inv _ _ _ H) as [ds0 [seen' [Hr Hds]]].
  rewrite (at_msg_in _ cat _ _ _ j _ Hds) in Hin.
  destruct (run_sound _ _ _ _ _ _ _ Hr j _ Hin) as [k [e [fnd [[r1 r2] [A [B [C [D E]]]]]]]]. cbn in A. subst. cbn [fst] in E.
  destruct (check_entry_inv _ _ _ _ _ _ D) as [fd [info [xd [ud [Hf [Hx [Hu Hds']]]]]]].
  exists e. split; auto. split; auto.
  cbn zeta in Hds'. rewrite Hds' in E. rewrite !in_app_iff, !In_if in E.
  destruct E as [E|E].
  { apply (flags_shape _ _ _ _ _ Hf) in E. destruct E as [E|[[? E]|[[? E]|[[? E]|[[? [? E]]|[? [? E]]]]]]]; discriminate. }
  destruct E as [E|E].
  { unfold dispatch in E. apply in_map_iff in E. destruct E as [? [E _]]. discriminate. }
  destruct E as [E|E].
  { exfalso. destruct (xml_trigger (me_comment e)); [|inversion Hx; subst; contradiction].
    destruct (xml_diags_inv _ _ _ _ Hx _ E) as [m' [E1 _]]. discriminate. }
  repeat (destruct E as [E|E]; try (destruct E as [_ E]; discriminate)).
  - destruct (c_encoding cfg); [|inversion Hu; subst; contradiction]. split; auto.
    destruct (unusual_loop_inv _ _ _ _ _ _ Hu _ E) as [cs' [E1 [E2 E3]]]. inversion E1; subst. split; auto.
    intros c Hc. destruct (E3 c Hc) as [F1 [F2 [s [F3 F4]]]]. split; [exists s; split; auto; apply tr_strings_In; auto|].
    split; intros HH; apply F1; apply in_or_app; auto.
  - exfalso. destruct (fi_fuzzy info); [contradiction|]. destruct (first_marker (tr_strings e)); [destruct E as [E|[]]; discriminate|contradiction].
Qed.

(* empty-file *)
Theorem empty_file_iff cfg cat ds : check_messages cfg cat = Ok ds ->
  (In EmptyFile ds <-> (forall e, In e cat -> live e = false) /\ ~ (c_binary cfg = true /\ c_hidden cfg = true)).
Proof.
  intros H. destruct (check_messages_inv _ _ _ H) as [ds0 [seen' [Hr Hds]]].
  destruct (run_seen _ _ _ _ _ _ _ Hr) as [Hs Hn]. rewrite Hds, in_app_iff.
  assert (E : is_nil seen' = true <-> forall e, In e cat -> live e = false).
  { rewrite Hs. unfold seen_at. rewrite app_nil_r, firstn_all. rewrite is_nil_true. split.
    - intros HH e He. destruct (live e) eqn:L; auto. exfalso.
      assert (Hin : In (key_of e) (rev (map key_of (filter live cat)))).
      { apply -> in_rev. apply in_map. apply filter_In. auto. }
      rewrite HH in Hin. contradiction.
    - intros HH. assert (F : filter live cat = []).
      { destruct (filter live cat) as [|x l] eqn:F; auto. exfalso.
        assert (Hx : In x (filter live cat)) by (rewrite F; left; auto). apply filter_In in Hx. destruct Hx as [Hx1 Hx2].
        rewrite (HH x Hx1) in Hx2. discriminate. }
      rewrite F. reflexivity. }
  split.
  - intros [HH|HH]; [contradiction|]. destruct (is_nil seen') eqn:E1; [|contradiction].
    split; [apply E; reflexivity|]. destruct (c_binary cfg && c_hidden cfg) eqn:E2; [contradiction|].
    intros [A B]. rewrite A, B in E2. discriminate.
  - intros [A B]. right. apply E in A. rewrite A. destruct (c_binary cfg && c_hidden cfg) eqn:E2; [|left; auto].
    apply andb_true_iff in E2. tauto.
Qed.

(* no event at the position of an obsolete msg_entry or of the header *)
Theorem dead_entries_silent cfg cat ds j d e : check_messages cfg cat = Ok ds -> nth_error cat j = Some e ->
  live e = false -> ~ In (AtMsg j d) ds.
Proof.
  intros H Hn Hl Hin. destruct (check_messages_inv _ _ _ H) as [ds0 [seen' [Hr Hds]]].
  rewrite (at_msg_in _ cat _ _ _ j _ Hds) in Hin.
  destruct (run_sound _ _ _ _ _ _ _ Hr j _ Hin) as [k [e' [fnd [r [A [B [C _]]]]]]]. cbn in A. subst.
  rewrite Hn in B. inversion B; subst. congruence.
Qed.

(* the counter: number of earlier definitions of the same message *)
Lemma count_key_seen_at cat j e : count_key (key_of e) (seen_at [] cat j) = earlier_definitions cat j e.
Proof.
  unfold count_key, seen_at, earlier_definitions. rewrite app_nil_r.
  generalize (firstn j cat). intros l.
  assert (G : forall l0 : list key, length (filter (key_eqb (key_of e)) (rev l0)) = length (filter (key_eqb (key_of e)) l0)).
  { induction l0 as [|x l0 IH]; cbn; auto. rewrite filter_app, app_length, IH. cbn. destruct (key_eqb (key_of e) x); cbn; lia. }
  rewrite G. induction l as [|x l IH]; cbn; auto.
  destruct (live x); cbn; [destruct (key_eqb (key_of e) (key_of x)); cbn; rewrite IH; reflexivity|exact IH].
Qed.

(* ------------------------------------------------------------------ *)
(* no crash                                                             *)

Definition ctl_complete (ctl : list N) : Prop := forall c, is_cc c = true -> memN c ctl = true.

Lemma parse_range_total s : exists r, parse_range 0 s = Ok r.
Proof.
  unfold parse_range. destruct (span is_digit (strip s)) as [d1 r1]. destruct (is_nil d1); eauto.
  destruct r1 as [|a [|b r2]]; eauto. destruct (N.eqb a 46 && N.eqb b 46); eauto.
  destruct (span is_digit r2) as [d2 r3]. destruct (is_nil d2 || negb (is_nil r3)); eauto.
  unfold max_digits_ok. cbn [N.eqb orb negb]. destruct (digits_value d1 <? digits_value d2)%Z; eauto.
Qed.
Lemma classify_total cfg f : c_maxd cfg = 0 -> exists cl, classify cfg f = Ok cl.
Proof.
  intros Hm. unfold classify. destruct (str_eqb f s_fuzzy); eauto. destruct (str_eqb f s_wrap); eauto.
  destruct (str_eqb f s_no_wrap); eauto. destruct (starts_with s_range f).
  - rewrite Hm. destruct (parse_range_total (skipn 6 f)) as [r ->]. cbn. eauto.
  - destruct (ends_with s_format f); eauto. destruct (str_eqb f s_markdown); eauto.
Qed.
Lemma classify_all_total cfg : c_maxd cfg = 0 -> forall l, exists items, classify_all cfg l = Ok items.
Proof.
  intros Hm. induction l as [|[f n] l [items IH]]; cbn; eauto.
  destruct (classify_total cfg f Hm) as [cl ->]. rewrite IH. cbn. eauto.
Qed.
Lemma check_flags_total cfg hp F : c_maxd cfg = 0 -> exists r, check_flags cfg hp F = Ok r.
Proof. intros Hm. unfold check_flags. destruct (classify_all_total cfg Hm (counter_sorted F)) as [items ->]. cbn. eauto. Qed.

Lemma xml_diags_total cfg fz e : exists xd, xml_diags cfg fz e = Ok xd.
Proof.
  unfold xml_diags, xml_check. destruct (negb (c_encoding cfg)); eauto. cbn.
  destruct (c_xml cfg (me_msgid e)); eauto. destruct fz; eauto. destruct (is_nil (me_msgstr e)); eauto.
Qed.
Lemma unusual_loop_total cfg muc : ctl_complete (c_ctlnames cfg) -> forall strs found, exists r, unusual_loop cfg muc found strs = Ok r.
Proof.
  intros Hc. induction strs as [|s strs IH]; intros found; cbn [unusual_loop]; eauto.
  match goal with |- context [is_nil ?u] => set (uc := u) end.
  destruct (is_nil uc); auto.
  assert (E : forallb (name_ok (c_ctlnames cfg)) uc = true).
  { apply forallb_forall. intros c _. unfold name_ok. destruct (is_cc c) eqn:E; auto. }
  rewrite E. cbn [negb]. destruct (IH (found ++ uc)) as [r ->]. cbn. eauto.
Qed.
Lemma check_entry_total cfg seen found e : c_maxd cfg = 0 -> ctl_complete (c_ctlnames cfg) ->
  exists r, check_entry cfg seen found e = Ok r.
Proof.
  intros Hm Hc. unfold check_entry.
  destruct (check_flags_total cfg (match me_plural e with Some _ => true | None => false end) (me_flags e) Hm) as [fr ->]. cbn [obind].
  assert (X : exists xd, (if xml_trigger (me_comment e) then xml_diags cfg (fi_fuzzy (snd fr)) e else Ok []) = Ok xd).
  { destruct (xml_trigger (me_comment e)); eauto. apply xml_diags_total. }
  destruct X as [xd ->]. cbn [obind].
  match goal with |- context [if c_encoding cfg then ?a else ?b] => assert (U : exists ud, (if c_encoding cfg then a else b) = Ok ud) end.
  { destruct (c_encoding cfg); eauto. apply unusual_loop_total; auto. }
  destruct U as [ud ->]. cbn [obind]. eauto.
Qed.
Theorem check_messages_total cfg cat : c_maxd cfg = 0 -> ctl_complete (c_ctlnames cfg) ->
  exists ds, check_messages cfg cat = Ok ds.
Proof.
  intros Hm Hc. unfold check_messages.
  assert (G : forall es i seen found, exists r, run cfg i seen found es = Ok r).
  { induction es as [|e es IH]; intros i seen found; [cbn; eauto|]. rewrite run_step.
    destruct (live e); [|apply IH].
    destruct (check_entry_total cfg seen found e Hm Hc) as [x ->]. cbn [obind].
    destruct (IH (S i) (key_of e :: seen) (snd x)) as [y ->]. cbn. eauto. }
  destruct (G cat 0%nat [] []) as [r ->]. cbn. eauto.
Qed.

(* ------------------------------------------------------------------ *)
(* a catalog that violates none of the rules                            *)

Definition clean_entry (cfg : config) (cat : list msg_entry) (j : nat) (e : msg_entry) : Prop :=
  earlier_definitions cat j e <> 1%nat
  /\ (c_template cfg = true -> ~ translated e)
  /\ (me_previous e = true -> fuzzy e)
  /\ (forall s, considered e s -> (leading_nl s <-> leading_nl (me_msgid e)) /\ (trailing_nl s <-> trailing_nl (me_msgid e)))
  /\ (~ fuzzy e -> ~ partially_translated e)
  /\ (~ fuzzy e -> first_marker (tr_strings e) = None)
  /\ (forall s c, translation e s -> In c (find_unusual (c_isword cfg) s) ->
        In c (find_unusual (c_isword cfg) (me_msgid e))
        \/ In c (find_unusual (c_isword cfg) (match me_plural e with Some p => p | None => [] end)))
  /\ (forall fd info, check_flags cfg (hp_of e) (me_flags e) = Ok (fd, info) -> fd = [])
  /\ (xml_trigger (me_comment e) = true ->
        (c_template cfg = true -> c_xml cfg (me_msgid e) = None)
        /\ (~ fuzzy e -> me_msgstr e <> [] -> c_xml cfg (me_msgid e) = None -> c_xml cfg (me_msgstr e) = None)).

Definition clean_catalog (cfg : config) (cat : list msg_entry) : Prop :=
  ((exists e, In e cat /\ live e = true) \/ (c_binary cfg = true /\ c_hidden cfg = true))
  /\ forall j e, nth_error cat j = Some e -> live e = true -> clean_entry cfg cat j e.

Theorem clean_catalog_silent cfg cat ds : clean_catalog cfg cat -> check_messages cfg cat = Ok ds ->
  forall d, In d ds -> is_tag d = false.
Proof.
  intros [Hne Hcl] H d Hin. destruct d as [j d|].
  2:{ exfalso. apply (empty_file_iff _ _ _ H) in Hin. destruct Hin as [A B].
      destruct Hne as [[e [He Hl]]|Hb]; [rewrite (A e He) in Hl; discriminate|tauto]. }
  destruct (is_simple d) eqn:Es.
  { exfalso. apply (simple_tag_iff _ _ _ j d H Es) in Hin. destruct Hin as [e [A [B C]]].
    destruct (Hcl j e A B) as [C1 [C2 [C3 [C4 [C5 [C6 _]]]]]].
    destruct d; try discriminate; cbn [simple_rule] in C.
    - rewrite count_key_seen_at in C. auto.
    - destruct C as [X Y]. apply (C2 X Y).
    - destruct C as [X Y]. auto.
    - destruct C as [s [X Y]]. apply Y. apply (C4 s X).
    - destruct C as [s [X Y]]. apply Y. apply (C4 s X).
    - destruct C as [X Y]. rewrite (C6 X) in Y. discriminate.
    - destruct C as [X Y]. apply (C5 X Y). }
  destruct (is_flag_tag d) eqn:Ef.
  { exfalso. apply (flag_tag_iff _ _ _ j d H Ef) in Hin. destruct Hin as [e [fd [info [A [B [C D]]]]]].
    destruct (Hcl j e A B) as [_ [_ [_ [_ [_ [_ [_ [C8 _]]]]]]]]. rewrite (C8 _ _ C) in D. contradiction. }
  destruct d; try discriminate; try reflexivity.
  - exfalso. destruct (malformed_xml_sound _ _ _ _ _ H Hin) as [e [A [B [C [D E]]]]].
    destruct (Hcl j e A B) as [_ [_ [_ [_ [_ [_ [_ [_ C9]]]]]]]]. destruct (C9 C) as [X Y].
    destruct E as [[E1 E2]|[E1 [E2 [E3 E4]]]]; [rewrite (X E2) in E1; discriminate|].
    rewrite (Y E2 E3 E1) in E4. discriminate.
  - exfalso. destruct (unusual_sound _ _ _ _ _ H Hin) as [e [A [B [C [D E]]]]].
    destruct (Hcl j e A B) as [_ [_ [_ [_ [_ [_ [C7 _]]]]]]].
    destruct chars as [|c cs]; [congruence|]. destruct (E c (or_introl eq_refl)) as [[s [E1 E2]] [E3 E4]].
    destruct (C7 s c E1 E2); auto.
Qed.

(* the fuzzy and obsolete exemptions *)
Theorem fuzzy_exemptions cfg cat ds j e d : check_messages cfg cat = Ok ds -> nth_error cat j = Some e -> fuzzy e ->
  In (AtMsg j d) ds ->
  d <> MStrayPrevious /\ d <> MPartial /\ (forall m, d <> MConflictMarker m)
  /\ (d = MLeadingNL -> exists p, me_plural e = Some p /\ ~ (leading_nl p <-> leading_nl (me_msgid e)))
  /\ (d = MTrailingNL -> exists p, me_plural e = Some p /\ ~ (trailing_nl p <-> trailing_nl (me_msgid e)))
  /\ (forall m, d = MMalformedXml m -> c_template cfg = true /\ c_xml cfg (me_msgid e) = Some m).
Proof.
  intros H Hn Hf Hin.
  assert (S : forall d', is_simple d' = true -> d = d' -> simple_rule cfg (seen_at [] cat j) e d').
  { intros d' Hs ->. apply (simple_tag_iff _ _ _ j d' H Hs) in Hin. destruct Hin as [e' [A [B C]]].
    rewrite Hn in A. inversion A; subst. exact C. }
  repeat split.
  - intros E. destruct (S MStrayPrevious eq_refl E) as [_ X]. auto.
  - intros E. destruct (S MPartial eq_refl E) as [X _]. auto.
  - intros m E. destruct (S (MConflictMarker m) eq_refl E) as [X _]. auto.
  - intros E. destruct (S MLeadingNL eq_refl E) as [s [[X|[X _]] Y]]; [eauto|tauto].
  - intros E. destruct (S MTrailingNL eq_refl E) as [s [[X|[X _]] Y]]; [eauto|tauto].
  - subst. destruct (malformed_xml_sound _ _ _ _ _ H Hin) as [e' [A [B [C [D E]]]]].
    rewrite Hn in A. inversion A; subst. destruct E as [[E1 E2]|[E1 [E2 _]]]; [auto|tauto].
  - subst. destruct (malformed_xml_sound _ _ _ _ _ H Hin) as [e' [A [B [C [D E]]]]].
    rewrite Hn in A. inversion A; subst. destruct E as [[E1 E2]|[E1 [E2 _]]]; [auto|tauto].
Qed.

(* ------------------------------------------------------------------ *)
(* statements used by Props/C16.v                                       *)

Theorem duplicate_iff cfg cat ds j : check_messages cfg cat = Ok ds ->
  (In (AtMsg j MDuplicateDef) ds <->
   exists e, nth_error cat j = Some e /\ live e = true /\ earlier_definitions cat j e = 1%nat).
Proof.
  intros H. rewrite (simple_tag_iff _ _ _ j MDuplicateDef H eq_refl). cbn [simple_rule].
  split; intros [e [A [B C]]]; exists e; rewrite count_key_seen_at in *; auto.
Qed.

Lemma key_eqb_refl k : key_eqb k k = true.
Proof. unfold key_eqb. rewrite str_eqb_refl. destruct (snd k); cbn; auto. apply str_eqb_refl. Qed.
Lemma key_eqb_eq a b : key_eqb a b = true -> a = b.
Proof.
  destruct a as [a1 a2], b as [b1 b2]. unfold key_eqb. cbn. rewrite andb_true_iff, str_eqb_eq. intros [-> H].
  destruct a2, b2; cbn in H; try discriminate; auto. apply str_eqb_eq in H. subst. auto.
Qed.

(* the second definition is the only position at which the message is reported *)
Theorem duplicate_once cfg cat ds i j e1 e2 : check_messages cfg cat = Ok ds ->
  In (AtMsg i MDuplicateDef) ds -> In (AtMsg j MDuplicateDef) ds ->
  nth_error cat i = Some e1 -> nth_error cat j = Some e2 -> key_of e1 = key_of e2 -> i = j.
Proof.
  intros H Hi Hj N1 N2 K.
  apply (duplicate_iff _ _ _ _ H) in Hi, Hj.
  destruct Hi as [e1' [A1 [L1 C1]]]. destruct Hj as [e2' [A2 [L2 C2]]].
  rewrite N1 in A1. rewrite N2 in A2. inversion A1; inversion A2; subst e1' e2'. clear A1 A2.
  assert (G : forall a b ea eb, (a < b)%nat -> nth_error cat a = Some ea -> nth_error cat b = Some eb -> live ea = true ->
              key_of ea = key_of eb -> (earlier_definitions cat a ea < earlier_definitions cat b eb)%nat).
  { clear. intros a b ea eb Hab Na Nb La K. unfold earlier_definitions. rewrite K.
    set (p := fun e' => live e' && key_eqb (key_of eb) (key_of e')).
    assert (E : firstn b cat = firstn a cat ++ ea :: firstn (b - S a) (skipn (S a) cat)).
    { clear p K La Nb. revert a b Hab Na. induction cat as [|x cat IH]; intros a b Hab Na; [destruct a; discriminate|].
      destruct a as [|a]; destruct b as [|b]; try lia.
      - cbn in Na. inversion Na; subst. cbn. rewrite Nat.sub_0_r. reflexivity.
      - cbn in Na. cbn [firstn skipn app]. rewrite (IH a b) by (auto; lia). reflexivity. }
    assert (Hp : p ea = true) by (unfold p; rewrite La, <- K, key_eqb_refl; reflexivity).
    rewrite E, filter_app, app_length. cbn [filter]. rewrite Hp. cbn [length]. lia. }
  destruct (Nat.lt_trichotomy i j) as [Hlt|[->|Hlt]]; auto.
  - pose proof (G i j e1 e2 Hlt N1 N2 L1 K). lia.
  - pose proof (G j i e2 e1 Hlt N2 N1 L2 (eq_sym K)). lia.
Qed.

Lemma flag_tag_lift cfg cat ds j d (P : msg_entry -> Prop) : check_messages cfg cat = Ok ds -> is_flag_tag d = true ->
  (forall e fd info, check_flags cfg (hp_of e) (me_flags e) = Ok (fd, info) -> (In d fd <-> P e)) ->
  (In (AtMsg j d) ds <-> exists e, nth_error cat j = Some e /\ live e = true /\ P e).
Proof.
  intros H Hs HP. rewrite (flag_tag_iff _ _ _ j d H Hs). split.
  - intros [e [fd [info [A [B [C D]]]]]]. exists e. repeat split; auto. apply (HP e fd info C). exact D.
  - intros [e [A [B C]]]. destruct (check_messages_inv _ _ _ H) as [ds0 [seen' [Hr Hds]]].
    destruct (run_complete _ _ _ _ _ _ _ Hr j e A B) as [fnd [[r1 r2] [D _]]].
    destruct (check_entry_inv _ _ _ _ _ _ D) as [fd [info [xd [ud [Hf _]]]]].
    exists e, fd, info. repeat split; auto. apply (HP e fd info Hf). exact C.
Qed.

Theorem unknown_flag_iff cfg cat ds j f : check_messages cfg cat = Ok ds ->
  (In (AtMsg j (MUnknownFlag f)) ds <-> exists e, nth_error cat j = Some e /\ live e = true
     /\ In f (me_flags e) /\ (classify cfg f = Ok (FFormat None) \/ classify cfg f = Ok FOther)).
Proof. intros H. apply (flag_tag_lift _ _ _ j (MUnknownFlag f) _ H eq_refl). intros e fd info Hf. apply (flags_unknown_iff _ _ _ _ _ Hf). Qed.

Theorem invalid_range_iff cfg cat ds j f : check_messages cfg cat = Ok ds ->
  (In (AtMsg j (MInvalidRange f)) ds <-> exists e, nth_error cat j = Some e /\ live e = true
     /\ In f (me_flags e) /\ classify cfg f = Ok (FRange None)).
Proof. intros H. apply (flag_tag_lift _ _ _ j (MInvalidRange f) _ H eq_refl). intros e fd info Hf. apply (flags_invalid_range_iff _ _ _ _ _ Hf). Qed.

Theorem range_no_plural_iff cfg cat ds j : check_messages cfg cat = Ok ds ->
  (In (AtMsg j MRangeNoPlural) ds <-> exists e, nth_error cat j = Some e /\ live e = true
     /\ hp_of e = false /\ exists f r, In f (me_flags e) /\ classify cfg f = Ok (FRange r)).
Proof. intros H. apply (flag_tag_lift _ _ _ j MRangeNoPlural _ H eq_refl). intros e fd info Hf. apply (flags_range_no_plural_iff _ _ _ _ _ Hf). Qed.

Theorem duplicate_flag_iff cfg cat ds j f : check_messages cfg cat = Ok ds ->
  (In (AtMsg j (MDupFlag f)) ds <-> exists e, nth_error cat j = Some e /\ live e = true /\
     ((In f (me_flags e) /\ (1 < count_str f (me_flags e))%nat /\ f <> [] /\ (forall r, classify cfg f <> Ok (FRange (Some r))))
      \/ (exists items k, classify_all cfg (counter_sorted (me_flags e)) = Ok items
            /\ sort_dedup zz_compare (map fst (range_rows items)) = [k] /\ (1 < sum_n (range_rows items))%nat
            /\ f = str_min (flags_of_key (range_rows items) k)))).
Proof. intros H. apply (flag_tag_lift _ _ _ j (MDupFlag f) _ H eq_refl). intros e fd info Hf. apply (flags_duplicate_iff _ _ _ _ _ Hf). Qed.

Theorem conflicting_flags_iff cfg cat ds j a b : check_messages cfg cat = Ok ds ->
  (In (AtMsg j (MConflictFlags a b)) ds <-> exists e, nth_error cat j = Some e /\ live e = true /\
    ((a = s_wrap /\ b = s_no_wrap /\ In s_wrap (me_flags e) /\ In s_no_wrap (me_flags e))
    \/ (exists items k1 k2 rest, classify_all cfg (counter_sorted (me_flags e)) = Ok items
          /\ sort_dedup zz_compare (map fst (range_rows items)) = k1 :: k2 :: rest
          /\ a = str_min (flags_of_key (range_rows items) k1) /\ b = str_min (flags_of_key (range_rows items) k2))
    \/ (exists items k1 k2, classify_all cfg (counter_sorted (me_flags e)) = Ok items
          /\ dget k1 (fmt_dict TpPos items) = Some a /\ dget k2 (fmt_dict TpPos items) = Some b
          /\ str_ltb k1 k2 = true /\ compatible (c_formats cfg) k1 k2 = false)
    \/ (exists items k tp1 tp2, classify_all cfg (counter_sorted (me_flags e)) = Ok items
          /\ ((tp1 = TpPos /\ tp2 = TpNo) \/ (tp1 = TpPos /\ tp2 = TpImpossible) \/ (tp1 = TpPossible /\ tp2 = TpImpossible))
          /\ dget k (fmt_dict tp1 items) = Some a /\ dget k (fmt_dict tp2 items) = Some b))).
Proof. intros H. apply (flag_tag_lift _ _ _ j (MConflictFlags a b) _ H eq_refl). intros e fd info Hf. apply (flags_conflict_iff _ _ _ _ _ Hf). Qed.

Theorem redundant_flag_iff cfg cat ds j p q : check_messages cfg cat = Ok ds ->
  (In (AtMsg j (MRedundantFlag p q)) ds <-> exists e, nth_error cat j = Some e /\ live e = true /\
     exists items k, classify_all cfg (counter_sorted (me_flags e)) = Ok items
       /\ dget k (fmt_dict TpPos items) = Some q /\ dget k (fmt_dict TpPossible items) = Some p).
Proof. intros H. apply (flag_tag_lift _ _ _ j (MRedundantFlag p q) _ H eq_refl). intros e fd info Hf. apply (flags_redundant_iff _ _ _ _ _ Hf). Qed.

(* the rows and dictionaries mentioned above, in terms of the flag list *)
Theorem range_row_iff cfg F items r f n : classify_all cfg (counter_sorted F) = Ok items ->
  (In (r, (f, n)) (range_rows items) <-> In f F /\ n = count_str f F /\ classify cfg f = Ok (FRange (Some r))).
Proof. intros H. apply (rows_In cfg F items H). Qed.
Theorem format_dict_sound cfg F items tp name flag : classify_all cfg (counter_sorted F) = Ok items ->
  dget name (fmt_dict tp items) = Some flag -> In flag F /\ classify cfg flag = Ok (FFormat (Some (tp, name))).
Proof. intros H. apply (dict_from_flags cfg F items tp name flag H). Qed.
Theorem format_dict_complete cfg F items tp name flag : classify_all cfg (counter_sorted F) = Ok items ->
  In flag F -> classify cfg flag = Ok (FFormat (Some (tp, name))) -> exists flag', dget name (fmt_dict tp items) = Some flag'.
Proof. intros H. apply (dict_has_flag cfg F items tp name flag H). Qed.

(* the control-character table covers every Cc character: checked on the finite range *)
Definition cc_range : list N := map N.of_nat (seq 0 160).
Definition ctl_table_ok (ctl : list N) : bool := forallb (fun c => if is_cc c then memN c ctl else true) cc_range.
Lemma ctl_table_ok_sound ctl : ctl_table_ok ctl = true -> ctl_complete ctl.
Proof.
  unfold ctl_table_ok, ctl_complete. rewrite forallb_forall. intros H c Hc.
  assert (Hr : In c cc_range).
  { unfold cc_range. apply in_map_iff. exists (N.to_nat c). split; [apply N2Nat.id|]. apply in_seq.
    unfold is_cc, btw in Hc. lia. }
  specialize (H c Hr). rewrite Hc in H. exact H.
Qed.

(* Source tie for C18 (notes/SRC7.md): the functions translated from lib/gettext.py and lib/check/__init__.py
   (Generated/DatesSrc.v, written by tools/gen/gen_dates_src.py on every run) EQUAL the hand-written model
   Model/Dates.v, for all arguments, when the oracles of the translation are instantiated with the model's scanners. *)
From Coq Require Import List NArith ZArith Bool Lia.
From I18n Require Import Lib.Outcome Lib.PyDates Model.Dates Proofs.Dates Generated.DatesSrc.
Import ListNotations.
Local Open Scope Z_scope.

(* ------------------------------------------------------------------ *)
(* how the model's results read in the vocabulary of the translation *)

Definition of_err (e : date_err) : dexn :=
  match e with Boilerplate => XBoilerplateDate | Invalid => XDateSyntaxError end.

Definition of_outcome {A B} (f : A -> B) (x : outcome A date_err) : pres B :=
  match x with Ok a => PRet (f a) | Err e => PRaise (of_err e) | Crash c => PRaise (XCrash c) end.

(* match.groups() of the model's scanner: the numeric zone fills groups 3 and 4, the abbreviation group 5 *)
Definition groups_of (x : list N * list N * zone_match) : groups :=
  let '(d, t, z) := x in
  match z with
  | ZNum zh zm => {| g_date := d; g_time := t; g_zhour := Some zh; g_zminute := Some zm; g_zabbr := None |}
  | ZAbbr a => {| g_date := d; g_time := t; g_zhour := None; g_zminute := None; g_zabbr := Some a |}
  | ZNone => {| g_date := d; g_time := t; g_zhour := None; g_zminute := None; g_zabbr := None |}
  end.

(* an aware datetime, as far as < and > can tell: microseconds since 0001-01-01T00:00Z *)
Definition stamp_us (st : stamp) : Z := stamp_minutes st * us_per_minute.

(* datetime.strptime(s, '%Y-%m-%d %H:%M%z') as the model has it inside parse_date: ValueError where the model says
   Err Invalid (parse_date turns exactly that into DateSyntaxError) *)
Definition model_strptime (s : list N) : pres Z :=
  match parse_date s with
  | Ok st => PRet (stamp_us st)
  | Err _ => PRaise (XCrash CValueError)
  | Crash c => PRaise (XCrash c)
  end.

(* the oracles of the translation := the model's scanners; now = the current time in microseconds *)
Definition model_oracles (E : env) (now : Z) : pydates Z := {|
  o_strip := strip (sp_strip E);
  o_search_boilerplate := bp_search (sp_re E);
  o_parse_date := fun s => option_map groups_of (parse_date_re E s);
  o_strptime_z := fun h => of_outcome (fun u => u) (hint_check h);
  o_strptime_date := model_strptime;
  o_timezones := tz_table E;
  o_utc_now := now;
  o_datetime_utc := fun y m d => stamp_us {| st_y := y; st_m := m; st_d := d; st_hh := 0; st_mi := 0; st_off := 0 |};
  o_dt_lt := Z.ltb;
  o_dt_gt := Z.gtb
|}.

(* the model's tags as self.tag(...) calls about the header field `field` *)
Definition s_colon : list N := [58%N].
Definition s_arrow : list N := [61; 62]%N.
Definition t_duplicate : list N := [100; 117; 112; 108; 105; 99; 97; 116; 101; 45; 104; 101; 97; 100; 101; 114; 45; 102; 105; 101; 108; 100; 45; 100; 97; 116; 101]%N.
Definition t_nofield : list N := [110; 111; 45; 100; 97; 116; 101; 45; 104; 101; 97; 100; 101; 114; 45; 102; 105; 101; 108; 100]%N.
Definition t_boilerplate : list N := [98; 111; 105; 108; 101; 114; 112; 108; 97; 116; 101; 45; 105; 110; 45; 100; 97; 116; 101]%N.
Definition t_invalid : list N := [105; 110; 118; 97; 108; 105; 100; 45; 100; 97; 116; 101]%N.
Definition t_future : list N := [100; 97; 116; 101; 45; 102; 114; 111; 109; 45; 102; 117; 116; 117; 114; 101]%N.
Definition t_ancient : list N := [97; 110; 99; 105; 101; 110; 116; 45; 100; 97; 116; 101]%N.
Definition f_pot : list N := [80; 79; 84; 45; 67; 114; 101; 97; 116; 105; 111; 110; 45; 68; 97; 116; 101]%N.   (* POT-Creation-Date *)
Definition f_po : list N := [80; 79; 45; 82; 101; 118; 105; 115; 105; 111; 110; 45; 68; 97; 116; 101]%N.        (* PO-Revision-Date *)
Definition f_ct : list N := [67; 111; 110; 116; 101; 110; 116; 45; 84; 121; 112; 101]%N.                        (* Content-Type *)

Definition of_dtag (field : list N) (t : dtag) : tagline :=
  match t with
  | TDuplicate => (t_duplicate, [AStr field])
  | TNoField => (t_nofield, [AStr field])
  | TBoilerplate d => (t_boilerplate, [ASafe (field ++ s_colon); AStr d])
  | TInvalid d => (t_invalid, [ASafe (field ++ s_colon); AStr d])
  | TInvalidFix d r => (t_invalid, [ASafe (field ++ s_colon); AStr d; AStr s_arrow; AStr r])
  | TFuture d => (t_future, [ASafe (field ++ s_colon); AStr d])
  | TAncient d => (t_ancient, [ASafe (field ++ s_colon); AStr d])
  end.

Definition of_tags (field : list N) (x : outcome (list dtag) date_err) : pres (list tagline) :=
  of_outcome (map (of_dtag field)) x.

Definition of_both (x : outcome (list dtag * list dtag) date_err) : pres (list tagline) :=
  of_outcome (fun ab => map (of_dtag f_pot) (fst ab) ++ map (of_dtag f_po) (snd ab)) x.

(* ------------------------------------------------------------------ *)
(* the built-ins of Lib/PyDates.v are the model's text library *)

Lemma str_eqb_eq : forall a b, str_eqb a b = list_eqb a b.
Proof. induction a as [|x a IH]; destruct b as [|y b]; cbn; try reflexivity; now rewrite IH. Qed.

Lemma list_eqb_sym : forall a b, list_eqb a b = list_eqb b a.
Proof. induction a as [|x a IH]; destruct b as [|y b]; cbn; try reflexivity. rewrite N.eqb_sym, IH. reflexivity. Qed.

Lemma str_eqb_sym : forall a b, str_eqb a b = str_eqb b a.
Proof. intros a b. rewrite !str_eqb_eq. apply list_eqb_sym. Qed.

Lemma str_startswith_eq : forall p s, str_startswith s p = starts_with p s.
Proof.
  unfold starts_with. induction p as [|c p IH]; intro s; [reflexivity|].
  destruct s as [|d s]; cbn; [reflexivity|]. destruct (N.eqb c d); [apply IH | reflexivity].
Qed.

Lemma str_compare_eq : forall a b, str_compare a b = str_cmp a b.
Proof. induction a as [|x a IH]; destruct b as [|y b]; cbn; try reflexivity; now rewrite IH. Qed.

Lemma py_insert_eq : forall x l, py_insert x l = insert_uniq x l.
Proof. intros x l. induction l as [|y r IH]; cbn; [reflexivity|]. rewrite str_compare_eq, IH. reflexivity. Qed.

Lemma py_sorted_set_eq : forall l, py_sorted_set l = sorted_set l.
Proof.
  unfold py_sorted_set, sorted_set. induction l as [|x l IH]; cbn; [reflexivity|]. rewrite IH. apply py_insert_eq.
Qed.

Lemma py_getitem_eq : forall t a,
  py_getitem t a = match lookup t a with Some v => PRet v | None => PRaise (XCrash CKeyError) end.
Proof.
  induction t as [|[k v] t IH]; intro a; cbn; [reflexivity|]. rewrite str_eqb_eq.
  destruct (list_eqb k a); [reflexivity | apply IH].
Qed.

(* ------------------------------------------------------------------ *)
(* parse_date *)

Lemma parse_date_err : forall s e, parse_date s = Err e -> e = Invalid.
Proof.
  intros s e. unfold parse_date.
  destruct (match_pat canon16_pat s) as [[pre z]|]; [|discriminate].
  destruct (negb (Nat.eqb (length z) 5) || non_ascii z); [discriminate|].
  destruct (zone5_offset z); [|intro H; inversion H; reflexivity].
  destruct (civil_ok _ _ _ _ _); [discriminate | intro H; inversion H; reflexivity].
Qed.

Lemma parse_date_crash : forall s c, parse_date s = Crash c -> c = CNotImplemented.
Proof.
  intros s c. unfold parse_date.
  destruct (match_pat canon16_pat s) as [[pre z]|]; [|intro H; inversion H; reflexivity].
  destruct (negb (Nat.eqb (length z) 5) || non_ascii z); [intro H; inversion H; reflexivity|].
  destruct (zone5_offset z); [|discriminate].
  destruct (civil_ok _ _ _ _ _); discriminate.
Qed.

(* try: return strptime(...)  except ValueError as exc: raise DateSyntaxError(exc) *)
Lemma src_parse_date_eq : forall E now s,
  src_parse_date (model_oracles E now) s = of_outcome stamp_us (parse_date s).
Proof.
  intros E now s. unfold src_parse_date. cbn [model_oracles o_strptime_date]. unfold model_strptime.
  destruct (parse_date s) as [st|e|c] eqn:Hp; cbn.
  - reflexivity.
  - rewrite (parse_date_err _ _ Hp). reflexivity.
  - rewrite (parse_date_crash _ _ Hp). reflexivity.
Qed.

(* ------------------------------------------------------------------ *)
(* fix_date_format *)

Lemma fix_tail_eq : forall E now r,
  (if negb (Nat.eqb (length r) 21) then PRaise (XCrash CAssertion)
   else pbind (src_parse_date (model_oracles E now) r) (fun _ => PRet r))
  = of_outcome (fun x => x)
      (if negb (Nat.eqb (length r) 21) then Crash CAssertion else do _ <- parse_date r; Ok r).
Proof.
  intros E now r. destruct (negb (Nat.eqb (length r) 21)); [reflexivity|].
  rewrite src_parse_date_eq. destruct (parse_date r); reflexivity.
Qed.

Theorem src_fix_date_format_eq : forall E now s hint,
  src_fix_date_format (model_oracles E now) s hint = of_outcome (fun x => x) (fix_date E hint s).
Proof.
  intros E now s hint. unfold src_fix_date_format, fix_date.
  cbn [model_oracles o_strip o_search_boilerplate o_parse_date o_strptime_z o_timezones].
  destruct (bp_search (sp_re E) (strip (sp_strip E) s)); [reflexivity|].
  destruct hint as [h|]; cbn [is_some oget_str].
  - destruct (hint_check h) as [[]|e|c]; cbn [of_outcome pbind obind]; [|reflexivity|reflexivity].
    destruct (parse_date_re E (strip (sp_strip E) s)) as [[[date time] [zh zm|a|]]|];
      cbn [option_map groups_of is_some negb oget_groups oget_str g_date g_time g_zhour g_zminute g_zabbr andb obind of_outcome of_err];
      try reflexivity.
    + rewrite <- ?app_assoc. apply fix_tail_eq.
    + rewrite py_getitem_eq. destruct (lookup (tz_table E) a) as [[|z [|z' l]]|]; cbn [pbind py_unpack1 exn_isa obind of_outcome of_err]; try reflexivity.
      rewrite <- ?app_assoc. apply fix_tail_eq.
    + rewrite <- ?app_assoc. apply fix_tail_eq.
  - cbn [of_outcome pbind obind].
    destruct (parse_date_re E (strip (sp_strip E) s)) as [[[date time] [zh zm|a|]]|];
      cbn [option_map groups_of is_some negb oget_groups oget_str g_date g_time g_zhour g_zminute g_zabbr andb obind of_outcome of_err];
      try reflexivity.
    + rewrite <- ?app_assoc. apply fix_tail_eq.
    + rewrite py_getitem_eq. destruct (lookup (tz_table E) a) as [[|z [|z' l]]|]; cbn [pbind py_unpack1 exn_isa obind of_outcome of_err]; try reflexivity.
      rewrite <- ?app_assoc. apply fix_tail_eq.
Qed.

(* ------------------------------------------------------------------ *)
(* check_dates *)

Lemma us_ltb : forall a b, (a * us_per_minute <? b * us_per_minute) = (a <? b).
Proof.
  intros a b. unfold us_per_minute.
  destruct (Z.ltb_spec (a * 60000000) (b * 60000000)); destruct (Z.ltb_spec a b); try reflexivity; lia.
Qed.

Lemma src_epoch_eq : forall E now, src_epoch (model_oracles E now) = epoch_minutes * us_per_minute.
Proof. reflexivity. Qed.

Lemma of_tags_bind : forall f (x : outcome (list dtag) date_err) t1,
  of_tags f (do t2 <- x; Ok (t1 ++ t2)) =
  match of_tags f x with PRet l => PRet (map (of_dtag f) t1 ++ l) | PRaise e => PRaise e end.
Proof. intros f [t2|e|c] t1; cbn; [rewrite map_app|..]; reflexivity. Qed.

Definition ctx_of (tmpl bin : bool) (md : list N -> list (list N)) : pyctx :=
  {| ctx_is_template := tmpl; ctx_is_binary := bin; ctx_metadata := md |}.
Definition dctx_of (tmpl bin pub : bool) : dctx :=
  {| is_template := tmpl; is_binary := bin; is_publican := pub |}.

(* the field names the loop runs over: what the two startswith tests say about them *)
Definition field_ok (f : list N) (is_po : bool) : Prop :=
  str_startswith f [80; 79; 45]%N = is_po /\ str_startswith f [80; 79; 84; 45]%N = negb is_po.

Lemma field_ok_pot : field_ok f_pot false. Proof. split; reflexivity. Qed.
Lemma field_ok_po : field_ok f_po true. Proof. split; reflexivity. Qed.

(* the body of `for date in dates` after a successful fix_date_format *)
Lemma after_fix_eq : forall E now f (x fixed : list N) (K : pres (list tagline)) (rest : outcome (list dtag) date_err),
  K = of_tags f rest ->
  (if negb (str_eqb x fixed)
   then ptag (t_invalid, [ASafe (f ++ s_colon); AStr x; AStr s_arrow; AStr fixed])
     (pbind (src_parse_date (model_oracles E now) fixed) (fun r =>
        if o_dt_gt (model_oracles E now) r (o_utc_now (model_oracles E now))
        then ptag (t_future, [ASafe (f ++ s_colon); AStr x])
               (if o_dt_lt (model_oracles E now) r (src_epoch (model_oracles E now))
                then ptag (t_ancient, [ASafe (f ++ s_colon); AStr x]) K else K)
        else if o_dt_lt (model_oracles E now) r (src_epoch (model_oracles E now))
             then ptag (t_ancient, [ASafe (f ++ s_colon); AStr x]) K else K))
   else pbind (src_parse_date (model_oracles E now) fixed) (fun r =>
        if o_dt_gt (model_oracles E now) r (o_utc_now (model_oracles E now))
        then ptag (t_future, [ASafe (f ++ s_colon); AStr x])
               (if o_dt_lt (model_oracles E now) r (src_epoch (model_oracles E now))
                then ptag (t_ancient, [ASafe (f ++ s_colon); AStr x]) K else K)
        else if o_dt_lt (model_oracles E now) r (src_epoch (model_oracles E now))
             then ptag (t_ancient, [ASafe (f ++ s_colon); AStr x]) K else K))
  = of_tags f
      (do t1 <- match parse_date fixed with
                | Crash k => Crash k
                | Err e => Err e
                | Ok st => Ok ((if list_eqb x fixed then [] else [TInvalidFix x fixed])
                               ++ (if now <? stamp_minutes st * us_per_minute then [TFuture x] else [])
                               ++ (if stamp_minutes st <? epoch_minutes then [TAncient x] else []))
                end;
       do t2 <- rest; Ok (t1 ++ t2)).
Proof.
  intros E now f x fixed K rest ->. rewrite src_parse_date_eq, src_epoch_eq, str_eqb_eq.
  cbn [model_oracles o_dt_gt o_dt_lt o_utc_now].
  destruct (parse_date fixed) as [st|e|c]; cbn [of_outcome pbind obind of_tags].
  - unfold stamp_us. rewrite Z.gtb_ltb, us_ltb.
    destruct (list_eqb x fixed), (now <? stamp_minutes st * us_per_minute), (stamp_minutes st <? epoch_minutes),
      rest as [t2|e|c]; reflexivity.
  - destruct (list_eqb x fixed); reflexivity.
  - destruct (list_eqb x fixed); reflexivity.
Qed.

(* for date in dates: ... *)
Theorem src_check_dates_loop2_eq : forall E now tmpl bin md pub f is_po dates, field_ok f is_po ->
  src_check_dates_loop2 (model_oracles E now) (ctx_of tmpl bin md) pub f dates
  = of_tags f (check_each E now (dctx_of tmpl bin pub) is_po dates).
Proof.
  intros E now tmpl bin md pub f is_po dates [Hpo _].
  induction dates as [|x r IH]; [reflexivity|].
  cbn [src_check_dates_loop2 check_each]. rewrite IH. clear IH.
  set (K := check_each E now (dctx_of tmpl bin pub) is_po r).
  unfold check_one. cbn [ctx_of dctx_of ctx_is_template is_template is_publican].
  change src_boilerplate_date with boilerplate_date. rewrite Hpo, ?str_eqb_eq, ?(list_eqb_sym boilerplate_date x).
  unfold str_has. rewrite !src_fix_date_format_eq. unfold pystr.
  change ([45; 48; 48; 48; 48]%N) with hint_utc.
  (* every atomic test separately: the order of the operands of `and` does not matter *)
  destruct tmpl, is_po, (list_eqb x boilerplate_date), (existsb (N.eqb 84) x), pub; cbn [andb];
    try (cbn [obind]; destruct K; reflexivity);
    match goal with |- context [fix_date E ?h x] => destruct (fix_date E h x) as [fixed|[|]|k] end;
    cbn [of_outcome of_err exn_isa];
    try reflexivity;
    try (cbn [obind]; destruct K; reflexivity);
    rewrite ?(str_eqb_sym fixed x);
    apply (after_fix_eq E now f x fixed _ K); reflexivity.
Qed.

(* one iteration of `for field in ...` followed by the remaining ones *)
Lemma src_check_dates_loop1_step : forall E now tmpl bin md pub f is_po fs, field_ok f is_po ->
  src_check_dates_loop1 (model_oracles E now) (ctx_of tmpl bin md) pub (f :: fs)
  = pseq (of_tags f (check_field E now (dctx_of tmpl bin pub) is_po (md f)))
         (src_check_dates_loop1 (model_oracles E now) (ctx_of tmpl bin md) pub fs).
Proof.
  intros E now tmpl bin md pub f is_po fs Hf.
  cbn [src_check_dates_loop1]. cbn [ctx_of ctx_metadata ctx_is_binary].
  rewrite !(src_check_dates_loop2_eq E now tmpl bin md pub f is_po _ Hf), py_sorted_set_eq.
  destruct Hf as [_ Hpot]. rewrite Hpot.
  set (L := src_check_dates_loop1 _ _ pub fs).
  unfold check_field. cbn [dctx_of is_binary].
  destruct (md f) as [|d1 [|d2 l]]; cbn [length Nat.ltb Nat.leb Nat.eqb].
  - destruct is_po, bin; destruct L; reflexivity.
  - reflexivity.
  - destruct (check_each E now (dctx_of tmpl bin pub) is_po (sorted_set (d1 :: d2 :: l))); destruct L; reflexivity.
Qed.

(* Checker.check_dates *)
Theorem src_check_dates_eq : forall E now tmpl bin md,
  src_check_dates (model_oracles E now) (ctx_of tmpl bin md)
  = of_both (check_dates E now tmpl bin (md f_ct) (md f_pot) (md f_po)).
Proof.
  intros E now tmpl bin md. unfold src_check_dates, check_dates.
  cbn [ctx_of ctx_metadata]. change ([67; 111; 110; 116; 101; 110; 116; 45; 84; 121; 112; 101]%N) with f_ct.
  assert (Hpub : forall ct, str_startswith ct [97; 112; 112; 108; 105; 99; 97; 116; 105; 111; 110; 47; 120; 45; 112; 117; 98; 108; 105; 99; 97; 110; 59]%N
                            = starts_with s_publican ct) by (intro ct; apply str_startswith_eq).
  assert (Hloop : forall pub,
    pseq (src_check_dates_loop1 (model_oracles E now) (ctx_of tmpl bin md) pub [f_pot; f_po]) (PRet [])
    = of_both (do a <- check_field E now (dctx_of tmpl bin pub) false (md f_pot);
               do b <- check_field E now (dctx_of tmpl bin pub) true (md f_po); Ok (a, b))).
  { intro pub.
    rewrite (src_check_dates_loop1_step E now tmpl bin md pub f_pot false _ field_ok_pot).
    rewrite (src_check_dates_loop1_step E now tmpl bin md pub f_po true _ field_ok_po).
    cbn [src_check_dates_loop1].
    destruct (check_field E now (dctx_of tmpl bin pub) false (md f_pot)) as [a|e|c]; [|reflexivity|reflexivity].
    destruct (check_field E now (dctx_of tmpl bin pub) true (md f_po)) as [b|e|c]; [|reflexivity|reflexivity].
    cbn. rewrite !app_nil_r. reflexivity. }
  destruct (md f_ct) as [|ct cts]; cbn [py_index0 exn_isa publican_of].
  - change (str_startswith [] _) with false. apply (Hloop false).
  - rewrite Hpub. apply Hloop.
Qed.

(* gettext.boilerplate_date, gettext.epoch *)
Lemma src_boilerplate_date_eq : src_boilerplate_date = boilerplate_date.
Proof. reflexivity. Qed.

Lemma src_epoch_stamp_eq : forall E now, src_epoch (model_oracles E now) = stamp_us epoch_stamp.
Proof. reflexivity. Qed.

(* the oracle instance restricted to the generated environment *)
Definition real_oracles := model_oracles real_env.

(* Escaping makes file-derived text harmless; line structure; priority table; call sites. *)
From Coq Require Import List NArith Bool Lia ZifyBool ZifyN.
From I18n Require Import Model.Tags.
Import ListNotations.
Local Open Scope N_scope.

Definition clean (U : N -> bool) (s : list N) : Prop := Forall (fun c => U c = true) s.
Definition ascii_ok (U : N -> bool) : Prop := forall c, 32 <= c <= 126 -> U c = true.

Lemma clean_app U a b : clean U a -> clean U b -> clean U (a ++ b).
Proof. unfold clean. intros. apply Forall_app. auto. Qed.
Lemma clean_cons U c s : U c = true -> clean U s -> clean U (c :: s).
Proof. unfold clean. intros. constructor; auto. Qed.
Lemma clean_nil U : clean U []. Proof. constructor. Qed.

Lemma clean_flat_map U (f : N -> list N) s : (forall c, clean U (f c)) -> clean U (flat_map f s).
Proof. intros H. induction s; cbn; [constructor|]. apply clean_app; auto. Qed.

Lemma clean_flat_map_in U (f : N -> list N) s : (forall c, In c s -> clean U (f c)) -> clean U (flat_map f s).
Proof.
  induction s; cbn; intros H; [constructor|]. apply clean_app; [apply H; auto|apply IHs; intros; apply H; auto].
Qed.

Lemma hexdigit_ok U d : ascii_ok U -> d < 16 -> U (hexdigit d) = true.
Proof. intros HU Hd. apply HU. unfold hexdigit. destruct (d <? 10) eqn:E; lia. Qed.

Lemma hex2_ok U c : ascii_ok U -> clean U (hex2 c).
Proof.
  intros HU. unfold hex2. repeat apply clean_cons; try apply clean_nil; apply hexdigit_ok; auto;
    apply N.mod_upper_bound; lia.
Qed.
Lemma hex4_ok U c : ascii_ok U -> clean U (hex4 c).
Proof. intros HU. unfold hex4. apply clean_app; apply hex2_ok; auto. Qed.
Lemma hex8_ok U c : ascii_ok U -> clean U (hex8 c).
Proof. intros HU. unfold hex8. apply clean_app; apply hex4_ok; auto. Qed.

Lemma repr_quote_cases s : repr_quote s = 34 \/ repr_quote s = 39.
Proof. unfold repr_quote. destruct (mem 39 s && negb (mem 34 s)); auto. Qed.

Lemma repr_str_char_ok U q c : ascii_ok U -> (q = 34 \/ q = 39) -> clean U (repr_str_char U q c).
Proof.
  intros HU Hq. unfold repr_str_char.
  assert (H92 : U 92 = true) by (apply HU; lia).
  destruct (N.eqb c q || N.eqb c 92) eqn:E1.
  { apply clean_cons; auto. apply clean_cons; [|apply clean_nil]. apply HU. lia. }
  destruct (N.eqb c 9); [repeat apply clean_cons; try apply clean_nil; auto; apply HU; lia|].
  destruct (N.eqb c 10); [repeat apply clean_cons; try apply clean_nil; auto; apply HU; lia|].
  destruct (N.eqb c 13); [repeat apply clean_cons; try apply clean_nil; auto; apply HU; lia|].
  destruct ((c <? 32) || N.eqb c 127) eqn:E2.
  { apply clean_cons; auto. apply clean_cons; [apply HU; lia|]. apply hex2_ok; auto. }
  destruct (c <? 127) eqn:E3.
  { apply clean_cons; [apply HU; lia|apply clean_nil]. }
  destruct (U c) eqn:E4.
  { apply clean_cons; auto. apply clean_nil. }
  destruct (c <=? 255).
  { apply clean_cons; auto. apply clean_cons; [apply HU; lia|]. apply hex2_ok; auto. }
  destruct (c <=? 65535).
  { apply clean_cons; auto. apply clean_cons; [apply HU; lia|]. apply hex4_ok; auto. }
  apply clean_cons; auto. apply clean_cons; [apply HU; lia|]. apply hex8_ok; auto.
Qed.

Lemma repr_bytes_char_ok U q c : ascii_ok U -> (q = 34 \/ q = 39) -> clean U (repr_bytes_char q c).
Proof.
  intros HU Hq. unfold repr_bytes_char.
  assert (H92 : U 92 = true) by (apply HU; lia).
  destruct (N.eqb c q || N.eqb c 92) eqn:E1.
  { apply clean_cons; auto. apply clean_cons; [|apply clean_nil]. apply HU. lia. }
  destruct (N.eqb c 9); [repeat apply clean_cons; try apply clean_nil; auto; apply HU; lia|].
  destruct (N.eqb c 10); [repeat apply clean_cons; try apply clean_nil; auto; apply HU; lia|].
  destruct (N.eqb c 13); [repeat apply clean_cons; try apply clean_nil; auto; apply HU; lia|].
  destruct ((c <? 32) || (127 <=? c)) eqn:E2.
  { apply clean_cons; auto. apply clean_cons; [apply HU; lia|]. apply hex2_ok; auto. }
  apply clean_cons; [apply HU; lia|apply clean_nil].
Qed.

Lemma repr_str_ok U s : ascii_ok U -> clean U (repr_str U s).
Proof.
  intros HU. unfold repr_str. destruct (repr_quote_cases s) as [E|E]; rewrite E;
    (apply clean_cons; [apply HU; lia|]; apply clean_app;
     [apply clean_flat_map; intros; apply repr_str_char_ok; auto|apply clean_cons; [apply HU; lia|apply clean_nil]]).
Qed.

Lemma repr_bytes_ok U s : ascii_ok U -> clean U (repr_bytes_tail s).
Proof.
  intros HU. unfold repr_bytes_tail. destruct (repr_quote_cases s) as [E|E]; rewrite E;
    (apply clean_cons; [apply HU; lia|]; apply clean_app;
     [apply clean_flat_map; intros; apply repr_bytes_char_ok; auto|apply clean_cons; [apply HU; lia|apply clean_nil]]).
Qed.

Lemma safe_char_ascii c : safe_char c = true -> 32 <= c <= 126.
Proof. unfold safe_char, in_range. lia. Qed.

Lemma is_safe_clean U s : ascii_ok U -> is_safe s = true -> clean U s.
Proof.
  intros HU. unfold is_safe. destruct s as [|c0 s0]; [discriminate|]. intros H.
  rewrite forallb_forall in H. apply Forall_forall. intros c Hc. apply HU. apply safe_char_ascii. auto.
Qed.

Definition arg_escaped (a : arg) : Prop := match a with ASafe _ => False | _ => True end.

Theorem escape_clean U a : ascii_ok U -> arg_escaped a -> clean U (escape U a).
Proof.
  intros HU Ha. destruct a as [s|s|b]; [contradiction| |].
  - cbn. destruct s as [|c s'].
    + unfold s_empty. apply Forall_forall. intros c Hc. apply HU.
      repeat (destruct Hc as [<-|Hc]; [lia|]). destruct Hc.
    + destruct (is_safe (c :: s')) eqn:E; [apply is_safe_clean; auto|apply repr_str_ok; auto].
  - cbn. apply repr_bytes_ok; auto.
Qed.

(* the escaped form of file text is a single token: no blank, so extras stay separable? No: repr may
   contain spaces inside quotes.  What matters for the line structure is that it has no line break. *)
Definition arg_clean (U : N -> bool) (a : arg) : Prop :=
  match a with ASafe s => clean U s | _ => True end.

Lemma escape_clean_gen U a : ascii_ok U -> arg_clean U a -> clean U (escape U a).
Proof. intros HU Ha. destruct a; [exact Ha|apply escape_clean; cbn; auto|apply escape_clean; cbn; auto]. Qed.

Lemma join_clean U sep l : clean U sep -> Forall (clean U) l -> clean U (join sep l).
Proof.
  intros Hs. induction l as [|x r IH]; intros H; cbn; [constructor|].
  inversion H; subst. destruct r; auto. apply clean_app; auto. apply clean_app; auto.
Qed.

Theorem format_line_clean U prio target name on off extra :
  ascii_ok U -> U prio = true -> clean U target -> clean U name -> clean U on -> clean U off ->
  Forall (arg_clean U) extra ->
  clean U (format_line U prio target name on off extra).
Proof.
  intros HU Hp Ht Hn Hon Hoff He. unfold format_line.
  assert (Hcs : clean U [58; 32]) by (repeat apply clean_cons; try apply clean_nil; apply HU; lia).
  apply clean_cons; auto. repeat (apply clean_app; auto).
  destruct extra as [|e0 er]; [apply clean_nil|].
  apply clean_cons; [apply HU; lia|]. apply join_clean.
  - apply clean_cons; [apply HU; lia|apply clean_nil].
  - apply Forall_forall. intros x Hx. apply in_map_iff in Hx. destruct Hx as [a [<- Ha]].
    apply escape_clean_gen; auto. rewrite Forall_forall in He. auto.
Qed.

(* a clean string contains no code point outside U; with the generated tables: no control, no format
   character, no line/paragraph separator *)
Theorem clean_excludes U s c : clean U s -> U c = false -> ~ In c s.
Proof. intros H Hc Hin. unfold clean in H. rewrite Forall_forall in H. apply H in Hin. congruence. Qed.

(* colour: the coloured line is the uncoloured one with [on]/[off] inserted around the tag name *)
Theorem colour_structure U prio target name on off extra :
  exists pre suf,
    format_line U prio target name [] [] extra = pre ++ name ++ suf /\
    format_line U prio target name on off extra = pre ++ on ++ name ++ off ++ suf.
Proof.
  exists (prio :: [58; 32] ++ target ++ [58; 32]),
         (match extra with [] => [] | _ => 32 :: join [32] (map (escape U) extra) end).
  unfold format_line. cbn [app]. split; rewrite <- ?app_assoc; reflexivity.
Qed.

(* priorities *)
Definition prio_rank (p : N) : N := if N.eqb p 80 then 1 else if N.eqb p 73 then 2 else if N.eqb p 87 then 3 else 4.

Theorem priority_monotone : forall s1 s2 c1 c2,
  sev_rank s1 <= sev_rank s2 -> cer_rank c1 <= cer_rank c2 ->
  prio_rank (priority s1 c1) <= prio_rank (priority s2 c2).
Proof. intros s1 s2 c1 c2; destruct s1, s2, c1, c2; cbn; lia. Qed.

Theorem priority_table :
  map (fun sc => priority (fst sc) (snd sc))
      [(Pedantic, WildGuess); (Pedantic, Possible); (Pedantic, Certain);
       (Wishlist, WildGuess); (Wishlist, Possible); (Wishlist, Certain);
       (Minor, WildGuess); (Minor, Possible); (Minor, Certain);
       (Normal, WildGuess); (Normal, Possible); (Normal, Certain);
       (Important, WildGuess); (Important, Possible); (Important, Certain);
       (Serious, WildGuess); (Serious, Possible); (Serious, Certain)]
  = [80;80;80; 73;73;73; 73;73;87; 73;87;87; 87;69;69; 69;69;69].   (* P P P / I I I / I I W / I W W / W E E / E E E *)
Proof. reflexivity. Qed.

(* provenance: a verbatim value built only from clean literals and clean trusted values is clean *)
Inductive prov_val (U : N -> bool) : prov -> list N -> Prop :=
| PV_lit s : prov_val U (PLit s) s
| PV_cat ps vs : Forall2 (prov_val U) ps vs -> prov_val U (PCat ps) (concat vs)
| PV_trusted k v : clean U v -> prov_val U (PTrusted k) v
| PV_tainted src v : prov_val U (PTainted src) v.

Lemma ascii_printable_clean U s : ascii_ok U -> forallb ascii_printable s = true -> clean U s.
Proof.
  intros HU H. rewrite forallb_forall in H. apply Forall_forall. intros c Hc. apply HU.
  apply H in Hc. unfold ascii_printable, in_range in Hc. lia.
Qed.

Section ProvInd.
  Variable P : prov -> Prop.
  Hypothesis Hlit : forall s, P (PLit s).
  Hypothesis Hcat : forall ps, Forall P ps -> P (PCat ps).
  Hypothesis Htr : forall k, P (PTrusted k).
  Hypothesis Hta : forall s, P (PTainted s).
  Fixpoint prov_ind' (p : prov) : P p :=
    match p with
    | PLit s => Hlit s
    | PCat ps => Hcat ps ((fix go (l : list prov) : Forall P l :=
                             match l with [] => Forall_nil P | x :: r => Forall_cons x (prov_ind' x) (go r) end) ps)
    | PTrusted k => Htr k
    | PTainted s => Hta s
    end.
End ProvInd.

Theorem prov_ok_sound U : ascii_ok U -> forall p v, prov_ok p = true -> prov_val U p v -> clean U v.
Proof.
  intros HU p. induction p as [s|ps IH|k|src] using prov_ind'; intros v Hok Hv.
  - inversion Hv; subst. apply ascii_printable_clean; auto.
  - inversion Hv as [|ps' vs HF| |]; subst. cbn in Hok. clear Hv.
    revert Hok. induction HF as [|p0 v0 pr vr H0 HF' IHF]; intros Hok; cbn; [constructor|].
    cbn in Hok. apply andb_prop in Hok. destruct Hok as [Hok0 Hokr]. inversion IH; subst.
    apply clean_app; auto.
  - inversion Hv; subst. auto.
  - discriminate.
Qed.

(* ---------- range tables ---------- *)
Lemma in_ranges_cover rs lo hi :
  existsb (fun r => (fst r <=? lo) && (hi <=? snd r)) rs = true ->
  forall c, lo <= c <= hi -> in_ranges rs c = true.
Proof.
  intros H c Hc. apply existsb_exists in H. destruct H as [r [Hin Hr]].
  unfold in_ranges. apply existsb_exists. exists r. split; auto. lia.
Qed.

Lemma ranges_disjoint hs ps :
  forallb (fun h => forallb (fun p => (snd h <? fst p) || (snd p <? fst h)) ps) hs = true ->
  forall c, in_ranges hs c = true -> in_ranges ps c = false.
Proof.
  intros H c Hc. unfold in_ranges in *. apply existsb_exists in Hc. destruct Hc as [h [Hh Hch]].
  rewrite forallb_forall in H. specialize (H h Hh). rewrite forallb_forall in H.
  destruct (existsb (fun r => (fst r <=? c) && (c <=? snd r)) ps) eqn:E; auto.
  apply existsb_exists in E. destruct E as [p [Hp Hcp]]. specialize (H p Hp). lia.
Qed.

Fixpoint list_eqb (a b : list N) : bool :=
  match a, b with
  | [], [] => true
  | x :: a', y :: b' => N.eqb x y && list_eqb a' b'
  | _, _ => false
  end.

(* Source tie, lib/encodings.py, the charset statement of Checker.check_mime and the tail of
   Language.get_unrepresentable_characters: the functions of Generated/EncodingsSrc.v (translated from /repo on every
   run by tools/gen/gen_encodings_src.py) equal the hand-written model Model/Encodings.v / Model/EncodingsMime.v, for all
   tables `d`, all oracles `o`, all arguments. *)
From Coq Require Import List ZArith NArith Bool Lia.
From I18n Require Import Lib.Outcome Generated.CodecOracle Generated.EncodingsData Generated.Charmaps
  Model.Encodings Model.EncodingsPy Model.EncodingsMime Generated.EncodingsSrc Proofs.Charmap Proofs.EncodingsTable.
Import ListNotations.

(* ---------- embeddings of the model's results ---------- *)
Definition of_propose (r : outcome (option (list N)) unit) : pres (list N) :=
  match r with Ok (Some p) => PRet p | Ok None => PNone | Err _ => PRaise PEncodingLookupError (* no such result *) | Crash c => of_crash c end.
Definition of_ascii (r : outcome bool unit) : pres bool :=
  match r with Ok b => PRet b | Err _ => PRaise PEncodingLookupError | Crash c => of_crash c end.
Definition of_unrep (r : outcome (list (list N)) unit) : pres (list (list N)) :=
  match r with Ok l => PRet l | Err _ => PNone | Crash c => PRaise (PForeign c) end.
Definition has_key (f : list N) (files : list (list N * list N)) : bool :=
  match assoc f files with Some _ => true | None => false end.
(* _codec_search_function: None / the charmap codec of the file the model names / the iconv codec *)
Definition of_search (files : list (list N * list N)) (name : list N) (r : search_result) : pres codecinfo :=
  match r with
  | SNone => PNone
  | SIconv e => PRet (IconvCodec e)
  | SCharmap f => match assoc f files with Some t => PRet (CharmapCodec name t) | None => PRaise PEncodingLookupError end
  end.

(* ---------- is_portable_encoding ---------- *)
Lemma src_is_portable_encoding_eq : forall d o enc py,
  src_is_portable_encoding d o enc py = PRet (is_portable_encoding d o py enc).
Proof.
  intros d o enc py. unfold src_is_portable_encoding, is_portable_encoding, s_iso_us, s_iso_hy, pget, pmem, pv_is_none.
  cbv zeta.
  destruct (starts_with _ (co_lower o enc)); destruct py;
    match goal with |- context [assoc ?k ?l] => destruct (assoc k l) as [[|]|] end; reflexivity.
Qed.

(* ---------- propose_portable_encoding ---------- *)
Lemma src_propose_portable_encoding_eq : forall d o enc py,
  src_propose_portable_encoding d o enc py = of_propose (propose_portable_encoding d o enc).
Proof.
  intros d o enc py. unfold src_propose_portable_encoding, propose_portable_encoding.
  destruct (co_lookup o enc) as [n|]; [|reflexivity].
  destruct (assoc n (ed_c2e d)) as [e|]; [|reflexivity].
  cbv zeta. rewrite src_is_portable_encoding_eq. cbn [pbind].
  destruct (is_portable_encoding d o true e); reflexivity.
Qed.

(* ---------- is_ascii_compatible_encoding ---------- *)
Lemma src_is_ascii_compatible_encoding_eq : forall d o enc missing_ok,
  src_is_ascii_compatible_encoding d o enc missing_ok = of_ascii (is_ascii_compatible_encoding o missing_ok enc).
Proof.
  intros d o enc mo. unfold src_is_ascii_compatible_encoding, is_ascii_compatible_encoding.
  destruct (co_ascii o enc); destruct mo; reflexivity.
Qed.

(* ---------- charmap_encoding, _codec_search_function ---------- *)
Lemma src_charmap_encoding_eq : forall d o files enc,
  src_charmap_encoding d o files enc =
  match assoc (co_upper o enc) files with
  | Some t => PRet (CharmapCodec enc t)
  | None => PRaise PEncodingLookupError
  end.
Proof. intros. unfold src_charmap_encoding. destruct (assoc _ files); reflexivity. Qed.

Lemma src_codec_search_function_eq : forall d o um files enc,
  co_upper o = ascii_upper ->
  (forall e, sget um e e = unmangle d e) ->
  (forall f, mem f (ed_charmap_files d) = has_key f files) ->
  src_codec_search_function d o um files enc = of_search files (unmangle d enc) (codec_search d enc).
Proof.
  intros d o um files enc Hup Hum Hfiles. unfold src_codec_search_function, codec_search. cbv zeta.
  rewrite Hum. set (e := unmangle d enc).
  assert (Hours : pbind (src_charmap_encoding d o files e) (fun r => PRet r) (PRaise (PForeign CTypeError))
                    (fun x => match x with PEncodingLookupError => PRet (IconvCodec e) | _ => PRaise x end) =
                  of_search files e (if mem (ascii_upper e) (ed_charmap_files d) then SCharmap (ascii_upper e) else SIconv e)).
  { rewrite src_charmap_encoding_eq, Hup, Hfiles. unfold has_key.
    destruct (assoc (ascii_upper e) files) as [t|] eqn:Ea; cbn [pbind of_search]; [rewrite Ea|]; reflexivity. }
  unfold pget, pv_is_none.
  destruct (assoc e (ed_portable d)) as [[|]|].
  - destruct (mem e (ed_extra d)); [exact Hours|reflexivity].
  - exact Hours.
  - destruct (mem e (ed_extra d)); [exact Hours|reflexivity].
Qed.

(* the hypotheses of that lemma hold for the tables the code sees today *)
Lemma unmangle_sget : forall d um,
  forallb (fun mk => list_eqb (unmangle d (fst mk)) (snd mk)) um = true ->
  (ed_py39 d = true -> forallb (fun k => opt_eqb (assoc (mangle k) um) (Some k)) (unmangle_keys d) = true) ->
  (ed_py39 d = false -> um = []) ->
  forall e, sget um e e = unmangle d e.
Proof.
  intros d um H1 H2 H3 e. unfold sget. destruct (assoc e um) as [v|] eqn:Ea.
  - apply assoc_in in Ea. rewrite forallb_forall in H1. specialize (H1 _ Ea). cbn [fst snd] in H1.
    apply list_eqb_eq in H1. symmetry. exact H1.
  - unfold unmangle. destruct (ed_py39 d) eqn:Ep; [|reflexivity].
    destruct (find (fun k => list_eqb (mangle k) e) (unmangle_keys d)) as [k|] eqn:Ef; [|reflexivity].
    apply find_some in Ef. destruct Ef as [Hin Hm]. apply list_eqb_eq in Hm.
    specialize (H2 eq_refl). rewrite forallb_forall in H2. specialize (H2 _ Hin).
    apply opt_eqb_eq in H2. rewrite Hm, Ea in H2. discriminate.
Qed.

Lemma real_unmangle_sget : forall e, sget unmangle_table e e = unmangle real_enc_data e.
Proof.
  apply unmangle_sget.
  - exact (proj1 real_unmangle_table_agrees).
  - intros H. rewrite (proj2 real_unmangle_table_agrees). exact H.
  - intros H. vm_compute in H. first [discriminate H | vm_compute; reflexivity].
Qed.

Lemma has_key_mem : forall f (l : list (list N * list N)), has_key f l = mem f (map fst l).
Proof.
  intros f l. unfold has_key, mem. induction l as [|[k v] r IH]; cbn [assoc map fst existsb]; [reflexivity|].
  destruct (list_eqb f k); [reflexivity|exact IH].
Qed.

Lemma real_files_agree : forall f, mem f (ed_charmap_files real_enc_data) = has_key f charmaps.
Proof. intros f. rewrite has_key_mem, (proj2 real_charmap_files). reflexivity. Qed.

Lemma real_src_codec_search_function_eq : forall enc,
  src_codec_search_function real_enc_data real_oracle unmangle_table charmaps enc =
  of_search charmaps (unmangle real_enc_data enc) (codec_search real_enc_data enc).
Proof.
  intros enc. apply src_codec_search_function_eq; [reflexivity|exact real_unmangle_sget|exact real_files_agree].
Qed.

(* ---------- the charset statement of Checker.check_mime ---------- *)
Lemma tag_args_shape : forall l : list (list N),
  unrepresentable_tag_args l =
  match l with
  | [] => None
  | _ :: _ => Some (if (5 <? Z.of_nat (length l))%Z then firstn 4 l ++ [s_dots] else l)
  end.
Proof.
  intros l. unfold unrepresentable_tag_args. destruct l as [|x r]; [reflexivity|]. f_equal.
  destruct (Nat.ltb 5 (length (x :: r))) eqn:E.
  - apply Nat.ltb_lt in E. replace (5 <? Z.of_nat (length (x :: r)))%Z with true by (symmetry; apply Z.ltb_lt; lia). reflexivity.
  - apply Nat.ltb_ge in E. replace (5 <? Z.of_nat (length (x :: r)))%Z with false; [reflexivity|].
    symmetry. apply Z.ltb_ge. lia.
Qed.

(* `if ctx.language is not None: ...` at the end of every path of the statement; the length test may be written either way *)
Ltac mime_unrep :=
  unfold mime_unrepresentable;
  match goal with |- context [if ?hl then pbind _ _ _ _ else _] => destruct hl end; [|reflexivity];
  match goal with |- context [pbind (?u ?e)] =>
    let l := fresh "l" in
    destruct (u e) as [l| | | |]; cbn [pbind]; try reflexivity;
    cbv zeta; rewrite tag_args_shape; rewrite ?Z.gtb_ltb;
    destruct l as [|? ?]; [reflexivity|]
  end;
  match goal with |- context [(5 <? ?n)%Z] => destruct (5 <? n)%Z end; reflexivity.

Lemma src_check_mime_charset_eq : forall d o is_template has_language unrep enc ct,
  src_check_mime_charset d o is_template has_language unrep enc ct =
  mime_charset d o is_template has_language unrep enc ct.
Proof.
  intros d o it hl unrep enc ct. unfold src_check_mime_charset, mime_charset, classify.
  rewrite src_is_ascii_compatible_encoding_eq.
  destruct (is_ascii_compatible_encoding o false enc) as [[|]|[]|c]; cbn [of_ascii pbind].
  - cbv zeta. cbn [negb]. rewrite src_is_portable_encoding_eq. cbn [pbind].
    destruct (is_portable_encoding d o true enc).
    + mime_unrep.
    + rewrite src_propose_portable_encoding_eq.
      destruct (propose_portable_encoding d o enc) as [[p|]|[]|c]; cbn [of_propose pbind obind].
      * mime_unrep.
      * mime_unrep.
      * reflexivity.
      * destruct c; reflexivity.
  - cbv zeta. cbn [negb]. mime_unrep.
  - destruct (list_eqb enc s_CHARSET) eqn:E; unfold s_CHARSET in E; rewrite E; [destruct it|]; reflexivity.
  - destruct c; reflexivity.
Qed.

(* ---------- Language.get_unrepresentable_characters from `result = []` on ---------- *)
Lemma src_unrepresentable_for_eq : forall encode cli l acc,
  src_unrepresentable_tail_for encode cli acc l =
  match unrepresentable_scan encode cli l with
  | Ok r => PRet (acc ++ r)
  | Err _ => PNone
  | Crash c => PRaise (PForeign c)
  end.
Proof.
  intros encode cli l; induction l as [|ch r IH]; intros acc; cbn [src_unrepresentable_tail_for unrepresentable_scan].
  - rewrite app_nil_r. reflexivity.
  - destruct (encode ch) as [[]|[]|c]; [apply IH| |reflexivity].
    cbv zeta. destruct cli; [reflexivity|].
    rewrite IH. destruct (unrepresentable_scan encode false r) as [r'|[]|c]; cbn [obind]; [|reflexivity|reflexivity].
    rewrite <- app_assoc. reflexivity.
Qed.

Lemma src_unrepresentable_tail_eq : forall encode cli chars,
  src_unrepresentable_tail encode cli chars = of_unrep (get_unrepresentable_characters encode cli chars).
Proof.
  intros encode cli chars. unfold src_unrepresentable_tail, get_unrepresentable_characters.
  destruct (encode (concat chars)) as [[]|[]|c]; [reflexivity| |reflexivity].
  cbv zeta. rewrite src_unrepresentable_for_eq.
  destruct (unrepresentable_scan encode cli chars) as [r|[]|c]; reflexivity.
Qed.

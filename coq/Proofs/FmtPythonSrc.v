(* Source tie for C12, part 1 (notes/SRC11.md): the generated translations of FormatString.add_argument and
   Conversion.__init__ (Generated/FmtPythonSrc.v, written by tools/gen/gen_fmtpython_src.py from the working tree) equal the
   hand-written model Model/FmtPython.v (add_seq / add_map, conv_init) for all arguments. *)
From Coq Require Import List NArith ZArith Bool Lia.
From I18n Require Import Lib.Outcome Model.FmtPython Model.FmtPythonPy Generated.FmtPythonSrc.
Import ListNotations.
Local Open Scope N_scope.

(* ---------------------------------------------------------------- embeddings of the model's values *)
Definition tyname (t : ptype) : pystr :=
  match t with
  | TyInt => [105; 110; 116] | TyFloat => [102; 108; 111; 97; 116] | TyChr => [99; 104; 114]
  | TyStr => [115; 116; 114] | TyObject => [111; 98; 106; 101; 99; 116] | TyNone => [78; 111; 110; 101]
  end.
Definition of_seqarg (a : seqarg) : parg :=
  match a with SVarWidth => AVarWidth | SVarPrec => AVarPrec | SConv t => AConv (tyname t) end.
Definition of_seq (l : list seqarg) : list parg := map of_seqarg l.
Definition of_types (ts : list ptype) : list parg := map (fun t => AConv (tyname t)) ts.
Definition of_map (m : list (list N * list ptype)) : argmap := map (fun kv => (fst kv, of_types (snd kv))) m.
Definition of_warn (w : py_warn) : pwarn :=
  match w with
  | WFlag l => PWarn KRedundantFlag (map AChr l)
  | WPrec => PWarn KRedundantPrecision [AOther]
  | WLength c => PWarn KRedundantLength [AChr c]
  | WObsolete => PWarn KObsoleteConversion [AStr [37; 117]; AStr [37; 100]]
  end.
Definition of_warns (l : list py_warn) : list pwarn := map of_warn l.
Definition of_state (st : pstate) : list parg * argmap * list pwarn :=
  (of_seq (st_seq st), of_map (st_map st), of_warns (st_warn st)).

Definition of_out {A B} (f : A -> B) (o : outcome A py_err) : fres B :=
  match o with
  | Ok a => FOk (f a)
  | Err (EError r) => FRaise KError (Some r)
  | Err EForbiddenKey => FRaise KForbiddenArgumentKey None
  | Err EMixture => FRaise KArgumentIndexingMixture None
  | Err ETypeMismatch => FRaise KArgumentTypeMismatch None
  | Err EWidthRange => FRaise KWidthRangeError None
  | Err EPrecRange => FRaise KPrecisionRangeError None
  | Crash CAssertion => FAssert
  | Crash COutOfFuel => FFuel
  | Crash _ => FRaise KRuntimeError None
  end.

(* what the scanner passes for width / prec: None when the `*` form is used, else the number / None *)
Definition of_width (d : directive) : pnum := if d_var_width d then PNone else PInt (d_width d).
Definition of_prec (d : directive) : pnum :=
  if d_var_prec d then PNone else match d_prec d with Some p => PInt p | None => PNone end.

(* ---------------------------------------------------------------- add_argument *)
Lemma of_map_add k t m : of_map (map_add k t m) = dd_append (of_map m) k (AConv (tyname t)).
Proof.
  induction m as [|[k0 ts] r IH]; [reflexivity|].
  cbn [map_add of_map map dd_append fst snd]. destruct (list_eqb k0 k).
  - cbn [map fst snd]. unfold of_types. rewrite map_app. reflexivity.
  - cbn [map fst snd]. f_equal. exact IH.
Qed.

Lemma of_map_nil m : is_nil (of_map m) = is_nil m.
Proof. destruct m; reflexivity. Qed.
Lemma of_seq_nil l : is_nil (of_seq l) = is_nil l.
Proof. destruct l; reflexivity. Qed.

Definition st_pair (st : pstate) : list parg * argmap := (of_seq (st_seq st), of_map (st_map st)).

Lemma src_add_argument_seq inf st a :
  src_FormatString_add_argument inf (of_seq (st_seq st)) (of_map (st_map st)) None (of_seqarg a)
  = match add_seq st a with Some st' => FOk (st_pair st') | None => FRaise KIndexError None end.
Proof.
  unfold src_FormatString_add_argument, add_seq, st_pair. rewrite of_map_nil.
  destruct (st_map st); cbn; [|reflexivity]. unfold of_seq. rewrite map_app. reflexivity.
Qed.

Lemma src_add_argument_map inf st k t :
  src_FormatString_add_argument inf (of_seq (st_seq st)) (of_map (st_map st)) (Some k) (AConv (tyname t))
  = match add_map st k t with Some st' => FOk (st_pair st') | None => FRaise KIndexError None end.
Proof.
  unfold src_FormatString_add_argument, add_map, st_pair. rewrite of_seq_nil.
  destruct (st_seq st); cbn; [|reflexivity]. rewrite of_map_add. reflexivity.
Qed.

(* ---------------------------------------------------------------- Conversion.__init__: the loop over flags.items() *)
Lemma if_negb {A} (c : bool) (a b : A) : (if negb c then a else b) = if c then b else a.
Proof. destruct c; reflexivity. Qed.

Lemma src_conversion_for1_eq inf s conv fl : forall w,
  src_Conversion_init_for1 inf fl w s conv
  = match flag_warns inf conv fl with Some ws => FOk (w ++ of_warns ws) | None => FAssert end.
Proof.
  induction fl as [|[f n] r IH]; intros w.
  - cbn. rewrite app_nil_r. reflexivity.
  - cbn [src_Conversion_init_for1 flag_warns]. rewrite <- !app_assoc.
    destruct (Nat.eqb n 1); cbn [negb fbind obind_opt app];
    (destruct (f =? 35);
     [ destruct (mem conv (i_oct inf ++ i_hex inf ++ i_float inf)); cbn [negb fbind obind_opt app]; rewrite IH;
       destruct (flag_warns inf conv r); cbn [fbind obind_opt app of_warns map of_warn]; try reflexivity;
       rewrite <- ?app_assoc; reflexivity
     | destruct (f =? 45);
       [ cbn [negb fbind obind_opt app]; rewrite IH;
         destruct (flag_warns inf conv r); cbn [fbind obind_opt app of_warns map of_warn]; try reflexivity;
         rewrite <- ?app_assoc; reflexivity
       | destruct (mem f [48; 32; 43]); cbn [negb fbind obind_opt app]; [|reflexivity];
         destruct (mem conv (i_int inf ++ i_float inf)); cbn [negb fbind obind_opt app]; rewrite IH;
         destruct (flag_warns inf conv r); cbn [fbind obind_opt app of_warns map of_warn]; try reflexivity;
         rewrite <- ?app_assoc; reflexivity ] ]).
Qed.

(* ---------------------------------------------------------------- Conversion.__init__ *)
Lemma nth_error_last {A} (l : list A) (d : A) : l <> [] -> nth_error l (length l - 1) = Some (last l d).
Proof.
  induction l as [|x r IH]; [congruence|]. intros _. destruct r as [|y r']; [reflexivity|].
  replace (length (x :: y :: r') - 1)%nat with (S (length (y :: r') - 1)) by (cbn [length]; lia).
  cbn [nth_error]. rewrite IH by congruence. reflexivity.
Qed.

Lemma py_getitem_last (l : pystr) : l <> [] -> py_getitem l (-1) = Some (last l 0).
Proof.
  intros Hl. unfold py_getitem. cbn [Z.ltb Z.compare].
  assert (Hlen : (0 < length l)%nat) by (destruct l; [congruence|cbn; lia]).
  replace ((-1 + Z.of_nat (length l) <? 0)%Z || (Z.of_nat (length l) <=? -1 + Z.of_nat (length l))%Z) with false
    by (symmetry; apply orb_false_iff; split; [apply Z.ltb_ge|apply Z.leb_gt]; lia).
  replace (Z.to_nat (-1 + Z.of_nat (length l))) with (length l - 1)%nat by lia.
  apply nth_error_last; exact Hl.
Qed.

Lemma fbind_if_app {B} (c : bool) (w : list pwarn) (x : pwarn) (k : list pwarn -> fres B) :
  fbind (if c then FOk (w ++ [x]) else FOk w) k = k (w ++ (if c then [x] else [])).
Proof. destruct c; cbn [fbind]; [|rewrite app_nil_r]; reflexivity. Qed.

Lemma map_if {A B} (f : A -> B) (c : bool) (a b : list A) : map f (if c then a else b) = if c then map f a else map f b.
Proof. destruct c; reflexivity. Qed.

Lemma add_seq_warn st a st' : add_seq st a = Some st' -> st_warn st' = st_warn st.
Proof. unfold add_seq. destruct (st_map st); intros H; inversion H; reflexivity. Qed.
Lemma add_map_warn st k t st' : add_map st k t = Some st' -> st_warn st' = st_warn st.
Proof. unfold add_map. destruct (st_seq st); intros H; inversion H; reflexivity. Qed.

Lemma ftry_index {A} a (h : fres A) : ftry (FRaise KIndexError a) KIndexError h = h.
Proof. reflexivity. Qed.

Ltac csimp := cbn [fbind ftry obind of_out of_state st_pair pnum_is_none negb fst snd st_seq st_map st_warn].

(* one call of parent.add_argument(None, VariableWidth(self) / VariablePrecision(self)) *)
Ltac add_var_step :=
  match goal with
  | |- context [src_FormatString_add_argument ?i (of_seq (st_seq ?s)) (of_map (st_map ?s)) None AVarWidth] =>
    change AVarWidth with (of_seqarg SVarWidth); rewrite (src_add_argument_seq i s SVarWidth);
    let E := fresh "Eadd" in destruct (add_seq s SVarWidth) eqn:E
  | |- context [src_FormatString_add_argument ?i (of_seq (st_seq ?s)) (of_map (st_map ?s)) None AVarPrec] =>
    change AVarPrec with (of_seqarg SVarPrec); rewrite (src_add_argument_seq i s SVarPrec);
    let E := fresh "Eadd" in destruct (add_seq s SVarPrec) eqn:E
  end.

Lemma src_conversion_init_eq inf st d : d_text d <> [] ->
  src_Conversion_init inf (of_seq (st_seq st)) (of_map (st_map st)) (of_warns (st_warn st))
    (d_text d) (d_key d) (d_flags d) (of_width d) (d_var_width d) (of_prec d) (d_var_prec d) (d_length d) (d_conv d)
  = of_out of_state (conv_init inf st d).
Proof.
  intros Htext. unfold src_Conversion_init, conv_init. rewrite (py_getitem_last _ Htext).
  destruct (last (d_text d) 0 =? d_conv d); cbn [negb]; [|reflexivity].
  rewrite src_conversion_for1_eq. unfold conv_warns.
  destruct (flag_warns inf (d_conv d) (d_flags d)) as [w1|]; cbn [fbind obind_opt]; [|reflexivity].
  cbv zeta. rewrite !fbind_if_app.
  (* operand order of the two flag-pair tests does not matter *)
  rewrite ?(andb_comm (counter_mem 48 (d_flags d)) (counter_mem 45 (d_flags d))), ?(andb_comm (counter_mem 32 (d_flags d)) (counter_mem 43 (d_flags d))).
  (* width *)
  unfold of_width. destruct (d_var_width d) eqn:Hvw; csimp;
    [ add_var_step; rewrite ?ftry_index | destruct (d_width d >? i_ssize_max inf)%Z ]; csimp; try reflexivity.
  (* precision *)
  all: unfold of_prec, has_prec; destruct (d_var_prec d) eqn:Hvp; csimp;
    [ add_var_step; rewrite ?ftry_index
    | destruct (d_prec d) as [pz|]; csimp; [destruct (pz >? i_ssize_max inf)%Z|] ]; csimp; try reflexivity.
  all: cbn [orb].
  (* length, type *)
  all: destruct (d_length d) as [lc|]; csimp.
  all: unfold conv_type;
    (destruct (mem (d_conv d) (i_int inf));
     [ destruct (d_conv d =? 117)
     | destruct (mem (d_conv d) (i_float inf));
       [| destruct (d_conv d =? 99); [| destruct (d_conv d =? 115); [| destruct (mem (d_conv d) [114; 97]); [| destruct (d_conv d =? 37) ]]]]]);
    csimp; try reflexivity.
  all: match goal with |- context [list_eqb ?a ?b] => let v := eval vm_compute in (list_eqb a b) in change (list_eqb a b) with v end; csimp.
  (* key, add_argument(key, self) *)
  all: destruct (d_key d) as [k|]; csimp; try reflexivity.
  all: try change (AConv [105; 110; 116]) with (AConv (tyname TyInt));
       try change (AConv [102; 108; 111; 97; 116]) with (AConv (tyname TyFloat));
       try change (AConv [99; 104; 114]) with (AConv (tyname TyChr));
       try change (AConv [115; 116; 114]) with (AConv (tyname TyStr));
       try change (AConv [111; 98; 106; 101; 99; 116]) with (AConv (tyname TyObject)).
  all: try (rewrite src_add_argument_map;
            match goal with |- context [add_map ?s ?k ?t] => let E := fresh "Eadd" in destruct (add_map s k t) eqn:E end;
            rewrite ?ftry_index; csimp; try reflexivity).
  all: try (match goal with |- context [AConv (tyname ?t)] => change (AConv (tyname t)) with (of_seqarg (SConv t)) end;
            rewrite src_add_argument_seq;
            match goal with |- context [add_seq ?s (SConv ?t)] => let E := fresh "Eadd" in destruct (add_seq s (SConv t)) eqn:E end;
            rewrite ?ftry_index; csimp; try reflexivity).
  (* the warnings *)
  all: apply f_equal; apply f_equal2; [reflexivity|].
  all: repeat match goal with
       | H : add_seq _ _ = Some _ |- _ => rewrite (add_seq_warn _ _ _ H); clear H
       | H : add_map _ _ _ = Some _ |- _ => rewrite (add_map_warn _ _ _ _ H); clear H
       end.
  all: cbn [st_warn]; unfold of_warns, pair_warns; rewrite ?map_app, ?map_if; cbn [map of_warn andb app]; rewrite <- ?app_assoc; cbn [app];
       rewrite ?app_nil_r; try reflexivity.
Qed.

(* The lexer model `lex` (from lib/intexpr.py's rply rules) produces exactly the token stream of
   plural.y's yylex (Spec/CPlural.v), and TBad where yylex returns YYERRCODE or stops early at a
   terminator. *)
From Coq Require Import List ZArith Bool Lia Arith.
From I18n Require Import Lib.Outcome Model.IntExpr Spec.CPlural Proofs.IntExprParse Proofs.IntExprFuel
  Proofs.IntExprComplete Proofs.IntExprLexStep.
Import ListNotations.
Local Open Scope N_scope.

Lemma flush_None k : flush None k = k.
Proof. reflexivity. Qed.

Lemma lex_clean_flush acc c r : is_digit c = false -> lex_clean acc c r = flush acc (lex_clean None c r).
Proof.
  intros Hd. unfold lex_clean. rewrite Hd.
  repeat match goal with |- context [if ?b then _ else _] => destruct b; try reflexivity end.
Qed.

(* ------------------------------------------------------------------ *)
(* digit runs *)

Lemma is_digit_c c : is_digit c = c_isdigit c.
Proof. reflexivity. Qed.

Lemma lex_number : forall r z k,
  match number z k r with
  | (n, d, r') => lex (Some (z, k)) r = TInt n d :: lex None r' /\ exists pre, r = pre ++ r'
  end.
Proof.
  induction r as [|c r IH]; intros z k; cbn [number].
  - split; [reflexivity|]. exists []. reflexivity.
  - rewrite <- is_digit_c. destruct (is_digit c) eqn:Hd.
    + specialize (IH (z * 10 + Z.of_N (c - 48))%Z (k + 1)).
      destruct (number (z * 10 + Z.of_N (c - 48))%Z (k + 1) r) as [[n d] r'].
      destruct IH as [IH [pre Hp]]. split.
      * rewrite lex_cons. unfold lex_clean. rewrite Hd. exact IH.
      * exists (c :: pre). cbn. congruence.
    + split; [|exists []; reflexivity].
      rewrite lex_cons, lex_clean_flush by exact Hd. rewrite <- lex_cons. reflexivity.
Qed.

(* ------------------------------------------------------------------ *)
(* one call of yylex against the model *)

Definition is_blank (c : N) : bool := (c =? 32) || (c =? 9).

Lemma lex_skip s : lex None s = lex None (skip_blanks s).
Proof.
  induction s as [|c r IH]; [reflexivity|]. cbn [skip_blanks].
  destruct ((c =? 32) || (c =? 9)) eqn:Hb; [|reflexivity].
  rewrite lex_cons. unfold lex_clean. rewrite Hb.
  assert (Hd : is_digit c = false).
  { apply orb_true_iff in Hb. destruct Hb as [Hb|Hb]; apply N.eqb_eq in Hb; subst; reflexivity. }
  rewrite Hd. exact IH.
Qed.

Lemma skip_blanks_suffix s : exists pre, s = pre ++ skip_blanks s.
Proof.
  induction s as [|c r [pre IH]]; [exists []; reflexivity|]. cbn [skip_blanks].
  destruct ((c =? 32) || (c =? 9)); [|exists []; reflexivity].
  exists (c :: pre). cbn. congruence.
Qed.

Lemma skip_blanks_head s c r : skip_blanks s = c :: r -> is_blank c = false.
Proof.
  induction s as [|c0 r0 IH]; [discriminate|]. cbn [skip_blanks].
  destruct ((c0 =? 32) || (c0 =? 9)) eqn:Hb; [exact IH|].
  intros H; inversion H; subst. exact Hb.
Qed.

(* what the model does where yylex returns t / YYERRCODE / YYEOF-at-a-terminator *)
Definition tok_post (c : N) (exp : list N) (r : ytok * list N) : Prop :=
  match r with
  | (YTOK t, s') => lex None (c :: exp) = t :: lex None s' /\ exists pre, exp = pre ++ s'
  | (YERR, _) => lex None (c :: exp) = [TBad]
  | (YEOF, s') => lex None (c :: exp) = [TBad] /\ s' = c :: exp
  end.

Ltac eqb_case c k :=
  let H := fresh "Hne" in
  destruct (N.eqb_spec c k) as [->|H].

Lemma lex_yytoken c exp : is_blank c = false -> tok_post c exp (yytoken c exp).
Proof.
  intros Hb. unfold yytoken. rewrite <- is_digit_c.
  destruct (is_digit c) eqn:Hd.
  { pose proof (lex_number exp (Z.of_N (c - 48)) 1) as H.
    destruct (number (Z.of_N (c - 48)) 1 exp) as [[n d] exp'].
    destruct H as [H Hp]. cbn [tok_post]. split; [|exact Hp].
    rewrite lex_cons. unfold lex_clean. rewrite Hd. exact H. }
  unfold tok_post. rewrite lex_cons. unfold lex_clean. rewrite Hd.
  unfold is_blank in Hb. rewrite Hb.
  assert (Hsuf1 : exists pre, exp = pre ++ exp) by (exists []; reflexivity).
  assert (Hsuf2 : forall k, peek exp =? k = true -> k <> 0 -> exists pre, exp = pre ++ tl exp).
  { intros k Hk Hk0. destruct exp as [|c' e']; unfold peek in Hk; cbn [hd] in Hk.
    - apply N.eqb_eq in Hk. congruence.
    - exists [c']. reflexivity. }
  (* two-character tokens *)
  eqb_case c 61. { cbn. destruct (peek exp =? 61) eqn:Hp; [split; [reflexivity|eapply Hsuf2; eauto; discriminate]|reflexivity]. }
  eqb_case c 33. { cbn. destruct (peek exp =? 61) eqn:Hp; split; try reflexivity; auto. eapply Hsuf2; eauto; discriminate. }
  eqb_case c 38. { cbn. destruct (peek exp =? 38) eqn:Hp; [split; [reflexivity|eapply Hsuf2; eauto; discriminate]|reflexivity]. }
  eqb_case c 124. { cbn. destruct (peek exp =? 124) eqn:Hp; [split; [reflexivity|eapply Hsuf2; eauto; discriminate]|reflexivity]. }
  eqb_case c 60. { cbn. destruct (peek exp =? 61) eqn:Hp; split; try reflexivity; auto. eapply Hsuf2; eauto; discriminate. }
  eqb_case c 62. { cbn. destruct (peek exp =? 61) eqn:Hp; split; try reflexivity; auto. eapply Hsuf2; eauto; discriminate. }
  eqb_case c 42. { cbn. split; [reflexivity|auto]. }
  eqb_case c 47. { cbn. split; [reflexivity|auto]. }
  eqb_case c 37. { cbn. split; [reflexivity|auto]. }
  eqb_case c 43. { cbn. split; [reflexivity|auto]. }
  eqb_case c 45. { cbn. split; [reflexivity|auto]. }
  eqb_case c 110. { cbn. split; [reflexivity|auto]. }
  eqb_case c 63. { cbn. split; [reflexivity|auto]. }
  eqb_case c 58. { cbn. split; [reflexivity|auto]. }
  eqb_case c 40. { cbn. split; [reflexivity|auto]. }
  eqb_case c 41. { cbn. split; [reflexivity|auto]. }
  destruct ((c =? 59) || (c =? 10) || (c =? 0)); [split; reflexivity|reflexivity].
Qed.

(* one step, on the whole string *)
Definition step_post (s : list N) (r : ytok * list N) : Prop :=
  match r with
  | (YTOK t, s') => lex None s = t :: lex None s' /\ (length s' < length s)%nat
  | (YERR, _) => lex None s = [TBad]
  | (YEOF, []) => lex None s = []
  | (YEOF, _ :: _) => lex None s = [TBad]
  end.

Lemma lex_yylex1 s : step_post s (yylex1 s).
Proof.
  unfold yylex1. pose proof (lex_skip s) as Hsk0.
  destruct (skip_blanks_suffix s) as [pre0 Hs].
  destruct (skip_blanks s) as [|c exp] eqn:Hsk; [exact Hsk0|].
  pose proof (lex_yytoken c exp (skip_blanks_head _ _ _ Hsk)) as H.
  destruct (yytoken c exp) as [[| |t] s']; cbn [tok_post step_post] in *.
  - destruct H as [H ->]. rewrite Hsk0. exact H.
  - rewrite Hsk0. exact H.
  - destruct H as [H [pre Hp]]. split; [rewrite Hsk0; exact H|].
    rewrite Hs, Hp, !app_length. cbn [length]. rewrite app_length. lia.
Qed.

(* ------------------------------------------------------------------ *)
(* the whole stream *)

Theorem yylex_lex s ts : Yylex s ts [] -> lex None s = ts.
Proof.
  intros H. remember [] as s' eqn:Hs'. induction H as [s s' H|s t s1 ts s' H HY IH]; subst.
  - pose proof (lex_yylex1 s) as Hl. rewrite H in Hl. exact Hl.
  - pose proof (lex_yylex1 s) as Hl. rewrite H in Hl. cbn in Hl. destruct Hl as [Hl _].
    rewrite Hl, IH; reflexivity.
Qed.

Theorem lex_yylex s : ~ In TBad (lex None s) -> Yylex s (lex None s) [].
Proof.
  remember (length s) as n eqn:Hn. revert s Hn.
  induction n as [n IH] using lt_wf_ind. intros s Hn Hbad.
  pose proof (lex_yylex1 s) as Hl.
  destruct (yylex1 s) as [[| |t] s'] eqn:Hy; cbn [step_post] in Hl.
  - destruct s' as [|c s'].
    + rewrite Hl. eapply Y_eof; eauto.
    + rewrite Hl in Hbad. exfalso. apply Hbad. left. reflexivity.
  - rewrite Hl in Hbad. exfalso. apply Hbad. left. reflexivity.
  - destruct Hl as [Hl Hlen]. rewrite Hl in Hbad |- *.
    eapply Y_tok; eauto. eapply IH; [|reflexivity|]; [lia|].
    intros Hin. apply Hbad. right. exact Hin.
Qed.

(* the model's token stream is yylex's, and it carries TBad exactly when yylex does not reach the end *)
Theorem lex_spec s ts : Yylex s ts [] <-> (lex None s = ts /\ ~ In TBad ts).
Proof.
  split.
  - intros H. pose proof (yylex_lex _ _ H) as Hl. split; [exact Hl|].
    clear Hl. remember [] as s' eqn:Hs'. induction H as [s s' H|s t s1 ts s' H HY IH]; subst.
    + intros [].
    + intros [Ht|Hin]; [|apply IH; auto].
      subst t. pose proof (lex_yytoken) as _.
      (* yylex never returns TBad as a token *)
      revert H. unfold yylex1. destruct (skip_blanks s) as [|c exp]; [discriminate|].
      unfold yytoken.
      destruct (c_isdigit c). { destruct (number (Z.of_N (c - 48)) 1 exp) as [[n d] e']. discriminate. }
      repeat match goal with |- context [if ?b then _ else _] => destruct b; try discriminate end.
  - intros [<- Hbad]. apply lex_yylex. exact Hbad.
Qed.

(* ------------------------------------------------------------------ *)
(* strings *)

(* the digit-limit side condition, in terms of the specification's lexer only: no NUMBER of the
   expression has more than maxd digits (maxd = 0: no limit) *)
Definition sdigits_ok (maxd : N) (s : list N) : Prop := forall ts, Yylex s ts [] -> digits_ok maxd ts.

Lemma sdigits_ok_unlimited s : sdigits_ok 0 s.
Proof. intros ts _. apply digits_ok_unlimited. Qed.

Lemma sdigits_ok_lex maxd s : digits_ok maxd (lex None s) -> sdigits_ok maxd s.
Proof. intros H ts HY. apply yylex_lex in HY. subst. exact H. Qed.

Theorem parse_string_tree maxd s e : sdigits_ok maxd s ->
  (parse_string maxd s = Ok e <-> plural_tree s e).
Proof.
  intros Hd. unfold parse_string, plural_tree. split.
  - intros H. apply parse_tokens_sound in H. exists (lex None s). split; [|exact H].
    apply lex_yylex. eapply G_no_bad; eauto.
  - intros [ts [HY HG]]. pose proof (Hd _ HY) as Hd'. apply yylex_lex in HY. subst ts.
    apply parse_tokens_complete; auto.
Qed.

Theorem parse_string_accept_iff maxd s : sdigits_ok maxd s ->
  ((exists e, parse_string maxd s = Ok e) <-> in_plural_language s).
Proof.
  intros Hd. unfold in_plural_language. split.
  - intros [e H]. apply (parse_string_tree maxd s e Hd) in H. destruct H as [ts H]. exists ts, e. exact H.
  - intros [ts [e H]]. exists e. apply (parse_string_tree maxd s e Hd). exists ts. exact H.
Qed.

Theorem parse_string_rejects maxd s : digits_ok maxd (lex None s) ->
  (parse_string maxd s = Err SynErr <-> ~ in_plural_language s).
Proof.
  intros Hd. pose proof (sdigits_ok_lex _ _ Hd) as Hd'. split.
  - intros H Hin. apply (parse_string_accept_iff maxd s Hd') in Hin. destruct Hin as [e He]. congruence.
  - intros Hn. destruct (parse_string maxd s) as [e|[]|c] eqn:E; auto.
    + exfalso. apply Hn. apply (parse_string_accept_iff maxd s Hd'). eauto.
    + exfalso. unfold parse_string in E. eapply parse_tokens_no_crash; eauto.
Qed.

(* the tree of a plural expression is unique *)
Theorem plural_tree_unique s e1 e2 : plural_tree s e1 -> plural_tree s e2 -> e1 = e2.
Proof.
  intros H1 H2.
  apply (parse_string_tree 0 s e1 (sdigits_ok_unlimited _)) in H1.
  apply (parse_string_tree 0 s e2 (sdigits_ok_unlimited _)) in H2. congruence.
Qed.

Theorem parse_string_no_crash maxd s c : digits_ok maxd (lex None s) -> parse_string maxd s <> Crash c.
Proof. intros Hd. apply parse_tokens_no_crash. exact Hd. Qed.

Theorem parse_string_crash_kind maxd s c : parse_string maxd s = Crash c -> c = CValueError.
Proof. apply parse_tokens_crash_kind. Qed.

(* a string containing ';', newline or NUL (where plural.y would stop reading) is never accepted *)
Theorem terminator_rejected maxd s c e : In c s -> (c = 59 \/ c = 10 \/ c = 0) -> parse_string maxd s <> Ok e.
Proof.
  intros Hin Hc H. unfold parse_string in H. apply parse_tokens_sound in H.
  pose proof (lex_yylex s (G_no_bad _ _ _ H)) as HY. clear H.
  remember (lex None s) as ts eqn:Hts. clear Hts.
  remember [] as s' eqn:Hs'. induction HY as [s s' H|s t s1 ts s' H HY IH]; subst.
  - (* YYEOF with everything consumed: s is all blanks *)
    unfold yylex1 in H. destruct (skip_blanks s) as [|c0 exp] eqn:Hsk.
    + clear H. induction s as [|c1 r IHs]; [destruct Hin|].
      cbn [skip_blanks] in Hsk. destruct ((c1 =? 32) || (c1 =? 9)) eqn:Hb; [|discriminate].
      destruct Hin as [->|Hin]; [|auto].
      destruct Hc as [->|[->| ->]]; discriminate.
    + unfold yytoken in H.
      destruct (c_isdigit c0). { destruct (number (Z.of_N (c0 - 48)) 1 exp) as [[n d] e']. discriminate. }
      repeat match goal with H : context [if ?b then _ else _] |- _ => destruct b; try discriminate end.
  - apply IH; auto. clear IH HY.
    (* the terminator is not consumed by a token *)
    unfold yylex1 in H.
    assert (Hsk : forall r, In c r -> In c (skip_blanks r)).
    { induction r as [|c1 r IHr]; [auto|]. cbn [skip_blanks].
      destruct ((c1 =? 32) || (c1 =? 9)) eqn:Hb; [|auto].
      intros [->|Hi]; [|auto]. destruct Hc as [->|[->| ->]]; discriminate. }
    apply Hsk in Hin. destruct (skip_blanks s) as [|c0 exp]; [destruct Hin|].
    assert (Hnum : forall r z k n d r', number z k r = (n, d, r') -> In c r -> In c r').
    { induction r as [|c1 r IHr]; intros z k n d r'; cbn [number].
      - intros _ [].
      - destruct (c_isdigit c1) eqn:Hd1.
        + intros Hn [->|Hi]; [|eapply IHr; eauto].
          destruct Hc as [->|[->| ->]]; discriminate.
        + intros Hn Hi. inversion Hn; subst. exact Hi. }
    assert (Htl : forall k, peek exp =? k = true -> k <> 59 -> k <> 10 -> k <> 0 -> In c exp -> In c (tl exp)).
    { intros k Hk H1 H2 H3 Hi. destruct exp as [|c1 e1]; [destruct Hi|].
      unfold peek in Hk; cbn [hd tl] in *. apply N.eqb_eq in Hk. subst c1.
      destruct Hi as [<-|Hi]; [|exact Hi]. destruct Hc as [Hc|[Hc|Hc]]; congruence. }
    unfold yytoken in H.
    destruct (c_isdigit c0) eqn:Hd0.
    { destruct (number (Z.of_N (c0 - 48)) 1 exp) as [[n d] e'] eqn:En. inversion H; subst.
      destruct Hin as [->|Hi]; [|eapply Hnum; eauto].
      destruct Hc as [->|[->| ->]]; discriminate. }
    assert (Hin' : forall k, c0 =? k = true -> k <> 59 -> k <> 10 -> k <> 0 -> In c exp).
    { intros k Hk H1 H2 H3. apply N.eqb_eq in Hk. subst c0.
      destruct Hin as [<-|Hi]; [|exact Hi]. destruct Hc as [Hc|[Hc|Hc]]; congruence. }
    repeat match goal with
    | H : (if ?b then _ else _) = _ |- _ => destruct b eqn:?; try discriminate
    end;
    inversion H; subst;
    repeat match goal with
    | Hp : peek _ =? ?k = true |- In _ (tl _) => apply (Htl k Hp); try discriminate
    end;
    match goal with
    | Hk : c0 =? ?k = true |- _ => apply (Hin' k Hk); discriminate
    end.
Qed.

(* ------------------------------------------------------------------ *)
(* on strings without ';', newline and NUL, plural.y reads everything: "accepts" and
   "accepts having read the whole string" coincide *)

Lemma yylex1_tok_suffix s t s1 : yylex1 s = (YTOK t, s1) -> exists pre, s = pre ++ s1.
Proof.
  unfold yylex1. destruct (skip_blanks_suffix s) as [pre0 Hs].
  destruct (skip_blanks s) as [|c exp] eqn:Hsk; [discriminate|].
  intros H. pose proof (lex_yytoken c exp (skip_blanks_head _ _ _ Hsk)) as Hp.
  rewrite H in Hp. cbn in Hp. destruct Hp as [_ [pre Hp]].
  exists (pre0 ++ c :: pre). rewrite Hs, Hp, <- app_assoc. reflexivity.
Qed.

Lemma yylex1_eof s s' : yylex1 s = (YEOF, s') -> s' = [] \/ exists c, In c s /\ is_terminator c = true.
Proof.
  unfold yylex1. destruct (skip_blanks_suffix s) as [pre0 Hs].
  destruct (skip_blanks s) as [|c exp] eqn:Hsk.
  - intros H; inversion H; auto.
  - intros H. right. exists c. split; [rewrite Hs; apply in_or_app; right; left; reflexivity|].
    unfold yytoken in H.
    destruct (c_isdigit c). { destruct (number (Z.of_N (c - 48)) 1 exp) as [[n d] e']. discriminate. }
    repeat match goal with
    | H : (if ?b then _ else _) = _ |- _ => destruct b eqn:?; try discriminate
    end.
    assumption.
Qed.

Theorem yylex_reads_all s ts s' : no_terminator s -> Yylex s ts s' -> s' = [].
Proof.
  intros Hnt HY. induction HY as [s s' H|s t s1 ts s' H HY IH].
  - apply yylex1_eof in H. destruct H as [H|[c [Hin Hc]]]; [exact H|].
    rewrite (Hnt c Hin) in Hc. discriminate.
  - apply IH. apply yylex1_tok_suffix in H. destruct H as [pre ->].
    intros c Hin. apply Hnt. apply in_or_app. right. exact Hin.
Qed.

Theorem plural_y_accepts_iff s : no_terminator s -> (plural_y_accepts s <-> in_plural_language s).
Proof.
  intros Hnt. split.
  - intros [ts [s' [e [HY HG]]]]. pose proof (yylex_reads_all _ _ _ Hnt HY). subst s'.
    exists ts, e. auto.
  - intros [ts [e [HY HG]]]. exists ts, [], e. auto.
Qed.

(* python-brace: the typing rules of Field.__init__ are sound for CPython's format(): a value of a type the parser
   reports for a format spec is formatted by that spec -- except for the shapes of defect D24. *)
From Coq Require Import List NArith ZArith Bool Lia.
From I18n Require Import Lib.Outcome Model.FmtPyBrace Model.FmtPyBraceDomain Spec.CPyFormat Proofs.FmtPyBrace Proofs.FmtPyBraceMarkup.
Import ListNotations.
Local Open Scope N_scope.

Section SpecSound.
Variable U : ucd.
Variable M : Z.
Notation dv := (u_decval U).

(* side conditions on the tables (proved for the generated ones in Proofs/FmtPyBraceGen.v) *)
Definition known_types : list N := [115; 98; 99; 100; 111; 120; 88; 101; 69; 102; 70; 103; 71; 37; 110].
Record ucd_spec : Prop := {
  us_ok : ucd_ok U;
  us_M : (M <= 2147483647)%Z;
  us_d : forall c, u_d U c = true <-> dv c <> None;                     (* \d = the characters with a decimal value *)
  us_known : forall c, In c (44 :: 46 :: 95 :: 122 :: known_types) -> dv c = None;
  us_und : u_w U 95 = true /\ u_w U 122 = true;
  us_zero : dv 48 = Some 0 }.
Hypothesis Hs : ucd_spec.

Lemma take_if_sign s : take_if (fun c => (c =? 43) || (c =? 45) || (c =? 32)) s = opt_char is_sign s.
Proof.
  destruct s as [|c r]; [reflexivity|]. unfold take_if, opt_char, is_sign.
  destruct (c =? 43), (c =? 45), (c =? 32); reflexivity.
Qed.

(* ---------------------------------------------------------------- digit runs *)
Lemma dec_value_mono l : forall a v, (0 <= a)%Z -> dec_value U l a = Some v -> (a <= v)%Z.
Proof.
  induction l as [|c l IH]; intros a v Ha; cbn [dec_value]; [intros H; inversion H; lia|].
  destruct (dv c) as [d|]; [|discriminate]. intros H. apply IH in H; lia.
Qed.

(* a run of characters with a decimal value followed by one without: CPython's get_integer reads exactly the run *)
Lemma digit_run_spec l : forall rest a n ovf v,
  (0 <= a)%Z -> dec_value U l a = Some v -> (v <= PY_SSIZE_T_MAX)%Z ->
  match rest with [] => True | c :: _ => dv c = None end ->
  digit_run dv (l ++ rest) a n ovf = (if ovf then None else Some v, (n + length l)%nat, rest).
Proof.
  induction l as [|c l IH]; intros rest a n ovf v Ha Hv Hmax Hrest; cbn [app dec_value length] in *.
  - inversion Hv; subst. rewrite Nat.add_0_r. destruct rest as [|c r]; cbn [digit_run]; [reflexivity|]. rewrite Hrest. reflexivity.
  - cbn [digit_run]. destruct (dv c) as [d|]; [|discriminate Hv].
    assert (Ha' : (0 <= a * 10 + Z.of_N d)%Z) by lia.
    pose proof (dec_value_mono l _ _ Ha' Hv) as Hm.
    rewrite (IH rest _ (S n) _ v Ha' Hv Hmax Hrest).
    rewrite Z.gtb_ltb. destruct (Z.ltb_spec PY_SSIZE_T_MAX (a * 10 + Z.of_N d)); [lia|].
    rewrite orb_false_r. f_equal. f_equal. lia.
Qed.

Lemma digit_run_ok l rest v : dec_value U l 0 = Some v -> (v <= PY_SSIZE_T_MAX)%Z ->
  match rest with [] => True | c :: _ => dv c = None end ->
  digit_run dv (l ++ rest) 0 0 false = (Some v, length l, rest).
Proof. intros H1 H2 H3. rewrite (digit_run_spec l rest 0 0%nat false v); [reflexivity|lia|exact H1|exact H2|exact H3]. Qed.

Lemma py_int_value {E} w v : @py_int U E w = Ok v -> dec_value U w 0 = Some v /\ w <> [].
Proof.
  unfold py_int. destruct (negb (max_digits_ok U (length w))); [discriminate|].
  destruct w as [|x r]; [discriminate|]. destruct (forallb (u_isdecimal U) (x :: r)); [|discriminate].
  destruct (dec_value U (x :: r) 0) as [v'|]; [|discriminate]. intros H; inversion H; subst. split; [reflexivity|discriminate].
Qed.

(* ---------------------------------------------------------------- what an accepted spec looks like *)
Definition type_known (m : spec_match) : Prop :=
  match sp_type m with None => True | Some c => In c known_types end.
Definition num_ok (o : option (list N)) : Prop :=
  match o with None => True | Some w => exists v, dec_value U w 0 = Some v /\ (v <= 2147483647)%Z /\ w <> [] end.

Ltac step_bind H E :=
  match type of H with
  | obind ?x _ = _ => destruct x as [?| |] eqn:E; cbn [obind] in H; try discriminate H
  end.

Lemma spec_types_facts ftext tl tp m : m_format_spec U tl = Some m -> spec_types U M ftext tl = Ok tp ->
  type_known m /\ num_ok (sp_width m) /\ num_ok (sp_prec m).
Proof.
  intros Em H. unfold spec_types in H. rewrite Em in H. pose proof (us_M Hs) as HM.
  step_bind H E1.
  assert (Hty : type_known m).
  { unfold type_known. destruct (sp_type m) as [ft|]; [|exact I]. unfold known_types, FmtPyBrace.in_chars in *. cbn [existsb In] in *.
    revert E1.
    destruct (N.eqb_spec ft 115) as [Heq|Hne115]; [intros _; rewrite Heq; repeat (first [left; reflexivity|right])|apply N.eqb_neq in Hne115; rewrite ?Hne115].
    destruct (N.eqb_spec ft 98) as [Heq|Hne98]; [intros _; rewrite Heq; repeat (first [left; reflexivity|right])|apply N.eqb_neq in Hne98; rewrite ?Hne98].
    destruct (N.eqb_spec ft 99) as [Heq|Hne99]; [intros _; rewrite Heq; repeat (first [left; reflexivity|right])|apply N.eqb_neq in Hne99; rewrite ?Hne99].
    destruct (N.eqb_spec ft 100) as [Heq|Hne100]; [intros _; rewrite Heq; repeat (first [left; reflexivity|right])|apply N.eqb_neq in Hne100; rewrite ?Hne100].
    destruct (N.eqb_spec ft 111) as [Heq|Hne111]; [intros _; rewrite Heq; repeat (first [left; reflexivity|right])|apply N.eqb_neq in Hne111; rewrite ?Hne111].
    destruct (N.eqb_spec ft 120) as [Heq|Hne120]; [intros _; rewrite Heq; repeat (first [left; reflexivity|right])|apply N.eqb_neq in Hne120; rewrite ?Hne120].
    destruct (N.eqb_spec ft 88) as [Heq|Hne88]; [intros _; rewrite Heq; repeat (first [left; reflexivity|right])|apply N.eqb_neq in Hne88; rewrite ?Hne88].
    destruct (N.eqb_spec ft 101) as [Heq|Hne101]; [intros _; rewrite Heq; repeat (first [left; reflexivity|right])|apply N.eqb_neq in Hne101; rewrite ?Hne101].
    destruct (N.eqb_spec ft 69) as [Heq|Hne69]; [intros _; rewrite Heq; repeat (first [left; reflexivity|right])|apply N.eqb_neq in Hne69; rewrite ?Hne69].
    destruct (N.eqb_spec ft 102) as [Heq|Hne102]; [intros _; rewrite Heq; repeat (first [left; reflexivity|right])|apply N.eqb_neq in Hne102; rewrite ?Hne102].
    destruct (N.eqb_spec ft 70) as [Heq|Hne70]; [intros _; rewrite Heq; repeat (first [left; reflexivity|right])|apply N.eqb_neq in Hne70; rewrite ?Hne70].
    destruct (N.eqb_spec ft 103) as [Heq|Hne103]; [intros _; rewrite Heq; repeat (first [left; reflexivity|right])|apply N.eqb_neq in Hne103; rewrite ?Hne103].
    destruct (N.eqb_spec ft 71) as [Heq|Hne71]; [intros _; rewrite Heq; repeat (first [left; reflexivity|right])|apply N.eqb_neq in Hne71; rewrite ?Hne71].
    destruct (N.eqb_spec ft 37) as [Heq|Hne37]; [intros _; rewrite Heq; repeat (first [left; reflexivity|right])|apply N.eqb_neq in Hne37; rewrite ?Hne37].
    destruct (N.eqb_spec ft 110) as [Heq|Hne110]; [intros _; rewrite Heq; repeat (first [left; reflexivity|right])|apply N.eqb_neq in Hne110; rewrite ?Hne110].
    cbn. intros E1; discriminate E1. }
  step_bind H E2. step_bind H E3. step_bind H E4.
  split; [exact Hty|].
  assert (Hw : num_ok (sp_width m)).
  { unfold num_ok. destruct (sp_width m) as [w|]; [|exact I].
    destruct (py_int U w) as [v| |] eqn:Ep; cbn [obind] in E4; try discriminate E4.
    destruct (v >? M)%Z eqn:Ev; [discriminate E4|]. apply py_int_value in Ep. destruct Ep as [E1' E2'].
    exists v. split; [exact E1'|]. split; [lia|exact E2']. }
  split; [exact Hw|].
  unfold num_ok. destruct (sp_prec m) as [p|]; [|exact I].
  match type of H with (if ?b then _ else _) = _ => destruct b end; [discriminate H|].
  step_bind H E5. match type of H with (if ?b then _ else _) = _ => destruct b eqn:Ev end; [discriminate H|].
  apply py_int_value in E5. destruct E5 as [E1' E2'].
  eexists. split; [exact E1'|]. split; [lia|exact E2'].
Qed.

(* ---------------------------------------------------------------- CPython's parse of an accepted spec *)
Definition th_ok (comma : bool) (ty : option N) : bool :=
  if comma then match ty with None => true | Some c => existsb (N.eqb c) [100; 101; 102; 103; 69; 71; 37; 70] end else true.

Definition stage1 (s : list N) : option N * option N * list N :=
  match s with
  | c0 :: c1 :: r => if CPyFormat.is_align c1 then (Some c0, Some c1, r)
                     else if CPyFormat.is_align c0 then (None, Some c0, c1 :: r) else (None, None, s)
  | [c0] => if CPyFormat.is_align c0 then (None, Some c0, []) else (None, None, s)
  | [] => (None, None, s)
  end.

Lemma m_stage1 s : forallb not_brace s = true ->
  match s with
  | c0 :: c1 :: r => if FmtPyBrace.is_align c1 && negb (c0 =? 125) then (Some c0, Some c1, r)
                     else if FmtPyBrace.is_align c0 then (None, Some c0, c1 :: r) else (None, None, s)
  | [c0] => if FmtPyBrace.is_align c0 then (None, Some c0, []) else (None, None, s)
  | [] => (None, None, s)
  end = stage1 s.
Proof.
  destruct s as [|c0 [|c1 r]]; try reflexivity. cbn [forallb]. intros H. apply andb_prop in H. destruct H as [H0 _].
  unfold not_brace in H0. apply negb_true_iff, orb_false_elim in H0. destruct H0 as [_ H0]. rewrite H0.
  cbn [negb stage1]. rewrite andb_true_r. reflexivity.
Qed.

(* the tail of the model's scan from the width on, as functions (so that they can be evaluated on a known head) *)
Definition typ (c : N) : bool := u_w U c || (c =? 37).
Definition m_tail4 (s7 : list N) : option (option N) :=
  let '(ty, s8) := opt_char typ s7 in match s8 with [] => Some ty | _ => None end.
Definition m_prec (s6 : list N) : option (list N) * list N :=
  match s6 with
  | c :: r => if c =? 46 then match span (u_d U) r with ((_ :: _) as p, r') => (Some p, r') | _ => (None, s6) end
              else (None, s6)
  | [] => (None, s6)
  end.
Definition m_tail3 (s6 : list N) : option (option (list N) * option N) :=
  let '(prec, s7) := m_prec s6 in match m_tail4 s7 with Some ty => Some (prec, ty) | None => None end.
Definition m_tail2 (s5 : list N) : option (bool * option (list N) * option N) :=
  let '(comma, s6) := opt_char (N.eqb 44) s5 in
  match m_tail3 s6 with Some (pr, ty) => Some (FmtPyBrace.is_some comma, pr, ty) | None => None end.
Definition m_width (s4 : list N) : option (list N) * list N :=
  match span is_ascii_digit s4 with ((_ :: _) as w, r) => (Some w, r) | _ => (None, s4) end.
Definition m_tail (s4 : list N) : option (option (list N) * bool * option (list N) * option N) :=
  let '(width, s5) := m_width s4 in
  match m_tail2 s5 with Some (cm, pr, ty) => Some (width, cm, pr, ty) | None => None end.

Lemma m_tail4_spec s7 ty : m_tail4 s7 = Some ty -> (s7 = [] /\ ty = None) \/ (exists c, s7 = [c] /\ ty = Some c).
Proof.
  unfold m_tail4, opt_char. destruct s7 as [|c r]; [intros H; inversion H; auto|].
  destruct (typ c); [|discriminate]. destruct r; [|discriminate]. intros H; inversion H. right. eauto.
Qed.

Lemma m_tail4_odd c r ty : u_w U c = true -> m_tail4 (c :: r) = Some ty -> ty = Some c.
Proof.
  intros Hw. unfold m_tail4, opt_char, typ. rewrite Hw. cbn [orb]. destruct r; [|discriminate]. intros H; inversion H; reflexivity.
Qed.

Lemma m_tail3_odd c r pr ty : u_w U c = true -> c <> 46 -> m_tail3 (c :: r) = Some (pr, ty) -> ty = Some c.
Proof.
  intros Hw H46. unfold m_tail3, m_prec. replace (c =? 46) with false by (symmetry; apply N.eqb_neq; exact H46).
  destruct (m_tail4 (c :: r)) as [t|] eqn:E; [|discriminate]. apply m_tail4_odd in E; [|exact Hw]. intros H; inversion H; subst; reflexivity.
Qed.

Lemma m_tail2_odd c r cm pr ty : u_w U c = true -> c <> 44 -> c <> 46 -> m_tail2 (c :: r) = Some (cm, pr, ty) -> ty = Some c.
Proof.
  intros Hw H44 H46. unfold m_tail2, opt_char. replace (44 =? c) with false by (symmetry; apply N.eqb_neq; congruence).
  destruct (m_tail3 (c :: r)) as [[p t]|] eqn:E; [|discriminate]. apply m_tail3_odd in E; [|exact Hw|exact H46].
  intros H; inversion H; subst; reflexivity.
Qed.

Lemma m_tail2_nonword c r : u_w U c = false -> c <> 37 -> c <> 44 -> c <> 46 -> m_tail2 (c :: r) = None.
Proof.
  intros Hw H37 H44 H46. unfold m_tail2, opt_char. replace (44 =? c) with false by (symmetry; apply N.eqb_neq; congruence).
  unfold m_tail3, m_prec. replace (c =? 46) with false by (symmetry; apply N.eqb_neq; exact H46).
  unfold m_tail4, opt_char, typ. rewrite Hw. replace (c =? 37) with false by (symmetry; apply N.eqb_neq; exact H37). reflexivity.
Qed.

Lemma m_tail_odd c r wd cm pr ty : u_w U c = true -> is_ascii_digit c = false -> c <> 44 -> c <> 46 ->
  m_tail (c :: r) = Some (wd, cm, pr, ty) -> ty = Some c.
Proof.
  intros Hw Hd H44 H46. unfold m_tail, m_width. cbn [span]. rewrite Hd.
  destruct (m_tail2 (c :: r)) as [[[cm' pr'] ty']|] eqn:E; [|discriminate]. apply m_tail2_odd in E; auto.
  intros H; inversion H; subst; reflexivity.
Qed.

(* parse_internal_render_format_spec after the fill/align stage (a copy of the text of Spec/CPyFormat.v: parse_spec_eq
   proves it is the same function) *)
Definition p_rest (fill align : option N) (s1 : list N) (dt : option N) (dar : bool) : option fspec :=
  let '(sign, s2) := take_if (fun c => (c =? 43) || (c =? 45) || (c =? 32)) s1 in
  let '(z, s3) := take_if (N.eqb 122) s2 in
  let '(alt, s4) := take_if (N.eqb 35) s3 in
  let '(zero, s5) := match fill with Some _ => (None, s4) | None => take_if (N.eqb 48) s4 end in
  let align' := match align, zero with None, Some _ => if dar then Some 61 else None | a, _ => a end in
  let '(wv, wn, s6) := digit_run dv s5 0 0 false in
  match wv with
  | None => None                                         
  | Some w =>
    let '(th1, s7) := take_if (N.eqb 44) s6 in
    let '(th2, s8) := take_if (N.eqb 95) s7 in
    if CPyFormat.is_some th1 && CPyFormat.is_some th2 then None              
    else
    let th := match th1 with Some c => Some c | None => th2 end in
    
    if CPyFormat.is_some th2 && (match s8 with c :: _ => c =? 44 | [] => false end) then None else
    let pr : option (option Z * list N) :=
      match s8 with
      | c :: r =>
        if c =? 46 then
          let '(pv, pn, r') := digit_run dv r 0 0 false in
          match pn, pv with
          | O, _ => None                                 
          | _, None => None                              
          | _, Some p => if (p >? C_INT_MAX)%Z then None  else Some (Some p, r')
          end
        else Some (None, s8)
      | [] => Some (None, s8)
      end in
    match pr with
    | None => None
    | Some (prec, s9) =>
      match s9 with
      | _ :: _ :: _ => None                              
      | rest =>
        let ty := match rest with [c] => Some c | _ => dt end in
        let th_ok :=
          match th with
          | None => true
          | Some t =>
            match ty with
            | None => true
            | Some c => existsb (N.eqb c) [100; 101; 102; 103; 69; 71; 37; 70] ||
                        ((t =? 95) && existsb (N.eqb c) [98; 111; 120; 88])
            end
          end in
        if th_ok then
          Some {| fs_fill := match fill with Some f => Some f | None => zero end; fs_align := align'; fs_sign := sign;
                  fs_z := CPyFormat.is_some z; fs_alt := CPyFormat.is_some alt; fs_width := (if Nat.eqb wn 0 then None else Some w);
                  fs_thousands := th; fs_prec := prec; fs_type := ty |}
        else None
      end
    end
  end.

Lemma parse_spec_eq s dt dar :
  parse_spec dv s dt dar = let '(fill, align, s1) := stage1 s in p_rest fill align s1 dt dar.
Proof.
  unfold parse_spec, stage1, p_rest. destruct s as [|c0 [|c1 r]].
  - reflexivity.
  - destruct (CPyFormat.is_align c0); reflexivity.
  - destruct (CPyFormat.is_align c1); [reflexivity|]. destruct (CPyFormat.is_align c0); reflexivity.
Qed.

Lemma m_format_spec_eq tl : forallb not_brace tl = true ->
  m_format_spec U tl =
    let '(fill, align, s1) := stage1 tl in
    let '(sign, s2) := opt_char is_sign s1 in
    let '(alt, s3) := opt_char (N.eqb 35) s2 in
    let '(zero, s4) := opt_char (N.eqb 48) s3 in
    match m_tail s4 with
    | Some (wd, cm, pr, ty) =>
      Some {| sp_fill := fill; sp_align := align; sp_sign := sign; sp_alt := FmtPyBrace.is_some alt; sp_zero := FmtPyBrace.is_some zero;
              sp_width := wd; sp_comma := cm; sp_prec := pr; sp_type := ty |}
    | None => None
    end.
Proof.
  intros Hnb. unfold m_format_spec. rewrite (m_stage1 tl Hnb). destruct (stage1 tl) as [[fill align] s1].
  destruct (opt_char is_sign s1) as [sign s2]. destruct (opt_char (N.eqb 35) s2) as [alt s3].
  destruct (opt_char (N.eqb 48) s3) as [zero s4]. unfold m_tail, m_tail2, m_tail3, m_tail4.
  change (match span is_ascii_digit s4 with ((_ :: _) as w, r) => (Some w, r) | _ => (None, s4) end) with (m_width s4).
  destruct (m_width s4) as [width s5]. destruct (opt_char (N.eqb 44) s5) as [comma s6].
  change (match s6 with
          | c :: r => if c =? 46 then match span (u_d U) r with ((_ :: _) as p, r') => (Some p, r') | _ => (None, s6) end else (None, s6)
          | [] => (None, s6) end) with (m_prec s6).
  destruct (m_prec s6) as [prec s7]. change (fun c => u_w U c || (c =? 37)) with typ.
  destruct (opt_char typ s7) as [ty s8]. destruct s8; reflexivity.
Qed.

(* ---------------------------------------------------------------- the shape of an accepted tail *)
Definition hd_ne (s : list N) (k : N) : Prop := match s with c :: _ => c <> k | [] => True end.
Definition hd_nodec (s : list N) : Prop := match s with c :: _ => dv c = None | [] => True end.
Definition ty_known (ty : option N) : Prop := match ty with None => True | Some c => In c known_types end.

Lemma take_if_no k s : hd_ne s k -> take_if (N.eqb k) s = (None, s).
Proof. destruct s as [|c r]; [reflexivity|]. cbn [hd_ne take_if]. intros H. replace (k =? c) with false by (symmetry; apply N.eqb_neq; congruence). reflexivity. Qed.

Lemma known_not c k : In c known_types -> ~ In k known_types -> c <> k.
Proof. intros H1 H2 ->. exact (H2 H1). Qed.

Ltac not_known := cbn [In known_types]; intros Hx; repeat (destruct Hx as [Hx|Hx]; [discriminate Hx|]); exact Hx.

Lemma ty_known_dv c : ty_known (Some c) -> dv c = None.
Proof. intros H. apply (us_known Hs). right. right. right. right. exact H. Qed.

Lemma m_tail4_shape s7 ty : m_tail4 s7 = Some ty -> (s7 = [] /\ ty = None) \/ (exists c, s7 = [c] /\ ty = Some c).
Proof. exact (m_tail4_spec s7 ty). Qed.

Lemma m_tail3_shape s6 pr ty : m_tail3 s6 = Some (pr, ty) -> ty_known ty -> num_ok pr ->
  exists s7, m_tail4 s7 = Some ty /\
    ((exists P v, pr = Some P /\ s6 = 46 :: P ++ s7 /\ dec_value U P 0 = Some v /\ (v <= 2147483647)%Z /\ P <> [] /\ hd_nodec s7) \/
     (pr = None /\ s6 = s7 /\ hd_ne s7 46)).
Proof.
  unfold m_tail3, m_prec. intros H Hty Hp.
  destruct s6 as [|c r].
  - destruct (m_tail4 []) as [t|] eqn:E4; [|discriminate]. inversion H; subst. exists []. split; [exact E4|]. right. repeat split.
  - destruct (N.eqb_spec c 46) as [->|Hc].
    + pose proof (span_app (u_d U) r) as Ha. pose proof (span_stop (u_d U) r) as Hst.
      destruct (FmtPyBrace.span (u_d U) r) as [[|p0 P] r'] eqn:Esp; cbn [fst snd] in *.
      * (* "." without digits: it would have to be the type *)
        destruct (m_tail4 (46 :: r)) as [t|] eqn:E4; [|discriminate]. injection H as <- <-. exfalso.
        unfold m_tail4, opt_char, typ in E4. replace (46 =? 37) with false in E4 by reflexivity. rewrite orb_false_r in E4.
        destruct (u_w U 46); [|discriminate E4]. destruct r; [|discriminate E4]. injection E4 as <-.
        revert Hty. cbn [ty_known]. not_known.
      * destruct (m_tail4 r') as [t|] eqn:E4; [|discriminate]. injection H as <- <-. exists r'. split; [exact E4|]. left.
        cbn [num_ok] in Hp. destruct Hp as [v [Hv [Hle Hne]]]. exists (p0 :: P), v.
        split; [reflexivity|]. split; [rewrite <- Ha; reflexivity|]. split; [exact Hv|]. split; [exact Hle|]. split; [exact Hne|].
        (* the run of \d stopped: the next character has no decimal value *)
        unfold hd_nodec. destruct r' as [|x r'']; [exact I|]. destruct (dv x) eqn:Ex; [|reflexivity].
        assert (u_d U x = true) by (apply (us_d Hs); congruence). congruence.
    + destruct (m_tail4 (c :: r)) as [t|] eqn:E4; [|discriminate]. inversion H; subst. exists (c :: r). split; [exact E4|]. right.
      repeat split. exact Hc.
Qed.

Lemma m_tail2_shape s5 cm pr ty : m_tail2 s5 = Some (cm, pr, ty) -> ty_known ty ->
  exists s6, m_tail3 s6 = Some (pr, ty) /\
    ((cm = true /\ s5 = 44 :: s6) \/ (cm = false /\ s5 = s6 /\ hd_ne s6 44)) /\ hd_ne s6 95.
Proof.
  unfold m_tail2, opt_char. intros H Hty.
  assert (H95 : forall s6, m_tail3 s6 = Some (pr, ty) -> hd_ne s6 95).
  { intros s6 E. destruct s6 as [|c r]; [exact I|]. cbn [hd_ne]. intros ->.
    apply m_tail3_odd in E; [|exact (proj1 (us_und Hs))|discriminate]. subst ty. revert Hty. cbn [ty_known]. not_known. }
  destruct s5 as [|c r].
  - destruct (m_tail3 []) as [[p t]|] eqn:E; [|discriminate]. injection H as <- <- <-. exists []. split; [exact E|]. split; [right; repeat split|exact I].
  - destruct (N.eqb_spec 44 c) as [<-|Hc].
    + destruct (m_tail3 r) as [[p t]|] eqn:E; [|discriminate]. injection H as <- <- <-. exists r. split; [exact E|]. split; [left; split; reflexivity|exact (H95 _ E)].
    + destruct (m_tail3 (c :: r)) as [[p t]|] eqn:E; [|discriminate]. injection H as <- <- <-. exists (c :: r). split; [exact E|].
      split; [right; repeat split; cbn [hd_ne]; congruence|exact (H95 _ E)].
Qed.

Lemma m_tail_shape s4 wd cm pr ty : m_tail s4 = Some (wd, cm, pr, ty) -> ty_known ty ->
  exists W s5, s4 = W ++ s5 /\ forallb is_ascii_digit W = true /\ (match W with [] => wd = None | _ => wd = Some W end) /\
    hd_nodec s5 /\ m_tail2 s5 = Some (cm, pr, ty).
Proof.
  unfold m_tail, m_width. intros H Hty.
  pose proof (span_app is_ascii_digit s4) as Ha. pose proof (span_forall is_ascii_digit s4) as Hf. pose proof (span_stop is_ascii_digit s4) as Hst.
  destruct (FmtPyBrace.span is_ascii_digit s4) as [W r5]. cbn [fst snd] in *.
  assert (Hs5 : forall s5, s5 = r5 -> m_tail2 s5 = Some (cm, pr, ty) -> hd_nodec s5).
  { intros s5 -> E. unfold hd_nodec. destruct r5 as [|c r]; [exact I|]. destruct (dv c) eqn:Ec; [|reflexivity]. exfalso.
    assert (H44 : c <> 44) by (intros ->; rewrite (us_known Hs 44) in Ec; [discriminate|left; reflexivity]).
    assert (H46 : c <> 46) by (intros ->; rewrite (us_known Hs 46) in Ec; [discriminate|right; left; reflexivity]).
    assert (H37 : c <> 37) by (intros ->; rewrite (us_known Hs 37) in Ec; [discriminate|cbn; tauto]).
    destruct (u_w U c) eqn:Hw; [|rewrite (m_tail2_nonword c r Hw H37 H44 H46) in E; discriminate].
    apply m_tail2_odd in E; auto. subst ty. rewrite (ty_known_dv c Hty) in Ec. discriminate. }
  destruct W as [|w0 W].
  - cbn [app] in Ha. subst r5. destruct (m_tail2 s4) as [[[cm' pr'] ty']|] eqn:E; [|discriminate]. injection H as <- <- <- <-.
    exists [], s4. split; [reflexivity|]. split; [reflexivity|]. split; [reflexivity|]. split; [apply Hs5; [reflexivity|exact E]|exact E].
  - destruct (m_tail2 r5) as [[[cm' pr'] ty']|] eqn:E; [|discriminate]. injection H as <- <- <- <-.
    exists (w0 :: W), r5. split; [symmetry; exact Ha|]. split; [exact Hf|]. split; [reflexivity|]. split; [apply Hs5; [reflexivity|exact E]|exact E].
Qed.

Lemma p_rest_sim fill align s1 dt dar sign s2 alt s3 zero s4 wd cm pr ty :
  opt_char is_sign s1 = (sign, s2) -> opt_char (N.eqb 35) s2 = (alt, s3) -> opt_char (N.eqb 48) s3 = (zero, s4) ->
  m_tail s4 = Some (wd, cm, pr, ty) -> ty_known ty -> num_ok wd -> num_ok pr ->
  let tyf := match ty with Some c => Some c | None => dt end in
  let zero_p := match fill with Some _ => None | None => zero end in
  if th_ok cm tyf then
    exists f, p_rest fill align s1 dt dar = Some f /\
      CPyFormat.is_some (fs_sign f) = FmtPyBrace.is_some sign /\ fs_z f = false /\ fs_alt f = FmtPyBrace.is_some alt /\
      fs_align f = (match align, zero_p with None, Some _ => if dar then Some 61 else None | a, _ => a end) /\
      CPyFormat.is_some (fs_prec f) = FmtPyBrace.is_some pr /\ fs_type f = tyf
  else p_rest fill align s1 dt dar = None.
Proof.
  intros E2 E3 E4 Et Hty Hw Hp tyf zero_p.
  destruct (m_tail_shape _ _ _ _ _ Et Hty) as [W [s5 [Hs4 [HW [Hwd [Hnd5 Et2]]]]]].
  destruct (m_tail2_shape _ _ _ _ Et2 Hty) as [s6 [Et3 [Hcm H95]]].
  destruct (m_tail3_shape _ _ _ Et3 Hty Hp) as [s7 [Et4 Hpr]].
  (* no "z" flag *)
  assert (Hz : hd_ne s2 122).
  { destruct s2 as [|c r]; [exact I|]. cbn [hd_ne]. intros ->. cbn in E3. injection E3 as <- <-. cbn in E4. injection E4 as <- <-.
    apply m_tail_odd in Et; [|exact (proj2 (us_und Hs))|reflexivity|discriminate|discriminate].
    subst ty. revert Hty. cbn [ty_known]. not_known. }
  (* the width digits, possibly after a "0" that is not a flag because a fill character was given *)
  assert (HX : exists v n, digit_run dv (match fill with Some _ => s3 | None => s4 end) 0 0 false = (Some v, n, s5)).
  { assert (Hv : exists v, dec_value U W 0 = Some v /\ (v <= PY_SSIZE_T_MAX)%Z).
    { destruct W as [|w0 W']; [exists 0%Z; split; [reflexivity|unfold PY_SSIZE_T_MAX; lia]|].
      subst wd. cbn [num_ok] in Hw. destruct Hw as [v [Hv [Hle _]]]. exists v. split; [exact Hv|unfold PY_SSIZE_T_MAX; lia]. }
    destruct Hv as [v [Hv Hle]].
    assert (Hd5 : match s5 with [] => True | c :: _ => dv c = None end) by exact Hnd5.
    destruct fill as [fc|].
    - unfold opt_char in E4. destruct s3 as [|c3 r3]; [injection E4 as <- <-|].
      + exists v, (length W). rewrite Hs4. apply digit_run_ok; [exact Hv|exact Hle|exact Hd5].
      + destruct (N.eqb_spec 48 c3) as [<-|Hne]; injection E4 as <- <-.
        * exists v, (length (48 :: W)). rewrite Hs4. change (48 :: W ++ s5) with ((48 :: W) ++ s5).
          apply digit_run_ok; [|exact Hle|exact Hd5]. cbn [dec_value]. rewrite (us_zero Hs). exact Hv.
        * exists v, (length W). rewrite Hs4. apply digit_run_ok; [exact Hv|exact Hle|exact Hd5].
    - exists v, (length W). rewrite Hs4. apply digit_run_ok; [exact Hv|exact Hle|exact Hd5]. }
  destruct HX as [v [n HX]].
  unfold p_rest. rewrite take_if_sign, E2. rewrite (take_if_no 122 s2 Hz).
  change (take_if (N.eqb 35) s2) with (opt_char (N.eqb 35) s2). rewrite E3.
  assert (Hzero : match fill with Some _ => (None, s3) | None => take_if (N.eqb 48) s3 end
                  = (zero_p, match fill with Some _ => s3 | None => s4 end)).
  { unfold zero_p. destruct fill; [reflexivity|]. change (take_if (N.eqb 48) s3) with (opt_char (N.eqb 48) s3). exact E4. }
  rewrite Hzero, HX. cbv beta iota.
  assert (Hfin : forall (b : bool) (f : fspec) (P : fspec -> Prop), P f ->
            if b then exists f', (if b then Some f else None) = Some f' /\ P f' else (if b then Some f else None) = None).
  { intros b f P HP. destruct b; [exists f; split; [reflexivity|exact HP]|reflexivity]. }
  destruct Hcm as [[-> ->]|[-> [-> H44]]];
    [cbn [take_if]; replace (44 =? 44) with true by reflexivity|rewrite (take_if_no 44 s6 H44)];
    cbv beta iota; rewrite (take_if_no 95 s6 H95); cbv beta iota; cbn [CPyFormat.is_some andb];
    (destruct Hpr as [[P [v' [-> [-> [Hv' [Hle' [HPne Hnd7]]]]]]]|[-> [-> H46]]];
     [ cbv beta iota; replace (46 =? 46) with true by reflexivity;
       rewrite (digit_run_ok P s7 v' Hv' ltac:(unfold PY_SSIZE_T_MAX; lia) Hnd7);
       destruct P as [|p0 P']; [congruence|]; cbn [length]; cbv beta iota;
       replace (v' >? C_INT_MAX)%Z with false by (unfold C_INT_MAX; lia); cbv beta iota
     | ]);
    destruct (m_tail4_shape _ _ Et4) as [[-> ->]|[c [-> ->]]].
  all: try (cbn [hd_ne] in H46; replace (c =? 46) with false by (symmetry; apply N.eqb_neq; exact H46)).
  all: cbv beta iota.
  all: unfold th_ok, tyf; cbn [N.eqb Pos.eqb andb]; rewrite ?orb_false_r.
  all: try (destruct dt; rewrite ?orb_false_r).
  all: try (apply (Hfin _ _ (fun f => _ /\ _ /\ _ /\ _ /\ _ /\ _)); cbn; repeat split; reflexivity).
  all: try (eexists; split; [reflexivity|]; cbn; repeat split; reflexivity).
Qed.

Lemma stage1_fill s fill align s1 : stage1 s = (fill, align, s1) -> align = None -> fill = None.
Proof.
  unfold stage1. destruct s as [|c0 [|c1 r]].
  - intros H; inversion H; reflexivity.
  - destruct (CPyFormat.is_align c0); intros H; inversion H; reflexivity.
  - destruct (CPyFormat.is_align c1); [intros H; inversion H; discriminate|].
    destruct (CPyFormat.is_align c0); intros H; inversion H; reflexivity.
Qed.

(* what CPython's parse_internal_render_format_spec makes of a spec the model's _format_spec_re scanner matched *)
Lemma parse_spec_sim tl m dt dar : m_format_spec U tl = Some m -> forallb not_brace tl = true ->
  ty_known (sp_type m) -> num_ok (sp_width m) -> num_ok (sp_prec m) ->
  let tyf := match sp_type m with Some c => Some c | None => dt end in
  if th_ok (sp_comma m) tyf then
    exists f, parse_spec dv tl dt dar = Some f /\
      CPyFormat.is_some (fs_sign f) = FmtPyBrace.is_some (sp_sign m) /\ fs_z f = false /\ fs_alt f = sp_alt m /\
      fs_align f = (match sp_align m with None => if sp_zero m && dar then Some 61 else None | a => a end) /\
      CPyFormat.is_some (fs_prec f) = FmtPyBrace.is_some (sp_prec m) /\ fs_type f = tyf
  else parse_spec dv tl dt dar = None.
Proof.
  intros Em Hnb. rewrite (m_format_spec_eq tl Hnb) in Em. rewrite parse_spec_eq.
  destruct (stage1 tl) as [[fill align] s1] eqn:E1.
  destruct (opt_char is_sign s1) as [sign s2] eqn:E2. destruct (opt_char (N.eqb 35) s2) as [alt s3] eqn:E3.
  destruct (opt_char (N.eqb 48) s3) as [zero s4] eqn:E4.
  destruct (m_tail s4) as [[[[wd cm] pr] ty]|] eqn:Et; [|discriminate]. injection Em as <-.
  cbn [sp_type sp_width sp_prec sp_comma sp_sign sp_alt sp_align sp_zero]. intros Hty Hw Hp.
  pose proof (p_rest_sim fill align s1 dt dar sign s2 alt s3 zero s4 wd cm pr ty E2 E3 E4 Et Hty Hw Hp) as Hsim.
  cbv zeta in Hsim |- *. destruct (th_ok cm match ty with Some c => Some c | None => dt end); [|exact Hsim].
  destruct Hsim as [f [Hf [H1 [H2 [H3 [H4 [H5 H6]]]]]]]. exists f. split; [exact Hf|]. repeat split; try assumption.
  rewrite H4. destruct align as [a|]; [reflexivity|]. rewrite (stage1_fill _ _ _ _ E1 eq_refl).
  destruct zero; reflexivity.
Qed.

(* ---------------------------------------------------------------- the typing rules, abstractly *)
(* what matters of a matched spec: the type character, "#", sign, ",", "0", the alignment, whether there is a precision *)
Definition a_types (ty : option N) (alt sgn comma zero : bool) (align : option N) (prec : bool) : option tset :=
  match (match ty with
         | None => Some t_all
         | Some ft =>
           if ft =? 115 then Some {| t_str := true; t_int := false; t_float := false |}
           else if FmtPyBrace.in_chars ft [98; 99; 100; 111; 120; 88] then Some {| t_str := false; t_int := true; t_float := false |}
           else if FmtPyBrace.in_chars ft [101; 69; 102; 70; 103; 71; 37] then Some {| t_str := false; t_int := false; t_float := true |}
           else if ft =? 110 then (if comma then None else Some t_num)
           else None
         end) with
  | None => None
  | Some tp1 =>
    match (if alt || sgn || comma then (if t_empty (t_and tp1 t_num) then None else Some (t_and tp1 t_num)) else Some tp1) with
    | None => None
    | Some tp2 =>
      match (match (match align with None => if zero then Some 61 else None | a => a end) with
             | Some a => if a =? 61 then (if t_empty (t_and tp2 t_num) then None else Some (t_and tp2 t_num)) else Some tp2
             | None => Some tp2
             end) with
      | None => None
      | Some tp3 =>
        if prec then
          (if t_empty (t_and tp3 {| t_str := true; t_int := false; t_float := true |}) then None
           else Some (t_and tp3 {| t_str := true; t_int := false; t_float := true |}))
        else Some tp3
      end
    end
  end.

Ltac split_if := match goal with |- context [if ?b then _ else _] => destruct b end.

Lemma spec_types_abs ftext tl tp m : m_format_spec U tl = Some m -> spec_types U M ftext tl = Ok tp ->
  a_types (sp_type m) (sp_alt m) (FmtPyBrace.is_some (sp_sign m)) (sp_comma m) (sp_zero m) (sp_align m)
          (FmtPyBrace.is_some (sp_prec m)) = Some tp.
Proof.
  intros Em H. unfold spec_types in H. rewrite Em in H. cbv zeta in H.
  step_bind H E1. step_bind H E2. step_bind H E3. step_bind H E4.
  unfold a_types.
  match goal with |- match ?x with _ => _ end = _ => assert (A1 : x = Some a) end.
  { revert E1. destruct (sp_type m) as [ft|]; [|intros E; injection E as <-; reflexivity].
    repeat split_if; intros E; first [discriminate E|injection E as <-; reflexivity]. }
  rewrite A1.
  match goal with |- match ?x with _ => _ end = _ => assert (A2 : x = Some a0) end.
  { revert E2. repeat split_if; intros E; first [discriminate E|injection E as <-; reflexivity]. }
  rewrite A2.
  match goal with |- match ?x with _ => _ end = _ => assert (A3 : x = Some a1) end.
  { revert E3. destruct (sp_align m) as [al|]; [|destruct (sp_zero m)];
      repeat split_if; intros E; first [discriminate E|injection E as <-; reflexivity]. }
  rewrite A3.
  destruct (sp_prec m) as [p|]; cbn [FmtPyBrace.is_some]; [|injection H as <-; reflexivity].
  destruct (t_empty (t_and a1 {| t_str := true; t_int := false; t_float := true |})); [discriminate H|].
  step_bind H E5. match type of H with (if ?b then _ else _) = _ => destruct b end; [discriminate H|]. injection H as <-. reflexivity.
Qed.

(* CPython's format(value, spec) in the same abstract terms *)
Definition a_align (align : option N) (zero dar : bool) : option N :=
  match align with None => if zero && dar then Some 61 else None | a => a end.

Definition a_fmt (v : bval) (ty : option N) (alt sgn comma zero : bool) (align : option N) (prec : bool) : fres :=
  match v with
  | BStr _ =>
    let tyf := match ty with Some c => Some c | None => Some 115 end in
    if th_ok comma tyf then
      if negb (match tyf with Some c => c =? 115 | None => false end) then FValueError
      else if sgn || false || alt then FValueError
      else if (match a_align align zero false with Some a => a =? 61 | None => false end) then FValueError
      else FSuccess
    else FValueError
  | BInt z =>
    let tyf := match ty with Some c => Some c | None => Some 100 end in
    if th_ok comma tyf then
      match tyf with
      | Some c =>
        if CPyFormat.in_chars c [98; 99; 100; 111; 120; 88; 110] then
          if prec then FValueError
          else if false then FValueError
          else if c =? 99 then
            if sgn || alt then FValueError
            else if ((0 <=? z) && (z <? 1114112))%Z then FSuccess else FOverflowError
          else FSuccess
        else if CPyFormat.in_chars c [101; 69; 102; 70; 103; 71; 37] then FSuccess
        else FValueError
      | None => FValueError
      end
    else FValueError
  | BFloat =>
    let tyf := match ty with Some c => Some c | None => None end in
    if th_ok comma tyf then
      match tyf with
      | None => FSuccess
      | Some c => if CPyFormat.in_chars c [101; 69; 102; 70; 103; 71; 110; 37] then FSuccess else FValueError
      end
    else FValueError
  end.

Lemma format_value_abs v tl m : tl <> [] -> m_format_spec U tl = Some m -> forallb not_brace tl = true ->
  ty_known (sp_type m) -> num_ok (sp_width m) -> num_ok (sp_prec m) ->
  format_value dv v tl =
    a_fmt v (sp_type m) (sp_alt m) (FmtPyBrace.is_some (sp_sign m)) (sp_comma m) (sp_zero m) (sp_align m)
          (FmtPyBrace.is_some (sp_prec m)).
Proof.
  intros Hne Em Hnb Hty Hw Hp. unfold format_value. destruct tl as [|t0 tl']; [congruence|].
  unfold a_fmt. destruct v as [z| |sv].
  - pose proof (parse_spec_sim _ m (Some 100) true Em Hnb Hty Hw Hp) as Hsim. cbv zeta in Hsim |- *.
    destruct (th_ok (sp_comma m) match sp_type m with Some c => Some c | None => Some 100 end).
    + destruct Hsim as [f [-> [H1 [H2 [H3 [H4 [H5 H6]]]]]]]. rewrite H6, H5, H2, H1, H3. reflexivity.
    + rewrite Hsim. reflexivity.
  - pose proof (parse_spec_sim _ m None true Em Hnb Hty Hw Hp) as Hsim. cbv zeta in Hsim |- *.
    destruct (th_ok (sp_comma m) match sp_type m with Some c => Some c | None => None end).
    + destruct Hsim as [f [-> [H1 [H2 [H3 [H4 [H5 H6]]]]]]]. rewrite H6. reflexivity.
    + rewrite Hsim. reflexivity.
  - pose proof (parse_spec_sim _ m (Some 115) false Em Hnb Hty Hw Hp) as Hsim. cbv zeta in Hsim |- *.
    destruct (th_ok (sp_comma m) match sp_type m with Some c => Some c | None => Some 115 end).
    + destruct Hsim as [f [-> [H1 [H2 [H3 [H4 [H5 H6]]]]]]]. rewrite H6, H1, H2, H3, H4. unfold a_align. destruct (sp_align m); reflexivity.
    + rewrite Hsim. reflexivity.
Qed.

End SpecSound.

(* ---------------------------------------------------------------- the finite check *)
Definition val_in (v : bval) (tp : tset) : bool :=
  match v with
  | BStr _ => t_str tp
  | BInt z => t_int tp && ((0 <=? z) && (z <? 1114112))%Z
  | BFloat => t_float tp
  end.

(* every combination of type character (or none), "#", sign, ",", "0", alignment (none, "=", other), precision, value kind *)
Lemma abs_sound ty alt sgn comma zero align prec tp v :
  ty_known ty -> a_types ty alt sgn comma zero align prec = Some tp -> d24_bad ty alt sgn comma = false ->
  val_in v tp = true -> a_fmt v ty alt sgn comma zero align prec = FSuccess.
Proof.
  intros Hty.
  assert (Hal : align = None \/ align = Some 61 \/ exists a, align = Some a /\ (a =? 61) = false).
  { destruct align as [a|]; [|auto]. destruct (N.eqb_spec a 61) as [->|Hne]; [auto|]. right. right. exists a. split; [reflexivity|].
    apply N.eqb_neq. exact Hne. }
  assert (Hv : exists r, match v with BInt z => ((0 <=? z) && (z <? 1114112))%Z = r | _ => r = true end) by (destruct v; eauto).
  destruct Hv as [r Hr].
  destruct ty as [c|]; [cbn [ty_known known_types In] in Hty|];
    [repeat (destruct Hty as [<-|Hty]; [|]); [..|destruct Hty]|];
    (destruct Hal as [->|[->|[a [-> Ha]]]]);
    destruct v as [z| |sv]; unfold a_types, a_fmt, d24_bad, val_in, a_align, th_ok; try rewrite Hr; try rewrite Ha;
    destruct alt, sgn, comma, zero, prec; cbn;
    intros Ht; first [discriminate Ht|injection Ht as <-]; cbn; intros Hd Hvv;
    first [discriminate Hd|discriminate Hvv|reflexivity|(rewrite Hvv; reflexivity)].
Qed.

(* a value of a type the parser reports for a format spec is formatted by CPython's format() with that spec *)
Theorem spec_sound U M : ucd_spec U M -> forall ftext tl tp v,
  spec_types U M ftext tl = Ok tp -> forallb not_brace tl = true -> spec_guard U tl = true ->
  val_in v tp = true -> format_value (u_decval U) v tl = FSuccess.
Proof.
  intros Hs ftext tl tp v Ht Hnb Hg Hv.
  destruct tl as [|t0 tl'] eqn:Etl; [reflexivity|]. rewrite <- Etl in *.
  destruct (m_format_spec U tl) as [m|] eqn:Em.
  2:{ unfold spec_types in Ht. rewrite Em in Ht. discriminate Ht. }
  destruct (spec_types_facts U M Hs ftext tl tp m Em Ht) as [Hty [Hw Hp]].
  rewrite (format_value_abs U M Hs v tl m ltac:(rewrite Etl; discriminate) Em Hnb Hty Hw Hp).
  apply (abs_sound _ _ _ _ _ _ _ tp v Hty (spec_types_abs U M ftext tl tp m Em Ht)); [|exact Hv].
  unfold spec_guard in Hg. rewrite Em in Hg. apply negb_true_iff. exact Hg.
Qed.

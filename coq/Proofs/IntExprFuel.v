(* The fuel given to the precedence-climbing parser model is always sufficient:
   `pgo` needs at most 2*|ts|+2 steps of fuel, `parse_tokens` gives 4*|ts|+4.
   Consequently `Crash COutOfFuel` (an artefact of the model, not a Python exception) is dead. *)
From Coq Require Import List ZArith Bool Lia Arith.
From I18n Require Import Lib.Outcome Model.IntExpr.
Import ListNotations.

(* fuel needed by a call in mode m on n remaining tokens *)
Definition need (m : pmode) (n : nat) : nat :=
  match m with
  | MPrimary => 2 * n + 1
  | MBinary _ => 2 * n + 2
  | MLoop _ _ => 2 * n + 1
  end.

(* what a sufficiently fuelled call guarantees: it does not run out of fuel, and what it leaves
   is shorter than what it got (strictly, except for the operator loop, which may consume nothing) *)
Definition fuel_post (m : pmode) (ts : list token) (r : pres) : Prop :=
  r <> Crash COutOfFuel /\
  forall e rest, r = Ok (e, rest) ->
    match m with
    | MLoop _ _ => length rest <= length ts
    | _ => length rest < length ts
    end.

Lemma pgo_fuel maxd : forall fuel m ts, need m (length ts) <= fuel -> fuel_post m ts (pgo maxd fuel m ts).
Proof.
  induction fuel as [|fuel IH]; intros m ts Hf.
  { destruct m; cbn in Hf; lia. }
  cbn [pgo]. destruct m as [|minlvl|minlvl lhs]; cbn [need] in Hf.
  - (* MPrimary *)
    destruct ts as [|t r]; [split; [discriminate|intros ? ? H; discriminate]|].
    cbn [length] in Hf.
    destruct t; try (split; [discriminate|intros ? ? H; discriminate]).
    + (* TNot *)
      destruct (IH MPrimary r ltac:(cbn [need]; lia)) as [Hn Hl].
      destruct (pgo maxd fuel MPrimary r) as [[e1 r1]| |c] eqn:E; cbn.
      * split; [discriminate|]. intros e rest H. inversion H; subst.
        specialize (Hl _ _ eq_refl). cbn in *. lia.
      * split; [discriminate|intros ? ? H; discriminate].
      * split; [congruence|intros ? ? H; discriminate].
    + (* TLpar *)
      destruct (IH (MBinary 0) r ltac:(cbn [need]; lia)) as [Hn Hl].
      destruct (pgo maxd fuel (MBinary 0) r) as [[e1 r1]| |c] eqn:E; cbn.
      * specialize (Hl _ _ eq_refl). cbn in Hl.
        destruct r1 as [|t1 r1]; [split; [discriminate|intros ? ? H; discriminate]|].
        destruct t1; try (split; [discriminate|intros ? ? H; discriminate]).
        split; [discriminate|]. intros e rest H. inversion H; subst. cbn in *. lia.
      * split; [discriminate|intros ? ? H; discriminate].
      * split; [congruence|intros ? ? H; discriminate].
    + (* TVar *)
      split; [discriminate|]. intros e rest H. inversion H; subst. cbn. lia.
    + (* TInt *)
      destruct (max_digits_ok maxd ndigits).
      * split; [discriminate|]. intros e rest H. inversion H; subst. cbn. lia.
      * split; [discriminate|intros ? ? H; discriminate].
  - (* MBinary *)
    destruct (IH MPrimary ts ltac:(cbn [need]; lia)) as [Hn Hl].
    destruct (pgo maxd fuel MPrimary ts) as [[lhs r]| |c] eqn:E; cbn.
    + specialize (Hl _ _ eq_refl). cbn in Hl.
      destruct (IH (MLoop minlvl lhs) r ltac:(cbn [need]; lia)) as [Hn2 Hl2].
      split; [exact Hn2|]. intros e rest H. specialize (Hl2 _ _ H). cbn in Hl2. lia.
    + split; [discriminate|intros ? ? H; discriminate].
    + split; [congruence|intros ? ? H; discriminate].
  - (* MLoop *)
    destruct ts as [|t r].
    { split; [discriminate|]. intros e rest H. inversion H; subst. cbn. lia. }
    cbn [length] in Hf.
    assert (Hstop : fuel_post (MLoop minlvl lhs) (t :: r) (Ok (lhs, t :: r))).
    { split; [discriminate|]. intros e rest H. inversion H; subst. lia. }
    destruct (binop_of t) as [[l mk]|] eqn:Eb.
    + destruct (Nat.leb minlvl l); [|exact Hstop].
      destruct (IH (MBinary (S l)) r ltac:(cbn [need]; lia)) as [Hn Hl].
      destruct (pgo maxd fuel (MBinary (S l)) r) as [[rhs r']| |c] eqn:E; cbn.
      * specialize (Hl _ _ eq_refl). cbn in Hl.
        destruct (IH (MLoop minlvl (mk lhs rhs)) r' ltac:(cbn [need]; lia)) as [Hn2 Hl2].
        split; [exact Hn2|]. intros e rest H. specialize (Hl2 _ _ H). cbn in *. lia.
      * split; [discriminate|intros ? ? H; discriminate].
      * split; [congruence|intros ? ? H; discriminate].
    + destruct t; try exact Hstop.
      destruct (Nat.leb minlvl 0); [|exact Hstop].
      destruct (IH (MBinary 0) r ltac:(cbn [need]; lia)) as [Hn Hl].
      destruct (pgo maxd fuel (MBinary 0) r) as [[a r1]| |c] eqn:E1; cbn.
      * specialize (Hl _ _ eq_refl). cbn in Hl.
        destruct r1 as [|t1 r2]; [split; [discriminate|intros ? ? H; discriminate]|].
        destruct t1; try (split; [discriminate|intros ? ? H; discriminate]).
        cbn [length] in Hl.
        destruct (IH (MBinary 0) r2 ltac:(cbn [need]; lia)) as [Hn2 Hl2].
        destruct (pgo maxd fuel (MBinary 0) r2) as [[b r3]| |c] eqn:E2; cbn.
        -- specialize (Hl2 _ _ eq_refl). cbn in Hl2.
           split; [discriminate|]. intros e rest H. inversion H; subst. cbn. lia.
        -- split; [discriminate|intros ? ? H; discriminate].
        -- split; [congruence|intros ? ? H; discriminate].
      * split; [discriminate|intros ? ? H; discriminate].
      * split; [congruence|intros ? ? H; discriminate].
Qed.

(* parse_tokens never runs out of fuel *)
Theorem parse_tokens_fuel maxd ts : parse_tokens maxd ts <> Crash COutOfFuel.
Proof.
  unfold parse_tokens.
  destruct (pgo_fuel maxd (4 * length ts + 4) (MBinary 0) ts ltac:(cbn [need]; lia)) as [Hn _].
  destruct (pgo maxd (4 * length ts + 4) (MBinary 0) ts) as [[e r]| |c]; cbn.
  - destruct r; discriminate.
  - discriminate.
  - congruence.
Qed.

(* a crash of pgo is an out-of-fuel or a ValueError (int() over the digit limit) *)
Lemma pgo_crash_kind maxd fuel : forall m ts c, pgo maxd fuel m ts = Crash c -> c = COutOfFuel \/ c = CValueError.
Proof.
  induction fuel as [|fuel IH]; intros m ts c; cbn [pgo]; [intros H; inversion H; auto|].
  destruct m as [|minlvl|minlvl lhs].
  - destruct ts as [|t r]; [discriminate|]. destruct t; try discriminate.
    + destruct (pgo maxd fuel MPrimary r) as [[e1 r1]| |] eqn:E; cbn; try discriminate.
      intros H; inversion H; subst. eapply IH; eauto.
    + destruct (pgo maxd fuel (MBinary 0) r) as [[e1 r1]| |] eqn:E; cbn; try discriminate.
      * destruct r1 as [|t1 r1]; [discriminate|]. destruct t1; discriminate.
      * intros H; inversion H; subst. eapply IH; eauto.
    + destruct (max_digits_ok maxd ndigits); [discriminate|]. intros H; inversion H; auto.
  - destruct (pgo maxd fuel MPrimary ts) as [[lhs r]| |] eqn:E; cbn; try discriminate.
    + apply IH.
    + intros H; inversion H; subst. eapply IH; eauto.
  - destruct ts as [|t r]; [discriminate|].
    destruct (binop_of t) as [[l mk]|] eqn:Eb.
    + destruct (Nat.leb minlvl l); [|discriminate].
      destruct (pgo maxd fuel (MBinary (S l)) r) as [[rhs r']| |] eqn:E; cbn; try discriminate.
      * apply IH.
      * intros H; inversion H; subst. eapply IH; eauto.
    + destruct t; try discriminate.
      destruct (Nat.leb minlvl 0); [|discriminate].
      destruct (pgo maxd fuel (MBinary 0) r) as [[a r1]| |] eqn:E1; cbn; try discriminate.
      * destruct r1 as [|t1 r2]; [discriminate|]. destruct t1; try discriminate.
        destruct (pgo maxd fuel (MBinary 0) r2) as [[b r3]| |] eqn:E2; cbn; try discriminate.
        intros H; inversion H; subst. eapply IH; eauto.
      * intros H; inversion H; subst. eapply IH; eauto.
Qed.

Theorem parse_tokens_crash_kind maxd ts c : parse_tokens maxd ts = Crash c -> c = CValueError.
Proof.
  intros H. pose proof (parse_tokens_fuel maxd ts) as Hf.
  assert (Hc : c = COutOfFuel \/ c = CValueError).
  { revert H. unfold parse_tokens.
    destruct (pgo maxd (4 * length ts + 4) (MBinary 0) ts) as [[e r]| |c'] eqn:E; cbn.
    - destruct r; discriminate.
    - discriminate.
    - intros H; inversion H; subst. eapply pgo_crash_kind; eauto. }
  destruct Hc as [-> | ->]; [congruence|reflexivity].
Qed.

From Coq Require Import List Arith Permutation Lia.
From I18n Require Import Model.Cli.
Import ListNotations.

Section CheckAll.
  Variables file line : Type.
  Variable check_file : file -> list line.

  Lemma lookup_completed pi fs i f :
    In i pi -> nth_error fs i = Some f ->
    lookup line i (completed file line check_file pi fs) = Some (check_file f).
  Proof.
    intros Hin Hnth. induction pi as [|j pi IH]; [destruct Hin|]. cbn.
    destruct (Nat.eq_dec i j) as [->|Hne].
    - rewrite Hnth. cbn. rewrite Nat.eqb_refl. reflexivity.
    - destruct Hin as [Heq|Hin]; [congruence|].
      destruct (nth_error fs j) as [g|]; cbn.
      + destruct (Nat.eqb i j) eqn:E; [apply Nat.eqb_eq in E; congruence|]. apply IH; auto.
      + apply IH; auto.
  Qed.

  Lemma flat_map_ext_in' {A B} (f g : A -> list B) l : (forall x, In x l -> f x = g x) -> flat_map f l = flat_map g l.
  Proof. induction l as [|a l IH]; cbn; intros H; auto. rewrite (H a (or_introl eq_refl)). f_equal. apply IH. intros; apply H; right; auto. Qed.

  Lemma flat_map_nth (fs : list file) :
    flat_map (fun i => match nth_error fs i with Some f => check_file f | None => [] end) (seq 0 (length fs))
    = flat_map check_file fs.
  Proof.
    assert (H : forall pre, flat_map (fun i => match nth_error (pre ++ fs) i with Some f => check_file f | None => [] end)
                                      (seq (length pre) (length fs)) = flat_map check_file fs).
    { induction fs as [|f fs IH]; intros pre; cbn; auto.
      rewrite nth_error_app2 by lia. rewrite Nat.sub_diag. cbn. f_equal.
      specialize (IH (pre ++ [f])). rewrite <- app_assoc in IH. cbn in IH.
      rewrite app_length in IH. cbn in IH. rewrite Nat.add_1_r in IH. exact IH. }
    exact (H []).
  Qed.

  (* whatever the order in which the workers finish, the output of a -j N run is the sequential output *)
  Theorem par_eq_seq pi fs : Permutation pi (seq 0 (length fs)) ->
    check_all_par file line check_file pi fs = check_all_seq file line check_file fs.
  Proof.
    intros Hp. unfold check_all_par, check_all_seq. rewrite <- flat_map_nth.
    apply flat_map_ext_in'. intros i Hi. apply in_seq in Hi.
    destruct (nth_error fs i) as [f|] eqn:E.
    - rewrite (lookup_completed pi fs i f); auto. apply Permutation_in with (l := seq 0 (length fs)).
      + apply Permutation_sym. auto.
      + apply in_seq. lia.
    - apply nth_error_None in E. lia.
  Qed.

  (* the output of a multi-file run is the concatenation of the single-file runs *)
  Theorem seq_is_concat fs : check_all_seq file line check_file fs = concat (map (fun f => check_all_seq file line check_file [f]) fs).
  Proof.
    unfold check_all_seq. induction fs as [|f fs IH]; cbn; auto. rewrite app_nil_r. f_equal. auto.
  Qed.
End CheckAll.

Section FakePath.
  Variable A : Type.
  Variable eqb : A -> A -> bool.
  Hypothesis eqb_eq : forall x y, eqb x y = true <-> x = y.

  Lemma is_prefix_spec p : forall s, is_prefix eqb p s = true <-> exists r, s = p ++ r.
  Proof.
    induction p as [|x p IH]; intros s; cbn.
    - split; eauto.
    - destruct s as [|y s]; [split; [discriminate|intros [r H]; discriminate]|].
      rewrite Bool.andb_true_iff, IH, eqb_eq. split.
      + intros [-> [r ->]]. eauto.
      + intros [r H]. inversion H; subst. eauto.
  Qed.

  Theorem fake_path_spec real fake path :
    (forall r, path = real ++ r -> fake_path eqb real fake path = fake ++ r) /\
    ((forall r, path <> real ++ r) -> fake_path eqb real fake path = path).
  Proof.
    unfold fake_path. split.
    - intros r ->. assert (E : is_prefix eqb real (real ++ r) = true) by (apply is_prefix_spec; eauto).
      rewrite E. f_equal. rewrite skipn_app, Nat.sub_diag, skipn_all. reflexivity.
    - intros H. destruct (is_prefix eqb real path) eqn:E; auto.
      apply is_prefix_spec in E. destruct E as [r Hr]. exfalso. apply (H r). auto.
  Qed.
End FakePath.

From Coq Require Import NArith.
Theorem printed_member_spec : forall binary tmpdir filename member,
  printed_member binary tmpdir filename member = filename ++ [47%N] ++ member.
Proof.
  intros. unfold printed_member, unpacked_member.
  destruct (fake_path_spec N N.eqb N.eqb_eq (real_root binary tmpdir) (filename ++ [47%N]) (real_root binary tmpdir ++ member)) as [H _].
  rewrite (H member eq_refl). rewrite <- app_assoc. reflexivity.
Qed.

(* C11, part (c): string-level conditions.  The fold of Conversion.__init__ over the token stream, the
   numbered/unnumbered state machine, the gap loop and the per-argument type check against args_ok / signature. *)
From Coq Require Import List NArith ZArith Bool Lia ZifyBool String.
From I18n Require Import Lib.Outcome Lib.CFmtSyntax Generated.CInfo Model.FmtC Spec.Printf Proofs.FmtCScan Proofs.FmtCDir.
Import ListNotations.
Local Open Scope Z_scope.

(* ------------------------------------------------------------------ *)
(* run                                                                  *)

Fixpoint mrefs_all (cid : nat) (toks : list ctoken) : list (option Z * arg) :=
  match toks with
  | CTLit _ :: r => mrefs_all (S cid) r
  | CTDir d _ :: r => mrefs cid d ++ mrefs_all (S cid) r
  | _ => []
  end.

(* valid_impl = valid_directive minus the alternate form of %m (D15, see FmtCDir) *)
Definition all_valid (ds : list directive) : Prop := Forall (fun d => valid_impl d = true) ds.

Lemma raise_error_pct : forall (A : Type) r, exists p, @raise_error A (37%N :: r) = Err (EError p) /\ p <> [].
Proof.
  intros A r. unfold raise_error. cbn [span]. change (is_printable 37%N) with true. cbv iota.
  destruct (span is_printable r) as [a b]. cbn [fst]. exists (37%N :: a). split; [reflexivity | discriminate].
Qed.

Lemma run_spec : forall toks cid st, Forall tok_ok toks -> inv (core_of st) ->
  match run 0 toks cid st with
  | Ok (_, st') => good toks = true /\ all_valid (dirs toks) /\ add_all (core_of st) (mrefs_all cid toks) = Some (core_of st')
  | Err _ => good toks = false \/ ~ all_valid (dirs toks) \/ add_all (core_of st) (mrefs_all cid toks) = None
  | Crash _ => False
  end.
Proof.
  induction toks as [|t toks IH]; intros cid st Hok Hi; cbn [run].
  - repeat split. constructor.
  - inversion Hok as [|t' toks' Ht Hoks]; subst. destruct t as [l|d text|rest|].
    + cbn [good dirs mrefs_all]. specialize (IH (S cid) st Hoks Hi).
      destruct (run 0 toks (S cid) st) as [[its st']|e|c]; cbn [obind]; exact IH.
    + cbn [good dirs mrefs_all]. cbn [tok_ok] in Ht.
      pose proof (conversion_init_spec cid st d text Ht Hi) as HC.
      destruct (conversion_init 0 cid st d text) as [[st1 c]|e|c]; cbn [obind]; [| |exact HC].
      * destruct HC as [HC1 HC2]. assert (inv (core_of st1)) as Hi1 by (eapply add_all_inv; eassumption).
        specialize (IH (S cid) st1 Hoks Hi1). rewrite add_all_app, HC2.
        destruct (run 0 toks (S cid) st1) as [[its st']|e|c']; cbn [obind]; [| |exact IH].
        -- destruct IH as [G [V A]]. repeat split; [exact G | constructor; assumption | exact A].
        -- destruct IH as [G|[V|A]]; [left; exact G | right; left | right; right; exact A].
           intros HV. inversion HV; subst. contradiction.
      * destruct HC as [HC|HC]; right; [left | right].
        -- intros HV. inversion HV; subst. congruence.
        -- rewrite add_all_app, HC. reflexivity.
    + cbn [tok_ok] in Ht. destruct Ht as [r ->]. destruct (raise_error_pct (list item * pstate) r) as [p [-> _]].
      left. reflexivity.
    + cbn [tok_ok] in Ht. contradiction.
Qed.

(* ------------------------------------------------------------------ *)
(* model references vs specification references                         *)

Definition rel (a : option Z * arg) (b : option Z * ctype) : Prop :=
  fst a = fst b /\ a_type (snd a) = ctype_name (snd b).

Lemma mrefs_rel : forall cid d, Forall2 rel (mrefs cid d) (drefs d).
Proof.
  intros cid d. unfold mrefs, drefs, mval, mstar, star_ref.
  repeat apply Forall2_app.
  - destruct (d_width d); repeat constructor.
  - destruct (d_prec d); repeat constructor.
  - destruct (body_takes (d_body d)); repeat constructor.
Qed.

Lemma mrefs_all_rel : forall toks cid, Forall2 rel (mrefs_all cid toks) (refs (dirs toks)).
Proof.
  induction toks as [|t toks IH]; intros cid; cbn [mrefs_all dirs]; [constructor|].
  destruct t; try constructor.
  - apply IH.
  - unfold refs. cbn [flat_map]. apply Forall2_app; [apply mrefs_rel | apply IH].
Qed.

Lemma Forall2_len : forall A B (R : A -> B -> Prop) l l', Forall2 R l l' -> List.length l = List.length l'.
Proof. induction 1; cbn; congruence. Qed.

Definition all_none {A} (R : list (option Z * A)) : Prop := forall r, In r R -> fst r = None.
Definition all_some_le {A} (R : list (option Z * A)) : Prop :=
  forall r, In r R -> exists k, fst r = Some k /\ k <= NL_ARGMAX.

Lemma rel_all_none : forall R rs, Forall2 rel R rs -> (all_none R <-> unnumbered rs).
Proof.
  induction 1 as [|a b R rs [Hf _] H2 IH]; unfold all_none, unnumbered in *.
  - split; intros _ r [].
  - split; intros H r [<-|Hr].
    + rewrite <- Hf. apply H. left. reflexivity.
    + apply IH; [|exact Hr]. intros r' Hr'. apply H. right. exact Hr'.
    + rewrite Hf. apply H. left. reflexivity.
    + apply IH; [|exact Hr]. intros r' Hr'. apply H. right. exact Hr'.
Qed.

Lemma rel_in_l : forall R rs, Forall2 rel R rs -> forall a, In a R -> exists b, In b rs /\ rel a b.
Proof.
  induction 1 as [|a b R rs Hr H2 IH]; intros x Hx; [destruct Hx|].
  destruct Hx as [<-|Hx]; [exists b; split; [left; reflexivity | exact Hr]|].
  destruct (IH x Hx) as [y [Hy Hxy]]. exists y. split; [right; exact Hy | exact Hxy].
Qed.

Lemma rel_in_r : forall R rs, Forall2 rel R rs -> forall b, In b rs -> exists a, In a R /\ rel a b.
Proof.
  induction 1 as [|a b R rs Hr H2 IH]; intros x Hx; [destruct Hx|].
  destruct Hx as [<-|Hx]; [exists a; split; [left; reflexivity | exact Hr]|].
  destruct (IH x Hx) as [y [Hy Hxy]]. exists y. split; [right; exact Hy | exact Hxy].
Qed.

(* ------------------------------------------------------------------ *)
(* the numbered / unnumbered state machine from the initial state       *)

Fixpoint number (k : Z) (R : list (option Z * arg)) : list (Z * arg) :=
  match R with [] => [] | r :: R' => (k, snd r) :: number (k + 1) R' end.
Definition keyed (R : list (option Z * arg)) : list (Z * arg) :=
  flat_map (fun r => match fst r with Some k => [(k, snd r)] | None => [] end) R.

Lemma nl_val : NL_ARGMAX = 4096. Proof. reflexivity. Qed.

Lemma gtb_false : forall a b, a <= b -> (a >? b) = false.
Proof. intros a b H. rewrite gtb_leb. apply negb_false_iff. apply Z.leb_le. exact H. Qed.
Lemma eqb1_false : forall k, 2 <= k -> (k =? 1) = false.
Proof. intros. apply Z.eqb_neq. lia. Qed.

Lemma add_all_none_ok : forall R e k, all_none R -> k + Z.of_nat (List.length R) <= NL_ARGMAX + 1 ->
  add_all (e, Some k) R = Some (e ++ number k R, Some (k + Z.of_nat (List.length R))).
Proof.
  induction R as [|[n v] R IH]; intros e k Hn Hk; cbn [add_all number List.length].
  - rewrite app_nil_r. replace (k + Z.of_nat 0) with k by lia. reflexivity.
  - assert (n = None) as -> by (apply (Hn (n, v)); left; reflexivity).
    cbn [add_core]. cbn [List.length] in Hk.
    rewrite (gtb_false k NL_ARGMAX) by lia.
    rewrite IH; [| intros r Hr; apply Hn; right; exact Hr | lia].
    rewrite <- app_assoc. cbn [app snd]. replace (k + 1 + Z.of_nat (List.length R)) with (k + Z.of_nat (S (List.length R))) by lia. reflexivity.
Qed.

Lemma add_all_some_inv : forall R e k c, 2 <= k <= NL_ARGMAX + 1 -> add_all (e, Some k) R = Some c ->
  all_none R /\ k + Z.of_nat (List.length R) <= NL_ARGMAX + 1.
Proof.
  induction R as [|[n v] R IH]; intros e k c Hk H; cbn [add_all List.length] in *.
  - split; [intros r [] | lia].
  - destruct n as [j|]; cbn [add_core] in H.
    + rewrite (eqb1_false k) in H by lia. discriminate.
    + destruct (k >? NL_ARGMAX) eqn:E; [discriminate|].
      destruct (IH _ (k + 1) c ltac:(lia) H) as [H1 H2]. split; [|lia].
      intros r [<-|Hr]; [reflexivity | apply H1; exact Hr].
Qed.

Lemma add_all_numbered_inv : forall R e c, add_all (e, None) R = Some c -> all_some_le R /\ c = (e ++ keyed R, None).
Proof.
  induction R as [|[n v] R IH]; intros e c H; cbn [add_all] in H.
  - inversion H; subst. split; [intros r [] | cbn; rewrite app_nil_r; reflexivity].
  - destruct n as [j|]; cbn [add_core] in H; [|discriminate].
    destruct (j >? NL_ARGMAX) eqn:E; [discriminate|]. destruct (IH _ c H) as [H1 H2]. split.
    + intros r [<-|Hr]; [exists j; split; [reflexivity | lia] | apply H1; exact Hr].
    + rewrite H2. unfold keyed. cbn [flat_map fst snd]. rewrite <- app_assoc. reflexivity.
Qed.

Lemma add_all_numbered_ok : forall R e, all_some_le R -> add_all (e, None) R = Some (e ++ keyed R, None).
Proof.
  induction R as [|[n v] R IH]; intros e H; cbn [add_all].
  - cbn. rewrite app_nil_r. reflexivity.
  - destruct (H (n, v) (or_introl eq_refl)) as [j [Hj Hle]]. cbn [fst] in Hj. subst n. cbn [add_core].
    rewrite (gtb_false j NL_ARGMAX) by lia.
    rewrite IH; [| intros r Hr; apply H; right; exact Hr].
    unfold keyed. cbn [flat_map fst snd]. rewrite <- app_assoc. reflexivity.
Qed.

Definition init_core : core := ([], Some 1).

Lemma add_all_init_inv : forall R c, add_all init_core R = Some c ->
  (all_none R /\ Z.of_nat (List.length R) <= NL_ARGMAX /\ c = (number 1 R, Some (1 + Z.of_nat (List.length R)))) \/
  (R <> [] /\ all_some_le R /\ c = (keyed R, None)).
Proof.
  intros R c H. destruct R as [|[n v] R].
  - left. cbn in H. inversion H; subst. split; [intros r [] | split; [rewrite nl_val; cbn [List.length]; lia | reflexivity]].
  - unfold init_core in H. cbn [add_all] in H. destruct n as [j|]; cbn [add_core] in H.
    + right. change (1 =? 1) with true in H. cbv iota in H. destruct (j >? NL_ARGMAX) eqn:E; [discriminate|].
      apply add_all_numbered_inv in H. destruct H as [H1 H2]. split; [discriminate|]. split.
      * intros r [<-|Hr]; [exists j; split; [reflexivity | lia] | apply H1; exact Hr].
      * exact H2.
    + left. change (1 >? NL_ARGMAX) with false in H. cbv iota in H.
      pose proof H as H'. apply add_all_some_inv in H'; [|rewrite nl_val; lia]. destruct H' as [H1 H2].
      assert (all_none ((None, v) :: R)) as Hn by (intros r [<-|Hr]; [reflexivity | apply H1; exact Hr]).
      split; [exact Hn|]. cbn [List.length]. split; [lia|].
      pose proof (add_all_none_ok ((None, v) :: R) [] 1 Hn) as H3. cbn [List.length] in H3.
      specialize (H3 ltac:(lia)). cbn [add_all add_core] in H3. change (1 >? NL_ARGMAX) with false in H3. cbv iota in H3.
      cbn [app] in H3, H. rewrite H3 in H. inversion H; subst. reflexivity.
Qed.

Lemma add_all_init_unnum : forall R, all_none R -> Z.of_nat (List.length R) <= NL_ARGMAX ->
  add_all init_core R = Some (number 1 R, Some (1 + Z.of_nat (List.length R))).
Proof. intros R H1 H2. unfold init_core. rewrite add_all_none_ok; [reflexivity | exact H1 | lia]. Qed.

Lemma add_all_init_num : forall R, R <> [] -> all_some_le R -> add_all init_core R = Some (keyed R, None).
Proof.
  intros [|[n v] R] H1 H2; [congruence|]. unfold init_core. cbn [add_all].
  destruct (H2 (n, v) (or_introl eq_refl)) as [j [Hj Hle]]. cbn [fst] in Hj. subst n. cbn [add_core].
  change (1 =? 1) with true. cbv iota. rewrite (gtb_false j NL_ARGMAX) by lia.
  rewrite add_all_numbered_ok; [reflexivity|]. intros r Hr. apply H2. right. exact Hr.
Qed.

(* ------------------------------------------------------------------ *)
(* the gap loop                                                         *)

Lemma partition_filter : forall A (f : A -> bool) l, partition f l = (filter f l, filter (fun x => negb (f x)) l).
Proof.
  induction l as [|x l IH]; cbn [partition filter]; [reflexivity|]. rewrite IH. destruct (f x); reflexivity.
Qed.

Definition keyis (j : Z) (e : Z * arg) : bool := fst e =? j.
Definition group (j : Z) (m : list (Z * arg)) : list arg := map snd (filter (keyis j) m).

Lemma filter_length_le : forall A (f : A -> bool) l, (List.length (filter f l) <= List.length l)%nat.
Proof. induction l as [|x l IH]; cbn; [lia|]. destruct (f x); cbn; lia. Qed.

Lemma filter_negb_length : forall A (f : A -> bool) l, filter f l <> [] ->
  (List.length (filter (fun x => negb (f x)) l) < List.length l)%nat.
Proof.
  induction l as [|x l IH]; cbn [filter]; intros H; [congruence|].
  destruct (f x) eqn:E; cbn [negb List.length].
  - pose proof (filter_length_le A (fun x => negb (f x)) l). lia.
  - specialize (IH H). lia.
Qed.

Lemma filter_filter_key : forall m i j, j <> i ->
  filter (keyis j) (filter (fun x => negb (keyis i x)) m) = filter (keyis j) m.
Proof.
  induction m as [|a m IH]; intros i j Hne; cbn [filter]; [reflexivity|].
  destruct (keyis i a) eqn:E1; cbn [negb].
  - rewrite IH by exact Hne. destruct (keyis j a) eqn:E2; [|reflexivity]. unfold keyis in *. lia.
  - cbn [filter]. rewrite IH by exact Hne. reflexivity.
Qed.

Lemma collect_cons : forall s f i m, m <> [] ->
  collect s (S f) i m =
  if i >? c_NL_ARGMAX then Crash CAssertion
  else match filter (keyis i) m with
       | [] => Err (EMissingArgument s i)
       | mine => do rest <- collect s f (i + 1) (filter (fun x => negb (keyis i x)) m); Ok (map snd mine :: rest)
       end.
Proof.
  intros s f i m H. destruct m as [|e0 m0]; [congruence|]. cbn [collect]. rewrite partition_filter. unfold keyis.
  destruct (i >? c_NL_ARGMAX); [reflexivity|]. destruct (filter (fun e => fst e =? i) (e0 :: m0)); reflexivity.
Qed.

Lemma collect_sound : forall s fuel i m args, collect s fuel i m = Ok args ->
  (forall e, In e m -> i <= fst e) ->
  forall e, In e m -> forall j, i <= j <= fst e -> exists e', In e' m /\ fst e' = j.
Proof.
  intros s. induction fuel as [|f IH]; intros i m args H Hlow e He j Hj.
  - destruct m; [destruct He | cbn in H; discriminate].
  - assert (m <> []) as Hne0 by (destruct m; [destruct He | discriminate]).
    rewrite (collect_cons s f i m Hne0) in H.
    destruct (i >? c_NL_ARGMAX); [discriminate|].
    destruct (filter (keyis i) m) as [|x mine] eqn:Hm; [discriminate|].
    destruct (collect s f (i + 1) (filter (fun x => negb (keyis i x)) m)) as [rest| |] eqn:Hc; cbn [obind] in H; try discriminate.
    destruct (Z.eq_dec j i) as [->|Hne].
    + exists x. assert (In x (filter (keyis i) m)) as Hx by (rewrite Hm; left; reflexivity).
      apply filter_In in Hx. destruct Hx as [Hx1 Hx2]. unfold keyis in Hx2. split; [exact Hx1 | lia].
    + assert (In e (filter (fun x => negb (keyis i x)) m)) as He'.
      { apply filter_In. split; [exact He|]. unfold keyis. lia. }
      assert (forall e1, In e1 (filter (fun x => negb (keyis i x)) m) -> i + 1 <= fst e1) as Hlow'.
      { intros e1 He1. apply filter_In in He1. destruct He1 as [He1 He2]. specialize (Hlow e1 He1). unfold keyis in He2. lia. }
      destruct (IH (i + 1) _ rest Hc Hlow' e He' j ltac:(lia)) as [e' [He1 He2]].
      exists e'. apply filter_In in He1. split; [tauto | exact He2].
Qed.

Lemma collect_complete : forall s fuel i m hi, (List.length m <= fuel)%nat ->
  (forall e, In e m -> i <= fst e <= hi) ->
  (forall j, i <= j <= hi -> exists e, In e m /\ fst e = j) ->
  hi <= NL_ARGMAX -> i <= hi + 1 ->
  collect s fuel i m = Ok (map (fun j => group j m) (zseq i (Z.to_nat (hi - i + 1)))).
Proof.
  intros s. induction fuel as [|f IH]; intros i m hi Hlen Hrange Hfull Hhi Hi.
  - destruct m; [|cbn in Hlen; lia]. cbn [collect].
    destruct (Z.eq_dec i (hi + 1)) as [->|Hne].
    + replace (hi - (hi + 1) + 1) with 0 by lia. reflexivity.
    + destruct (Hfull i ltac:(lia)) as [e [[] _]].
  - destruct m as [|e0 m0].
    + cbn [collect]. destruct (Z.eq_dec i (hi + 1)) as [->|Hne].
      * replace (hi - (hi + 1) + 1) with 0 by lia. reflexivity.
      * destruct (Hfull i ltac:(lia)) as [e [[] _]].
    + assert (i <= hi) as Hih.
      { specialize (Hrange e0 (or_introl eq_refl)). lia. }
      remember (e0 :: m0) as m eqn:Em. assert (m <> []) as Hne0 by (subst m; discriminate).
      rewrite (collect_cons s f i m Hne0). rewrite nl_eq. rewrite (gtb_false i NL_ARGMAX) by lia.
      destruct (Hfull i ltac:(lia)) as [x [Hx1 Hx2]].
      assert (In x (filter (keyis i) m)) as Hx by (apply filter_In; split; [exact Hx1 | unfold keyis; lia]).
      destruct (filter (keyis i) m) as [|y mine] eqn:Hm; [destruct Hx|].
      rewrite (IH (i + 1) (filter (fun x => negb (keyis i x)) m) hi).
      * cbn [obind]. replace (Z.to_nat (hi - i + 1)) with (S (Z.to_nat (hi - (i + 1) + 1))) by lia.
        unfold zseq at 2. cbn [seq map]. f_equal. f_equal.
        -- unfold group. replace (i + Z.of_nat 0) with i by lia. rewrite Hm. reflexivity.
        -- unfold zseq. rewrite <- seq_shift. rewrite !map_map. apply map_ext_in.
           intros a Ha. replace (i + Z.of_nat (S a)) with (i + 1 + Z.of_nat a) by lia.
           unfold group. f_equal. apply filter_filter_key. lia.
      * assert (filter (keyis i) m <> []) as Hne by (rewrite Hm; discriminate).
        pose proof (filter_negb_length _ (keyis i) m Hne). lia.
      * intros e He. apply filter_In in He. destruct He as [He1 He2]. specialize (Hrange e He1). unfold keyis in He2. lia.
      * intros j Hj. destruct (Hfull j ltac:(lia)) as [e [He1 He2]]. exists e. split; [|exact He2].
        apply filter_In. split; [exact He1 | unfold keyis; lia].
      * exact Hhi.
      * lia.
Qed.

Lemma collect_nocrash : forall s fuel i m c, (List.length m <= fuel)%nat ->
  (forall e, In e m -> i <= fst e <= NL_ARGMAX) -> collect s fuel i m <> Crash c.
Proof.
  intros s. induction fuel as [|f IH]; intros i m c Hlen Hrange.
  - destruct m; [cbn; discriminate | cbn in Hlen; lia].
  - destruct m as [|e0 m0]; [cbn; discriminate|].
    assert (i <= NL_ARGMAX) as Hil. { specialize (Hrange e0 (or_introl eq_refl)). lia. }
    remember (e0 :: m0) as m eqn:Em. assert (m <> []) as Hne0 by (subst m; discriminate).
    rewrite (collect_cons s f i m Hne0). rewrite nl_eq. rewrite (gtb_false i NL_ARGMAX) by lia.
    destruct (filter (keyis i) m) as [|y mine] eqn:Hm; [discriminate|].
    assert (collect s f (i + 1) (filter (fun x => negb (keyis i x)) m) <> Crash c) as Hc.
    { apply IH.
      - assert (filter (keyis i) m <> []) as Hne by (rewrite Hm; discriminate).
        pose proof (filter_negb_length _ (keyis i) m Hne). lia.
      - intros e He. apply filter_In in He. destruct He as [He1 He2]. specialize (Hrange e He1). unfold keyis in He2. lia. }
    destruct (collect s f (i + 1) (filter (fun x => negb (keyis i x)) m)); cbn [obind]; congruence.
Qed.

(* ------------------------------------------------------------------ *)
(* the unnumbered case                                                  *)

Lemma number_keys : forall R k e, In e (number k R) -> k <= fst e < k + Z.of_nat (List.length R).
Proof.
  induction R as [|r R IH]; intros k e H; cbn [number] in H; [destruct H|]. cbn [List.length].
  destruct H as [<-|H]; [cbn [fst]; lia|]. specialize (IH _ _ H). lia.
Qed.

Lemma number_length : forall R k, List.length (number k R) = List.length R.
Proof. induction R; intros; cbn; [reflexivity | f_equal; auto]. Qed.

Lemma filter_none : forall A (f : A -> bool) l, (forall x, In x l -> f x = false) -> filter f l = [].
Proof.
  induction l as [|x l IH]; intros H; cbn [filter]; [reflexivity|]. rewrite (H x (or_introl eq_refl)).
  apply IH. intros y Hy. apply H. right. exact Hy.
Qed.

Lemma filter_all : forall A (f : A -> bool) l, (forall x, In x l -> f x = true) -> filter f l = l.
Proof.
  induction l as [|x l IH]; intros H; cbn [filter]; [reflexivity|]. rewrite (H x (or_introl eq_refl)).
  f_equal. apply IH. intros y Hy. apply H. right. exact Hy.
Qed.

Lemma collect_number : forall s R fuel k, (List.length R <= fuel)%nat -> k + Z.of_nat (List.length R) <= NL_ARGMAX + 1 ->
  collect s fuel k (number k R) = Ok (map (fun r => [snd r]) R).
Proof.
  intros s. induction R as [|r R IH]; intros fuel k Hf Hk; cbn [number map].
  - destruct fuel; reflexivity.
  - cbn [List.length] in Hf, Hk. destruct fuel as [|f]; [lia|]. cbn [collect]. rewrite nl_eq.
    rewrite (gtb_false k NL_ARGMAX) by lia. rewrite partition_filter. cbn [filter fst].
    rewrite Z.eqb_refl. cbn [negb].
    rewrite (filter_none _ (fun e => fst e =? k) (number (k + 1) R)).
    2:{ intros e He. apply number_keys in He. lia. }
    rewrite (filter_all _ (fun x => negb (fst x =? k)) (number (k + 1) R)).
    2:{ intros e He. apply number_keys in He. lia. }
    rewrite IH; [reflexivity | lia | lia].
Qed.

Lemma check_types_singletons : forall s (R : list (option Z * arg)) i, check_types s i (map (fun r => [snd r]) R) = Ok tt.
Proof. intros s. induction R as [|r R IH]; intros i; cbn; [reflexivity | apply IH]. Qed.

(* ------------------------------------------------------------------ *)
(* the per-argument type check                                          *)

Lemma dedup_types_In : forall l x, In x (dedup_types l) <-> In x l.
Proof.
  induction l as [|t l IH]; intros x; cbn [dedup_types]; [tauto|]. cbn [In]. rewrite filter_In. rewrite IH.
  destruct (list_eqb x t) eqn:E.
  - apply list_eqb_eq in E. subst. tauto.
  - split.
    + intros [H|[H _]]; [left | right]; assumption.
    + intros [H|H]; [left; exact H | right; split; [exact H | reflexivity]].
Qed.

Lemma dedup_types_one : forall l, (List.length (dedup_types l) <= 1)%nat <-> (forall x y, In x l -> In y l -> x = y).
Proof.
  intros [|t l]; cbn [dedup_types List.length].
  - split; [intros _ x y [] | lia].
  - split.
    + intros H x y Hx Hy.
      assert (filter (fun x0 => negb (list_eqb x0 t)) (dedup_types l) = []) as E.
      { destruct (filter _ (dedup_types l)); [reflexivity | cbn in H; lia]. }
      assert (forall z, In z (t :: l) -> z = t) as Hz.
      { intros z [<-|Hz]; [reflexivity|]. destruct (list_eqb z t) eqn:Ez; [apply list_eqb_eq; exact Ez|].
        exfalso. assert (In z (filter (fun x0 => negb (list_eqb x0 t)) (dedup_types l))) as Hin.
        { apply filter_In. split; [apply (proj2 (dedup_types_In l z)); exact Hz | rewrite Ez; reflexivity]. }
        rewrite E in Hin. destruct Hin. }
      rewrite (Hz x Hx), (Hz y Hy). reflexivity.
    + intros H. rewrite filter_none; [cbn; lia|]. intros x Hx. apply (proj1 (dedup_types_In l x)) in Hx.
      rewrite (H x t (or_intror Hx) (or_introl eq_refl)). rewrite list_eqb_refl. reflexivity.
Qed.

Definition one_typed (a : list arg) : Prop := forall x y, In x a -> In y a -> a_type x = a_type y.

Lemma check_types_spec : forall s args i,
  match check_types s i args with
  | Ok _ => Forall one_typed args
  | Err _ => ~ Forall one_typed args
  | Crash _ => False
  end.
Proof.
  intros s. induction args as [|a args IH]; intros i; cbn [check_types]; [constructor|].
  destruct (Nat.ltb 1 (List.length (dedup_types (map a_type a)))) eqn:E.
  - intros H. inversion H as [|? ? H1 H2]; subst. apply Nat.ltb_lt in E.
    assert (List.length (dedup_types (map a_type a)) <= 1)%nat; [|lia].
    apply dedup_types_one. intros x y Hx Hy. apply in_map_iff in Hx. apply in_map_iff in Hy.
    destruct Hx as [x' [<- Hx]]. destruct Hy as [y' [<- Hy]]. apply H1; assumption.
  - apply Nat.ltb_ge in E. specialize (IH (i + 1)).
    assert (one_typed a) as Ha.
    { intros x y Hx Hy. apply (proj1 (dedup_types_one (map a_type a)) E); apply in_map; assumption. }
    destruct (check_types s (i + 1) args).
    + constructor; assumption.
    + intros H. inversion H; subst. contradiction.
    + exact IH.
Qed.

(* ------------------------------------------------------------------ *)
(* numbered references: keys, gaps, types                               *)

Lemma keyed_in : forall R k a, In (k, a) (keyed R) <-> In (Some k, a) R.
Proof.
  induction R as [|[n v] R IH]; intros k a; unfold keyed in *; cbn [flat_map fst snd]; [tauto|].
  rewrite in_app_iff. rewrite IH. destruct n as [j|]; cbn [In].
  - split.
    + intros [[H|[]]|H]; [left; inversion H; reflexivity | right; exact H].
    + intros [H|H]; [left; left; inversion H; reflexivity | right; exact H].
  - split; [intros [[]|H]; right; exact H | intros [H|H]; [discriminate | right; exact H]].
Qed.

Definition maxkey (m : list (Z * arg)) : Z := fold_right (fun e a => Z.max (fst e) a) 0 m.

Lemma maxkey_ge : forall m e, In e m -> fst e <= maxkey m.
Proof. induction m as [|x m IH]; intros e []; cbn [maxkey fold_right]; [subst; lia | specialize (IH e H); fold (maxkey m); lia]. Qed.

Lemma maxkey_in : forall m, (forall e, In e m -> 1 <= fst e) -> m <> [] -> exists e, In e m /\ fst e = maxkey m.
Proof.
  induction m as [|x m IH]; intros Hpos Hne; [congruence|]. cbn [maxkey fold_right]. fold (maxkey m).
  destruct m as [|y m'].
  - exists x. split; [left; reflexivity|]. cbn. specialize (Hpos x (or_introl eq_refl)). lia.
  - destruct IH as [e [He1 He2]]; [intros e He; apply Hpos; right; exact He | discriminate|].
    destruct (Z.le_gt_cases (fst x) (maxkey (y :: m'))).
    + exists e. split; [right; exact He1 | lia].
    + exists x. split; [left; reflexivity | lia].
Qed.

Lemma maxkey_keyed : forall R rs, Forall2 rel R rs -> maxkey (keyed R) = max_index rs.
Proof.
  induction 1 as [|a b R rs [Hf _] H2 IH]; [reflexivity|].
  unfold keyed. cbn [flat_map]. fold (keyed R). unfold max_index. cbn [fold_right]. fold (max_index rs).
  rewrite <- Hf. destruct (fst a); cbn [app maxkey fold_right fst]; fold (maxkey (keyed R)); rewrite IH; reflexivity.
Qed.

Definition headtype (a : list arg) : list N := match a with x :: _ => a_type x | [] => [] end.

Lemma group_head : forall R rs, Forall2 rel R rs -> forall j, (exists a, In (j, a) (keyed R)) ->
  headtype (group j (keyed R)) = ctype_name (type_at rs j).
Proof.
  induction 1 as [|a b R rs [Hf Ht] H2 IH]; intros j [x Hx]; [destruct Hx|].
  unfold keyed in *. cbn [flat_map] in *. fold (keyed R) in *.
  unfold type_at. cbn [find]. unfold has_index at 1. rewrite <- Hf.
  destruct (fst a) as [k|] eqn:Ek.
  - cbn [app] in *. unfold group. cbn [filter]. unfold keyis at 1. cbn [fst].
    destruct (k =? j) eqn:E.
    + cbn [map headtype snd]. exact Ht.
    + fold (group j (keyed R)). fold (type_at rs j). apply IH. destruct Hx as [Hx|Hx]; [inversion Hx; lia | exists x; exact Hx].
  - cbn [app] in *. fold (type_at rs j). apply IH. exists x. exact Hx.
Qed.

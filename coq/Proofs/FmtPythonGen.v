(* python %-format: the extracted instance, and small corollaries kept out of Props/. *)
From Coq Require Import List NArith ZArith Bool.
From I18n Require Import Lib.Outcome Model.FmtPython Model.FmtInstances Spec.CPyPercent Proofs.FmtPythonDir Proofs.FmtPython.
Import ListNotations.
Local Open Scope N_scope.

Lemma info_sync : gen_info = std_info.
Proof. reflexivity. Qed.

Lemma extracted_is_std : forall s, fmtpy_parse_gen s = fmtpy_parse std_info s.
Proof. intros s. unfold fmtpy_parse_gen. rewrite info_sync. reflexivity. Qed.

Lemma syntax_error_never_formats : forall s a, cpy_syntax_error s = true -> ~ formats_ok s a.
Proof.
  intros s a Hs Hok. unfold formats_ok, cpy_format in Hok. apply run_success_no_error in Hok.
  unfold cpy_syntax_error in Hs. congruence.
Qed.

Lemma domain_needed :
  (exists sg, fmtpy_parse std_info [37; 53; 37] = Ok sg /\ args_match (seq_arguments sg) (map_arguments sg) (VTuple [])) /\
  cpy_syntax_error [37; 53; 37] = true /\ plain_percents [37; 53; 37] = false.
Proof.
  split; [|split; reflexivity]. eexists. split; [vm_compute; reflexivity|]. cbn. exists []. split; [reflexivity|constructor].
Qed.

(* Proofs about the regex scanners of check_comments (Model/Header.v) against the declarative patterns of
   Spec/HeaderRules.v, and about str.splitlines *)
From Coq Require Import List NArith Bool Lia PeanoNat.
From Coq Require String.
From I18n Require Import Lib.Outcome Model.Header Spec.HeaderRules Proofs.HeaderBase.
Import ListNotations.
Import String.StringSyntax.
Local Open Scope N_scope.

Lemma search_pos_iff : forall m s prev,
  search_pos m prev s = true <-> exists a b, s = a ++ b /\ m (last_or prev a) b = true.
Proof.
  intros m. induction s as [|c r IH]; intro prev; cbn [search_pos].
  - rewrite orb_false_r. split.
    + intro H. exists [], []. auto.
    + intros (a & b & H & Hm). symmetry in H. apply app_eq_nil in H. destruct H as [-> ->]. exact Hm.
  - rewrite orb_true_iff, IH. split.
    + intros [H|(a & b & -> & H)]; [exists [], (c :: r); auto | exists (c :: a), b; rewrite last_or_cons; auto].
    + intros (a & b & H & Hm). destruct a as [|x a]; cbn [app] in H.
      * left. subst b. exact Hm.
      * injection H as <- ->. right. exists a, b. rewrite last_or_cons in Hm. auto.
Qed.

Lemma isw_iff : forall O o, isw O o = true <-> opt_word (o_word O) o.
Proof. intros O [c|]; cbn; [reflexivity | split; [discriminate | intros []]]. Qed.

Lemma wb_iff : forall O p n, wb O p n = true <-> boundary (o_word O) p n.
Proof.
  intros O p n. unfold wb, boundary. rewrite <- !isw_iff.
  destruct (isw O p), (isw O n); cbn; intuition discriminate.
Qed.

Lemma hd_opt_rev : forall s, hd_opt (rev s) = last_of s.
Proof. reflexivity. Qed.

Lemma m_word_lit_iff : forall O w prev s,
  m_word_lit O w prev s = true <->
  exists r, s = w ++ r /\ boundary (o_word O) prev (first_of w) /\ boundary (o_word O) (last_of w) (first_of r).
Proof.
  intros O w prev s. unfold m_word_lit. destruct (hstrip_prefix w s) as [r|] eqn:E.
  - apply hstrip_prefix_some in E. subst s. rewrite andb_true_iff, !wb_iff. split.
    + intros [H1 H2]. exists r. auto.
    + intros (r' & H & H1 & H2). apply app_inv_head in H. subst r'. auto.
  - split; [discriminate|]. intros (r & H & _). apply hstrip_prefix_some in H. congruence.
Qed.

Lemma hspan_spec : forall p s run rest, hspan p s = (run, rest) ->
  s = run ++ rest /\ (forall c, In c run -> p c = true) /\ match rest with c :: _ => p c = false | [] => True end.
Proof.
  intros p. induction s as [|c r IH]; intros run rest H; cbn [hspan] in H.
  - injection H as <- <-. split; [reflexivity|]. split; [intros c []|exact I].
  - destruct (p c) eqn:Ec.
    + destruct (hspan p r) as [a b] eqn:E. injection H as <- <-. destruct (IH _ _ eq_refl) as (-> & H1 & H2).
      split; [reflexivity|]. split; [intros x [<-|Hx]; auto | exact H2].
    + injection H as <- <-. split; [reflexivity|]. split; [intros x [] | exact Ec].
Qed.

Lemma hspan_app : forall p run rest, (forall c, In c run -> p c = true) ->
  match rest with c :: _ => p c = false | [] => True end -> hspan p (run ++ rest) = (run, rest).
Proof.
  intros p. induction run as [|c r IH]; intros rest H1 H2; cbn [app hspan].
  - destruct rest as [|c rest]; [reflexivity|]. cbn [hspan]. rewrite H2. reflexivity.
  - rewrite (H1 c (or_introl eq_refl)), IH; [reflexivity | intros x Hx; apply H1; right; exact Hx | exact H2].
Qed.

Lemma m_copyright_year_iff : forall O prev s, o_space O 32 = true ->
  (m_copyright_year O prev s = true <->
   exists x suf, s = lit "Copyright " ++ x ++ lit " YEAR" ++ suf /\ x <> [] /\ (forall c, In c x -> o_space O c = false) /\
                 boundary (o_word O) prev (Some 67) /\ boundary (o_word O) (Some 82) (first_of suf)).
Proof.
  intros O prev s H32. unfold m_copyright_year.
  change (lit "Copyright ") with (LIT "Copyright "). change (lit " YEAR") with (LIT " YEAR").
  destruct (hstrip_prefix (LIT "Copyright ") s) as [r|] eqn:E.
  - apply hstrip_prefix_some in E. subst s.
    destruct (hspan (fun c => negb (o_space O c)) r) as [run r2] eqn:Es. split.
    + intro H. apply andb_prop in H. destruct H as [Hb H]. apply andb_prop in H. destruct H as [Hne H].
      destruct (hstrip_prefix (LIT " YEAR") r2) as [r3|] eqn:E3; [|discriminate]. apply hstrip_prefix_some in E3. subst r2.
      apply hspan_spec in Es. destruct Es as (-> & Hrun & _). exists run, r3. split; [reflexivity|].
      split; [apply nonempty_iff; exact Hne|]. split; [intros c Hc; apply negb_true_iff; apply Hrun; exact Hc|].
      split; apply wb_iff; assumption.
    + intros (x & suf & H & Hne & Hx & Hb1 & Hb2). apply app_inv_head in H. subst r.
      rewrite hspan_app in Es; [|intros c Hc; apply negb_true_iff; apply Hx; exact Hc | cbn; rewrite H32; reflexivity].
      injection Es as <- <-. change (32 :: 89 :: 69 :: 65 :: 82 :: suf) with (LIT " YEAR" ++ suf). rewrite hstrip_prefix_app. apply wb_iff in Hb1, Hb2. change (first_of suf) with (hd_opt suf) in Hb2. rewrite Hb1, Hb2.
      apply nonempty_iff in Hne. rewrite Hne. reflexivity.
  - split; [discriminate|]. intros (x & suf & H & _). apply hstrip_prefix_some in H. congruence.
Qed.

Lemma opt_is_true : forall o c, opt_is o c = true <-> o = Some c.
Proof.
  intros [x|] c; cbn [opt_is]; [|split; discriminate]. rewrite N.eqb_eq. split; intro H; congruence.
Qed.

Lemma m_gt_year_iff : forall O prev s,
  m_gt_year O prev s = true <->
  prev = Some 62 /\ exists r, s = lit ", YEAR" ++ r /\ boundary (o_word O) (Some 82) (first_of r).
Proof.
  intros O prev s. unfold m_gt_year. change (lit ", YEAR") with (LIT ", YEAR"). rewrite andb_true_iff, opt_is_true.
  destruct (hstrip_prefix (LIT ", YEAR") s) as [r|] eqn:E.
  - apply hstrip_prefix_some in E. subst s. rewrite wb_iff. split.
    + intros [H1 H2]. split; [exact H1|]. exists r. auto.
    + intros [H1 (r' & H & H2)]. apply app_inv_head in H. subst r'. auto.
  - split; [intros [_ H]; discriminate|]. intros [_ (r & H & _)]. apply hstrip_prefix_some in H. congruence.
Qed.

(* the line scanner against the declarative patterns *)
Lemma word_delimited_iff : forall O w line,
  search_pos (m_word_lit O w) None line = true <-> word_delimited (o_word O) w line.
Proof.
  intros O w line. rewrite search_pos_iff. unfold word_delimited. split.
  - intros (a & b & -> & H). apply m_word_lit_iff in H. destruct H as (r & -> & H1 & H2). exists a, r. auto.
  - intros (pre & suf & -> & H1 & H2). exists pre, (w ++ suf). split; [reflexivity|]. apply m_word_lit_iff. exists suf. auto.
Qed.

Lemma search_pos_or : forall m1 m2 prev s,
  search_pos (fun p x => m1 p x || m2 p x) prev s = search_pos m1 prev s || search_pos m2 prev s.
Proof.
  intros m1 m2. intros prev s. revert prev. induction s as [|c r IH]; intro prev; cbn [search_pos].
  - rewrite !orb_false_r. reflexivity.
  - rewrite IH. destruct (m1 prev (c :: r)), (m2 prev (c :: r)), (search_pos m1 (Some c) r), (search_pos m2 (Some c) r); reflexivity.
Qed.

Lemma search_pos_and_const : forall (b : bool) m prev s,
  search_pos (fun p x => b && m p x) prev s = b && search_pos m prev s.
Proof.
  intros b m prev s. revert prev. induction s as [|c r IH]; intro prev; cbn [search_pos].
  - rewrite !orb_false_r. reflexivity.
  - rewrite IH. destruct b; reflexivity.
Qed.

Lemma comment_line_boilerplate_iff : forall O t line, o_space O 32 = true ->
  (comment_line_boilerplate O t line = true <-> comment_boilerplate (o_word O) (o_space O) t line).
Proof.
  intros O t line H32. unfold comment_line_boilerplate, comment_boilerplate.
  assert (E : forall p x, comment_boilerplate_at O t p x =
     (m_word_lit O (LIT "PACKAGE package") p x || (m_copyright_year O p x || (m_word_lit O (LIT "THE PACKAGE'S COPYRIGHT HOLDER") p x
      || (negb t && (m_word_lit O (LIT "FIRST AUTHOR") p x || (m_plain (LIT "<EMAIL@ADDRESS>") p x || m_gt_year O p x))))))).
  { intros p x. unfold comment_boilerplate_at. rewrite <- !orb_assoc. reflexivity. }
  assert (E' : search_pos (comment_boilerplate_at O t) None line =
     search_pos (fun p x => m_word_lit O (LIT "PACKAGE package") p x || (m_copyright_year O p x || (m_word_lit O (LIT "THE PACKAGE'S COPYRIGHT HOLDER") p x
      || (negb t && (m_word_lit O (LIT "FIRST AUTHOR") p x || (m_plain (LIT "<EMAIL@ADDRESS>") p x || m_gt_year O p x)))))) None line).
  { generalize (@None N). induction line as [|c r IH]; intro prev; cbn [search_pos]; rewrite E; [reflexivity|]. rewrite IH. reflexivity. }
  rewrite E'. clear E E'.
  rewrite search_pos_or, (search_pos_or (m_copyright_year O)), (search_pos_or (m_word_lit O (LIT "THE PACKAGE'S COPYRIGHT HOLDER"))).
  rewrite (search_pos_and_const (negb t)), search_pos_or, (search_pos_or (m_plain (LIT "<EMAIL@ADDRESS>"))).
  rewrite !orb_true_iff, andb_true_iff, !orb_true_iff, negb_true_iff, !word_delimited_iff.
  assert (Hc : search_pos (m_copyright_year O) None line = true <-> copyright_year (o_word O) (o_space O) line).
  { rewrite search_pos_iff. unfold copyright_year. split.
    - intros (a & b & -> & H). apply (m_copyright_year_iff O _ _ H32) in H. destruct H as (x & suf & -> & H). exists a, x, suf. tauto.
    - intros (pre & x & suf & -> & H). exists pre, (lit "Copyright " ++ x ++ lit " YEAR" ++ suf). split; [reflexivity|].
      apply (m_copyright_year_iff O _ _ H32). exists x, suf. tauto. }
  assert (Hp : search_pos (m_plain (LIT "<EMAIL@ADDRESS>")) None line = true <-> contains (lit "<EMAIL@ADDRESS>") line).
  { rewrite search_pos_iff. unfold contains, m_plain. split.
    - intros (a & b & -> & H). apply hstarts_iff in H. destruct H as (r & ->). exists a, r. reflexivity.
    - intros (a & b & ->). exists a, (lit "<EMAIL@ADDRESS>" ++ b). split; [reflexivity|]. apply hstarts_iff. exists b. reflexivity. }
  assert (Hg : search_pos (m_gt_year O) None line = true <-> gt_year (o_word O) line).
  { rewrite search_pos_iff. unfold gt_year. split.
    - intros (a & b & -> & H). apply m_gt_year_iff in H. destruct H as (Hl & r & -> & Hb).
      apply last_of_some in Hl. destruct Hl as (pre & ->). exists pre, r. split; [rewrite <- app_assoc; reflexivity | exact Hb].
    - intros (pre & suf & -> & Hb). exists (pre ++ [62]), (lit ", YEAR" ++ suf). split; [rewrite <- app_assoc; reflexivity|].
      apply m_gt_year_iff. split; [apply last_of_app1|]. exists suf. auto. }
  rewrite Hc, Hp, Hg. reflexivity.
Qed.

(* every pattern contains one of the boilerplate words *)
Lemma contains_trans : forall a b c, contains a b -> contains b c -> contains a c.
Proof.
  intros a b c (x & y & ->) (u & v & ->). exists (u ++ x), (y ++ v). rewrite <- !app_assoc. reflexivity.
Qed.

Lemma comment_boilerplate_word : forall W S t line, comment_boilerplate W S t line ->
  exists w, In w boilerplate_words /\ contains w line.
Proof.
  intros W S t line H. unfold boilerplate_words.
  destruct H as [(pre & suf & -> & _)|[(pre & x & suf & -> & _)|[(pre & suf & -> & _)|[_ [(pre & suf & -> & _)|[H|(pre & suf & -> & _)]]]]]].
  - eexists. split; [left; reflexivity|]. exists pre, suf. reflexivity.
  - exists (lit "YEAR"). split; [right; left; reflexivity|]. exists (pre ++ lit "Copyright " ++ x ++ [32]), suf.
    rewrite <- !app_assoc. reflexivity.
  - eexists. split; [do 2 right; left; reflexivity|]. exists pre, suf. reflexivity.
  - eexists. split; [do 3 right; left; reflexivity|]. exists pre, suf. reflexivity.
  - eexists. split; [do 4 right; left; reflexivity|]. exact H.
  - exists (lit "YEAR"). split; [right; left; reflexivity|]. exists (pre ++ lit ">, "), suf. rewrite <- !app_assoc. reflexivity.
Qed.

(* str.splitlines: every line is a piece of the text *)
Lemma splitlines_aux_contains : forall n s cur l, (length s <= n)%nat ->
  In l (splitlines_aux cur s) -> exists a b, rev cur ++ s = a ++ l ++ b.
Proof.
  induction n as [|n IH]; intros s cur l Hlen H.
  - destruct s; [|cbn in Hlen; lia]. cbn [splitlines_aux] in H. destruct cur as [|c cur]; [destruct H|].
    destruct H as [<-|[]]. exists [], []. rewrite !app_nil_r. reflexivity.
  - destruct s as [|c r].
    + cbn [splitlines_aux] in H. destruct cur as [|c cur]; [destruct H|]. destruct H as [<-|[]]. exists [], []. rewrite !app_nil_r. reflexivity.
    + cbn [splitlines_aux] in H. cbn [length] in Hlen. destruct (is_linebreak c).
      * destruct H as [<-|H]; [exists [], (c :: r); reflexivity|].
        destruct r as [|d r']; [destruct H|].
        destruct (N.eqb c 13 && N.eqb d 10).
        -- apply IH in H; [|cbn [length] in Hlen; lia]. destruct H as (a & b & H). cbn [rev app] in H.
           exists (rev cur ++ c :: d :: a), b. rewrite H, <- !app_assoc. reflexivity.
        -- apply IH in H; [|lia]. destruct H as (a & b & H). cbn [rev app] in H.
           exists (rev cur ++ c :: a), b. rewrite H, <- !app_assoc. reflexivity.
      * apply IH in H; [|lia]. destruct H as (a & b & H). cbn [rev] in H. rewrite <- app_assoc in H. cbn [app] in H. eauto.
Qed.

Lemma splitlines_contains : forall s l, In l (splitlines s) -> contains l s.
Proof.
  intros s l H. unfold splitlines in H. apply (splitlines_aux_contains (length s)) in H; [|lia]. exact H.
Qed.

Lemma clean_comment_lines : forall O t comment, o_space O 32 = true ->
  (forall w, In w boilerplate_words -> ~ contains w comment) ->
  forall line, In line (splitlines comment) -> comment_line_boilerplate O t line = false.
Proof.
  intros O t comment H32 Hclean line Hl. destruct (comment_line_boilerplate O t line) eqn:E; [|reflexivity].
  apply (comment_line_boilerplate_iff O t line H32) in E. apply comment_boilerplate_word in E. destruct E as (w & Hw & Hc).
  exfalso. apply (Hclean w Hw). eapply contains_trans; [exact Hc | apply splitlines_contains; exact Hl].
Qed.

(* Proofs about Model/Header.v, second part: whole-result characterisations of the address, Project-Id-Version,
   flag and unusual-character tags *)
From Coq Require Import List NArith Bool Lia PeanoNat Sorted.
From Coq Require String.
From I18n Require Import Lib.Outcome Model.Header Spec.HeaderRules Proofs.HeaderBase Proofs.HeaderComments Proofs.Header.
Import ListNotations.
Import String.StringSyntax.
Local Open Scope N_scope.

(* ------------------------------------------------------------------ *)
(* the decision ladder, one clause per verdict *)

Lemma addr_verdict_spec : forall O nb ob b e,
  match addr_verdict O nb ob b e with
  | VNoAt => ~ In 64 e
  | VReserved => exists d, domain_part e d /\ reserved nb ob (o_lower O d)
  | VBoilerplate => exists d, domain_part e d /\ ~ reserved nb ob (o_lower O d) /\ b e = true
  | VDotless => exists d, domain_part e d /\ ~ reserved nb ob (o_lower O d) /\ b e = false /\ dotless d
  | VFine => exists d, domain_part e d /\ ~ reserved nb ob (o_lower O d) /\ b e = false /\ ~ dotless d
  end.
Proof.
  intros O nb ob b e. unfold addr_verdict. destruct (hmem 64 e) eqn:E; cbn [negb].
  - apply hmem_In in E. pose proof (domain_pure_part _ E) as HP.
    destruct (is_special nb ob (o_lower O (domain_pure e))) eqn:Es.
    + apply is_special_iff in Es. exists (domain_pure e). auto.
    + assert (~ reserved nb ob (o_lower O (domain_pure e))) by (intro H; apply is_special_iff in H; congruence).
      destruct (b e) eqn:Eb; [exists (domain_pure e); auto|]. destruct (hmem 46 (domain_pure e)) eqn:Ed; cbn [negb].
      * apply hmem_In in Ed. exists (domain_pure e). unfold dotless. repeat split; auto.
      * apply hmem_false in Ed. exists (domain_pure e). unfold dotless. repeat split; auto.
  - apply hmem_false in E. exact E.
Qed.

Lemma domain_part_at : forall e d, domain_part e d -> In 64 e.
Proof. intros e d (l & -> & _). apply in_or_app. right. left. reflexivity. Qed.

Lemma domain_part_fun : forall e d d', domain_part e d -> domain_part e d' -> d = d'.
Proof. intros e d d' H H'. apply domain_part_unique in H, H'. congruence. Qed.

Lemma is_boiler2_iff : forall e, is_boiler2 e = true <-> In e team_placeholders.
Proof.
  intro e. unfold is_boiler2, team_placeholders. rewrite orb_true_iff, !str_eqb_eq. cbn [In].
  change (lit "LL@li.org") with (LIT "LL@li.org"). change (lit "EMAIL@ADDRESS") with s_EMAIL_ADDRESS. intuition.
Qed.

Lemma is_boiler1_iff : forall e, is_boiler1 e = true <-> boilerplate_address e.
Proof. intro e. unfold is_boiler1, boilerplate_address. rewrite str_eqb_eq. reflexivity. Qed.

(* report_values: the values, unless all of them are empty *)
Lemma In_report_values_iff : forall fs v,
  In v (report_values fs) <-> In v (values (field_name FReport) fs) /\ exists w, In w (values (field_name FReport) fs) /\ w <> [].
Proof.
  intros fs v. split.
  - intro H. split; [apply In_report_values; exact H|].
    destruct (report_values fs) as [|x l] eqn:E; [destruct H|].
    destruct (list_eq_dec (list_eq_dec N.eq_dec) (report_values fs) []) as [Hn|Hn]; [congruence|].
    rewrite report_values_nil in Hn.
    (* some value is non-empty, constructively: look through the list *)
    clear -Hn. induction (values (field_name FReport) fs) as [|w l IH].
    + exfalso. apply Hn. intros v [].
    + destruct w as [|c w]; [|exists (c :: w); split; [left; reflexivity | discriminate]].
      destruct IH as (w' & Hw' & Hne).
      * intro H. apply Hn. intros v [<-|Hv]; [reflexivity | apply H; exact Hv].
      * exists w'. split; [right; exact Hw' | exact Hne].
  - intros [Hv (w & Hw & Hne)]. unfold report_values. rewrite <- values_of_spec in Hv, Hw.
    assert (HD := In_dedup (values_of (field_name FReport) fs)).
    destruct (dedup (values_of (field_name FReport) fs)) as [|x [|y l]] eqn:E.
    + apply HD in Hv. destruct Hv.
    + destruct x as [|c x]; [|apply HD; exact Hv]. apply HD in Hw. destruct Hw as [<-|[]]. contradiction.
    + destruct x; apply HD; exact Hv.
Qed.

(* ------------------------------------------------------------------ *)

Ltac solve_neq := first [reflexivity | intros; discriminate].

Section MoreRules.
Variable O : oracles.
Variable known dedicated nb ob : list str.
Variable inp : hinput.
Variable ds : list diag.
Hypothesis Hok : hdr_check O known dedicated nb ob inp = Ok ds.
Local Notation md := (metadata_of (h_entries inp)).
Local Notation t := (h_template inp).
Local Notation translators := (dedup (values_of (field_name FTranslator) md)).

Lemma team_piece : forall d, cls d = 4%nat ->
  (forall f, d <> DDuplicateDedicated f) -> (forall f, d <> DNoField f) ->
  (forall a, d <> DInvalidTranslator a) -> (forall a, d <> DBoilerplateTranslator a) ->
  (In d ds <-> exists v, In v (values (field_name FTeam) md) /\ In d (team_pure O nb ob t translators v)).
Proof.
  intros d Hc H1 H2 H3 H4. rewrite (hdr_check_in _ _ _ _ _ _ _ _ Hok). rewrite Hc.
  rewrite (translator_result O nb ob inp). split.
  - intros (td & E & H). injection E as <-.
    apply in_app_or in H. destruct H as [H|H]; [exfalso; in_cases; subst; first [eapply H1; reflexivity | eapply H2; reflexivity]|].
    apply in_app_or in H. destruct H as [H|H].
    + exfalso. unfold tr_pure in H. in_cases; subst; first [eapply H3; reflexivity | eapply H4; reflexivity].
    + apply in_app_or in H. destruct H as [H|H]; [exfalso; in_cases; subst; first [eapply H1; reflexivity | eapply H2; reflexivity]|].
      apply in_flat_map in H. destruct H as (v & Hv & H). exists v. split; [|exact H].
      apply (proj1 (In_dedup _ _)) in Hv. rewrite <- values_of_spec. exact Hv.
  - intros (v & Hv & H). eexists. split; [reflexivity|]. do 3 (apply in_or_app; right).
    apply in_flat_map. exists v. split; [apply In_dedup; rewrite values_of_spec; exact Hv | exact H].
Qed.

(* invalid-language-team *)
Lemma invalid_team_iff : forall v,
  In (DInvalidTeam v) ds <->
  In v (values (field_name FTeam) md) /\ team_invalid (o_lower O) nb ob (o_parseaddr O v).
Proof.
  intro v. rewrite team_piece by solve_neq. unfold team_invalid. split.
  - intros (v' & Hv' & H). unfold team_pure in H. pose proof (addr_verdict_spec O nb ob is_boiler2 (o_parseaddr O v')) as HV.
    destruct (addr_verdict O nb ob is_boiler2 (o_parseaddr O v')); in_cases; try discriminate; injection H as ->; (split; [exact Hv'|]).
    + destruct HV as (d & Hd & Hr). eauto.
    + destruct HV as (d & Hd & Hr & Hb & Hdl). exists d. split; [exact Hd|]. right. split; [exact Hdl|].
      intro Hin. apply is_boiler2_iff in Hin. congruence.
  - intros [Hv (d & Hd & Hcase)]. exists v. split; [exact Hv|]. unfold team_pure.
    pose proof (addr_verdict_spec O nb ob is_boiler2 (o_parseaddr O v)) as HV.
    destruct (addr_verdict O nb ob is_boiler2 (o_parseaddr O v)); try (left; reflexivity); exfalso.
    + apply HV. eapply domain_part_at; exact Hd.
    + destruct HV as (d' & Hd' & Hnr & Hb). rewrite (domain_part_fun _ _ _ Hd' Hd) in Hnr.
      destruct Hcase as [H|[_ H]]; [contradiction | apply H; apply is_boiler2_iff; exact Hb].
    + destruct HV as (d' & Hd' & Hnr & Hb & Hnd). rewrite (domain_part_fun _ _ _ Hd' Hd) in Hnr, Hnd.
      destruct Hcase as [H|[H _]]; contradiction.
Qed.

(* boilerplate-in-language-team, with the POT exemption *)
Lemma boilerplate_team_iff : forall v,
  In (DBoilerplateTeam v) ds <->
  In v (values (field_name FTeam) md) /\ t = false /\
  address_is_placeholder (o_lower O) nb ob team_placeholders (o_parseaddr O v).
Proof.
  intro v. rewrite team_piece by solve_neq. unfold address_is_placeholder. split.
  - intros (v' & Hv' & H). unfold team_pure in H. pose proof (addr_verdict_spec O nb ob is_boiler2 (o_parseaddr O v')) as HV.
    destruct (addr_verdict O nb ob is_boiler2 (o_parseaddr O v')); in_cases; try discriminate. injection H as ->.
    destruct HV as (d & Hd & Hnr & Hb). split; [exact Hv'|]. split; [reflexivity|]. split; [apply is_boiler2_iff; exact Hb | eauto].
  - intros (Hv & Ht & Hp & d & Hd & Hnr). exists v. split; [exact Hv|]. unfold team_pure.
    pose proof (addr_verdict_spec O nb ob is_boiler2 (o_parseaddr O v)) as HV. apply is_boiler2_iff in Hp.
    destruct (addr_verdict O nb ob is_boiler2 (o_parseaddr O v)).
    + exfalso. apply HV. eapply domain_part_at; exact Hd.
    + exfalso. destruct HV as (d' & Hd' & Hr). rewrite (domain_part_fun _ _ _ Hd' Hd) in Hr. contradiction.
    + rewrite Ht. left. reflexivity.
    + exfalso. destruct HV as (d' & _ & _ & Hb & _). congruence.
    + exfalso. destruct HV as (d' & _ & _ & Hb & _). congruence.
Qed.

(* language-team-equal-to-last-translator: the team address is usable and some Last-Translator value has the same
   address; the one named is the greatest such value in Python's string order *)
Lemma team_equals_translator_iff : forall v tr,
  In (DTeamEqualsTranslator v tr) ds <->
  In v (values (field_name FTeam) md) /\ team_address_fine (o_lower O) nb ob (o_parseaddr O v) /\
  In tr (values (field_name FTranslator) md) /\ o_parseaddr O tr = o_parseaddr O v /\
  forall tr', In tr' (values (field_name FTranslator) md) -> o_parseaddr O tr' = o_parseaddr O v -> tr' = tr \/ str_lt tr' tr.
Proof.
  intros v tr. rewrite team_piece by solve_neq. unfold team_address_fine.
  assert (Hfind : translator_with_email O translators (o_parseaddr O v) = Some tr <->
                  In tr (values (field_name FTranslator) md) /\ o_parseaddr O tr = o_parseaddr O v /\
                  forall tr', In tr' (values (field_name FTranslator) md) -> o_parseaddr O tr' = o_parseaddr O v -> tr' = tr \/ str_lt tr' tr).
  { unfold translator_with_email. rewrite find_rev_some. split.
    - intros (a & b & E & Hp & Hb). apply str_eqb_eq in Hp.
      assert (Hs := dedup_sorted (values_of (field_name FTranslator) md)). rewrite E in Hs. apply sorted_split in Hs. destruct Hs as [Hlt Hgt].
      split; [rewrite <- values_of_spec; apply In_dedup; rewrite E; apply in_or_app; right; left; reflexivity|]. split; [exact Hp|].
      intros tr' Hin Hp'. rewrite <- values_of_spec in Hin. apply In_dedup in Hin. rewrite E in Hin.
      apply in_app_or in Hin. destruct Hin as [Hin|[<-|Hin]]; [right; apply Hlt; exact Hin | left; reflexivity|].
      exfalso. specialize (Hb tr' Hin). apply str_eqb_neq in Hb. contradiction.
    - intros (Hin & Hp & Hmax). rewrite <- values_of_spec in Hin. apply In_dedup in Hin. apply in_split in Hin. destruct Hin as (a & b & E).
      exists a, b. split; [exact E|]. split; [apply str_eqb_eq; exact Hp|]. intros y Hy. apply str_eqb_neq. intro Hpy.
      assert (Hs := dedup_sorted (values_of (field_name FTranslator) md)). rewrite E in Hs. apply sorted_split in Hs. destruct Hs as [_ Hgt].
      specialize (Hgt y Hy). destruct (Hmax y) as [->|Hlt].
      + rewrite <- values_of_spec. apply In_dedup. rewrite E. apply in_or_app. right. right. exact Hy.
      + exact Hpy.
      + exact (str_lt_irrefl _ Hgt).
      + exact (str_lt_irrefl _ (str_lt_trans _ _ _ Hgt Hlt)). }
  split.
  - intros (v' & Hv' & H). unfold team_pure in H. pose proof (addr_verdict_spec O nb ob is_boiler2 (o_parseaddr O v')) as HV.
    destruct (addr_verdict O nb ob is_boiler2 (o_parseaddr O v')); in_cases; try discriminate. injection H as -> ->.
    destruct HV as (d & Hd & Hnr & Hb & Hnd). split; [exact Hv'|]. split.
    + exists d. split; [exact Hd|]. split; [exact Hnr|]. split; [exact Hnd|]. intro Hin. apply is_boiler2_iff in Hin. congruence.
    + apply Hfind. assumption.
  - intros (Hv & (d & Hd & Hnr & Hnd & Hnp) & Hrest). exists v. split; [exact Hv|]. unfold team_pure.
    pose proof (addr_verdict_spec O nb ob is_boiler2 (o_parseaddr O v)) as HV.
    destruct (addr_verdict O nb ob is_boiler2 (o_parseaddr O v)).
    + exfalso. apply HV. eapply domain_part_at; exact Hd.
    + exfalso. destruct HV as (d' & Hd' & Hr). rewrite (domain_part_fun _ _ _ Hd' Hd) in Hr. contradiction.
    + exfalso. destruct HV as (d' & _ & _ & Hb). apply is_boiler2_iff in Hb. contradiction.
    + exfalso. destruct HV as (d' & Hd' & _ & _ & Hdl). rewrite (domain_part_fun _ _ _ Hd' Hd) in Hdl. contradiction.
    + apply Hfind in Hrest. rewrite Hrest. left. reflexivity.
Qed.

(* ---- check_project ---- *)
Lemma report_piece : forall d, cls d = 3%nat ->
  (forall f, d <> DDuplicateDedicated f) -> (forall f, d <> DNoField f) ->
  (forall a, d <> DBoilerplateProject a) -> (forall a, d <> DNoPackageName a) -> (forall a, d <> DNoVersion a) ->
  (In d ds <-> exists v, In v (report_values md) /\ In d (report_pure O nb ob v)).
Proof.
  intros d Hc H1 H2 H3 H4 H5. rewrite (hdr_check_in _ _ _ _ _ _ _ _ Hok). rewrite Hc.
  destruct (project_result O known dedicated nb ob inp ds Hok) as (pd & Hp & Epd). split.
  - intros (pd' & E & H). assert (pd' = pd) by congruence. subst pd'. rewrite Epd in H.
    apply in_app_or in H. destruct H as [H|H]; [exfalso; in_cases; subst; first [eapply H1; reflexivity | eapply H2; reflexivity]|].
    apply in_app_or in H. destruct H as [H|H].
    { exfalso. unfold project_diags in H. in_cases; subst; first [eapply H3; reflexivity | eapply H4; reflexivity | eapply H5; reflexivity]. }
    apply in_app_or in H. destruct H as [H|H]; [exfalso; in_cases; subst; first [eapply H1; reflexivity | eapply H2; reflexivity]|].
    apply in_app_or in H. destruct H as [H|H]; [exfalso; in_cases; subst; first [eapply H1; reflexivity | eapply H2; reflexivity]|].
    apply in_flat_map in H. exact H.
  - intros (v & Hv & H). exists pd. split; [exact Hp|]. rewrite Epd. do 4 (apply in_or_app; right).
    apply in_flat_map. exists v. auto.
Qed.

Lemma project_piece : forall d, cls d = 3%nat ->
  (forall f, d <> DDuplicateDedicated f) -> (forall f, d <> DNoField f) ->
  (forall a, d <> DInvalidReport a) -> (forall a, d <> DBoilerplateReport a) ->
  (In d ds <-> exists v, In v (values (field_name FProject) md) /\ In d (project_diags O v)).
Proof.
  intros d Hc H1 H2 H3 H4. rewrite (hdr_check_in _ _ _ _ _ _ _ _ Hok). rewrite Hc.
  destruct (project_result O known dedicated nb ob inp ds Hok) as (pd & Hp & Epd). split.
  - intros (pd' & E & H). assert (pd' = pd) by congruence. subst pd'. rewrite Epd in H.
    apply in_app_or in H. destruct H as [H|H]; [exfalso; in_cases; subst; first [eapply H1; reflexivity | eapply H2; reflexivity]|].
    apply in_app_or in H. destruct H as [H|H].
    { apply in_flat_map in H. destruct H as (v & Hv & H). exists v. split; [|exact H].
      apply (proj1 (In_dedup _ _)) in Hv. rewrite <- values_of_spec. exact Hv. }
    exfalso.
    apply in_app_or in H. destruct H as [H|H]; [in_cases; subst; first [eapply H1; reflexivity | eapply H2; reflexivity]|].
    apply in_app_or in H. destruct H as [H|H]; [in_cases; subst; first [eapply H1; reflexivity | eapply H2; reflexivity]|].
    unfold report_pure in H. in_cases; subst; first [eapply H3; reflexivity | eapply H4; reflexivity].
  - intros (v & Hv & H). exists pd. split; [exact Hp|]. rewrite Epd. apply in_or_app. right. apply in_or_app. left.
    apply in_flat_map. exists v. split; [apply In_dedup; rewrite values_of_spec; exact Hv | exact H].
Qed.

(* invalid-report-msgid-bugs-to *)
Lemma invalid_report_iff : forall v,
  In (DInvalidReport v) ds <->
  In v (report_values md) /\
  report_invalid (o_lower O) nb ob (o_parseaddr O v) (o_urlscheme O v = UScheme).
Proof.
  intro v. rewrite report_piece by solve_neq. unfold report_invalid. split.
  - intros (v' & Hv' & H). unfold report_pure in H.
    pose proof (addr_verdict_spec O nb ob is_boiler1 (o_parseaddr O v')) as HV.
    pose proof (verdict_invalid_iff O nb ob (o_parseaddr O v')) as HI.
    destruct (addr_verdict O nb ob is_boiler1 (o_parseaddr O v')) eqn:E.
    + destruct (o_urlscheme O v') eqn:Eu; in_cases; try discriminate; injection H as ->; (split; [exact Hv'|]); left; split; auto; rewrite Eu; discriminate.
    + in_cases; try discriminate. injection H as ->. split; [exact Hv'|]. right. destruct HV as (d & Hd & _). split; [eapply domain_part_at; exact Hd | apply HI; exact I].
    + in_cases; discriminate.
    + in_cases; try discriminate. injection H as ->. split; [exact Hv'|]. right. destruct HV as (d & Hd & _). split; [eapply domain_part_at; exact Hd | apply HI; exact I].
    + in_cases; discriminate.
  - intros [Hv Hcase]. exists v. split; [exact Hv|]. unfold report_pure.
    pose proof (addr_verdict_spec O nb ob is_boiler1 (o_parseaddr O v)) as HV.
    pose proof (verdict_invalid_iff O nb ob (o_parseaddr O v)) as HI.
    destruct Hcase as [[Hn Hu]|[Hat Hb]].
    + apply (verdict_noat O nb ob is_boiler1) in Hn. rewrite Hn. destruct (o_urlscheme O v); [exfalso; apply Hu; reflexivity | left; reflexivity | left; reflexivity].
    + apply HI in Hb. destruct (addr_verdict O nb ob is_boiler1 (o_parseaddr O v)); try destruct Hb; try (left; reflexivity). contradiction.
Qed.

(* boilerplate-in-report-msgid-bugs-to *)
Lemma boilerplate_report_iff : forall v,
  In (DBoilerplateReport v) ds <->
  In v (report_values md) /\ address_is_placeholder (o_lower O) nb ob [lit "EMAIL@ADDRESS"] (o_parseaddr O v).
Proof.
  intro v. rewrite report_piece by solve_neq. unfold address_is_placeholder. split.
  - intros (v' & Hv' & H). unfold report_pure in H.
    pose proof (addr_verdict_spec O nb ob is_boiler1 (o_parseaddr O v')) as HV.
    destruct (addr_verdict O nb ob is_boiler1 (o_parseaddr O v')); [destruct (o_urlscheme O v')| | | |]; in_cases; try discriminate. injection H as ->.
    destruct HV as (d & Hd & Hnr & Hb). split; [exact Hv'|]. split; [left; symmetry; apply is_boiler1_iff; exact Hb | eauto].
  - intros (Hv & [Hp|[]] & d & Hd & Hnr). exists v. split; [exact Hv|]. unfold report_pure.
    pose proof (addr_verdict_spec O nb ob is_boiler1 (o_parseaddr O v)) as HV.
    assert (is_boiler1 (o_parseaddr O v) = true) as Hb by (apply is_boiler1_iff; symmetry; exact Hp).
    destruct (addr_verdict O nb ob is_boiler1 (o_parseaddr O v)).
    + exfalso. apply HV. eapply domain_part_at; exact Hd.
    + exfalso. destruct HV as (d' & Hd' & Hr). rewrite (domain_part_fun _ _ _ Hd' Hd) in Hr. contradiction.
    + left. reflexivity.
    + exfalso. destruct HV as (d' & _ & _ & Hb' & _). congruence.
    + exfalso. destruct HV as (d' & _ & _ & Hb' & _). congruence.
Qed.

(* Project-Id-Version *)
Lemma project_boilerplate_iff : forall v,
  str_eqb v (LIT "PACKAGE VERSION") || str_eqb v (LIT "PROJECT VERSION") = true <-> project_boilerplate v.
Proof. intro v. unfold project_boilerplate. rewrite orb_true_iff, !str_eqb_eq. reflexivity. Qed.

Lemma has_name_char_iff : forall v, has_name_char O v = true <-> has_letter (o_word O) (o_digit O) v.
Proof.
  intro v. unfold has_name_char, has_letter. rewrite existsb_exists. split; intros (c & Hc & H); exists c; (split; [exact Hc|]).
  - apply andb_prop in H. destruct H as [H H3]. apply andb_prop in H. destruct H as [H1 H2].
    apply negb_true_iff in H2, H3. apply N.eqb_neq in H3. auto.
  - destruct H as (H1 & H2 & H3). apply N.eqb_neq in H3. rewrite H1, H2, H3. reflexivity.
Qed.

Lemma has_ascii_digit_iff : forall v, has_ascii_digit v = true <-> has_digit v.
Proof.
  intro v. unfold has_ascii_digit, has_digit, in_rng. rewrite existsb_exists. split; intros (c & Hc & H); exists c; (split; [exact Hc|]).
  - apply andb_prop in H. destruct H as [H1 H2]. apply N.leb_le in H1, H2. lia.
  - apply andb_true_iff. split; apply N.leb_le; lia.
Qed.

Lemma boilerplate_project_iff : forall v,
  In (DBoilerplateProject v) ds <-> In v (values (field_name FProject) md) /\ project_boilerplate v.
Proof.
  intro v. rewrite project_piece by solve_neq. split.
  - intros (v' & Hv' & H). unfold project_diags in H.
    destruct (str_eqb v' (LIT "PACKAGE VERSION") || str_eqb v' (LIT "PROJECT VERSION")) eqn:E; in_cases; try discriminate.
    injection H as ->. split; [exact Hv' | apply project_boilerplate_iff; exact E].
  - intros [Hv Hb]. exists v. split; [exact Hv|]. unfold project_diags. apply project_boilerplate_iff in Hb. rewrite Hb. left. reflexivity.
Qed.

Lemma no_package_name_iff : forall v,
  In (DNoPackageName v) ds <->
  In v (values (field_name FProject) md) /\ ~ project_boilerplate v /\ ~ has_letter (o_word O) (o_digit O) v.
Proof.
  intro v. rewrite project_piece by solve_neq. split.
  - intros (v' & Hv' & H). unfold project_diags in H.
    destruct (str_eqb v' (LIT "PACKAGE VERSION") || str_eqb v' (LIT "PROJECT VERSION")) eqn:E; [in_cases; discriminate|].
    apply in_app_or in H. destruct H as [H|H]; [|in_cases; discriminate].
    destruct (has_name_char O v') eqn:En; [destruct H|]. destruct H as [H|[]]. injection H as ->. split; [exact Hv'|]. split.
    + intro Hb. apply project_boilerplate_iff in Hb. congruence.
    + intro Hl. apply has_name_char_iff in Hl. congruence.
  - intros (Hv & Hnb & Hnl). exists v. split; [exact Hv|]. unfold project_diags.
    destruct (str_eqb v (LIT "PACKAGE VERSION") || str_eqb v (LIT "PROJECT VERSION")) eqn:E; [apply project_boilerplate_iff in E; contradiction|].
    destruct (has_name_char O v) eqn:En; [apply has_name_char_iff in En; contradiction|]. left. reflexivity.
Qed.

Lemma no_version_iff : forall v,
  In (DNoVersion v) ds <->
  In v (values (field_name FProject) md) /\ ~ project_boilerplate v /\ ~ has_digit v.
Proof.
  intro v. rewrite project_piece by solve_neq. split.
  - intros (v' & Hv' & H). unfold project_diags in H.
    destruct (str_eqb v' (LIT "PACKAGE VERSION") || str_eqb v' (LIT "PROJECT VERSION")) eqn:E; [in_cases; discriminate|].
    apply in_app_or in H. destruct H as [H|H]; [in_cases; discriminate|].
    destruct (has_ascii_digit v') eqn:En; [destruct H|]. destruct H as [H|[]]. injection H as ->. split; [exact Hv'|]. split.
    + intro Hb. apply project_boilerplate_iff in Hb. congruence.
    + intro Hl. apply has_ascii_digit_iff in Hl. congruence.
  - intros (Hv & Hnb & Hnl). exists v. split; [exact Hv|]. unfold project_diags.
    destruct (str_eqb v (LIT "PACKAGE VERSION") || str_eqb v (LIT "PROJECT VERSION")) eqn:E; [apply project_boilerplate_iff in E; contradiction|].
    destruct (has_ascii_digit v) eqn:En; [apply has_ascii_digit_iff in En; contradiction|]. apply in_or_app. right. left. reflexivity.
Qed.

End MoreRules.

(* ------------------------------------------------------------------ *)
(* find_unusual_characters *)

Lemma unusual_scan_in : forall O s prev c,
  In c (unusual_scan O prev s) <-> exists a b, s = a ++ c :: b /\ unusual_at O (last_or prev a) c (hd_opt b) = true.
Proof.
  intros O. induction s as [|x r IH]; intros prev c; cbn [unusual_scan].
  - split; [intros [] | intros ([|? ?] & b & H & _); discriminate].
  - rewrite in_app_iff, IH. split.
    + intros [H|(a & b & -> & H)].
      * destruct (unusual_at O prev x (hd_opt r)) eqn:E; [|destruct H]. destruct H as [<-|[]]. exists [], r. auto.
      * exists (x :: a), b. rewrite last_or_cons. auto.
    + intros (a & b & H & Hu). destruct a as [|y a]; cbn [app] in H; injection H as -> ->.
      * left. cbn [last_or rev] in Hu. unfold last_or in Hu. cbn in Hu. rewrite Hu. left. reflexivity.
      * right. exists a, b. rewrite last_or_cons in Hu. auto.
Qed.

Lemma opt_is_false : forall o c, opt_is o c = false <-> o <> Some c.
Proof.
  intros [x|] c; cbn [opt_is]; [|split; [discriminate | reflexivity]].
  rewrite N.eqb_neq. split; intro H; congruence.
Qed.

Lemma unusual_at_iff : forall O prev c next, unusual_at O prev c next = true <-> suspicious (o_word O) prev c next.
Proof.
  intros O prev c next. unfold unusual_at, suspicious, in_rng.
  rewrite !orb_true_iff, !andb_true_iff, !N.leb_le, !N.eqb_eq, negb_true_iff, opt_is_false.
  assert (isw O prev = true <-> opt_word (o_word O) prev) as -> by (destruct prev; cbn; [reflexivity | split; [discriminate | intros []]]).
  assert (0 <= c) by lia. tauto.
Qed.

Lemma unusual_chars_in : forall O s c, In c (unusual_chars O s) <-> unusual_in (o_word O) s c.
Proof.
  intros O s c. unfold unusual_chars, unusual_in. rewrite in_concat. split.
  - intros (l & Hl & Hc). apply (proj1 (In_sort_u _ _)) in Hl. apply in_map_iff in Hl. destruct Hl as (x & <- & Hx). destruct Hc as [<-|[]].
    apply unusual_scan_in in Hx. destruct Hx as (a & b & -> & H). exists a, b. split; [reflexivity|]. apply unusual_at_iff. exact H.
  - intros (a & b & -> & H). exists [c]. split; [|left; reflexivity]. apply In_sort_u. apply in_map_iff. exists c. split; [reflexivity|].
    apply unusual_scan_in. exists a, b. split; [reflexivity|]. apply unusual_at_iff. exact H.
Qed.

(* the characters are listed in increasing order, each once *)
Lemma unusual_chars_sorted : forall O s, StronglySorted N.lt (unusual_chars O s).
Proof.
  intros O s. unfold unusual_chars.
  assert (Hs := sort_u_sorted (map (fun c => [c]) (unusual_scan O None s))).
  assert (Hall : forall l, In l (sort_u (map (fun c => [c]) (unusual_scan O None s))) -> exists c, l = [c]).
  { intros l Hl. apply (proj1 (In_sort_u _ _)) in Hl. apply in_map_iff in Hl. destruct Hl as (c & <- & _). eauto. }
  induction (sort_u (map (fun c => [c]) (unusual_scan O None s))) as [|l r IH]; cbn [concat]; [constructor|].
  inversion Hs as [|? ? Hr Hf]; subst. destruct (Hall l (or_introl eq_refl)) as (c & ->). cbn [app].
  constructor; [apply IH; [exact Hr | intros; apply Hall; right; assumption]|].
  rewrite Forall_forall in *. intros x Hx. apply in_concat in Hx. destruct Hx as (l' & Hl' & Hx).
  destruct (Hall l' (or_intror Hl')) as (c' & ->). destruct Hx as [<-|[]]. specialize (Hf _ Hl').
  inversion Hf as [| ? ? ? ? Hlt | ? ? ? Hlt]; subst; [exact Hlt | inversion Hlt].
Qed.

(* ------------------------------------------------------------------ *)
(* tags about the header entry itself *)

Section EntryRules.
Variable O : oracles.
Variable known dedicated nb ob : list str.
Variable inp : hinput.
Variable ds : list diag.
Hypothesis Hok : hdr_check O known dedicated nb ob inp = Ok ds.
Local Notation es := (h_entries inp).
Local Notation t := (h_template inp).

Lemma entry_piece : forall d, cls d = 1%nat ->
  d <> DDuplicateHeaderEntry -> (forall a, d <> DConflictMarker a) -> (forall a, d <> DStrayLine a) ->
  (forall a b, d <> DUnknownField a b) -> (forall a, d <> DDuplicateField a) ->
  (In d ds <-> exists f e more, header_entries true es = (f, e) :: more /\ In d (header_entry_diags O t f e)).
Proof.
  intros d Hc H1 H2 H3 H4 H5. rewrite (hdr_check_in _ _ _ _ _ _ _ _ Hok). rewrite Hc. rewrite headers_snd.
  destruct (header_entries true es) as [|[f e] more] eqn:E.
  - split; [intros [] | intros (? & ? & ? & H & _); discriminate].
  - rewrite !in_app_iff. split.
    + intros [H|[H|[H|H]]].
      * exists f, e, more. auto.
      * exfalso. destruct more; in_cases; subst. apply H1. reflexivity.
      * exfalso. apply stray_diags_only in H. destruct d; try destruct H; first [eapply H2; reflexivity | eapply H3; reflexivity].
      * exfalso. unfold key_diags in H. in_cases; subst; first [eapply H4; reflexivity | eapply H5; reflexivity].
    + intros (f' & e' & more' & H & Hd). injection H as <- <- <-. left. exact Hd.
Qed.

Lemma flag_piece : forall d,
  (forall refs, d <> DEmptyMsgidRefs refs) -> d <> DEmptyMsgidPlural -> d <> DDistantHeader -> (forall cs, d <> DUnusualChars cs) ->
  forall f e, In d (header_entry_diags O t f e) <-> In d (flag_diags O t (e_flags e)).
Proof.
  intros d H1 H2 H3 H4 f e. unfold header_entry_diags. rewrite !in_app_iff. split.
  - intros [H|[H|[H|[H|H]]]]; [exfalso; in_cases; subst; eapply H1; reflexivity | exfalso; in_cases; subst; apply H2; reflexivity
                               | exact H | exfalso; in_cases; subst; apply H3; reflexivity | exfalso; in_cases; subst; eapply H4; reflexivity].
  - intro H. right. right. left. exact H.
Qed.

(* unexpected-flag-for-header-entry: every flag other than "fuzzy", once *)
Lemma unexpected_flag_iff : forall fl hint,
  In (DUnexpectedFlag fl hint) ds <->
  exists f e more, header_entries true es = (f, e) :: more /\ In fl (e_flags e) /\ fl <> s_fuzzy /\
                   hint = o_close_fuzzy O (o_lower O fl).
Proof.
  intros fl hint. rewrite entry_piece by solve_neq. split.
  - intros (f & e & more & E & H). exists f, e, more. split; [exact E|]. apply flag_piece in H; try solve_neq.
    unfold flag_diags in H. apply in_flat_map in H. destruct H as (x & Hx & H). apply (proj1 (In_sort_u _ _)) in Hx.
    apply in_app_or in H. destruct H as [H|H]; [|in_cases; discriminate].
    destruct (str_eqb x s_fuzzy) eqn:Ef; [in_cases; discriminate|]. destruct H as [H|[]]. injection H as -> <-.
    apply str_eqb_neq in Ef. auto.
  - intros (f & e & more & E & Hin & Hne & ->). exists f, e, more. split; [exact E|]. apply flag_piece; try solve_neq.
    unfold flag_diags. apply in_flat_map. exists fl. split; [apply In_sort_u; exact Hin|]. apply in_or_app. left.
    apply str_eqb_neq in Hne. rewrite Hne. left. reflexivity.
Qed.

(* duplicate-flag-for-header-entry: a flag that is written more than once *)
Lemma duplicate_flag_iff : forall fl,
  In (DDuplicateFlag fl) ds <->
  exists f e more, header_entries true es = (f, e) :: more /\ (1 < count_occ (list_eq_dec N.eq_dec) (e_flags e) fl)%nat.
Proof.
  intros fl. rewrite entry_piece by solve_neq. split.
  - intros (f & e & more & E & H). exists f, e, more. split; [exact E|]. apply flag_piece in H; try solve_neq.
    unfold flag_diags in H. apply in_flat_map in H. destruct H as (x & Hx & H).
    apply in_app_or in H. destruct H as [H|H]; [in_cases; discriminate|].
    destruct (Nat.ltb 1 (count_str x (e_flags e))) eqn:Ec; [|destruct H]. destruct H as [H|[]]. injection H as ->.
    apply Nat.ltb_lt in Ec. rewrite count_str_occ in Ec. exact Ec.
  - intros (f & e & more & E & Hc). exists f, e, more. split; [exact E|]. apply flag_piece; try solve_neq.
    unfold flag_diags. apply in_flat_map. exists fl. split.
    + apply In_sort_u. apply (count_occ_In (list_eq_dec N.eq_dec)). lia.
    + apply in_or_app. right. rewrite count_str_occ. apply Nat.ltb_lt in Hc. rewrite Hc. left. reflexivity.
Qed.

(* unusual-character-in-header-entry: reported iff the header text has such a character; lists them all, in order *)
Lemma unusual_chars_iff : forall cs,
  In (DUnusualChars cs) ds <->
  exists f e more, header_entries true es = (f, e) :: more /\ cs <> [] /\ StronglySorted N.lt cs /\
                   forall c, In c cs <-> unusual_in (o_word O) (entry_msgstr e) c.
Proof.
  intros cs. rewrite entry_piece by solve_neq. split.
  - intros (f & e & more & E & H). exists f, e, more. split; [exact E|].
    unfold header_entry_diags in H. do 4 (apply in_app_or in H; destruct H as [H|H]; [exfalso; unfold flag_diags in H; in_cases; discriminate|]).
    destruct (unusual_chars O (entry_msgstr e)) as [|c0 r] eqn:Eu; [destruct H|]. destruct H as [H|[]]. injection H as <-.
    split; [discriminate|]. rewrite <- Eu. split; [apply unusual_chars_sorted | intro c; apply unusual_chars_in].
  - intros (f & e & more & E & Hne & Hs & Hin). exists f, e, more. split; [exact E|].
    unfold header_entry_diags. do 4 (apply in_or_app; right).
    assert (cs = unusual_chars O (entry_msgstr e)) as <-.
    { assert (Hs' := unusual_chars_sorted O (entry_msgstr e)).
      assert (Hin' : forall c, In c cs <-> In c (unusual_chars O (entry_msgstr e))) by (intro c; rewrite Hin, unusual_chars_in; reflexivity).
      clear -Hs Hs' Hin'. revert Hs Hs' Hin'. generalize (unusual_chars O (entry_msgstr e)) as l2. revert cs.
      (* two strictly increasing lists with the same elements are equal *)
      induction cs as [|x l1 IH]; intros l2 H1 H2 Hi.
      - destruct l2 as [|y l2]; [reflexivity|]. exfalso. apply (Hi y). left. reflexivity.
      - destruct l2 as [|y l2]; [exfalso; apply (Hi x); left; reflexivity|].
        inversion H1 as [|? ? H1r H1f]; inversion H2 as [|? ? H2r H2f]; subst. rewrite Forall_forall in H1f, H2f.
        assert (x = y).
        { destruct (proj1 (Hi x) (or_introl eq_refl)) as [Hy|Hy]; [congruence|].
          destruct (proj2 (Hi y) (or_introl eq_refl)) as [Hx|Hx]; [congruence|].
          specialize (H2f _ Hy). specialize (H1f _ Hx). lia. }
        subst y. f_equal. apply IH; [exact H1r | exact H2r|]. intro c. split; intro Hc.
        + destruct (proj1 (Hi c) (or_intror Hc)) as [<-|H]; [specialize (H1f _ Hc); lia | exact H].
        + destruct (proj2 (Hi c) (or_intror Hc)) as [<-|H]; [specialize (H2f _ Hc); lia | exact H]. }
    destruct cs; [contradiction | left; reflexivity].
Qed.

End EntryRules.

(* ------------------------------------------------------------------ *)
(* boilerplate-in-initial-comments: one tag per line of the initial comments that matches a boilerplate pattern *)

Lemma boilerplate_comment_iff : forall O known dedicated nb ob inp ds, hdr_check O known dedicated nb ob inp = Ok ds ->
  o_space O 32 = true ->
  forall line, In (DBoilerplateComment line) ds <->
    In line (splitlines (h_comment inp)) /\ comment_boilerplate (o_word O) (o_space O) (h_template inp) line.
Proof.
  intros O known dedicated nb ob inp ds Hok H32 line. rewrite (hdr_check_in _ _ _ _ _ _ _ _ Hok). cbn [cls].
  unfold check_comments. rewrite in_flat_map. rewrite <- (comment_line_boilerplate_iff O _ _ H32). split.
  - intros (l & Hl & H). destruct (comment_line_boilerplate O (h_template inp) l) eqn:E; [|destruct H].
    destruct H as [H|[]]. injection H as <-. auto.
  - intros [Hl H]. exists line. split; [exact Hl|]. rewrite H. left. reflexivity.
Qed.

(* ------------------------------------------------------------------ *)
(* parse_header (render fields) = fields *)

Lemma split_on_app : forall sep a r, ~ In sep a -> split_on sep (a ++ sep :: r) = a :: split_on sep r.
Proof.
  intros sep. induction a as [|c a IH]; intros r H; cbn [app split_on].
  - rewrite N.eqb_refl. reflexivity.
  - assert (N.eqb c sep = false) as -> by (apply N.eqb_neq; intro; subst; apply H; left; reflexivity).
    rewrite IH by (intro Hx; apply H; right; exact Hx). reflexivity.
Qed.

Lemma hdropwhile_id : forall p s, match s with c :: _ => p c = false | [] => True end -> hdropwhile p s = s.
Proof. intros p [|c s] H; cbn [hdropwhile]; [reflexivity | rewrite H; reflexivity]. Qed.

Lemma is_blank_c_iff : forall c, is_blank_c c = true <-> blank c.
Proof. intro c. unfold is_blank_c, blank. rewrite orb_true_iff, !N.eqb_eq. reflexivity. Qed.

Lemma strip_blank_trimmed : forall v, trimmed v -> strip_blank (32 :: v) = v.
Proof.
  intros v [H1 H2]. unfold strip_blank. cbn [hdropwhile is_blank_c N.eqb Pos.eqb orb].
  assert (hdropwhile is_blank_c v = v) as ->.
  { apply hdropwhile_id. destruct v as [|c r]; [exact I|]. destruct (is_blank_c c) eqn:E; [|reflexivity].
    apply is_blank_c_iff in E. destruct (H1 c r eq_refl E). }
  assert (hdropwhile is_blank_c (rev v) = rev v) as ->.
  { apply hdropwhile_id. destruct (rev v) as [|c r] eqn:Er; [exact I|]. destruct (is_blank_c c) eqn:E; [|reflexivity].
    apply is_blank_c_iff in E. exfalso. apply (H2 c (rev r)); [|exact E]. rewrite <- (rev_involutive v), Er. reflexivity. }
  apply rev_involutive.
Qed.

Definition field_ok (f : field) : Prop :=
  fst f <> [] /\ Forall ftext (fst f) /\ ~ In 10 (snd f) /\ trimmed (snd f).

Lemma ftext_no_lf : forall k, Forall ftext k -> ~ In 10 k.
Proof. intros k H Hin. rewrite Forall_forall in H. destruct (H _ Hin) as (H1 & _). lia. Qed.

Lemma parse_line_render : forall k v, k <> [] -> Forall ftext k -> trimmed v ->
  parse_line (k ++ [58; 32] ++ v) = HField k v.
Proof.
  intros k v Hne Hk Hv. unfold parse_line.
  assert (split_first 58 (k ++ [58; 32] ++ v) = Some (k, 32 :: v)) as ->.
  { apply split_first_some. split; [reflexivity | apply ftext_no_colon; exact Hk]. }
  assert (valid_field_name k = true) as -> by (apply valid_field_name_iff; auto).
  rewrite (strip_blank_trimmed v Hv). reflexivity.
Qed.

Lemma split_on_render : forall h, Forall field_ok h ->
  split_on 10 (render h) = map (fun f => fst f ++ [58; 32] ++ snd f) h ++ [[]].
Proof.
  induction h as [|[k v] h IH]; intro H; [reflexivity|]. inversion H as [|? ? Hf Hr]; subst.
  destruct Hf as (Hne & Hk & Hlf & Htr). cbn [fst snd] in *.
  unfold render. cbn [map concat]. unfold render_field at 1. cbn [fst snd].
  replace ((k ++ [58; 32] ++ v ++ [10]) ++ concat (map render_field h)) with ((k ++ [58; 32] ++ v) ++ 10 :: render h)
    by (unfold render; rewrite <- !app_assoc; reflexivity).
  rewrite split_on_app.
  - rewrite (IH Hr). reflexivity.
  - intro Hin. apply in_app_or in Hin. destruct Hin as [Hin|Hin]; [exact (ftext_no_lf k Hk Hin)|].
    cbn [app] in Hin. destruct Hin as [Hin|[Hin|Hin]]; [discriminate | discriminate | contradiction].
Qed.

Lemma header_lines_render : forall h, Forall field_ok h ->
  header_lines (render h) = map (fun f => fst f ++ [58; 32] ++ snd f) h.
Proof.
  intros h H. unfold header_lines, drop_last_empty. rewrite (split_on_render h H), rev_app_distr. cbn [rev app].
  apply rev_involutive.
Qed.

Lemma parse_header_render : forall h, Forall field_ok h ->
  parse_header (render h) = map (fun f => HField (fst f) (snd f)) h.
Proof.
  intros h H. unfold parse_header. rewrite (header_lines_render h H), map_map.
  apply map_ext_in. intros [k v] Hin. rewrite Forall_forall in H. destruct (H _ Hin) as (Hne & Hk & _ & Htr). cbn [fst snd] in *.
  apply parse_line_render; assumption.
Qed.

Lemma fields_of_render : forall h, Forall field_ok h -> fields_of (parse_header (render h)) = h /\ strays_of (parse_header (render h)) = [].
Proof.
  intros h H. rewrite (parse_header_render h H). clear H. unfold fields_of, strays_of.
  induction h as [|[k v] h [IH1 IH2]]; [split; reflexivity|]. cbn [map flat_map fst snd app]. rewrite IH1, IH2. split; reflexivity.
Qed.

(* ------------------------------------------------------------------ *)
(* which entry is "the header entry": the first entry with empty msgid, no msgctxt, not obsolete *)

Definition live (e : entry) : bool := e_header e && negb (e_obsolete e).

Lemma header_entries_first : forall es first f e more,
  header_entries first es = (f, e) :: more <->
  exists a b, es = a ++ e :: b /\ live e = true /\ (forall x, In x a -> live x = false) /\
              f = (match a with [] => first | _ => false end) /\ more = header_entries false b.
Proof.
  induction es as [|x es IH]; intros first f e more; cbn [header_entries].
  - split; [discriminate | intros ([|? ?] & b & H & _); discriminate].
  - fold (live x). destruct (live x) eqn:Ex; cbn [app].
    + split.
      * intro H. injection H as <- <- <-. exists [], es. repeat split; auto. intros y [].
      * intros (a & b & H & Hl & Ha & Hf & Hm). destruct a as [|y a]; cbn [app] in H; injection H as -> ->.
        -- subst. reflexivity.
        -- rewrite (Ha y (or_introl eq_refl)) in Ex. discriminate.
    + rewrite IH. split.
      * intros (a & b & -> & Hl & Ha & Hf & Hm). exists (x :: a), b.
        split; [reflexivity|]. split; [exact Hl|]. split; [intros y [<-|Hy]; auto|]. split; [destruct a; exact Hf | exact Hm].
      * intros (a & b & H & Hl & Ha & Hf & Hm). destruct a as [|y a]; cbn [app] in H; injection H as -> ->.
        -- congruence.
        -- exists a, b. split; [reflexivity|]. split; [exact Hl|]. split; [intros z Hz; apply Ha; right; exact Hz|].
           split; [destruct a; exact Hf | exact Hm].
Qed.

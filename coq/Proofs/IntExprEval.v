(* The evaluator model computes exactly the in-range ideal semantics, which agrees with C. *)
From Coq Require Import List ZArith Bool Lia ZifyBool.
From I18n Require Import Lib.Outcome Model.IntExpr Spec.CPlural Proofs.Codomain.
Import ListNotations.
Local Open Scope Z_scope.

Lemma c_not_b2z x : c_not x = b2z (x =? 0).
Proof. unfold c_not, b2z. destruct (Z.eq_dec x 0), (x =? 0) eqn:E; lia. Qed.
Lemma c_cmp_eval o x y : c_cmp o x y = eval_cmp o x y.
Proof.
  destruct o; unfold c_cmp, eval_cmp, b2z;
  match goal with |- (if ?d then _ else _) = _ => destruct d end; bdestr; lia.
Qed.

Lemma InRange_nonneg M n e v : InRange M n e v -> 0 <= v.
Proof.
  induction 1; try lia.
  - unfold c_not; destruct (Z.eq_dec x 0); lia.
  - apply Z.quot_pos; lia.
  - destruct (Z.eq_dec x 0); [subst; rewrite Z.rem_0_l; lia|]. apply Z.rem_nonneg; lia.
  - destruct o; unfold c_cmp; match goal with |- _ <= (if ?d then _ else _) => destruct d end; lia.
  - unfold c_truth; destruct (Z.eq_dec y 0); lia.
  - unfold c_truth; destruct (Z.eq_dec y 0); lia.
Qed.

Lemma pyeval_complete M n e v : InRange M n e v -> pyeval M e n = Ok v.
Proof.
  induction 1; cbn [pyeval]; rewrite ?IHInRange, ?IHInRange1, ?IHInRange2; cbn [obind].
  - destruct (check_overflow_cases M n) as [[E _]|[_ ?]]; [auto|lia].
  - destruct (check_overflow_cases M z) as [[E _]|[_ ?]]; [auto|lia].
  - rewrite c_not_b2z. reflexivity.
  - cbn. destruct (check_overflow_cases M (x + y)) as [[E _]|[_ ?]]; [auto|lia].
  - cbn. destruct (check_overflow_cases M (x - y)) as [[E _]|[_ ?]]; [auto|lia].
  - cbn. destruct (check_overflow_cases M (x * y)) as [[E _]|[_ ?]]; [auto|lia].
  - cbn. destruct (y =? 0) eqn:E; [lia|]. f_equal.
    apply InRange_nonneg in H, H0. rewrite Z.quot_div_nonneg; lia.
  - cbn. destruct (y =? 0) eqn:E; [lia|]. f_equal.
    apply InRange_nonneg in H, H0. rewrite Z.rem_mod_nonneg; lia.
  - rewrite c_cmp_eval. reflexivity.
  - reflexivity.
  - destruct (x =? 0) eqn:E; [lia|]. cbn. unfold c_truth. destruct (Z.eq_dec y 0), (y =? 0) eqn:E2; auto; lia.
  - destruct (x =? 0) eqn:E; [lia|]. reflexivity.
  - cbn. unfold c_truth. destruct (Z.eq_dec y 0), (y =? 0) eqn:E2; auto; lia.
  - destruct (t =? 0) eqn:E; [lia|]. cbn. auto.
  - cbn. auto.
Qed.

Lemma pyeval_sound M e : forall n v, pyeval M e n = Ok v -> InRange M n e v.
Proof.
  induction e; intros n v; cbn [pyeval].
  - intros H. apply check_overflow_ok in H. destruct H; subst. constructor; lia.
  - intros H. apply check_overflow_ok in H. destruct H; subst. constructor; lia.
  - destruct (pyeval M e n) as [x| |] eqn:E; cbn; try discriminate. intros H; inversion H; subst.
    rewrite <- c_not_b2z. constructor. auto.
  - destruct (pyeval M e1 n) as [x| |] eqn:E1; cbn; try discriminate.
    destruct (pyeval M e2 n) as [y| |] eqn:E2; cbn; try discriminate.
    specialize (IHe1 n x E1). specialize (IHe2 n y E2).
    pose proof (InRange_nonneg _ _ _ _ IHe1) as Hx0. pose proof (InRange_nonneg _ _ _ _ IHe2) as Hy0.
    destruct o; cbn.
    + intros H. apply check_overflow_ok in H. destruct H; subst. constructor; auto.
    + intros H. apply check_overflow_ok in H. destruct H; subst. constructor; auto.
    + intros H. apply check_overflow_ok in H. destruct H; subst. constructor; auto.
    + destruct (y =? 0) eqn:E; [discriminate|]. intros H; inversion H; subst.
      rewrite <- Z.quot_div_nonneg by lia. constructor; auto. lia.
    + destruct (y =? 0) eqn:E; [discriminate|]. intros H; inversion H; subst.
      rewrite <- Z.rem_mod_nonneg by lia. constructor; auto. lia.
  - destruct (pyeval M e1 n) as [x| |] eqn:E1; cbn; try discriminate.
    destruct (pyeval M e2 n) as [y| |] eqn:E2; cbn; try discriminate.
    intros H; inversion H; subst. rewrite <- c_cmp_eval. constructor; auto.
  - destruct (pyeval M e1 n) as [x| |] eqn:E1; cbn; try discriminate.
    destruct (x =? 0) eqn:Ex.
    + intros H; inversion H; subst. assert (x = 0) by lia. subst. apply IR_and_l. auto.
    + destruct (pyeval M e2 n) as [y| |] eqn:E2; cbn; try discriminate.
      intros H. replace v with (c_truth y).
      * apply (IR_and_r M n e1 e2 x y); auto. lia.
      * unfold c_truth. destruct (Z.eq_dec y 0), (y =? 0) eqn:Ey; inversion H; auto; lia.
  - destruct (pyeval M e1 n) as [x| |] eqn:E1; cbn; try discriminate.
    destruct (x =? 0) eqn:Ex; cbn.
    + destruct (pyeval M e2 n) as [y| |] eqn:E2; cbn; try discriminate.
      intros H. assert (x = 0) by lia. subst. replace v with (c_truth y).
      * apply IR_or_r; auto.
      * unfold c_truth. destruct (Z.eq_dec y 0), (y =? 0) eqn:Ey; cbn in H; inversion H; auto; lia.
    + intros H; inversion H; subst. apply (IR_or_l M n e1 e2 x); auto. lia.
  - destruct (pyeval M e1 n) as [t| |] eqn:E1; cbn; try discriminate.
    destruct (t =? 0) eqn:Et; cbn; intros H.
    + assert (t = 0) by lia. subst. apply IR_if_f; auto.
    + apply (IR_if_t M n e1 e2 e3 t); auto. lia.
Qed.

Lemma pyeval_iff M e n v : pyeval M e n = Ok v <-> InRange M n e v.
Proof. split; [apply pyeval_sound | apply pyeval_complete]. Qed.

Lemma pyeval_fails_iff M e n : (exists k, pyeval M e n = Err k) <-> ~ exists v, InRange M n e v.
Proof.
  split.
  - intros [k Hk] [v Hv]. apply pyeval_complete in Hv. congruence.
  - intros H. destruct (pyeval M e n) as [v|k|c] eqn:E.
    + exfalso. apply H. exists v. apply pyeval_sound. auto.
    + eauto.
    + exfalso. eapply pyeval_nocrash; eauto.
Qed.

(* the kind of failure: a zero divisor was executed, or a value left [0, M) *)
Lemma InRange_lt M n e v : 2 <= M -> InRange M n e v -> v < M.
Proof.
  intros HM. induction 1; try lia.
  - unfold c_not; destruct (Z.eq_dec x 0); lia.
  - apply InRange_nonneg in H, H0. assert (Z.quot x y <= x); [|lia].
    rewrite Z.quot_div_nonneg by lia. apply Z.div_le_upper_bound; nia.
  - apply InRange_nonneg in H, H0. rewrite Z.rem_mod_nonneg by lia.
    assert (x mod y <= x) by (apply Z.mod_le; lia). lia.
  - destruct o; unfold c_cmp; match goal with |- (if ?d then _ else _) < _ => destruct d end; lia.
  - unfold c_truth; destruct (Z.eq_dec y 0); lia.
  - unfold c_truth; destruct (Z.eq_dec y 0); lia.
Qed.

(* agreement with C arithmetic on W-bit unsigned long, for every W with M <= 2^W *)
Lemma InRange_ceval M W n e v : 2 <= M -> M <= 2 ^ W -> InRange M n e v -> ceval W e n = Some v.
Proof.
  intros HM HW. induction 1; cbn [ceval]; rewrite ?IHInRange, ?IHInRange1, ?IHInRange2;
    repeat match goal with |- context[Z.eq_dec ?a ?b] => destruct (Z.eq_dec a b) end;
    try contradiction; try lia; rewrite ?Z.mod_small by lia; auto.
Qed.

Lemma pyeval_nonneg M e n v : pyeval M e n = Ok v -> 0 <= v.
Proof. intros H. apply pyeval_sound in H. eapply InRange_nonneg; eauto. Qed.

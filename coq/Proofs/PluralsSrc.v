(* The source tie for C07 (notes/SRC3.md): every function of Generated/PluralsSrc.v (the statement-by-statement translation
   of gettext.parse_plural_expression, gettext.parse_plural_forms and Checker.check_plurals, regenerated from /repo on
   every run) equals the hand-written model (Model/PluralForms.v, Model/PluralFormsHead.v) when the external operations
   are the model's (the search function of the regular expression, int(), the plural-expression parser, the three
   evaluators), for every header value and every check context.  A behavioural edit of the Python code changes the
   generated functions and these lemmas stop compiling. *)
From Coq Require Import List ZArith NArith Bool Lia ZifyBool.
From I18n Require Import Lib.Outcome Lib.PySrc Model.IntExpr Model.PluralForms Model.PluralFormsPy Model.PluralFormsHead
  Generated.PluralsSrc Proofs.IntExprSrc Proofs.Codomain Proofs.PluralForms Proofs.PluralFormsNoCrash.
Import ListNotations.
Local Open Scope Z_scope.

(* Case analysis on every integer comparison of the goal, contradictory combinations closed by lia: the proofs below do not
   depend on how the source spells a comparison (a < b / b > a, y + 1 / 1 + y), nor on the names of its variables. *)
Ltac zcmp := repeat match goal with
  | |- context [Z.eqb ?a ?b] => let E := fresh "E" in destruct (Z.eqb a b) eqn:E
  | |- context [Z.ltb ?a ?b] => let E := fresh "E" in destruct (Z.ltb a b) eqn:E
  | |- context [Z.leb ?a ?b] => let E := fresh "E" in destruct (Z.leb a b) eqn:E
  | |- context [Z.gtb ?a ?b] => let E := fresh "E" in destruct (Z.gtb a b) eqn:E
  | |- context [Z.geb ?a ?b] => let E := fresh "E" in destruct (Z.geb a b) eqn:E
  end; cbn [negb andb orb].

(* ---------- how the model's results appear at the source level ---------- *)
Definition exn_of_crash (c : crash_kind) : pyexn :=
  match c with CValueError => XValue | CAttributeError => XAttribute | CNotImplemented => XNotImplemented | _ => XCrash c end.
Definition sres_of_crash {A} (c : crash_kind) : sres A :=
  match c with CAssertion => SAssert | _ => SRaise (exn_of_crash c) end.
(* Ok = the value returned, Err = PluralFormsSyntaxError (or its subclass), Crash = the foreign exception *)
Definition embed {A} (r : outcome A pf_err) : sres A :=
  match r with Ok a => SRet a | Err _ => SRaise XPluralForms | Crash c => sres_of_crash c end.

(* ---------- the model's instances of the external operations ---------- *)
(* a match object: leading text, digits, expression text, trailing text, and the string searched *)
Definition pmatch : Type := str * str * str * str * str.
Definition m_search (s : str) : option pmatch :=
  match pf_search s with Some (l, ds, body, r) => Some (l, ds, body, r, s) | None => None end.
Definition m_group (m : pmatch) (i : Z) : str :=
  let '(l, ds, body, r, s) := m in if i =? 1 then ds else if i =? 2 then body else [].
Definition m_start (m : pmatch) : Z := let '(l, ds, body, r, s) := m in zlen l.
Definition m_end (m : pmatch) : Z := let '(l, ds, body, r, s) := m in zlen s - zlen r.
Definition m_int10 (maxd : N) (ds : str) : sres Z :=
  if max_digits_ok maxd (N.of_nat (length ds)) then SRet (digits_value ds) else SRaise XValue.
Definition m_parse (maxd : N) (s : str) : sres expr :=
  match parse_string maxd s with Ok e => SRet e | Err _ => SRaise XParsing | Crash c => sres_of_crash c end.

Section Tie.
Variables (L G : Type) (maxd : N).
Variables (values : list str) (language : option L) (get_plural_forms : L -> option (list str)) (is_template : bool)
          (file : list G) (obsolete : G -> bool) (msgid_plural : G -> option str) (translated : G -> bool)
          (msgstr_plural : G -> list (Z * str)).

(* the world: the model's operations, an arbitrary check context *)
Definition MW : pl_world expr pmatch L G := {|
  w_search := m_search; w_group := m_group; w_start := m_start; w_end := m_end;
  w_int10 := m_int10 maxd; w_parse := m_parse maxd;
  w_call := fun e i => of_eres (pyeval M32 e i);
  w_codomain := fun e => of_cres (codomain M32 e);
  w_period := fun e => of_opt (period M32 e);
  w_values := values; w_language := language; w_get_plural_forms := get_plural_forms; w_is_template := is_template;
  w_file := file; w_obsolete := obsolete; w_msgid_plural := msgid_plural; w_translated := translated;
  w_msgstr_plural := msgstr_plural |}.

(* the context as the model sees it *)
Definition ctx_of : pl_ctx := {|
  pc_values := values; pc_template := is_template;
  pc_correct := match language with Some l => get_plural_forms l | None => None end;
  pc_msgs := map (fun g => {| pm_obsolete := obsolete g;
                              pm_plural := match msgid_plural g with Some _ => true | None => false end;
                              pm_translated := translated g;
                              pm_count := zlen (msgstr_plural g) |}) file |}.

(* ---------- gettext.parse_plural_expression ---------- *)
(* for every world: LexingError and ParsingError become the module's own syntax error, the rest passes through *)
Lemma src_parse_plural_expression_spec E M (W : pl_world E M L G) s :
  src_parse_plural_expression W s =
  match w_parse W s with
  | SRet e => SRet e
  | SNone => SRaise (XCrash CTypeError)
  | SAssert => SAssert
  | SRaise XLexing | SRaise XParsing => SRaise XPluralForms
  | SRaise x => SRaise x
  end.
Proof.
  unfold src_parse_plural_expression, scall. destruct (w_parse W s) as [e| | |x]; reflexivity.
Qed.

Definition embed_syn {A} (r : outcome A syn_err) : sres A :=
  match r with Ok a => SRet a | Err _ => SRaise XPluralForms | Crash c => sres_of_crash c end.

Lemma sres_of_crash_not_own {A} c : (sres_of_crash c : sres A) <> SRaise XLexing /\ (sres_of_crash c : sres A) <> SRaise XParsing
  /\ (sres_of_crash c : sres A) <> SNone /\ forall a, (sres_of_crash c : sres A) <> SRet a.
Proof. destruct c; cbn; repeat split; try discriminate; intros; discriminate. Qed.

Lemma src_parse_plural_expression_eq s : src_parse_plural_expression MW s = embed_syn (parse_string maxd s).
Proof.
  rewrite src_parse_plural_expression_spec. cbn [w_parse MW]. unfold m_parse, embed_syn.
  destruct (parse_string maxd s) as [e|k|c]; try reflexivity.
  destruct c; reflexivity.
Qed.

(* ---------- gettext.parse_plural_forms ---------- *)
Lemma zlen_app {A} (a b : list A) : zlen (a ++ b) = zlen a + zlen b.
Proof. unfold zlen. rewrite app_length. lia. Qed.
Lemma zlen_nonneg {A} (a : list A) : 0 <= zlen a.
Proof. unfold zlen. lia. Qed.
Lemma zlen_zero {A} (a : list A) : zlen a = 0 <-> a = [].
Proof. unfold zlen. destruct a; cbn; split; intros; try reflexivity; try discriminate; lia. Qed.

Lemma str_to_prefix (l rest : str) : str_to (l ++ rest) (zlen l) = l.
Proof.
  unfold str_to, py_idx. rewrite zlen_app. pose proof (zlen_nonneg l). pose proof (zlen_nonneg rest).
  destruct (zlen l <? 0) eqn:E; [lia|]. rewrite Z.min_l by lia. unfold zlen. rewrite Nat2Z.id.
  rewrite firstn_app, Nat.sub_diag, firstn_all. cbn. apply app_nil_r.
Qed.

Lemma str_from_suffix (a r : str) : str_from (a ++ r) (zlen (a ++ r) - zlen r) = r.
Proof.
  unfold str_from, py_idx. rewrite zlen_app. pose proof (zlen_nonneg a). pose proof (zlen_nonneg r).
  replace (zlen a + zlen r - zlen r) with (zlen a) by lia.
  destruct (zlen a <? 0) eqn:E; [lia|]. rewrite Z.min_l by lia. unfold zlen. rewrite Nat2Z.id.
  rewrite skipn_app, Nat.sub_diag, skipn_all. reflexivity.
Qed.

(* the text around the match, from the shape lemma of the search function *)
Lemma search_slices s l ds body r : pf_search s = Some (l, ds, body, r) ->
  str_to s (zlen l) = l /\ str_from s (zlen s - zlen r) = r.
Proof.
  intros H. apply pf_search_spec in H. destruct H as [blanks [semi [Hs _]]]. subst s. split.
  - apply str_to_prefix.
  - repeat rewrite app_assoc. apply str_from_suffix.
Qed.

Lemma src_parse_plural_forms_nonstrict_eq s :
  src_parse_plural_forms_nonstrict MW s = embed (parse_plural_forms maxd s).
Proof.
  unfold src_parse_plural_forms_nonstrict, parse_plural_forms. cbn [w_search w_int10 w_group w_start w_end MW].
  unfold m_search. destruct (pf_search s) as [[[[l ds] body] r]|] eqn:Es; [|reflexivity].
  cbn [m_group m_start m_end Z.eqb Pos.eqb]. unfold m_int10.
  destruct (max_digits_ok maxd (N.of_nat (length ds))); cbn [negb scall]; [|reflexivity].
  rewrite src_parse_plural_expression_eq.
  destruct (parse_string maxd body) as [e|k|c]; cbn [embed_syn scall embed].
  - destruct (search_slices _ _ _ _ _ Es) as [-> ->]. reflexivity.
  - reflexivity.
  - destruct c; reflexivity.
Qed.

Lemma src_parse_plural_forms_strict_eq s :
  src_parse_plural_forms_strict MW s = embed (parse_plural_forms_strict maxd s).
Proof.
  unfold src_parse_plural_forms_strict, parse_plural_forms_strict, parse_plural_forms.
  cbn [w_search w_int10 w_group w_start w_end MW].
  unfold m_search. destruct (pf_search s) as [[[[l ds] body] r]|] eqn:Es; [|reflexivity].
  cbn [m_group m_start m_end Z.eqb Pos.eqb]. unfold m_int10.
  destruct (max_digits_ok maxd (N.of_nat (length ds))); cbn [negb scall obind]; [|reflexivity].
  rewrite src_parse_plural_expression_eq.
  destruct (parse_string maxd body) as [e|k|c]; cbn [embed_syn scall embed obind].
  - destruct l as [|c0 l'], r as [|c1 r']; zcmp; try reflexivity; exfalso; unfold zlen in *; cbn [length] in *; lia.
  - reflexivity.
  - destruct c; reflexivity.
Qed.


(* ---------- check_plurals: the loop over uncov_rngs ---------- *)
Definition never_tags (hp : bool) (l : list (Z * Z)) : list stag :=
  map (fun r => TCodomain hp (MNever (fst r, snd r, 5))) l.

Lemma loop_never_eq hp : forall l out pp, Forall (fun r => fst r < snd r) l ->
  src_check_plurals_loop2 MW out pp hp l = SRet (out ++ never_tags hp l, match l with [] => pp | _ => None end).
Proof.
  induction l as [|r l IH]; intros out pp HF; cbn [src_check_plurals_loop2 never_tags map].
  - rewrite app_nil_r. reflexivity.
  - inversion HF as [|? ? Hr HF']; subst. unfold format_range.
    replace (snd r <=? fst r) with false by lia. change (5 <? 4) with false. cbn [scall].
    rewrite IH by assumption. unfold never_tags.
    destruct hp; rewrite <- app_assoc; cbn [app]; destruct l; reflexivity.
Qed.

(* ---------- the gap scan over sorted(ctx.plural_preimage) ---------- *)
Lemma loop_gap_eq hp n p : forall keys out uncov,
  src_check_plurals_loop4 MW out p hp n uncov keys = src_check_plurals_k3 MW out (Some p) hp (uncov ++ gap_scan n p keys).
Proof.
  induction keys as [|i keys IH]; intros out uncov; cbn [src_check_plurals_loop4 gap_scan].
  - rewrite app_nil_r. reflexivity.
  - change (dict_has p) with (pre_has p).
    zcmp; repeat match goal with |- context [pre_has p ?k] => destruct (pre_has p k) end; cbn [negb andb orb];
      try reflexivity; try apply IH; exfalso; lia.
Qed.

Lemma gap_scan_nonempty n p : forall keys, Forall (fun r => fst r < snd r) (gap_scan n p keys).
Proof.
  induction keys as [|i keys IH]; cbn [gap_scan]; [constructor|].
  destruct ((i >? 0) && negb (pre_has p (i - 1))); [repeat constructor; cbn; lia|].
  destruct ((i + 1 <? n) && negb (pre_has p (i + 1))); [repeat constructor; cbn; lia|]. exact IH.
Qed.

Lemma uncov_nonempty e n wpre : Forall (fun r => fst r < snd r) (uncov_of e n wpre).
Proof.
  unfold uncov_of, uncov1_of. destruct (codomain M32 e) as [|x y|].
  - destruct wpre as [p|]; [|constructor]. destruct (period M32 e) as [[o pp]|]; [|constructor].
    destruct (o + pp <? window); [apply gap_scan_nonempty|constructor].
  - destruct (x >? 0) eqn:Ex; destruct (y + 1 <? n) eqn:Ey; cbn [app].
    + repeat constructor; cbn; lia.
    + repeat constructor; cbn; lia.
    + repeat constructor; cbn; lia.
    + destruct wpre as [p|]; [|constructor]. destruct (period M32 e) as [[o pp]|]; [|constructor].
      destruct (o + pp <? window); [apply gap_scan_nonempty|constructor].
  - destruct wpre as [p|]; [|constructor]. destruct (period M32 e) as [[o pp]|]; [|constructor].
    destruct (o + pp <? window); [apply gap_scan_nonempty|constructor].
Qed.

(* ---------- from expr.codomain() to the end ---------- *)
Definition after_window (out : list stag) (hp : bool) (n : Z) (e : expr) (wpre : option preimg) : sres (list stag * option preimg) :=
  match codomain M32 e with
  | CAssert => SAssert
  | _ => SRet (out ++ never_tags hp (uncov_of e n wpre), match uncov_of e n wpre with [] => wpre | _ => None end)
  end.

Lemma k_codomain_eq hp n e out wpre : src_check_plurals_k5 MW out wpre hp n e 200 = after_window out hp n e wpre.
Proof.
  unfold src_check_plurals_k5, after_window, uncov_of, uncov1_of. cbn [w_codomain w_period MW].
  destruct (codomain M32 e) as [|x y|]; cbn [of_cres sopt scall]; [| |reflexivity].
  all: destruct wpre as [p|]; [destruct (period M32 e) as [[o pp]|]|];
    cbn [of_opt sopt scall fst snd zinf_add zinf_ltb]; change 200 with window; zcmp; cbn [app nonempty negb];
    rewrite ?loop_gap_eq; unfold src_check_plurals_k3, dict_keys; cbn [app];
    try (exfalso; lia);
    (rewrite loop_never_eq by (first [apply gap_scan_nonempty | repeat constructor; cbn [fst snd]; lia]));
    cbn [never_tags map app fst snd];
    try (destruct (gap_scan n p (map fst p)));
    try reflexivity; repeat (f_equal; try lia).
Qed.

(* ---------- the window loop (for i in range(200), inside try / except OverflowError / except ZeroDivisionError) ---------- *)
Lemma window_loop_acc e n lc : forall is pre u acc,
  window_loop e n lc is pre u acc =
  (acc ++ fst (window_loop e n lc is pre u []), snd (window_loop e n lc is pre u [])).
Proof.
  induction is as [|i rest IH]; intros pre u acc; cbn [window_loop].
  - rewrite app_nil_r. reflexivity.
  - destruct (pyeval M32 e i) as [fi|k|c]; cbn [fst snd app]; try (rewrite ?app_nil_r; reflexivity).
    destruct (fi >=? n); [reflexivity|].
    destruct lc as [le|]; [|apply IH].
    destruct (pyeval M32 le i) as [v|k|c]; cbn [fst snd app]; try (rewrite ?app_nil_r; reflexivity).
    destruct (negb (fi =? v) && negb u); [|apply IH].
    rewrite (IH _ true (acc ++ [DUnusual])), (IH _ true ([] ++ [DUnusual])). cbn [fst snd app].
    rewrite <- app_assoc. reflexivity.
Qed.

Lemma k_overflow_eq out hp n e i :
  src_check_plurals_k6 MW out hp n e 200 i = src_check_plurals_k5 MW (out ++ [TArith hp (MOverflow i)]) None hp n e 200.
Proof. unfold src_check_plurals_k6. destruct hp; reflexivity. Qed.
Lemma k_zerodiv_eq out hp n e i :
  src_check_plurals_k7 MW out hp n e 200 i = src_check_plurals_k5 MW (out ++ [TArith hp (MDivZero i)]) None hp n e 200.
Proof. unfold src_check_plurals_k7. destruct hp; reflexivity. Qed.

Lemma dd_append_pre_add : forall p k i, dd_append p k i = pre_add p k i.
Proof.
  induction p as [|[k' l] r IH]; intros k i; cbn [dd_append pre_add]; [reflexivity|].
  destruct (k =? k') eqn:E; [apply Z.eqb_eq in E; subst; reflexivity|].
  destruct (k <? k'); [reflexivity|]. rewrite IH. reflexivity.
Qed.

(* locally_correct_n / locally_correct_expr are both None, or (n, le): the model's [lc] *)
Lemma loop_window_eq hp v n e lc : forall l out pre u,
  src_check_plurals_loop8 MW out v hp n e (option_map (fun _ => n) lc) lc pre u 200 l =
  src_check_plurals_k5 MW (out ++ map (tag_of_diag hp v) (fst (window_loop e n lc l pre u [])))
                       (snd (window_loop e n lc l pre u [])) hp n e 200.
Proof.
  induction l as [|i l IH]; intros out pre u; cbn [src_check_plurals_loop8 window_loop fst snd map].
  - rewrite app_nil_r. reflexivity.
  - cbn [w_call MW]. pose proof (pyeval_nocrash M32 e i) as Hnc.
    destruct (pyeval M32 e i) as [fi|k|c]; cbn [of_eres scall]; [| |exfalso; eapply Hnc; reflexivity].
    2: { cbn [fst snd app map tag_of_diag]. destruct k; [rewrite k_overflow_eq|rewrite k_zerodiv_eq]; reflexivity. }
    rewrite ?dd_append_pre_add.
    destruct lc as [le|]; cbn [option_map] in *.
    + pose proof (pyeval_nocrash M32 le i) as Hnc'.
      destruct (pyeval M32 le i) as [w|k|c]; cbn [of_eres scall]; zcmp; destruct u, hp; cbn [negb andb];
        try (exfalso; lia); try (exfalso; eapply Hnc'; reflexivity);
        try (destruct k; rewrite ?k_overflow_eq, ?k_zerodiv_eq);
        cbn [fst snd app map tag_of_diag]; try (rewrite window_loop_acc; cbn [fst snd app map tag_of_diag]);
        rewrite ?IH, <- ?app_assoc; reflexivity.
    + zcmp; destruct hp; try (exfalso; lia); cbn [fst snd app map tag_of_diag]; rewrite ?IH; reflexivity.
Qed.

Lemma k_window_eq out v hp n e lc :
  src_check_plurals_k10 MW out v hp n e (option_map (fun _ => n) lc) lc =
  src_check_plurals_k5 MW (out ++ map (tag_of_diag hp v) (fst (window_loop e n lc (zrange 0 window) [] false [])))
                       (snd (window_loop e n lc (zrange 0 window) [] false [])) hp n e 200.
Proof. unfold src_check_plurals_k10. apply loop_window_eq. Qed.

(* ---------- the registry declarations of the language ---------- *)
Lemma smap_registry : forall l, smap (src_parse_plural_forms_strict MW) l = embed (parse_registry maxd l).
Proof.
  induction l as [|s r IH]; cbn [smap parse_registry]; [reflexivity|].
  rewrite src_parse_plural_forms_strict_eq.
  destruct (parse_plural_forms_strict maxd s) as [x|k|c]; cbn [embed scall obind].
  - rewrite IH. destruct (parse_registry maxd r) as [xs|k|c]; cbn [embed scall obind]; try reflexivity.
    destruct c; reflexivity.
  - reflexivity.
  - destruct c; reflexivity.
Qed.

Definition registry_of (correct : option (list str)) : outcome (option (list (Z * expr))) pf_err :=
  match correct with None => Ok None | Some l0 => do r0 <- parse_registry maxd l0; Ok (Some r0) end.

Lemma filter_fst_eq n (r : list (Z * expr)) :
  filter (fun '(i, _) => i =? n) r = filter (fun x => fst x =? n) r.
Proof. apply filter_ext. intros [a b]. reflexivity. Qed.

Lemma k_registry_eq out v correct hp n e :
  src_check_plurals_k11 MW out v correct hp n e =
  match registry_of correct with
  | Ok reg =>
    src_check_plurals_k10 MW (out ++ map (tag_of_diag hp v) (d_unusual0 (reg_local n reg))) v hp n e
      (option_map (fun _ => n) (lc_of (reg_local n reg))) (lc_of (reg_local n reg))
  | Err _ => SRaise XPluralForms
  | Crash c => sres_of_crash c
  end.
Proof.
  unfold src_check_plurals_k11, registry_of. destruct correct as [l0|]; cbn [obind reg_local d_unusual0 lc_of map option_map].
  2: { rewrite app_nil_r. reflexivity. }
  rewrite smap_registry. destruct (parse_registry maxd l0) as [r|k|c]; cbn [embed scall obind].
  - rewrite filter_fst_eq. cbn [reg_local].
    pose proof (fun x => proj1 (filter_In (fun x : Z * expr => fst x =? n) x r)) as HF.
    destruct (filter (fun x : Z * expr => fst x =? n) r) as [|[a b] [|q t]]; cbn [nonempty negb d_unusual0 lc_of map option_map tag_of_diag].
    + destruct hp; reflexivity.
    + assert (a = n) by (destruct (HF (a, b) (or_introl eq_refl)) as [_ H]; cbn in H; lia). subst a.
      unfold zlen; cbn [length]; zcmp; try (exfalso; lia). rewrite app_nil_r. reflexivity.
    + unfold zlen; cbn [length]; zcmp; try (exfalso; lia). rewrite app_nil_r. reflexivity.
  - reflexivity.
  - destruct c; reflexivity.
Qed.


(* ---------- from the parse of the header value to the end = check_plurals_core ---------- *)
Definition embed_core (out : list stag) (hp : bool) (v : str) (r : outcome (list pdiag * option preimg) pf_err)
  : sres (list stag * option preimg) :=
  match r with
  | Ok (ds, pre) => SRet (out ++ map (tag_of_diag hp v) ds, pre)
  | Err _ => SRaise XPluralForms
  | Crash c => sres_of_crash c
  end.

(* check_plurals_core after the registry declarations have been parsed *)
Definition core_tail (n : Z) (e : expr) (ljunk rjunk : str) (expected : list Z) (reg : option (list (Z * expr)))
  : outcome (list pdiag * option preimg) pf_err :=
  let '(dl, pre) := window_loop e n (lc_of (reg_local n reg)) (zrange 0 window) [] false [] in
  match codomain M32 e with
  | CAssert => Crash CAssertion
  | _ => Ok (d_ljunk ljunk ++ d_rjunk rjunk ++ d_count n expected ++ d_unusual0 (reg_local n reg) ++ dl
             ++ map (fun r => DNever (fst r) (snd r)) (uncov_of e n pre),
             match uncov_of e n pre with [] => pre | _ => None end)
  end.

Lemma core_unfold inp :
  check_plurals_core maxd inp =
  match parse_plural_forms maxd (pf_value inp) with
  | Err _ => Ok ([DSyntax], None)
  | Crash c => Crash c
  | Ok (n, e, ljunk, rjunk) => do reg <- registry_of (pf_correct inp); core_tail n e ljunk rjunk (pf_expected inp) reg
  end.
Proof.
  unfold check_plurals_core, registry_of, core_tail.
  destruct (parse_plural_forms maxd (pf_value inp)) as [[[[n e] lj] rj]|k|c]; try reflexivity.
  destruct (pf_correct inp) as [l0|]; [destruct (parse_registry maxd l0) as [r0|k|c]|]; cbn [obind]; try reflexivity.
  all: unfold uncov_of, uncov1_of, d_ljunk, d_rjunk, d_count, d_unusual0, lc_of, reg_local.
  all: match goal with |- context [window_loop ?a ?b ?c ?d ?f ?g ?h] => destruct (window_loop a b c d f g h) as [dl wpre] end.
  all: destruct (codomain M32 e) as [|x y|]; try reflexivity.
  all: destruct ((if x >? 0 then [(0, x)] else []) ++ (if y + 1 <? n then [(y + 1, n)] else [])); reflexivity.
Qed.

Lemma k_core_tail_eq out v hp n e lj rj expected reg :
  src_check_plurals_k10 MW (out ++ map (tag_of_diag hp v) (d_ljunk lj ++ d_rjunk rj ++ d_count n expected ++ d_unusual0 (reg_local n reg)))
    v hp n e (option_map (fun _ => n) (lc_of (reg_local n reg))) (lc_of (reg_local n reg)) =
  embed_core out hp v (core_tail n e lj rj expected reg).
Proof.
  rewrite k_window_eq. unfold core_tail.
  destruct (window_loop e n (lc_of (reg_local n reg)) (zrange 0 window) [] false []) as [dl wpre]. cbn [fst snd].
  rewrite k_codomain_eq. unfold after_window, never_tags.
  destruct (codomain M32 e) as [|x y|]; cbn [embed_core]; try reflexivity.
  all: rewrite !map_app, map_map, <- !app_assoc; cbn [tag_of_diag fst snd]; reflexivity.
Qed.

Lemma zlen_keys (exp : list (Z * G)) : zlen exp = zlen (dict_keys exp).
Proof. unfold zlen, dict_keys. rewrite map_length. reflexivity. Qed.

Lemma k_value_eq out v correct hp (exp : list (Z * G)) : is_template = false ->
  src_check_plurals_k12 MW out (Some v) correct hp exp =
  embed_core out hp v (check_plurals_core maxd {| pf_value := v; pf_has_plurals := hp; pf_expected := dict_keys exp; pf_correct := correct |}).
Proof.
  intros Ht. rewrite core_unfold. unfold src_check_plurals_k12. cbn [w_is_template MW pf_value pf_expected pf_correct]. rewrite Ht.
  rewrite src_parse_plural_forms_nonstrict_eq.
  destruct (parse_plural_forms maxd v) as [[[[n e] lj] rj]|k|c]; cbn [embed scall embed_core].
  2: { destruct hp; reflexivity. }
  2: { destruct c; reflexivity. }
  (* whatever the junk / count tests emitted, the rest continues with that prefix *)
  assert (K : forall out', out' = out ++ map (tag_of_diag hp v) (d_ljunk lj ++ d_rjunk rj ++ d_count n (dict_keys exp)) ->
    src_check_plurals_k11 MW out' v correct hp n e =
    embed_core out hp v (do reg <- registry_of correct; core_tail n e lj rj (dict_keys exp) reg)).
  { intros out' ->. rewrite k_registry_eq.
    destruct (registry_of correct) as [reg|k|c]; cbn [obind embed_core]; [|reflexivity|reflexivity].
    rewrite <- k_core_tail_eq. rewrite !map_app, <- !app_assoc. reflexivity. }
  rewrite zlen_keys. unfold d_ljunk, d_rjunk, d_count in K.
  destruct lj, rj, (dict_keys exp) as [|k0 [|k1 t]]; unfold zlen; cbn [nonempty length]; zcmp; try (exfalso; lia);
    apply K; zcmp; try (exfalso; lia); cbn [map app tag_of_diag]; rewrite <- ?app_assoc; cbn [app]; rewrite ?app_nil_r; reflexivity.
Qed.

(* ---------- the head: the arguments of inconsistent-number-of-plural-forms ---------- *)
Lemma loop_args_eq pf correct hp exp : forall (l : list (Z * G)) out args,
  src_check_plurals_loop13 MW out pf correct hp exp args l =
  src_check_plurals_k12 MW (out ++ [TInconsistent (removelast (args ++ flat_map (fun n => [AInt n; ADeco; AConst]) (dict_keys l)))])
                        pf correct hp exp.
Proof.
  induction l as [|[n g] l IH]; intros out args; cbn [src_check_plurals_loop13 dict_keys map flat_map].
  - rewrite app_nil_r. reflexivity.
  - rewrite IH. unfold dict_keys. rewrite <- app_assoc. reflexivity.
Qed.

(* what follows the loop over ctx.file, as a function of has_plurals and the set of msgstr[] counts *)
Definition after_scan (out : list stag) (pf : option str) (correct : option (list str)) (hp : bool) (counts : list Z)
  : sres (list stag * option preimg) :=
  let out1 := out ++ (if zlen counts >? 1 then [TInconsistent (inconsistent_args counts)] else []) in
  match pf with
  | None => SRet (out1 ++ (if hp then (if nonempty counts then [TNoRequired] else [TNoField]) else []), None)
  | Some v =>
    if is_template then SRet (out1, None) else
    embed_core out1 hp v (check_plurals_core maxd {| pf_value := v; pf_has_plurals := hp; pf_expected := counts; pf_correct := correct |})
  end.

Lemma k_none_template_eq out pf correct hp (exp : list (Z * G)) :
  src_check_plurals_k12 MW out pf correct hp exp =
  match pf with
  | None => SRet (out ++ (if hp then (if nonempty (dict_keys exp) then [TNoRequired] else [TNoField]) else []), None)
  | Some v =>
    if is_template then SRet (out, None) else
    embed_core out hp v (check_plurals_core maxd {| pf_value := v; pf_has_plurals := hp; pf_expected := dict_keys exp; pf_correct := correct |})
  end.
Proof.
  destruct pf as [v|].
  - destruct is_template eqn:Ht; [|apply k_value_eq; exact Ht].
    unfold src_check_plurals_k12. cbn [w_is_template MW]. rewrite Ht. reflexivity.
  - unfold src_check_plurals_k12. destruct hp; [|rewrite app_nil_r; reflexivity].
    destruct exp; reflexivity.
Qed.

Lemma k_after_scan_eq out pf correct hp (exp : list (Z * G)) :
  src_check_plurals_k14 MW out pf correct hp exp = after_scan out pf correct hp (dict_keys exp).
Proof.
  unfold src_check_plurals_k14, after_scan, inconsistent_args. rewrite <- zlen_keys.
  zcmp; try (exfalso; lia); rewrite ?loop_args_eq; cbn [app]; rewrite ?app_nil_r; apply k_none_template_eq.
Qed.

(* ---------- the loop over ctx.file ---------- *)
Definition pmsg_of (g : G) : pmsg :=
  {| pm_obsolete := obsolete g; pm_plural := match msgid_plural g with Some _ => true | None => false end;
     pm_translated := translated g; pm_count := zlen (msgstr_plural g) |}.

Lemma dict_set_keys : forall (d : list (Z * G)) k g, dict_keys (dict_set d k g) = zset_add (dict_keys d) k.
Proof.
  induction d as [|[k' g'] r IH]; intros k g; cbn [dict_set dict_keys map zset_add fst]; [reflexivity|].
  destruct (k =? k'); [reflexivity|]. destruct (k <? k'); [reflexivity|].
  cbn [map fst]. f_equal. apply IH.
Qed.

Lemma loop_scan_eq pf correct : forall (l : list G) out hp (exp : list (Z * G)),
  src_check_plurals_loop1 MW out pf correct hp exp l =
  after_scan out pf correct (fst (scan_msgs (map pmsg_of l) hp (dict_keys exp))) (snd (scan_msgs (map pmsg_of l) hp (dict_keys exp))).
Proof.
  induction l as [|g l IH]; intros out hp exp; cbn [src_check_plurals_loop1 map scan_msgs fst snd].
  - apply k_after_scan_eq.
  - cbn [w_obsolete w_msgid_plural w_translated w_msgstr_plural MW pm_obsolete pm_plural pm_translated pm_count pmsg_of].
    destruct (obsolete g); [apply IH|].
    destruct (msgid_plural g) as [mp|]; [|apply IH].
    destruct (translated g); cbn [negb]; [|apply IH].
    rewrite <- (dict_set_keys exp (zlen (msgstr_plural g)) g), <- zlen_keys.
    zcmp; try (exfalso; lia); cbn [fst snd]; first [apply k_after_scan_eq|apply IH].
Qed.

(* ---------- the whole method ---------- *)
Theorem src_check_plurals_eq : src_check_plurals MW = embed (check_plurals maxd ctx_of).
Proof.
  unfold src_check_plurals, check_plurals. cbn [pc_values pc_template pc_correct pc_msgs ctx_of w_values MW].
  assert (K16 : forall out vals,
    src_check_plurals_k16 MW out vals =
    match vals with
    | [] => after_scan out None (match language with Some l => get_plural_forms l | None => None end)
              (fst (scan_msgs (map pmsg_of file) false [])) (snd (scan_msgs (map pmsg_of file) false []))
    | [v] => after_scan out (Some v) (match language with Some l => get_plural_forms l | None => None end)
              (fst (scan_msgs (map pmsg_of file) false [])) (snd (scan_msgs (map pmsg_of file) false []))
    | _ => SAssert
    end).
  { intros out vals. unfold src_check_plurals_k16, src_check_plurals_k15. cbn [w_language w_get_plural_forms w_file MW].
    destruct vals as [|v [|v' t]]; unfold zlen; cbn [length]; zcmp; try (exfalso; lia);
      rewrite ?loop_scan_eq; destruct language; reflexivity. }
  change (map (fun g => {| pm_obsolete := obsolete g; pm_plural := match msgid_plural g with Some _ => true | None => false end;
                           pm_translated := translated g; pm_count := zlen (msgstr_plural g) |}) file) with (map pmsg_of file).
  destruct (scan_msgs (map pmsg_of file) false []) as [hp counts] eqn:ES.
  assert (Tail : forall d0 vals,
    match vals with
    | [] => after_scan d0 None (match language with Some l => get_plural_forms l | None => None end) hp counts
    | [v] => after_scan d0 (Some v) (match language with Some l => get_plural_forms l | None => None end) hp counts
    | _ => SAssert
    end =
    embed (let d1 := if zlen counts >? 1 then [TInconsistent (inconsistent_args counts)] else [] in
           match vals with
           | [] => Ok (d0 ++ d1 ++ (if hp then (if nonempty counts then [TNoRequired] else [TNoField]) else []), None)
           | [v] =>
             if is_template then Ok (d0 ++ d1, None) else
             match check_plurals_core maxd {| pf_value := v; pf_has_plurals := hp; pf_expected := counts;
                                              pf_correct := match language with Some l => get_plural_forms l | None => None end |} with
             | Ok (ds, pre) => Ok (d0 ++ d1 ++ map (tag_of_diag hp v) ds, pre)
             | Err e => Err e
             | Crash k => Crash k
             end
           | _ => Crash CAssertion
           end)).
  { intros d0 vals. cbv zeta. unfold after_scan. destruct vals as [|v [|v' t]]; cbn [embed sres_of_crash]; [| |reflexivity].
    - rewrite <- app_assoc. reflexivity.
    - destruct is_template; [reflexivity|].
      destruct (check_plurals_core maxd _) as [[ds pre]|k|c]; cbn [embed_core embed]; [|reflexivity|reflexivity].
      rewrite <- app_assoc. reflexivity. }
  zcmp; try (exfalso; lia); cbn [app]; try reflexivity; rewrite K16; cbn [fst snd]; first [apply (Tail [TDuplicate])|apply (Tail [])].
Qed.


(* in the scope of the property (one Plural-Forms value, not a template): the method is check_plurals_core on that value,
   after the tag about inconsistent msgstr[] counts *)
Corollary src_check_plurals_core_eq v : values = [v] -> is_template = false ->
  src_check_plurals MW =
  let '(hp, counts) := scan_msgs (pc_msgs ctx_of) false [] in
  embed_core (if zlen counts >? 1 then [TInconsistent (inconsistent_args counts)] else []) hp v
    (check_plurals_core maxd {| pf_value := v; pf_has_plurals := hp; pf_expected := counts; pf_correct := pc_correct ctx_of |}).
Proof.
  intros Hv Ht. rewrite src_check_plurals_eq. unfold check_plurals. cbn [pc_values pc_template ctx_of].
  rewrite Hv, Ht. change (zlen [v] >? 1) with false. cbn [andb app].
  destruct (scan_msgs (pc_msgs ctx_of) false []) as [hp counts].
  destruct (check_plurals_core maxd _) as [[ds pre]|k|c]; reflexivity.
Qed.

End Tie.

(* ---------- the regular expression whose search function the model implements (Model/PluralForms.pf_search) ---------- *)
(* the code points of  nplurals=([1-9][0-9]STAR);[ \t]STARplural=([^;]+);?   with STAR the asterisk *)
Definition pf_regex_text : list N :=
  [110; 112; 108; 117; 114; 97; 108; 115; 61; 40; 91; 49; 45; 57; 93; 91; 48; 45; 57; 93; 42; 41; 59; 91; 32; 92; 116; 93; 42;
   112; 108; 117; 114; 97; 108; 61; 40; 91; 94; 59; 93; 43; 41; 59; 63]%N.
Lemma src_regex_eq : src_plural_forms_regex = pf_regex_text.
Proof. reflexivity. Qed.

(* ---------- totality (C01): with the digit limit lifted the method returns, or lets the syntax error of a registry
   declaration escape; it never fails an assertion and raises nothing else ---------- *)
Lemma check_plurals_no_crash c k : check_plurals 0 c <> Crash k.
Proof.
  unfold check_plurals.
  destruct (zlen (pc_values c) >? 1) eqn:Ed; cbn [andb].
  - destruct (zlen (str_sorted_set (pc_values c)) >? 1) eqn:E2; [discriminate|].
    destruct (scan_msgs (pc_msgs c) false []) as [hp counts].
    destruct (str_sorted_set (pc_values c)) as [|v [|v' t]]; [discriminate| |exfalso; unfold zlen in E2; cbn [length] in E2; lia].
    destruct (pc_template c); [discriminate|].
    pose proof (check_plurals_core_no_crash {| pf_value := v; pf_has_plurals := hp; pf_expected := counts; pf_correct := pc_correct c |}) as H.
    destruct (check_plurals_core 0 _) as [[ds pre]|e|k']; try discriminate. intros _. eapply H. reflexivity.
  - destruct (scan_msgs (pc_msgs c) false []) as [hp counts].
    destruct (pc_values c) as [|v [|v' t]]; [discriminate| |exfalso; unfold zlen in Ed; cbn [length] in Ed; lia].
    destruct (pc_template c); [discriminate|].
    pose proof (check_plurals_core_no_crash {| pf_value := v; pf_has_plurals := hp; pf_expected := counts; pf_correct := pc_correct c |}) as H.
    destruct (check_plurals_core 0 _) as [[ds pre]|e|k']; try discriminate. intros _. eapply H. reflexivity.
Qed.

Theorem src_check_plurals_total (L G : Type) values language get_plural_forms is_template file obsolete msgid_plural translated msgstr_plural :
  let r := src_check_plurals (MW L G 0 values language get_plural_forms is_template file obsolete msgid_plural translated msgstr_plural) in
  (exists tags pre, r = SRet (tags, pre)) \/ r = SRaise XPluralForms.
Proof.
  cbv zeta. rewrite src_check_plurals_eq.
  pose proof (check_plurals_no_crash (ctx_of L G values language get_plural_forms is_template file obsolete msgid_plural translated msgstr_plural)) as H.
  destruct (check_plurals 0 _) as [[tags pre]|e|k]; cbn [embed].
  - left. eauto.
  - right. reflexivity.
  - exfalso. eapply H. reflexivity.
Qed.

(* The source tie for C07 (notes/SRC3.md): every function of Generated/PluralsSrc.v (the statement-by-statement translation
   of gettext.parse_plural_expression, gettext.parse_plural_forms and Checker.check_plurals, regenerated from /repo on
   every run) equals the hand-written model (Model/PluralForms.v, Model/PluralFormsHead.v) when the external operations
   are the model's (the search function of the regular expression, int(), the plural-expression parser, the three
   evaluators), for every header value and every check context.  A behavioural edit of the Python code changes the
   generated functions and these lemmas stop compiling. *)
From Coq Require Import List ZArith NArith Bool Lia ZifyBool.
From I18n Require Import Lib.Outcome Lib.PySrc Model.IntExpr Model.PluralForms Model.PluralFormsPy Model.PluralFormsHead
  Generated.PluralsSrc Proofs.IntExprSrc Proofs.Codomain Proofs.PluralForms.
Import ListNotations.
Local Open Scope Z_scope.

(* ---------- how the model's results appear at the source level ---------- *)
Definition exn_of_crash (c : crash_kind) : pyexn :=
  match c with CValueError => XValue | CAttributeError => XAttribute | CNotImplemented => XNotImplemented | _ => XCrash c end.
Definition sres_of_crash {A} (c : crash_kind) : sres A :=
  match c with CAssertion => SAssert | _ => SRaise (exn_of_crash c) end.
(* Ok = the value returned, Err = PluralFormsSyntaxError (or its subclass), Crash = the foreign exception *)
Definition embed {A} (r : outcome A pf_err) : sres A :=
  match r with Ok a => SRet a | Err _ => SRaise XPluralForms | Crash c => sres_of_crash c end.

(* ---------- the model's instances of the external operations ---------- *)
(* a match object: leading text, digits, expression text, trailing text, and the string searched *)
Definition pmatch : Type := str * str * str * str * str.
Definition m_search (s : str) : option pmatch :=
  match pf_search s with Some (l, ds, body, r) => Some (l, ds, body, r, s) | None => None end.
Definition m_group (m : pmatch) (i : Z) : str :=
  let '(l, ds, body, r, s) := m in if i =? 1 then ds else if i =? 2 then body else [].
Definition m_start (m : pmatch) : Z := let '(l, ds, body, r, s) := m in zlen l.
Definition m_end (m : pmatch) : Z := let '(l, ds, body, r, s) := m in zlen s - zlen r.
Definition m_int10 (maxd : N) (ds : str) : sres Z :=
  if max_digits_ok maxd (N.of_nat (length ds)) then SRet (digits_value ds) else SRaise XValue.
Definition m_parse (maxd : N) (s : str) : sres expr :=
  match parse_string maxd s with Ok e => SRet e | Err _ => SRaise XParsing | Crash c => sres_of_crash c end.

Section Tie.
Variables (L G : Type) (maxd : N).
Variables (values : list str) (language : option L) (get_plural_forms : L -> option (list str)) (is_template : bool)
          (file : list G) (obsolete : G -> bool) (msgid_plural : G -> option str) (translated : G -> bool)
          (msgstr_plural : G -> list (Z * str)).

(* the world: the model's operations, an arbitrary check context *)
Definition MW : pl_world expr pmatch L G := {|
  w_search := m_search; w_group := m_group; w_start := m_start; w_end := m_end;
  w_int10 := m_int10 maxd; w_parse := m_parse maxd;
  w_call := fun e i => of_eres (pyeval M32 e i);
  w_codomain := fun e => of_cres (codomain M32 e);
  w_period := fun e => of_opt (period M32 e);
  w_values := values; w_language := language; w_get_plural_forms := get_plural_forms; w_is_template := is_template;
  w_file := file; w_obsolete := obsolete; w_msgid_plural := msgid_plural; w_translated := translated;
  w_msgstr_plural := msgstr_plural |}.

(* the context as the model sees it *)
Definition ctx_of : pl_ctx := {|
  pc_values := values; pc_template := is_template;
  pc_correct := match language with Some l => get_plural_forms l | None => None end;
  pc_msgs := map (fun g => {| pm_obsolete := obsolete g;
                              pm_plural := match msgid_plural g with Some _ => true | None => false end;
                              pm_translated := translated g;
                              pm_count := zlen (msgstr_plural g) |}) file |}.

(* ---------- gettext.parse_plural_expression ---------- *)
(* for every world: LexingError and ParsingError become the module's own syntax error, the rest passes through *)
Lemma src_parse_plural_expression_spec E M (W : pl_world E M L G) s :
  src_parse_plural_expression W s =
  match w_parse W s with
  | SRet e => SRet e
  | SNone => SRaise (XCrash CTypeError)
  | SAssert => SAssert
  | SRaise XLexing | SRaise XParsing => SRaise XPluralForms
  | SRaise x => SRaise x
  end.
Proof.
  unfold src_parse_plural_expression, scall. destruct (w_parse W s) as [e| | |x]; reflexivity.
Qed.

Definition embed_syn {A} (r : outcome A syn_err) : sres A :=
  match r with Ok a => SRet a | Err _ => SRaise XPluralForms | Crash c => sres_of_crash c end.

Lemma sres_of_crash_not_own {A} c : (sres_of_crash c : sres A) <> SRaise XLexing /\ (sres_of_crash c : sres A) <> SRaise XParsing
  /\ (sres_of_crash c : sres A) <> SNone /\ forall a, (sres_of_crash c : sres A) <> SRet a.
Proof. destruct c; cbn; repeat split; try discriminate; intros; discriminate. Qed.

Lemma src_parse_plural_expression_eq s : src_parse_plural_expression MW s = embed_syn (parse_string maxd s).
Proof.
  rewrite src_parse_plural_expression_spec. cbn [w_parse MW]. unfold m_parse, embed_syn.
  destruct (parse_string maxd s) as [e|k|c]; try reflexivity.
  destruct c; reflexivity.
Qed.

(* ---------- gettext.parse_plural_forms ---------- *)
Lemma zlen_app {A} (a b : list A) : zlen (a ++ b) = zlen a + zlen b.
Proof. unfold zlen. rewrite app_length. lia. Qed.
Lemma zlen_nonneg {A} (a : list A) : 0 <= zlen a.
Proof. unfold zlen. lia. Qed.
Lemma zlen_zero {A} (a : list A) : zlen a = 0 <-> a = [].
Proof. unfold zlen. destruct a; cbn; split; intros; try reflexivity; try discriminate; lia. Qed.

Lemma str_to_prefix (l rest : str) : str_to (l ++ rest) (zlen l) = l.
Proof.
  unfold str_to, py_idx. rewrite zlen_app. pose proof (zlen_nonneg l). pose proof (zlen_nonneg rest).
  destruct (zlen l <? 0) eqn:E; [lia|]. rewrite Z.min_l by lia. unfold zlen. rewrite Nat2Z.id.
  rewrite firstn_app, Nat.sub_diag, firstn_all. cbn. apply app_nil_r.
Qed.

Lemma str_from_suffix (a r : str) : str_from (a ++ r) (zlen (a ++ r) - zlen r) = r.
Proof.
  unfold str_from, py_idx. rewrite zlen_app. pose proof (zlen_nonneg a). pose proof (zlen_nonneg r).
  replace (zlen a + zlen r - zlen r) with (zlen a) by lia.
  destruct (zlen a <? 0) eqn:E; [lia|]. rewrite Z.min_l by lia. unfold zlen. rewrite Nat2Z.id.
  rewrite skipn_app, Nat.sub_diag, skipn_all. reflexivity.
Qed.

(* the text around the match, from the shape lemma of the search function *)
Lemma search_slices s l ds body r : pf_search s = Some (l, ds, body, r) ->
  str_to s (zlen l) = l /\ str_from s (zlen s - zlen r) = r.
Proof.
  intros H. apply pf_search_spec in H. destruct H as [blanks [semi [Hs _]]]. subst s. split.
  - apply str_to_prefix.
  - repeat rewrite app_assoc. apply str_from_suffix.
Qed.

Lemma src_parse_plural_forms_nonstrict_eq s :
  src_parse_plural_forms_nonstrict MW s = embed (parse_plural_forms maxd s).
Proof.
  unfold src_parse_plural_forms_nonstrict, parse_plural_forms. cbn [w_search w_int10 w_group w_start w_end MW].
  unfold m_search. destruct (pf_search s) as [[[[l ds] body] r]|] eqn:Es; [|reflexivity].
  cbn [m_group m_start m_end Z.eqb Pos.eqb]. unfold m_int10.
  destruct (max_digits_ok maxd (N.of_nat (length ds))); cbn [negb scall]; [|reflexivity].
  rewrite src_parse_plural_expression_eq.
  destruct (parse_string maxd body) as [e|k|c]; cbn [embed_syn scall embed].
  - destruct (search_slices _ _ _ _ _ Es) as [-> ->]. reflexivity.
  - reflexivity.
  - destruct c; reflexivity.
Qed.

Lemma src_parse_plural_forms_strict_eq s :
  src_parse_plural_forms_strict MW s = embed (parse_plural_forms_strict maxd s).
Proof.
  unfold src_parse_plural_forms_strict, parse_plural_forms_strict, parse_plural_forms.
  cbn [w_search w_int10 w_group w_start w_end MW].
  unfold m_search. destruct (pf_search s) as [[[[l ds] body] r]|] eqn:Es; [|reflexivity].
  cbn [m_group m_start m_end Z.eqb Pos.eqb]. unfold m_int10.
  destruct (max_digits_ok maxd (N.of_nat (length ds))); cbn [negb scall obind]; [|reflexivity].
  rewrite src_parse_plural_expression_eq.
  destruct (parse_string maxd body) as [e|k|c]; cbn [embed_syn scall embed obind].
  - pose proof (zlen_nonneg l). pose proof (zlen_nonneg r).
    destruct l as [|c0 l'].
    + cbn [zlen length Z.of_nat Z.eqb negb]. destruct r as [|c1 r'].
      * replace (zlen s - zlen (@nil N) =? zlen s) with true by (unfold zlen; cbn; lia). reflexivity.
      * replace (zlen s - zlen (c1 :: r') =? zlen s) with false by (unfold zlen; cbn; lia). reflexivity.
    + replace (zlen (c0 :: l') =? 0) with false by (unfold zlen; cbn; lia). reflexivity.
  - reflexivity.
  - destruct c; reflexivity.
Qed.

End Tie.

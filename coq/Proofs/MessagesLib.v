(* Library lemmas for Proofs/Messages*.v: code-point string order, prefixes / suffixes, sort_dedup. *)
From Coq Require Import List NArith ZArith Bool Lia ZifyBool ZifyN Sorted.
From I18n Require Import Lib.Outcome Model.Messages.
Import ListNotations.
Local Open Scope N_scope.

(* ------------------------------------------------------------------ *)
(* str_compare is a decidable strict total order                        *)

Lemma str_compare_eq : forall a b, str_compare a b = Eq <-> a = b.
Proof.
  induction a as [|x a IH]; destruct b as [|y b]; cbn; try (split; congruence).
  destruct (N.compare x y) eqn:E.
  - apply N.compare_eq in E. subst. rewrite IH. split; congruence.
  - split; [discriminate|]. intros H; inversion H; subst. rewrite N.compare_refl in E. discriminate.
  - split; [discriminate|]. intros H; inversion H; subst. rewrite N.compare_refl in E. discriminate.
Qed.
Lemma str_compare_refl a : str_compare a a = Eq.
Proof. apply str_compare_eq. reflexivity. Qed.
Lemma str_eqb_eq a b : str_eqb a b = true <-> a = b.
Proof. unfold str_eqb. rewrite <- str_compare_eq. destruct (str_compare a b); split; congruence. Qed.
Lemma str_eqb_refl a : str_eqb a a = true.
Proof. apply str_eqb_eq. reflexivity. Qed.
Lemma str_eqb_neq a b : str_eqb a b = false <-> a <> b.
Proof. rewrite <- str_eqb_eq. destruct (str_eqb a b); split; congruence. Qed.

Lemma str_compare_antisym : forall a b, str_compare a b = CompOpp (str_compare b a).
Proof.
  induction a as [|x a IH]; destruct b as [|y b]; cbn; auto.
  rewrite (N.compare_antisym y x). destruct (N.compare y x); cbn; auto.
Qed.
Lemma str_compare_gt_lt a b : str_compare a b = Gt -> str_compare b a = Lt.
Proof. intros H. rewrite str_compare_antisym, H. reflexivity. Qed.

Lemma str_compare_trans : forall a b c, str_compare a b = Lt -> str_compare b c = Lt -> str_compare a c = Lt.
Proof.
  induction a as [|x a IH]; destruct b as [|y b]; destruct c as [|z c]; cbn; try congruence.
  destruct (N.compare x y) eqn:E1; try discriminate; destruct (N.compare y z) eqn:E2; try discriminate; intros H1 H2.
  - apply N.compare_eq in E1, E2. subst. rewrite N.compare_refl. eauto.
  - apply N.compare_eq in E1. subst. rewrite E2. reflexivity.
  - apply N.compare_eq in E2. subst. rewrite E1. reflexivity.
  - assert (x < z) by (rewrite N.compare_lt_iff in *; lia).
    apply N.compare_lt_iff in H. rewrite H. reflexivity.
Qed.

Lemma zz_compare_eq a b : zz_compare a b = Eq <-> a = b.
Proof.
  destruct a as [a1 a2], b as [b1 b2]. unfold zz_compare. cbn [fst snd].
  destruct (Z.compare a1 b1) eqn:E.
  - apply Z.compare_eq in E. subst. rewrite Z.compare_eq_iff. split; congruence.
  - split; [discriminate|]. intros H; inversion H; subst. rewrite Z.compare_refl in E. discriminate.
  - split; [discriminate|]. intros H; inversion H; subst. rewrite Z.compare_refl in E. discriminate.
Qed.
Lemma zz_compare_lt a b : zz_compare a b = Lt <-> (fst a < fst b \/ (fst a = fst b /\ snd a < snd b))%Z.
Proof.
  destruct a as [a1 a2], b as [b1 b2]. unfold zz_compare. cbn [fst snd].
  destruct (Z.compare a1 b1) eqn:E.
  - apply Z.compare_eq in E. rewrite Z.compare_lt_iff. lia.
  - rewrite Z.compare_lt_iff in E. split; [intros _; lia|intros _; reflexivity].
  - rewrite Z.compare_gt_iff in E. split; [discriminate|intros H; exfalso; lia].
Qed.
Lemma zz_compare_gt_lt a b : zz_compare a b = Gt -> zz_compare b a = Lt.
Proof.
  intros H. apply zz_compare_lt. destruct a as [a1 a2], b as [b1 b2]. unfold zz_compare in H. cbn [fst snd] in *.
  destruct (Z.compare a1 b1) eqn:E.
  - apply Z.compare_eq in E. rewrite Z.compare_gt_iff in H. lia.
  - discriminate.
  - rewrite Z.compare_gt_iff in E. lia.
Qed.
Lemma zz_compare_trans a b c : zz_compare a b = Lt -> zz_compare b c = Lt -> zz_compare a c = Lt.
Proof. rewrite !zz_compare_lt. destruct a, b, c. cbn [fst snd]. lia. Qed.
Lemma zz_eqb_eq a b : zz_eqb a b = true <-> a = b.
Proof. unfold zz_eqb. rewrite <- zz_compare_eq. destruct (zz_compare a b); split; congruence. Qed.

Lemma N_compare_gt_lt a b : N.compare a b = Gt -> N.compare b a = Lt.
Proof. rewrite N.compare_gt_iff, N.compare_lt_iff. auto. Qed.
Lemma N_compare_trans a b c : N.compare a b = Lt -> N.compare b c = Lt -> N.compare a c = Lt.
Proof. rewrite !N.compare_lt_iff. lia. Qed.

(* ------------------------------------------------------------------ *)
(* sort_dedup                                                           *)

Section SortFacts.
  Context {A : Type} (cmp : A -> A -> comparison).
  Hypothesis cmp_eq : forall a b, cmp a b = Eq <-> a = b.
  Hypothesis cmp_gt_lt : forall a b, cmp a b = Gt -> cmp b a = Lt.
  Hypothesis cmp_trans : forall a b c, cmp a b = Lt -> cmp b c = Lt -> cmp a c = Lt.

  Lemma sinsert_In x l y : In y (sinsert cmp x l) <-> y = x \/ In y l.
  Proof.
    induction l as [|z l IH]; cbn; [intuition|].
    destruct (cmp x z) eqn:E; cbn.
    - apply cmp_eq in E. subst. intuition.
    - intuition.
    - rewrite IH. intuition.
  Qed.
  Lemma sort_dedup_In l y : In y (sort_dedup cmp l) <-> In y l.
  Proof.
    induction l as [|x l IH]; cbn; [tauto|]. rewrite sinsert_In, IH. intuition.
  Qed.

  Definition slt (a b : A) : Prop := cmp a b = Lt.

  Lemma sinsert_sorted x l : StronglySorted slt l -> StronglySorted slt (sinsert cmp x l).
  Proof.
    induction l as [|z l IH]; cbn; intros H; [repeat constructor|].
    inversion H as [|? ? Hs Hf]; subst.
    destruct (cmp x z) eqn:E.
    - exact H.
    - constructor; [exact H|]. constructor; [exact E|].
      rewrite Forall_forall in *. intros y Hy. eapply cmp_trans; [exact E|]. apply Hf; auto.
    - constructor; [apply IH; auto|].
      rewrite Forall_forall in *. intros y Hy. apply sinsert_In in Hy. destruct Hy as [->|Hy]; [apply cmp_gt_lt; auto|auto].
  Qed.
  Lemma sort_dedup_sorted l : StronglySorted slt (sort_dedup cmp l).
  Proof. induction l; cbn; [constructor|apply sinsert_sorted; auto]. Qed.

  Lemma slt_irrefl a : ~ slt a a.
  Proof. unfold slt. intros H. assert (cmp a a = Eq) by (apply cmp_eq; auto). congruence. Qed.

  Lemma sorted_NoDup l : StronglySorted slt l -> NoDup l.
  Proof.
    induction 1 as [|a l Hs IH Hf]; constructor; auto.
    intros Hin. rewrite Forall_forall in Hf. apply (slt_irrefl a). auto.
  Qed.
  Lemma sort_dedup_NoDup l : NoDup (sort_dedup cmp l).
  Proof. apply sorted_NoDup, sort_dedup_sorted. Qed.
End SortFacts.

Definition str_sort_In := sort_dedup_In str_compare str_compare_eq.
Definition str_sort_sorted := sort_dedup_sorted str_compare str_compare_eq str_compare_gt_lt str_compare_trans.
Definition str_sort_NoDup := sort_dedup_NoDup str_compare str_compare_eq str_compare_gt_lt str_compare_trans.
Definition zz_sort_In := sort_dedup_In zz_compare zz_compare_eq.
Definition zz_sort_sorted := sort_dedup_sorted zz_compare zz_compare_eq zz_compare_gt_lt zz_compare_trans.
Lemma N_compare_eq' a b : N.compare a b = Eq <-> a = b.
Proof. apply N.compare_eq_iff. Qed.
Definition N_sort_In := sort_dedup_In N.compare N_compare_eq'.
Definition N_sort_sorted := sort_dedup_sorted N.compare N_compare_eq' N_compare_gt_lt N_compare_trans.

(* ------------------------------------------------------------------ *)
(* prefixes and suffixes                                                *)

Lemma starts_with_spec : forall p s, starts_with p s = true <-> exists r, s = p ++ r.
Proof.
  induction p as [|c p IH]; cbn; intros s.
  - split; [eauto|auto].
  - destruct s as [|d s].
    + split; [discriminate|]. intros [r H]. discriminate.
    + rewrite andb_true_iff, N.eqb_eq, IH. split.
      * intros [-> [r ->]]. eauto.
      * intros [r H]. inversion H; subst. eauto.
Qed.
Lemma ends_with_spec p s : ends_with p s = true <-> exists r, s = r ++ p.
Proof.
  unfold ends_with. rewrite starts_with_spec. split.
  - intros [r H]. exists (rev r). rewrite <- (rev_involutive s), H, rev_app_distr, rev_involutive. reflexivity.
  - intros [r ->]. exists (rev r). apply rev_app_distr.
Qed.

Lemma memN_In c l : memN c l = true <-> In c l.
Proof.
  unfold memN. rewrite existsb_exists. split.
  - intros [x [Hx E]]. apply N.eqb_eq in E. subst. auto.
  - intros H. exists c. split; auto. apply N.eqb_refl.
Qed.
Lemma mem_str_In x l : mem_str x l = true <-> In x l.
Proof.
  unfold mem_str. rewrite existsb_exists. split.
  - intros [y [Hy E]]. apply str_eqb_eq in E. subst. auto.
  - intros H. exists x. split; auto. apply str_eqb_refl.
Qed.
Lemma is_nil_true {A} (l : list A) : is_nil l = true <-> l = [].
Proof. destruct l; cbn; split; congruence. Qed.
Lemma is_nil_false {A} (l : list A) : is_nil l = false <-> l <> [].
Proof. destruct l; cbn; split; congruence. Qed.

Lemma count_str_pos f l : (0 < count_str f l)%nat <-> In f l.
Proof.
  unfold count_str. induction l as [|x l IH]; cbn; [lia|].
  destruct (str_eqb f x) eqn:E; cbn.
  - apply str_eqb_eq in E. subst. split; [auto|lia].
  - apply str_eqb_neq in E. rewrite IH. split; [auto|]. intros [H|H]; [congruence|auto].
Qed.

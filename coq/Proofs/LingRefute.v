(* Table facts about language names, and absence of foreign exceptions on the tables of /repo. *)
From Coq Require Import List NArith Bool Arith Lia.
From I18n Require Import Lib.Outcome Model.Ling Model.LingData Generated.IsoCodes Spec.Locale
  Proofs.LingParse Proofs.LingFix Proofs.LingCheck.
Import ListNotations.
Local Open Scope N_scope.

Definition l_pl : language := mkLang [112; 108] None None None.

Definition id_cfg : ling_cfg := gen_cfg (fun x => x).

(* ---------- the language-name table ---------- *)
(* every section name of data/languages is a locale name with known, canonical codes *)
Definition code_ok (kv : list N * list N) : bool :=
  match parse_language (snd kv) with
  | Ok l => match fix_codes id_cfg l with Ok (_, false) => true | _ => false end
  | _ => false
  end.

Theorem names_table : forallb code_ok name_to_code = true.
Proof. vm_compute. reflexivity. Qed.

Lemma name_code_parses munch key code : lg_lookup (cfg_names (gen_cfg munch)) key = Some code ->
  exists l, parse_code code = Ok l.
Proof.
  intros H. apply lg_lookup_in in H. pose proof names_table as Ht. rewrite forallb_forall in Ht.
  specialize (Ht _ H). unfold code_ok in Ht. cbn [snd] in Ht. unfold parse_code.
  destruct (parse_language code) as [l|e|k]; [eauto|discriminate|discriminate].
Qed.

Lemma name_hit_no_crash munch key o : name_hit (gen_cfg munch) key = Some o -> exists l, o = Ok l.
Proof.
  unfold name_hit. destruct (lg_lookup (cfg_names (gen_cfg munch)) key) as [code|] eqn:E; [|discriminate].
  intros H; inversion H; subst. destruct (name_code_parses _ _ _ E) as [l Hl]. eauto.
Qed.

Lemma first_hit_no_crash munch subs o : first_hit (gen_cfg munch) subs = Some o -> exists l, o = Ok l.
Proof.
  induction subs as [|s r IH]; cbn [first_hit]; [discriminate|].
  destruct (name_hit (gen_cfg munch) (lg_strip s)) as [o'|] eqn:E.
  - intros H; inversion H; subst. eapply name_hit_no_crash; eauto.
  - exact IH.
Qed.

Lemma found_codes_parse munch subs c : In c (found_codes (gen_cfg munch) subs) -> exists l, parse_code c = Ok l.
Proof.
  induction subs as [|s r IH]; cbn [found_codes]; [intros []|].
  destruct (lg_lookup (cfg_names (gen_cfg munch)) (lg_strip s)) as [code|] eqn:E; [|exact IH].
  intros [<-|H]; [eapply name_code_parses; eauto|auto].
Qed.

(* get_language_for_name never raises anything but LookupError, whatever the Unicode folding does *)
Theorem lookup_no_crash munch nm c : lookup_munched (gen_cfg munch) nm <> Crash c.
Proof.
  unfold lookup_munched.
  destruct (name_hit (gen_cfg munch) nm) as [o|] eqn:E1.
  { destruct (name_hit_no_crash _ _ _ E1) as [l ->]. discriminate. }
  destruct (if lg_has 59 nm then first_hit (gen_cfg munch) (lg_split 59 nm) else None) as [o|] eqn:E2.
  { destruct (lg_has 59 nm); [|discriminate]. destruct (first_hit_no_crash _ _ _ E2) as [l ->]. discriminate. }
  destruct (lg_has 44 nm); [|discriminate].
  destruct (lg_split1 44 nm) as [a b].
  destruct (name_hit (gen_cfg munch) (lg_strip b ++ [32] ++ lg_strip a)) as [o|] eqn:E3.
  { destruct (name_hit_no_crash _ _ _ E3) as [l ->]. discriminate. }
  destruct (found_codes (gen_cfg munch) (lg_split 44 nm)) as [|c0 r] eqn:E4; [discriminate|].
  destruct (forallb (lg_eqb c0) r); [|discriminate].
  destruct (found_codes_parse munch (lg_split 44 nm) c0) as [l Hl]; [rewrite E4; left; reflexivity|].
  rewrite Hl. discriminate.
Qed.

(* on the tables of /repo, check_language raises nothing *)
Theorem check_language_no_crash munch opt path metas pls pcs tmpl c :
  check_language (gen_cfg munch) opt path metas pls pcs tmpl <> Crash c.
Proof.
  set (cfg := gen_cfg munch).
  assert (Hn : forall nm k, get_language_for_name cfg nm <> Crash k).
  { intros nm k. unfold get_language_for_name. apply lookup_no_crash. }
  unfold check_language. destruct (field_value metas) as [[d0 meta] dd].
  destruct tmpl; [discriminate|].
  rewrite external_language_spec; cbn [obind].
  assert (Hf : forall k, field_language cfg meta <> Crash k).
  { intros k. unfold field_language. destruct meta as [[|c1 o0]|]; try discriminate.
    destruct (parse_language (c1 :: o0)) as [l|e1|k1] eqn:Ep; cbn [obind].
    - destruct (remove_encoding l) as [l1 b1]. destruct (remove_nonlinguistic_modifier l1) as [l2 b2].
      destruct (fix_codes cfg l2) as [[l3 [|]]|e2|k2] eqn:Ef; try discriminate. exfalso. exact (fix_codes_no_crash _ _ _ Ef).
    - destruct (get_language_for_name cfg (c1 :: o0)) as [l|e2|k2] eqn:En; cbn [obind]; try discriminate.
      + destruct (remove_encoding l) as [l1 b1]. destruct (remove_nonlinguistic_modifier l1) as [l2 b2].
        destruct (fix_codes cfg l2) as [[l3 [|]]|e3|k3] eqn:Ef; try discriminate. exfalso. exact (fix_codes_no_crash _ _ _ Ef).
      + exfalso. exact (Hn _ _ En).
    - exfalso. exact (parse_no_crash _ _ Ep). }
  destruct (field_language cfg meta) as [fr|e0|k] eqn:Ef; cbn [obind]; [|discriminate|exfalso; exact (Hf _ eq_refl)].
  destruct (merge_field (libreoffice_drop path (external_source cfg opt path) fr) (f_lang fr)) as [d2 cur1].
  assert (Hp : forall k, poedit_phase cfg pls pcs cur1 <> Crash k).
  { intros k. unfold poedit_phase.
    destruct (if Nat.ltb 1 (length pls) then sorted_set pls else pls) as [|name [|x r]]; try discriminate.
    destruct (Nat.leb _ 1); [|discriminate].
    destruct (get_language_for_name cfg name) as [pl|e1|k1] eqn:En; [destruct cur1 as [[l s]|]| |]; try discriminate.
    exfalso. exact (Hn _ _ En). }
  destruct (poedit_phase cfg pls pcs cur1) as [[d3 cur2]|e0|k] eqn:Ep; cbn [obind]; [discriminate|discriminate|exfalso; exact (Hp _ eq_refl)].
Qed.
